(* C01 (core), part 1 -- validity predicates, the reference bar clock, and soundness of the greedy rest
   decomposition `apply_rest` against the decoder clock. *)
From Coq Require Import ZArith List Bool Lia Permutation.
From Model Require Import Base Util Seq Pairing Tok.
Import ListNotations.
Open Scope Z_scope.

(* ================================================================ validity *)
Definition divb (g x : Z) : bool := x mod g =? 0.

(* g, 2g, ..., up to hi *)
Definition multiples (g hi : Z) : list Z := map (fun k => g * Z.of_nat k) (List.seq 1%nat (Z.to_nat (hi / g))).

(* the grid unit g fits the step sizes: the largest step is a positive multiple of g, and every multiple r of g up to
   the largest step has `largest_le steps r` a positive multiple of g (a finite check).  The default steps
   [2;3;4;6;8;12;16;24] satisfy it with g = 2 although 3 is not a multiple of 2. *)
Definition grid_ok (steps : list Z) (g : Z) : bool :=
  (0 <? g) && (0 <? last steps 0) && divb g (last steps 0) &&
  forallb (fun r => match largest_le steps r with Some v => (0 <? v) && divb g v | None => false end)
          (multiples g (last steps 0)).

Definition valid_cfg (g : Z) (c : cfg) : bool :=
  grid_ok (c_steps c) g && (1 <=? c_ntracks c) &&
  existsb (fun b => VELOCITY_MAX <=? b) (c_vbins c) && forallb (fun b => 0 <=? b) (c_vbins c) &&
  (0 <? bar_cap c DEFAULT_TS_NUM DEFAULT_TS_DEN) && divb g (bar_cap c DEFAULT_TS_NUM DEFAULT_TS_DEN).

(* ---- events *)
Definition event : Set := (Z * pairing)%type.
Definition ev_msg (e : event) : msg := p_first (snd e).
Definition ev_time (e : event) : Z := m_time (ev_msg e).
Definition ev_dur (e : event) : Z := p_off_time (snd e) - ev_time e.

(* reference bar clock: current time, ticks into the current bar, bar capacity, "a note was written into the current
   bar" *)
Record rclk : Set := mkrc { r_time : Z; r_tbar : Z; r_total : Z; r_has : bool }.

(* k bar ends starting at t, `total` apart *)
Fixpoint ends (k : nat) (t total : Z) : list Z :=
  match k with O => [] | S k' => t :: ends k' (t + total) total end.

(* bars completed when the clock advances to time t, the bar ends, the new position in the bar *)
Definition adv_n (k : rclk) (t : Z) : Z := (r_tbar k + (t - r_time k)) / r_total k.
Definition adv_caps (k : rclk) (t : Z) : list Z :=
  ends (Z.to_nat (adv_n k t)) (r_time k - r_tbar k + r_total k) (r_total k).
Definition adv_tbar (k : rclk) (t : Z) : Z := (r_tbar k + (t - r_time k)) mod r_total k.
Definition adv_has (k : rclk) (t : Z) : bool := if 0 <? adv_n k t then false else r_has k.

Definition ts_scaled (m : msg) : Z := (m_num m * DEFAULT_TS_DEN) / m_den m.

(* what one event does to the clock, and the bar ends it passes *)
Definition ref_step (c : cfg) (k : rclk) (e : event) : rclk * list Z :=
  let m := ev_msg e in
  let t := m_time m in
  let tb := adv_tbar k t in
  match m_type m with
  | NOTE_ON => (mkrc t tb (r_total k) true, adv_caps k t)
  | TIME_SIGNATURE =>
      (mkrc t tb (if 0 <? tb then r_total k else bar_cap c (m_num m) (m_den m)) (adv_has k t), adv_caps k t)
  | _ => (mkrc t tb (r_total k) (adv_has k t), adv_caps k t)
  end.

Fixpoint ref_run (c : cfg) (k : rclk) (evs : list event) : rclk * list Z :=
  match evs with
  | [] => (k, [])
  | e :: r => let '(k1, a) := ref_step c k e in let '(k2, b) := ref_run c k1 r in (k2, a ++ b)
  end.

(* the closing rest of `tokenise`: an open bar (or a bar holding a note) is completed *)
Definition ref_close (k : rclk) : rclk * list Z :=
  if ((0 <? r_tbar k) || r_has k) && (0 <? r_total k - r_tbar k)
  then (mkrc (r_time k - r_tbar k + r_total k) 0 (r_total k) false, [r_time k - r_tbar k + r_total k])
  else (k, []).

Definition in_range (lo x hi : Z) : bool := (lo <=? x) && (x <=? hi).

Definition ev_ok (g : Z) (c : cfg) (k : rclk) (e : event) : bool :=
  let m := ev_msg e in
  (r_time k <=? m_time m) && divb g (m_time m) &&
  match m_type m with
  | NOTE_ON =>
      (0 <=? m_chan m) && (m_chan m <? c_ntracks c) && in_range (c_plo c) (m_note m) (c_phi c) &&
      memZ (ev_dur e) (c_values c) && (0 <=? ev_dur e) && (m_vel m <=? VELOCITY_MAX)
  | TIME_SIGNATURE =>
      (* a time signature inside a bar is ignored by the tokeniser; at a bar start it must be expressible *)
      (0 <? adv_tbar k (m_time m)) ||
      ((0 <? m_den m) && ((m_num m * DEFAULT_TS_DEN) mod m_den m =? 0) &&
       in_range (c_tslo c) (ts_scaled m) (c_tshi c) &&
       (0 <? bar_cap c (m_num m) (m_den m)) && divb g (bar_cap c (m_num m) (m_den m)))
  | _ => true
  end.

Fixpoint valid_from (g : Z) (c : cfg) (k : rclk) (evs : list event) : bool :=
  match evs with
  | [] => true
  | e :: r => ev_ok g c k e && valid_from g c (fst (ref_step c k e)) r
  end.

Definition rclk0 (c : cfg) : rclk := mkrc 0 0 (bar_cap c DEFAULT_TS_NUM DEFAULT_TS_DEN) false.
Definition valid_events (g : Z) (c : cfg) (evs : list event) : bool := valid_from g c (rclk0 c) evs.

(* ---- concrete test data (used by the non-vacuity examples) *)
Definition cfg_ex : cfg := make_cfg 2 60 62 None None 4 true true false true true.
Definition ev_note (ch pit t dur vel : Z) : event :=
  (ch, ((O, mk_on ch pit vel t false), Some (None, mk_off ch pit (t + dur) false))).
Definition ev_ts (num den t : Z) : event := (0, ((O, mk_ts 0 num den t false), None)).
Definition ev_cap (t : Z) : event := (0, ((O, mk_internal 0 t), None)).
Definition evs_ex : list event :=
  [ev_note 0 60 0 24 100; ev_note 1 62 0 12 30; ev_note 0 61 50 24 64; ev_ts 3 4 96; ev_note 1 60 100 6 127;
   ev_cap 240].

(* ================================================================ the core of `tokenise` (everything after the front end) *)
Definition core (c : cfg) (st : tstate) (evs : list event) : result (list tok * tstate) :=
  let total := bar_cap c (t_num st) (t_den st) in
  let s0 := mkls [] (t_time st) (t_tbar st) (t_num st) (t_den st) total (t_rem st) (t_ptrk st) (t_pval st) (t_pvel st) false in
  do s1 <- foldM (tok_event c (t_time st)) evs s0;
  do s2 <- (if ((0 <? l_tbar s1) || l_has s1) && (0 <? l_rem s1)
            then apply_rest (rest_fuel (l_rem s1)) c s1 (l_rem s1) else Ok s1);
  Ok (l_toks s2, mkts (l_time s2) (l_tbar s2) (l_num s2) (l_den s2) (l_rem s2) (l_ptrk s2) (l_pval s2) (l_pvel s2)).

Lemma tokenise_core (c : cfg) (st : tstate) (tracks : list (list msg)) :
  tokenise c st tracks =
  if negb (Z.eqb (lenZ tracks) (c_ntracks c)) then Err TokErr else do evs <- tok_frontend tracks; core c st evs.
Proof. reflexivity. Qed.

(* ================================================================ small library *)
Lemma divb_true g x : 0 < g -> divb g x = true -> (g | x).
Proof. intros Hg H. apply Z.eqb_eq in H. apply Z.mod_divide; lia. Qed.
Lemma divb_of g x : 0 < g -> (g | x) -> divb g x = true.
Proof. intros Hg H. apply Z.eqb_eq. apply Z.mod_divide; [lia|assumption]. Qed.

Lemma last_opt_In {A} (l : list A) x : last_opt l = Some x -> In x l.
Proof.
  induction l as [|a l IH]; [discriminate|]. cbn [last_opt]. destruct l as [|b l'].
  - intros H; inversion H; now left.
  - intros H; right; now apply IH.
Qed.

Lemma last_In (l : list Z) : l <> [] -> In (last l 0) l.
Proof.
  intros H. rewrite (app_removelast_last 0 H) at 2. apply in_or_app. right. now left.
Qed.

Lemma foldM_app {A B} (f : B -> A -> result B) (a b : list A) (x : B) :
  foldM f (a ++ b) x = do y <- foldM f a x; foldM f b y.
Proof.
  revert x. induction a as [|h a IH]; intros x; [reflexivity|].
  cbn [app foldM]. destruct (f x h); cbn [rbind]; [apply IH|reflexivity].
Qed.

(* the step chosen by apply_rest *)
Definition pick (c : cfg) (nxt : Z) : option Z :=
  if last_step c <? nxt then Some (last_step c) else largest_le (c_steps c) nxt.

Lemma pick_ok g c nxt :
  grid_ok (c_steps c) g = true -> 0 < nxt -> (g | nxt) ->
  exists v, pick c nxt = Some v /\ 0 < v <= nxt /\ (g | v) /\ In v (c_steps c).
Proof.
  unfold grid_ok, pick, last_step. intros H Hn Hd.
  apply andb_prop in H; destruct H as [H Hall]. apply andb_prop in H; destruct H as [H Hld].
  apply andb_prop in H; destruct H as [Hg Hl]. apply Z.ltb_lt in Hg, Hl.
  apply (divb_true _ _ Hg) in Hld.
  assert (Hne : c_steps c <> []) by (intros E; rewrite E in Hl; cbn in Hl; lia).
  destruct (last (c_steps c) 0 <? nxt) eqn:E; [apply Z.ltb_lt in E | apply Z.ltb_ge in E].
  - exists (last (c_steps c) 0). repeat split; try lia; try assumption. now apply last_In.
  - destruct Hd as [q Hq].
    assert (Hq1 : 1 <= q) by nia.
    assert (Hq2 : q <= last (c_steps c) 0 / g) by (apply Z.div_le_lower_bound; nia).
    assert (Hin : In nxt (multiples g (last (c_steps c) 0))).
    { unfold multiples. apply in_map_iff. exists (Z.to_nat q). split; [rewrite Z2Nat.id by lia; lia|].
      apply in_seq. lia. }
    rewrite forallb_forall in Hall. specialize (Hall _ Hin).
    destruct (largest_le (c_steps c) nxt) as [v|] eqn:Ev; [|discriminate].
    apply andb_prop in Hall; destruct Hall as [Hv Hdv]. apply Z.ltb_lt in Hv. apply (divb_true _ _ Hg) in Hdv.
    unfold largest_le in Ev. apply last_opt_In in Ev. apply filter_In in Ev. destruct Ev as [Ei Ele].
    apply Z.leb_le in Ele. exists v. repeat split; try lia; assumption.
Qed.

(* ================================================================ what the decoder inserted: the note / cap view *)
Definition is_cap (m : msg) : bool := mtype_eqb (m_type m) INTERNAL.
Definition rel (m : msg) : bool := is_note m || is_cap m.
Definition view (seqs : list (list msg)) (i : nat) : list msg :=
  match nth_error seqs i with Some l => filter rel l | None => [] end.

Lemma insort_perm x l : Permutation (insort x l) (x :: l).
Proof.
  induction l as [|y l IH]; cbn [insort]; [apply Permutation_refl|].
  destruct (m_time x <? m_time y); [apply Permutation_refl|].
  eapply perm_trans; [apply perm_skip, IH|apply perm_swap].
Qed.

Lemma filter_perm {A} (f : A -> bool) a b : Permutation a b -> Permutation (filter f a) (filter f b).
Proof.
  induction 1 as [|x a b H IH|x y a|a b c H1 IH1 H2 IH2]; cbn [filter].
  - apply perm_nil.
  - destruct (f x); [apply perm_skip|]; assumption.
  - destruct (f x), (f y); try apply Permutation_refl. apply perm_swap.
  - eapply perm_trans; eassumption.
Qed.

Lemma view_map_insort x seqs i :
  rel x = true -> (i < length seqs)%nat -> Permutation (view (map (insort x) seqs) i) (x :: view seqs i).
Proof.
  intros Hx Hi. unfold view. destruct (nth_error seqs i) as [l|] eqn:E.
  - rewrite (map_nth_error _ _ _ E).
    eapply perm_trans; [apply filter_perm, insort_perm|]. cbn [filter]. rewrite Hx. apply Permutation_refl.
  - apply nth_error_None in E. lia.
Qed.

(* ================================================================ apply_rest *)
Definition linv (g : Z) (s : lstate) : Prop :=
  0 < l_rem s /\ l_tbar s + l_rem s = l_total s /\ 0 <= l_tbar s /\ (g | l_rem s) /\ (g | l_total s).
Definition clk_eq (s : lstate) (d : dstate) : Prop :=
  d_time d = l_time s /\ d_tbar d = l_tbar s /\ d_total d = l_total s /\ d_rem d = l_rem s.
Definition lframe (s s' : lstate) : Prop :=
  l_num s' = l_num s /\ l_den s' = l_den s /\ l_total s' = l_total s /\
  l_ptrk s' = l_ptrk s /\ l_pval s' = l_pval s /\ l_pvel s' = l_pvel s.
Definition dframe (d d' : dstate) : Prop :=
  d_ptrk d' = d_ptrk d /\ d_pval d' = d_pval d /\ d_pvel d' = d_pvel d /\
  length (d_seqs d') = length (d_seqs d).
Definition rest_tok (c : cfg) (t : tok) : Prop := t = TBar \/ exists v, t = TRest v /\ In v (c_steps c).

Definition caps_msgs (l : list Z) : list msg := map (mk_internal 0) l.

Lemma apply_rest_S f c s buf :
  apply_rest (S f) c s buf =
  if buf <=? 0 then Ok s else
  match pick c (Z.min buf (l_rem s)) with
  | None => Err TokErr
  | Some v =>
      let atend := Z.eqb (l_rem s - v) 0 in
      apply_rest f c (mkls (l_toks s ++ [TRest v] ++ (if atend then [TBar] else []))
                         (l_time s + v) (if atend then 0 else l_tbar s + v) (l_num s) (l_den s) (l_total s)
                         (if atend then l_total s else l_rem s - v) (l_ptrk s) (l_pval s) (l_pvel s)
                         (if atend then false else l_has s)) (buf - v)
  end.
Proof. reflexivity. Qed.

Lemma apply_rest_sound g c (Hg : grid_ok (c_steps c) g = true) :
  forall fuel s buf d,
    linv g s -> 0 <= buf -> (g | buf) -> (Z.to_nat buf < fuel)%nat -> clk_eq s d ->
    exists s' new d',
      apply_rest fuel c s buf = Ok s' /\ l_toks s' = l_toks s ++ new /\ Forall (rest_tok c) new /\
      l_time s' = l_time s + buf /\ l_tbar s' = (l_tbar s + buf) mod l_total s /\
      linv g s' /\ lframe s s' /\
      l_has s' = (if 0 <? (l_tbar s + buf) / l_total s then false else l_has s) /\
      foldM (detok_step c) new d = Ok d' /\ clk_eq s' d' /\ dframe d d' /\
      forall i, (i < length (d_seqs d))%nat ->
        Permutation (view (d_seqs d') i)
          (caps_msgs (ends (Z.to_nat ((l_tbar s + buf) / l_total s)) (l_time s + l_rem s) (l_total s))
           ++ view (d_seqs d) i).
Proof.
  induction fuel as [|fuel IH]; intros s buf d Hinv Hb Hdb Hf Hclk; [lia|].
  rewrite apply_rest_S.
  destruct (buf <=? 0) eqn:Eb; [apply Z.leb_le in Eb | apply Z.leb_gt in Eb].
  - (* nothing to do *)
    assert (buf = 0) by lia. subst buf.
    exists s, [], d. destruct Hinv as (Hr & Hsum & Htb & Hdr & Hdt).
    rewrite Z.add_0_r, Z.div_small, Z.mod_small by lia.
    cbn [foldM Z.to_nat ends caps_msgs map app Z.ltb Z.compare].
    unfold lframe, dframe. rewrite app_nil_r.
    destruct Hclk as (C1 & C2 & C3 & C4).
    repeat split; try lia; try assumption; try reflexivity; try constructor.
  - destruct s as [toks time tbar num den total rem ptrk pval pvel has].
    destruct d as [seqs dtime dtbar dnum dden dtotal drem dptrk dpval dpvel].
    unfold linv in Hinv. unfold clk_eq in Hclk.
    cbn [l_toks l_time l_tbar l_num l_den l_total l_rem l_ptrk l_pval l_pvel l_has
         d_seqs d_time d_tbar d_num d_den d_total d_rem d_ptrk d_pval d_pvel] in *.
    destruct Hinv as (Hr & Hsum & Htb & Hdr & Hdt). destruct Hclk as (-> & -> & -> & ->).
    assert (Hmin : 0 < Z.min buf rem) by lia.
    assert (Hdm : (g | Z.min buf rem)) by (apply Z.min_case; assumption).
    destruct (pick_ok g c _ Hg Hmin Hdm) as (v & Hp & Hv & Hdv & Hin). rewrite Hp. cbv zeta.
    destruct (rem - v =? 0) eqn:Eat; [apply Z.eqb_eq in Eat | apply Z.eqb_neq in Eat].
    + (* the rest completes the bar *)
      assert (v = rem) by lia. subst v.
      match goal with |- context [apply_rest fuel c ?x _] => set (s1 := x) end.
      set (d1 := mkds (map (insort (mk_internal 0 (time + rem))) seqs) (time + rem) 0 dnum dden total total dptrk dpval dpvel).
      assert (Hinv1 : linv g s1) by (unfold linv, s1; cbn; repeat split; try lia; assumption).
      assert (Hclk1 : clk_eq s1 d1) by (unfold clk_eq, s1, d1; cbn; repeat split; lia).
      assert (Hd1 : (g | buf - rem)) by (apply Z.divide_sub_r; assumption).
      destruct (IH s1 (buf - rem) d1 Hinv1 ltac:(lia) Hd1 ltac:(lia) Hclk1)
        as (s' & new & d' & Hrun & Htoks & Hall & Htime & Htbar & Hinv' & Hfr & Hhas & Hdec & Hclk' & Hdfr & Hview).
      exists s', ([TRest rem; TBar] ++ new), d'.
      unfold s1 in Htoks, Htime, Htbar, Hfr, Hhas, Hview; unfold lframe in *; unfold d1, dframe in Hdfr, Hview;
      cbn [l_toks l_time l_tbar l_num l_den l_total l_rem l_ptrk l_pval l_pvel l_has
           d_seqs d_time d_tbar d_num d_den d_total d_rem d_ptrk d_pval d_pvel] in *.
      assert (Ediv : (tbar + buf) / total = 1 + (buf - rem) / total).
      { replace (tbar + buf) with (1 * total + (buf - rem)) by lia. apply Z_div_plus_full_l. lia. }
      assert (Emod : (tbar + buf) mod total = (buf - rem) mod total).
      { replace (tbar + buf) with ((buf - rem) + 1 * total) by lia. apply Z_mod_plus_full. }
      rewrite Ediv, Emod. rewrite Z.add_0_l in *.
      assert (Hq : 0 <= (buf - rem) / total) by (apply Z.div_pos; lia).
      replace (Z.to_nat (1 + (buf - rem) / total)) with (S (Z.to_nat ((buf - rem) / total))) by lia.
      destruct (0 <? 1 + (buf - rem) / total) eqn:E1; [|apply Z.ltb_ge in E1; lia].
      assert (Hstep : foldM (detok_step c) [TRest rem; TBar]
                 (mkds seqs time tbar dnum dden total rem dptrk dpval dpvel) = Ok d1).
      { cbn [foldM detok_step rbind set_clock d_seqs d_time d_tbar d_num d_den d_total d_rem d_ptrk d_pval d_pvel].
        unfold d1. replace (rem - rem) with 0 by lia. rewrite Z.add_0_r. reflexivity. }
      split; [exact Hrun|]. split; [rewrite Htoks; now rewrite <- !app_assoc|].
      split; [constructor; [right; exists rem; auto|constructor; [now left|exact Hall]]|].
      split; [lia|]. split; [exact Htbar|]. split; [exact Hinv'|]. split; [exact Hfr|].
      split; [rewrite Hhas; now destruct (0 <? (buf - rem) / total)|].
      split; [rewrite foldM_app, Hstep; exact Hdec|]. split; [exact Hclk'|].
      split; [rewrite map_length in Hdfr; exact Hdfr|].
      intros i Hi. cbn [ends caps_msgs map app].
      eapply perm_trans; [apply Hview; now rewrite map_length|].
      eapply perm_trans; [apply Permutation_app_head, view_map_insort; [reflexivity|exact Hi]|].
      apply Permutation_sym, Permutation_middle.
    + (* the rest stays inside the bar *)
      match goal with |- context [apply_rest fuel c ?x _] => set (s1 := x) end.
      set (d1 := mkds seqs (time + v) (tbar + v) dnum dden total (rem - v) dptrk dpval dpvel).
      assert (Hinv1 : linv g s1).
      { unfold linv, s1; cbn; repeat split; try lia; try assumption. now apply Z.divide_sub_r. }
      assert (Hclk1 : clk_eq s1 d1) by (unfold clk_eq, s1, d1; cbn; repeat split; lia).
      assert (Hd1 : (g | buf - v)) by (apply Z.divide_sub_r; assumption).
      destruct (IH s1 (buf - v) d1 Hinv1 ltac:(lia) Hd1 ltac:(lia) Hclk1)
        as (s' & new & d' & Hrun & Htoks & Hall & Htime & Htbar & Hinv' & Hfr & Hhas & Hdec & Hclk' & Hdfr & Hview).
      exists s', ([TRest v] ++ new), d'.
      unfold s1 in Htoks, Htime, Htbar, Hfr, Hhas, Hview; unfold lframe in *; unfold d1, dframe in Hdfr, Hview;
      cbn [l_toks l_time l_tbar l_num l_den l_total l_rem l_ptrk l_pval l_pvel l_has
           d_seqs d_time d_tbar d_num d_den d_total d_rem d_ptrk d_pval d_pvel] in *.
      replace (tbar + v + (buf - v)) with (tbar + buf) in * by lia.
      replace (time + v + (rem - v)) with (time + rem) in * by lia.
      split; [exact Hrun|]. split; [rewrite Htoks; now rewrite <- !app_assoc|].
      split; [constructor; [right; exists v; auto|exact Hall]|].
      split; [lia|]. split; [exact Htbar|]. split; [exact Hinv'|]. split; [exact Hfr|].
      split; [exact Hhas|].
      split; [exact Hdec|]. split; [exact Hclk'|]. split; [exact Hdfr|]. exact Hview.
Qed.

(* with the fuel the tokeniser uses *)
Lemma apply_rest_sound_fuel g c s buf d :
  grid_ok (c_steps c) g = true -> linv g s -> 0 <= buf -> (g | buf) -> clk_eq s d ->
  exists s' new d',
    apply_rest (rest_fuel buf) c s buf = Ok s' /\ l_toks s' = l_toks s ++ new /\ Forall (rest_tok c) new /\
    l_time s' = l_time s + buf /\ l_tbar s' = (l_tbar s + buf) mod l_total s /\
    linv g s' /\ lframe s s' /\
    l_has s' = (if 0 <? (l_tbar s + buf) / l_total s then false else l_has s) /\
    foldM (detok_step c) new d = Ok d' /\ clk_eq s' d' /\ dframe d d' /\
    forall i, (i < length (d_seqs d))%nat ->
      Permutation (view (d_seqs d') i)
        (caps_msgs (ends (Z.to_nat ((l_tbar s + buf) / l_total s)) (l_time s + l_rem s) (l_total s))
         ++ view (d_seqs d) i).
Proof. intros Hg Hi Hb Hd Hc. apply (apply_rest_sound g c Hg); try assumption. unfold rest_fuel. lia. Qed.
