(* C04 -- The absolute and the relative view of a Sequence never diverge under any history.

   Vocabulary (defined in Proofs/C04_sort.v, C04_proofs.v, C04_inv.v, C04_main.v):
     ev_abs a   timed events of an absolute list: every non-INTERNAL message with its time (message kept without its
                time field and float tag), in list order
     ev_rel r   timed events of a relative list: every non-WAIT, non-INTERNAL message with the sum of the waits
                before it, in list order
     dur_abs a  time of the last message (0 if empty);   dur_rel r  sum of the waits (model function)
     tsorted a  sorted by time;  wfa a  no negative time and no WAIT message;  wfr r  no negative wait
     inv_b s    boolean invariant of a Sequence object, spelled out by C04_inv_meaning
     op_wf o    the literal arguments of operation o are well-formed: message lists given to ONewAbs / OOverwriteAbs /
                OAddAbs satisfy wfa, those given to ONewRel / OOverwriteRel / OAddRel / OConcatLit satisfy wfr, edit
                scripts set no negative time, 0 <= scale factor, 0 <= cutoff reduced length, quantisation steps > 0,
                note values >= 0; no condition on any other argument (indices, capacities, channels, ...) *)
From Coq Require Import ZArith List Bool Permutation.
From Model Require Import Base Seq Store.
From Proofs Require Import C04_sort C04_proofs C04_ops C04_inv C04_main C04_read.
Import ListNotations.
Open Scope Z_scope.

(* ---------------------------------------------------------------- conversions lose nothing *)
(* "Converting ... loses no event and no duration", relative -> absolute.  The events survive for EVERY relative list
   (as a multiset: simultaneous messages are re-ordered by the sort), the result is sorted by time; the duration
   survives when no wait is negative (the INTERNAL cap carries a trailing wait). *)
Theorem C04_conv_rel_abs : forall r : list msg,
  Permutation (ev_abs (to_abs r)) (ev_rel r) /\ tsorted (to_abs r) = true /\
  (wfr r = true -> dur_abs (to_abs r) = dur_rel r /\ wfa (to_abs r) = true).
Proof. exact C04_proofs.C04_conv_rel_abs. Qed.
Print Assumptions C04_conv_rel_abs.

(* absolute -> relative: on a time-sorted list without negative times / WAIT messages the events come back with their
   own times IN THE SAME ORDER, and the waits add up to the time of the last message. *)
Theorem C04_conv_abs_rel : forall a : list msg,
  tsorted a = true -> wfa a = true ->
  ev_rel (to_rel a) = ev_abs a /\ dur_rel (to_rel a) = dur_abs a /\ wfr (to_rel a) = true.
Proof. exact C04_proofs.C04_conv_abs_rel. Qed.
Print Assumptions C04_conv_abs_rel.

(* helpers: sort_abs is a permutation, sorts by time, is idempotent and stable (messages with the same
   (time, channel, type rank, note) key keep their order); insort is a permutation and keeps time-sortedness *)
Theorem C04_sort_abs : forall l : list msg,
  Permutation l (sort_abs l) /\ tsorted (sort_abs l) = true /\ sort_abs (sort_abs l) = sort_abs l /\
  forall k, filter (skey_eqb k) (sort_abs l) = filter (skey_eqb k) l.
Proof. exact C04_main.C04_sort_abs. Qed.
Print Assumptions C04_sort_abs.

Theorem C04_insort : forall (x : msg) (l : list msg),
  Permutation (x :: l) (insort x l) /\ (tsorted l = true -> tsorted (insort x l) = true).
Proof. exact C04_main.C04_insort. Qed.
Print Assumptions C04_insort.

(* ---------------------------------------------------------------- the invariant *)
(* what inv_b says: (1) not both views stale; (2) a fresh absolute view is time-sorted and well-formed; (3) a fresh
   relative view is well-formed; (4) when both are fresh they hold the same timed events (as a multiset) and the same
   duration *)
Theorem C04_inv_meaning : forall s : seq,
  inv_b s = true <->
  (s_abs_stale s && s_rel_stale s = false) /\
  (s_abs_stale s = false -> tsorted (s_abs s) = true /\ wfa (s_abs s) = true) /\
  (s_rel_stale s = false -> wfr (s_rel s) = true) /\
  (s_abs_stale s = false -> s_rel_stale s = false ->
     Permutation (ev_abs (s_abs s)) (ev_rel (s_rel s)) /\ dur_abs (s_abs s) = dur_rel (s_rel s)).
Proof. exact C04_main.C04_inv_meaning. Qed.
Print Assumptions C04_inv_meaning.

(* EVERY operation of the alphabet `op` (all 32 constructors, none excluded) keeps the invariant of every object of
   the store, from every freshness state *)
Theorem C04_step_inv : forall (st : store) (o : op),
  forallb inv_b st = true -> op_wf o = true -> forallb inv_b (fst (step st o)) = true.
Proof. exact C04_main.C04_step_inv. Qed.
Print Assumptions C04_step_inv.

(* hence every finite history, started from the empty store (or from any store satisfying the invariant) *)
Theorem C04_reachable : forall ops : list op,
  forallb op_wf ops = true -> forallb inv_b (fst (run [] ops)) = true.
Proof. exact C04_main.C04_reachable. Qed.
Print Assumptions C04_reachable.

Theorem C04_run_inv : forall (st : store) (ops : list op),
  forallb inv_b st = true -> forallb op_wf ops = true -> forallb inv_b (fst (run st ops)) = true.
Proof. exact C04_main.C04_run_inv. Qed.
Print Assumptions C04_run_inv.

(* ---------------------------------------------------------------- consequences *)
(* "no legal history leaves the sequence unreadable" *)
Theorem C04_readable : forall s : seq, inv_b s = true ->
  (exists s1 a, get_abs s = Ok (s1, a)) /\ (exists s2 r, get_rel s = Ok (s2, r)).
Proof. exact C04_main.C04_readable. Qed.
Print Assumptions C04_readable.

(* readability needs no assumption at all: after ANY history (arbitrary operations with arbitrary, even ill-formed,
   arguments) no object has both views stale, so both properties of every object can be read *)
Theorem C04_readable_any_history : forall (ops : list op) (i : nat) (s : seq),
  nth_error (fst (run [] ops)) i = Some s ->
  (exists s1 a, get_abs s = Ok (s1, a)) /\ (exists s2 r, get_rel s = Ok (s2, r)).
Proof. exact C04_read.C04_readable_any_history. Qed.
Print Assumptions C04_readable_any_history.

(* "the absolute view and the relative view describe the same timed events and the same total duration": the lists
   returned by the two properties, read independently ... *)
Theorem C04_views_agree : forall (s s1 s2 : seq) (a r : list msg),
  inv_b s = true -> get_abs s = Ok (s1, a) -> get_rel s = Ok (s2, r) ->
  Permutation (ev_abs a) (ev_rel r) /\ dur_abs a = dur_rel r.
Proof. exact C04_main.C04_views_agree. Qed.
Print Assumptions C04_views_agree.

(* ... or one after the other, in either order ("every interleaving of reads") *)
Theorem C04_views_agree_seq : forall (s s1 s2 : seq) (a r : list msg),
  inv_b s = true ->
  (get_abs s = Ok (s1, a) -> get_rel s1 = Ok (s2, r) -> Permutation (ev_abs a) (ev_rel r) /\ dur_abs a = dur_rel r) /\
  (get_rel s = Ok (s1, r) -> get_abs s1 = Ok (s2, a) -> Permutation (ev_abs a) (ev_rel r) /\ dur_abs a = dur_rel r).
Proof. exact C04_main.C04_views_agree_seq. Qed.
Print Assumptions C04_views_agree_seq.

(* the statement of C04 in one piece: after any well-formed history every object is readable through both properties,
   and what the two properties return agrees on the events and on the duration *)
Theorem C04_history : forall (ops : list op) (i : nat) (s : seq),
  forallb op_wf ops = true -> nth_error (fst (run [] ops)) i = Some s ->
  exists s1 a s2 r, get_abs s = Ok (s1, a) /\ get_rel s = Ok (s2, r) /\
                    Permutation (ev_abs a) (ev_rel r) /\ dur_abs a = dur_rel r /\
                    tsorted a = true /\ wfa a = true /\ wfr r = true.
Proof. exact C04_main.C04_history. Qed.
Print Assumptions C04_history.

(* "the effect of every operation is visible through both views": right after a mutator that wrote f(a) into the
   absolute view (add_absolute_message, cutoff, quantise, quantise_note_lengths, merge, edits of messages_abs, ...)
   the absolute property returns f(a) and the relative property returns exactly the events of f(a), in order, and its
   duration; symmetrically for mutators of the relative view (add_relative_message, normalise, pad, set_channel,
   scale, transpose, concatenate, edits of messages_rel, ...), up to the order of simultaneous events *)
Theorem C04_effect_visible_abs : forall (s s' : seq) (f : list msg -> list msg),
  inv_b s = true -> inv_b s' = true -> upd_abs s f = Ok s' ->
  exists s1 a, get_abs s = Ok (s1, a) /\ get_abs s' = Ok (s', f a) /\
  exists s2, get_rel s' = Ok (s2, to_rel (f a)) /\
             ev_rel (to_rel (f a)) = ev_abs (f a) /\ dur_rel (to_rel (f a)) = dur_abs (f a).
Proof. exact C04_main.C04_effect_visible_abs. Qed.
Print Assumptions C04_effect_visible_abs.

Theorem C04_effect_visible_rel : forall (s s' : seq) (f : list msg -> list msg),
  inv_b s = true -> inv_b s' = true -> upd_rel s f = Ok s' ->
  exists s1 r, get_rel s = Ok (s1, r) /\ get_rel s' = Ok (s', f r) /\
  exists s2, get_abs s' = Ok (s2, to_abs (f r)) /\
             Permutation (ev_abs (to_abs (f r))) (ev_rel (f r)) /\ dur_abs (to_abs (f r)) = dur_rel (f r).
Proof. exact C04_main.C04_effect_visible_rel. Qed.
Print Assumptions C04_effect_visible_rel.

(* ================================================================ compound operations (Model/ScaleDown.v)
   Extra imports needed at the top of Props/C04.v:
     From Model Require Import ScaleDown.
     From Proofs Require Import C04_hops.
   Vocabulary (Proofs/C04_hops.v):
     hop_wf h   the literal arguments of the compound operation h are well-formed: op_wf of every constituent
                operation (HOp o / HFail o e: o; HSeq os: all of os; HScaleDown i k meta then_: all of then_) and, for
                HScaleDown, 0 < k
     hop_wf0 h  the same without the condition on k *)
From Model Require Import ScaleDown.
From Proofs Require Import C04_hops.

(* scale(1/k, meta_sequence) on object i keeps the invariant of every object of the store: on success (object i gets
   the new relative list and a stale absolute view) and on failure (only views of i / the meta object were refreshed),
   for every kind of meta object (none, the receiver itself, another object, a missing object) *)
Theorem C04_scale_down_inv : forall (st : store) (i : nat) (k : Z) (meta : option nat),
  forallb inv_b st = true -> 0 < k -> forallb inv_b (fst (store_scale_down st i k meta)) = true.
Proof. exact C04_hops.C04_scale_down_inv. Qed.
Print Assumptions C04_scale_down_inv.

(* ... in fact for EVERY integer k: with k <= 0 the model's grouping loop makes no progress and the call fails *)
Theorem C04_scale_down_inv_any_k : forall (st : store) (i : nat) (k : Z) (meta : option nat),
  forallb inv_b st = true -> forallb inv_b (fst (store_scale_down st i k meta)) = true.
Proof. exact C04_hops.C04_scale_down_inv_any_k. Qed.
Print Assumptions C04_scale_down_inv_any_k.

(* EVERY compound operation (all 4 constructors of `hop`, including a compound that stops at its first error and a
   call that raises after its state effect) keeps the invariant of every object of the store *)
Theorem C04_hstep_inv : forall (st : store) (h : hop),
  forallb inv_b st = true -> hop_wf h = true -> forallb inv_b (fst (hstep st h)) = true.
Proof. exact C04_hops.C04_hstep_inv. Qed.
Print Assumptions C04_hstep_inv.

Theorem C04_hstep_inv_any_k : forall (st : store) (h : hop),
  forallb inv_b st = true -> hop_wf0 h = true -> forallb inv_b (fst (hstep st h)) = true.
Proof. exact C04_hops.C04_hstep_inv_any_k. Qed.
Print Assumptions C04_hstep_inv_any_k.

(* hence every finite history of compound operations, from any store satisfying the invariant / from the empty store *)
Theorem C04_run_h_inv : forall (st : store) (hs : list hop),
  forallb inv_b st = true -> forallb hop_wf hs = true -> forallb inv_b (fst (run_h st hs)) = true.
Proof. exact C04_hops.C04_run_h_inv. Qed.
Print Assumptions C04_run_h_inv.

Theorem C04_run_h_inv_any_k : forall (st : store) (hs : list hop),
  forallb inv_b st = true -> forallb hop_wf0 hs = true -> forallb inv_b (fst (run_h st hs)) = true.
Proof. exact C04_hops.C04_run_h_inv_any_k. Qed.
Print Assumptions C04_run_h_inv_any_k.

Theorem C04_reachable_h : forall hs : list hop,
  forallb hop_wf hs = true -> forallb inv_b (fst (run_h [] hs)) = true.
Proof. exact C04_hops.C04_reachable_h. Qed.
Print Assumptions C04_reachable_h.

(* the statement of C04 in one piece for histories of compound operations (the alphabet the correspondence check
   runs): every object of the final store is readable through both properties and the two lists agree *)
Theorem C04_history_h : forall (hs : list hop) (i : nat) (s : seq),
  forallb hop_wf hs = true -> nth_error (fst (run_h [] hs)) i = Some s ->
  exists s1 a s2 r, get_abs s = Ok (s1, a) /\ get_rel s = Ok (s2, r) /\
                    Permutation (ev_abs a) (ev_rel r) /\ dur_abs a = dur_rel r /\
                    tsorted a = true /\ wfa a = true /\ wfr r = true.
Proof. exact C04_hops.C04_history_h. Qed.
Print Assumptions C04_history_h.

Theorem C04_history_h_any_k : forall (hs : list hop) (i : nat) (s : seq),
  forallb hop_wf0 hs = true -> nth_error (fst (run_h [] hs)) i = Some s ->
  exists s1 a s2 r, get_abs s = Ok (s1, a) /\ get_rel s = Ok (s2, r) /\
                    Permutation (ev_abs a) (ev_rel r) /\ dur_abs a = dur_rel r /\
                    tsorted a = true /\ wfa a = true /\ wfr r = true.
Proof. exact C04_hops.C04_history_h_any_k. Qed.
Print Assumptions C04_history_h_any_k.

(* histories of plain operations are the histories of compound operations built from HOp only *)
Theorem C04_run_h_HOp : forall (ops : list op) (st : store), run_h st (map HOp ops) = run st ops.
Proof. exact C04_hops.run_h_HOp. Qed.
Print Assumptions C04_run_h_HOp.

(* readability needs no assumption at all: after ANY history of compound operations (arbitrary, even ill-formed,
   arguments; k <= 0; missing objects) no object has both views stale *)
Theorem C04_readable_any_hops : forall (hs : list hop) (i : nat) (s : seq),
  nth_error (fst (run_h [] hs)) i = Some s ->
  (exists s1 a, get_abs s = Ok (s1, a)) /\ (exists s2 r, get_rel s = Ok (s2, r)).
Proof. exact C04_hops.C04_readable_any_hops. Qed.
Print Assumptions C04_readable_any_hops.
