(* C09_sound -- last sentence of C09 (note-length re-quantisation OFF): laid end to end, a track's bars reproduce
   exactly its sounding (channel, pitch, tick) set -- C08's `sound k t 0 None`, including the velocity.
   Part 1: `sound` is a function of the timed note messages (tick, NOTE_ON/NOTE_OFF) of the list.
   Part 2: normalise keeps the timed note messages of a list whose notes alternate (whatever its signatures).
   Part 3: Bar.__init__ (normalise, pad, signature message) keeps the sound of a paired piece.
   Part 4: one round of the loop on one track (C08_sound / C08_exact / C08_no_open_end), induction over sb_loop. *)
From Coq Require Import ZArith List Bool Lia.
From Model Require Import Base Seq Bars.
From Proofs Require Import C07_proofs C08_proofs C09_proofs.
Import ListNotations.
Open Scope Z_scope.

(* ================================================================ Part 1: sound from timed notes *)
Definition knote (k : k2) (m : msg) : bool := is_note m && k2_eqb k (mkey m).

Definition win (o : option (Z * Z)) (t b : Z) : option Z :=
  match o with Some (a, v) => if (a <=? t) && (t <? b) then Some v else None | None => None end.

(* o = Some (a, v): the key is open since tick a with velocity v *)
Fixpoint tsound (k : k2) (t : Z) (o : option (Z * Z)) (tl : list (Z * msg)) : option Z :=
  match tl with
  | [] => None
  | (b, m) :: r =>
      if knote k m then orelse (win o t b) (tsound k t (if is_on m then Some (b, m_vel m) else None) r)
      else tsound k t o r
  end.

Lemma tsound_filter k t : forall tl o, tsound k t o tl = tsound k t o (filter (fun p => knote k (snd p)) tl).
Proof.
  induction tl as [|[b m] tl IH]; intros o; [reflexivity|]. cbn [tsound filter snd].
  destruct (knote k m) eqn:K; cbn [tsound]; rewrite ?K; [now rewrite IH|apply IH].
Qed.

Lemma is_on_t m : m_type m = NOTE_ON -> is_on m = true /\ is_note m = true /\ is_wait m = false.
Proof. intros T. unfold is_note, is_on, is_off, is_wait, mtype_eqb. now rewrite T. Qed.
Lemma is_off_t m : m_type m = NOTE_OFF -> is_on m = false /\ is_note m = true /\ is_wait m = false.
Proof. intros T. unfold is_note, is_on, is_off, is_wait, mtype_eqb. now rewrite T. Qed.
Lemma is_plain_t m : is_plain m -> is_note m = false /\ is_wait m = false.
Proof.
  intros (H1 & H2 & H3). unfold is_note, is_on, is_off, is_wait, mtype_eqb.
  destruct (m_type m); try congruence; split; reflexivity.
Qed.

Lemma orun_cons k o m l : orun k o (m :: l) = orun k (ostep k o m) l.
Proof. reflexivity. Qed.

Lemma sound_tsound k t : forall l now o,
  C08_proofs.waits_nonneg l = true -> (forall a v, o = Some (a, v) -> a <= now) ->
  orun k (option_map snd o) l = None ->
  orelse (win o t now) (sound k t now (option_map snd o) l) = tsound k t o (timed now l).
Proof.
  induction l as [|m l IH]; intros now o Hnn Ho Hcl.
  - cbn in Hcl. destruct o as [[a v]|]; [discriminate|reflexivity].
  - rewrite orun_cons in Hcl. cbn [sound timed].
    destruct (type_cases m) as [T|[T|[T|T]]].
    + (* NOTE_ON *)
      destruct (is_on_t m T) as (On & Nt & Wt). rewrite Wt, hit_nw, dt_nw, Z.add_0_r by congruence. cbn [orelse tsound].
      unfold knote. rewrite Nt. cbn [andb]. unfold ostep in *. rewrite T in *.
      destruct (k2_eqb k (mkey m)) eqn:K.
      * rewrite On. specialize (IH now (Some (now, m_vel m)) (wn_cons _ _ Hnn)). cbn [option_map snd] in IH.
        assert (W0 : win (Some (now, m_vel m)) t now = None).
        { unfold win. replace ((now <=? t) && (t <? now)) with false; [reflexivity|].
          symmetry. apply andb_false_iff. destruct (Z.leb_spec now t); [right; apply Z.ltb_ge; lia|now left]. }
        rewrite W0 in IH. cbn [orelse] in IH.
        rewrite <- IH; [reflexivity|intros a v [= <- _]; lia|exact Hcl].
      * apply IH; [exact (wn_cons _ _ Hnn)|exact Ho|exact Hcl].
    + (* NOTE_OFF *)
      destruct (is_off_t m T) as (On & Nt & Wt). rewrite Wt, hit_nw, dt_nw, Z.add_0_r by congruence. cbn [orelse tsound].
      unfold knote. rewrite Nt. cbn [andb]. unfold ostep in *. rewrite T in *.
      destruct (k2_eqb k (mkey m)) eqn:K.
      * rewrite On. specialize (IH now None (wn_cons _ _ Hnn)). cbn [option_map win orelse] in IH.
        rewrite <- IH; [reflexivity|discriminate|exact Hcl].
      * apply IH; [exact (wn_cons _ _ Hnn)|exact Ho|exact Hcl].
    + (* WAIT *)
      destruct (wn_cons_wait _ _ T Hnn) as [Hw Hnn'].
      rewrite (is_wait_true _ T). unfold ostep in *. rewrite T in *.
      assert (Hdt : dt m = m_time m) by (unfold dt; now rewrite T). rewrite Hdt.
      rewrite <- (IH (now + m_time m) o Hnn'); [|intros a v E; specialize (Ho a v E); lia|exact Hcl].
      rewrite <- orelse_assoc. f_equal. unfold hit. rewrite T.
      destruct o as [[a v]|]; cbn [option_map snd win orelse]; [|now destruct (_ && _)].
      specialize (Ho a v eq_refl).
      destruct (Z.leb_spec a t), (Z.ltb_spec t now), (Z.leb_spec now t), (Z.ltb_spec t (now + m_time m));
        cbn [andb orelse]; try reflexivity; lia.
    + (* other *)
      destruct (is_plain_t m T) as (Nt & Wt). destruct T as (T1 & T2 & T3).
      rewrite Wt, hit_nw, dt_nw, Z.add_0_r by congruence. cbn [orelse tsound].
      unfold knote. rewrite Nt. cbn [andb].
      assert (Eo : forall o', ostep k o' m = o') by (intros o'; unfold ostep; destruct (m_type m); congruence).
      rewrite Eo in *. apply IH; [exact (wn_cons _ _ Hnn)|exact Ho|exact Hcl].
Qed.

Definition tnotes (k : k2) (now : Z) (l : list msg) : list (Z * msg) :=
  filter (fun p => knote k (snd p)) (timed now l).

Lemma ostep_knote k o m : knote k m = false -> ostep k o m = o.
Proof.
  unfold knote, ostep, is_note, is_on, is_off, mtype_eqb.
  destruct (m_type m); cbn; try reflexivity; intros ->; reflexivity.
Qed.

Lemma orun_tnotes k now : forall l o, orun k o l = orun k o (map snd (tnotes k now l)).
Proof.
  unfold tnotes. intros l. revert now. induction l as [|m l IH]; intros now o; [reflexivity|].
  rewrite orun_cons. cbn [timed]. destruct (is_wait m) eqn:W.
  - rewrite <- IH. f_equal. apply ostep_knote. unfold knote, is_note, is_on, is_off, is_wait, mtype_eqb in *.
    destruct (m_type m); cbn in *; congruence.
  - cbn [filter snd]. destruct (knote k m) eqn:K.
    + cbn [map snd]. rewrite orun_cons. apply IH.
    + rewrite (ostep_knote k o m K). apply IH.
Qed.

(* two lists with the same timed notes of key k sound the same for k *)
Lemma sound_by_tnotes k t now l1 l2 :
  C08_proofs.waits_nonneg l1 = true -> C08_proofs.waits_nonneg l2 = true ->
  orun k None l1 = None -> tnotes k now l1 = tnotes k now l2 ->
  sound k t now None l1 = sound k t now None l2.
Proof.
  intros N1 N2 C1 E.
  assert (C2 : orun k None l2 = None) by (rewrite (orun_tnotes k now), <- E, <- (orun_tnotes k now); exact C1).
  pose proof (sound_tsound k t l1 now None N1 ltac:(discriminate) C1) as H1.
  pose proof (sound_tsound k t l2 now None N2 ltac:(discriminate) C2) as H2.
  cbn [win orelse option_map] in H1, H2. rewrite H1, H2, tsound_filter, (tsound_filter k t (timed now l2)).
  unfold tnotes in E. now rewrite E.
Qed.

Lemma timed_shift : forall l c d, timed (c + d) l = map (fun p => (c + fst p, snd p)) (timed d l).
Proof.
  induction l as [|m l IH]; intros c d; [reflexivity|]. cbn [timed]. destruct (is_wait m).
  - rewrite <- IH. f_equal. lia.
  - cbn [map fst snd]. now rewrite IH.
Qed.

Lemma tnotes_shift k l1 l2 now : tnotes k 0 l1 = tnotes k 0 l2 -> tnotes k now l1 = tnotes k now l2.
Proof.
  unfold tnotes. intros E. rewrite <- (Z.add_0_r now), !timed_shift.
  assert (F : forall T : list (Z * msg), filter (fun p => knote k (snd p)) (map (fun p => (now + fst p, snd p)) T) =
                    map (fun p => (now + fst p, snd p)) (filter (fun p => knote k (snd p)) T)).
  { induction T as [|p T IH]; [reflexivity|]. cbn [map filter snd]. destruct (knote k (snd p)); cbn [map]; now rewrite IH. }
  now rewrite !F, E.
Qed.

(* ================================================================ Part 2: normalise keeps the timed notes *)
Definition tn (l : list msg) : list (Z * msg) := filter (fun p => is_note (snd p)) (timed 0 l).

Lemma tn_app a b : tn (a ++ b) = tn a ++ filter (fun p => is_note (snd p)) (timed (dur_rel a) b).
Proof. unfold tn. now rewrite timed_app, filter_app, Z.add_0_l. Qed.

Lemma ts_ok_note prev m : C07_proofs.is_ts m = false -> ts_ok prev [m] = true.
Proof. intros H. cbn [ts_ok]. now rewrite H. Qed.
Lemma ks_ok_note prev m : C07_proofs.is_ks m = false -> ks_ok prev [m] = true.
Proof. intros H. cbn [ks_ok]. now rewrite H. Qed.

Definition tn_R (s : nstate) (p : list msg) : Prop :=
  (forall k, alt_run k false p <> None) -> nonneg_waits p = true ->
  tn (n_out s) = tn p /\
  (dur_rel (n_out s) + n_wait s = dur_rel p /\ 0 <= n_wait s) /\
  (forall k, alt_run k false p = Some (is_open k (n_open s)) /\ (depth k (n_open s) <= 1)%nat).

Lemma tn_inv l : tn_R (fold_left nstep l init) l.
Proof.
  apply (fold_inv tn_R).
  - intros _ _. repeat split; try reflexivity. cbn. lia.
  - intros s p m IH OK NN.
    assert (OKp : forall k, alt_run k false p <> None).
    { intros k H. apply (OK k). now rewrite alt_run_app, H. }
    rewrite nonneg_app in NN. apply andb_true_iff in NN as [NNp NNm].
    destruct (IH OKp NNp) as (TM & [D W] & I). clear IH.
    pose proof (nonneg_one m NNm) as NN1.
    split; [|split; [apply dur_step; auto | now apply tight_step]].
    rewrite C07_proofs.nstep_out, tn_app. cbn [timed].
    destruct (is_wait m) eqn:Ew.
    + assert (E : emit s m = false) by (unfold emit; now rewrite Ew). rewrite E. cbn [filter]. now rewrite app_nil_r.
    + cbn [filter snd].
      assert (Hem : is_note m = true -> emit s m = true).
      { intros Hn. destruct (I (key_of m)) as [A L].
        apply (emit_nice s p m Ew (OK (key_of m)) A L).
        - apply ts_ok_note. unfold is_note in Hn. revert Hn. by_flags m; congruence.
        - apply ks_ok_note. unfold is_note in Hn. revert Hn. by_flags m; congruence. }
      destruct (emit s m) eqn:E.
      * rewrite tn_app, TM. f_equal. rewrite timed_app, timed_pend. cbn [app timed]. rewrite Ew. cbn [filter snd].
        rewrite dur_rel_pend by exact W. now rewrite D.
      * destruct (is_note m) eqn:Hn; [discriminate (Hem eq_refl)|]. rewrite app_nil_r. exact TM.
Qed.

(* the alternation of C08 (krun ... = Some KC) is the alternation of C07 *)
Definition sopen (s : kst) : bool := match s with KF _ | KO _ => true | _ => false end.

Lemma is_key_mkey k m : is_key k m = k2_eqb k (mkey m).
Proof. reflexivity. Qed.

Lemma krun_alt_run k : forall l s s', krun k s l = Some s' -> alt_run k (sopen s) l = Some (sopen s').
Proof.
  induction l as [|m l IH]; intros s s' H; cbn [krun] in H; [now injection H as <-|].
  destruct (kstep k s m) as [s1|] eqn:KS; [|discriminate]. specialize (IH s1 s' H).
  cbn [alt_run]. rewrite is_key_mkey. unfold kstep in KS.
  destruct (type_cases m) as [T|[T|[T|T]]].
  - destruct (is_on_t m T) as (On & _ & _). rewrite T in KS.
    assert (Of : is_off m = false) by (unfold is_off, mtype_eqb; now rewrite T).
    rewrite On, Of, !andb_false_r, !andb_true_r.
    destruct (k2_eqb k (mkey m)).
    + destruct s; try discriminate; injection KS as <-; exact IH.
    + injection KS as <-. exact IH.
  - destruct (is_off_t m T) as (On & _ & _). rewrite T in KS.
    assert (Of : is_off m = true) by (unfold is_off, mtype_eqb; now rewrite T).
    rewrite On, Of, !andb_false_r, !andb_true_r.
    destruct (k2_eqb k (mkey m)).
    + destruct s; try discriminate; injection KS as <-; exact IH.
    + injection KS as <-. exact IH.
  - rewrite T in KS.
    assert (On : is_on m = false) by (unfold is_on, mtype_eqb; now rewrite T).
    assert (Of : is_off m = false) by (unfold is_off, mtype_eqb; now rewrite T).
    rewrite On, Of, !andb_false_r.
    destruct s; try discriminate; injection KS as <-; try exact IH. destruct (0 <? m_time m); exact IH.
  - destruct (is_plain_t m T) as (Nt & _). unfold is_note in Nt. apply orb_false_iff in Nt. destruct Nt as [On Of].
    destruct T as (T1 & T2 & T3).
    rewrite On, Of, !andb_false_r.
    assert (s1 = s) by (destruct (m_type m); congruence). now subst s1.
Qed.

Lemma paired_alt l : paired_pos l = true -> forall k, alt_run k false l = Some false.
Proof. intros H k. exact (krun_alt_run k l KC KC (proj1 (paired_pos_all l) H k)). Qed.

Lemma tn_normalise_alt l : (forall k, alt_run k false l = Some false) -> nonneg_waits l = true ->
  tn (normalise l) = tn l.
Proof.
  intros A0 NN.
  assert (OK : forall k, alt_run k false l <> None) by (intros k; now rewrite A0).
  destruct (tn_inv l OK NN) as (TM & [D W] & I).
  destruct (alt_inv l) as [ND _]. cbv zeta in ND.
  rewrite normalise_eq, cleanup_closed; [|exact ND|].
  - rewrite tn_app, timed_pend. cbn [filter]. now rewrite app_nil_r.
  - intros k. destruct (I k) as [A _]. rewrite A0 in A. injection A as A. unfold is_open in A.
    destruct (depth k (n_open (fold_left nstep l init))); [reflexivity | discriminate].
Qed.

Lemma tn_normalise l : paired_pos l = true -> nonneg_waits l = true -> tn (normalise l) = tn l.
Proof. intros P. apply tn_normalise_alt. now apply paired_alt. Qed.

Lemma tnotes_tn k l : tnotes k 0 l = filter (fun p => knote k (snd p)) (tn l).
Proof.
  unfold tnotes, tn. induction (timed 0 l) as [|p T IH]; [reflexivity|]. cbn [filter].
  destruct (knote k (snd p)) eqn:K.
  - pose proof K as K'. unfold knote in K'. apply andb_true_iff in K'. destruct K' as [N _].
    rewrite N. cbn [filter]. now rewrite K, IH.
  - destruct (is_note (snd p)); cbn [filter]; rewrite ?K; exact IH.
Qed.

(* ================================================================ Part 3: Bar.__init__ keeps the sound *)
Lemma timed_filter (q : msg -> bool) : (forall m, is_wait m = true -> q m = true) ->
  forall l c, timed c (filter q l) = filter (fun p => q (snd p)) (timed c l).
Proof.
  intros Hq. induction l as [|m l IH]; intros c; [reflexivity|]. cbn [filter timed].
  destruct (is_wait m) eqn:W.
  - rewrite (Hq m W). cbn [timed]. rewrite W. apply IH.
  - cbn [filter snd]. destruct (q m); [cbn [timed]; rewrite W; now rewrite IH|apply IH].
Qed.

Lemma filter_sub {A} (p q : A -> bool) : (forall x, p x = true -> q x = true) ->
  forall l, filter p (filter q l) = filter p l.
Proof.
  intros H. induction l as [|x l IH]; [reflexivity|]. cbn [filter]. destruct (q x) eqn:Q; cbn [filter].
  - destruct (p x); now rewrite IH.
  - destruct (p x) eqn:P; [rewrite (H x P) in Q; discriminate|exact IH].
Qed.

Lemma tn_filter (q : msg -> bool) l : (forall m, is_wait m = true -> q m = true) ->
  (forall m, is_note m = true -> q m = true) -> tn (filter q l) = tn l.
Proof.
  intros Hw Hn. unfold tn. rewrite (timed_filter q Hw). apply filter_sub. intros [c m]. cbn [snd]. apply Hn.
Qed.

Lemma tn_snoc_wait l w : is_wait w = true -> tn (l ++ [w]) = tn l.
Proof. intros W. rewrite tn_app. cbn [timed]. rewrite W. cbn [filter]. apply app_nil_r. Qed.

Lemma pad_cases l p pf : pad l p pf = l \/ exists w, pad l p pf = l ++ [w] /\ is_wait w = true /\ 0 < m_time w.
Proof.
  unfold pad. destruct (pad_len l 0 false p) as [c f]. destruct (c <? p) eqn:E; [right|now left].
  apply Z.ltb_lt in E. eexists. split; [reflexivity|]. split; [reflexivity|]. cbn. lia.
Qed.

Lemma nonneg_filter (q : msg -> bool) l : nonneg_waits l = true -> nonneg_waits (filter q l) = true.
Proof.
  unfold nonneg_waits. rewrite !forallb_forall. intros H m Hm. apply filter_In in Hm. apply H. tauto.
Qed.

Lemma note_not_ts m : is_note m = true -> negb (Bars.is_ts m) = true.
Proof. unfold is_note, is_on, is_off, Bars.is_ts, mtype_eqb. now destruct (m_type m). Qed.
Lemma wait_not_ts m : is_wait m = true -> negb (Bars.is_ts m) = true.
Proof. unfold is_wait, Bars.is_ts, mtype_eqb. now destruct (m_type m). Qed.

Lemma bar_init_tn p0 n d r0 : bar_init p0 n d = Ok r0 -> (forall k, alt_run k false p0 = Some false) ->
  nonneg_waits p0 = true -> tn r0 = tn p0 /\ nonneg_waits r0 = true.
Proof.
  unfold bar_init, bar_init_full. intros H P NN.
  set (r1 := normalise p0) in *. set (cap := bar_capacity n d) in *.
  destruct (cap <? dur_rel r1); [discriminate|].
  set (r2 := if dur_rel r1 <? cap then pad r1 cap false else r1) in *.
  destruct (1 <? lenZ (filter Bars.is_ts r2)); [discriminate|].
  destruct (negb _); [discriminate|]. injection H as <-.
  assert (H1 : tn r1 = tn p0) by now apply tn_normalise_alt.
  assert (N1 : nonneg_waits r1 = true) by apply nonneg_normalise.
  assert (H2 : tn r2 = tn r1 /\ nonneg_waits r2 = true).
  { subst r2. destruct (dur_rel r1 <? cap); [|now split].
    destruct (pad_cases r1 cap false) as [->|(w & -> & W & Wp)]; [now split|]. split; [now apply tn_snoc_wait|].
    rewrite nonneg_app, N1. unfold nonneg_waits. cbn [forallb]. rewrite W. cbn.
    rewrite andb_true_r. apply Z.leb_le. lia. }
  destruct H2 as [H2 N2]. split.
  - change (tn (mk_ts 0 n d 0 false :: ?X)) with (tn X).
    rewrite (tn_filter _ r2 wait_not_ts note_not_ts). congruence.
  - change (nonneg_waits (mk_ts 0 n d 0 false :: ?X)) with (nonneg_waits X). now apply nonneg_filter.
Qed.

Lemma paired_closed l k : paired_pos l = true -> orun k None l = None.
Proof. intros P. exact (krun_vel l k KC KC (proj1 (paired_pos_all l) P k)). Qed.

(* the bar's sequence sounds exactly like the piece it was built from, and ends with every key closed *)
Lemma bar_init_sound_alt p0 n d r0 : bar_init p0 n d = Ok r0 ->
  (forall k, alt_run k false p0 = Some false) -> (forall k, orun k None p0 = None) -> nonneg_waits p0 = true ->
  (forall k t now, sound k t now None r0 = sound k t now None p0) /\ (forall k, orun k None r0 = None).
Proof.
  intros H P C NN. destruct (bar_init_tn p0 n d r0 H P NN) as [T N].
  assert (E : forall k now, tnotes k now p0 = tnotes k now r0).
  { intros k now. apply tnotes_shift. now rewrite !tnotes_tn, T. }
  split.
  - intros k t now. symmetry. apply sound_by_tnotes; [exact NN|exact N|apply C|apply E].
  - intros k. rewrite (orun_tnotes k 0), <- E, <- (orun_tnotes k 0). apply C.
Qed.

Lemma bar_init_sound p0 n d r0 : bar_init p0 n d = Ok r0 -> paired_pos p0 = true -> nonneg_waits p0 = true ->
  (forall k t now, sound k t now None r0 = sound k t now None p0) /\ (forall k, orun k None r0 = None).
Proof.
  intros H P NN. apply (bar_init_sound_alt p0 n d r0 H); [now apply paired_alt| |exact NN].
  intros k. now apply paired_closed.
Qed.

(* ================================================================ Part 4: one round, then the loop *)
Lemma leb_shift a b c : (a + c <=? b) = (a <=? b - c).
Proof. destruct (Z.leb_spec (a + c) b), (Z.leb_spec a (b - c)); lia || reflexivity. Qed.
Lemma ltb_shift a b c : (b <? a + c) = (b - c <? a).
Proof. destruct (Z.ltb_spec b (a + c)), (Z.ltb_spec (b - c) a); lia || reflexivity. Qed.

Lemma sound_shift k : forall l t now c o, sound k t (now + c) o l = sound k (t - c) now o l.
Proof.
  induction l as [|m l IH]; intros t now c o; [reflexivity|]. cbn [sound]. f_equal.
  - unfold hit. destruct (m_type m); try reflexivity.
    rewrite leb_shift. replace (now + c + m_time m) with (now + m_time m + c) by lia. now rewrite ltb_shift.
  - replace (now + c + dt m) with (now + dt m + c) by lia. apply IH.
Qed.

Lemma inner_cur_nonneg : forall wm cur opn q rem,
  C08_proofs.waits_nonneg wm = true -> C08_proofs.waits_nonneg cur = true ->
  match split_inner wm cur opn q rem with
  | SEnd c _ => C08_proofs.waits_nonneg c = true
  | SCut c _ _ => C08_proofs.waits_nonneg c = true
  end.
Proof.
  intros wm cur opn q rem.
  apply (inner_ind (fun wm cur opn q rem r =>
    C08_proofs.waits_nonneg wm = true -> C08_proofs.waits_nonneg cur = true ->
    match r with SEnd c _ => C08_proofs.waits_nonneg c = true | SCut c _ _ => C08_proofs.waits_nonneg c = true end)); clear.
  - intros cur opn q rem _ H. exact H.
  - intros m wm cur opn q rem r E _ IH Hwn Hc. apply IH; [exact (wn_cons _ _ Hwn)|].
    rewrite wn_app, Hc, wn_one_nw by congruence. reflexivity.
  - intros m wm cur opn q rem r E _ IH Hwn Hc. apply IH; [exact (wn_cons _ _ Hwn)|exact Hc].
  - intros m wm cur opn q rem r E IH Hwn Hc. apply IH; [exact (wn_cons _ _ Hwn)|].
    rewrite wn_app, Hc, wn_one_nw by congruence. reflexivity.
  - intros m wm cur opn q rem r E Hfit IH Hwn Hc. destruct (wn_cons_wait _ _ E Hwn) as [Ht Hwn'].
    apply IH; [exact Hwn'|]. rewrite wn_app, Hc. unfold C08_proofs.waits_nonneg. cbn [forallb].
    rewrite andb_true_r. apply orb_true_iff. right. now apply Z.leb_le.
  - intros m wm cur opn q rem E Hcut Hwn Hc. rewrite wn_app, wn_offs, andb_true_r.
    destruct (0 <? rem) eqn:R; [|exact Hc]. apply Z.ltb_lt in R.
    rewrite wn_app, Hc. unfold C08_proofs.waits_nonneg. cbn. rewrite andb_true_r. apply Z.leb_le. lia.
  - intros m wm cur opn q rem r E _ IH Hwn Hc. apply IH; [exact (wn_cons _ _ Hwn)|].
    rewrite wn_app, Hc, wn_one_nw by (now apply plain_nw). reflexivity.
  - intros m wm cur opn q rem r E _ IH Hwn Hc. apply IH; [exact (wn_cons _ _ Hwn)|exact Hc].
Qed.

Lemma pieces_nonneg : forall caps wm opn, C08_proofs.waits_nonneg wm = true -> caps_nonneg caps = true ->
  forall p, In p (pieces caps wm opn) -> C08_proofs.waits_nonneg p = true.
Proof.
  induction caps as [|c caps IH]; intros wm opn Hwn Hc p Hp; cbn [pieces] in Hp.
  - apply In_ne in Hp. now subst p.
  - cbn [caps_nonneg forallb] in Hc. apply andb_prop in Hc. destruct Hc as [Hc0 Hc]. apply Z.leb_le in Hc0.
    pose proof (inner_cur_nonneg wm [] opn [] c Hwn eq_refl) as H1.
    pose proof (inner_cut_wm wm [] opn [] c Hwn eq_refl Hc0) as H2.
    destruct (split_inner wm [] opn [] c) as [cur' opn'|cur' opn' wm'].
    + apply in_app_or in Hp. destruct Hp as [Hp|Hp]; [apply In_ne in Hp; now subst p|].
      rewrite pieces_nil in Hp. destruct Hp.
    + destruct H2 as [H2 _]. apply in_app_or in Hp. destruct Hp as [Hp|Hp]; [apply In_ne in Hp; now subst p|].
      exact (IH wm' opn' H2 Hc p Hp).
Qed.

Lemma sb_track_false len rel :
  sb_track false len rel =
  match seq_split rel [len] with
  | p0 :: p1 :: _ => (p0, p1, true)
  | [p0] => (p0, [], false)
  | [] => ([], [], false)
  end.
Proof. unfold sb_track. destruct (seq_split rel [len]) as [|p0 [|p1 tl]]; reflexivity. Qed.

Definition track_ok (s : list msg) : Prop := C08_proofs.waits_nonneg s = true /\ paired_pos s = true.

Lemma round_track len rel : track_ok rel -> 0 < len ->
  (forall k t now, sound k t now None rel =
     orelse (sound k t now None (tr_bar (sb_track false len rel)))
            (sound k t (now + len) None (tr_rest (sb_track false len rel)))) /\
  track_ok (tr_bar (sb_track false len rel)) /\ track_ok (tr_rest (sb_track false len rel)) /\
  (tr_more (sb_track false len rel) = false -> tr_rest (sb_track false len rel) = []).
Proof.
  intros [Hnn Hp] Hlen.
  assert (Hcp : caps_pos [len] = true) by (cbn; rewrite andb_true_r; now apply Z.ltb_lt).
  assert (Hs : forall k t now, sound k t now None (concat (seq_split rel [len])) = sound k t now None rel).
  { intros k t now. rewrite <- (Z.add_0_l now), !sound_shift. now apply C08_sound. }
  pose proof (C08_no_open_end rel [len] Hnn Hcp Hp) as Hpp.
  assert (Hpn : forall p, In p (seq_split rel [len]) -> C08_proofs.waits_nonneg p = true).
  { intros p Hin. rewrite seq_split_pieces in Hin.
    apply (pieces_nonneg [len] rel [] Hnn (caps_pos_nonneg _ Hcp) p Hin). }
  pose proof (C08_count rel [len]) as Hc. pose proof (C08_exact rel [len] Hcp) as Hex.
  rewrite sb_track_false.
  assert (Hnil : track_ok []) by (split; reflexivity).
  destruct (seq_split rel [len]) as [|p0 [|p1 tl]]; unfold tr_bar, tr_rest, tr_more; cbn [fst snd].
  - repeat split; auto. intros k t now. rewrite <- Hs. reflexivity.
  - assert (H0 : track_ok p0) by (split; [apply Hpn|apply Hpp]; now left).
    repeat split; auto; try apply H0. intros k t now. rewrite <- Hs. cbn [concat]. rewrite app_nil_r.
    cbn [sound]. now rewrite orelse_none_r.
  - cbn [length] in Hc. destruct tl; [|cbn in Hc; lia].
    assert (H0 : track_ok p0) by (split; [apply Hpn|apply Hpp]; now left).
    assert (H1 : track_ok p1) by (split; [apply Hpn|apply Hpp]; right; now left).
    repeat split; auto; try apply H0; try apply H1; [|discriminate].
    intros k t now. rewrite <- Hs. cbn [concat]. rewrite app_nil_r, sound_app.
    specialize (Hex O ltac:(cbn; lia)). cbn [nth] in Hex. rewrite Hex, (paired_closed p0 k (proj2 H0)). reflexivity.
Qed.

(* three lists in parallel *)
Inductive F3 {A B C} (R : A -> B -> C -> Prop) : list A -> list B -> list C -> Prop :=
| F3_nil : F3 R [] [] []
| F3_cons x y z l1 l2 l3 : R x y z -> F3 R l1 l2 l3 -> F3 R (x :: l1) (y :: l2) (z :: l3).

Lemma F3_nth {A B C} (R : A -> B -> C -> Prop) l1 l2 l3 : F3 R l1 l2 l3 ->
  forall i y z, nth_error l2 i = Some y -> nth_error l3 i = Some z -> exists x, nth_error l1 i = Some x /\ R x y z.
Proof.
  induction 1 as [|x y z l1 l2 l3 HR HF IH]; intros [|i] y' z' H2 H3; cbn in *; try discriminate.
  - injection H2 as <-. injection H3 as <-. eauto.
  - eauto.
Qed.

Lemma collect_F2 num den key (f : list msg * list msg * bool -> result (list msg)) : forall xs nb,
  collect num den key (map f xs) = Ok nb -> Forall2 (fun x b => f x = Ok (b_rel b)) xs nb.
Proof.
  induction xs as [|x xs IH]; intros nb H.
  - cbn in H. injection H as <-. constructor.
  - cbn [map collect fold_right] in H. fold (collect num den key (map f xs)) in H.
    destruct (f x) as [r|e] eqn:E; [|discriminate].
    destruct (collect num den key (map f xs)) as [l|e]; [|discriminate]. injection H as <-.
    constructor; [exact E|now apply IH].
Qed.

(* what the bars appended from some round on say about the track content at that round *)
Definition ext_sound (a : list bar) (s : list msg) (r : list bar) : Prop :=
  exists ext, r = a ++ ext /\ forall k t now, sound k t now None (concat (map b_rel ext)) = sound k t now None s.

Lemma round_F3 len num den : 0 < len -> bar_capacity num den = len -> forall seqs acc nb res,
  length acc = length seqs -> Forall track_ok seqs ->
  Forall2 (fun x b => bar_init (tr_bar x) num den = Ok (b_rel b)) (map (sb_track false len) seqs) nb ->
  (F3 ext_sound (extend acc nb) (map tr_rest (map (sb_track false len) seqs)) res \/
   (existsb tr_more (map (sb_track false len) seqs) = false /\ res = extend acc nb)) ->
  F3 ext_sound acc seqs res.
Proof.
  intros Hlen Hcap0. assert (Hcap : bar_capacity num den <= len <= bar_capacity num den) by lia. clear Hcap0.
  induction seqs as [|s seqs IH]; intros acc nb res L Hok HF H.
  - destruct acc; [|discriminate]. cbn [map] in HF. inversion HF; subst. cbn in H.
    destruct H as [H|[_ ->]]; [inversion H|]; constructor.
  - destruct acc as [|a acc]; [discriminate|]. cbn [map] in HF. inversion HF as [|x b xs nb' Hb HF']; subst.
    inversion Hok as [|? ? Hs Hok']; subst. injection L as L.
    destruct (round_track len s Hs Hlen) as (Hsound & Hbar & Hrest & Hmore).
    destruct Hbar as [Bn Bp].
    destruct (bar_init_sound _ num den (b_rel b) Hb Bp Bn) as [Sb Cb].
    assert (Db : dur_rel (b_rel b) = len).
    { apply bar_init_post in Hb. destruct Hb as [Hb _]. lia. }
    assert (Hhead : forall ext', (forall k t now, sound k t now None (concat (map b_rel ext')) =
                                   sound k t now None (tr_rest (sb_track false len s))) ->
              forall k t now, sound k t now None (concat (map b_rel (b :: ext'))) = sound k t now None s).
    { intros ext' He k t now. cbn [map concat]. rewrite sound_app, Sb, Cb, Db, He. symmetry. apply Hsound. }
    cbn [extend combine map fst snd] in H. fold (extend acc nb') in H.
    destruct H as [H|[Hm ->]].
    + inversion H as [|? ? r ? ? res' (ext' & -> & He) H']; subst. constructor.
      * exists (b :: ext'). split; [now rewrite <- app_assoc|]. now apply Hhead.
      * apply (IH acc nb' res' L Hok' HF'). now left.
    + cbn [existsb] in Hm. apply orb_false_iff in Hm. destruct Hm as [Hm0 Hm]. constructor.
      * exists [b]. split; [reflexivity|]. apply Hhead. intros k t now. rewrite (Hmore Hm0). reflexivity.
      * apply (IH acc nb' _ L Hok' HF'). right. split; [exact Hm|reflexivity].
Qed.

Lemma rests_ok len seqs : 0 < len -> Forall track_ok seqs ->
  Forall track_ok (map tr_rest (map (sb_track false len) seqs)).
Proof.
  intros Hlen H. induction H as [|s seqs Hs _ IH]; [constructor|]. cbn [map]. constructor; [|exact IH].
  now destruct (round_track len s Hs Hlen) as (_ & _ & Hr & _).
Qed.

Lemma sb_loop_sound : forall fuel seqs tsq ksq cur num den key acc res,
  sb_loop fuel false seqs tsq ksq cur num den key acc = Ok res ->
  length acc = length seqs -> Forall track_ok seqs -> all_pos tsq = true -> 0 < blen num den ->
  F3 ext_sound acc seqs res.
Proof.
  induction fuel as [|f IH]; intros seqs tsq ksq cur num den key acc res H L Hok Hp H0; [discriminate|].
  rewrite sb_loop_S in H. cbn zeta in H.
  pose proof (sig_pos tsq cur num den Hp H0) as Hlen.
  set (num' := sig_num tsq cur num) in *. set (den' := sig_den tsq cur den) in *.
  set (key' := key_cur ksq cur key) in *.
  destruct (collect _ _ _ _) as [nb|e] eqn:C; [|discriminate].
  pose proof (collect_F2 num' den' key' (fun x => bar_init (tr_bar x) num' den') _ nb C) as HF.
  apply round_bars in C. destruct C as [Lnb _].
  apply (round_F3 (blen num' den') num' den' Hlen (bar_capacity_blen num' den') seqs acc nb res L Hok HF).
  destruct (existsb tr_more _) eqn:M.
  - left. apply (IH _ _ _ _ _ _ _ _ _ H).
    + rewrite extend_length, !map_length; congruence.
    + now apply rests_ok.
    + now apply q_rest_pos.
    + exact Hlen.
  - right. split; [reflexivity|]. now injection H as <-.
Qed.

Definition tracks_ok (rels : list (list msg)) : bool :=
  forallb (fun s => C09_proofs.waits_nonneg s && paired_pos s) rels.

(* C09, last sentence, re-quantisation off *)
Theorem C09_sound_conserved : forall rels meta bars,
  split_bars rels meta false = Ok bars ->
  all_nonneg rels = true -> all_pos (filter Bars.is_ts meta) = true -> forallb paired_pos rels = true ->
  forall i bs r, nth_error bars i = Some bs -> nth_error rels i = Some r ->
  forall k t, sound k t 0 None (concat (map b_rel bs)) = sound k t 0 None r.
Proof.
  intros rels meta bars H Hnn Hp Hpp i bs r Hbs Hr k t. rewrite split_bars_eq in H.
  assert (Hok : Forall track_ok rels).
  { apply Forall_forall. intros s Hs. unfold all_nonneg in Hnn. rewrite forallb_forall in Hnn, Hpp.
    split; [exact (Hnn s Hs)|exact (Hpp s Hs)]. }
  pose proof (sb_loop_sound _ _ _ _ _ _ _ _ _ _ H ltac:(now rewrite map_length) Hok (init_tsq_pos meta Hp) eq_refl) as F.
  destruct (F3_nth _ _ _ _ F i r bs Hr Hbs) as (a & Ha & (ext & -> & He)).
  apply nth_error_In in Ha. apply in_map_iff in Ha. destruct Ha as (? & <- & _). cbn [app]. apply He.
Qed.

(* the same with nth: track i of the input against the bars of track i *)
Corollary C09_sound_conserved_nth : forall rels meta bars,
  split_bars rels meta false = Ok bars ->
  all_nonneg rels = true -> all_pos (filter Bars.is_ts meta) = true -> forallb paired_pos rels = true ->
  forall i, (i < length rels)%nat ->
  forall k t, sound k t 0 None (concat (map b_rel (nth i bars []))) = sound k t 0 None (nth i rels []).
Proof.
  intros rels meta bars H Hnn Hp Hpp i Hi k t.
  destruct (C09_same_count rels meta false bars H) as [L _].
  apply (C09_sound_conserved rels meta bars H Hnn Hp Hpp i); apply nth_error_nth'; lia.
Qed.

(* ================================================================ non-vacuity *)
Module C09_sound_examples.
Import Show.
(* a note crossing two bar lines, a time signature and a key signature inside a track, an empty track *)
Definition sx_rels : list (list msg) :=
  [[ts 0 3 4 0; on 0 60 100 0; wt 0 120; of 0 60 0; ks 0 K_G 0; wt 0 100]; [];
   [wt 0 50; on 1 40 90 0; wt 1 30; of 1 40 0]].
Definition sx_meta : list msg := C09_examples.ex_meta.

Example sx_hypotheses :
  (exists bars, split_bars sx_rels sx_meta false = Ok bars /\ map (@length bar) bars = [4; 4; 4]%nat /\
     map (fun t => sound (0, 60) t 0 None (concat (map b_rel (nth 0 bars [])))) [0; 71; 72; 119; 120] =
       [Some 100; Some 100; Some 100; Some 100; None]) /\
  all_nonneg sx_rels = true /\ all_pos (filter Bars.is_ts sx_meta) = true /\ forallb paired_pos sx_rels = true /\
  map (fun t => sound (0, 60) t 0 None (nth 0 sx_rels [])) [0; 71; 72; 119; 120] =
    [Some 100; Some 100; Some 100; Some 100; None].
Proof.
  split; [eexists; split; [vm_compute; reflexivity|split; vm_compute; reflexivity]|].
  vm_compute. repeat split; reflexivity.
Qed.
End C09_sound_examples.
