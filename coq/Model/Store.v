(* Store.v -- the Sequence wrapper object (scoda/sequences/sequence.py, fixed code) and a functional store of
   objects on which histories of public operations run (properties C04, C11, C16).
   The store is purely functional: every object is a value, so an operation on one object cannot change another
   one.  Whether the implementation behaves like this store (no hidden sharing of Message objects) is exactly what
   the correspondence check on histories establishes. *)
From Model Require Export Bars.

Record seq : Set := mkseq { s_abs : list msg; s_rel : list msg; s_abs_stale : bool; s_rel_stale : bool }.

Definition seq_empty : seq := mkseq [] [] false true.                (* Sequence() *)
Definition seq_of_abs (a : list msg) : seq := mkseq a [] false true.   (* Sequence(absolute_sequence=...) *)
Definition seq_of_rel (r : list msg) : seq := mkseq [] r true false.   (* Sequence(relative_sequence=...) *)
Definition seq_of_both (a r : list msg) : seq := mkseq a r false false.

(* the `abs` / `rel` properties: regenerate the stale view *)
Definition get_abs (s : seq) : result (seq * list msg) :=
  if s_abs_stale s then
    if s_rel_stale s then Err SeqErr
    else let a := to_abs (s_rel s) in Ok (mkseq a (s_rel s) false false, a)
  else Ok (s, s_abs s).
Definition get_rel (s : seq) : result (seq * list msg) :=
  if s_rel_stale s then
    if s_abs_stale s then Err SeqErr
    else let r := to_rel (s_abs s) in Ok (mkseq (s_abs s) r false false, r)
  else Ok (s, s_rel s).

(* self.abs.<mutate>(); self.invalidate_rel() *)
Definition upd_abs (s : seq) (f : list msg -> list msg) : result seq :=
  do '(s1, a) <- get_abs s; Ok (mkseq (f a) (s_rel s1) false true).
Definition upd_rel (s : seq) (f : list msg -> list msg) : result seq :=
  do '(s1, r) <- get_rel s; Ok (mkseq (s_abs s1) (f r) true false).

(* list.insert(index, x) *)
Definition py_insert {A} (l : list A) (i : Z) (x : A) : list A :=
  let n := lenZ l in
  let j := if i <? 0 then Z.max 0 (n + i) else Z.min i n in
  firstn (Z.to_nat j) l ++ [x] ++ skipn (Z.to_nat j) l.

Definition seq_add_abs (s : seq) (m : msg) := upd_abs s (insort m).
Definition seq_add_rel (s : seq) (m : msg) (idx : option Z) :=
  upd_rel s (fun r => match idx with None => r ++ [m] | Some i => py_insert r i m end).
Definition seq_normalise (s : seq) := upd_rel s normalise.
Definition seq_pad (s : seq) (p : Z) := upd_rel s (fun r => pad r p false).
Definition seq_set_channel (s : seq) (c : Z) := upd_rel s (fun r => set_channel r c).
Definition seq_cutoff (s : seq) (mx red : Z) := upd_abs s (fun a => cutoff a mx red).
Definition seq_qnl (s : seq) (values : list Z) (std : Z) (dne : bool) :=
  upd_abs s (fun a => quantise_note_lengths a values std dne).
Definition seq_quantise (s : seq) (steps : list Z) : result seq :=
  do '(s1, a) <- get_abs s; do a' <- quantise a steps; Ok (mkseq a' (s_rel s1) false true).
Definition seq_quantise_and_normalise (s : seq) (steps values : list Z) (std : Z) (dne : bool) : result seq :=
  do s1 <- seq_quantise s steps; do s2 <- seq_qnl s1 values std dne; seq_normalise s2.
(* Sequence.scale(factor, quantise_afterwards=False), integer factor >= 1 *)
Definition seq_scale (s : seq) (k : Z) := upd_rel s (fun r => scale r k).
Definition seq_transpose (s : seq) (k : Z) : result (seq * bool) :=
  do '(s1, r) <- get_rel s;
  let '(r', shifted) := transpose r k in
  let s2 := mkseq (s_abs s1) r' true false in
  if shifted then
    do s3 <- seq_normalise s2; do s4 <- seq_qnl s3 get_default_note_values PPQN false; Ok (s4, true)
  else Ok (s2, false).
Definition seq_overwrite_abs (s : seq) (ms : list msg) : seq :=
  mkseq (fold_left (fun acc m => insort m acc) ms []) (s_rel s) false true.
Definition seq_overwrite_rel (s : seq) (ms : list msg) : seq := mkseq (s_abs s) ms true false.
Definition seq_refresh (s : seq) : result seq :=
  if s_abs_stale s && s_rel_stale s then Err SeqErr else
  do '(s1, _) <- get_abs s; do '(s2, _) <- get_rel s1; Ok s2.
Definition seq_copy (s : seq) : seq :=
  match s_abs_stale s, s_rel_stale s with
  | false, false => seq_of_both (s_abs s) (s_rel s)
  | false, true => seq_of_abs (s_abs s)
  | true, false => seq_of_rel (s_rel s)
  | true, true => seq_empty
  end.
(* getters that go through get_message_pairings sort the absolute view in place *)
Definition seq_sort_abs (s : seq) : result seq :=
  do '(s1, a) <- get_abs s; Ok (mkseq (sort_abs a) (s_rel s1) false (s_rel_stale s1)).

(* edits made while iterating a view: (position, field, value) triples applied to the yielded messages *)
Inductive field : Set := FTime | FChan | FNote | FVel | FNum | FDen.
Definition edit : Set := (nat * field * Z)%type.
Definition apply_edit (m : msg) (f : field) (v : Z) : msg :=
  match f with
  | FTime => set_time m v false | FChan => set_chan m v | FNote => set_note m v | FVel => set_vel m v
  | FNum => set_sig m v (m_den m) | FDen => set_sig m (m_num m) v
  end.
Definition apply_edits (l : list msg) (es : list edit) : list msg :=
  fold_left (fun acc e => let '(i, f, v) := e in set_nth i (fun m => apply_edit m f v) acc) es l.
(* messages_abs(): the absolute view is re-sorted when the generator finishes (fixed code) *)
Definition seq_edit_abs (s : seq) (es : list edit) : result seq :=
  do '(s1, a) <- get_abs s; Ok (mkseq (sort_abs (apply_edits a es)) (s_rel s1) false true).
(* in the relative view only WAIT messages carry a time: time edits of other messages are skipped by the harness *)
Definition apply_edits_rel (l : list msg) (es : list edit) : list msg :=
  fold_left (fun acc e => let '(i, f, v) := e in
                          set_nth i (fun m => match f with FTime => if is_wait m then apply_edit m f v else m
                                                       | _ => apply_edit m f v end) acc) es l.
Definition seq_edit_rel (s : seq) (es : list edit) : result seq :=
  do '(s1, r) <- get_rel s; Ok (mkseq (s_abs s1) (apply_edits_rel r es) true false).

(* Sequence.merge: self.abs.merge([seq.abs for seq in sequences]); invalidate_rel; normalise.
   Returns the merged sequence and the (refreshed) arguments. *)
Fixpoint refresh_abs_all (l : list seq) : result (list seq * list (list msg)) :=
  match l with
  | [] => Ok ([], [])
  | s :: l' => do '(s1, a) <- get_abs s; do '(r, as_) <- refresh_abs_all l'; Ok (s1 :: r, a :: as_)
  end.
Definition seq_merge (s : seq) (others : list seq) : result (seq * list seq) :=
  do '(s1, a) <- get_abs s;
  do '(os, as_) <- refresh_abs_all others;
  do s2 <- seq_normalise (mkseq (merge_abs a as_) (s_rel s1) false true);
  Ok (s2, os).

(* ---------------------------------------------------------------- store and operations *)
Definition store : Set := list seq.

Inductive op : Set :=
| ONew | ONewAbs (a : list msg) | ONewRel (r : list msg)
| OCopy (i : nat)
| OAddAbs (i : nat) (m : msg) | OAddRel (i : nat) (m : msg) (idx : option Z)
| OConcat (i : nat) (js : list nat)           (* a.concatenate([b.copy() for b in js]) *)
| OConcatLit (i : nat) (rs : list (list msg))  (* a.concatenate of fresh sequences built from literal messages *)
| OMerge (i : nat) (js : list nat)
| OCutoff (i : nat) (mx red : Z) | ONormalise (i : nat) | OPad (i : nat) (p : Z) | OSetChannel (i : nat) (c : Z)
| OOverwriteAbs (i : nat) (ms : list msg) | OOverwriteRel (i : nat) (ms : list msg)
| OSplit (i : nat) (caps : list Z)
| OScale (i : nat) (k : Z) | OTranspose (i : nat) (k : Z)
| OQuantise (i : nat) (steps : list Z) | OQnl (i : nat) (values : list Z) (std : Z) (dne : bool)
| OQuantNorm (i : nat) (steps values : list Z)
| ORefresh (i : nat) | OReadAbs (i : nat) | OReadRel (i : nat)
| OEquals (i j : nat) (ich its iks ivel : bool)
| OPairings (i : nat)                       (* any read-only getter built on get_message_pairings *)
| ODuration (i : nat)
| OEditAbs (i : nat) (es : list edit) | OEditRel (i : nat) (es : list edit)
| OBarInit (i : nat) (num den : Z)          (* Bar(seq_i, num, den): the bar owns object i from then on *)
| OBarCopy (i : nat) (num den : Z)          (* Bar.copy() of a bar whose sequence is object i *)
| OSplitBars (is_ : list nat) (meta : nat) (qnl : bool).

Inductive out : Set := ONone | OBool (b : bool) | OZ (z : Z) | OMsgs (l : list msg) | OErr (e : err)
                     | OBars (l : list (list (Z * Z * option Key))).

Definition getn (st : store) (i : nat) : result seq := match nth_error st i with Some s => Ok s | None => Err OutOfModel end.
Definition setn (st : store) (i : nat) (s : seq) : store := set_nth i (fun _ => s) st.

Definition on_obj (st : store) (i : nat) (f : seq -> result seq) : store * out :=
  match getn st i with
  | Err e => (st, OErr e)
  | Ok s => match f s with Ok s' => (setn st i s', ONone) | Err e => (st, OErr e) end
  end.

(* read the relative (or absolute) lists of several objects, refreshing them *)
Fixpoint read_rels (st : store) (js : list nat) : result (store * list (list msg)) :=
  match js with
  | [] => Ok (st, [])
  | j :: js' => do s <- getn st j; do '(s', r) <- get_rel s; do '(st', rs) <- read_rels (setn st j s') js'; Ok (st', r :: rs)
  end.
Fixpoint read_abss (st : store) (js : list nat) : result (store * list (list msg)) :=
  match js with
  | [] => Ok (st, [])
  | j :: js' => do s <- getn st j; do '(s', a) <- get_abs s; do '(st', rs) <- read_abss (setn st j s') js'; Ok (st', a :: rs)
  end.

Definition lift (st : store) (r : result (store * out)) : store * out :=
  match r with Ok x => x | Err e => (st, OErr e) end.

Definition step (st : store) (o : op) : store * out :=
  match o with
  | ONew => (st ++ [seq_empty], ONone)
  | ONewAbs a => (st ++ [seq_overwrite_abs seq_empty a], ONone)   (* Sequence() then add_absolute_message each *)
  | ONewRel r => (st ++ [seq_of_rel r], ONone)
  | OCopy i => lift st (do s <- getn st i; Ok (st ++ [seq_copy s], ONone))
  | OAddAbs i m => on_obj st i (fun s => seq_add_abs s m)
  | OAddRel i m idx => on_obj st i (fun s => seq_add_rel s m idx)
  | OConcat i js =>
      (* self.rel is read first, then the rel of a copy of every argument (the arguments themselves are untouched).
         Plain a.concatenate([b]) shares b's Message objects with a by design (the test-suite asserts it), which a
         functional store cannot express: known finding D9' *)
      lift st (do s <- getn st i; do '(s1, r) <- get_rel s;
               do rs <- mapM (fun j => do t <- getn st j; do '(_, rj) <- get_rel (seq_copy t); Ok rj) js;
               Ok (setn st i (mkseq (s_abs s1) (r ++ concat rs) true false), ONone))
  | OConcatLit i rs =>
      lift st (do s <- getn st i; do '(s1, r) <- get_rel s;
               Ok (setn st i (mkseq (s_abs s1) (r ++ concat rs) true false), ONone))
  | OMerge i js =>
      lift st (do s <- getn st i; do '(s1, a) <- get_abs s;
               do '(st1, as_) <- read_abss (setn st i s1) js;
               do s2 <- getn st1 i;
               do s3 <- seq_normalise (mkseq (merge_abs a as_) (s_rel s2) false true);
               Ok (setn st1 i s3, ONone))
  | OCutoff i mx red => on_obj st i (fun s => seq_cutoff s mx red)
  | ONormalise i => on_obj st i seq_normalise
  | OPad i p => on_obj st i (fun s => seq_pad s p)
  | OSetChannel i c => on_obj st i (fun s => seq_set_channel s c)
  | OOverwriteAbs i ms => on_obj st i (fun s => Ok (seq_overwrite_abs s ms))
  | OOverwriteRel i ms => on_obj st i (fun s => Ok (seq_overwrite_rel s ms))
  | OSplit i caps =>
      lift st (do s <- getn st i; do '(s1, r) <- get_rel s;
               Ok (setn st i s1 ++ map seq_of_rel (seq_split r caps), OZ (lenZ (seq_split r caps))))
  | OScale i k => on_obj st i (fun s => seq_scale s k)
  | OTranspose i k =>
      lift st (do s <- getn st i; do '(s', b) <- seq_transpose s k; Ok (setn st i s', OBool b))
  | OQuantise i steps => on_obj st i (fun s => seq_quantise s steps)
  | OQnl i values std dne => on_obj st i (fun s => seq_qnl s values std dne)
  | OQuantNorm i steps values => on_obj st i (fun s => seq_quantise_and_normalise s steps values PPQN false)
  | ORefresh i => on_obj st i seq_refresh
  | OReadAbs i => lift st (do s <- getn st i; do '(s', a) <- get_abs s; Ok (setn st i s', OMsgs a))
  | OReadRel i => lift st (do s <- getn st i; do '(s', r) <- get_rel s; Ok (setn st i s', OMsgs r))
  | OEquals i j ich its iks ivel =>
      lift st (do s <- getn st i; do '(s1, _) <- get_abs s;
               let st1 := setn st i s1 in
               do t <- getn st1 j; do '(t1, _) <- get_abs t;
               let st2 := setn st1 j t1 in
               (* both absolute views are sorted in place by get_interleaved_message_pairings *)
               do s2 <- getn st2 i; do s3 <- seq_sort_abs s2;
               let st3 := setn st2 i s3 in
               (* self is sorted (and may raise) before other is touched *)
               match interleaved (eq_types its iks) PPQN true (s_abs s3) with
               | Err e => Ok (st3, OErr e)
               | Ok _ =>
                   do t2 <- getn st3 j; do t3 <- seq_sort_abs t2;
                   let st4 := setn st3 j t3 in
                   match equals (s_abs s3) (s_abs t3) ich its iks ivel with
                   | Ok b => Ok (st4, OBool b) | Err e => Ok (st4, OErr e) end
               end)
  | OPairings i => on_obj st i seq_sort_abs
  | ODuration i =>
      lift st (do s <- getn st i; do '(s', a) <- get_abs s;
               (* the absolute view is regenerated before _messages[-1] raises on an empty sequence *)
               match last_opt a with Some m => Ok (setn st i s', OZ (m_time m)) | None => Ok (setn st i s', OErr IndexErr) end)
  | OEditAbs i es => on_obj st i (fun s => seq_edit_abs s es)
  | OEditRel i es => on_obj st i (fun s => seq_edit_rel s es)
  | OBarInit i num den =>
      lift st (do s <- getn st i; do '(s1, r) <- get_rel s;
               let '(r', e) := bar_init_full r num den in
               Ok (setn st i (mkseq (s_abs s1) r' true false), match e with Some e' => OErr e' | None => ONone end))
  | OBarCopy i num den =>
      lift st (do s <- getn st i;
               let c := seq_copy s in
               do '(c1, r) <- get_rel c; do r' <- bar_init r num den;
               Ok (st ++ [mkseq (s_abs c1) r' true false], ONone))
  | OSplitBars is_ meta qnl =>
      (* the harness calls refresh() on the meta track and on every input first, so that the views touched by a
         call that raises half-way do not depend on where it raised *)
      lift st (do '(st0, _) <- read_abss st (meta :: is_);
               do '(st0', _) <- read_rels st0 (meta :: is_);
               do m <- getn st0' meta; do '(m1, ma) <- get_abs m;
               let st1 := setn st0' meta m1 in
               do '(st2, rels) <- read_rels st1 is_;
               match split_bars rels ma qnl with
               | Err e => Ok (st2, OErr e)
               | Ok bars =>
                   Ok (st2 ++ map (fun b => mkseq [] (b_rel b) true false) (concat bars),
                       OBars (map (map (fun b => (b_num b, b_den b, b_key b))) bars))
               end)
  end.

Fixpoint run (st : store) (ops : list op) : store * list out :=
  match ops with
  | [] => (st, [])
  | o :: ops' => let '(st1, x) := step st o in let '(st2, xs) := run st1 ops' in (st2, x :: xs)
  end.
