(* C01 (front end), supplement -- `tok_frontend` never fails, whatever the tracks are.
   The only error of the front end is the IndexError of get_interleaved_message_pairings: some channel exists but no
   pairing at all.  A channel without pairing is created only by a NOTE_OFF that closes nothing; `normalise` (run
   inside the front end) never leaves a NOTE_OFF without an earlier NOTE_ON of its key, and a NOTE_ON always creates
   a pairing.  So the error is unreachable through `tok_frontend` (it is reachable through `interleaved` alone, e.g.
   on a list holding one orphan NOTE_OFF). *)
From Coq Require Import ZArith List Bool Lia Permutation.
From Model Require Import Base Util Seq Pairing Tok.
From Proofs Require Import C04_sort C04_proofs C07_proofs C01_frontend_sig C01_frontend_pipe.
Import ListNotations.
Open Scope Z_scope.

(* ================================================================ counting pairings *)
Definition tot (st : list (Z * chst)) : nat := length (concat (map (fun kv => c_pairs (snd kv)) st)).
Definition chan_of (ch : Z) (st : list (Z * chst)) : chst :=
  match dget Z.eqb ch st with Some c => c | None => mkch [] [] end.

Lemma tot_dset ch cs' st :
  (tot (dset Z.eqb ch cs' st) + length (c_pairs (chan_of ch st)) = tot st + length (c_pairs cs'))%nat.
Proof.
  unfold tot, chan_of. induction st as [|[k v] st IH]; cbn [dset dget map concat snd].
  - cbn [c_pairs length]. rewrite app_nil_r. lia.
  - destruct (ch =? k); cbn [map concat snd]; rewrite !app_length; [lia|]. lia.
Qed.

Lemma set_nth_len {A} (f : A -> A) : forall l n, length (set_nth n f l) = length l.
Proof. induction l as [|x l IH]; intros n; destruct n; cbn [set_nth length]; try reflexivity. now rewrite IH. Qed.

Definition ftype (m : msg) : bool :=
  match m_type m with NOTE_ON | TIME_SIGNATURE | INTERNAL => true | _ => false end.
Definition toktype (m : msg) : bool := tmem (m_type m) TOK_TYPES.

(* one step never loses a pairing, and a NOTE_ON / TIME_SIGNATURE / INTERNAL message adds one *)
Lemma pair_step_tot st i m :
  (tot st + (if ftype m then 1 else 0) <= tot (pair_step TOK_TYPES true st (i, m)))%nat.
Proof.
  unfold pair_step, ftype. fold (chan_of (m_chan m) st). set (cs := chan_of (m_chan m) st).
  destruct (m_type m) eqn:T; cbn [tmem TOK_TYPES existsb mtype_eqb mtype_rank Z.eqb negb orb Pos.eqb]; try lia.
  - match goal with |- context [dset Z.eqb ?ch ?c st] => pose proof (tot_dset ch c st) as H end.
    fold cs in H. destruct (dget Z.eqb (m_note m) (c_open cs)); cbn [c_pairs] in H |- *;
      match goal with |- context [tot (dset ?e ?a ?b ?d)] => set (X := tot (dset e a b d)) in * end;
      rewrite ?app_length, ?set_nth_len in H; cbn [length] in H; lia.
  - match goal with |- context [dset Z.eqb ?ch ?c st] => pose proof (tot_dset ch c st) as H end.
    fold cs in H. destruct (dget Z.eqb (m_note m) (c_open cs)); cbn [c_pairs] in H |- *;
      match goal with |- context [tot (dset ?e ?a ?b ?d)] => set (X := tot (dset e a b d)) in * end;
      rewrite ?app_length, ?set_nth_len in H; cbn [length] in H; lia.
  - match goal with |- context [dset Z.eqb ?ch ?c st] => pose proof (tot_dset ch c st) as H end.
    fold cs in H. destruct (dget Z.eqb (m_note m) (c_open cs)); cbn [c_pairs] in H |- *;
      match goal with |- context [tot (dset ?e ?a ?b ?d)] => set (X := tot (dset e a b d)) in * end;
      rewrite ?app_length, ?set_nth_len in H; cbn [length] in H; lia.
  - match goal with |- context [dset Z.eqb ?ch ?c st] => pose proof (tot_dset ch c st) as H end.
    fold cs in H. destruct (dget Z.eqb (m_note m) (c_open cs)); cbn [c_pairs] in H |- *;
      match goal with |- context [tot (dset ?e ?a ?b ?d)] => set (X := tot (dset e a b d)) in * end;
      rewrite ?app_length, ?set_nth_len in H; cbn [length] in H; lia.
Qed.

Lemma fold_tot : forall L st i0,
  (tot st + (if existsb ftype L then 1 else 0) <= tot (fold_left (pair_step TOK_TYPES true) (index_from i0 L) st))%nat.
Proof.
  induction L as [|m L IH]; intros st i0; cbn [index_from fold_left existsb]; [lia|].
  specialize (IH (pair_step TOK_TYPES true st (i0, m)) (S i0)). pose proof (pair_step_tot st i0 m) as H.
  destruct (ftype m); cbn [orb]; [|lia]. destruct (existsb ftype L); lia.
Qed.

(* a channel entry appears only when a message of one of the four types is seen *)
Lemma fold_nonempty : forall L st i0,
  fold_left (pair_step TOK_TYPES true) (index_from i0 L) st <> [] -> st <> [] \/ existsb toktype L = true.
Proof.
  induction L as [|m L IH]; intros st i0 H; cbn [index_from fold_left existsb] in *; [now left|].
  destruct (toktype m) eqn:E; [now right|]. cbn [orb].
  apply IH in H. destruct H as [H|H]; [|now right]. left.
  unfold pair_step in H. unfold toktype in E. rewrite E in H. exact H.
Qed.

Lemma pairings_len std S :
  length (concat (map snd (pairings_sorted TOK_TYPES std true S))) =
  tot (fold_left (pair_step TOK_TYPES true) (index_from 0 S) []).
Proof.
  unfold pairings_sorted, tot. generalize (fold_left (pair_step TOK_TYPES true) (index_from 0 S) []). intros st.
  induction st as [|[k v] st IH]; [reflexivity|]. cbn [map concat snd fst]. now rewrite !app_length, map_length, IH.
Qed.

(* `interleaved` fails only on a list that holds a NOTE_OFF but no NOTE_ON / TIME_SIGNATURE / INTERNAL message *)
Lemma interleaved_err std S : existsb ftype S = true \/ existsb toktype S = false ->
  exists evs, interleaved TOK_TYPES std true S = Ok evs.
Proof.
  intros H. unfold interleaved.
  destruct (pairings_sorted TOK_TYPES std true S) as [|kv ps] eqn:EP; [eexists; reflexivity|].
  destruct (concat (map snd (kv :: ps))) eqn:EC; [|eexists; reflexivity]. exfalso.
  pose proof (pairings_len std S) as Hl. rewrite EP, EC in Hl. cbn [length] in Hl.
  destruct H as [H|H].
  - pose proof (fold_tot S [] 0%nat) as Ht. rewrite H in Ht. lia.
  - assert (Hne : fold_left (pair_step TOK_TYPES true) (index_from 0 S) [] <> []).
    { intros E. unfold pairings_sorted in EP. rewrite E in EP. discriminate. }
    apply fold_nonempty in Hne. destruct Hne as [Hne|Hne]; [now apply Hne|congruence].
Qed.

(* ================================================================ normalise leaves no orphan NOTE_OFF *)
Lemma alt_off_has_on k l : forall opn, alt k opn l = true ->
  (exists m, In m l /\ is_key k m && is_off m = true) -> opn = true \/ exists m', In m' l /\ is_on m' = true.
Proof.
  induction l as [|x l IH]; intros opn Ha (m & Hm & Hk); [destruct Hm|]. cbn [alt] in Ha.
  destruct (is_key k x && is_on x) eqn:E1.
  - right. exists x. split; [now left|]. now apply andb_prop in E1.
  - destruct (is_key k x && is_off x) eqn:E2.
    + left. now apply andb_prop in Ha.
    + destruct Hm as [->|Hm]; [congruence|].
      destruct (IH opn Ha (ex_intro _ m (conj Hm Hk))) as [H|(m' & H1 & H2)]; [now left|].
      right. exists m'. split; [now right|exact H2].
Qed.

Lemma In_to_abs_aux l : forall cur curf cap m, In m l -> is_wait m = false ->
  exists t f, In (set_time m t f) (ta_msgs (to_abs_aux l cur curf cap)).
Proof.
  induction l as [|x l IH]; intros cur curf cap m H Hw; [destruct H|].
  destruct (is_wait x) eqn:E.
  - rewrite to_abs_aux_wait by exact E. destruct H as [->|H]; [congruence|]. now apply IH.
  - rewrite to_abs_aux_msg by exact E. unfold ta_msgs at 1. cbn [fst]. destruct H as [->|H].
    + exists cur, curf. now left.
    + destruct (IH cur curf true m H Hw) as (t & f & Ht). exists t, f. now right.
Qed.

Lemma In_to_abs l m : In m l -> is_wait m = false -> exists t f, In (set_time m t f) (to_abs l).
Proof.
  intros H Hw. destruct (In_to_abs_aux l 0 false true m H Hw) as (t & f & Ht). exists t, f.
  rewrite to_abs_unfold. cbv zeta.
  assert (Hs : In (set_time m t f) (sort_abs (ta_msgs (to_abs_aux l 0 false true)))).
  { eapply Permutation_in; [apply sort_abs_perm|exact Ht]. }
  destruct (ta_cap _); [exact Hs|]. eapply Permutation_in; [apply insort_perm|]. now right.
Qed.

Lemma existsb_In {A} (f : A -> bool) l x : In x l -> f x = true -> existsb f l = true.
Proof. intros H1 H2. apply existsb_exists. now exists x. Qed.

(* ================================================================ the front end is total *)
Theorem C01_frontend_total : forall tracks : list (list msg), exists evs, tok_frontend tracks = Ok evs.
Proof.
  intros tracks. rewrite tok_frontend_eq. apply interleaved_err.
  destruct (existsb ftype (fe_sorted tracks)) eqn:Ef; [now left|right].
  destruct (existsb toktype (fe_sorted tracks)) eqn:Et; [exfalso|reflexivity].
  apply existsb_exists in Et. destruct Et as (m & Hm & Ht).
  assert (Hoff : is_off m = true).
  { assert (Hf : ftype m = false).
    { destruct (ftype m) eqn:E; [|reflexivity]. rewrite (existsb_In ftype _ m Hm E) in Ef. discriminate. }
    unfold toktype in Ht. unfold ftype in Hf. unfold is_off, mtype_eqb. destruct (m_type m); cbn in *; congruence. }
  unfold fe_sorted in Hm. eapply Permutation_in in Hm; [|symmetry; apply sort_abs_perm].
  destruct (to_abs_In _ _ Hm) as [->|(m0 & t & f & Hm0 & Hw & ->)]; [discriminate|].
  change (is_off (set_time m0 t f)) with (is_off m0) in Hoff.
  pose proof (C07_alternate (fe_rel0 tracks) (m_chan m0, m_note m0)) as Ha. fold (fe_rel tracks) in Ha.
  destruct (alt_off_has_on _ _ false Ha) as [H|(m1 & Hm1 & Hon)]; [|discriminate|].
  - exists m0. split; [exact Hm0|]. unfold is_key. now rewrite k2_eqb_refl, Hoff.
  - assert (Hw1 : is_wait m1 = false) by (now apply on_not_wait).
    destruct (In_to_abs _ m1 Hm1 Hw1) as (t1 & f1 & H1).
    assert (HS : In (set_time m1 t1 f1) (fe_sorted tracks)).
    { unfold fe_sorted. eapply Permutation_in; [apply sort_abs_perm|exact H1]. }
    assert (Hft : ftype (set_time m1 t1 f1) = true).
    { unfold ftype. change (m_type (set_time m1 t1 f1)) with (m_type m1).
      unfold is_on, mtype_eqb in Hon. destruct (m_type m1); cbn in Hon; try discriminate. reflexivity. }
    rewrite (existsb_In ftype _ _ HS Hft) in Ef. discriminate.
Qed.

(* the error is real at the level of `interleaved`: one orphan NOTE_OFF *)
Example interleaved_index_error : interleaved TOK_TYPES PPQN true [mk_off 0 60 5 false] = Err IndexErr.
Proof. reflexivity. Qed.
(* ... but the same message as a track is swallowed by normalise *)
Example frontend_orphan_off : tok_frontend [[mk_off 0 60 0 false]] = Ok [].
Proof. reflexivity. Qed.
