(* C07 -- normalise returns a well-formed sequence with the same duration and sound.
   Everything is about Model.Seq.normalise (fold of nstep, final wait, cleanup).
   Part 1: the specification predicates, written independently of normalise.
   Part 2: tests (vm_compute) on concrete ill-formed inputs.
   Part 3: proofs. *)
From Coq Require Import ZArith List Bool Lia.
From Model Require Import Base Seq.
Import ListNotations.
Open Scope Z_scope.

(* ================================================================ Part 1: specification predicates *)

(* hypothesis of every theorem: a WAIT never carries a negative time *)
Definition nonneg_waits (l : list msg) : bool := forallb (fun m => negb (is_wait m) || (0 <=? m_time m)) l.

(* m is a message of (channel, pitch) k *)
Definition is_key (k : k2) (m : msg) : bool := k2_eqb k (m_chan m, m_note m).

(* clause 1.  [alt k opn l]: reading l from left to right with the note of key k currently open (opn = true) or
   closed, every NOTE_ON of k comes while closed, every NOTE_OFF of k while open, and the list ends closed.
   [alt k false l = true] says the note messages of k form the word (on off)*. *)
Fixpoint alt (k : k2) (opn : bool) (l : list msg) : bool :=
  match l with
  | [] => negb opn
  | m :: l' =>
      if is_key k m && is_on m then negb opn && alt k true l'
      else if is_key k m && is_off m then opn && alt k false l'
      else alt k opn l'
  end.

(* clause 2.  [ts_ok prev l]: no TIME_SIGNATURE of l has the (numerator, denominator) of the previous one
   (prev = the one in force before l; (-1,-1) = none). *)
Definition is_ts (m : msg) : bool := mtype_eqb (m_type m) TIME_SIGNATURE.
Definition is_ks (m : msg) : bool := mtype_eqb (m_type m) KEY_SIGNATURE.
Definition ts_eqb (a b : Z * Z) : bool := Z.eqb (fst a) (fst b) && Z.eqb (snd a) (snd b).
Fixpoint ts_ok (prev : Z * Z) (l : list msg) : bool :=
  match l with
  | [] => true
  | m :: l' => if is_ts m then negb (ts_eqb (m_num m, m_den m) prev) && ts_ok (m_num m, m_den m) l'
               else ts_ok prev l'
  end.
Fixpoint ks_ok (prev : option Key) (l : list msg) : bool :=
  match l with
  | [] => true
  | m :: l' => if is_ks m then negb (okey_eqb (m_key m) prev) && ks_ok (m_key m) l' else ks_ok prev l'
  end.

(* clause 4.  [sounding k t d cur l]: tick t lies inside a WAIT of l during which the nesting depth of key k
   (d at the start of l, +1 per NOTE_ON, -1 per NOTE_OFF) is positive; cur = tick at the start of l. *)
Fixpoint sounding (k : k2) (t : Z) (d cur : Z) (l : list msg) : bool :=
  match l with
  | [] => false
  | m :: l' =>
      if is_wait m then ((0 <? d) && (cur <=? t) && (t <? cur + m_time m)) || sounding k t d (cur + m_time m) l'
      else if is_key k m && is_on m then sounding k t (d + 1) cur l'
      else if is_key k m && is_off m then sounding k t (d - 1) cur l'
      else sounding k t d cur l'
  end.

(* the input's notes are paired: for key k, reading from depth d, no NOTE_OFF comes at depth 0 and the list ends
   at depth 0 *)
Fixpoint bal (k : k2) (d : Z) (l : list msg) : bool :=
  match l with
  | [] => d =? 0
  | m :: l' =>
      if is_key k m && is_on m then bal k (d + 1) l'
      else if is_key k m && is_off m then (0 <? d) && bal k (d - 1) l'
      else bal k d l'
  end.
(* ... for every key that occurs on a note message of l (other keys are trivially balanced) *)
Definition balanced (l : list msg) : bool :=
  forallb (fun m => negb (is_note m) || bal (m_chan m, m_note m) 0 l) l.

(* clause 5.  the observable content of a relative list: every non-wait message with its tick *)
Fixpoint timed (cur : Z) (l : list msg) : list (Z * msg) :=
  match l with
  | [] => []
  | m :: l' => if is_wait m then timed (cur + m_time m) l' else (cur, m) :: timed cur l'
  end.

(* ================================================================ Part 2: tests on concrete inputs *)
Module Tests.
  Definition w t := mk_wait 0 t false.
  Definition on c p := mk_on c p 64 0 false.
  Definition off c p := mk_off c p 0 false.
  Definition ts n d := mk_ts 0 n d 0 false.
  Definition ks k := mk_ks 0 k 0 false.
  Definition keys : list k2 := [(0,60);(1,60);(0,61);(2,5);(0,-1)].
  Definition ticks : list Z := [-1;0;1;2;3;4;5;6;7;8;9;10;11;12;13;14;15;16;17;18;19;20].

  (* orphan offs, re-triggers, nested notes on several channels, unclosed notes, repeated signatures, trailing rest *)
  Definition l1 := [off 0 60; w 2; on 0 60; w 1; on 0 60; on 1 60; w 3; off 0 60; ts 4 4; w 1; ts 4 4; off 0 60;
                    off 0 60; w 2; on 0 61; ks (Some K_C); ks (Some K_C); w 4; on 1 60; w 1; off 1 60; ts 3 4; ts 4 4; w 5].
  Definition l2 := [ts (-1) (-1); ks None; w 0; on 0 60; w 0; off 0 60; on 0 60; on 0 60; w 3; on 2 5; w 1; off 0 60; w 2].
  (* balanced, nested and overlapping *)
  Definition l3 := [w 1; on 0 60; w 2; on 0 60; on 1 60; w 3; off 0 60; w 1; off 0 60; w 2; on 0 60; w 1; off 1 60;
                    off 0 60; ts 4 4; w 2; ts 4 4; w 1].
  Definition l4 := [mk_wait 3 1 false; mk_cc 5 7 100 0 false; mk_wait 3 2 false].

  Fixpoint timed_eqb (a b : list (Z * msg)) : bool :=
    match a, b with
    | [], [] => true
    | (t, m) :: a', (t', m') :: b' => Z.eqb t t' && msg_eqb m m' && timed_eqb a' b'
    | _, _ => false
    end.
  Definition checks (l : list msg) :=
    let o := normalise l in
    (forallb (fun k => alt k false o) keys, ts_ok (NONE, NONE) o, ks_ok None o,
     (dur_rel o =? dur_rel l),
     balanced l,
     forallb (fun k => forallb (fun t => Bool.eqb (sounding k t 0 0 o) (sounding k t 0 0 l)) ticks) keys,
     (dur_rel (normalise o) =? dur_rel o),
     timed_eqb (timed 0 (normalise o)) (timed 0 o)).
  Eval vm_compute in (nonneg_waits l1, checks l1).
  Eval vm_compute in (nonneg_waits l2, checks l2).
  Eval vm_compute in (nonneg_waits l3, checks l3).
  Eval vm_compute in (nonneg_waits l4, checks l4).
  Eval vm_compute in map (fun m => (m_type m, m_chan m, m_note m, m_time m)) (normalise l1).
  Eval vm_compute in map (fun m => (m_type m, m_chan m, m_note m, m_time m)) (normalise (normalise l1)).
  Eval vm_compute in map (fun m => (m_type m, m_chan m, m_note m, m_time m)) (normalise l4).
  Eval vm_compute in map (fun m => (m_type m, m_chan m, m_note m, m_time m)) (normalise (normalise l4)).
End Tests.

(* ================================================================ Part 3: proofs *)

(* ---------------------------------------------------------------- keys, dicts *)
Definition key_of (m : msg) : k2 := (m_chan m, m_note m).

Lemma k2_eqb_eq a b : k2_eqb a b = true <-> a = b.
Proof.
  destruct a as [a1 a2], b as [b1 b2]; unfold k2_eqb; cbn [fst snd].
  rewrite andb_true_iff, !Z.eqb_eq. split; [intros [-> ->]; reflexivity | intros H; inversion H; auto].
Qed.
Lemma k2_eqb_refl a : k2_eqb a a = true.
Proof. now apply k2_eqb_eq. Qed.
Lemma k2_eqb_neq a b : k2_eqb a b = false <-> a <> b.
Proof.
  split.
  - intros E H. apply k2_eqb_eq in H. congruence.
  - intros N. destruct (k2_eqb a b) eqn:E; [apply k2_eqb_eq in E; contradiction | reflexivity].
Qed.

Lemma dget_dset_same k v (o : list (k2 * nat)) : dget k2_eqb k (dset k2_eqb k v o) = Some v.
Proof.
  induction o as [|[k' v'] o IH]; cbn [dset dget].
  - now rewrite k2_eqb_refl.
  - destruct (k2_eqb k k') eqn:E; cbn [dget]; rewrite E; auto.
Qed.
Lemma dget_dset_other k k' v (o : list (k2 * nat)) :
  k' <> k -> dget k2_eqb k' (dset k2_eqb k v o) = dget k2_eqb k' o.
Proof.
  intros N. apply k2_eqb_neq in N. induction o as [|[k1 v1] o IH]; cbn [dset dget].
  - now rewrite N.
  - destruct (k2_eqb k k1) eqn:E; cbn [dget].
    + apply k2_eqb_eq in E; subst k1. now rewrite N.
    + now rewrite IH.
Qed.
Lemma depth_dset_same k v o : depth k (dset k2_eqb k v o) = v.
Proof. unfold depth. now rewrite dget_dset_same. Qed.
Lemma depth_dset_other k k' v o : k' <> k -> depth k' (dset k2_eqb k v o) = depth k' o.
Proof. intros N. unfold depth. now rewrite dget_dset_other. Qed.

(* keys of the dict are pairwise different *)
Fixpoint dnodup (o : list (k2 * nat)) : bool :=
  match o with [] => true | (k, _) :: o' => negb (dmem k2_eqb k o') && dnodup o' end.
Lemma dmem_dset k k' v (o : list (k2 * nat)) :
  dmem k2_eqb k' (dset k2_eqb k v o) = dmem k2_eqb k' o || k2_eqb k' k.
Proof.
  unfold dmem. destruct (k2_eqb k' k) eqn:E.
  - apply k2_eqb_eq in E; subst k'. rewrite dget_dset_same. now rewrite orb_true_r.
  - apply k2_eqb_neq in E. rewrite dget_dset_other by exact E. now rewrite orb_false_r.
Qed.
Lemma dnodup_dset k v o : dnodup o = true -> dnodup (dset k2_eqb k v o) = true.
Proof.
  induction o as [|[k1 v1] o IH]; cbn [dset dnodup]; [reflexivity|].
  intros H. apply andb_true_iff in H as [H1 H2].
  destruct (k2_eqb k k1) eqn:E; cbn [dnodup].
  - now rewrite H1, H2.
  - rewrite dmem_dset, IH by exact H2.
    assert (E' : k2_eqb k1 k = false).
    { apply k2_eqb_neq. apply k2_eqb_neq in E. congruence. }
    rewrite E', orb_false_r, H1. reflexivity.
Qed.

(* ---------------------------------------------------------------- message type flags *)
Lemma flags_cases m :
  (is_wait m = true /\ is_on m = false /\ is_off m = false /\ is_ts m = false /\ is_ks m = false) \/
  (is_wait m = false /\ is_on m = true /\ is_off m = false /\ is_ts m = false /\ is_ks m = false) \/
  (is_wait m = false /\ is_on m = false /\ is_off m = true /\ is_ts m = false /\ is_ks m = false) \/
  (is_wait m = false /\ is_on m = false /\ is_off m = false /\ is_ts m = true /\ is_ks m = false) \/
  (is_wait m = false /\ is_on m = false /\ is_off m = false /\ is_ts m = false /\ is_ks m = true) \/
  (is_wait m = false /\ is_on m = false /\ is_off m = false /\ is_ts m = false /\ is_ks m = false).
Proof.
  unfold is_wait, is_on, is_off, is_ts, is_ks. destruct (m_type m); cbn;
    repeat (first [ left; repeat split; reflexivity | right ]); repeat split; reflexivity.
Qed.
Ltac by_flags m :=
  let F := fresh "F" in
  let Fw := fresh "Fw" in let Fon := fresh "Fon" in let Foff := fresh "Foff" in
  let Fts := fresh "Fts" in let Fks := fresh "Fks" in
  destruct (flags_cases m) as [F|[F|[F|[F|[F|F]]]]]; destruct F as (Fw & Fon & Foff & Fts & Fks);
  rewrite ?Fw, ?Fon, ?Foff, ?Fts, ?Fks; cbn [andb orb negb].

Lemma wait_flags c t f : is_wait (mk_wait c t f) = true /\ is_on (mk_wait c t f) = false /\
  is_off (mk_wait c t f) = false /\ is_ts (mk_wait c t f) = false /\ is_ks (mk_wait c t f) = false.
Proof. repeat split; reflexivity. Qed.

(* ---------------------------------------------------------------- one step of the loop, projected *)
Definition pend (s : nstate) (c : Z) : list msg :=
  if 0 <? n_wait s then [mk_wait c (n_wait s) (n_waitf s)] else [].
Definition emit (s : nstate) (m : msg) : bool :=
  if is_wait m then false
  else if is_on m then Nat.eqb (depth (key_of m) (n_open s)) 0
  else if is_off m then Nat.eqb (depth (key_of m) (n_open s)) 1
  else if is_ts m then negb (ts_eqb (m_num m, m_den m) (n_ts s))
  else if is_ks m then negb (okey_eqb (m_key m) (n_key s))
  else true.
Definition nopen (s : nstate) (m : msg) : list (k2 * nat) :=
  if is_on m then dset k2_eqb (key_of m) (S (depth (key_of m) (n_open s))) (n_open s)
  else if is_off m then
    match depth (key_of m) (n_open s) with O => n_open s | S d => dset k2_eqb (key_of m) d (n_open s) end
  else n_open s.

Lemma nstep_out s m : n_out (nstep s m) = if emit s m then n_out s ++ pend s (m_chan m) ++ [m] else n_out s.
Proof.
  destruct s as [o out w wf ts ky].
  unfold nstep, emit, pend, flush, is_wait, is_on, is_off, is_ts, is_ks, key_of, ts_eqb.
  cbn [n_out n_open n_wait n_waitf n_ts n_key fst snd].
  destruct (m_type m); cbn [mtype_eqb mtype_rank Z.eqb Pos.eqb negb];
    try (destruct (0 <? w); cbn [n_out app]; rewrite <- ?app_assoc; reflexivity).
  - destruct (okey_eqb (m_key m) ky); cbn [negb n_out]; [reflexivity|].
    destruct (0 <? w); cbn [n_out app]; rewrite <- ?app_assoc; reflexivity.
  - destruct ((m_num m =? fst ts) && (m_den m =? snd ts)); cbn [negb n_out]; [reflexivity|].
    destruct (0 <? w); cbn [n_out app]; rewrite <- ?app_assoc; reflexivity.
  - destruct (depth (m_chan m, m_note m) o) as [|[|d]]; cbn [Nat.eqb n_out]; try reflexivity.
    destruct (0 <? w); cbn [n_out app]; rewrite <- ?app_assoc; reflexivity.
  - destruct (depth (m_chan m, m_note m) o) as [|d]; cbn [Nat.eqb n_out]; try reflexivity.
    destruct (0 <? w); cbn [n_out app]; rewrite <- ?app_assoc; reflexivity.
Qed.

Lemma nstep_wait s m :
  n_wait (nstep s m) = if is_wait m then n_wait s + m_time m
                       else if emit s m && (0 <? n_wait s) then 0 else n_wait s.
Proof.
  destruct s as [o out w wf ts ky].
  unfold nstep, emit, flush, is_wait, is_on, is_off, is_ts, is_ks, key_of, ts_eqb.
  cbn [n_out n_open n_wait n_waitf n_ts n_key fst snd].
  destruct (m_type m); cbn [mtype_eqb mtype_rank Z.eqb Pos.eqb negb andb n_wait];
    try (destruct (0 <? w); reflexivity).
  all: try destruct (okey_eqb (m_key m) ky); try destruct ((m_num m =? fst ts) && (m_den m =? snd ts));
    try (destruct (depth (m_chan m, m_note m) o) as [|[|d]]); cbn [negb andb Nat.eqb n_wait];
    destruct (0 <? w); reflexivity.
Qed.

Lemma nstep_open s m : n_open (nstep s m) = nopen s m.
Proof.
  destruct s as [o out w wf ts ky].
  unfold nstep, nopen, flush, is_wait, is_on, is_off, is_ts, is_ks, key_of.
  cbn [n_out n_open n_wait n_waitf n_ts n_key fst snd].
  destruct (m_type m); cbn [mtype_eqb mtype_rank Z.eqb Pos.eqb n_open]; try reflexivity.
  - destruct (okey_eqb (m_key m) ky); reflexivity.
  - destruct ((m_num m =? fst ts) && (m_den m =? snd ts)); reflexivity.
  - destruct (depth (m_chan m, m_note m) o) as [|[|d]]; reflexivity.
  - destruct (depth (m_chan m, m_note m) o) as [|d]; reflexivity.
Qed.

Lemma nstep_ts s m :
  n_ts (nstep s m) = if is_ts m && negb (ts_eqb (m_num m, m_den m) (n_ts s)) then (m_num m, m_den m) else n_ts s.
Proof.
  destruct s as [o out w wf ts ky].
  unfold nstep, flush, is_ts, ts_eqb.
  cbn [n_out n_open n_wait n_waitf n_ts n_key fst snd].
  destruct (m_type m); cbn [mtype_eqb mtype_rank Z.eqb Pos.eqb n_ts andb]; try reflexivity.
  - destruct (okey_eqb (m_key m) ky); reflexivity.
  - destruct ((m_num m =? fst ts) && (m_den m =? snd ts)); reflexivity.
  - destruct (depth (m_chan m, m_note m) o) as [|[|d]]; reflexivity.
  - destruct (depth (m_chan m, m_note m) o) as [|d]; reflexivity.
Qed.

Lemma nstep_key s m :
  n_key (nstep s m) = if is_ks m && negb (okey_eqb (m_key m) (n_key s)) then m_key m else n_key s.
Proof.
  destruct s as [o out w wf ts ky].
  unfold nstep, flush, is_ks.
  cbn [n_out n_open n_wait n_waitf n_ts n_key fst snd].
  destruct (m_type m); cbn [mtype_eqb mtype_rank Z.eqb Pos.eqb n_key andb]; try reflexivity.
  - destruct (okey_eqb (m_key m) ky); reflexivity.
  - destruct ((m_num m =? fst ts) && (m_den m =? snd ts)); reflexivity.
  - destruct (depth (m_chan m, m_note m) o) as [|[|d]]; reflexivity.
  - destruct (depth (m_chan m, m_note m) o) as [|d]; reflexivity.
Qed.

Lemma emit_not_wait s m : emit s m = true -> is_wait m = false.
Proof. unfold emit. destruct (is_wait m); [discriminate | reflexivity]. Qed.

(* ---------------------------------------------------------------- invariants over the loop *)
Definition init : nstate := mkn [] [] 0 false (NONE, NONE) None.

Lemma fold_inv (R : nstate -> list msg -> Prop) s0 :
  R s0 [] -> (forall s p m, R s p -> R (nstep s m) (p ++ [m])) -> forall l, R (fold_left nstep l s0) l.
Proof.
  intros H0 HS l. induction l as [|m l IH] using rev_ind; [exact H0|].
  rewrite fold_left_app. cbn [fold_left]. apply HS, IH.
Qed.

Lemma nonneg_app a b : nonneg_waits (a ++ b) = nonneg_waits a && nonneg_waits b.
Proof. unfold nonneg_waits. apply forallb_app. Qed.

(* ---------------------------------------------------------------- clause 3: duration *)
Lemma dur_rel_app a b : dur_rel (a ++ b) = dur_rel a + dur_rel b.
Proof.
  unfold dur_rel. rewrite filter_app, map_app.
  induction (map m_time (filter is_wait a)) as [|x xs IH]; cbn [app sumZ]; lia.
Qed.
Lemma dur_rel_one m : dur_rel [m] = if is_wait m then m_time m else 0.
Proof. unfold dur_rel. cbn [filter]. destruct (is_wait m); cbn [map sumZ]; lia. Qed.
Lemma dur_rel_pend s c : 0 <= n_wait s -> dur_rel (pend s c) = n_wait s.
Proof.
  intros H. unfold pend. destruct (0 <? n_wait s) eqn:E; [apply Z.ltb_lt in E | apply Z.ltb_ge in E].
  - rewrite dur_rel_one. destruct (wait_flags c (n_wait s) (n_waitf s)) as (-> & _). reflexivity.
  - cbn. lia.
Qed.

Lemma dur_step s p m :
  (is_wait m = true -> 0 <= m_time m) ->
  dur_rel (n_out s) + n_wait s = dur_rel p /\ 0 <= n_wait s ->
  dur_rel (n_out (nstep s m)) + n_wait (nstep s m) = dur_rel (p ++ [m]) /\ 0 <= n_wait (nstep s m).
Proof.
  intros NNm [D W].
  rewrite nstep_out, nstep_wait, dur_rel_app, dur_rel_one.
  destruct (is_wait m) eqn:Ew.
  - assert (E : emit s m = false) by (unfold emit; now rewrite Ew). rewrite E.
    specialize (NNm eq_refl). lia.
  - destruct (emit s m) eqn:E; cbn [andb].
    + rewrite !dur_rel_app, dur_rel_pend, dur_rel_one, Ew by exact W.
      destruct (0 <? n_wait s) eqn:E0; [apply Z.ltb_lt in E0 | apply Z.ltb_ge in E0]; lia.
    + lia.
Qed.
Lemma nonneg_one m : nonneg_waits [m] = true -> is_wait m = true -> 0 <= m_time m.
Proof.
  unfold nonneg_waits. cbn [forallb]. rewrite andb_true_r. intros H E. rewrite E in H. cbn [negb orb] in H.
  now apply Z.leb_le.
Qed.

Lemma dur_inv l : nonneg_waits l = true ->
  let s := fold_left nstep l init in dur_rel (n_out s) + n_wait s = dur_rel l /\ 0 <= n_wait s.
Proof.
  apply (fold_inv (fun s p => nonneg_waits p = true -> dur_rel (n_out s) + n_wait s = dur_rel p /\ 0 <= n_wait s)).
  - intros _. cbn. lia.
  - intros s p m IH NN. rewrite nonneg_app in NN. apply andb_true_iff in NN as [NNp NNm].
    apply dur_step; [now apply nonneg_one | now apply IH].
Qed.

(* ---------------------------------------------------------------- the cleanup only removes NOTE_ON messages *)
Lemma rlo_filter (f : msg -> bool) k l :
  (forall m, is_on m = true -> f m = false) -> filter f (fst (remove_last_on k l)) = filter f l.
Proof.
  intros Hf. induction l as [|m l IH]; [reflexivity|].
  cbn [remove_last_on]. destruct (remove_last_on k l) as [r found]. cbn [fst] in IH.
  destruct found; [cbn [fst filter]; now rewrite IH|].
  destruct (is_on m && k2_eqb k (m_chan m, m_note m)) eqn:C; cbn [fst filter].
  - apply andb_true_iff in C as [C _]. now rewrite (Hf m C).
  - now rewrite IH.
Qed.
Lemma cleanup_filter (f : msg -> bool) o out :
  (forall m, is_on m = true -> f m = false) -> filter f (cleanup o out) = filter f out.
Proof.
  intros Hf. unfold cleanup. revert out. induction o as [|[k [|d]] o IH]; intros out; cbn [fold_left fst snd].
  - reflexivity.
  - apply IH.
  - rewrite IH. now apply rlo_filter.
Qed.
Lemma on_not_wait m : is_on m = true -> is_wait m = false.
Proof. by_flags m; congruence. Qed.
Lemma on_not_ts m : is_on m = true -> is_ts m = false.
Proof. by_flags m; congruence. Qed.
Lemma on_not_ks m : is_on m = true -> is_ks m = false.
Proof. by_flags m; congruence. Qed.

Lemma normalise_eq l :
  normalise l = cleanup (n_open (fold_left nstep l init)) (n_out (fold_left nstep l init) ++
                                                            pend (fold_left nstep l init) (first_chan l)).
Proof.
  unfold normalise, pend. fold init. cbv zeta.
  destruct (0 <? n_wait (fold_left nstep l init)); [reflexivity | now rewrite app_nil_r].
Qed.

Theorem C07_duration l : nonneg_waits l = true -> dur_rel (normalise l) = dur_rel l.
Proof.
  intros NN. destruct (dur_inv l NN) as [D W]. cbv zeta in D, W.
  rewrite normalise_eq. unfold dur_rel at 1. rewrite cleanup_filter by exact on_not_wait.
  fold (dur_rel (n_out (fold_left nstep l init) ++ pend (fold_left nstep l init) (first_chan l))).
  rewrite dur_rel_app, dur_rel_pend by exact W. exact D.
Qed.

(* ---------------------------------------------------------------- clause 2: signatures *)
Fixpoint ts_last (prev : Z * Z) (l : list msg) : Z * Z :=
  match l with [] => prev | m :: l' => if is_ts m then ts_last (m_num m, m_den m) l' else ts_last prev l' end.
Fixpoint ks_last (prev : option Key) (l : list msg) : option Key :=
  match l with [] => prev | m :: l' => if is_ks m then ks_last (m_key m) l' else ks_last prev l' end.

Lemma ts_ok_app a b : forall prev, ts_ok prev (a ++ b) = ts_ok prev a && ts_ok (ts_last prev a) b.
Proof.
  induction a as [|m a IH]; intros prev; cbn [app ts_ok ts_last]; [reflexivity|].
  destruct (is_ts m); rewrite IH; [now rewrite andb_assoc | reflexivity].
Qed.
Lemma ts_last_app a b : forall prev, ts_last prev (a ++ b) = ts_last (ts_last prev a) b.
Proof. induction a as [|m a IH]; intros prev; cbn [app ts_last]; [reflexivity|]. destruct (is_ts m); apply IH. Qed.
Lemma ks_ok_app a b : forall prev, ks_ok prev (a ++ b) = ks_ok prev a && ks_ok (ks_last prev a) b.
Proof.
  induction a as [|m a IH]; intros prev; cbn [app ks_ok ks_last]; [reflexivity|].
  destruct (is_ks m); rewrite IH; [now rewrite andb_assoc | reflexivity].
Qed.
Lemma ks_last_app a b : forall prev, ks_last prev (a ++ b) = ks_last (ks_last prev a) b.
Proof. induction a as [|m a IH]; intros prev; cbn [app ks_last]; [reflexivity|]. destruct (is_ks m); apply IH. Qed.

Lemma ts_ok_filter l : forall prev, ts_ok prev l = ts_ok prev (filter is_ts l).
Proof.
  induction l as [|m l IH]; intros prev; cbn [ts_ok filter]; [reflexivity|].
  destruct (is_ts m) eqn:E; cbn [ts_ok]; rewrite ?E; now rewrite IH.
Qed.
Lemma ks_ok_filter l : forall prev, ks_ok prev l = ks_ok prev (filter is_ks l).
Proof.
  induction l as [|m l IH]; intros prev; cbn [ks_ok filter]; [reflexivity|].
  destruct (is_ks m) eqn:E; cbn [ks_ok]; rewrite ?E; now rewrite IH.
Qed.

Lemma pend_ts s c prev : ts_ok prev (pend s c) = true /\ ts_last prev (pend s c) = prev.
Proof. unfold pend. destruct (0 <? n_wait s); split; reflexivity. Qed.
Lemma pend_ks s c prev : ks_ok prev (pend s c) = true /\ ks_last prev (pend s c) = prev.
Proof. unfold pend. destruct (0 <? n_wait s); split; reflexivity. Qed.

Lemma ts_inv l :
  let s := fold_left nstep l init in
  ts_ok (NONE, NONE) (n_out s) = true /\ ts_last (NONE, NONE) (n_out s) = n_ts s.
Proof.
  apply (fold_inv (fun s (_ : list msg) =>
           ts_ok (NONE, NONE) (n_out s) = true /\ ts_last (NONE, NONE) (n_out s) = n_ts s)).
  - split; reflexivity.
  - intros s _ m [OK LAST]. rewrite nstep_out, nstep_ts. unfold emit.
    by_flags m; try (split; assumption).
    + destruct (_ =? _)%nat; [|split; assumption].
      rewrite !ts_ok_app, !ts_last_app, OK, LAST.
      destruct (pend_ts s (m_chan m) (n_ts s)) as [-> ->]. cbn [ts_ok ts_last]. rewrite Fts. split; reflexivity.
    + destruct (_ =? _)%nat; [|split; assumption].
      rewrite !ts_ok_app, !ts_last_app, OK, LAST.
      destruct (pend_ts s (m_chan m) (n_ts s)) as [-> ->]. cbn [ts_ok ts_last]. rewrite Fts. split; reflexivity.
    + destruct (ts_eqb (m_num m, m_den m) (n_ts s)) eqn:E; cbn [negb]; [split; assumption|].
      rewrite !ts_ok_app, !ts_last_app, OK, LAST.
      destruct (pend_ts s (m_chan m) (n_ts s)) as [-> ->]. cbn [ts_ok ts_last]. rewrite Fts, E. split; reflexivity.
    + destruct (okey_eqb (m_key m) (n_key s)); cbn [negb]; [split; assumption|].
      rewrite !ts_ok_app, !ts_last_app, OK, LAST.
      destruct (pend_ts s (m_chan m) (n_ts s)) as [-> ->]. cbn [ts_ok ts_last]. rewrite Fts. split; reflexivity.
    + rewrite !ts_ok_app, !ts_last_app, OK, LAST.
      destruct (pend_ts s (m_chan m) (n_ts s)) as [-> ->]. cbn [ts_ok ts_last]. rewrite Fts. split; reflexivity.
Qed.

Lemma ks_inv l :
  let s := fold_left nstep l init in
  ks_ok None (n_out s) = true /\ ks_last None (n_out s) = n_key s.
Proof.
  apply (fold_inv (fun s (_ : list msg) => ks_ok None (n_out s) = true /\ ks_last None (n_out s) = n_key s)).
  - split; reflexivity.
  - intros s _ m [OK LAST]. rewrite nstep_out, nstep_key. unfold emit.
    by_flags m; try (split; assumption).
    + destruct (_ =? _)%nat; [|split; assumption].
      rewrite !ks_ok_app, !ks_last_app, OK, LAST.
      destruct (pend_ks s (m_chan m) (n_key s)) as [-> ->]. cbn [ks_ok ks_last]. rewrite Fks. split; reflexivity.
    + destruct (_ =? _)%nat; [|split; assumption].
      rewrite !ks_ok_app, !ks_last_app, OK, LAST.
      destruct (pend_ks s (m_chan m) (n_key s)) as [-> ->]. cbn [ks_ok ks_last]. rewrite Fks. split; reflexivity.
    + destruct (ts_eqb (m_num m, m_den m) (n_ts s)); cbn [negb]; [split; assumption|].
      rewrite !ks_ok_app, !ks_last_app, OK, LAST.
      destruct (pend_ks s (m_chan m) (n_key s)) as [-> ->]. cbn [ks_ok ks_last]. rewrite Fks. split; reflexivity.
    + destruct (okey_eqb (m_key m) (n_key s)) eqn:E; cbn [negb]; [split; assumption|].
      rewrite !ks_ok_app, !ks_last_app, OK, LAST.
      destruct (pend_ks s (m_chan m) (n_key s)) as [-> ->]. cbn [ks_ok ks_last]. rewrite Fks, E. split; reflexivity.
    + rewrite !ks_ok_app, !ks_last_app, OK, LAST.
      destruct (pend_ks s (m_chan m) (n_key s)) as [-> ->]. cbn [ks_ok ks_last]. rewrite Fks. split; reflexivity.
Qed.

Theorem C07_nodup_sig l : ts_ok (NONE, NONE) (normalise l) = true /\ ks_ok None (normalise l) = true.
Proof.
  rewrite normalise_eq. split.
  - rewrite ts_ok_filter, cleanup_filter by exact on_not_ts. rewrite <- ts_ok_filter.
    destruct (ts_inv l) as [OK _]. cbv zeta in OK. rewrite ts_ok_app, OK.
    apply (pend_ts (fold_left nstep l init)).
  - rewrite ks_ok_filter, cleanup_filter by exact on_not_ks. rewrite <- ks_ok_filter.
    destruct (ks_inv l) as [OK _]. cbv zeta in OK. rewrite ks_ok_app, OK.
    apply (pend_ks (fold_left nstep l init)).
Qed.

(* ---------------------------------------------------------------- clause 1: alternation *)
(* the automaton behind [alt]: final open/closed state, None after a violation *)
Fixpoint alt_run (k : k2) (opn : bool) (l : list msg) : option bool :=
  match l with
  | [] => Some opn
  | m :: l' =>
      if is_key k m && is_on m then (if opn then None else alt_run k true l')
      else if is_key k m && is_off m then (if opn then alt_run k false l' else None)
      else alt_run k opn l'
  end.
Lemma alt_spec k l : forall opn, alt k opn l = true <-> alt_run k opn l = Some false.
Proof.
  induction l as [|m l IH]; intros opn; cbn [alt alt_run].
  - destruct opn; cbn; split; congruence.
  - destruct (is_key k m && is_on m); [|destruct (is_key k m && is_off m)].
    + destruct opn; cbn [negb andb]; [split; discriminate | apply IH].
    + destruct opn; cbn [negb andb]; [apply IH | split; discriminate].
    + apply IH.
Qed.
Lemma alt_run_app k a b : forall opn,
  alt_run k opn (a ++ b) = match alt_run k opn a with Some o' => alt_run k o' b | None => None end.
Proof.
  induction a as [|m a IH]; intros opn; cbn [app alt_run]; [reflexivity|].
  destruct (is_key k m && is_on m); [|destruct (is_key k m && is_off m)].
  - destruct opn; [reflexivity | apply IH].
  - destruct opn; [apply IH | reflexivity].
  - apply IH.
Qed.
Lemma alt_run_pend k s c opn : alt_run k opn (pend s c) = Some opn.
Proof.
  unfold pend. destruct (0 <? n_wait s); [|reflexivity]. cbn [alt_run].
  destruct (wait_flags c (n_wait s) (n_waitf s)) as (_ & -> & -> & _). now rewrite !andb_false_r.
Qed.

Definition is_open (k : k2) (o : list (k2 * nat)) : bool := negb (Nat.eqb (depth k o) 0).

Lemma alt_run_emit k s m b :
  alt_run k false (n_out s) = Some b -> alt_run k false (n_out s ++ pend s (m_chan m) ++ [m]) = alt_run k b [m].
Proof. intros A. rewrite alt_run_app, A. rewrite alt_run_app, alt_run_pend. reflexivity. Qed.
Lemma alt_run_other k b m : is_key k m && is_on m = false -> is_key k m && is_off m = false -> alt_run k b [m] = Some b.
Proof. intros H1 H2. cbn [alt_run]. now rewrite H1, H2. Qed.

Lemma alt_step s m :
  dnodup (n_open s) = true /\ (forall k, alt_run k false (n_out s) = Some (is_open k (n_open s))) ->
  dnodup (n_open (nstep s m)) = true /\
  (forall k, alt_run k false (n_out (nstep s m)) = Some (is_open k (n_open (nstep s m)))).
Proof.
  intros [ND A]. rewrite nstep_out, nstep_open. unfold emit, nopen. split.
  + by_flags m; try exact ND.
    * now apply dnodup_dset.
    * destruct (depth (key_of m) (n_open s)); [exact ND | now apply dnodup_dset].
  + intros k. specialize (A k). unfold is_open in *.
    by_flags m; try exact A.
    * (* NOTE_ON *)
      destruct (k2_eqb k (key_of m)) eqn:E.
      -- apply k2_eqb_eq in E. subst k. rewrite depth_dset_same. cbn [Nat.eqb negb].
         destruct (depth (key_of m) (n_open s)) as [|d] eqn:D; cbn [Nat.eqb negb] in *; [|exact A].
         rewrite (alt_run_emit _ _ _ _ A). cbn [alt_run]. unfold is_key. fold (key_of m).
         now rewrite k2_eqb_refl, Fon.
      -- assert (N : k <> key_of m) by (now apply k2_eqb_neq).
         rewrite depth_dset_other by exact N.
         destruct (depth (key_of m) (n_open s) =? 0)%nat; [|exact A].
         rewrite (alt_run_emit _ _ _ _ A). apply alt_run_other; unfold is_key; fold (key_of m); now rewrite E.
    * (* NOTE_OFF *)
      destruct (k2_eqb k (key_of m)) eqn:E.
      -- apply k2_eqb_eq in E. subst k.
         destruct (depth (key_of m) (n_open s)) as [|[|d]] eqn:D; cbn [Nat.eqb negb] in *.
         ++ rewrite D. exact A.
         ++ rewrite depth_dset_same. cbn [Nat.eqb negb].
            rewrite (alt_run_emit _ _ _ _ A). cbn [alt_run]. unfold is_key. fold (key_of m).
            now rewrite k2_eqb_refl, Fon, Foff.
         ++ rewrite depth_dset_same. exact A.
      -- assert (N : k <> key_of m) by (now apply k2_eqb_neq).
         assert (D' : depth k (match depth (key_of m) (n_open s) with
                               | O => n_open s | S d => dset k2_eqb (key_of m) d (n_open s) end)
                      = depth k (n_open s)).
         { destruct (depth (key_of m) (n_open s)); [reflexivity | now apply depth_dset_other]. }
         rewrite D'. destruct (depth (key_of m) (n_open s) =? 1)%nat; [|exact A].
         rewrite (alt_run_emit _ _ _ _ A). apply alt_run_other; unfold is_key; fold (key_of m); now rewrite E.
    * (* TIME_SIGNATURE *)
      destruct (negb (ts_eqb _ _)); [|exact A].
      rewrite (alt_run_emit _ _ _ _ A). apply alt_run_other; now rewrite ?Fon, ?Foff, andb_false_r.
    * destruct (negb (okey_eqb _ _)); [|exact A].
      rewrite (alt_run_emit _ _ _ _ A). apply alt_run_other; now rewrite ?Fon, ?Foff, andb_false_r.
    * rewrite (alt_run_emit _ _ _ _ A). apply alt_run_other; now rewrite ?Fon, ?Foff, andb_false_r.
Qed.

Lemma alt_inv l :
  let s := fold_left nstep l init in
  dnodup (n_open s) = true /\ forall k, alt_run k false (n_out s) = Some (is_open k (n_open s)).
Proof.
  apply (fold_inv (fun s (_ : list msg) =>
           dnodup (n_open s) = true /\ forall k, alt_run k false (n_out s) = Some (is_open k (n_open s)))).
  - split; [reflexivity | intros k; reflexivity].
  - intros s _ m IH. now apply alt_step.
Qed.

(* removing the last NOTE_ON of k closes an open k and does not touch the other keys *)
Lemma rlo_notfound k l : snd (remove_last_on k l) = false -> fst (remove_last_on k l) = l.
Proof.
  induction l as [|m l IH]; [reflexivity|]. cbn [remove_last_on].
  destruct (remove_last_on k l) as [r f]. cbn [fst snd] in IH.
  destruct f; [discriminate|]. destruct (is_on m && k2_eqb k (m_chan m, m_note m)); [discriminate|].
  intros _. cbn [fst]. now rewrite IH.
Qed.

Lemma rlo_alt_same k l : forall opn, alt_run k opn l = Some true ->
  (snd (remove_last_on k l) = true /\ alt_run k opn (fst (remove_last_on k l)) = Some false) \/
  (snd (remove_last_on k l) = false /\ opn = true /\ alt_run k false l = Some false).
Proof.
  induction l as [|m l IH]; intros opn H.
  - cbn in H. injection H as ->. right. cbn. auto.
  - cbn [alt_run] in H. cbn [remove_last_on].
    pose proof (rlo_notfound k l) as NF.
    destruct (remove_last_on k l) as [r f]. cbn [fst snd] in IH, NF.
    assert (C : is_on m && k2_eqb k (m_chan m, m_note m) = is_key k m && is_on m) by (unfold is_key; apply andb_comm).
    rewrite C. clear C.
    destruct (is_key k m && is_on m) eqn:C1; [|destruct (is_key k m && is_off m) eqn:C2].
    + destruct opn; [discriminate|]. destruct (IH true H) as [[Hf Ha]|[Hf [_ Ha]]]; subst f; cbn [fst snd]; left.
      * split; [reflexivity|]. cbn [alt_run]. now rewrite C1.
      * split; [reflexivity|]. now rewrite NF.
    + destruct opn; [|discriminate]. destruct (IH false H) as [[Hf Ha]|[Hf [Habs _]]]; [|discriminate].
      subst f. cbn [fst snd]. left. split; [reflexivity|]. cbn [alt_run]. now rewrite C1, C2.
    + destruct (IH opn H) as [[Hf Ha]|[Hf [Ho Ha]]]; subst f; cbn [fst snd].
      * left. split; [reflexivity|]. cbn [alt_run]. now rewrite C1, C2.
      * right. split; [reflexivity|]. split; [exact Ho|]. cbn [alt_run]. now rewrite C1, C2.
Qed.

Lemma rlo_alt_other k k' l : k' <> k -> forall opn,
  alt_run k' opn (fst (remove_last_on k l)) = alt_run k' opn l.
Proof.
  intros N. induction l as [|m l IH]; intros opn; [reflexivity|]. cbn [remove_last_on].
  destruct (remove_last_on k l) as [r f]. cbn [fst] in IH.
  destruct f.
  - cbn [fst alt_run]. now rewrite !IH.
  - destruct (is_on m && k2_eqb k (m_chan m, m_note m)) eqn:C; cbn [fst alt_run].
    + apply andb_true_iff in C as [_ C]. apply k2_eqb_eq in C.
      assert (E : is_key k' m = false) by (unfold is_key; rewrite <- C; now apply k2_eqb_neq).
      rewrite E. cbn [andb]. apply IH.
    + now rewrite !IH.
Qed.

Lemma is_open_head_same k v o : is_open k ((k, v) :: o) = negb (Nat.eqb v 0).
Proof. unfold is_open, depth. cbn [dget]. now rewrite k2_eqb_refl. Qed.
Lemma is_open_head_other k k0 v o : k <> k0 -> is_open k ((k0, v) :: o) = is_open k o.
Proof. intros N. apply k2_eqb_neq in N. unfold is_open, depth. cbn [dget]. now rewrite N. Qed.
Lemma is_open_notmem k o : dmem k2_eqb k o = false -> is_open k o = false.
Proof. unfold dmem, is_open, depth. destruct (dget k2_eqb k o); [discriminate | reflexivity]. Qed.

Lemma cleanup_cons k v o out :
  cleanup ((k, v) :: o) out = cleanup o (match v with O => out | S _ => fst (remove_last_on k out) end).
Proof. reflexivity. Qed.

Lemma cleanup_alt o : forall out, dnodup o = true ->
  (forall k, alt_run k false out = Some (is_open k o)) -> forall k, alt_run k false (cleanup o out) = Some false.
Proof.
  induction o as [|[k0 v0] o IH]; intros out ND A k.
  - rewrite A. reflexivity.
  - cbn [dnodup] in ND. apply andb_true_iff in ND as [NM ND]. apply negb_true_iff in NM.
    rewrite cleanup_cons. apply IH; [exact ND|]. clear k. intros k.
    destruct (k2_eqb k k0) eqn:E.
    + apply k2_eqb_eq in E. subst k. rewrite (is_open_notmem _ _ NM).
      specialize (A k0). rewrite is_open_head_same in A.
      destruct v0 as [|v0]; [exact A|]. cbn [Nat.eqb negb] in A.
      destruct (rlo_alt_same k0 out false A) as [[_ Ha]|[_ [Habs _]]]; [exact Ha | discriminate].
    + apply k2_eqb_neq in E. rewrite <- (is_open_head_other k k0 v0 o E), <- A.
      destruct v0; [reflexivity | now apply rlo_alt_other].
Qed.

Theorem C07_alternate l : forall k, alt k false (normalise l) = true.
Proof.
  intros k. apply alt_spec. rewrite normalise_eq.
  destruct (alt_inv l) as [ND A]. cbv zeta in ND, A.
  apply cleanup_alt; [exact ND|]. intros k'. rewrite alt_run_app, A. apply alt_run_pend.
Qed.

(* ---------------------------------------------------------------- clause 4: sounding set *)
Definition b2z (b : bool) : Z := if b then 1 else 0.
(* net depth change of key k over l *)
Fixpoint zdelta (k : k2) (l : list msg) : Z :=
  match l with
  | [] => 0
  | m :: l' => (if is_key k m && is_on m then 1 else if is_key k m && is_off m then -1 else 0) + zdelta k l'
  end.
(* bal without the final test *)
Fixpoint balp (k : k2) (d : Z) (l : list msg) : bool :=
  match l with
  | [] => true
  | m :: l' =>
      if is_key k m && is_on m then balp k (d + 1) l'
      else if is_key k m && is_off m then (0 <? d) && balp k (d - 1) l'
      else balp k d l'
  end.
Definition win (b : bool) (c w t : Z) : bool := b && (c <=? t) && (t <? c + w).

Lemma zdelta_app k a b : zdelta k (a ++ b) = zdelta k a + zdelta k b.
Proof. induction a as [|m a IH]; cbn [app zdelta]; lia. Qed.
Lemma balp_app k a b : forall d, balp k d (a ++ b) = balp k d a && balp k (d + zdelta k a) b.
Proof.
  induction a as [|m a IH]; intros d; cbn [app balp zdelta].
  - now rewrite Z.add_0_r.
  - destruct (is_key k m && is_on m); [|destruct (is_key k m && is_off m)]; rewrite IH.
    + f_equal. f_equal. lia.
    + rewrite andb_assoc. f_equal. f_equal. lia.
    + f_equal.
Qed.
Lemma bal_split k l : forall d, bal k d l = balp k d l && (d + zdelta k l =? 0).
Proof.
  induction l as [|m l IH]; intros d; cbn [bal balp zdelta].
  - now rewrite Z.add_0_r.
  - destruct (is_key k m && is_on m); [|destruct (is_key k m && is_off m)]; rewrite IH.
    + f_equal. f_equal. lia.
    + rewrite andb_assoc. f_equal. f_equal. lia.
    + reflexivity.
Qed.

Lemma dur_rel_cons m l : dur_rel (m :: l) = (if is_wait m then m_time m else 0) + dur_rel l.
Proof. change (m :: l) with ([m] ++ l). now rewrite dur_rel_app, dur_rel_one. Qed.

Lemma sounding_app k t a b : forall d cur,
  sounding k t d cur (a ++ b) = sounding k t d cur a || sounding k t (d + zdelta k a) (cur + dur_rel a) b.
Proof.
  induction a as [|m a IH]; intros d cur; cbn [app sounding zdelta].
  - unfold dur_rel. cbn. now rewrite !Z.add_0_r.
  - rewrite dur_rel_cons. destruct (is_wait m) eqn:Ew.
    + assert (Eon : is_on m = false) by (by_flags m; congruence).
      assert (Eoff : is_off m = false) by (by_flags m; congruence).
      rewrite Eon, Eoff, !andb_false_r, IH, orb_assoc. cbv iota. f_equal. f_equal; lia.
    + destruct (is_key k m && is_on m); [|destruct (is_key k m && is_off m)]; rewrite IH; cbv iota;
        f_equal; f_equal; lia.
Qed.
Lemma sounding_one_nonwait k t d c m : is_wait m = false -> sounding k t d c [m] = false.
Proof.
  intros Ew. cbn [sounding]. rewrite Ew.
  destruct (is_key k m && is_on m); [|destruct (is_key k m && is_off m)]; reflexivity.
Qed.
Lemma win_zero b c t : win b c 0 t = false.
Proof.
  unfold win. destruct b; [|reflexivity]. cbn [andb].
  destruct (c <=? t) eqn:E1; [apply Z.leb_le in E1 | reflexivity].
  destruct (t <? c + 0) eqn:E2; [apply Z.ltb_lt in E2; lia | reflexivity].
Qed.
Lemma win_split b c w x t : 0 <= w -> 0 <= x -> win b c (w + x) t = win b c w t || win b (c + w) x t.
Proof.
  intros Hw Hx. unfold win. destruct b; [|reflexivity]. cbn [andb].
  destruct (c <=? t) eqn:E1; [apply Z.leb_le in E1 | apply Z.leb_gt in E1];
  destruct (t <? c + (w + x)) eqn:E2; [apply Z.ltb_lt in E2 | apply Z.ltb_ge in E2 | apply Z.ltb_lt in E2 | apply Z.ltb_ge in E2];
  destruct (t <? c + w) eqn:E3; [apply Z.ltb_lt in E3 | apply Z.ltb_ge in E3 | apply Z.ltb_lt in E3 | apply Z.ltb_ge in E3
                                | apply Z.ltb_lt in E3 | apply Z.ltb_ge in E3 | apply Z.ltb_lt in E3 | apply Z.ltb_ge in E3];
  destruct (c + w <=? t) eqn:E4; try apply Z.leb_le in E4; try apply Z.leb_gt in E4;
  destruct (t <? c + w + x) eqn:E5; try apply Z.ltb_lt in E5; try apply Z.ltb_ge in E5;
  cbn [andb orb]; try reflexivity; lia.
Qed.
Lemma sounding_pend k t d c s ch : 0 <= n_wait s -> sounding k t d c (pend s ch) = win (0 <? d) c (n_wait s) t.
Proof.
  intros W. unfold pend. destruct (0 <? n_wait s) eqn:E; [apply Z.ltb_lt in E | apply Z.ltb_ge in E].
  - cbn [sounding]. destruct (wait_flags ch (n_wait s) (n_waitf s)) as (-> & _). cbn [m_time mk_wait].
    unfold win. now rewrite orb_false_r.
  - assert (n_wait s = 0) as -> by lia. now rewrite win_zero.
Qed.

Lemma alt_run_zdelta k l : forall o b, alt_run k o l = Some b -> b2z o + zdelta k l = b2z b.
Proof.
  induction l as [|m l IH]; intros o b H; cbn [alt_run zdelta] in *.
  - injection H as <-. lia.
  - destruct (is_key k m && is_on m); [|destruct (is_key k m && is_off m)].
    + destruct o; [discriminate|]. apply IH in H. cbn [b2z] in *. lia.
    + destruct o; [|discriminate]. apply IH in H. cbn [b2z] in *. lia.
    + apply IH in H. lia.
Qed.

Lemma is_open_z k o z : Z.of_nat (depth k o) = z -> is_open k o = (0 <? z).
Proof.
  intros H. unfold is_open. destruct (depth k o) as [|d]; subst z; cbn [Nat.eqb negb]; [reflexivity|].
  symmetry. apply Z.ltb_lt. lia.
Qed.

Lemma nopen_wait s m : is_wait m = true -> nopen s m = n_open s.
Proof. intros Ew. unfold nopen. by_flags m; congruence. Qed.

Lemma is_open_noemit k s m : emit s m = false -> is_open k (nopen s m) = is_open k (n_open s).
Proof.
  unfold emit, nopen, is_open. by_flags m; try reflexivity.
  - intros E. apply Nat.eqb_neq in E.
    destruct (k2_eqb k (key_of m)) eqn:K.
    + apply k2_eqb_eq in K. subst k. rewrite depth_dset_same.
      destruct (depth (key_of m) (n_open s)); [contradiction | reflexivity].
    + apply k2_eqb_neq in K. now rewrite depth_dset_other.
  - intros E. apply Nat.eqb_neq in E.
    destruct (depth (key_of m) (n_open s)) as [|[|d]] eqn:D; [reflexivity | contradiction |].
    destruct (k2_eqb k (key_of m)) eqn:K.
    + apply k2_eqb_eq in K. subst k. now rewrite depth_dset_same, D.
    + apply k2_eqb_neq in K. now rewrite depth_dset_other.
Qed.

Lemma depth_step k s p m :
  (is_key k m && is_off m = true -> 0 < zdelta k p) ->
  Z.of_nat (depth k (n_open s)) = zdelta k p ->
  Z.of_nat (depth k (n_open (nstep s m))) = zdelta k (p ++ [m]).
Proof.
  intros B DP. rewrite nstep_open, zdelta_app. cbn [zdelta]. unfold nopen.
  destruct (is_key k m) eqn:K; unfold is_key in K; fold (key_of m) in K.
  - apply k2_eqb_eq in K. subst k. cbn [andb] in *. revert B. by_flags m; intros B; try lia.
    + rewrite depth_dset_same. lia.
    + specialize (B eq_refl). destruct (depth (key_of m) (n_open s)) as [|d] eqn:D; [lia|].
      rewrite depth_dset_same. lia.
  - apply k2_eqb_neq in K. cbn [andb].
    assert (E : depth k (if is_on m
       then dset k2_eqb (key_of m) (S (depth (key_of m) (n_open s))) (n_open s)
       else if is_off m
        then match depth (key_of m) (n_open s) with
             | 0%nat => n_open s
             | S d => dset k2_eqb (key_of m) d (n_open s)
             end
        else n_open s) = depth k (n_open s)).
    { destruct (is_on m); [now apply depth_dset_other|]. destruct (is_off m); [|reflexivity].
      destruct (depth (key_of m) (n_open s)); [reflexivity | now apply depth_dset_other]. }
    rewrite E. lia.
Qed.

Lemma snd_step k t s p m :
  (is_wait m = true -> 0 <= m_time m) ->
  dur_rel (n_out s) + n_wait s = dur_rel p -> 0 <= n_wait s ->
  alt_run k false (n_out s) = Some (is_open k (n_open s)) ->
  Z.of_nat (depth k (n_open s)) = zdelta k p ->
  sounding k t 0 0 (n_out s) || win (is_open k (n_open s)) (dur_rel (n_out s)) (n_wait s) t = sounding k t 0 0 p ->
  sounding k t 0 0 (n_out (nstep s m)) ||
    win (is_open k (n_open (nstep s m))) (dur_rel (n_out (nstep s m))) (n_wait (nstep s m)) t
  = sounding k t 0 0 (p ++ [m]).
Proof.
  intros NN D W A DP S.
  rewrite nstep_out, nstep_wait, nstep_open, (sounding_app k t p [m]), <- S, !Z.add_0_l.
  destruct (is_wait m) eqn:Ew.
  - assert (E : emit s m = false) by (unfold emit; now rewrite Ew). rewrite E, (nopen_wait s m Ew).
    cbn [sounding]. rewrite Ew, orb_false_r.
    rewrite win_split by (auto using NN). rewrite (is_open_z _ _ _ DP), <- D.
    fold (win (0 <? zdelta k p) (dur_rel (n_out s) + n_wait s) (m_time m) t).
    now rewrite !orb_assoc.
  - rewrite (sounding_one_nonwait k t _ _ m Ew), orb_false_r.
    destruct (emit s m) eqn:E; cbn [andb].
    + rewrite !sounding_app, (sounding_one_nonwait k t _ _ m Ew), orb_false_r, !Z.add_0_l.
      rewrite sounding_pend by exact W.
      pose proof (alt_run_zdelta _ _ _ _ A) as Z. cbn [b2z] in Z. rewrite Z.add_0_l in Z. rewrite Z.
      assert (B : (0 <? b2z (is_open k (n_open s))) = is_open k (n_open s)) by (destruct (is_open k (n_open s)); reflexivity).
      rewrite B.
      assert (W0 : (if 0 <? n_wait s then 0 else n_wait s) = 0).
      { destruct (0 <? n_wait s) eqn:E0; [reflexivity | apply Z.ltb_ge in E0; lia]. }
      rewrite W0, win_zero, orb_false_r. reflexivity.
    + now rewrite (is_open_noemit k s m E).
Qed.

Definition snd_R (k : k2) (t : Z) (s : nstate) (p : list msg) : Prop :=
  nonneg_waits p = true -> balp k 0 p = true ->
  (dur_rel (n_out s) + n_wait s = dur_rel p /\ 0 <= n_wait s) /\
  (dnodup (n_open s) = true /\ forall k', alt_run k' false (n_out s) = Some (is_open k' (n_open s))) /\
  Z.of_nat (depth k (n_open s)) = zdelta k p /\
  sounding k t 0 0 (n_out s) || win (is_open k (n_open s)) (dur_rel (n_out s)) (n_wait s) t = sounding k t 0 0 p.

Lemma snd_inv k t l : snd_R k t (fold_left nstep l init) l.
Proof.
  apply (fold_inv (snd_R k t)).
  - intros _ _. repeat split; reflexivity.
  - intros s p m IH NN B. rewrite nonneg_app in NN. apply andb_true_iff in NN as [NNp NNm].
    rewrite balp_app in B. apply andb_true_iff in B as [Bp Bm].
    destruct (IH NNp Bp) as ([D W] & [ND A] & DP & S). clear IH.
    pose proof (nonneg_one m NNm) as NN1.
    split; [apply dur_step; auto|]. split; [apply alt_step; auto|]. split.
    + apply depth_step; [|exact DP]. intros C. apply andb_true_iff in C as [C1 C2].
      assert (Eon : is_on m = false) by (by_flags m; congruence).
      cbn [balp] in Bm. rewrite C1, C2, Eon in Bm. cbn [andb] in Bm. rewrite andb_true_r in Bm.
      apply Z.ltb_lt in Bm. lia.
    + apply snd_step; auto.
Qed.

Lemma depth_head_same k v o : depth k ((k, v) :: o) = v.
Proof. unfold depth. cbn [dget]. now rewrite k2_eqb_refl. Qed.
Lemma depth_head_other k k0 v o : k <> k0 -> depth k ((k0, v) :: o) = depth k o.
Proof. intros N. apply k2_eqb_neq in N. unfold depth. cbn [dget]. now rewrite N. Qed.
Lemma depth_notmem k o : dmem k2_eqb k o = false -> depth k o = 0%nat.
Proof. unfold dmem, depth. destruct (dget k2_eqb k o); [discriminate | reflexivity]. Qed.

(* no key is open at the end: the cleanup does nothing *)
Lemma cleanup_closed o out : dnodup o = true -> (forall k, depth k o = 0%nat) -> cleanup o out = out.
Proof.
  induction o as [|[k0 v0] o IH]; intros ND Z; [reflexivity|].
  cbn [dnodup] in ND. apply andb_true_iff in ND as [NM ND]. apply negb_true_iff in NM.
  rewrite cleanup_cons. pose proof (Z k0) as Z0. rewrite depth_head_same in Z0. subst v0.
  apply IH; [exact ND|]. intros k. destruct (k2_eqb k k0) eqn:E.
  - apply k2_eqb_eq in E. subst k. now apply depth_notmem.
  - apply k2_eqb_neq in E. rewrite <- (depth_head_other k k0 0%nat o E). apply Z.
Qed.

Lemma bal_nokey k l : existsb (fun m => is_note m && is_key k m) l = false -> forall d, bal k d l = (d =? 0).
Proof.
  induction l as [|m l IH]; cbn [existsb bal]; intros H d; [reflexivity|].
  apply orb_false_iff in H as [H1 H2].
  assert (C1 : is_key k m && is_on m = false).
  { destruct (is_key k m); [|reflexivity]. rewrite andb_true_r in H1. unfold is_note in H1.
    apply orb_false_iff in H1 as [-> _]. reflexivity. }
  assert (C2 : is_key k m && is_off m = false).
  { destruct (is_key k m); [|reflexivity]. rewrite andb_true_r in H1. unfold is_note in H1.
    apply orb_false_iff in H1 as [_ ->]. reflexivity. }
  rewrite C1, C2. now apply IH.
Qed.
Lemma balanced_all l : balanced l = true -> forall k, bal k 0 l = true.
Proof.
  intros B k. destruct (existsb (fun m => is_note m && is_key k m) l) eqn:E.
  - apply existsb_exists in E as (m & Hin & H). apply andb_true_iff in H as [H1 H2].
    unfold is_key in H2. apply k2_eqb_eq in H2. subst k.
    unfold balanced in B. rewrite forallb_forall in B. specialize (B m Hin). now rewrite H1 in B.
  - now rewrite bal_nokey.
Qed.

Theorem C07_sound l : nonneg_waits l = true -> balanced l = true ->
  forall k t, sounding k t 0 0 (normalise l) = sounding k t 0 0 l.
Proof.
  intros NN B k t. pose proof (balanced_all l B) as BA.
  assert (BP : forall k', balp k' 0 l = true /\ zdelta k' l = 0).
  { intros k'. specialize (BA k'). rewrite bal_split in BA. apply andb_true_iff in BA as [B1 B2].
    apply Z.eqb_eq in B2. split; [exact B1 | lia]. }
  rewrite normalise_eq.
  destruct (snd_inv k t l NN (proj1 (BP k))) as ([D W] & [ND A] & DP & S).
  rewrite cleanup_closed; [|exact ND|].
  - rewrite sounding_app, sounding_pend, !Z.add_0_l by exact W.
    pose proof (alt_run_zdelta _ _ _ _ (A k)) as Z. cbn [b2z] in Z. rewrite Z.add_0_l in Z. rewrite Z.
    assert (E : (0 <? b2z (is_open k (n_open (fold_left nstep l init)))) = is_open k (n_open (fold_left nstep l init)))
      by (destruct (is_open k (n_open (fold_left nstep l init))); reflexivity).
    rewrite E. exact S.
  - intros k'. destruct (snd_inv k' t l NN (proj1 (BP k'))) as (_ & _ & DP' & _).
    rewrite (proj2 (BP k')) in DP'. lia.
Qed.

(* ---------------------------------------------------------------- clause 5: normalising a well-formed list *)
(* every wait written by the loop is positive, whatever the input *)
Lemma rlo_forallb (f : msg -> bool) k l : forallb f l = true -> forallb f (fst (remove_last_on k l)) = true.
Proof.
  induction l as [|m l IH]; [reflexivity|]. cbn [remove_last_on forallb]. intros H.
  apply andb_true_iff in H as [H1 H2]. specialize (IH H2).
  destruct (remove_last_on k l) as [r f']. cbn [fst] in IH.
  destruct f'; [cbn [fst forallb]; now rewrite H1, IH|].
  destruct (is_on m && k2_eqb k (m_chan m, m_note m)); cbn [fst forallb]; [exact IH | now rewrite H1, IH].
Qed.
Lemma cleanup_forallb (f : msg -> bool) o : forall out, forallb f out = true -> forallb f (cleanup o out) = true.
Proof.
  induction o as [|[k [|d]] o IH]; intros out H; [exact H | |]; rewrite cleanup_cons; apply IH; [exact H|].
  now apply rlo_forallb.
Qed.
Lemma nonneg_pend s c : nonneg_waits (pend s c) = true.
Proof.
  unfold pend. destruct (0 <? n_wait s) eqn:E; [apply Z.ltb_lt in E | reflexivity].
  unfold nonneg_waits. cbn [forallb m_time mk_wait]. rewrite andb_true_r.
  apply orb_true_iff. right. apply Z.leb_le. lia.
Qed.
Lemma nonneg_out l : nonneg_waits (n_out (fold_left nstep l init)) = true.
Proof.
  apply (fold_inv (fun s (_ : list msg) => nonneg_waits (n_out s) = true)); [reflexivity|].
  intros s _ m IH. rewrite nstep_out. destruct (emit s m) eqn:E; [|exact IH].
  rewrite !nonneg_app, IH, nonneg_pend. unfold nonneg_waits. cbn [forallb].
  now rewrite (emit_not_wait s m E).
Qed.
Lemma nonneg_normalise l : nonneg_waits (normalise l) = true.
Proof.
  rewrite normalise_eq. apply cleanup_forallb. fold (nonneg_waits (n_out (fold_left nstep l init) ++
    pend (fold_left nstep l init) (first_chan l))). now rewrite nonneg_app, nonneg_out, nonneg_pend.
Qed.

Lemma timed_app a b : forall c, timed c (a ++ b) = timed c a ++ timed (c + dur_rel a) b.
Proof.
  induction a as [|m a IH]; intros c; cbn [app timed].
  - unfold dur_rel. cbn. now rewrite Z.add_0_r.
  - rewrite dur_rel_cons. destruct (is_wait m); rewrite IH; cbn [app]; do 2 f_equal; lia.
Qed.
Lemma timed_pend c s ch : timed c (pend s ch) = [].
Proof. unfold pend. destruct (0 <? n_wait s); reflexivity. Qed.

Lemma depth_nopen_other k s m : k <> key_of m -> depth k (nopen s m) = depth k (n_open s).
Proof.
  intros K. unfold nopen.
  destruct (is_on m); [now apply depth_dset_other|]. destruct (is_off m); [|reflexivity].
  destruct (depth (key_of m) (n_open s)); [reflexivity | now apply depth_dset_other].
Qed.

(* on a list whose notes alternate, the depths stay in {0,1} and mirror the automaton state *)
Lemma tight_step s p m :
  (forall k, alt_run k false (p ++ [m]) <> None) ->
  (forall k, alt_run k false p = Some (is_open k (n_open s)) /\ (depth k (n_open s) <= 1)%nat) ->
  forall k, alt_run k false (p ++ [m]) = Some (is_open k (n_open (nstep s m))) /\
            (depth k (n_open (nstep s m)) <= 1)%nat.
Proof.
  intros OK I k. destruct (I k) as [A L]. specialize (OK k).
  rewrite alt_run_app, A in *. cbn [alt_run] in *. rewrite nstep_open.
  destruct (k2_eqb k (key_of m)) eqn:E.
  - apply k2_eqb_eq in E. subst k. unfold is_key in *. fold (key_of m) in *. rewrite k2_eqb_refl in *.
    cbn [andb] in *. unfold nopen, is_open in *. revert OK. by_flags m; intros OK.
    + split; [reflexivity | exact L].
    + destruct (depth (key_of m) (n_open s)) as [|d]; cbn [Nat.eqb negb] in *; [|congruence].
      rewrite depth_dset_same. split; [reflexivity | lia].
    + destruct (depth (key_of m) (n_open s)) as [|[|d]]; cbn [Nat.eqb negb] in *; [congruence | | lia].
      rewrite depth_dset_same. split; [reflexivity | lia].
    + split; [reflexivity | exact L].
    + split; [reflexivity | exact L].
    + split; [reflexivity | exact L].
  - assert (K : is_key k m = false) by exact E. rewrite K in *. cbn [andb] in *.
    apply k2_eqb_neq in E. unfold is_open. rewrite (depth_nopen_other k s m E). split; [reflexivity | exact L].
Qed.

Lemma emit_nice s p m :
  is_wait m = false ->
  alt_run (key_of m) false (p ++ [m]) <> None ->
  alt_run (key_of m) false p = Some (is_open (key_of m) (n_open s)) ->
  (depth (key_of m) (n_open s) <= 1)%nat ->
  ts_ok (n_ts s) [m] = true -> ks_ok (n_key s) [m] = true -> emit s m = true.
Proof.
  intros Ew OK A L T K. unfold emit. rewrite alt_run_app, A in OK. cbn [alt_run ts_ok ks_ok] in *.
  unfold is_key in OK. fold (key_of m) in OK. rewrite k2_eqb_refl in OK. cbn [andb] in OK.
  unfold is_open in OK. revert OK T K Ew. by_flags m; intros OK T K Ew.
  - discriminate.
  - destruct (depth (key_of m) (n_open s)); cbn [Nat.eqb negb] in *; [reflexivity | congruence].
  - destruct (depth (key_of m) (n_open s)) as [|[|d]]; cbn [Nat.eqb negb] in *; [congruence | reflexivity | lia].
  - now rewrite andb_true_r in T.
  - now rewrite andb_true_r in K.
  - reflexivity.
Qed.

Definition idem_R (s : nstate) (p : list msg) : Prop :=
  (forall k, alt_run k false p <> None) -> ts_ok (NONE, NONE) p = true -> ks_ok None p = true ->
  nonneg_waits p = true ->
  timed 0 (n_out s) = timed 0 p /\
  (dur_rel (n_out s) + n_wait s = dur_rel p /\ 0 <= n_wait s) /\
  (forall k, alt_run k false p = Some (is_open k (n_open s)) /\ (depth k (n_open s) <= 1)%nat) /\
  n_ts s = ts_last (NONE, NONE) p /\ n_key s = ks_last None p.

Lemma idem_inv l : idem_R (fold_left nstep l init) l.
Proof.
  apply (fold_inv idem_R).
  - intros _ _ _ _. repeat split; try reflexivity. cbn. lia.
  - intros s p m IH OK TS KS NN.
    assert (OKp : forall k, alt_run k false p <> None).
    { intros k H. apply (OK k). now rewrite alt_run_app, H. }
    rewrite ts_ok_app in TS. apply andb_true_iff in TS as [TSp TSm].
    rewrite ks_ok_app in KS. apply andb_true_iff in KS as [KSp KSm].
    rewrite nonneg_app in NN. apply andb_true_iff in NN as [NNp NNm].
    destruct (IH OKp TSp KSp NNp) as (TM & [D W] & I & Ets & Eks). clear IH.
    pose proof (nonneg_one m NNm) as NN1.
    split; [|split; [apply dur_step; auto | split; [now apply tight_step|]]].
    + rewrite nstep_out, timed_app, Z.add_0_l. cbn [timed].
      destruct (is_wait m) eqn:Ew.
      * assert (E : emit s m = false) by (unfold emit; now rewrite Ew). rewrite E, app_nil_r. exact TM.
      * destruct (I (key_of m)) as [A L]. rewrite <- Ets in TSm. rewrite <- Eks in KSm.
        rewrite (emit_nice s p m Ew (OK (key_of m)) A L TSm KSm).
        rewrite !timed_app, timed_pend, TM, Z.add_0_l. cbn [app timed]. rewrite Ew.
        rewrite dur_rel_pend by exact W. now rewrite D.
    + rewrite nstep_ts, nstep_key, ts_last_app, ks_last_app, <- Ets, <- Eks. cbn [ts_last ks_last].
      cbn [ts_ok ks_ok] in TSm, KSm. rewrite <- Ets in TSm. rewrite <- Eks in KSm. split.
      * destruct (is_ts m); [|reflexivity]. rewrite andb_true_r in TSm. now rewrite TSm.
      * destruct (is_ks m); [|reflexivity]. rewrite andb_true_r in KSm. now rewrite KSm.
Qed.

(* normalising a list that is already well-formed keeps every non-wait message at its tick *)
Lemma normalise_wellformed o :
  (forall k, alt k false o = true) -> ts_ok (NONE, NONE) o = true -> ks_ok None o = true ->
  nonneg_waits o = true -> timed 0 (normalise o) = timed 0 o.
Proof.
  intros AL TS KS NN.
  assert (A0 : forall k, alt_run k false o = Some false) by (intros k; now apply alt_spec).
  assert (OK : forall k, alt_run k false o <> None) by (intros k; now rewrite A0).
  destruct (idem_inv o OK TS KS NN) as (TM & [D W] & I & _).
  destruct (alt_inv o) as [ND _]. cbv zeta in ND.
  rewrite normalise_eq, cleanup_closed; [|exact ND|].
  - now rewrite timed_app, timed_pend, app_nil_r.
  - intros k. destruct (I k) as [A _]. rewrite A0 in A. injection A as A. unfold is_open in A.
    destruct (depth k (n_open (fold_left nstep o init))); [reflexivity | discriminate].
Qed.

Theorem C07_idem l :
  timed 0 (normalise (normalise l)) = timed 0 (normalise l) /\
  dur_rel (normalise (normalise l)) = dur_rel (normalise l).
Proof.
  split.
  - apply normalise_wellformed.
    + apply C07_alternate.
    + apply C07_nodup_sig.
    + apply C07_nodup_sig.
    + apply nonneg_normalise.
  - apply C07_duration, nonneg_normalise.
Qed.

(* ================================================================ non-vacuity and necessity of the hypotheses *)
(* the hypotheses are satisfiable by non-trivial inputs *)
Example C07_duration_nonvacuous : nonneg_waits Tests.l1 = true /\ dur_rel Tests.l1 = 19.
Proof. vm_compute. split; reflexivity. Qed.
Example C07_sound_nonvacuous :
  nonneg_waits Tests.l3 = true /\ balanced Tests.l3 = true /\
  sounding (0, 60) 4 0 0 Tests.l3 = true /\ sounding (0, 60) 8 0 0 Tests.l3 = false.
Proof. vm_compute. repeat split; reflexivity. Qed.

(* a negative wait is lost: the duration clause needs non-negative waits *)
Example C07_duration_needs_nonneg : exists l, dur_rel (normalise l) <> dur_rel l.
Proof. exists [mk_wait 0 (-3) false]. vm_compute. discriminate. Qed.

(* an unclosed note sounds in the input and is removed from the output: the sound clause needs paired notes *)
Example C07_sound_needs_balanced :
  exists l k t, nonneg_waits l = true /\ sounding k t 0 0 (normalise l) <> sounding k t 0 0 l.
Proof. exists [mk_on 0 60 64 0 false; mk_wait 0 5 false], (0, 60), 2. vm_compute. split; [reflexivity | discriminate]. Qed.

(* the second pass is not the identity on lists: it rewrites the channel of the final wait (paired input) ... *)
Example C07_idem_not_syntactic :
  exists l, nonneg_waits l = true /\ balanced l = true /\ normalise (normalise l) <> normalise l.
Proof.
  exists Tests.l4. split; [reflexivity|]. split; [reflexivity|].
  intros H. apply (f_equal (map m_chan)) in H. vm_compute in H. discriminate.
Qed.
(* ... and merges the two waits left around a removed unclosed NOTE_ON (ill-formed input) *)
Example C07_idem_merges_waits :
  exists l, nonneg_waits l = true /\ length (normalise (normalise l)) <> length (normalise l).
Proof.
  exists [mk_wait 0 1 false; mk_on 0 60 64 0 false; mk_wait 0 2 false].
  split; [reflexivity|]. vm_compute. discriminate.
Qed.

(* the specification predicates do reject ill-formed lists (they are not trivially true) *)
Example C07_predicates_reject :
  alt (0, 60) false [Tests.on 0 60; Tests.on 0 60; Tests.off 0 60] = false /\      (* re-trigger *)
  alt (0, 60) false [Tests.on 0 60; Tests.w 1] = false /\                           (* unclosed *)
  alt (0, 60) false [Tests.off 0 60; Tests.on 0 60; Tests.off 0 60] = false /\      (* orphan off *)
  alt (0, 60) false [Tests.on 0 60; Tests.on 1 60; Tests.off 0 60; Tests.off 1 60] = true /\
  ts_ok (NONE, NONE) [Tests.ts 4 4; Tests.w 1; Tests.ts 4 4] = false /\
  ts_ok (NONE, NONE) [Tests.ts 4 4; Tests.ts 3 4; Tests.ts 4 4] = true /\
  ks_ok None [Tests.ks (Some K_C); Tests.ks (Some K_C)] = false /\
  balanced [Tests.on 0 60; Tests.w 1] = false /\ balanced [Tests.off 0 60; Tests.on 0 60] = false.
Proof. vm_compute. repeat split; reflexivity. Qed.
