(* C01 (front end), part 4 -- the front end `tok_frontend` on valid pieces (notes on every track, time-signature
   messages on track 0): it succeeds, its events are ordered by time, the NOTE_ON events of channel i are the notes of
   track i, the TIME_SIGNATURE events are those of track 0, the event list is valid for the core, hence the
   piece-level round trip. *)
From Coq Require Import ZArith List Bool Lia Permutation Sorted.
From Model Require Import Base Util Seq Pairing Tok.
From Proofs Require Import C04_sort C04_proofs C05_closest C07_proofs.
From Proofs Require Import C01_frontend_sig C01_frontend_pipe C01_frontend_pair C01_rest C01_proofs.
Import ListNotations.
Open Scope Z_scope.

(* ================================================================ the notes of a relative track *)
Definition note : Set := (Z * Z * Z * Z)%type.          (* pitch, onset tick, offset tick, velocity *)
Definition n_pitch (x : note) : Z := fst (fst (fst x)).

(* independent reference: run a clock over the waits; a NOTE_ON opens its pitch (remembering tick and velocity),
   a NOTE_OFF closes it and yields the note *)
Fixpoint notes_acc (r : list msg) (cur : Z) (opn : list (Z * (Z * Z))) : list note :=
  match r with
  | [] => []
  | m :: r' =>
      if is_wait m then notes_acc r' (cur + m_time m) opn
      else if is_on m then notes_acc r' cur (dset Z.eqb (m_note m) (cur, m_vel m) opn)
      else if is_off m then
        match dget Z.eqb (m_note m) opn with
        | Some (t, v) => (m_note m, t, cur, v) :: notes_acc r' cur (ddel Z.eqb (m_note m) opn)
        | None => notes_acc r' cur opn
        end
      else notes_acc r' cur opn
  end.
Definition notes_of (r : list msg) : list note := notes_acc r 0 [].

(* the notes of one pitch, read off its signature *)
Fixpoint sig_notes (n : Z) (o : option (Z * Z)) (s : list sigent) : list note :=
  match s with
  | [] => []
  | e :: s' =>
      if s_on e then sig_notes n (Some (s_time e, snd e)) s'
      else match o with
           | Some (t0, v0) => (n, t0, s_time e, v0) :: sig_notes n None s'
           | None => sig_notes n None s'
           end
  end.

Definition pitch_is (n : Z) (x : note) : bool := n_pitch x =? n.

Lemma notes_acc_pitch n r : forall cur opn, uniq opn ->
  filter (pitch_is n) (notes_acc r cur opn) = sig_notes n (dget Z.eqb n opn) (psig n cur r).
Proof.
  induction r as [|m r IH]; intros cur opn Hu; [reflexivity|]. cbn [notes_acc psig].
  destruct (is_wait m) eqn:Ew; [now apply IH|].
  destruct (is_on m) eqn:Eon.
  - rewrite (on_is_note m Eon). cbn [andb].
    rewrite IH by (apply uniq_dset; [apply Z.eqb_eq|exact Hu]). rewrite dgetZ_dset.
    destruct (n =? m_note m); [|reflexivity]. cbn [sig_notes]. unfold s_on, s_time. cbn [fst snd]. reflexivity.
  - destruct (is_off m) eqn:Eoff.
    + rewrite (off_is_note m Eoff). cbn [andb].
      destruct (Z.eqb_spec n (m_note m)) as [->|Hne].
      * cbn [sig_notes]. unfold s_on, s_time. cbn [fst snd].
        destruct (dget Z.eqb (m_note m) opn) as [[t v]|] eqn:G.
        -- cbn [filter]. unfold pitch_is at 1, n_pitch. cbn [fst]. rewrite Z.eqb_refl. f_equal.
           rewrite IH by (now apply uniq_ddel). rewrite dgetZ_ddel by exact Hu. now rewrite Z.eqb_refl.
        -- rewrite IH by exact Hu. now rewrite G.
      * destruct (dget Z.eqb (m_note m) opn) as [[t v]|] eqn:G; [|now apply IH].
        cbn [filter]. unfold pitch_is at 1, n_pitch. cbn [fst].
        destruct (Z.eqb_spec (m_note m) n); [congruence|].
        rewrite IH by (now apply uniq_ddel). rewrite dgetZ_ddel by exact Hu.
        destruct (Z.eqb_spec n (m_note m)); [contradiction|reflexivity].
    + assert (is_note m = false) as -> by (unfold is_note; now rewrite Eon, Eoff). cbn [andb]. now apply IH.
Qed.

Lemma notes_of_pitch n r : filter (pitch_is n) (notes_of r) = sig_notes n None (psig n 0 r).
Proof. unfold notes_of. rewrite notes_acc_pitch by constructor. reflexivity. Qed.

(* ================================================================ the notes of a list of pairings *)
Definition pnote (p : pairing) : note := (m_note (p_first p), m_time (p_first p), p_off_time p, m_vel (p_first p)).
Definition snote (sp : spair) : note :=
  (m_note (fst sp), m_time (fst sp), match snd sp with Some o => m_time o | None => m_time (fst sp) end, m_vel (fst sp)).
Lemma pnote_strip p : pnote p = snote (strip p).
Proof. reflexivity. Qed.

Definition omv (o : option msg) : option (Z * Z) := option_map (fun on => (m_time on, m_vel on)) o.

Lemma cpairs_sig_notes k L : Forall (fun m => nkey k m = true) L -> forall o,
  alt_bits (is_some o) (map sigm L) = true -> (forall on, o = Some on -> m_note on = snd k) ->
  map snote (cpairs o L) = sig_notes (snd k) (omv o) (map sigm L).
Proof.
  induction 1 as [|m L Hm _ IH]; intros o Ha Ho; [reflexivity|]. cbn [map alt_bits cpairs sig_notes] in *.
  change (s_on (sigm m)) with (is_on m) in *. change (s_time (sigm m)) with (m_time m).
  change (snd (sigm m)) with (m_vel m).
  assert (Hn : m_note m = snd k).
  { unfold nkey in Hm. apply andb_prop in Hm. destruct Hm as [_ Hm]. apply k2_eqb_eq in Hm. now subst k. }
  destruct (is_on m).
  - apply andb_prop in Ha. destruct Ha as [Ho' Ha]. destruct o; [discriminate|]. cbn [omv option_map].
    rewrite (IH (Some m)); [reflexivity|exact Ha|]. intros on [= <-]. exact Hn.
  - apply andb_prop in Ha. destruct Ha as [Ho' Ha]. destruct o as [on|]; [|discriminate]. cbn [omv option_map map].
    rewrite (IH None); [|exact Ha|intros ? [=]]. unfold snote at 1. cbn [fst snd]. now rewrite (Ho on eq_refl).
Qed.

Definition on_notes (pl : list pairing) : list note :=
  flat_map (fun p => if is_on (p_first p) then [pnote p] else []) pl.

Lemma on_notes_pitch n pl : filter (pitch_is n) (on_notes pl) = map pnote (filter (onpitch n) pl).
Proof.
  induction pl as [|p pl IH]; [reflexivity|]. unfold on_notes in *. cbn [flat_map filter]. rewrite filter_app, IH.
  unfold onpitch at 2. destruct (is_on (p_first p)); cbn [andb filter]; [|reflexivity].
  unfold pitch_is at 1, n_pitch, pnote. cbn [fst]. destruct (m_note (p_first p) =? n); reflexivity.
Qed.

(* two lists agree up to order when they agree, pitch by pitch *)
Lemma note_eq_dec (x y : note) : {x = y} + {x <> y}.
Proof. repeat decide equality. Qed.

Lemma count_occ_filter (p : note -> bool) l x :
  count_occ note_eq_dec (filter p l) x = if p x then count_occ note_eq_dec l x else 0%nat.
Proof.
  induction l as [|y l IH]; cbn [filter]; [now destruct (p x)|].
  destruct (p y) eqn:Py; cbn [count_occ]; destruct (note_eq_dec y x) as [->|Hne].
  - rewrite IH, Py. reflexivity.
  - exact IH.
  - rewrite IH, Py. reflexivity.
  - exact IH.
Qed.

Lemma perm_by_pitch (A B : list note) :
  (forall n, filter (pitch_is n) A = filter (pitch_is n) B) -> Permutation A B.
Proof.
  intros H. apply (Permutation_count_occ note_eq_dec). intros x.
  pose proof (count_occ_filter (pitch_is (n_pitch x)) A x) as HA.
  pose proof (count_occ_filter (pitch_is (n_pitch x)) B x) as HB.
  unfold pitch_is at 2 in HA. unfold pitch_is at 2 in HB. rewrite Z.eqb_refl in HA, HB. rewrite <- HA, <- HB, H. reflexivity.
Qed.

(* ================================================================ validity of a piece *)
(* per-track well-formedness (track index i): non-negative waits; only WAIT / NOTE_ON / NOTE_OFF messages, plus
   TIME_SIGNATURE messages on track 0; per pitch the notes strictly alternate on / off with a positive wait sum
   between an on and its off (no overlap, nothing left open); at most one time signature per tick and no time
   signature that repeats the one in force. *)
Definition valid_track (i : Z) (r : list msg) : bool := track_ok i r.

Definition note_ok (g : Z) (c : cfg) (x : note) : bool :=
  let '(p, t, t', v) := x in
  divb g t && in_range (c_plo c) p (c_phi c) && memZ (t' - t) (c_values c) && (0 <=? t' - t) && (v <=? VELOCITY_MAX).

(* the (tick, numerator, denominator) of the time signatures of the piece: those of track 0 *)
Definition piece_tsl (tracks : list (list msg)) : list (Z * Z * Z) :=
  match tracks with [] => [] | r0 :: _ => tsv (ev_rel r0) end.

(* the time signatures against the bar grid: t0 = start of the current run of bars of length B.  Every signature is
   on the tick grid; one that falls inside a bar is ignored by the tokeniser; one on a bar line must be expressible
   (positive denominator, a whole number of eighths within the signature range) and its bar length must be a positive
   multiple of the grid; it starts a new run of bars. *)
Fixpoint ts_run (g : Z) (c : cfg) (t0 B : Z) (l : list (Z * Z * Z)) : bool :=
  match l with
  | [] => true
  | (t, n, d) :: l' =>
      divb g t &&
      if 0 <? (t - t0) mod B then ts_run g c t0 B l'
      else (0 <? d) && ((n * DEFAULT_TS_DEN) mod d =? 0) &&
           in_range (c_tslo c) ((n * DEFAULT_TS_DEN) / d) (c_tshi c) &&
           (0 <? bar_cap c n d) && divb g (bar_cap c n d) && ts_run g c t (bar_cap c n d) l'
  end.

(* one track per configured track; track j valid as track j (`tracks_ok 0 tracks` is the conjunction of
   `valid_track j r_j`); every note on the grid, in the pitch range, with a duration among the note values and a
   velocity <= 127; the duration of the longest track on the grid; the time signatures fit the bar grid *)
Definition valid_piece (g : Z) (c : cfg) (tracks : list (list msg)) : bool :=
  (lenZ tracks =? c_ntracks c) &&
  tracks_ok 0 tracks &&
  forallb (fun r => forallb (note_ok g c) (notes_of r)) tracks &&
  divb g (piece_dur tracks) &&
  ts_run g c 0 (bar_cap c DEFAULT_TS_NUM DEFAULT_TS_DEN) (piece_tsl tracks).

Lemma tracks_ok_valid_track tracks : forall j, tracks_ok j tracks = true <->
  forall n r, nth_error tracks n = Some r -> valid_track (j + Z.of_nat n) r = true.
Proof.
  induction tracks as [|r0 ts IH]; intros j; cbn [tracks_ok].
  - split; [intros _ n r H; destruct n; discriminate|reflexivity].
  - rewrite andb_true_iff, IH. split.
    + intros [H0 H] n r Hn. destruct n as [|n]; cbn [nth_error] in Hn.
      * injection Hn as <-. now rewrite Z.add_0_r.
      * replace (j + Z.of_nat (S n)) with (j + 1 + Z.of_nat n) by lia. now apply H.
    + intros H. split; [specialize (H 0%nat r0 eq_refl); now rewrite Z.add_0_r in H|].
      intros n r Hn. replace (j + 1 + Z.of_nat n) with (j + Z.of_nat (S n)) by lia. now apply H.
Qed.

Lemma valid_piece_parts g c tracks : valid_piece g c tracks = true ->
  lenZ tracks = c_ntracks c /\ tracks_ok 0 tracks = true /\
  (forall r x, In r tracks -> In x (notes_of r) -> note_ok g c x = true) /\ divb g (piece_dur tracks) = true /\
  ts_run g c 0 (bar_cap c DEFAULT_TS_NUM DEFAULT_TS_DEN) (piece_tsl tracks) = true.
Proof.
  unfold valid_piece. intros H. apply andb_prop in H. destruct H as [H H5]. apply andb_prop in H. destruct H as [H H4].
  apply andb_prop in H. destruct H as [H H3]. apply andb_prop in H. destruct H as [H1 H2]. apply Z.eqb_eq in H1.
  rewrite forallb_forall in H3.
  split; [exact H1|]. split; [exact H2|]. split; [|split; [exact H4|exact H5]].
  intros r x Hr Hx. specialize (H3 r Hr). rewrite forallb_forall in H3. now apply H3.
Qed.

(* ================================================================ the events of a valid piece *)
Definition ev_local_ok (g : Z) (c : cfg) (e : C01_rest.event) : bool :=
  let m := ev_msg e in
  divb g (m_time m) &&
  match m_type m with
  | NOTE_ON =>
      (0 <=? m_chan m) && (m_chan m <? c_ntracks c) && in_range (c_plo c) (m_note m) (c_phi c) &&
      memZ (ev_dur e) (c_values c) && (0 <=? ev_dur e) && (m_vel m <=? VELOCITY_MAX)
  | TIME_SIGNATURE => false
  | _ => true
  end.

Definition is_tsev (e : C01_rest.event) : bool := is_ts (ev_msg e).
Definition ev_tsv (e : C01_rest.event) : Z * Z * Z := (ev_time e, m_num (ev_msg e), m_den (ev_msg e)).

Lemma is_ts_type m : is_ts m = true <-> m_type m = TIME_SIGNATURE.
Proof. unfold is_ts, mtype_eqb. destruct (m_type m); cbn; split; congruence. Qed.

(* validity of a time-sorted event list whose non-signature events are locally valid and whose time signatures,
   in event order, fit the bar grid *)
Lemma valid_from_ts g c evs : forall k t0 B,
  0 < B -> r_total k = B -> r_tbar k = (r_time k - t0) mod B ->
  StronglySorted ele evs ->
  (forall e, In e evs -> r_time k <= ev_time e /\ (is_tsev e = false -> ev_local_ok g c e = true)) ->
  ts_run g c t0 B (map ev_tsv (filter is_tsev evs)) = true ->
  valid_from g c k evs = true.
Proof.
  induction evs as [|e evs IH]; intros k t0 B HB Htot Htb Hs H Hrun; [reflexivity|]. cbn [valid_from].
  destruct (H e (or_introl eq_refl)) as [Ht Hl].
  inversion Hs as [|? ? Hs' He]; subst.
  assert (Hadv : adv_tbar k (ev_time e) = (ev_time e - t0) mod r_total k).
  { unfold adv_tbar. rewrite Htb. rewrite Z.add_mod_idemp_l by lia. f_equal. lia. }
  assert (Hnext : forall x, In x evs -> ev_time e <= ev_time x).
  { intros x Hx. rewrite Forall_forall in He. specialize (He x Hx). exact He. }
  assert (Hle : (r_time k <=? m_time (ev_msg e)) = true) by (apply Z.leb_le; exact Ht).
  cbn [filter] in Hrun. destruct (is_tsev e) eqn:Ets.
  - (* a time signature *)
    cbn [map ts_run] in Hrun. unfold ev_tsv at 1 in Hrun. apply andb_prop in Hrun. destruct Hrun as [Hd Hrun].
    assert (T : m_type (ev_msg e) = TIME_SIGNATURE) by (now apply is_ts_type).
    assert (Hk' : fst (ref_step c k e) =
                  mkrc (ev_time e) (adv_tbar k (ev_time e))
                       (if 0 <? adv_tbar k (ev_time e) then r_total k
                        else bar_cap c (m_num (ev_msg e)) (m_den (ev_msg e))) (adv_has k (ev_time e))).
    { unfold ref_step. rewrite T. reflexivity. }
    destruct (0 <? (ev_time e - t0) mod r_total k) eqn:Epos.
    + apply andb_true_intro. split.
      * unfold ev_ok. rewrite T, Hle. unfold ev_time in Hd. rewrite Hd. cbn [andb].
        fold (ev_time e). rewrite Hadv, Epos. reflexivity.
      * apply (IH _ t0 (r_total k)); try assumption.
        -- rewrite Hk'. cbn [r_total]. now rewrite Hadv, Epos.
        -- rewrite Hk'. cbn [r_tbar r_time]. exact Hadv.
        -- intros x Hx. rewrite Hk'. cbn [r_time]. split; [now apply Hnext|]. apply H. now right.
    + apply andb_prop in Hrun. destruct Hrun as [Hconj Hrun].
      assert (HB' : 0 < bar_cap c (m_num (ev_msg e)) (m_den (ev_msg e))).
      { apply andb_prop in Hconj. destruct Hconj as [Hconj _]. apply andb_prop in Hconj. destruct Hconj as [_ Hb].
        now apply Z.ltb_lt in Hb. }
      assert (Hz : (ev_time e - t0) mod r_total k = 0).
      { pose proof (Z.mod_pos_bound (ev_time e - t0) (r_total k) HB). apply Z.ltb_ge in Epos. lia. }
      apply andb_true_intro. split.
      * unfold ev_ok. rewrite T, Hle. unfold ev_time in Hd. rewrite Hd. cbn [andb].
        fold (ev_time e). rewrite Hadv, Epos. cbn [orb]. exact Hconj.
      * apply (IH _ (ev_time e) (bar_cap c (m_num (ev_msg e)) (m_den (ev_msg e)))); try assumption.
        -- rewrite Hk'. cbn [r_total]. now rewrite Hadv, Epos.
        -- rewrite Hk'. cbn [r_tbar r_time]. rewrite Hadv, Hz, Z.sub_diag. reflexivity.
        -- intros x Hx. rewrite Hk'. cbn [r_time]. split; [now apply Hnext|]. apply H. now right.
  - (* a note or a cap *)
    specialize (Hl eq_refl). unfold ev_local_ok in Hl. apply andb_prop in Hl. destruct Hl as [Hd Hl].
    assert (Hk' : r_time (fst (ref_step c k e)) = ev_time e /\ r_tbar (fst (ref_step c k e)) = adv_tbar k (ev_time e) /\
                  r_total (fst (ref_step c k e)) = r_total k).
    { unfold ref_step. fold (ev_time e). unfold is_tsev, is_ts, mtype_eqb in Ets.
      destruct (m_type (ev_msg e)); cbn in Ets; try discriminate; repeat split. }
    destruct Hk' as (K1 & K2 & K3).
    apply andb_true_intro. split.
    + unfold ev_ok. rewrite Hle, Hd. cbn [andb].
      destruct (m_type (ev_msg e)); try reflexivity; try exact Hl. discriminate.
    + apply (IH _ t0 (r_total k)); try assumption.
      * rewrite K2, K1. exact Hadv.
      * intros x Hx. rewrite K1. split; [now apply Hnext|]. apply H. now right.
Qed.

Lemma is_on_type' m : is_on m = true -> m_type m = NOTE_ON.
Proof. unfold is_on, mtype_eqb. destruct (m_type m); cbn; congruence. Qed.

(* the notes of channel i among the events *)
Definition track_notes (i : Z) (evs : list C01_rest.event) : list note :=
  flat_map (fun e => if is_on (ev_msg e) && (m_chan (ev_msg e) =? i) then [pnote (snd e)] else []) evs.

Lemma track_notes_app i a b : track_notes i (a ++ b) = track_notes i a ++ track_notes i b.
Proof. apply flat_map_app. Qed.
Lemma flat_cons c pl P : flat ((c, pl) :: P) = map (pair c) pl ++ flat P.
Proof. reflexivity. Qed.

Lemma track_notes_chan i : forall pl ch, Forall (fun p => m_chan (p_first p) = ch) pl ->
  track_notes i (map (pair ch) pl) = if ch =? i then on_notes pl else [].
Proof.
  induction pl as [|p pl IHp]; intros ch Hf; [now destruct (ch =? i)|].
  pose proof (Forall_inv Hf) as Hp. pose proof (Forall_inv_tail Hf) as Hf'. cbn beta in Hp.
  unfold track_notes in *. cbn [map flat_map]. rewrite (IHp _ Hf').
  unfold ev_msg. cbn [snd]. rewrite Hp. destruct (ch =? i).
  - rewrite andb_true_r. unfold on_notes. cbn [flat_map]. reflexivity.
  - rewrite andb_false_r. reflexivity.
Qed.

Lemma track_notes_flat_none i P : ~ In i (map fst P) ->
  (forall ch pl, In (ch, pl) P -> Forall (fun p => m_chan (p_first p) = ch) pl) -> track_notes i (flat P) = [].
Proof.
  induction P as [|[c pl] P IH]; intros Hn Hc; [reflexivity|].
  rewrite flat_cons, track_notes_app, (track_notes_chan i pl c (Hc c pl (or_introl eq_refl))).
  cbn [map fst] in Hn. destruct (Z.eqb_spec c i) as [->|Hne]; [exfalso; apply Hn; now left|]. cbn [app].
  apply IH; [intros H; apply Hn; now right|]. intros ch pl0 H. apply Hc. now right.
Qed.

Lemma track_notes_flat i P : uniq P ->
  (forall ch pl, In (ch, pl) P -> Forall (fun p => m_chan (p_first p) = ch) pl) ->
  track_notes i (flat P) = on_notes (chan_pairs i P).
Proof.
  unfold uniq, chan_pairs. induction P as [|[c pl] P IH]; intros Hu Hc; [reflexivity|].
  cbn [map fst] in Hu. inversion Hu as [|? ? Hn Hu']; subst.
  rewrite flat_cons, track_notes_app. cbn [dget].
  rewrite (track_notes_chan i pl c (Hc c pl (or_introl eq_refl))).
  destruct (Z.eqb_spec i c) as [->|Hne].
  - rewrite Z.eqb_refl. rewrite track_notes_flat_none; [apply app_nil_r|exact Hn|].
    intros ch pl0 H. apply Hc. now right.
  - destruct (Z.eqb_spec c i); [congruence|]. cbn [app]. apply IH; [exact Hu'|].
    intros ch pl0 H. apply Hc. now right.
Qed.

Lemma piece_ts_tsl tracks :
  map (fun e : C04_proofs.event => (fst e, m_num (snd e), m_den (snd e))) (piece_ts tracks) = piece_tsl tracks.
Proof.
  destruct tracks as [|r0 ts]; [reflexivity|]. cbn [piece_ts piece_tsl].
  fold (tsv (ev_rel (setch 0 r0))). unfold setch, ev_rel. apply tsv_set_channel.
Qed.

Section Valid.
  Variables (g : Z) (c : cfg) (tracks : list (list msg)).
  Hypothesis Hc : valid_cfg g c = true.
  Hypothesis Hv : valid_piece g c tracks = true.

  Let S := fe_sorted tracks.
  Let P := pairings_sorted TOK_TYPES PPQN true S.
  Let Hok : tracks_ok 0 tracks = true := proj1 (proj2 (valid_piece_parts g c tracks Hv)).

  Lemma S_alt k : alt k false S = true.
  Proof.
    assert (H : forall l cur, alt k false l = alt_bits false (esig k (ev_rel_from cur l))) by (intros; apply alt_esig).
    (* alt on an absolute list: through its signature *)
    assert (Ha : alt k false S = alt_bits false (asig k S)).
    { clear H. unfold asig. generalize false. induction S as [|m l IH]; intros b; [reflexivity|]. cbn [alt].
      unfold is_key. unfold ev_abs. cbn [filter]. fold (ev_abs l).
      destruct (is_internal m) eqn:Ei; cbn [negb].
      - assert (is_on m = false /\ is_off m = false) as [-> ->].
        { unfold is_internal, is_on, is_off, mtype_eqb in *. destruct (m_type m); cbn in *; split; congruence. }
        rewrite !andb_false_r. apply IH.
      - cbn [map]. unfold esig. cbn [filter snd]. rewrite nkey_strip. unfold nkey, is_note.
        destruct (k2_eqb k (m_chan m, m_note m)); cbn [andb].
        + destruct (is_on m) eqn:Eon; cbn [orb andb map alt_bits].
          * change (s_on (sige (m_time m, strip_time m))) with (is_on m). rewrite Eon. f_equal. apply IH.
          * destruct (is_off m) eqn:Eoff; cbn [andb map alt_bits]; [|apply IH].
            change (s_on (sige (m_time m, strip_time m))) with (is_on m). rewrite Eon. f_equal. apply IH.
        + rewrite andb_false_r. apply IH. }
    rewrite Ha. unfold S. rewrite fe_sorted_sig by exact Hok. apply sig_ok_alt_bits. now apply piece_sig_ok.
  Qed.

  Lemma P_facts :
    uniq P /\
    (forall ch pl, In (ch, pl) P -> pl <> [] /\ Forall (pgood S ch) pl /\ ForallOrdPairs mle (map p_first pl)) /\
    (forall ch n, map strip (filter (onpitch n) (chan_pairs ch P)) = cpairs None (kp (ch, n) S)) /\
    (forall ch, map p_first (filter nonon (chan_pairs ch P)) = filter (single ch) S).
  Proof. apply pairings_tok; [apply fe_sorted_tsorted|exact S_alt]. Qed.

  Definition fe_events : list C01_rest.event := interleave P.

  (* 1. the front end succeeds *)
  Lemma frontend_ok : tok_frontend tracks = Ok fe_events.
  Proof.
    rewrite tok_frontend_eq. apply interleaved_ok. intros ch pl H. destruct P_facts as (_ & H2 & _). now apply (H2 ch pl).
  Qed.

  Lemma P_sorted kv : In kv P -> ForallOrdPairs ple (snd kv).
  Proof.
    destruct kv as [ch pl]. intros H. destruct P_facts as (_ & H2 & _). destruct (H2 ch pl H) as (_ & _ & H3). cbn [snd].
    apply (FOP_map_inv ple mle p_first); [|exact H3]. intros x y _ _ Hxy. exact Hxy.
  Qed.

  Lemma events_perm : Permutation fe_events (flat P).
  Proof. apply interleave_spec, P_sorted. Qed.
  Lemma events_sorted : StronglySorted ele fe_events.
  Proof. apply interleave_spec, P_sorted. Qed.

  Lemma event_in e : In e fe_events -> exists pl, In (fst e, pl) P /\ In (snd e) pl.
  Proof.
    intros H. eapply Permutation_in in H; [|apply events_perm]. unfold flat in H. apply in_flat_map in H.
    destruct H as ([ch pl] & Hkv & He). cbn [fst snd] in He. apply in_map_iff in He. destruct He as (p & <- & Hp).
    exists pl. cbn [fst snd]. now split.
  Qed.

  (* the note pairings of channel ch and pitch n are the notes of that pitch in track ch *)
  Lemma chan_notes_pitch ch n :
    map pnote (filter (onpitch n) (chan_pairs ch P)) = sig_notes n None (piece_sig 0 tracks (ch, n)).
  Proof.
    destruct P_facts as (_ & _ & H3 & _). specialize (H3 ch n).
    rewrite (map_ext pnote (fun p => snote (strip p))) by (intros; apply pnote_strip).
    rewrite <- map_map, H3. rewrite <- (fe_sorted_sig tracks Hok (ch, n)). fold S. rewrite asig_kp.
    apply (cpairs_sig_notes (ch, n) (kp (ch, n) S)) with (o := None).
    - apply Forall_forall. intros m Hm. unfold kp in Hm. now apply filter_In in Hm.
    - rewrite <- asig_kp. unfold S. rewrite fe_sorted_sig by exact Hok. apply sig_ok_alt_bits. now apply piece_sig_ok.
    - intros ? [=].
  Qed.

  Lemma P_chan ch pl : In (ch, pl) P -> Forall (fun p => m_chan (p_first p) = ch) pl.
  Proof.
    intros H. destruct P_facts as (_ & H2 & _). destruct (H2 ch pl H) as (_ & Hg & _).
    eapply Forall_impl; [|exact Hg]. intros p Hp. apply Hp.
  Qed.

  (* 2. the NOTE_ON events of channel i are, up to the order of the events, the notes of track i *)
  Lemma frontend_notes i : (i < length tracks)%nat ->
    Permutation (track_notes (Z.of_nat i) fe_events) (notes_of (nth i tracks [])).
  Proof.
    intros Hi. eapply perm_trans.
    - unfold track_notes. apply Permutation_flat_map. apply events_perm.
    - fold (track_notes (Z.of_nat i) (flat P)). destruct P_facts as (Hu & _ & _).
      rewrite track_notes_flat; [|exact Hu|exact P_chan].
      apply perm_by_pitch. intros n. rewrite on_notes_pitch, chan_notes_pitch, notes_of_pitch.
      rewrite <- (piece_sig_nth tracks n 0 i Hi). reflexivity.
  Qed.

  (* ... and per pitch even in the same order *)
  Lemma frontend_notes_pitch i n : (i < length tracks)%nat ->
    filter (pitch_is n) (on_notes (chan_pairs (Z.of_nat i) P)) = filter (pitch_is n) (notes_of (nth i tracks [])).
  Proof.
    intros Hi. rewrite on_notes_pitch, chan_notes_pitch, notes_of_pitch.
    rewrite <- (piece_sig_nth tracks n 0 i Hi). reflexivity.
  Qed.

  Lemma first_ts_chan m : In m S -> is_ts m = true -> m_chan m = 0.
  Proof.
    intros Hin Ht. destruct (fe_sorted_types tracks Hok _ Hin) as [Hn|[[Hi _]|[_ H0]]]; [| |exact H0].
    - rewrite (ts_not_note m Ht) in Hn. discriminate.
    - rewrite (ts_not_internal m Ht) in Hi. discriminate.
  Qed.

  Lemma event_local e : In e fe_events -> 0 <= ev_time e /\ (is_tsev e = false -> ev_local_ok g c e = true).
  Proof.
    intros He. destruct (event_in e He) as (pl & Hkv & Hp). destruct e as [ch p]. cbn [fst snd] in *.
    destruct P_facts as (Hu & H2 & _). destruct (H2 ch pl Hkv) as (_ & Hg & _).
    rewrite Forall_forall in Hg. destruct (Hg p Hp) as (Hch & Hin & Hft).
    pose proof (valid_piece_parts g c tracks Hv) as (Hlen & _ & Hnotes & Hdur & _).
    assert (Hnn : 0 <= m_time (p_first p)).
    { pose proof (wfa_Forall _ (fe_sorted_wfa tracks)) as Hw. rewrite Forall_forall in Hw. now apply Hw. }
    split; [exact Hnn|]. unfold is_tsev, ev_local_ok, ev_msg. cbn [snd]. intros Hnts.
    destruct (fe_sorted_types tracks Hok _ Hin) as [Hn|[[Hi Ht]|[Hts _]]]; [| |congruence].
    - (* a note: it is a NOTE_ON, and one of the notes of track ch *)
      assert (Hon : is_on (p_first p) = true).
      { unfold ftype in Hft. destruct (is_on (p_first p)); [reflexivity|]. cbn [orb] in Hft.
        apply orb_prop in Hft. destruct Hft as [Hf|Hf]; [congruence|].
        apply note_not_internal in Hn. congruence. }
      assert (Hpl : chan_pairs ch P = pl) by (unfold chan_pairs; now rewrite (In_dget _ _ _ Hu Hkv)).
      assert (Hx : In (pnote p) (sig_notes (m_note (p_first p)) None (piece_sig 0 tracks (ch, m_note (p_first p))))).
      { rewrite <- chan_notes_pitch, Hpl. apply in_map. apply filter_In. split; [exact Hp|].
        unfold onpitch. now rewrite Hon, Z.eqb_refl. }
      assert (Hrange : 0 <= ch < Z.of_nat (length tracks)).
      { destruct (Z_lt_dec ch 0) as [Hlt|Hge]; [rewrite piece_sig_out in Hx by (cbn [fst]; lia); destruct Hx|].
        destruct (Z_lt_dec ch (Z.of_nat (length tracks))); [lia|].
        rewrite piece_sig_out in Hx by (cbn [fst]; lia). destruct Hx. }
      set (i := Z.to_nat ch). assert (Hi : (i < length tracks)%nat) by lia.
      replace ch with (0 + Z.of_nat i) in Hx by lia. rewrite piece_sig_nth in Hx by exact Hi.
      rewrite <- notes_of_pitch in Hx. apply filter_In in Hx. destruct Hx as [Hx _].
      specialize (Hnotes (nth i tracks []) (pnote p) (nth_In _ _ Hi) Hx).
      unfold note_ok, pnote in Hnotes.
      apply andb_prop in Hnotes. destruct Hnotes as [Hnotes N5]. apply andb_prop in Hnotes. destruct Hnotes as [Hnotes N4].
      apply andb_prop in Hnotes. destruct Hnotes as [Hnotes N3]. apply andb_prop in Hnotes. destruct Hnotes as [N1 N2].
      apply is_on_type' in Hon. rewrite Hon, N1. unfold ev_dur, ev_time, ev_msg. cbn [snd]. rewrite Hch, N2, N3, N4, N5.
      unfold lenZ in Hlen.
      replace (0 <=? ch) with true by (symmetry; apply Z.leb_le; lia).
      replace (ch <? c_ntracks c) with true by (symmetry; apply Z.ltb_lt; lia). reflexivity.
    - (* the cap *)
      rewrite Ht, Hdur. unfold is_internal, mtype_eqb in Hi. destruct (m_type (p_first p)); cbn in Hi; try discriminate.
      reflexivity.
  Qed.

  (* the TIME_SIGNATURE events, in event order, are the time signatures of track 0 *)
  Lemma events_ts : map ev_tsv (filter is_tsev fe_events) = piece_tsl tracks.
  Proof.
    destruct P_facts as (Hu & H2 & _ & H4).
    assert (E1 : filter is_tsev fe_events = filter is_tsev (filter (fun e => fst e =? 0) fe_events)).
    { rewrite filter_filter. apply filter_ext_in'. intros e He. destruct (is_tsev e) eqn:Ets; [|now rewrite andb_false_r].
      rewrite andb_true_r. symmetry. apply Z.eqb_eq.
      destruct (event_in e He) as (pl & Hkv & Hp). destruct (H2 _ _ Hkv) as (_ & Hg & _).
      rewrite Forall_forall in Hg. destruct (Hg _ Hp) as (Hch & Hin & _). rewrite <- Hch.
      now apply first_ts_chan. }
    rewrite E1. unfold fe_events. rewrite (interleave_chan 0 P Hu).
    set (pl := chan_pairs 0 P) in *.
    assert (E2 : map ev_tsv (filter is_tsev (map (pair 0) pl)) =
                 map (fun m => (m_time m, m_num m, m_den m)) (filter is_ts (map p_first (filter nonon pl)))).
    { rewrite !filter_map_comm, !map_map, filter_filter. cbn [snd].
      rewrite (filter_ext_in' (fun x => nonon x && is_ts (p_first x)) (fun x => is_tsev (0, x)) pl); [reflexivity|].
      intros p _. unfold is_tsev, ev_msg, nonon. cbn [snd]. destruct (is_ts (p_first p)) eqn:E; [|apply andb_false_r].
      assert (is_on (p_first p) = false) as ->; [|reflexivity].
      destruct (is_on (p_first p)) eqn:Eon; [|reflexivity]. apply on_is_note in Eon. rewrite (ts_not_note _ E) in Eon.
      discriminate. }
    rewrite E2. unfold pl. rewrite (H4 0), filter_filter.
    rewrite (filter_ext_in' (fun m => single 0 m && is_ts m) is_ts S).
    - pose proof (fe_sorted_ats tracks Hok) as Ha. fold S in Ha. rewrite ats_filter in Ha.
      transitivity (map (fun e : C04_proofs.event => (fst e, m_num (snd e), m_den (snd e)))
                        (map (fun m => (m_time m, strip_time m)) (filter is_ts S))).
      + rewrite map_map. reflexivity.
      + rewrite Ha. apply piece_ts_tsl.
    - intros m Hm. destruct (is_ts m) eqn:E; [|apply andb_false_r]. rewrite andb_true_r.
      unfold single. rewrite E, (first_ts_chan m Hm E). reflexivity.
  Qed.

  (* 3. the events are valid for the core *)
  Lemma frontend_valid : valid_events g c fe_events = true.
  Proof.
    pose proof (valid_cfg_parts g c Hc) as (_ & _ & _ & _ & _ & HB & _).
    pose proof (valid_piece_parts g c tracks Hv) as (_ & _ & _ & _ & Hts).
    unfold valid_events.
    apply (valid_from_ts g c fe_events (rclk0 c) 0 (bar_cap c DEFAULT_TS_NUM DEFAULT_TS_DEN)).
    - exact HB.
    - reflexivity.
    - cbn [rclk0 r_tbar r_time]. reflexivity.
    - apply events_sorted.
    - intros e He. cbn [rclk0 r_time]. now apply event_local.
    - rewrite events_ts. exact Hts.
  Qed.
End Valid.

(* ================================================================ the theorems (closed statements) *)
Lemma event_chan g c tracks : valid_piece g c tracks = true ->
  forall e, In e (fe_events tracks) -> fst e = m_chan (ev_msg e).
Proof.
  intros Hv e He. destruct (event_in g c tracks Hv e He) as (pl & Hkv & Hp).
  pose proof (P_chan g c tracks Hv (fst e) pl Hkv) as Hf. rewrite Forall_forall in Hf. symmetry. now apply Hf.
Qed.

Lemma track_notes_filter i evs : (forall e, In e evs -> fst e = m_chan (ev_msg e)) ->
  track_notes i evs = track_notes i (filter (fun e => fst e =? i) evs).
Proof.
  induction evs as [|e evs IH]; intros H; [reflexivity|]. cbn [filter].
  assert (IH' : track_notes i evs = track_notes i (filter (fun e => fst e =? i) evs)) by (apply IH; intros x Hx; apply H; now right).
  destruct (fst e =? i) eqn:E.
  - change (e :: evs) with ([e] ++ evs). change (e :: filter (fun e0 => fst e0 =? i) evs) with ([e] ++ filter (fun e0 => fst e0 =? i) evs).
    rewrite !track_notes_app. now rewrite IH'.
  - change (e :: evs) with ([e] ++ evs). rewrite track_notes_app, <- IH'.
    unfold track_notes at 1. cbn [flat_map]. rewrite <- (H e (or_introl eq_refl)), E, andb_false_r. reflexivity.
Qed.

Lemma dget_In {V} (d : list (Z * V)) k v : dget Z.eqb k d = Some v -> In (k, v) d.
Proof.
  induction d as [|[k0 v0] d IH]; cbn [dget]; [discriminate|].
  destruct (Z.eqb_spec k k0) as [->|_]; [intros [= ->]; now left|intros H; right; now apply IH].
Qed.

(* per track and pitch, the NOTE_ON events come in the order of the track's notes *)
Lemma frontend_notes_order g c tracks : valid_piece g c tracks = true -> forall i n, (i < length tracks)%nat ->
  filter (pitch_is n) (track_notes (Z.of_nat i) (fe_events tracks)) = filter (pitch_is n) (notes_of (nth i tracks [])).
Proof.
  intros Hv i n Hi. rewrite track_notes_filter by (apply event_chan with g c; exact Hv).
  pose proof (P_facts g c tracks Hv) as (Hu & _). unfold fe_events. rewrite (interleave_chan _ _ Hu).
  rewrite track_notes_chan.
  - rewrite Z.eqb_refl. now apply frontend_notes_pitch with g c.
  - unfold chan_pairs. destruct (dget Z.eqb (Z.of_nat i) _) as [pl|] eqn:G; [|constructor].
    apply (P_chan g c tracks Hv). now apply dget_In.
Qed.

(* 1. on a valid piece the front end never fails *)
Theorem C01_frontend_ok_partial : forall (g : Z) (c : cfg) (tracks : list (list msg)),
  valid_piece g c tracks = true -> exists evs, tok_frontend tracks = Ok evs.
Proof. intros g c tracks Hv. exists (fe_events tracks). now apply frontend_ok with g c. Qed.

(* 2. its events are ordered by time, carry their channel, the NOTE_ON events of channel i are the notes of track i,
   and the TIME_SIGNATURE events are, in order, the time signatures of track 0 *)
Theorem C01_frontend_notes_partial : forall (g : Z) (c : cfg) (tracks : list (list msg)) (evs : list C01_rest.event),
  valid_piece g c tracks = true -> tok_frontend tracks = Ok evs ->
  StronglySorted (fun a b => ev_time a <= ev_time b) evs /\
  (forall e, In e evs -> fst e = m_chan (ev_msg e)) /\
  (forall i, (i < length tracks)%nat ->
     Permutation (track_notes (Z.of_nat i) evs) (notes_of (nth i tracks [])) /\
     forall n, filter (pitch_is n) (track_notes (Z.of_nat i) evs) = filter (pitch_is n) (notes_of (nth i tracks []))) /\
  map ev_tsv (filter is_tsev evs) = piece_tsl tracks.
Proof.
  intros g c tracks evs Hv He. rewrite (frontend_ok g c tracks Hv) in He. injection He as <-.
  split; [exact (events_sorted g c tracks Hv)|]. split; [now apply event_chan with g c|].
  split; [|now apply events_ts with g c]. intros i Hi. split; [now apply frontend_notes with g c|].
  intros n. now apply frontend_notes_order with g c.
Qed.

(* 3. the events are valid input for the core *)
Theorem C01_frontend_valid_partial : forall (g : Z) (c : cfg) (tracks : list (list msg)) (evs : list C01_rest.event),
  valid_cfg g c = true -> valid_piece g c tracks = true -> tok_frontend tracks = Ok evs -> valid_events g c evs = true.
Proof.
  intros g c tracks evs Hc Hv He. rewrite (frontend_ok g c tracks Hv) in He. injection He as <-.
  now apply frontend_valid.
Qed.

(* the messages the decoder writes for one note: velocity replaced by the value of its bin *)
Definition note_msgs (c : cfg) (x : note) : list msg :=
  let '(p, t, t', v) := x in
  [mk_on 0 p (nth (Z.to_nat (bin_velocity v (c_vbins c))) (c_vbins c) 0) t false; mk_off 0 p t' false].

Lemma ev_notes_track c i evs :
  flat_map (ev_notes c i) evs = flat_map (note_msgs c) (track_notes i evs).
Proof.
  induction evs as [|e evs IH]; [reflexivity|]. unfold track_notes in *. cbn [flat_map]. rewrite flat_map_app, <- IH.
  f_equal. unfold ev_notes. unfold is_on, mtype_eqb.
  destruct (m_type (ev_msg e)); cbn [mtype_rank Z.eqb Pos.eqb andb flat_map]; try reflexivity.
  destruct (m_chan (ev_msg e) =? i); reflexivity.
Qed.

Lemma filter_note_rel l : filter is_note (filter rel l) = filter is_note l.
Proof.
  rewrite filter_filter. apply filter_ext_in'. intros x _. unfold rel. destruct (is_note x); [reflexivity|apply andb_false_r].
Qed.

(* 4. piece-level round trip: tokenise, encode, decode, detokenise a valid piece.  evs are the front end's events;
   track i of the result holds, as its note messages, exactly the notes of track i of the piece (pitch, onset, offset)
   with each velocity replaced by the value of its bin (up to the order of the messages; every detokenised track is
   time-ordered, C01_detok_sorted); its NOTE / INTERNAL content is the core's `exp_track` (bar caps), and the final
   clock sits on the bar start reached by the reference clock. *)
Theorem C01_piece_roundtrip_partial : forall (g : Z) (c : cfg) (tracks : list (list msg)),
  valid_cfg g c = true -> valid_piece g c tracks = true ->
  exists evs toks st ids seqs,
    tok_frontend tracks = Ok evs /\ valid_events g c evs = true /\
    tokenise c (tstate0 c) tracks = Ok (toks, st) /\ Forall (fun t => In t (vocab c)) toks /\
    encode c toks = Ok ids /\ decode c ids = Ok toks /\
    t_time st = r_time (run_end c (rclk0 c) evs) /\ t_tbar st = 0 /\
    detokenise c toks = Ok seqs /\ length seqs = length tracks /\
    forall i, (i < length tracks)%nat ->
      Permutation (filter rel (nth i seqs [])) (exp_track c evs i) /\
      Permutation (filter is_note (nth i seqs [])) (flat_map (note_msgs c) (notes_of (nth i tracks []))).
Proof.
  intros g c tracks Hc Hv.
  pose proof (frontend_valid g c tracks Hc Hv) as Hval.
  destruct (C01_core_roundtrip g c (fe_events tracks) Hc Hval) as (toks & st & seqs & H1 & H2 & H3 & H4 & H5 & H6 & H7).
  destruct (encode_total c toks H2) as (ids & He).
  pose proof (valid_piece_parts g c tracks Hv) as (Hlen & _).
  assert (Hl : length seqs = length tracks) by (rewrite H6, <- Hlen; unfold lenZ; lia).
  exists (fe_events tracks), toks, st, ids, seqs.
  split; [now apply frontend_ok with g c|]. split; [exact Hval|]. split.
  { rewrite tokenise_core. replace (lenZ tracks =? c_ntracks c) with true by (symmetry; now apply Z.eqb_eq).
    cbn [negb]. rewrite (frontend_ok g c tracks Hv). exact H1. }
  split; [exact H2|]. split; [exact He|]. split; [now apply C01_encode_decode|].
  split; [exact H3|]. split; [exact H4|]. split; [exact H5|]. split; [exact Hl|].
  intros i Hi. rewrite <- Hl in Hi. specialize (H7 i Hi). split; [exact H7|].
  apply (filter_perm is_note) in H7. rewrite filter_note_rel, exp_track_notes, ev_notes_track in H7.
  eapply perm_trans; [exact H7|]. apply Permutation_flat_map. apply frontend_notes with g c; [exact Hv|lia].
Qed.

(* ================================================================ non-vacuity *)
Definition ex_w (t : Z) : msg := mk_wait 9 t false.
Definition ex_on (p v : Z) : msg := mk_on 9 p v 0 false.
Definition ex_off (p : Z) : msg := mk_off 9 p 0 false.
(* two tracks: a chord, a repeated pitch, a rest at the start, a trailing rest, simultaneous notes across tracks *)
Definition ex_piece : list (list msg) :=
  [ [ex_on 60 100; ex_on 62 90; ex_w 24; ex_off 60; ex_off 62; ex_on 60 80; ex_w 12; ex_off 60; ex_w 60];
    [ex_w 12; ex_on 60 70; ex_w 6; ex_off 60; ex_w 6; ex_on 62 127; ex_w 24; ex_off 62] ].

Example ex_piece_valid : valid_cfg 2 cfg_ex = true /\ valid_piece 2 cfg_ex ex_piece = true.
Proof. vm_compute. split; reflexivity. Qed.

Example ex_piece_notes :
  map notes_of ex_piece = [[(60, 0, 24, 100); (62, 0, 24, 90); (60, 24, 36, 80)]; [(60, 12, 18, 70); (62, 24, 48, 127)]].
Proof. vm_compute. reflexivity. Qed.

Example ex_piece_events :
  match tok_frontend ex_piece with
  | Ok evs => map (fun e => (fst e, m_type (ev_msg e), m_note (ev_msg e), ev_time e, ev_dur e)) evs
  | Err _ => []
  end = [(0, NOTE_ON, 60, 0, 24); (0, NOTE_ON, 62, 0, 24); (1, NOTE_ON, 60, 12, 6); (0, NOTE_ON, 60, 24, 12);
         (1, NOTE_ON, 62, 24, 24); (0, INTERNAL, -1, 96, 0)].
Proof. vm_compute. reflexivity. Qed.

(* the hypotheses are needed: an overlapping re-trigger of a pitch loses a note, a zero-length note is re-ordered *)
Example ex_overlap_rejected :
  let r := [ex_on 60 100; ex_w 12; ex_on 60 90; ex_w 12; ex_off 60; ex_w 12; ex_off 60] in
  valid_track 0 r = false /\ notes_of r = [(60, 12, 24, 90)] /\
  match tok_frontend [r] with Ok evs => map (fun e => (ev_time e, ev_dur e)) evs | Err _ => [] end = [(0, 36)].
Proof. vm_compute. repeat split; reflexivity. Qed.

(* a piece with time signatures on track 0: 3/4 at tick 0, 4/4 on the next bar line (tick 72), and a 6/8 inside a bar
   (tick 96, ignored by the tokeniser) *)
Definition ex_ts (n d : Z) : msg := mk_ts 9 n d 0 false.
Definition ex_piece_ts : list (list msg) :=
  [ [ex_ts 3 4; ex_on 60 100; ex_w 24; ex_off 60; ex_w 48; ex_ts 4 4; ex_on 62 90; ex_w 24; ex_off 62; ex_ts 6 8;
     ex_on 61 64; ex_w 12; ex_off 61];
    [ex_w 12; ex_on 60 70; ex_w 6; ex_off 60; ex_w 54; ex_on 62 127; ex_w 24; ex_off 62] ].

Example ex_piece_ts_valid :
  valid_piece 2 cfg_ex ex_piece_ts = true /\ piece_tsl ex_piece_ts = [(0, 3, 4); (72, 4, 4); (96, 6, 8)].
Proof. vm_compute. split; reflexivity. Qed.

Example ex_piece_ts_events :
  match tok_frontend ex_piece_ts with
  | Ok evs => map (fun e => (fst e, m_type (ev_msg e), m_note (ev_msg e), ev_time e, ev_dur e)) evs
  | Err _ => []
  end = [(0, TIME_SIGNATURE, -1, 0, 0); (0, NOTE_ON, 60, 0, 24); (1, NOTE_ON, 60, 12, 6); (0, TIME_SIGNATURE, -1, 72, 0);
         (0, NOTE_ON, 62, 72, 24); (1, NOTE_ON, 62, 72, 24); (0, TIME_SIGNATURE, -1, 96, 0); (0, NOTE_ON, 61, 96, 12)].
Proof. vm_compute. reflexivity. Qed.

(* a repeated time signature is dropped by normalise: excluded by valid_track (ts_ok) *)
Example ex_repeated_ts_rejected :
  let r := [ex_ts 3 4; ex_w 72; ex_ts 3 4; ex_on 60 100; ex_w 24; ex_off 60] in
  valid_track 0 r = false /\
  match tok_frontend [r] with Ok evs => map (fun e => (m_type (ev_msg e), ev_time e)) evs | Err _ => [] end
  = [(TIME_SIGNATURE, 0); (NOTE_ON, 72)].
Proof. vm_compute. split; reflexivity. Qed.
