(* C01 (core), part 2 -- the core of `tokenise` accepts every valid event list, and the decoder run over the emitted
   tokens simulates the encoder (equal clocks, consistent running values) and inserts exactly the expected notes and
   bar caps; encode / decode. *)
From Coq Require Import ZArith List Bool Lia Permutation.
From Model Require Import Base Util Seq Pairing Tok.
From Proofs Require Import C01_rest.
Import ListNotations.
Open Scope Z_scope.

(* ================================================================ small library *)
Lemma filter_len_le {A} (f : A -> bool) l : (length (filter f l) <= length l)%nat.
Proof. induction l as [|a l IH]; cbn [filter length]; [lia|]. destruct (f a); cbn [length]; lia. Qed.

Lemma filter_len_lt {A} (f : A -> bool) l x : In x l -> f x = false -> (length (filter f l) < length l)%nat.
Proof.
  induction l as [|a l IH]; intros Hin Hx; [destruct Hin|]. cbn [filter length].
  destruct Hin as [->|Hin].
  - rewrite Hx. pose proof (filter_len_le f l). lia.
  - specialize (IH Hin Hx). destruct (f a); cbn [length]; lia.
Qed.

Lemma bin_ok bins v :
  existsb (fun b => VELOCITY_MAX <=? b) bins = true -> v <= VELOCITY_MAX ->
  exists vel, nth_error bins (Z.to_nat (bin_velocity v bins)) = Some vel /\ In vel bins.
Proof.
  intros H Hv. apply existsb_exists in H. destruct H as (b & Hb & Hle). apply Z.leb_le in Hle.
  unfold bin_velocity, lenZ. rewrite Nat2Z.id.
  assert (Hlt : (length (filter (fun b => Z.ltb b v) bins) < length bins)%nat).
  { apply (filter_len_lt _ _ b Hb). apply Z.ltb_ge. lia. }
  apply nth_error_Some in Hlt. destruct (nth_error bins _) as [vel|] eqn:E; [|congruence].
  exists vel. split; [reflexivity|]. eapply nth_error_In; eassumption.
Qed.

Lemma In_rangeZ_aux n : forall lo x, lo <= x < lo + Z.of_nat n -> In x (rangeZ_aux n lo).
Proof.
  induction n as [|n IH]; intros lo x H; [lia|]. cbn [rangeZ_aux].
  destruct (Z.eq_dec x lo) as [->|Hne]; [now left|]. right. apply IH. lia.
Qed.
Lemma In_rangeZ lo hi x : lo <= x < hi -> In x (rangeZ lo hi).
Proof. intros H. unfold rangeZ. apply In_rangeZ_aux. lia. Qed.

Lemma rangeZ_aux_length n lo : length (rangeZ_aux n lo) = n.
Proof. revert lo. induction n as [|n IH]; intros lo; cbn [rangeZ_aux length]; [reflexivity|]. now rewrite IH. Qed.

Lemma memZ_In x l : memZ x l = true -> In x l.
Proof.
  unfold memZ. intros H. apply existsb_exists in H. destruct H as (y & Hy & E). apply Z.eqb_eq in E. now subst.
Qed.

Lemma nth_error_set_nth {A} (f : A -> A) : forall l n i,
  nth_error (set_nth n f l) i = if Nat.eqb i n then option_map f (nth_error l i) else nth_error l i.
Proof.
  induction l as [|x l IH]; intros n i.
  - destruct n, i; cbn; try reflexivity. destruct (Nat.eqb i n); reflexivity.
  - destruct n as [|n]; cbn [set_nth].
    + destruct i as [|i]; reflexivity.
    + destruct i as [|i]; cbn [nth_error Nat.eqb]; [reflexivity|apply IH].
Qed.

Lemma set_nth_length {A} (f : A -> A) : forall l n, length (set_nth n f l) = length l.
Proof.
  induction l as [|x l IH]; intros n; [now destruct n|]. destruct n; cbn [set_nth length]; [reflexivity|now rewrite IH].
Qed.

Lemma perm_4 {A} (a b c d : list A) : Permutation ((a ++ b) ++ (c ++ d)) ((a ++ c) ++ (b ++ d)).
Proof.
  rewrite <- !app_assoc. apply Permutation_app_head. rewrite !app_assoc. apply Permutation_app_tail.
  apply Permutation_app_comm.
Qed.

(* ================================================================ vocabulary membership of the emitted tokens *)
Lemma vocab_bar c : In TBar (vocab c).
Proof. unfold vocab. cbn. tauto. Qed.
Lemma vocab_rest c v : In v (c_steps c) -> In (TRest v) (vocab c).
Proof.
  intros H. unfold vocab. apply in_or_app. right. apply in_or_app. left. now apply in_map.
Qed.
Lemma rest_tok_vocab c t : rest_tok c t -> In t (vocab c).
Proof. intros [->|(v & -> & H)]; [apply vocab_bar|now apply vocab_rest]. Qed.

Lemma vocab_trk c ch : c_ftrk c = false -> 0 <= ch < c_ntracks c -> In (TTrk ch) (vocab c).
Proof.
  intros Hf H. unfold vocab. rewrite Hf. do 2 (apply in_or_app; right). apply in_or_app. left.
  apply in_map. now apply In_rangeZ.
Qed.
Lemma vocab_val c v : c_fval c = false -> In v (c_values c) -> In (TVal v) (vocab c).
Proof.
  intros Hf H. unfold vocab. rewrite Hf. do 3 (apply in_or_app; right). apply in_or_app. left. now apply in_map.
Qed.
Lemma vocab_vel c v : c_fvel c = false -> In v (c_vbins c) -> In (TVel v) (vocab c).
Proof.
  intros Hf H. unfold vocab. rewrite Hf. do 4 (apply in_or_app; right). apply in_or_app. left. now apply in_map.
Qed.
Lemma vocab_note c ch pit val vel :
  0 <= ch < c_ntracks c -> c_plo c <= pit <= c_phi c -> In val (c_values c) -> In vel (c_vbins c) ->
  In (TNote (if c_ftrk c then Some ch else None) pit (if c_fval c then Some val else None)
            (if c_fvel c then Some vel else None)) (vocab c).
Proof.
  intros Hch Hp Hv Hw. unfold vocab. do 5 (apply in_or_app; right). apply in_or_app. left.
  unfold note_tokens. apply in_flat_map.
  exists (if c_ftrk c then Some ch else None). split.
  { destruct (c_ftrk c); [apply in_map, In_rangeZ; lia|now left]. }
  apply in_flat_map. exists pit. split; [apply In_rangeZ; lia|].
  apply in_flat_map. exists (if c_fval c then Some val else None). split.
  { destruct (c_fval c); [now apply in_map|now left]. }
  apply in_map_iff. exists (if c_fvel c then Some vel else None). split; [reflexivity|].
  destruct (c_fvel c); [now apply in_map|now left].
Qed.
Lemma vocab_tsg c n : c_tslo c <= n <= c_tshi c -> In (TTsg n DEFAULT_TS_NUM) (vocab c).
Proof.
  intros H. unfold vocab. do 6 (apply in_or_app; right).
  apply in_map_iff. exists n. split; [reflexivity|apply In_rangeZ; lia].
Qed.

(* ================================================================ decoding the tokens of one note *)
(* the decoder's running value after the optional prefix token *)
Definition eff (fused running : bool) (x lprev dprev : Z) : Z :=
  if negb fused && (negb (Z.eqb x lprev) || negb running) then x else dprev.

Lemma eff_ok (fused running : bool) (x lprev dprev : Z) :
  (lprev = -1 \/ lprev = dprev) -> x <> -1 ->
  match (if fused then Some x else None) with Some y => y | None => eff fused running x lprev dprev end = x.
Proof.
  intros H Hx. unfold eff. destruct fused; [reflexivity|]. cbn [negb andb].
  destruct (Z.eqb x lprev) eqn:E; [apply Z.eqb_eq in E|reflexivity].
  destruct running; cbn [negb orb]; [|reflexivity]. lia.
Qed.

Lemma note_tok_prefix c s d ch pit val vel :
  foldM (detok_step c) (note_tok c s ch pit val vel) d =
  detok_step c (mkds (d_seqs d) (d_time d) (d_tbar d) (d_num d) (d_den d) (d_total d) (d_rem d)
                     (eff (c_ftrk c) (c_running c) ch (l_ptrk s) (d_ptrk d))
                     (eff (c_fval c) (c_running c) val (l_pval s) (d_pval d))
                     (eff (c_fvel c) (c_running c) vel (l_pvel s) (d_pvel d)))
             (TNote (if c_ftrk c then Some ch else None) pit (if c_fval c then Some val else None)
                    (if c_fvel c then Some vel else None)).
Proof.
  unfold note_tok, eff. destruct d as [seqs time tbar num den total rem pt pv pw].
  destruct (negb (c_ftrk c) && _), (negb (c_fval c) && _), (negb (c_fvel c) && _);
    cbn [app foldM detok_step rbind d_seqs d_time d_tbar d_num d_den d_total d_rem d_ptrk d_pval d_pvel];
    match goal with |- rbind ?x _ = ?y => destruct y; reflexivity end.
Qed.

Lemma note_tok_dec c s d ch pit val vel :
  (l_ptrk s = -1 \/ l_ptrk s = d_ptrk d) -> (l_pval s = -1 \/ l_pval s = d_pval d) ->
  (l_pvel s = -1 \/ l_pvel s = d_pvel d) -> ch <> -1 -> val <> -1 -> vel <> -1 ->
  0 <= ch < lenZ (d_seqs d) ->
  foldM (detok_step c) (note_tok c s ch pit val vel) d =
  Ok (mkds (set_nth (Z.to_nat ch)
              (fun a => insort (mk_off 0 pit (d_time d + val) false) (insort (mk_on 0 pit vel (d_time d) false) a))
              (d_seqs d))
           (d_time d) (d_tbar d) (d_num d) (d_den d) (d_total d) (d_rem d) ch val vel).
Proof.
  intros Ht Hv Hw Hch Hval Hvel Hr. rewrite note_tok_prefix. unfold detok_step.
  cbn [d_seqs d_time d_tbar d_num d_den d_total d_rem d_ptrk d_pval d_pvel].
  rewrite (eff_ok _ _ _ _ _ Ht Hch), (eff_ok _ _ _ _ _ Hv Hval), (eff_ok _ _ _ _ _ Hw Hvel).
  unfold py_index.
  destruct (0 <=? ch) eqn:E1; [|apply Z.leb_gt in E1; lia].
  destruct (ch <? lenZ (d_seqs d)) eqn:E2; [|apply Z.ltb_ge in E2; lia].
  reflexivity.
Qed.

(* ---- views *)
Lemma rel_ts n d t f : rel (mk_ts 0 n d t f) = false.
Proof. reflexivity. Qed.

Lemma view_set_nth_same f seqs n l :
  nth_error seqs n = Some l -> view (set_nth n f seqs) n = filter rel (f l).
Proof. intros H. unfold view. rewrite nth_error_set_nth, Nat.eqb_refl, H. reflexivity. Qed.
Lemma view_set_nth_other f seqs n i : i <> n -> view (set_nth n f seqs) i = view seqs i.
Proof.
  intros H. unfold view. rewrite nth_error_set_nth. apply Nat.eqb_neq in H. now rewrite H.
Qed.

Lemma filter_insort_rel x l : rel x = true -> Permutation (filter rel (insort x l)) (x :: filter rel l).
Proof.
  intros H. eapply perm_trans; [apply filter_perm, insort_perm|]. cbn [filter]. now rewrite H.
Qed.
Lemma filter_insort_nrel x l : rel x = false -> Permutation (filter rel (insort x l)) (filter rel l).
Proof.
  intros H. eapply perm_trans; [apply filter_perm, insort_perm|]. cbn [filter]. now rewrite H.
Qed.

(* ---- decoding a time-signature token at a bar start *)
Lemma detok_tsg c d n :
  d_tbar d = 0 ->
  exists d', detok_step c d (TTsg n DEFAULT_TS_NUM) = Ok d' /\
    d_time d' = d_time d /\ d_tbar d' = 0 /\
    d_total d' = bar_cap c n DEFAULT_TS_NUM /\ d_rem d' = bar_cap c n DEFAULT_TS_NUM /\
    dframe d d' /\ forall i, Permutation (view (d_seqs d') i) (view (d_seqs d) i).
Proof.
  intros H0. unfold detok_step. rewrite H0. cbn [Z.ltb Z.compare].
  change (DEFAULT_TS_NUM =? 0) with false. cbv iota.
  destruct (c_simplify c && (n mod 2 =? 0) && (DEFAULT_TS_NUM mod 2 =? 0)) eqn:Es.
  all: destruct (negb ((d_num d =? n) && (d_den d =? DEFAULT_TS_NUM)) || negb (c_running c)) eqn:Esw.
  all: eexists; split; [reflexivity|]; unfold set_clock, dframe;
       cbn [d_seqs d_time d_tbar d_num d_den d_total d_rem d_ptrk d_pval d_pvel];
       repeat split; try assumption; try reflexivity.
  all: try (destruct (d_seqs d); reflexivity).
  all: try (intros; apply Permutation_refl).
  all: intros i; unfold view; destruct (d_seqs d) as [|a r]; [apply Permutation_refl|];
       destruct i as [|i]; cbn [nth_error]; [apply filter_insort_nrel, rel_ts|apply Permutation_refl].
Qed.

(* ================================================================ the simulation invariant *)
Definition run_ok (s : lstate) (d : dstate) : Prop :=
  (l_ptrk s = -1 \/ l_ptrk s = d_ptrk d) /\ (l_pval s = -1 \/ l_pval s = d_pval d) /\
  (l_pvel s = -1 \/ l_pvel s = d_pvel d).
Definition sim (c : cfg) (s : lstate) (d : dstate) : Prop :=
  clk_eq s d /\ run_ok s d /\ length (d_seqs d) = Z.to_nat (c_ntracks c).
Definition lk_match (s : lstate) (k : rclk) : Prop :=
  l_time s = r_time k /\ l_tbar s = r_tbar k /\ l_total s = r_total k /\ l_has s = r_has k.
Definition lgood (g : Z) (s : lstate) : Prop := linv g s /\ (g | l_time s).
Definition in_vocab (c : cfg) (t : tok) : Prop := In t (vocab c).

Lemma rest_if c s t :
  (if l_time s =? t then Ok s else apply_rest (rest_fuel (t - l_time s)) c s (t - l_time s)) =
  apply_rest (rest_fuel (t - l_time s)) c s (t - l_time s).
Proof.
  destruct (l_time s =? t) eqn:E; [|reflexivity]. apply Z.eqb_eq in E.
  replace (t - l_time s) with 0 by lia. reflexivity.
Qed.

Lemma rest_phase g c s k d t :
  grid_ok (c_steps c) g = true -> lgood g s -> lk_match s k -> sim c s d -> r_time k <= t -> (g | t) ->
  exists s1 new d1,
    (if l_time s =? t then Ok s else apply_rest (rest_fuel (t - l_time s)) c s (t - l_time s)) = Ok s1 /\
    l_toks s1 = l_toks s ++ new /\ Forall (in_vocab c) new /\ lgood g s1 /\
    l_time s1 = t /\ l_tbar s1 = adv_tbar k t /\ l_total s1 = r_total k /\ l_has s1 = adv_has k t /\
    lframe s s1 /\
    foldM (detok_step c) new d = Ok d1 /\ sim c s1 d1 /\
    forall i, (i < length (d_seqs d))%nat ->
      Permutation (view (d_seqs d1) i) (caps_msgs (adv_caps k t) ++ view (d_seqs d) i).
Proof.
  intros Hg [Hinv Hdt] Hlk (Hclk & Hrun & Hlen) Hle Hdiv. rewrite rest_if.
  destruct k as [kt ktb ktot khas]. unfold lk_match in Hlk. cbn [r_time r_tbar r_total r_has] in *.
  destruct Hlk as (E1 & E2 & E3 & E4). subst kt ktb ktot khas.
  assert (Hd : (g | t - l_time s)) by (apply Z.divide_sub_r; assumption).
  destruct (apply_rest_sound_fuel g c s (t - l_time s) d Hg Hinv ltac:(lia) Hd Hclk)
    as (s1 & new & d1 & Hr & Htoks & Hall & Htime & Htbar & Hinv1 & Hfr & Hhas & Hdec & Hclk1 & Hdfr & Hview).
  exists s1, new, d1. unfold adv_tbar, adv_has, adv_caps, adv_n. cbn [r_time r_tbar r_total r_has].
  assert (Ht1 : l_time s1 = t) by lia.
  split; [exact Hr|]. split; [exact Htoks|].
  split; [eapply Forall_impl; [|exact Hall]; intros a; apply rest_tok_vocab|].
  split; [split; [exact Hinv1|now rewrite Ht1]|].
  split; [exact Ht1|]. split; [exact Htbar|]. split; [apply Hfr|]. split; [exact Hhas|]. split; [exact Hfr|].
  split; [exact Hdec|].
  split.
  { split; [exact Hclk1|]. destruct Hfr as (_ & _ & _ & F1 & F2 & F3). destruct Hdfr as (G1 & G2 & G3 & G4).
    split; [|now rewrite G4]. unfold run_ok. now rewrite F1, F2, F3, G1, G2, G3. }
  intros i Hi. destruct Hinv as (_ & Hsum & _).
  replace (l_time s - l_tbar s + l_total s) with (l_time s + l_rem s) by lia. now apply Hview.
Qed.

Lemma bar_cap_scaled c num den :
  0 < den -> (num * DEFAULT_TS_DEN) mod den = 0 ->
  bar_cap c ((num * DEFAULT_TS_DEN) / den) DEFAULT_TS_NUM = bar_cap c num den.
Proof.
  change DEFAULT_TS_DEN with 8. change DEFAULT_TS_NUM with 8. intros Hd Hm. unfold bar_cap.
  set (P := c_ppqn c * 4). set (q := (num * 8) / den).
  assert (Hq : num * 8 = den * q) by (apply Z_div_exact_full_2; lia).
  rewrite <- (Z.div_mul_cancel_r (P * num) den 8) by lia.
  replace (P * num * 8) with (P * q * den) by nia. replace (den * 8) with (8 * den) by lia.
  now rewrite Z.div_mul_cancel_r by lia.
Qed.

Lemma valid_cfg_parts g c :
  valid_cfg g c = true ->
  grid_ok (c_steps c) g = true /\ 0 < g /\ 1 <= c_ntracks c /\
  existsb (fun b => VELOCITY_MAX <=? b) (c_vbins c) = true /\ (forall b, In b (c_vbins c) -> 0 <= b) /\
  0 < bar_cap c DEFAULT_TS_NUM DEFAULT_TS_DEN /\ (g | bar_cap c DEFAULT_TS_NUM DEFAULT_TS_DEN).
Proof.
  unfold valid_cfg. intros H.
  apply andb_prop in H; destruct H as [H H6]. apply andb_prop in H; destruct H as [H H5].
  apply andb_prop in H; destruct H as [H H4]. apply andb_prop in H; destruct H as [H H3].
  apply andb_prop in H; destruct H as [H1 H2].
  assert (Hg : 0 < g).
  { unfold grid_ok in H1. apply andb_prop in H1; destruct H1 as [H1 _]. apply andb_prop in H1; destruct H1 as [H1 _].
    apply andb_prop in H1; destruct H1 as [H1 _]. now apply Z.ltb_lt in H1. }
  repeat split; try assumption.
  - now apply Z.leb_le in H2.
  - intros b Hb. rewrite forallb_forall in H4. specialize (H4 _ Hb). now apply Z.leb_le in H4.
  - now apply Z.ltb_lt in H5.
  - now apply divb_true in H6.
Qed.

Definition ev_notes (c : cfg) (tr : Z) (e : event) : list msg :=
  let m := ev_msg e in
  match m_type m with
  | NOTE_ON =>
      if m_chan m =? tr
      then [mk_on 0 (m_note m) (nth (Z.to_nat (bin_velocity (m_vel m) (c_vbins c))) (c_vbins c) 0) (m_time m) false;
            mk_off 0 (m_note m) (p_off_time (snd e)) false]
      else []
  | _ => []
  end.

Definition cap_ok (c : cfg) (s : lstate) : Prop := l_total s = bar_cap c (l_num s) (l_den s).

Lemma tok_event_sound g c s k d e :
  valid_cfg g c = true -> lgood g s -> lk_match s k -> sim c s d -> ev_ok g c k e = true ->
  exists s' new d',
    tok_event c 0 s e = Ok s' /\ l_toks s' = l_toks s ++ new /\ Forall (in_vocab c) new /\
    lgood g s' /\ lk_match s' (fst (ref_step c k e)) /\ (cap_ok c s -> cap_ok c s') /\
    foldM (detok_step c) new d = Ok d' /\ sim c s' d' /\
    forall i, (i < length (d_seqs d))%nat ->
      Permutation (view (d_seqs d') i)
        ((ev_notes c (Z.of_nat i) e ++ caps_msgs (snd (ref_step c k e))) ++ view (d_seqs d) i).
Proof.
  intros Hc Hgood Hlk Hsim Hev.
  destruct (valid_cfg_parts g c Hc) as (Hgrid & Hg & Hnt & Hvmax & Hvpos & _ & _).
  unfold ev_ok in Hev. unfold tok_event, ref_step, ev_notes, ev_dur, ev_time, ev_msg in *.
  set (m := p_first (snd e)) in *. set (t := m_time m) in *. rewrite Z.add_0_r.
  apply andb_prop in Hev; destruct Hev as [Hev Hty]. apply andb_prop in Hev; destruct Hev as [Hle Hdv].
  apply Z.leb_le in Hle. apply (divb_true _ _ Hg) in Hdv.
  assert (Hlen0 : length (d_seqs d) = Z.to_nat (c_ntracks c)) by apply Hsim.
  destruct (rest_phase g c s k d t Hgrid Hgood Hlk Hsim Hle Hdv)
    as (s1 & new1 & d1 & Hr & Htoks & Hall & Hgood1 & Ht1 & Htb1 & Htot1 & Hhas1 & Hfr & Hdec & Hsim1 & Hview).
  rewrite Hr. cbn [rbind].
  assert (Hplain : exists s' new d',
    Ok s1 = Ok s' /\ l_toks s' = l_toks s ++ new /\ Forall (in_vocab c) new /\
    lgood g s' /\ lk_match s' (mkrc t (adv_tbar k t) (r_total k) (adv_has k t)) /\ (cap_ok c s -> cap_ok c s') /\
    foldM (detok_step c) new d = Ok d' /\ sim c s' d' /\
    forall i, (i < length (d_seqs d))%nat ->
      Permutation (view (d_seqs d') i) (([] ++ caps_msgs (adv_caps k t)) ++ view (d_seqs d) i)).
  { exists s1, new1, d1. repeat split; try assumption; try apply Hgood1; try apply Hsim1.
    unfold cap_ok. destruct Hfr as (F1 & F2 & F3 & _). now rewrite F1, F2, F3. }
  destruct (m_type m) eqn:Ety; cbn [fst snd]; try exact Hplain; clear Hplain.
  - (* TIME_SIGNATURE *)
    rewrite Htb1.
    destruct (0 <? adv_tbar k t) eqn:Etb.
    + exists s1, new1, d1. repeat split; try assumption; try apply Hgood1; try apply Hsim1.
      unfold cap_ok. destruct Hfr as (F1 & F2 & F3 & _). now rewrite F1, F2, F3.
    + cbn [orb] in Hty.
      apply andb_prop in Hty; destruct Hty as [Hty Hcd]. apply andb_prop in Hty; destruct Hty as [Hty Hcp].
      apply andb_prop in Hty; destruct Hty as [Hty Hrg]. apply andb_prop in Hty; destruct Hty as [Hden Hmod].
      apply Z.ltb_lt in Hden, Hcp. apply (divb_true _ _ Hg) in Hcd. unfold in_range, ts_scaled in Hrg.
      rewrite Hmod, Hrg. cbn [negb]. apply Z.eqb_eq in Hmod.
      apply andb_prop in Hrg; destruct Hrg as [Hlo Hhi]. apply Z.leb_le in Hlo, Hhi.
      destruct Hgood1 as [Hinv1 Hdt1]. destruct Hsim1 as (Hclk1 & Hrun1 & Hlen1).
      assert (Htb0 : l_tbar s1 = 0).
      { apply Z.ltb_ge in Etb. destruct Hinv1 as (_ & _ & H0 & _). lia. }
      assert (Hdtb : d_tbar d1 = 0) by (destruct Hclk1 as (_ & -> & _); exact Htb0).
      destruct (detok_tsg c d1 ((m_num m * DEFAULT_TS_DEN) / m_den m) Hdtb)
        as (d' & Hstep & D1 & D2 & D3 & D4 & Dfr & Dview).
      rewrite (bar_cap_scaled c _ _ Hden Hmod) in D3, D4.
      eexists _, (new1 ++ [TTsg ((m_num m * DEFAULT_TS_DEN) / m_den m) DEFAULT_TS_NUM]), d'.
      split; [reflexivity|]. cbn [l_toks l_time l_tbar l_num l_den l_total l_rem l_ptrk l_pval l_pvel l_has].
      split; [now rewrite Htoks, app_assoc|].
      split; [apply Forall_app; split; [exact Hall|constructor; [apply vocab_tsg; lia|constructor]]|].
      split.
      { split; [|exact Hdt1]. unfold linv. cbn [l_toks l_time l_tbar l_num l_den l_total l_rem].
        repeat split; try lia; assumption. }
      split; [unfold lk_match; cbn [l_time l_tbar l_total l_has r_time r_tbar r_total r_has]; repeat split; try assumption; lia|].
      split; [intros _; reflexivity|].
      split; [rewrite foldM_app, Hdec; cbn [rbind foldM]; rewrite Hstep; reflexivity|].
      split.
      { destruct Hclk1 as (C1 & C2 & C3 & C4). destruct Dfr as (G1 & G2 & G3 & G4). destruct Hrun1 as (R1 & R2 & R3).
        unfold sim, clk_eq, run_ok. cbn [l_time l_tbar l_total l_rem l_ptrk l_pval l_pvel].
        rewrite G1, G2, G3, G4. repeat split; try assumption; lia. }
      intros i Hi. eapply perm_trans; [apply Dview|]. now apply Hview.
  - (* NOTE_ON *)
    apply andb_prop in Hty; destruct Hty as [Hty Hvel]. apply andb_prop in Hty; destruct Hty as [Hty Hd0].
    apply andb_prop in Hty; destruct Hty as [Hty Hmem]. apply andb_prop in Hty; destruct Hty as [Hty Hpit].
    apply andb_prop in Hty; destruct Hty as [Hch0 Hch1].
    apply Z.leb_le in Hvel, Hd0, Hch0. apply Z.ltb_lt in Hch1.
    destruct (bin_ok _ _ Hvmax Hvel) as (vel & Hnth & Hvin). rewrite Hnth.
    unfold in_range in Hpit. rewrite Hpit, Hmem. cbn [negb].
    apply andb_prop in Hpit; destruct Hpit as [Hp0 Hp1]. apply Z.leb_le in Hp0, Hp1.
    destruct Hgood1 as [Hinv1 Hdt1]. destruct Hsim1 as (Hclk1 & (R1 & R2 & R3) & Hlen1).
    set (val := p_off_time (snd e) - t) in *.
    assert (Hlz : lenZ (d_seqs d1) = c_ntracks c) by (unfold lenZ; rewrite Hlen1; lia).
    pose proof (Hvpos _ Hvin) as Hv0.
    pose proof (note_tok_dec c s1 d1 (m_chan m) (m_note m) val vel R1 R2 R3 ltac:(lia) ltac:(lia) ltac:(lia)
                  ltac:(lia)) as Hnote.
    eexists _, (new1 ++ note_tok c s1 (m_chan m) (m_note m) val vel), _.
    split; [reflexivity|]. cbn [l_toks l_time l_tbar l_num l_den l_total l_rem l_ptrk l_pval l_pvel l_has].
    split; [now rewrite Htoks, app_assoc|].
    split.
    { apply Forall_app; split; [exact Hall|]. unfold note_tok.
      repeat (apply Forall_app; split).
      - destruct (c_ftrk c) eqn:Ef; cbn [negb andb]; [constructor|].
        destruct (_ || _); constructor; [apply vocab_trk; [assumption|lia]|constructor].
      - destruct (c_fval c) eqn:Ef; cbn [negb andb]; [constructor|].
        destruct (_ || _); constructor; [apply vocab_val; [assumption|now apply memZ_In]|constructor].
      - destruct (c_fvel c) eqn:Ef; cbn [negb andb]; [constructor|].
        destruct (_ || _); constructor; [apply vocab_vel; assumption|constructor].
      - constructor; [|constructor]. apply vocab_note; try lia; try assumption. now apply memZ_In. }
    split; [split; [exact Hinv1|exact Hdt1]|].
    split; [unfold lk_match; cbn [l_time l_tbar l_total l_has r_time r_tbar r_total r_has]; repeat split; assumption|].
    split.
    { unfold cap_ok. cbn [l_num l_den l_total]. destruct Hfr as (F1 & F2 & F3 & _). now rewrite F1, F2, F3. }
    split; [rewrite foldM_app, Hdec; cbn [rbind]; exact Hnote|].
    split.
    { destruct Hclk1 as (C1 & C2 & C3 & C4).
      unfold sim, clk_eq, run_ok.
      cbn [l_time l_tbar l_total l_rem l_ptrk l_pval l_pvel d_seqs d_time d_tbar d_total d_rem d_ptrk d_pval d_pvel].
      rewrite set_nth_length. repeat split; try assumption; now right. }
    intros i Hi. cbn [d_seqs].
    assert (Hdt : d_time d1 = t) by (destruct Hclk1 as (-> & _); exact Ht1).
    rewrite Hdt. replace (t + val) with (p_off_time (snd e)) by (unfold val; lia).
    rewrite (nth_error_nth _ _ 0 Hnth).
    destruct (m_chan m =? Z.of_nat i) eqn:Ei; [apply Z.eqb_eq in Ei | apply Z.eqb_neq in Ei].
    + assert (Z.to_nat (m_chan m) = i) by lia. subst i.
      destruct (nth_error (d_seqs d1) (Z.to_nat (m_chan m))) as [l|] eqn:El;
        [|apply nth_error_None in El; lia].
      rewrite (view_set_nth_same _ _ _ _ El).
      specialize (Hview _ Hi). unfold view in Hview at 1. rewrite El in Hview.
      eapply perm_trans; [apply filter_insort_rel; reflexivity|].
      eapply perm_trans; [apply perm_skip, filter_insort_rel; reflexivity|].
      eapply perm_trans; [apply perm_swap|]. cbn [app]. do 2 apply perm_skip. exact Hview.
    + rewrite view_set_nth_other by lia. cbn [app]. now apply Hview.
Qed.

(* ================================================================ the whole event list *)
Lemma sim_len c s d : sim c s d -> length (d_seqs d) = Z.to_nat (c_ntracks c).
Proof. intros H; apply H. Qed.

Lemma run_sound g c (Hc : valid_cfg g c = true) :
  forall evs s k d,
    lgood g s -> lk_match s k -> sim c s d -> valid_from g c k evs = true ->
    exists s' new d',
      foldM (tok_event c 0) evs s = Ok s' /\ l_toks s' = l_toks s ++ new /\ Forall (in_vocab c) new /\
      lgood g s' /\ lk_match s' (fst (ref_run c k evs)) /\ (cap_ok c s -> cap_ok c s') /\
      foldM (detok_step c) new d = Ok d' /\ sim c s' d' /\
      forall i, (i < length (d_seqs d))%nat ->
        Permutation (view (d_seqs d') i)
          ((flat_map (ev_notes c (Z.of_nat i)) evs ++ caps_msgs (snd (ref_run c k evs))) ++ view (d_seqs d) i).
Proof.
  induction evs as [|e evs IH]; intros s k d Hgood Hlk Hsim Hv.
  - exists s, [], d. cbn [foldM ref_run fst snd flat_map caps_msgs map app]. rewrite app_nil_r.
    split; [reflexivity|]. split; [reflexivity|]. split; [constructor|]. split; [exact Hgood|]. split; [exact Hlk|].
    split; [tauto|]. split; [reflexivity|]. split; [exact Hsim|]. intros; apply Permutation_refl.
  - cbn [valid_from] in Hv. apply andb_prop in Hv; destruct Hv as [Hev Hv].
    destruct (tok_event_sound g c s k d e Hc Hgood Hlk Hsim Hev)
      as (s1 & new1 & d1 & Hr1 & Ht1 & Ha1 & Hg1 & Hk1 & Hcap1 & Hd1 & Hs1 & Hv1).
    cbn [ref_run]. destruct (ref_step c k e) as [k1 a] eqn:Es. cbn [fst snd] in *.
    destruct (IH s1 k1 d1 Hg1 Hk1 Hs1 Hv)
      as (s2 & new2 & d2 & Hr2 & Ht2 & Ha2 & Hg2 & Hk2 & Hcap2 & Hd2 & Hs2 & Hv2).
    exists s2, (new1 ++ new2), d2. cbn [foldM flat_map]. rewrite Hr1. cbn [rbind].
    destruct (ref_run c k1 evs) as [k2 b] eqn:Er. cbn [fst snd] in *.
    split; [exact Hr2|]. split; [now rewrite Ht2, Ht1, app_assoc|].
    split; [apply Forall_app; split; assumption|]. split; [exact Hg2|]. split; [exact Hk2|].
    split; [tauto|]. split; [rewrite foldM_app, Hd1; exact Hd2|]. split; [exact Hs2|].
    intros i Hi.
    assert (Hi1 : (i < length (d_seqs d1))%nat) by (rewrite (sim_len _ _ _ Hs1), <- (sim_len _ _ _ Hsim); exact Hi).
    eapply perm_trans; [apply (Hv2 i Hi1)|].
    eapply perm_trans; [apply Permutation_app_head, (Hv1 i Hi)|].
    unfold caps_msgs. rewrite map_app. rewrite app_assoc. apply Permutation_app_tail.
    eapply perm_trans; [apply Permutation_app_comm|]. apply perm_4.
Qed.

(* ================================================================ the closing rest *)
Definition close (c : cfg) (s : lstate) : result lstate :=
  if ((0 <? l_tbar s) || l_has s) && (0 <? l_rem s) then apply_rest (rest_fuel (l_rem s)) c s (l_rem s) else Ok s.

Lemma close_sound g c s k d :
  grid_ok (c_steps c) g = true -> lgood g s -> lk_match s k -> sim c s d ->
  exists s' new d',
    close c s = Ok s' /\ l_toks s' = l_toks s ++ new /\ Forall (in_vocab c) new /\
    lgood g s' /\ lk_match s' (fst (ref_close k)) /\ l_tbar s' = 0 /\ l_has s' = false /\ lframe s s' /\
    foldM (detok_step c) new d = Ok d' /\ sim c s' d' /\
    forall i, (i < length (d_seqs d))%nat ->
      Permutation (view (d_seqs d') i) (caps_msgs (snd (ref_close k)) ++ view (d_seqs d) i).
Proof.
  intros Hg Hgood Hlk Hsim. unfold close, ref_close.
  destruct k as [kt ktb ktot khas]. unfold lk_match in Hlk. cbn [r_time r_tbar r_total r_has] in *.
  destruct Hlk as (E1 & E2 & E3 & E4). subst kt ktb ktot khas.
  pose proof Hgood as [Hinv Hdt]. pose proof Hinv as (Hr & Hsum & Htb & Hdr & Hdtot).
  replace (l_total s - l_tbar s) with (l_rem s) by lia.
  destruct (((0 <? l_tbar s) || l_has s) && (0 <? l_rem s)) eqn:Ec.
  - destruct Hsim as (Hclk & Hrun & Hlen).
    destruct (apply_rest_sound_fuel g c s (l_rem s) d Hg Hinv ltac:(lia) Hdr Hclk)
      as (s1 & new & d1 & Hr1 & Htoks & Hall & Htime & Htbar & Hinv1 & Hfr & Hhas & Hdec & Hclk1 & Hdfr & Hview).
    rewrite Hsum, Z_div_same_full, Z_mod_same_full in * by lia. change (0 <? 1) with true in Hhas.
    exists s1, new, d1. cbn [fst snd r_time r_tbar r_total r_has].
    split; [exact Hr1|]. split; [exact Htoks|].
    split; [eapply Forall_impl; [|exact Hall]; intros a; apply rest_tok_vocab|].
    split; [split; [exact Hinv1|rewrite Htime; apply Z.divide_add_r; assumption]|].
    split; [unfold lk_match; cbn [r_time r_tbar r_total r_has]; repeat split; try assumption; try lia; apply Hfr|].
    split; [exact Htbar|]. split; [exact Hhas|]. split; [exact Hfr|]. split; [exact Hdec|].
    split.
    { split; [exact Hclk1|]. destruct Hfr as (_ & _ & _ & F1 & F2 & F3). destruct Hdfr as (G1 & G2 & G3 & G4).
      split; [|now rewrite G4]. unfold run_ok. now rewrite F1, F2, F3, G1, G2, G3. }
    intros i Hi. replace (l_time s - l_tbar s + l_total s) with (l_time s + l_rem s) by lia.
    now apply Hview.
  - exists s, [], d. cbn [fst snd foldM caps_msgs map app]. rewrite app_nil_r.
    assert (l_tbar s = 0 /\ l_has s = false) as [Z0 H0].
    { destruct (0 <? l_rem s) eqn:E1; [|apply Z.ltb_ge in E1; lia]. rewrite andb_true_r in Ec.
      apply orb_false_elim in Ec. destruct Ec as [Ea Eb]. apply Z.ltb_ge in Ea. split; [lia|assumption]. }
    split; [reflexivity|]. split; [reflexivity|]. split; [constructor|]. split; [exact Hgood|].
    split; [unfold lk_match; cbn [r_time r_tbar r_total r_has]; tauto|].
    split; [exact Z0|]. split; [exact H0|]. split; [unfold lframe; tauto|]. split; [reflexivity|].
    split; [exact Hsim|]. intros; apply Permutation_refl.
Qed.

(* ================================================================ core = run + close, between tstates *)
Definition ls_of (c : cfg) (st : tstate) : lstate :=
  mkls [] (t_time st) (t_tbar st) (t_num st) (t_den st) (bar_cap c (t_num st) (t_den st)) (t_rem st)
       (t_ptrk st) (t_pval st) (t_pvel st) false.
Definition ts_of (s : lstate) : tstate :=
  mkts (l_time s) (l_tbar s) (l_num s) (l_den s) (l_rem s) (l_ptrk s) (l_pval s) (l_pvel s).

Lemma core_unfold c st evs :
  core c st evs =
  do s1 <- foldM (tok_event c (t_time st)) evs (ls_of c st); do s2 <- close c s1; Ok (l_toks s2, ts_of s2).
Proof. reflexivity. Qed.

(* all the expected bar ends of a call *)
Definition run_caps (c : cfg) (k : rclk) (evs : list event) : list Z :=
  snd (ref_run c k evs) ++ snd (ref_close (fst (ref_run c k evs))).
Definition run_end (c : cfg) (k : rclk) (evs : list event) : rclk := fst (ref_close (fst (ref_run c k evs))).

(* invariants of a carried tstate, phrased on the loop state it starts *)
Definition tgood (g : Z) (c : cfg) (st : tstate) : Prop := lgood g (ls_of c st).
Definition tsim (c : cfg) (st : tstate) (d : dstate) : Prop := sim c (ls_of c st) d.
Definition tk_match (c : cfg) (st : tstate) (k : rclk) : Prop := lk_match (ls_of c st) k.


(* ---- shifting events in time *)
Definition shift_msg (a : Z) (m : msg) : msg := set_time m (m_time m + a) (m_tf m).
Definition shift_ev (a : Z) (e : event) : event :=
  (fst e, ((fst (fst (snd e)), shift_msg a (snd (fst (snd e)))),
           option_map (fun jo : option nat * msg => (fst jo, shift_msg a (snd jo))) (snd (snd e)))).

Lemma p_first_shift a e : p_first (snd (shift_ev a e)) = shift_msg a (p_first (snd e)).
Proof. reflexivity. Qed.
Lemma p_off_shift a e : p_off_time (snd (shift_ev a e)) = p_off_time (snd e) + a.
Proof.
  unfold p_off_time, p_second, shift_ev. cbn [snd fst]. destruct (snd (snd e)) as [[j o]|]; reflexivity.
Qed.

Lemma tok_event_shift c sh a s e : tok_event c sh s (shift_ev a e) = tok_event c (sh + a) s e.
Proof.
  unfold tok_event. rewrite p_first_shift, p_off_shift. set (m := p_first (snd e)).
  unfold shift_msg. cbn [set_time m_time m_type m_vel m_note m_chan m_num m_den].
  replace (m_time m + a + sh) with (m_time m + (sh + a)) by lia.
  replace (p_off_time (snd e) + a - (m_time m + a)) with (p_off_time (snd e) - m_time m) by lia.
  reflexivity.
Qed.

Lemma foldM_shift c sh a evs : forall s,
  foldM (tok_event c sh) (map (shift_ev a) evs) s = foldM (tok_event c (sh + a)) evs s.
Proof.
  induction evs as [|e evs IH]; intros s; [reflexivity|]. cbn [map foldM]. rewrite tok_event_shift.
  destruct (tok_event c (sh + a) s e); cbn [rbind]; [apply IH|reflexivity].
Qed.

Lemma ls_ts c s :
  cap_ok c s ->
  ls_of c (ts_of s) = mkls [] (l_time s) (l_tbar s) (l_num s) (l_den s) (l_total s) (l_rem s)
                           (l_ptrk s) (l_pval s) (l_pvel s) false.
Proof. intros H. unfold ls_of, ts_of. cbn [t_time t_tbar t_num t_den t_rem t_ptrk t_pval t_pvel]. now rewrite <- H. Qed.

Lemma core_sound g c st k d evs :
  valid_cfg g c = true -> tgood g c st -> tk_match c st k -> tsim c st d ->
  valid_from g c k (map (shift_ev (t_time st)) evs) = true ->
  let evs' := map (shift_ev (t_time st)) evs in
  exists toks st' d',
    core c st evs = Ok (toks, st') /\ Forall (in_vocab c) toks /\
    tgood g c st' /\ tk_match c st' (run_end c k evs') /\ t_tbar st' = 0 /\
    foldM (detok_step c) toks d = Ok d' /\ tsim c st' d' /\
    forall i, (i < length (d_seqs d))%nat ->
      Permutation (view (d_seqs d') i)
        ((flat_map (ev_notes c (Z.of_nat i)) evs' ++ caps_msgs (run_caps c k evs')) ++ view (d_seqs d) i).
Proof.
  intros Hc Hgood Hlk Hsim Hv evs'. rewrite core_unfold.
  assert (E : foldM (tok_event c (t_time st)) evs (ls_of c st) = foldM (tok_event c 0) evs' (ls_of c st))
    by (unfold evs'; rewrite foldM_shift; reflexivity).
  rewrite E; clear E.
  destruct (valid_cfg_parts g c Hc) as (Hgrid & _).
  assert (Hcap0 : cap_ok c (ls_of c st)) by reflexivity.
  destruct (run_sound g c Hc evs' (ls_of c st) k d Hgood Hlk Hsim Hv)
    as (s1 & new1 & d1 & Hr1 & Ht1 & Ha1 & Hg1 & Hk1 & Hcap1 & Hd1 & Hs1 & Hv1).
  destruct (close_sound g c s1 _ d1 Hgrid Hg1 Hk1 Hs1)
    as (s2 & new2 & d2 & Hr2 & Ht2 & Ha2 & Hg2 & Hk2 & Htb2 & Hhas2 & Hfr2 & Hd2 & Hs2 & Hv2).
  rewrite Hr1. cbn [rbind]. rewrite Hr2. cbn [rbind].
  assert (Hcap2 : cap_ok c s2).
  { unfold cap_ok. destruct Hfr2 as (F1 & F2 & F3 & _). rewrite F1, F2, F3. apply Hcap1, Hcap0. }
  cbn [l_toks ls_of app] in Ht1.
  exists (l_toks s2), (ts_of s2), d2. unfold tgood, tsim, tk_match, run_end, run_caps. rewrite (ls_ts c s2 Hcap2).
  split; [reflexivity|]. split; [rewrite Ht2, Ht1; apply Forall_app; split; assumption|].
  split; [exact Hg2|].
  split; [unfold lk_match in *; cbn [l_time l_tbar l_total l_has]; rewrite <- Hhas2; exact Hk2|].
  split; [exact Htb2|]. split; [rewrite Ht2, Ht1, foldM_app, Hd1; exact Hd2|]. split; [exact Hs2|].
  intros i Hi.
  assert (Hi1 : (i < length (d_seqs d1))%nat) by (rewrite (sim_len _ _ _ Hs1), <- (sim_len _ _ _ Hsim); exact Hi).
  eapply perm_trans; [apply (Hv2 i Hi1)|].
  eapply perm_trans; [apply Permutation_app_head, (Hv1 i Hi)|].
  unfold caps_msgs. rewrite map_app. rewrite !app_assoc. apply Permutation_app_tail.
  eapply perm_trans; [|apply Permutation_app_comm]. rewrite <- app_assoc. apply Permutation_refl.
Qed.

(* ================================================================ the initial state *)
Lemma shift_ev_0 e : shift_ev 0 e = e.
Proof.
  destruct e as [ch [[i m] o]]. unfold shift_ev, shift_msg, set_time. cbn [fst snd].
  destruct m as [a1 a2 a3 a4 a5 a6 a7 a8 a9 a10 a11]; cbn [m_type m_chan m_time m_tf m_note m_vel m_ctrl m_prog m_num m_den m_key]. rewrite Z.add_0_r.
  destruct o as [[j o]|]; cbn [option_map fst snd]; [|reflexivity].
  destruct o as [b1 b2 b3 b4 b5 b6 b7 b8 b9 b10 b11]; cbn [m_type m_chan m_time m_tf m_note m_vel m_ctrl m_prog m_num m_den m_key]. now rewrite Z.add_0_r.
Qed.
Lemma map_shift_0 evs : map (shift_ev 0) evs = evs.
Proof. induction evs as [|e evs IH]; [reflexivity|]. cbn [map]. now rewrite shift_ev_0, IH. Qed.

Lemma init_good g c : valid_cfg g c = true -> tgood g c (tstate0 c).
Proof.
  intros Hc. destruct (valid_cfg_parts g c Hc) as (_ & Hg & _ & _ & _ & Hp & Hd).
  unfold tgood, lgood, linv, ls_of, tstate0.
  cbn [l_time l_tbar l_total l_rem t_time t_tbar t_num t_den t_rem].
  repeat split; try lia; try assumption. apply Z.divide_0_r.
Qed.
Lemma init_match c : tk_match c (tstate0 c) (rclk0 c).
Proof. unfold tk_match, lk_match. cbn. tauto. Qed.
Lemma init_sim c : tsim c (tstate0 c) (dstate0 c).
Proof.
  unfold tsim, sim, clk_eq, run_ok, ls_of, tstate0, dstate0.
  cbn [l_time l_tbar l_total l_rem l_ptrk l_pval l_pvel t_time t_tbar t_num t_den t_rem t_ptrk t_pval t_pvel
       d_seqs d_time d_tbar d_total d_rem d_ptrk d_pval d_pvel].
  repeat split; try (left; reflexivity).
  rewrite map_length. unfold rangeZ. rewrite rangeZ_aux_length. f_equal. lia.
Qed.
Lemma view_init c i : view (d_seqs (dstate0 c)) i = [].
Proof.
  unfold view, dstate0. cbn [d_seqs]. destruct (nth_error _ i) as [l|] eqn:E; [|reflexivity].
  apply nth_error_In in E. apply in_map_iff in E. destruct E as (x & <- & _). reflexivity.
Qed.
Lemma view_nth seqs i : (i < length seqs)%nat -> view seqs i = filter rel (nth i seqs []).
Proof. intros H. unfold view. now rewrite (nth_error_nth' seqs [] H). Qed.

(* what the decoder must have inserted into track i: the notes of channel i and the bar caps *)
Definition exp_track (c : cfg) (evs : list event) (i : nat) : list msg :=
  flat_map (ev_notes c (Z.of_nat i)) evs ++ caps_msgs (run_caps c (rclk0 c) evs).

Theorem C01_core_accepts g c evs :
  valid_cfg g c = true -> valid_events g c evs = true ->
  exists s1, foldM (tok_event c 0) evs
               (mkls [] 0 0 DEFAULT_TS_NUM DEFAULT_TS_DEN (bar_cap c DEFAULT_TS_NUM DEFAULT_TS_DEN)
                     (bar_cap c DEFAULT_TS_NUM DEFAULT_TS_DEN) (-1) (-1) (-1) false) = Ok s1.
Proof.
  intros Hc Hv.
  destruct (run_sound g c Hc evs (ls_of c (tstate0 c)) (rclk0 c) (dstate0 c) (init_good g c Hc) (init_match c)
              (init_sim c) Hv) as (s1 & _ & _ & H & _).
  exists s1. exact H.
Qed.

Theorem C01_core_roundtrip g c evs :
  valid_cfg g c = true -> valid_events g c evs = true ->
  exists toks st seqs,
    core c (tstate0 c) evs = Ok (toks, st) /\ Forall (in_vocab c) toks /\
    t_time st = r_time (run_end c (rclk0 c) evs) /\ t_tbar st = 0 /\
    detokenise c toks = Ok seqs /\ length seqs = Z.to_nat (c_ntracks c) /\
    forall i, (i < length seqs)%nat -> Permutation (filter rel (nth i seqs [])) (exp_track c evs i).
Proof.
  intros Hc Hv.
  assert (Hv' : valid_from g c (rclk0 c) (map (shift_ev (t_time (tstate0 c))) evs) = true)
    by (cbn [tstate0 t_time]; rewrite map_shift_0; exact Hv).
  destruct (core_sound g c (tstate0 c) (rclk0 c) (dstate0 c) evs Hc (init_good g c Hc) (init_match c) (init_sim c) Hv')
    as (toks & st & d' & Hcore & Hvoc & Hgood & Hk & Htb & Hdec & Hsim & Hview).
  cbn [tstate0 t_time] in Hk, Hview. rewrite map_shift_0 in Hk, Hview.
  exists toks, st, (d_seqs d'). split; [exact Hcore|]. split; [exact Hvoc|].
  split; [apply Hk|]. split; [exact Htb|].
  split; [unfold detokenise; rewrite Hdec; reflexivity|].
  pose proof (sim_len _ _ _ Hsim) as Hlen. split; [exact Hlen|].
  intros i Hi. rewrite <- (view_nth _ _ Hi).
  assert (Hi0 : (i < length (d_seqs (dstate0 c)))%nat) by (rewrite (sim_len _ _ _ (init_sim c)), <- Hlen; exact Hi).
  specialize (Hview i Hi0). rewrite view_init, app_nil_r in Hview. exact Hview.
Qed.

(* ================================================================ encode / decode *)
Lemma oZ_eqb_eq a b : oZ_eqb a b = true -> a = b.
Proof. destruct a, b; cbn; try discriminate; [|reflexivity]. intros H. apply Z.eqb_eq in H. now subst. Qed.
Lemma oZ_eqb_refl a : oZ_eqb a a = true.
Proof. destruct a; cbn; [apply Z.eqb_refl|reflexivity]. Qed.
Lemma tok_eqb_eq a b : tok_eqb a b = true -> a = b.
Proof.
  destruct a, b; cbn [tok_eqb]; try discriminate; try reflexivity; intros H.
  1-4: apply Z.eqb_eq in H; now subst.
  - apply andb_prop in H; destruct H as [H H4]. apply andb_prop in H; destruct H as [H H3].
    apply andb_prop in H; destruct H as [H1 H2].
    apply oZ_eqb_eq in H1, H3, H4. apply Z.eqb_eq in H2. now subst.
  - apply andb_prop in H; destruct H as [H1 H2]. apply Z.eqb_eq in H1, H2. now subst.
Qed.
Lemma tok_eqb_refl a : tok_eqb a a = true.
Proof. destruct a; cbn [tok_eqb]; rewrite ?Z.eqb_refl, ?oZ_eqb_refl; reflexivity. Qed.

Lemma last_index_spec t : forall l i found r,
  last_index_aux t l i found = Some r ->
  found = Some r \/ (i <= r /\ nth_error l (Z.to_nat (r - i)) = Some t).
Proof.
  induction l as [|x l IH]; intros i found r H; cbn [last_index_aux] in H; [now left|].
  destruct (IH _ _ _ H) as [E|(Hle & Hn)].
  - destruct (tok_eqb t x) eqn:Ex; [|now left]. inversion E; subst r. right. split; [lia|].
    rewrite Z.sub_diag. cbn. apply tok_eqb_eq in Ex. now subst.
  - right. split; [lia|]. replace (Z.to_nat (r - i)) with (S (Z.to_nat (r - (i + 1)))) by lia. exact Hn.
Qed.

Lemma last_index_some t : forall l i j, exists r, last_index_aux t l i (Some j) = Some r.
Proof.
  induction l as [|x l IH]; intros i j; cbn [last_index_aux]; [now exists j|].
  destruct (tok_eqb t x); apply IH.
Qed.
Lemma last_index_in t : forall l i found, In t l -> exists r, last_index_aux t l i found = Some r.
Proof.
  induction l as [|x l IH]; intros i found Hin; [destruct Hin|]. cbn [last_index_aux].
  destruct Hin as [->|Hin]; [rewrite tok_eqb_refl; apply last_index_some|now apply IH].
Qed.

Lemma decode1_encode1 c t i : encode1 c t = Ok i -> decode1 c i = Ok t.
Proof.
  unfold encode1. destruct (last_index_aux t (vocab c) 0 None) as [r|] eqn:E; [|discriminate].
  intros H; inversion H; subst r. destruct (last_index_spec _ _ _ _ _ E) as [?|(Hle & Hn)]; [discriminate|].
  unfold decode1. destruct (i <? 0) eqn:E0; [apply Z.ltb_lt in E0; lia|].
  rewrite Z.sub_0_r in Hn. rewrite Hn. unfold encode1. rewrite E, Z.eqb_refl. reflexivity.
Qed.

Theorem C01_encode_decode c ts ids : encode c ts = Ok ids -> decode c ids = Ok ts.
Proof.
  unfold encode, decode. revert ids. induction ts as [|t ts IH]; intros ids H; cbn [mapM] in H.
  - inversion H. reflexivity.
  - destruct (encode1 c t) as [i|] eqn:E1; cbn [rbind] in H; [|discriminate].
    destruct (mapM (encode1 c) ts) as [is_|] eqn:E2; cbn [rbind] in H; [|discriminate].
    inversion H; subst ids. cbn [mapM]. rewrite (decode1_encode1 _ _ _ E1). cbn [rbind].
    rewrite (IH _ eq_refl). reflexivity.
Qed.

Lemma encode_total c ts : Forall (in_vocab c) ts -> exists ids, encode c ts = Ok ids.
Proof.
  unfold encode. induction 1 as [|t ts Ht _ IH]; [now exists []|].
  destruct IH as (ids & E). destruct (last_index_in t (vocab c) 0 None Ht) as (r & Er).
  exists (r :: ids). cbn [mapM]. unfold encode1 at 1. rewrite Er. cbn [rbind]. rewrite E. reflexivity.
Qed.

(* the whole core pipeline: tokens, ids, tokens again, sequences *)
Theorem C01_core_pipeline g c evs :
  valid_cfg g c = true -> valid_events g c evs = true ->
  exists toks st ids seqs,
    core c (tstate0 c) evs = Ok (toks, st) /\ encode c toks = Ok ids /\ decode c ids = Ok toks /\
    detokenise c toks = Ok seqs /\ length seqs = Z.to_nat (c_ntracks c) /\
    forall i, (i < length seqs)%nat -> Permutation (filter rel (nth i seqs [])) (exp_track c evs i).
Proof.
  intros Hc Hv. destruct (C01_core_roundtrip g c evs Hc Hv) as (toks & st & seqs & H1 & H2 & _ & _ & H3 & H4 & H5).
  destruct (encode_total c toks H2) as (ids & He).
  exists toks, st, ids, seqs. repeat split; try assumption. now apply C01_encode_decode.
Qed.

(* ---- the notes of the expected track content, stated without the clock *)
Lemma exp_track_notes c evs i :
  filter is_note (exp_track c evs i) = flat_map (ev_notes c (Z.of_nat i)) evs.
Proof.
  unfold exp_track. rewrite filter_app.
  assert (H1 : forall l, filter is_note (caps_msgs l) = []) by (induction l; [reflexivity|assumption]).
  rewrite H1, app_nil_r. induction evs as [|e evs IH]; [reflexivity|]. cbn [flat_map]. rewrite filter_app, IH.
  f_equal. unfold ev_notes. destruct (m_type (ev_msg e)); try reflexivity. destruct (_ =? _); reflexivity.
Qed.

(* ================================================================ non-vacuity *)
Example ex_valid : valid_cfg 2 cfg_ex = true /\ valid_events 2 cfg_ex evs_ex = true.
Proof. vm_compute. split; reflexivity. Qed.
Example ex_caps : run_caps cfg_ex (rclk0 cfg_ex) evs_ex = [96; 168; 240].
Proof. vm_compute. reflexivity. Qed.
Example ex_rest_hyps :
  let s := mkls [] 10 10 8 8 96 86 (-1) (-1) (-1) false in
  grid_ok (c_steps cfg_ex) 2 = true /\ linv 2 s /\ (2 | 30) /\
  clk_eq s (mkds [[]; []] 10 10 8 8 96 86 0 24 127).
Proof.
  cbv zeta. split; [vm_compute; reflexivity|]. unfold linv, clk_eq. cbn.
  repeat split; try lia; [exists 43|exists 48|exists 15]; reflexivity.
Qed.

(* ---- the rest lemma in self-contained form *)
Theorem C01_rest_sound (g : Z) (c : cfg) (s : lstate) (buf : Z) (d : dstate) :
  grid_ok (c_steps c) g = true ->
  0 < l_rem s -> l_tbar s + l_rem s = l_total s -> 0 <= l_tbar s -> (g | l_rem s) -> (g | l_total s) ->
  0 <= buf -> (g | buf) ->
  d_time d = l_time s -> d_tbar d = l_tbar s -> d_total d = l_total s -> d_rem d = l_rem s ->
  exists s' new d',
    apply_rest (rest_fuel buf) c s buf = Ok s' /\ l_toks s' = l_toks s ++ new /\
    Forall (fun t => t = TBar \/ exists v, t = TRest v /\ In v (c_steps c)) new /\
    l_time s' = l_time s + buf /\ l_tbar s' = (l_tbar s + buf) mod l_total s /\
    (0 < l_rem s' /\ l_tbar s' + l_rem s' = l_total s' /\ 0 <= l_tbar s' /\ (g | l_rem s') /\ (g | l_total s')) /\
    l_total s' = l_total s /\
    foldM (detok_step c) new d = Ok d' /\
    (d_time d' = l_time s' /\ d_tbar d' = l_tbar s' /\ d_total d' = l_total s' /\ d_rem d' = l_rem s') /\
    length (d_seqs d') = length (d_seqs d) /\
    forall i, (i < length (d_seqs d))%nat ->
      Permutation (filter rel (nth i (d_seqs d') []))
        (map (mk_internal 0) (ends (Z.to_nat ((l_tbar s + buf) / l_total s)) (l_time s + l_rem s) (l_total s))
         ++ filter rel (nth i (d_seqs d) [])).
Proof.
  intros Hg A1 A2 A3 A4 A5 Hb Hdb C1 C2 C3 C4.
  destruct (apply_rest_sound_fuel g c s buf d Hg (conj A1 (conj A2 (conj A3 (conj A4 A5)))) Hb Hdb
              (conj C1 (conj C2 (conj C3 C4))))
    as (s' & new & d' & H1 & H2 & H3 & H4 & H5 & H6 & H7 & _ & H9 & H10 & H11 & H12).
  exists s', new, d'. destruct H11 as (_ & _ & _ & Hlen).
  repeat split; try assumption; try apply H6; try apply H7; try apply H10.
  intros i Hi. rewrite <- !view_nth by (rewrite ?Hlen; exact Hi). now apply H12.
Qed.

Example ex_rest_run :
  exists s', apply_rest (rest_fuel 100) cfg_ex (mkls [] 10 10 8 8 96 86 (-1) (-1) (-1) false) 100 = Ok s' /\
             l_toks s' = [TRest 24; TRest 24; TRest 24; TRest 12; TRest 2; TBar; TRest 12; TRest 2].
Proof. eexists. vm_compute. split; reflexivity. Qed.

(* ================================================================ the decoder keeps every track time-ordered *)
Fixpoint time_sorted (l : list msg) : bool :=
  match l with
  | [] => true
  | x :: r => match r with [] => true | y :: _ => (m_time x <=? m_time y) && time_sorted r end
  end.

Lemma insort_sorted x : forall l, time_sorted l = true -> time_sorted (insort x l) = true.
Proof.
  induction l as [|y l IH]; intros H; [reflexivity|]. cbn [insort].
  destruct (m_time x <? m_time y) eqn:E; [apply Z.ltb_lt in E | apply Z.ltb_ge in E].
  - cbn [time_sorted] in *. rewrite H, andb_true_r. apply Z.leb_le. lia.
  - destruct l as [|z l].
    + cbn [insort time_sorted]. rewrite andb_true_r. apply Z.leb_le. lia.
    + cbn [time_sorted] in H. apply andb_prop in H; destruct H as [H1 H2]. specialize (IH H2).
      cbn [insort] in *. destruct (m_time x <? m_time z).
      * change (time_sorted (y :: x :: z :: l)) with ((m_time y <=? m_time x) && time_sorted (x :: z :: l)).
        rewrite IH, andb_true_r. apply Z.leb_le. lia.
      * change (time_sorted (y :: z :: insort x l)) with ((m_time y <=? m_time z) && time_sorted (z :: insort x l)).
        now rewrite IH, H1.
Qed.

Lemma Forall_set_nth {A} (P : A -> Prop) (f : A -> A) : forall l n,
  (forall a, P a -> P (f a)) -> Forall P l -> Forall P (set_nth n f l).
Proof.
  induction l as [|x l IH]; intros n Hf H; [destruct n; constructor|]. inversion H; subst.
  destruct n; cbn [set_nth]; constructor; auto.
Qed.

Lemma detok_step_sorted c d t d' :
  detok_step c d t = Ok d' -> Forall (fun l => time_sorted l = true) (d_seqs d) ->
  Forall (fun l => time_sorted l = true) (d_seqs d').
Proof.
  intros H Hs. destruct t; cbn [detok_step] in H.
  1-3, 5-8: inversion H; subst; cbn [d_seqs set_clock]; try exact Hs.
  - inversion H; subst; cbn [d_seqs set_clock]. apply Forall_map. eapply Forall_impl; [|exact Hs].
    intros a Ha. now apply insort_sorted.
  - destruct (py_index _ _) as [i|]; [|discriminate]. inversion H; subst; cbn [d_seqs].
    apply Forall_set_nth; [|exact Hs]. intros a Ha. now apply insort_sorted, insort_sorted.
  - destruct (0 <? d_tbar d); [inversion H; subst; exact Hs|]. destruct (d0 =? 0); [discriminate|].
    destruct (c_simplify c && _ && _); destruct (negb _ || _); inversion H; subst; cbn [d_seqs set_clock];
      try exact Hs; (destruct (d_seqs d) as [|a r]; [constructor|]; inversion Hs; subst; constructor;
                     [now apply insort_sorted|assumption]).
Qed.

Theorem C01_detok_sorted c toks seqs :
  detokenise c toks = Ok seqs -> Forall (fun l => time_sorted l = true) seqs.
Proof.
  unfold detokenise. intros H.
  destruct (foldM (detok_step c) toks (dstate0 c)) as [d|] eqn:E; cbn [rbind] in H; [|discriminate].
  inversion H; subst seqs. clear H.
  assert (H0 : Forall (fun l => time_sorted l = true) (d_seqs (dstate0 c))).
  { unfold dstate0. cbn [d_seqs]. apply Forall_map. apply Forall_forall. reflexivity. }
  revert E H0. generalize (dstate0 c). induction toks as [|t toks IH]; intros d0 E H0; cbn [foldM] in E.
  - inversion E; subst. exact H0.
  - destruct (detok_step c d0 t) as [d1|] eqn:E1; cbn [rbind] in E; [|discriminate].
    apply (IH d1 E). eapply detok_step_sorted; eassumption.
Qed.

Example ex_encode : exists ids, encode cfg_ex [TBar; TRest 2; TNote (Some 1) 60 None (Some 127)] = Ok ids.
Proof. eexists. vm_compute. reflexivity. Qed.
Example ex_detok : exists seqs, detokenise cfg_ex [TVal 24; TNote (Some 0) 60 None (Some 112); TRest 24] = Ok seqs.
Proof. eexists. vm_compute. reflexivity. Qed.
