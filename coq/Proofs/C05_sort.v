(* C05_sort -- sort_abs is a stable sort: it sorts by key_le and commutes with filter. *)
From Coq Require Import ZArith List Bool Lia Permutation.
From Model Require Import Base Seq.
From Proofs Require Import C05_closest.
Import ListNotations.
Open Scope Z_scope.

Lemma key_le_iff a b :
  key_le a b = true <->
  (m_time a < m_time b \/ (m_time a = m_time b /\
   (m_chan a < m_chan b \/ (m_chan a = m_chan b /\
    (mtype_rank (m_type a) < mtype_rank (m_type b) \/ (mtype_rank (m_type a) = mtype_rank (m_type b) /\
     m_note a <= m_note b)))))).
Proof.
  unfold key_le.
  destruct (Z.ltb_spec (m_time a) (m_time b)); [split; [lia|reflexivity]|].
  destruct (Z.ltb_spec (m_time b) (m_time a)); [split; [discriminate|lia]|].
  destruct (Z.ltb_spec (m_chan a) (m_chan b)); [split; [lia|reflexivity]|].
  destruct (Z.ltb_spec (m_chan b) (m_chan a)); [split; [discriminate|lia]|].
  destruct (Z.ltb_spec (mtype_rank (m_type a)) (mtype_rank (m_type b))); [split; [lia|reflexivity]|].
  destruct (Z.ltb_spec (mtype_rank (m_type b)) (mtype_rank (m_type a))); [split; [discriminate|lia]|].
  rewrite Z.leb_le. lia.
Qed.

Lemma key_le_total a b : key_le a b = false -> key_le b a = true.
Proof.
  intros H. apply not_true_iff_false in H. rewrite key_le_iff in H. apply key_le_iff. lia.
Qed.

Lemma key_le_trans a b c : key_le a b = true -> key_le b c = true -> key_le a c = true.
Proof. rewrite !key_le_iff. lia. Qed.

Lemma key_le_time a b : key_le a b = true -> m_time a <= m_time b.
Proof. rewrite key_le_iff. lia. Qed.

Fixpoint sortedK (l : list msg) : Prop :=
  match l with
  | [] => True
  | x :: l' => (forall z, In z l' -> key_le x z = true) /\ sortedK l'
  end.

Lemma ins_sorted_in x l z : In z (ins_sorted x l) -> z = x \/ In z l.
Proof.
  intros H. apply (Permutation_in _ (ins_sorted_perm x l)) in H. destruct H; auto.
Qed.

Lemma ins_sorted_sorted x l : sortedK l -> sortedK (ins_sorted x l).
Proof.
  induction l as [|y l IH]; cbn [ins_sorted sortedK].
  - intros _. split; [intros z []|exact I].
  - intros [Hy Hl]. destruct (key_le x y) eqn:E; cbn [sortedK].
    + split; [|split; assumption]. intros z [<-|Hz]; [exact E|]. eapply key_le_trans; [exact E|auto].
    + split; [|auto]. intros z Hz. apply ins_sorted_in in Hz. destruct Hz as [->|Hz]; [|auto].
      now apply key_le_total.
Qed.

Lemma sort_abs_sorted l : sortedK (sort_abs l).
Proof. induction l as [|x l IH]; cbn [sort_abs]; [exact I|now apply ins_sorted_sorted]. Qed.

Lemma ins_sorted_front x l : (forall z, In z l -> key_le x z = true) -> ins_sorted x l = x :: l.
Proof. destruct l as [|y l]; cbn [ins_sorted]; [reflexivity|]. intros H. now rewrite (H y) by now left. Qed.

Lemma sort_abs_id l : sortedK l -> sort_abs l = l.
Proof.
  induction l as [|x l IH]; cbn [sort_abs sortedK]; [reflexivity|].
  intros [Hx Hl]. rewrite IH by exact Hl. now apply ins_sorted_front.
Qed.

Lemma filter_ins_sorted (p : msg -> bool) x l : sortedK l ->
  filter p (ins_sorted x l) = if p x then ins_sorted x (filter p l) else filter p l.
Proof.
  induction l as [|y l IH]; cbn [ins_sorted sortedK].
  - intros _. cbn [filter]. now destruct (p x).
  - intros [Hy Hl]. destruct (key_le x y) eqn:E.
    + cbn [filter]. destruct (p x) eqn:Px; [|reflexivity].
      symmetry. apply ins_sorted_front. intros z Hz.
      assert (Hz' : In z (y :: l)).
      { change (if p y then y :: filter p l else filter p l) with (filter p (y :: l)) in Hz.
        apply filter_In in Hz. tauto. }
      destruct Hz' as [<-|Hz']; [exact E|]. eapply key_le_trans; [exact E|auto].
    + cbn [filter]. rewrite (IH Hl). destruct (p y), (p x); cbn [ins_sorted]; try rewrite E; reflexivity.
Qed.

(* stability: filtering commutes with sorting *)
Lemma filter_sort_abs (p : msg -> bool) l : filter p (sort_abs l) = sort_abs (filter p l).
Proof.
  induction l as [|x l IH]; cbn [sort_abs filter]; [reflexivity|].
  rewrite filter_ins_sorted by apply sort_abs_sorted. rewrite IH.
  now destruct (p x).
Qed.

