(* C01 (front end), part 3 -- `pairings_sorted TOK_TYPES` on a time-sorted list whose notes alternate per
   (channel, pitch) key, and `interleave` of per-channel lists that are sorted by time. *)
From Coq Require Import ZArith List Bool Lia Permutation Sorted.
From Model Require Import Base Util Seq Pairing Tok.
From Proofs Require Import C04_sort C04_proofs C05_closest C07_proofs C01_frontend_sig.
Import ListNotations.
Open Scope Z_scope.

(* ================================================================ pairing up an alternating list *)
Definition spair : Set := (msg * option msg)%type.
Definition strip (p : pairing) : spair := (p_first p, p_second p).

Fixpoint cpairs (o : option msg) (L : list msg) : list spair :=
  match L with
  | [] => []
  | m :: L' => match o with None => cpairs (Some m) L' | Some on => (on, Some m) :: cpairs None L' end
  end.
Fixpoint popen (o : option msg) (L : list msg) : option msg :=
  match L with
  | [] => o
  | m :: L' => match o with None => popen (Some m) L' | Some _ => popen None L' end
  end.
Definition pairs_from (o : option msg) (L : list msg) : list spair :=
  cpairs o L ++ match popen o L with Some on => [(on, None)] | None => [] end.

Lemma cpairs_snoc L : forall o m,
  cpairs o (L ++ [m]) = cpairs o L ++ match popen o L with Some on => [(on, Some m)] | None => [] end.
Proof.
  induction L as [|x L IH]; intros o m; cbn [app cpairs popen].
  - destruct o; reflexivity.
  - destruct o; rewrite IH; reflexivity.
Qed.
Lemma popen_snoc L : forall o m,
  popen o (L ++ [m]) = match popen o L with Some _ => None | None => Some m end.
Proof.
  induction L as [|x L IH]; intros o m; cbn [app popen].
  - destruct o; reflexivity.
  - destruct o; apply IH.
Qed.
Lemma cpairs_closed o L sp : In sp (cpairs o L) -> exists off, snd sp = Some off.
Proof.
  revert o. induction L as [|m L IH]; intros o; cbn [cpairs]; [intros []|].
  destruct o as [x|]; [intros [<-|H]; [now exists m|eauto]|eauto].
Qed.

Definition is_some {A} (o : option A) : bool := match o with Some _ => true | None => false end.

Lemma nkey_false_alt k m : nkey k m = false -> is_key k m && is_on m = false /\ is_key k m && is_off m = false.
Proof.
  unfold nkey, is_key, is_note. destruct (k2_eqb k (m_chan m, m_note m)); cbn [andb]; [|auto].
  rewrite andb_true_r. intros H. apply orb_false_iff in H. exact H.
Qed.

Lemma alt_run_popen k l : forall o b o', alt_run k o l = Some b -> is_some o' = o -> is_some (popen o' (kp k l)) = b.
Proof.
  induction l as [|m l IH]; intros o b o' Hr Ho; cbn [alt_run kp filter popen] in *.
  - injection Hr as <-. exact Ho.
  - fold (kp k l). destruct (is_key k m && is_on m) eqn:E1.
    + apply andb_prop in E1. destruct E1 as [Ek Eon].
      assert (nkey k m = true) as -> by (unfold nkey; unfold is_key in Ek; now rewrite Ek, (on_is_note m Eon)).
      destruct o; [discriminate|]. destruct o'; [discriminate|]. cbn [popen]. now apply IH with true.
    + destruct (is_key k m && is_off m) eqn:E2.
      * apply andb_prop in E2. destruct E2 as [Ek Eoff].
        assert (nkey k m = true) as -> by (unfold nkey; unfold is_key in Ek; now rewrite Ek, (off_is_note m Eoff)).
        destruct o; [|discriminate]. destruct o'; [|discriminate]. cbn [popen]. now apply IH with false.
      * assert (nkey k m = false) as ->.
        { unfold nkey, is_note. unfold is_key in E1, E2. destruct (k2_eqb k (m_chan m, m_note m)); [|apply andb_false_r].
          cbn [andb] in E1, E2. now rewrite E1, E2. }
        now apply IH with o.
Qed.

Lemma alt_run_snoc_other k pre m : nkey k m = false -> alt_run k false (pre ++ [m]) = alt_run k false pre.
Proof.
  intros H. destruct (nkey_false_alt k m H) as [H1 H2]. rewrite alt_run_app.
  destruct (alt_run k false pre) as [o|]; [|reflexivity]. now apply alt_run_other.
Qed.

Lemma kp_snoc k l m : kp k (l ++ [m]) = kp k l ++ (if nkey k m then [m] else []).
Proof. unfold kp. rewrite filter_app. cbn [filter]. now destruct (nkey k m). Qed.

(* ================================================================ index of the last element satisfying q *)
Fixpoint last_idx {A} (q : A -> bool) (l : list A) : option nat :=
  match l with
  | [] => None
  | x :: l' => match last_idx q l' with Some i => Some (S i) | None => if q x then Some O else None end
  end.
Lemma last_idx_none {A} (q : A -> bool) l : last_idx q l = None -> filter q l = [].
Proof.
  induction l as [|x l IH]; cbn [last_idx filter]; [reflexivity|].
  destruct (last_idx q l); [discriminate|]. destruct (q x); [discriminate|]. auto.
Qed.
Lemma last_idx_split {A} (q : A -> bool) l idx : last_idx q l = Some idx ->
  exists a p b, l = a ++ p :: b /\ length a = idx /\ q p = true /\ filter q b = [].
Proof.
  revert idx. induction l as [|x l IH]; intros idx; cbn [last_idx]; [discriminate|].
  destruct (last_idx q l) as [i|] eqn:E.
  - intros [= <-]. destruct (IH i eq_refl) as (a & p & b & -> & Hl & Hq & Hb).
    exists (x :: a), p, b. cbn [length app]. repeat split; auto.
  - destruct (q x) eqn:Q; [|discriminate]. intros [= <-].
    exists [], x, l. repeat split; auto. now apply last_idx_none.
Qed.
Lemma last_idx_snoc {A} (q : A -> bool) l x :
  last_idx q (l ++ [x]) = if q x then Some (length l) else last_idx q l.
Proof.
  induction l as [|y l IH]; cbn [app last_idx length].
  - now destruct (q x).
  - rewrite IH. destruct (q x); reflexivity.
Qed.
Lemma last_idx_set_nth {A} (q : A -> bool) (f : A -> A) : (forall x, q (f x) = q x) ->
  forall l n, last_idx q (set_nth n f l) = last_idx q l.
Proof.
  intros Hf. induction l as [|x l IH]; intros n; destruct n; cbn [set_nth last_idx]; try reflexivity.
  - now rewrite Hf.
  - now rewrite IH.
Qed.
Lemma set_nth_split {A} (f : A -> A) a p b : set_nth (length a) f (a ++ p :: b) = a ++ f p :: b.
Proof. induction a as [|x a IH]; cbn [length app set_nth]; [reflexivity|now rewrite IH]. Qed.
Lemma map_set_nth {A B} (g : A -> B) (f : A -> A) : (forall x, g (f x) = g x) ->
  forall l n, map g (set_nth n f l) = map g l.
Proof.
  intros H. induction l as [|x l IH]; intros n; destruct n; cbn [set_nth map]; try reflexivity.
  - now rewrite H.
  - now rewrite IH.
Qed.

(* ================================================================ the invariant of the pairing loop *)
Definition chan_of (ch : Z) (st : list (Z * chst)) : chst :=
  match dget Z.eqb ch st with Some c => c | None => mkch [] [] end.
(* a pairing whose first message is a NOTE_ON of pitch n *)
Definition onpitch (n : Z) (p : pairing) : bool := is_on (p_first p) && (m_note (p_first p) =? n).
(* first messages: NOTE_ON, TIME_SIGNATURE or INTERNAL *)
Definition ftype (m : msg) : bool := is_on m || is_ts m || is_internal m.
Definition pgood (pre : list msg) (ch : Z) (p : pairing) : Prop :=
  m_chan (p_first p) = ch /\ In (p_first p) pre /\ ftype (p_first p) = true.
Definition mle (a b : msg) : Prop := m_time a <= m_time b.

Definition KI (k : k2) (pre : list msg) (cs : chst) : Prop :=
  map strip (filter (onpitch (snd k)) (c_pairs cs)) = pairs_from None (kp k pre) /\
  match dget Z.eqb (snd k) (c_open cs) with
  | Some idx => last_idx (onpitch (snd k)) (c_pairs cs) = Some idx /\ alt_run k false pre = Some true
  | None => alt_run k false pre = Some false
  end.
(* pairings that do not start with a NOTE_ON; the messages of channel ch that create such a singleton pairing *)
Definition nonon (p : pairing) : bool := negb (is_on (p_first p)).
Definition single (ch : Z) (m : msg) : bool := (is_ts m || is_internal m) && (m_chan m =? ch).
Definition CInv (pre : list msg) (ch : Z) (cs : chst) : Prop :=
  uniq (c_open cs) /\ (forall n, KI (ch, n) pre cs) /\ Forall (pgood pre ch) (c_pairs cs) /\
  ForallOrdPairs mle (map p_first (c_pairs cs)) /\
  map p_first (filter nonon (c_pairs cs)) = filter (single ch) pre.
Definition PInv (pre : list msg) (st : list (Z * chst)) : Prop :=
  uniq st /\ (forall ch cs, dget Z.eqb ch st = Some cs -> c_pairs cs <> []) /\ forall ch, CInv pre ch (chan_of ch st).

Definition no_fail (pre : list msg) : Prop := forall k, alt_run k false pre <> None.
Lemma no_fail_app a b : no_fail (a ++ b) -> no_fail a.
Proof. intros H k Hk. apply (H k). now rewrite alt_run_app, Hk. Qed.

Lemma dgetZ_dset {V} k k' (v : V) d : dget Z.eqb k (dset Z.eqb k' v d) = if k =? k' then Some v else dget Z.eqb k d.
Proof. apply dget_dset. apply Z.eqb_eq. Qed.
Lemma dgetZ_ddel {V} k k' (d : list (Z * V)) : uniq d ->
  dget Z.eqb k (ddel Z.eqb k' d) = if k =? k' then None else dget Z.eqb k d.
Proof. apply dget_ddel. apply Z.eqb_eq. Qed.

Lemma onpitch_new n (i : nat) (m : msg) : onpitch n ((i, m), None) = is_on m && (m_note m =? n).
Proof. reflexivity. Qed.

Lemma pgood_mono pre m ch p : pgood pre ch p -> pgood (pre ++ [m]) ch p.
Proof. intros (H1 & H2 & H3). split; [exact H1|]. split; [|exact H3]. apply in_or_app. now left. Qed.

(* a message that is not a note of channel ch leaves the channel's invariant alone *)
Lemma KI_frame k pre m cs : nkey k m = false -> KI k pre cs -> KI k (pre ++ [m]) cs.
Proof.
  intros H [H1 H2]. split.
  - rewrite kp_snoc, H, app_nil_r. exact H1.
  - rewrite alt_run_snoc_other by exact H. exact H2.
Qed.

Lemma nkey_other_chan ch n m : m_chan m <> ch -> nkey (ch, n) m = false.
Proof.
  intros H. unfold nkey, k2_eqb. cbn [fst snd]. destruct (Z.eqb_spec ch (m_chan m)); [congruence|].
  cbn [andb]. apply andb_false_r.
Qed.
Lemma nkey_nonnote k m : is_note m = false -> nkey k m = false.
Proof. unfold nkey. now intros ->. Qed.

Lemma CInv_frame pre m ch cs : (forall n, nkey (ch, n) m = false) -> single ch m = false ->
  CInv pre ch cs -> CInv (pre ++ [m]) ch cs.
Proof.
  intros H Hs (H1 & H2 & H3 & H4 & H5). split; [exact H1|]. split; [|split; [|split; [exact H4|]]].
  - intros n. apply KI_frame; [apply H|apply H2].
  - eapply Forall_impl; [|exact H3]. intros p. apply pgood_mono.
  - rewrite filter_app. cbn [filter]. rewrite Hs, app_nil_r. exact H5.
Qed.

Lemma single_other_chan ch m : m_chan m <> ch -> single ch m = false.
Proof. intros H. unfold single. destruct (Z.eqb_spec (m_chan m) ch); [contradiction|apply andb_false_r]. Qed.

Lemma PInv_update pre st m cs' :
  PInv pre st -> CInv (pre ++ [m]) (m_chan m) cs' -> c_pairs cs' <> [] ->
  PInv (pre ++ [m]) (dset Z.eqb (m_chan m) cs' st).
Proof.
  intros (Hu & Hne & Hc) Hc' Hne'. split; [apply uniq_dset; [apply Z.eqb_eq|exact Hu]|]. split.
  - intros ch cs. rewrite dgetZ_dset. destruct (ch =? m_chan m); [intros [= <-]; exact Hne'|apply Hne].
  - intros ch. unfold chan_of. rewrite dgetZ_dset. destruct (Z.eqb_spec ch (m_chan m)) as [->|E]; [exact Hc'|].
    apply CInv_frame; [| |apply Hc]; [intros n; apply nkey_other_chan; congruence|apply single_other_chan; congruence].
Qed.

Lemma PInv_skip pre st m : is_note m = false /\ is_ts m = false /\ is_internal m = false ->
  PInv pre st -> PInv (pre ++ [m]) st.
Proof.
  intros (Hn & Ht & Hi) (Hu & Hne & Hc). split; [exact Hu|]. split; [exact Hne|].
  intros ch. apply CInv_frame; [| |apply Hc]; [intros n; now apply nkey_nonnote|].
  unfold single. now rewrite Ht, Hi.
Qed.

Lemma Forall_set_nth' {A} (P : A -> Prop) (f : A -> A) : (forall x, P x -> P (f x)) ->
  forall l n, Forall P l -> Forall P (set_nth n f l).
Proof.
  intros Hf. induction l as [|x l IH]; intros n H; destruct n; cbn [set_nth]; try exact H;
    inversion H; subst; constructor; auto.
Qed.

Lemma type_flags m :
  match m_type m with
  | NOTE_ON => is_on m = true /\ is_off m = false /\ is_note m = true
  | NOTE_OFF => is_on m = false /\ is_off m = true /\ is_note m = true
  | TIME_SIGNATURE => is_on m = false /\ is_note m = false /\ is_ts m = true
  | INTERNAL => is_on m = false /\ is_note m = false /\ is_internal m = true
  | _ => is_note m = false /\ is_ts m = false /\ is_internal m = false
  end.
Proof. unfold is_note, is_on, is_off, is_ts, is_internal, mtype_eqb. destruct (m_type m); cbn; auto. Qed.

(* appending a singleton pairing whose first message is not a NOTE_ON (TIME_SIGNATURE, INTERNAL) *)
Lemma CInv_single pre i m cs :
  is_note m = false -> ftype m = true -> (forall x, In x pre -> m_time x <= m_time m) ->
  CInv pre (m_chan m) cs -> CInv (pre ++ [m]) (m_chan m) (mkch (c_pairs cs ++ [((i, m), None)]) (c_open cs)).
Proof.
  intros Hn Hf Hle (H1 & H2 & H3 & H4 & H5).
  assert (Hon : is_on m = false) by (destruct (is_on m) eqn:E; [apply on_is_note in E; congruence|reflexivity]).
  split; [exact H1|]. split; [|split; [|split]].
  - intros n. destruct (H2 n) as [K1 K2]. destruct (KI_frame _ _ m _ (nkey_nonnote (m_chan m, n) m Hn) (conj K1 K2)) as [K1' K2'].
    split; cbn [c_pairs c_open snd] in *.
    + rewrite filter_app. cbn [filter]. rewrite onpitch_new. rewrite Hon. cbn [andb].
      rewrite app_nil_r. exact K1'.
    + destruct (dget Z.eqb n (c_open cs)) as [idx|]; [|exact K2']. destruct K2' as [L1 L2]. split; [|exact L2].
      rewrite last_idx_snoc. rewrite onpitch_new. rewrite Hon. exact L1.
  - cbn [c_pairs]. apply Forall_app. split.
    + eapply Forall_impl; [|exact H3]. intros p. apply pgood_mono.
    + constructor; [|constructor]. split; [reflexivity|]. split; [apply in_or_app; right; now left|exact Hf].
  - cbn [c_pairs]. rewrite map_app. apply FOP_app; [exact H4|repeat constructor|].
    intros x y Hx [<-|[]]. apply in_map_iff in Hx. destruct Hx as (p & <- & Hp).
    rewrite Forall_forall in H3. destruct (H3 p Hp) as (_ & Hin & _). apply Hle, Hin.
  - cbn [c_pairs]. rewrite !filter_app, map_app, H5. cbn [filter]. unfold nonon at 1. cbn [p_first fst snd].
    rewrite Hon. cbn [negb map].
    assert (single (m_chan m) m = true) as ->.
    { unfold single. unfold ftype in Hf. rewrite Hon in Hf. cbn [orb] in Hf. now rewrite Hf, Z.eqb_refl. }
    reflexivity.
Qed.

Lemma pair_step_inv pre st i m :
  no_fail (pre ++ [m]) -> (forall x, In x pre -> m_time x <= m_time m) -> PInv pre st ->
  PInv (pre ++ [m]) (pair_step TOK_TYPES true st (i, m)).
Proof.
  intros Hnf Hle HP. pose proof (type_flags m) as TF. unfold pair_step.
  fold (chan_of (m_chan m) st). set (cs := chan_of (m_chan m) st).
  pose proof HP as (Hu & Hne & Hc). destruct (Hc (m_chan m)) as (Huo & Hki & Hpg & Hso & Hsg).
  fold cs in Huo, Hki, Hpg, Hso, Hsg.
  set (k0 := (m_chan m, m_note m)).
  destruct (m_type m) eqn:T; cbn [tmem TOK_TYPES existsb mtype_eqb mtype_rank Z.eqb negb orb Pos.eqb];
    try (apply PInv_skip; [exact TF|exact HP]).
  - (* INTERNAL *)
    destruct TF as (_ & Hn & Hi). apply PInv_update; [exact HP| |cbn [c_pairs]; now destruct (c_pairs cs)].
    apply CInv_single; [exact Hn| |exact Hle|exact (Hc (m_chan m))]. unfold ftype. rewrite Hi. apply orb_true_r.
  - (* TIME_SIGNATURE *)
    destruct TF as (_ & Hn & Hi). apply PInv_update; [exact HP| |cbn [c_pairs]; now destruct (c_pairs cs)].
    apply CInv_single; [exact Hn| |exact Hle|exact (Hc (m_chan m))]. unfold ftype. rewrite Hi. now rewrite orb_true_r.
  - (* NOTE_OFF *)
    destruct TF as (Hon & Hoff & Hn).
    assert (Hk0 : nkey k0 m = true) by (unfold nkey, k0; now rewrite Hn, k2_eqb_refl).
    assert (Hopen : alt_run k0 false pre = Some true).
    { pose proof (Hnf k0) as H. rewrite alt_run_app in H. destruct (alt_run k0 false pre) as [[|]|]; [reflexivity| |congruence].
      exfalso. apply H. cbn [alt_run]. unfold is_key. fold k0. now rewrite k2_eqb_refl, Hon, Hoff. }
    destruct (Hki (m_note m)) as [Hmap Hop]. fold k0 in Hmap, Hop. cbn [snd k0] in Hmap, Hop.
    destruct (dget Z.eqb (m_note m) (c_open cs)) as [idx|] eqn:G; [|congruence]. destruct Hop as [Hlast _].
    destruct (last_idx_split _ _ _ Hlast) as (A & p & B & HAB & HlenA & Hqp & HqB).
    assert (Hset : set_nth idx (close_with (Some i, m)) (c_pairs cs) = A ++ close_with (Some i, m) p :: B).
    { rewrite HAB, <- HlenA. apply set_nth_split. }
    assert (Hpn : m_note (p_first p) = m_note m).
    { unfold onpitch in Hqp. apply andb_prop in Hqp. destruct Hqp as [_ Hqp]. now apply Z.eqb_eq in Hqp. }
    pose proof (alt_run_popen k0 pre false true None Hopen eq_refl) as Hpo.
    destruct (popen None (kp k0 pre)) as [on|] eqn:Hpop; [clear Hpo|discriminate].
    apply PInv_update; [exact HP| |cbn [c_pairs]; rewrite Hset; now destruct A].
    split; [cbn [c_open]; apply uniq_ddel; exact Huo|]. split; [|split; [|split]].
    + intros n. destruct (Z.eq_dec n (m_note m)) as [->|Hneq].
      * fold k0. split; cbn [c_pairs c_open snd k0].
        -- rewrite Hset, kp_snoc, Hk0. rewrite HAB in Hmap. rewrite filter_app in Hmap |- *. cbn [filter] in Hmap |- *.
           change (onpitch (m_note m) (close_with (Some i, m) p)) with (onpitch (m_note m) p).
           rewrite Hqp, HqB in Hmap |- *. rewrite map_app in Hmap |- *. cbn [map] in Hmap |- *.
           unfold pairs_from in Hmap |- *. rewrite Hpop in Hmap. rewrite cpairs_snoc, popen_snoc, Hpop, app_nil_r.
           apply app_inj_tail in Hmap. destruct Hmap as [Hm1 Hm2]. rewrite Hm1. f_equal.
           unfold strip in Hm2 |- *. injection Hm2 as Hm2 _. cbn. now rewrite <- Hm2.
        -- rewrite dgetZ_ddel, Z.eqb_refl by exact Huo. rewrite alt_run_app, Hopen. cbn [alt_run].
           unfold is_key. fold k0. now rewrite k2_eqb_refl, Hon, Hoff.
      * assert (Hnk : nkey (m_chan m, n) m = false).
        { unfold nkey, k2_eqb. cbn [fst snd]. destruct (Z.eqb_spec n (m_note m)); [contradiction|]. now rewrite !andb_false_r. }
        destruct (KI_frame _ _ m _ Hnk (Hki n)) as [K1 K2]. split; cbn [c_pairs c_open snd] in *.
        -- rewrite Hset. rewrite HAB in K1. rewrite filter_app in K1 |- *. cbn [filter] in K1 |- *.
           change (onpitch n (close_with (Some i, m) p)) with (onpitch n p).
           assert (Hf : onpitch n p = false).
           { unfold onpitch. rewrite Hpn. destruct (Z.eqb_spec (m_note m) n); [congruence|]. apply andb_false_r. }
           rewrite Hf in K1 |- *. exact K1.
        -- rewrite dgetZ_ddel by exact Huo. destruct (Z.eqb_spec n (m_note m)); [contradiction|].
           destruct (dget Z.eqb n (c_open cs)) as [idx'|]; [|exact K2]. destruct K2 as [L1 L2]. split; [|exact L2].
           rewrite last_idx_set_nth; [exact L1|]. intros x. reflexivity.
    + cbn [c_pairs]. apply Forall_set_nth'; [intros x Hx; exact Hx|].
      eapply Forall_impl; [|exact Hpg]. intros q. apply pgood_mono.
    + cbn [c_pairs]. rewrite map_set_nth; [exact Hso|]. intros x. reflexivity.
    + cbn [c_pairs]. rewrite Hset. rewrite HAB in Hsg. rewrite (filter_app (single (m_chan m)) pre [m]).
      rewrite filter_app in Hsg. rewrite (filter_app nonon A). cbn [filter] in Hsg |- *.
      change (nonon (close_with (Some i, m) p)) with (nonon p).
      assert (single (m_chan m) m = false) as -> by (unfold single, is_ts, is_internal, mtype_eqb; now rewrite T).
      rewrite app_nil_r, <- Hsg. destruct (nonon p); rewrite !map_app; reflexivity.
  - (* NOTE_ON *)
    destruct TF as (Hon & Hoff & Hn).
    assert (Hk0 : nkey k0 m = true) by (unfold nkey, k0; now rewrite Hn, k2_eqb_refl).
    assert (Hclosed : alt_run k0 false pre = Some false).
    { pose proof (Hnf k0) as H. rewrite alt_run_app in H. destruct (alt_run k0 false pre) as [[|]|]; [|reflexivity|congruence].
      exfalso. apply H. cbn [alt_run]. unfold is_key. fold k0. now rewrite k2_eqb_refl, Hon. }
    destruct (Hki (m_note m)) as [Hmap Hop]. fold k0 in Hmap, Hop. cbn [snd k0] in Hmap, Hop.
    destruct (dget Z.eqb (m_note m) (c_open cs)) as [idx|] eqn:G; [destruct Hop; congruence|].
    pose proof (alt_run_popen k0 pre false false None Hclosed eq_refl) as Hpo.
    destruct (popen None (kp k0 pre)) as [on|] eqn:Hpop; [discriminate|clear Hpo].
    apply PInv_update; [exact HP| |cbn [c_pairs]; now destruct (c_pairs cs)].
    split; [cbn [c_open]; apply uniq_dset; [apply Z.eqb_eq|exact Huo]|]. split; [|split; [|split]].
    + intros n. destruct (Z.eq_dec n (m_note m)) as [->|Hneq].
      * fold k0. split; cbn [c_pairs c_open snd k0].
        -- rewrite filter_app, map_app, Hmap, kp_snoc, Hk0. cbn [filter]. rewrite onpitch_new.
           rewrite Hon, Z.eqb_refl. cbn [andb map]. unfold pairs_from. rewrite cpairs_snoc, popen_snoc, Hpop.
           rewrite !app_nil_r. reflexivity.
        -- rewrite dgetZ_dset, Z.eqb_refl. split.
           ++ rewrite last_idx_snoc. rewrite onpitch_new. now rewrite Hon, Z.eqb_refl.
           ++ rewrite alt_run_app, Hclosed. cbn [alt_run]. unfold is_key. fold k0. now rewrite k2_eqb_refl, Hon.
      * assert (Hnk : nkey (m_chan m, n) m = false).
        { unfold nkey, k2_eqb. cbn [fst snd]. destruct (Z.eqb_spec n (m_note m)); [contradiction|]. now rewrite !andb_false_r. }
        destruct (KI_frame _ _ m _ Hnk (Hki n)) as [K1 K2]. split; cbn [c_pairs c_open snd] in *.
        -- rewrite filter_app. cbn [filter]. rewrite onpitch_new.
           destruct (Z.eqb_spec (m_note m) n); [congruence|]. rewrite andb_false_r, app_nil_r. exact K1.
        -- rewrite dgetZ_dset. destruct (Z.eqb_spec n (m_note m)); [contradiction|].
           destruct (dget Z.eqb n (c_open cs)) as [idx'|]; [|exact K2]. destruct K2 as [L1 L2]. split; [|exact L2].
           rewrite last_idx_snoc. rewrite onpitch_new.
           destruct (Z.eqb_spec (m_note m) n); [congruence|]. rewrite andb_false_r. exact L1.
    + cbn [c_pairs]. apply Forall_app. split.
      * eapply Forall_impl; [|exact Hpg]. intros q. apply pgood_mono.
      * constructor; [|constructor]. split; [reflexivity|]. split; [apply in_or_app; right; now left|].
        unfold ftype. cbn [p_first fst snd]. now rewrite Hon.
    + cbn [c_pairs]. rewrite map_app. apply FOP_app; [exact Hso|repeat constructor|].
      intros x y Hx [<-|[]]. apply in_map_iff in Hx. destruct Hx as (q & <- & Hq).
      rewrite Forall_forall in Hpg. destruct (Hpg q Hq) as (_ & Hin & _). apply Hle, Hin.
    + cbn [c_pairs]. rewrite !filter_app. cbn [filter]. unfold nonon at 2. cbn [p_first fst snd]. rewrite Hon.
      cbn [negb]. assert (single (m_chan m) m = false) as -> by (unfold single, is_ts, is_internal, mtype_eqb; now rewrite T).
      rewrite !app_nil_r. exact Hsg.
Qed.

(* ================================================================ the whole loop *)
Lemma tsorted_FOP l : tsorted l = true -> ForallOrdPairs mle l.
Proof.
  induction l as [|x l IH]; intros H; [constructor|].
  constructor; [exact (tsorted_head x l H)|]. apply IH. eapply tsorted_tail; exact H.
Qed.

Lemma pair_fold : forall L pre st i0, no_fail (pre ++ L) -> ForallOrdPairs mle (pre ++ L) -> PInv pre st ->
  PInv (pre ++ L) (fold_left (pair_step TOK_TYPES true) (index_from i0 L) st).
Proof.
  induction L as [|m L IH]; intros pre st i0 Hnf Hs HP; cbn [index_from fold_left].
  - now rewrite app_nil_r.
  - replace (pre ++ m :: L) with ((pre ++ [m]) ++ L) in * by (rewrite <- app_assoc; reflexivity).
    apply IH; [exact Hnf|exact Hs|]. apply pair_step_inv; [now apply no_fail_app with L| |exact HP].
    intros x Hx. apply FOP_app_inv in Hs. destruct Hs as (Hs1 & _ & _).
    apply FOP_app_inv in Hs1. destruct Hs1 as (_ & _ & H). apply H; [exact Hx|now left].
Qed.

Lemma PInv_init : PInv [] [].
Proof.
  split; [constructor|]. split; [intros ch cs H; discriminate|].
  intros ch. split; [constructor|]. split; [|split; [constructor|split; [constructor|reflexivity]]].
  intros n. split; reflexivity.
Qed.

Definition chan_pairs (ch : Z) (ps : list (Z * list pairing)) : list pairing :=
  match dget Z.eqb ch ps with Some P => P | None => [] end.

Lemma In_dget {V} (d : list (Z * V)) k v : uniq d -> In (k, v) d -> dget Z.eqb k d = Some v.
Proof.
  unfold uniq. induction d as [|[k0 v0] d IH]; intros Hu H; [destruct H|]. cbn [map fst] in Hu.
  inversion Hu as [|? ? Hn Hu']; subst. cbn [dget]. destruct H as [H|H].
  - injection H as -> ->. now rewrite Z.eqb_refl.
  - destruct (Z.eqb_spec k k0) as [->|E]; [|now apply IH].
    exfalso. apply Hn. apply in_map_iff. exists (k0, v). split; [reflexivity|exact H].
Qed.

Lemma dget_map_vals {V W} (g : V -> W) k (d : list (Z * V)) :
  dget Z.eqb k (map (fun kv => (fst kv, g (snd kv))) d) = option_map g (dget Z.eqb k d).
Proof.
  induction d as [|[k' v] d IH]; cbn [map dget fst snd]; [reflexivity|].
  destruct (k =? k'); [reflexivity|exact IH].
Qed.

Lemma impute_close_id std p : (is_on (p_first p) = true -> exists x, snd p = Some x) -> impute_close std true p = p.
Proof.
  unfold impute_close. destruct (snd p) eqn:E; [reflexivity|]. cbn [andb].
  destruct (is_on (p_first p)); [|reflexivity]. intros H. destruct (H eq_refl) as [x Hx]. discriminate.
Qed.

(* The pairings of a time-sorted list whose notes alternate per key: channels are distinct, no channel is empty, every
   pairing starts with a NOTE_ON / TIME_SIGNATURE / INTERNAL message of its channel taken from the list, each
   channel's pairings are ordered by time, and per (channel, pitch) the NOTE_ON pairings are the consecutive (on, off)
   pairs of the key's messages. *)
Theorem pairings_tok std S : tsorted S = true -> (forall k, alt k false S = true) ->
  uniq (pairings_sorted TOK_TYPES std true S) /\
  (forall ch pl, In (ch, pl) (pairings_sorted TOK_TYPES std true S) ->
     pl <> [] /\ Forall (pgood S ch) pl /\ ForallOrdPairs mle (map p_first pl)) /\
  (forall ch n, map strip (filter (onpitch n) (chan_pairs ch (pairings_sorted TOK_TYPES std true S))) =
                cpairs None (kp (ch, n) S)) /\
  (forall ch, map p_first (filter nonon (chan_pairs ch (pairings_sorted TOK_TYPES std true S))) = filter (single ch) S).
Proof.
  intros Hs Halt. unfold pairings_sorted.
  set (st := fold_left (pair_step TOK_TYPES true) (index_from 0 S) []).
  assert (Hrun : forall k, alt_run k false S = Some false) by (intros k; now apply alt_spec).
  assert (HP : PInv S st).
  { apply (pair_fold S [] [] 0%nat); [intros k; cbn [app]; now rewrite Hrun|now apply tsorted_FOP|apply PInv_init]. }
  destruct HP as (Hu & Hne & Hc).
  assert (Hclosed : forall k, popen None (kp k S) = None).
  { intros k. pose proof (alt_run_popen k S false false None (Hrun k) eq_refl) as H.
    destruct (popen None (kp k S)); [discriminate|reflexivity]. }
  assert (Hid : forall ch cs, dget Z.eqb ch st = Some cs -> map (impute_close std true) (c_pairs cs) = c_pairs cs).
  { intros ch cs G. rewrite <- (map_id (c_pairs cs)) at 2. apply map_ext_in. intros p Hp.
    apply impute_close_id. intros Hon. destruct (Hc ch) as (_ & Hk & _). destruct (Hk (m_note (p_first p))) as [Hm _].
    unfold chan_of in Hm. rewrite G in Hm. cbn [snd] in Hm. unfold pairs_from in Hm. rewrite Hclosed, app_nil_r in Hm.
    assert (Hin : In (strip p) (cpairs None (kp (ch, m_note (p_first p)) S))).
    { rewrite <- Hm. apply in_map. apply filter_In. split; [exact Hp|]. unfold onpitch. now rewrite Hon, Z.eqb_refl. }
    destruct (cpairs_closed _ _ _ Hin) as (off & Hoff). cbn [strip snd] in Hoff. unfold p_second in Hoff.
    destruct (snd p) as [x|]; [now exists x|discriminate]. }
  assert (HPeq : map (fun kv : Z * chst => (fst kv, map (impute_close std true) (c_pairs (snd kv)))) st =
                 map (fun kv : Z * chst => (fst kv, c_pairs (snd kv))) st).
  { apply map_ext_in. intros [ch cs] Hin. cbn [fst snd]. f_equal. apply (Hid ch). now apply In_dget. }
  rewrite HPeq. split; [|split; [|split]].
  - unfold uniq. rewrite map_map. cbn [fst]. exact Hu.
  - intros ch pl Hin. apply in_map_iff in Hin. destruct Hin as ([ch' cs] & E & Hin). cbn [fst snd] in E.
    injection E as -> <-. pose proof (In_dget _ _ _ Hu Hin) as G. split; [now apply Hne with ch|].
    destruct (Hc ch) as (_ & _ & H3 & H4 & _). unfold chan_of in H3, H4. rewrite G in H3, H4. now split.
  - intros ch n. unfold chan_pairs. rewrite (dget_map_vals c_pairs ch st).
    destruct (Hc ch) as (_ & Hk & _). destruct (Hk n) as [Hm _]. cbn [snd] in Hm.
    unfold pairs_from in Hm. rewrite Hclosed, app_nil_r in Hm. rewrite <- Hm. unfold chan_of.
    destruct (dget Z.eqb ch st); reflexivity.
  - intros ch. unfold chan_pairs. rewrite (dget_map_vals c_pairs ch st).
    destruct (Hc ch) as (_ & _ & _ & _ & H5). rewrite <- H5. unfold chan_of.
    destruct (dget Z.eqb ch st); reflexivity.
Qed.

(* ================================================================ interleave *)
Definition ptime (p : pairing) : Z := m_time (p_first p).
Definition ple (p q : pairing) : Prop := ptime p <= ptime q.
Definition ele (a b : Z * pairing) : Prop := ptime (snd a) <= ptime (snd b).
Definition heads_ge (t : Z) (l : list (Z * list pairing)) : Prop :=
  Forall (fun kv => match snd kv with [] => True | p :: _ => t <= ptime p end) l.
Definition flat (l : list (Z * list pairing)) : list (Z * pairing) :=
  flat_map (fun kv => map (pair (fst kv)) (snd kv)) l.

Lemma heads_ge_mono t t' l : t' <= t -> heads_ge t l -> heads_ge t' l.
Proof.
  intros H. unfold heads_ge. apply Forall_impl. intros [c pl]. cbn [snd]. destruct pl; [auto|lia].
Qed.

Lemma min_head_spec l : forall i0 best,
  match min_head l i0 best with
  | None => best = None /\ Forall (fun kv => snd kv = []) l
  | Some (j, t) =>
      (best = Some (j, t) \/
       exists ch p ps, (i0 <= j)%nat /\ nth_error l (j - i0) = Some (ch, p :: ps) /\ t = ptime p) /\
      (forall bj bt, best = Some (bj, bt) -> t <= bt) /\ heads_ge t l
  end.
Proof.
  induction l as [|[c pl] l IH]; intros i0 best; cbn [min_head].
  - destruct best as [[j t]|]; [|split; [reflexivity|constructor]].
    split; [now left|]. split; [|constructor]. intros bj bt [= <- <-]. lia.
  - destruct pl as [|p ps].
    + specialize (IH (S i0) best). destruct (min_head l (S i0) best) as [[j t]|].
      * destruct IH as (H1 & H2 & H3). split; [|split; [exact H2|constructor; [exact I|exact H3]]].
        destruct H1 as [H1|(ch & q & qs & Hj & Hn & Ht)]; [now left|]. right. exists ch, q, qs.
        split; [lia|]. split; [|exact Ht]. replace (j - i0)%nat with (S (j - S i0)) by lia. exact Hn.
      * destruct IH as [H1 H2]. split; [exact H1|]. constructor; [reflexivity|exact H2].
    + fold (ptime p).
      assert (Hnew : forall bound, (forall bj bt, best = Some (bj, bt) -> bound <= bt) -> ptime p <= bound ->
        match min_head l (S i0) (Some (i0, ptime p)) with
        | None => False
        | Some (j, t) =>
            (best = Some (j, t) \/
             exists ch q qs, (i0 <= j)%nat /\ nth_error ((c, p :: ps) :: l) (j - i0) = Some (ch, q :: qs) /\ t = ptime q) /\
            (forall bj bt, best = Some (bj, bt) -> t <= bt) /\ heads_ge t ((c, p :: ps) :: l)
        end).
      { intros bound Hb Hpb. specialize (IH (S i0) (Some (i0, ptime p))).
        destruct (min_head l (S i0) (Some (i0, ptime p))) as [[j t]|]; [|destruct IH; discriminate].
        destruct IH as (H1 & H2 & H3). specialize (H2 _ _ eq_refl). split; [|split].
        - right. destruct H1 as [H1|(ch & q & qs & Hj & Hn & Ht)].
          + injection H1 as <- <-. exists c, p, ps. split; [lia|]. rewrite Nat.sub_diag. split; reflexivity.
          + exists ch, q, qs. split; [lia|]. split; [|exact Ht]. replace (j - i0)%nat with (S (j - S i0)) by lia. exact Hn.
        - intros bj bt E. specialize (Hb _ _ E). lia.
        - constructor; [exact H2|exact H3]. }
      destruct best as [[bj bt]|].
      * destruct (ptime p <? bt) eqn:E; [apply Z.ltb_lt in E | apply Z.ltb_ge in E].
        -- specialize (Hnew (ptime p)). destruct (min_head l (S i0) (Some (i0, ptime p))) as [[j t]|].
           ++ apply Hnew; [intros ? ? [= <- <-]; lia|lia].
           ++ exfalso. apply Hnew; [intros ? ? [= <- <-]; lia|lia].
        -- specialize (IH (S i0) (Some (bj, bt))).
           destruct (min_head l (S i0) (Some (bj, bt))) as [[j t]|]; [|destruct IH; discriminate].
           destruct IH as (H1 & H2 & H3). pose proof (H2 _ _ eq_refl) as Hle. split; [|split; [exact H2|]].
           ++ destruct H1 as [H1|(ch & q & qs & Hj & Hn & Ht)]; [now left|]. right. exists ch, q, qs.
              split; [lia|]. split; [|exact Ht]. replace (j - i0)%nat with (S (j - S i0)) by lia. exact Hn.
           ++ constructor; [cbn [snd]; lia|exact H3].
      * specialize (Hnew (ptime p)). destruct (min_head l (S i0) (Some (i0, ptime p))) as [[j t]|].
        -- apply Hnew; [intros ? ? [=]|lia].
        -- exfalso. apply Hnew; [intros ? ? [=]|lia].
Qed.

Lemma flat_nil l : Forall (fun kv : Z * list pairing => snd kv = []) l -> flat l = [].
Proof. induction 1 as [|[c pl] l H _ IH]; [reflexivity|]. cbn [snd] in H. subst pl. exact IH. Qed.

Lemma flat_set_nth l : forall j ch p ps, nth_error l j = Some (ch, p :: ps) ->
  Permutation (flat l) ((ch, p) :: flat (set_nth j (fun _ => (ch, ps)) l)).
Proof.
  induction l as [|kv l IH]; intros j ch p ps H; [destruct j; discriminate|].
  destruct j as [|j]; cbn [nth_error set_nth] in *.
  - injection H as ->. reflexivity.
  - unfold flat. cbn [flat_map]. fold (flat l). fold (flat (set_nth j (fun _ => (ch, ps)) l)).
    eapply perm_trans; [apply Permutation_app_head, IH, H|]. apply Permutation_sym, Permutation_middle.
Qed.

Lemma In_set_nth {A} (f : A -> A) l : forall n x, In x (set_nth n f l) -> In x l \/ exists y, nth_error l n = Some y /\ x = f y.
Proof.
  induction l as [|a l IH]; intros n x H; [destruct n; destruct H|].
  destruct n as [|n]; cbn [set_nth nth_error] in *.
  - destruct H as [<-|H]; [right; now exists a|left; now right].
  - destruct H as [<-|H]; [left; now left|]. destruct (IH _ _ H) as [H'|H']; [left; now right|now right].
Qed.

Lemma flat_ge t l : heads_ge t l -> (forall kv, In kv l -> ForallOrdPairs ple (snd kv)) ->
  forall e, In e (flat l) -> t <= ptime (snd e).
Proof.
  intros Hh Hs e He. unfold flat in He. apply in_flat_map in He. destruct He as ([c pl] & Hkv & He).
  cbn [fst snd] in He. apply in_map_iff in He. destruct He as (q & <- & Hq). cbn [snd].
  unfold heads_ge in Hh. rewrite Forall_forall in Hh. specialize (Hh _ Hkv). specialize (Hs _ Hkv). cbn [snd] in Hh, Hs.
  destruct pl as [|p ps]; [destruct Hq|]. destruct Hq as [<-|Hq]; [exact Hh|].
  inversion Hs as [|? ? Hp _]; subst. rewrite Forall_forall in Hp. specialize (Hp q Hq). unfold ple in Hp. lia.
Qed.

Lemma interleave_fuel_spec : forall fuel l, (length (flat l) <= fuel)%nat ->
  (forall kv, In kv l -> ForallOrdPairs ple (snd kv)) ->
  Permutation (interleave_fuel fuel l) (flat l) /\ StronglySorted ele (interleave_fuel fuel l).
Proof.
  induction fuel as [|fuel IH]; intros l Hlen Hs.
  - destruct (flat l); [split; constructor|cbn in Hlen; lia].
  - cbn [interleave_fuel]. pose proof (min_head_spec l 0 None) as Hm.
    destruct (min_head l 0 None) as [[j t]|].
    + destruct Hm as (H1 & _ & Hge). destruct H1 as [H1|(ch & p & ps & _ & Hn & Ht)]; [discriminate|].
      rewrite Nat.sub_0_r in Hn. rewrite Hn.
      set (l' := set_nth j (fun _ => (ch, ps)) l).
      pose proof (flat_set_nth l j ch p ps Hn) as Hperm. fold l' in Hperm.
      assert (Hs' : forall kv, In kv l' -> ForallOrdPairs ple (snd kv)).
      { intros kv Hkv. apply In_set_nth in Hkv. destruct Hkv as [Hkv|(y & Hy & ->)]; [now apply Hs|].
        rewrite Hn in Hy. injection Hy as <-. cbn [snd]. apply nth_error_In in Hn. specialize (Hs _ Hn). cbn [snd] in Hs.
        now inversion Hs. }
      assert (Hlen' : (length (flat l') <= fuel)%nat).
      { apply Permutation_length in Hperm. cbn [length] in Hperm. lia. }
      destruct (IH l' Hlen' Hs') as [Hp Hso]. split.
      * eapply perm_trans; [apply perm_skip, Hp|]. now apply Permutation_sym.
      * constructor; [exact Hso|]. apply Forall_forall. intros e He. unfold ele. cbn [snd]. rewrite <- Ht.
        apply (flat_ge t l Hge Hs). eapply Permutation_in; [apply Permutation_sym, Hperm|].
        right. eapply Permutation_in; [exact Hp|exact He].
    + destruct Hm as [_ Hm]. rewrite (flat_nil l Hm). split; constructor.
Qed.

Lemma flat_length l : length (flat l) = length (concat (map snd l)).
Proof.
  induction l as [|[c pl] l IH]; [reflexivity|]. unfold flat in *. cbn [flat_map map concat fst snd].
  now rewrite !app_length, map_length, IH.
Qed.

Theorem interleave_spec l : (forall kv, In kv l -> ForallOrdPairs ple (snd kv)) ->
  Permutation (interleave l) (flat l) /\ StronglySorted ele (interleave l).
Proof. intros H. unfold interleave. apply interleave_fuel_spec; [rewrite flat_length; lia|exact H]. Qed.

Lemma interleaved_ok types std imp S :
  (forall ch pl, In (ch, pl) (pairings_sorted types std imp S) -> pl <> []) ->
  interleaved types std imp S = Ok (interleave (pairings_sorted types std imp S)).
Proof.
  intros H. unfold interleaved. destruct (pairings_sorted types std imp S) as [|[c pl] ps] eqn:E; [reflexivity|].
  cbn [map concat snd]. destruct pl as [|p pl]; [|reflexivity]. exfalso. now apply (H c []); [left|].
Qed.

(* ================================================================ interleave keeps every channel's order *)
Lemma map_fst_set_nth (l : list (Z * list pairing)) : forall j c p ps, nth_error l j = Some (c, p :: ps) ->
  map fst (set_nth j (fun _ => (c, ps)) l) = map fst l.
Proof.
  induction l as [|kv l IH]; intros j c p ps H; [destruct j; discriminate|].
  destruct j as [|j]; cbn [nth_error set_nth map] in *.
  - injection H as ->. reflexivity.
  - f_equal. now apply IH with p.
Qed.

Lemma dget_set_nth_key (l : list (Z * list pairing)) : forall j c p ps ch, uniq l -> nth_error l j = Some (c, p :: ps) ->
  dget Z.eqb ch (set_nth j (fun _ => (c, ps)) l) = if ch =? c then Some ps else dget Z.eqb ch l.
Proof.
  unfold uniq. induction l as [|[k v] l IH]; intros j c p ps ch Hu H; [destruct j; discriminate|].
  cbn [map fst] in Hu. inversion Hu as [|? ? Hn Hu']; subst.
  destruct j as [|j]; cbn [nth_error set_nth dget] in *.
  - injection H as -> ->. destruct (ch =? c); reflexivity.
  - rewrite (IH j c p ps ch Hu' H). destruct (Z.eqb_spec ch k) as [->|Hne]; [|reflexivity].
    destruct (Z.eqb_spec k c) as [->|_]; [|reflexivity].
    exfalso. apply Hn. apply nth_error_In in H. apply in_map_iff. exists (c, p :: ps). now split.
Qed.

Lemma chan_pairs_nil ch (l : list (Z * list pairing)) : Forall (fun kv => snd kv = []) l -> chan_pairs ch l = [].
Proof.
  unfold chan_pairs. induction 1 as [|[k v] l H _ IH]; [reflexivity|]. cbn [snd] in H. subst v. cbn [dget].
  destruct (ch =? k); [reflexivity|exact IH].
Qed.

Lemma flat_nil_inv l : flat l = [] -> Forall (fun kv : Z * list pairing => snd kv = []) l.
Proof.
  induction l as [|[k v] l IH]; intros H; [constructor|]. unfold flat in H. cbn [flat_map fst snd] in H.
  apply app_eq_nil in H. destruct H as [H1 H2]. constructor; [cbn [snd]; now destruct v|now apply IH].
Qed.

Lemma interleave_fuel_chan ch : forall fuel l, uniq l -> (length (flat l) <= fuel)%nat ->
  filter (fun e => fst e =? ch) (interleave_fuel fuel l) = map (pair ch) (chan_pairs ch l).
Proof.
  induction fuel as [|fuel IH]; intros l Hu Hlen.
  - destruct (flat l) eqn:E; [|cbn in Hlen; lia]. rewrite chan_pairs_nil by now apply flat_nil_inv. reflexivity.
  - cbn [interleave_fuel]. pose proof (min_head_spec l 0 None) as Hm.
    destruct (min_head l 0 None) as [[j t]|].
    + destruct Hm as (H1 & _ & _). destruct H1 as [H1|(c & p & ps & _ & Hn & _)]; [discriminate|].
      rewrite Nat.sub_0_r in Hn. rewrite Hn. set (l' := set_nth j (fun _ => (c, ps)) l).
      assert (Hu' : uniq l') by (unfold uniq, l'; rewrite (map_fst_set_nth l j c p ps Hn); exact Hu).
      assert (Hlen' : (length (flat l') <= fuel)%nat).
      { pose proof (flat_set_nth l j c p ps Hn) as Hp. apply Permutation_length in Hp. cbn [length] in Hp.
        fold l' in Hp. lia. }
      cbn [filter fst]. rewrite (IH l' Hu' Hlen'). unfold chan_pairs. unfold l'.
      rewrite (dget_set_nth_key l j c p ps ch Hu Hn).
      destruct (Z.eqb_spec c ch) as [->|Hne].
      * rewrite Z.eqb_refl. rewrite (In_dget l ch (p :: ps) Hu (nth_error_In _ _ Hn)). reflexivity.
      * destruct (Z.eqb_spec ch c); [congruence|reflexivity].
    + destruct Hm as [_ Hm]. now rewrite chan_pairs_nil.
Qed.

Theorem interleave_chan ch l : uniq l ->
  filter (fun e => fst e =? ch) (interleave l) = map (pair ch) (chan_pairs ch l).
Proof. intros H. unfold interleave. apply interleave_fuel_chan; [exact H|rewrite flat_length; lia]. Qed.
