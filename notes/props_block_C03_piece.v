(* ---- block to append to Props/C03.v (piece level).  Needs, compiled in this order:
   Proofs/C03_piece_norm.v, C03_piece_fe.v, C03_piece_bars.v, C03_piece_clock.v, C03_piece_join.v,
   C03_piece_groups.v, C03_piece.v, C03_full_core.v, C03_full_groups.v, C03_full.v *)

(* ================================================================ PIECE level.
   Vocabulary (Proofs/C03_piece_groups.v, C03_piece.v, C03_full_core.v, C03_full_groups.v, C03_full.v):
   * `tokenise_many c st calls` (C19_tokenise.v): one `tokenise` call per element of calls, each started from the
     tstate returned by the previous one, token lists concatenated.
   * a `bar_col` = (numerator, denominator, content of every track): one bar of the piece.  The relative list of track
     i of the bar is `bar_rel b i = mk_ts 0 num den 0 false :: content_i`, what Bar.__init__ leaves (ex_bar_init);
     `join nt cols` = the lists handed to `tokenise` for the run of bars cols (track i = concatenation of the bars'
     lists, one list per track); `sigs_of cols` = the signatures of the bars.
     `bar_ok g c nt b` (boolean): nt contents; the signature is expressible (positive denominator, a whole number of
     eighths within the signature range) with a bar capacity `bar_cap c num den` (= Bars.bar_capacity when the
     configuration uses the library's PPQN, bar_cap_capacity) that is a positive multiple of the grid unit g; every
     content has non-negative waits, only WAIT / NOTE_ON / NOTE_OFF messages, per pitch the notes alternate on / off
     with positive durations and are closed (they END within the bar, as after split_bars), total duration = the bar's
     capacity, every note valid for the tokeniser (`note_ok`: onset on the grid, pitch in range, duration among the
     note values, velocity <= 127).  Signatures may repeat from bar to bar and sit on EVERY track.
     `parts_ok2 g c nt parts`: the partition `parts` (call groups in order, each a run of bars) is not empty, no group
     is empty, every bar is `bar_ok`.  The piece is `concat parts`.
     `parts_ok` / `bars_group_ok` (open-ended variant): moreover the last bar of every group holds no message at its
     last tick (`open_bar`).
   * a `group` = (signatures of its bars, the lists handed to `tokenise`).  `group_ok g c sg tracks` (boolean, the
     open-ended notion): one list per configured track; at least one bar; every signature valid (`sig_valid`); every
     track well formed (`gtrack_ok`), with a TIME_SIGNATURE message exactly at every bar start carrying that bar's
     signature (`bar_tsl`), as long as the bars, and without any message at the group's last tick; valid notes.
     `group_ok2`: instead of "no message at the last tick": no NOTE_ON at the last tick, and the group is open-ended
     OR some note starts inside its last bar (always true for runs of `bar_ok` bars: bars_group2).
   * `group_events groups`: the front-end outputs `fe_events tracks` of the groups; `group_cevents c groups`: the same
     paired with the groups' durations; `capped (evs, T) = evs ++ [ev_cap T]`: the events followed by a (virtual)
     INTERNAL cap at the group's end.
   * `bars_notes c i s cols`: the notes (pitch, onset, offset, velocity) of track i of the bars cols laid out from
     tick s; `bar_ends c s sg`: the ends of the bars of signatures sg laid out from tick s;
     `glued_notes i s lens nts`: the note lists nts, each shifted to the sum of the lengths before it. *)
From Proofs Require Import C01_frontend C03_piece_fe C03_piece_bars C03_piece_join C03_piece_groups C03_piece.
From Proofs Require Import C03_full_core C03_full_groups C03_full.

(* Target 1: when every call's front end succeeds and the outputs form chunks, the threaded `tokenise` calls return
   exactly the tokens and the final state of ONE core run on the glued events (C03_chunked_tokens transported through
   C01_tokenise_core). *)
Theorem C03_tokenise_chunked : forall (g : Z) (c : cfg) (calls : list (list (list msg))) (chs : list (list event)),
  valid_cfg g c = true -> calls_len c calls = true -> mapM tok_frontend calls = Ok chs ->
  chunks_ok g c (rclk0 c) chs = true ->
  C19_tokenise.tokenise_many c (tstate0 c) calls = core c (tstate0 c) (glue 0 chs).
Proof. exact C03_piece_groups.C03_tokenise_chunked. Qed.
Print Assumptions C03_tokenise_chunked.

(* Target 2 (bridge from bars to chunks), as specified: for call groups of whole bars that hold no message at their
   last tick, every front end succeeds and its events satisfy `chunks_ok`: valid from the clock at the group's start,
   ending with the INTERNAL cap exactly on the bar start at the group's end, no note written at that instant.
   Repeated signatures and signatures on every track are allowed (normalise drops the repeats:
   C03_piece_norm.normalise_tsdrop; the surviving ones are those of channel 0 at the bars that change the signature:
   C03_piece_bars.bar_TSL_spec).  PARTIAL: the open-end hypothesis cannot be dropped from THIS statement -- when a
   track ends on a NOTE_OFF at the group's last tick the front end writes no INTERNAL cap
   (C03_piece.ex_closed_end_no_cap) and the events stop before the group's end; see C03_bar_chunks_full. *)
Theorem C03_bar_chunks_ok_partial : forall (g : Z) (c : cfg) (groups : list group),
  valid_cfg g c = true -> groups_ok g c groups = true ->
  mapM tok_frontend (group_calls groups) = Ok (group_events groups) /\ calls_len c (group_calls groups) = true /\
  chunks_ok g c (rclk0 c) (group_events groups) = true.
Proof. exact C03_piece_groups.C03_bar_chunks_ok. Qed.
Print Assumptions C03_bar_chunks_ok_partial.

(* a run of valid bars whose last bar is open-ended is such a group *)
Theorem C03_bars_group_partial : forall (g : Z) (c : cfg) (nt : nat) (cols : list bar_col),
  valid_cfg g c = true -> Z.of_nat nt = c_ntracks c -> bars_group_ok g c nt cols = true ->
  group_ok g c (sigs_of cols) (join nt cols) = true.
Proof. exact C03_piece.bars_group. Qed.
Print Assumptions C03_bars_group_partial.

(* Target 2 without the open-end restriction: every front end succeeds; its events followed by a virtual INTERNAL cap
   at the group's end satisfy `chunks_ok`; the virtual cap changes neither the tokens nor the threaded states (the
   closing rest of `tokenise` completes the last bar anyway: C03_full_core.core_vcap); hence the threaded calls return
   the tokens and final state of one core run on the glued capped events. *)
Theorem C03_bar_chunks_full : forall (g : Z) (c : cfg) (groups : list group),
  valid_cfg g c = true -> groups_ok2 g c groups = true ->
  mapM tok_frontend (group_calls groups) = Ok (map fst (group_cevents c groups)) /\
  calls_len c (group_calls groups) = true /\
  chunks_ok g c (rclk0 c) (map capped (group_cevents c groups)) = true /\
  chunked c (tstate0 c) (map fst (group_cevents c groups)) = chunked c (tstate0 c) (map capped (group_cevents c groups)) /\
  C19_tokenise.tokenise_many c (tstate0 c) (group_calls groups) =
  core c (tstate0 c) (glue 0 (map capped (group_cevents c groups))).
Proof. exact C03_full_groups.C03_bar_chunks_full. Qed.
Print Assumptions C03_bar_chunks_full.

(* EVERY non-empty run of valid bars is such a group *)
Theorem C03_bars_group : forall (g : Z) (c : cfg) (nt : nat) (cols : list bar_col),
  valid_cfg g c = true -> Z.of_nat nt = c_ntracks c -> bars_group_ok2 g c nt cols = true ->
  group_ok2 g c (sigs_of cols) (join nt cols) = true.
Proof. exact C03_full.bars_group2. Qed.
Print Assumptions C03_bars_group.

(* Group-level round trip: the threaded calls succeed, end on the bar start at the end of the last group, detokenise
   to one sequence per track whose note messages are the notes of the groups' tracks (each group shifted to the sum of
   the durations of the groups before it, velocities replaced by their bin values) and whose INTERNAL caps sit exactly
   on the ends of all bars. *)
Theorem C03_groups_roundtrip : forall (g : Z) (c : cfg) (groups : list group),
  valid_cfg g c = true -> groups_ok2 g c groups = true ->
  exists toks st seqs,
    C19_tokenise.tokenise_many c (tstate0 c) (group_calls groups) = Ok (toks, st) /\
    mapM tok_frontend (group_calls groups) = Ok (map fst (group_cevents c groups)) /\
    core c (tstate0 c) (glue 0 (map capped (group_cevents c groups))) = Ok (toks, st) /\
    t_time st = bars_dur c (all_sigs groups) /\ t_tbar st = 0 /\
    detokenise c toks = Ok seqs /\ length seqs = Z.to_nat (c_ntracks c) /\
    forall i, (i < length seqs)%nat ->
      Permutation (filter is_note (nth i seqs []))
                  (flat_map (note_msgs c) (glued_notes i 0 (group_lens c groups) (group_notes_of i groups))) /\
      Permutation (filter is_cap (nth i seqs [])) (caps_msgs (bar_ends c 0 (all_sigs groups))).
Proof. exact C03_full_groups.C03_groups_roundtrip_full. Qed.
Print Assumptions C03_groups_roundtrip.

(* Target 3, the property at piece level: a piece given bar by bar (valid bars), ANY partition `parts` of its bar
   sequence into non-empty consecutive call groups, every valid configuration (all flag combinations), across
   time-signature changes and empty bars, whether or not a group ends on a sounding note: the threaded calls (each
   group handed over as the concatenation of its bars' lists, one list per track) and the single call on the whole
   piece both succeed and end on the bar line at the end of the piece; both token streams detokenise to one sequence
   per track; in both, the note messages of track i are exactly the notes of the bars of track i (pitch, onset = bar
   start + position in the bar, offset, velocity replaced by its bin value) and the INTERNAL caps are exactly the ends
   of all bars -- so the two detokenisations have the same NOTE_ON / NOTE_OFF / INTERNAL content (up to the order of
   simultaneous messages; every detokenised track is time-ordered by C01_detok_sorted).  The token lists themselves
   differ: every call re-announces its first bar's signature (C03_piece.ex_tokens_differ).
   The class of bars is that of C01's valid pieces (no overlapping notes of one pitch, no zero-length notes, only
   note messages besides the signatures). *)
Theorem C03_piece : forall (g : Z) (c : cfg) (nt : nat) (parts : list (list bar_col)),
  valid_cfg g c = true -> Z.of_nat nt = c_ntracks c -> parts_ok2 g c nt parts = true ->
  exists toks1 st1 seqs1 toks2 st2 seqs2,
    C19_tokenise.tokenise_many c (tstate0 c) (map (join nt) parts) = Ok (toks1, st1) /\ detokenise c toks1 = Ok seqs1 /\
    tokenise c (tstate0 c) (join nt (concat parts)) = Ok (toks2, st2) /\ detokenise c toks2 = Ok seqs2 /\
    length seqs1 = nt /\ length seqs2 = nt /\
    t_time st1 = bars_dur c (sigs_of (concat parts)) /\ t_time st2 = bars_dur c (sigs_of (concat parts)) /\
    t_tbar st1 = 0 /\ t_tbar st2 = 0 /\
    forall i, (i < nt)%nat ->
      Permutation (filter is_note (nth i seqs1 [])) (flat_map (note_msgs c) (bars_notes c i 0 (concat parts))) /\
      Permutation (filter is_note (nth i seqs2 [])) (flat_map (note_msgs c) (bars_notes c i 0 (concat parts))) /\
      Permutation (filter is_cap (nth i seqs1 [])) (caps_msgs (bar_ends c 0 (sigs_of (concat parts)))) /\
      Permutation (filter is_cap (nth i seqs2 [])) (caps_msgs (bar_ends c 0 (sigs_of (concat parts)))) /\
      Permutation (filter rel (nth i seqs1 [])) (filter rel (nth i seqs2 [])).
Proof. exact C03_full.C03_piece_full. Qed.
Print Assumptions C03_piece.
