(* C03 (core level) -- threading the tstate through calls on consecutive groups of whole bars emits exactly the
   token stream of one call on the glued event list, hence detokenises to the same notes and bar grid. *)
From Coq Require Import ZArith List Bool Lia Permutation.
From Model Require Import Base Util Seq Pairing Tok.
From Proofs Require Import C01_rest C01_proofs.
Import ListNotations.
Open Scope Z_scope.

(* ================================================================ the already-emitted tokens are a frame *)
Definition pre (p : list tok) (s : lstate) : lstate :=
  mkls (p ++ l_toks s) (l_time s) (l_tbar s) (l_num s) (l_den s) (l_total s) (l_rem s) (l_ptrk s) (l_pval s)
       (l_pvel s) (l_has s).
Definition rmap {A B} (f : A -> B) (r : result A) : result B := match r with Ok a => Ok (f a) | Err e => Err e end.

Lemma apply_rest_pre c p : forall fuel s buf,
  apply_rest fuel c (pre p s) buf = rmap (pre p) (apply_rest fuel c s buf).
Proof.
  induction fuel as [|fuel IH]; intros s buf.
  - cbn [apply_rest]. destruct (buf <=? 0); reflexivity.
  - rewrite !apply_rest_S. destruct (buf <=? 0); [reflexivity|].
    cbn [pre l_toks l_time l_tbar l_num l_den l_total l_rem l_ptrk l_pval l_pvel l_has].
    destruct (pick c (Z.min buf (l_rem s))) as [v|]; [|reflexivity]. cbv zeta.
    rewrite <- IH. f_equal. unfold pre.
    cbn [l_toks l_time l_tbar l_num l_den l_total l_rem l_ptrk l_pval l_pvel l_has].
    now rewrite <- app_assoc.
Qed.

Lemma tok_event_pre c sh p s e : tok_event c sh (pre p s) e = rmap (pre p) (tok_event c sh s e).
Proof.
  unfold tok_event. set (m := p_first (snd e)).
  assert (E : (if l_time (pre p s) =? m_time m + sh then Ok (pre p s)
               else apply_rest (rest_fuel (m_time m + sh - l_time (pre p s))) c (pre p s)
                               (m_time m + sh - l_time (pre p s)))
              = rmap (pre p) (if l_time s =? m_time m + sh then Ok s
                              else apply_rest (rest_fuel (m_time m + sh - l_time s)) c s (m_time m + sh - l_time s))).
  { cbn [pre l_time]. destruct (l_time s =? m_time m + sh); [reflexivity|apply apply_rest_pre]. }
  rewrite E; clear E.
  destruct (if l_time s =? m_time m + sh then Ok s else _) as [s1|err]; cbn [rmap rbind]; [|reflexivity].
  destruct (m_type m); try reflexivity.
  - cbn [pre l_tbar]. destruct (0 <? l_tbar s1); [reflexivity|].
    destruct (negb _); [reflexivity|]. destruct (negb _); [reflexivity|].
    unfold pre. cbn [rmap l_toks l_time l_tbar l_num l_den l_total l_rem l_ptrk l_pval l_pvel l_has].
    now rewrite <- app_assoc.
  - destruct (nth_error _ _) as [vel|]; [|reflexivity].
    destruct (negb _); [reflexivity|]. destruct (negb _); [reflexivity|].
    unfold pre, note_tok. cbn [rmap l_toks l_time l_tbar l_num l_den l_total l_rem l_ptrk l_pval l_pvel l_has].
    now rewrite <- app_assoc.
Qed.

Lemma foldM_pre c sh p evs : forall s,
  foldM (tok_event c sh) evs (pre p s) = rmap (pre p) (foldM (tok_event c sh) evs s).
Proof.
  induction evs as [|e evs IH]; intros s; [reflexivity|]. cbn [foldM]. rewrite tok_event_pre.
  destruct (tok_event c sh s e); cbn [rmap rbind]; [apply IH|reflexivity].
Qed.

Lemma close_pre c p s : close c (pre p s) = rmap (pre p) (close c s).
Proof.
  unfold close. cbn [pre l_tbar l_has l_rem].
  destruct (((0 <? l_tbar s) || l_has s) && (0 <? l_rem s)); [apply apply_rest_pre|reflexivity].
Qed.

(* ================================================================ core, started from an arbitrary loop state *)
Definition core_from (c : cfg) (sh : Z) (evs : list event) (s : lstate) : result (list tok * tstate) :=
  do s2 <- foldM (tok_event c sh) evs s; do s3 <- close c s2; Ok (l_toks s3, ts_of s3).

Lemma core_core_from c st evs : core c st evs = core_from c (t_time st) evs (ls_of c st).
Proof. reflexivity. Qed.

Lemma core_from_pre c sh evs p s :
  core_from c sh evs (pre p s) = do y <- core_from c sh evs s; Ok (p ++ fst y, snd y).
Proof.
  unfold core_from. rewrite foldM_pre. destruct (foldM (tok_event c sh) evs s) as [s2|]; cbn [rmap rbind]; [|reflexivity].
  rewrite close_pre. destruct (close c s2) as [s3|]; cbn [rmap rbind]; reflexivity.
Qed.

Lemma core_from_app c sh a b s :
  core_from c sh (a ++ b) s = do s1 <- foldM (tok_event c sh) a s; core_from c sh b s1.
Proof.
  unfold core_from. rewrite foldM_app. destruct (foldM (tok_event c sh) a s); reflexivity.
Qed.

Lemma core_from_shift c sh y evs s : core_from c sh (map (shift_ev y) evs) s = core_from c (sh + y) evs s.
Proof. unfold core_from. now rewrite foldM_shift. Qed.

Lemma pre_ls c s : cap_ok c s -> l_has s = false -> s = pre (l_toks s) (ls_of c (ts_of s)).
Proof.
  intros H1 H2. rewrite (ls_ts c s H1). unfold pre.
  destruct s as [toks time tbar num den total rem ptrk pval pvel has].
  cbn [l_toks l_time l_tbar l_num l_den l_total l_rem l_ptrk l_pval l_pvel l_has] in *. subst has.
  now rewrite app_nil_r.
Qed.

Lemma core_from_restart c sh evs s :
  cap_ok c s -> l_has s = false ->
  core_from c sh evs s = do y <- core_from c sh evs (ls_of c (ts_of s)); Ok (l_toks s ++ fst y, snd y).
Proof.
  intros H1 H2. pose proof (core_from_pre c sh evs (l_toks s) (ls_of c (ts_of s))) as P.
  rewrite <- (pre_ls c s H1 H2) in P. exact P.
Qed.

(* ================================================================ chunks *)
(* time of the last event (d when there is none) *)
Fixpoint last_time (d : Z) (evs : list event) : Z :=
  match evs with [] => d | e :: r => last_time (ev_time e) r end.
(* a chunk has chunk-relative times; its length is the time of its last event (the cap at its end) *)
Definition chunk_len (ch : list event) : Z := last_time 0 ch.

(* the event list of the whole piece: every chunk shifted to its start *)
Fixpoint glue (start : Z) (chs : list (list event)) : list event :=
  match chs with [] => [] | ch :: r => map (shift_ev start) ch ++ glue (start + chunk_len ch) r end.

(* one `tokenise`-core call per chunk, threading the tstate, concatenating the tokens *)
Fixpoint chunked (c : cfg) (st : tstate) (chs : list (list event)) : result (list tok * tstate) :=
  match chs with
  | [] => Ok ([], st)
  | ch :: r => do x <- core c st ch; do y <- chunked c (snd x) r; Ok (fst x ++ fst y, snd y)
  end.

(* every chunk is valid (in absolute time, from the reference clock k at its start) and ends on a bar start with no
   note written at that instant (i.e. every note onset is before the chunk end) *)
Fixpoint chunks_ok (g : Z) (c : cfg) (k : rclk) (chs : list (list event)) : bool :=
  match chs with
  | [] => true
  | ch :: r =>
      let evs := map (shift_ev (r_time k)) ch in
      let k' := fst (ref_run c k evs) in
      valid_from g c k evs && (r_tbar k' =? 0) && negb (r_has k') && chunks_ok g c k' r
  end.

Lemma ref_step_time c k e : r_time (fst (ref_step c k e)) = ev_time e.
Proof. unfold ref_step, ev_time. destruct (m_type (ev_msg e)); reflexivity. Qed.

Lemma ref_run_time c : forall evs k, r_time (fst (ref_run c k evs)) = last_time (r_time k) evs.
Proof.
  induction evs as [|e evs IH]; intros k; [reflexivity|]. cbn [ref_run last_time].
  pose proof (ref_step_time c k e) as Hs. destruct (ref_step c k e) as [k1 a]. cbn [fst] in Hs.
  specialize (IH k1). destruct (ref_run c k1 evs) as [k2 b]. cbn [fst] in *. now rewrite IH, Hs.
Qed.

Lemma ev_time_shift x e : ev_time (shift_ev x e) = ev_time e + x.
Proof. reflexivity. Qed.

Lemma last_time_shift x : forall evs d, last_time (d + x) (map (shift_ev x) evs) = last_time d evs + x.
Proof.
  induction evs as [|e evs IH]; intros d; [reflexivity|]. cbn [map last_time]. rewrite ev_time_shift. apply IH.
Qed.

Lemma ref_run_app c : forall a b k,
  ref_run c k (a ++ b) =
  (fst (ref_run c (fst (ref_run c k a)) b), snd (ref_run c k a) ++ snd (ref_run c (fst (ref_run c k a)) b)).
Proof.
  induction a as [|e a IH]; intros b k.
  - cbn [app ref_run fst snd]. now destruct (ref_run c k b).
  - cbn [app ref_run]. destruct (ref_step c k e) as [k1 x]. rewrite IH.
    destruct (ref_run c k1 a) as [k2 y]. cbn [fst snd]. destruct (ref_run c k2 b) as [k3 z]. cbn [fst snd].
    now rewrite app_assoc.
Qed.

Lemma valid_from_app g c : forall a b k,
  valid_from g c k (a ++ b) = valid_from g c k a && valid_from g c (fst (ref_run c k a)) b.
Proof.
  induction a as [|e a IH]; intros b k; [reflexivity|]. cbn [app valid_from ref_run].
  rewrite IH. destruct (ref_step c k e) as [k1 x]. cbn [fst]. destruct (ref_run c k1 a) as [k2 y]. cbn [fst].
  now rewrite andb_assoc.
Qed.

Lemma core_from_glue c : forall chs sh y s,
  core_from c sh (glue y chs) s = core_from c (sh + y) (glue 0 chs) s.
Proof.
  induction chs as [|ch r IH]; intros sh y s; [reflexivity|]. cbn [glue].
  rewrite !core_from_app, !foldM_shift. rewrite Z.add_0_r.
  destruct (foldM (tok_event c (sh + y)) ch s) as [s1|]; cbn [rbind]; [|reflexivity].
  rewrite (IH sh (y + chunk_len ch)), (IH (sh + y) (0 + chunk_len ch)). f_equal. lia.
Qed.

(* ================================================================ one chunk *)
Lemma chunk_step g c st k d a :
  valid_cfg g c = true -> tgood g c st -> tk_match c st k -> tsim c st d ->
  valid_from g c k (map (shift_ev (t_time st)) a) = true ->
  r_tbar (fst (ref_run c k (map (shift_ev (t_time st)) a))) = 0 ->
  r_has (fst (ref_run c k (map (shift_ev (t_time st)) a))) = false ->
  exists s1 d1,
    foldM (tok_event c (t_time st)) a (ls_of c st) = Ok s1 /\ close c s1 = Ok s1 /\
    cap_ok c s1 /\ l_has s1 = false /\
    tgood g c (ts_of s1) /\ tk_match c (ts_of s1) (fst (ref_run c k (map (shift_ev (t_time st)) a))) /\
    tsim c (ts_of s1) d1.
Proof.
  intros Hc Hgood Hlk Hsim Hv Htb Hhas.
  set (evs' := map (shift_ev (t_time st)) a) in *.
  assert (E : foldM (tok_event c (t_time st)) a (ls_of c st) = foldM (tok_event c 0) evs' (ls_of c st))
    by (unfold evs'; rewrite foldM_shift; reflexivity).
  rewrite E; clear E.
  destruct (run_sound g c Hc evs' (ls_of c st) k d Hgood Hlk Hsim Hv)
    as (s1 & new1 & d1 & Hr1 & Ht1 & Ha1 & Hg1 & Hk1 & Hcap1 & Hd1 & Hs1 & Hv1).
  assert (Hcap : cap_ok c s1) by (apply Hcap1; reflexivity).
  destruct Hk1 as (K1 & K2 & K3 & K4).
  assert (Hh : l_has s1 = false) by congruence.
  assert (Htb1 : l_tbar s1 = 0) by congruence.
  exists s1, d1. split; [exact Hr1|].
  split; [unfold close; rewrite Htb1, Hh; reflexivity|]. split; [exact Hcap|]. split; [exact Hh|].
  unfold tgood, tk_match, tsim. rewrite (ls_ts c s1 Hcap).
  split; [exact Hg1|]. split; [|exact Hs1].
  unfold lk_match. cbn [l_time l_tbar l_total l_has]. rewrite Hhas. tauto.
Qed.

Lemma ts_ls c st : ts_of (ls_of c st) = st.
Proof. destruct st; reflexivity. Qed.

(* ================================================================ the chunked run emits the tokens of the whole run *)
Lemma chunked_eq g c (Hc : valid_cfg g c = true) : forall chs st k d,
  tgood g c st -> tk_match c st k -> tsim c st d -> r_tbar k = 0 -> chunks_ok g c k chs = true ->
  chunked c st chs = core c st (glue 0 chs).
Proof.
  induction chs as [|a r IH]; intros st k d Hgood Hlk Hsim Hk0 Hok.
  - cbn [chunked glue]. rewrite core_unfold. cbn [foldM rbind].
    assert (Hcl : close c (ls_of c st) = Ok (ls_of c st)).
    { unfold close. destruct Hlk as (_ & K2 & _). cbn [ls_of l_tbar l_has] in *. rewrite K2, Hk0. reflexivity. }
    rewrite Hcl. cbn [rbind]. now rewrite ts_ls.
  - cbn [chunks_ok] in Hok.
    assert (HT : r_time k = t_time st) by (destruct Hlk as (K1 & _); symmetry; exact K1).
    rewrite HT in Hok.
    apply andb_prop in Hok; destruct Hok as [Hok Hrest]. apply andb_prop in Hok; destruct Hok as [Hok Hh].
    apply andb_prop in Hok; destruct Hok as [Hv Htb]. apply Z.eqb_eq in Htb. apply negb_true_iff in Hh.
    destruct (chunk_step g c st k d a Hc Hgood Hlk Hsim Hv Htb Hh)
      as (s1 & d1 & Hr & Hcl & Hcap & Hhas & Hg1 & Hk1 & Hs1).
    set (k' := fst (ref_run c k (map (shift_ev (t_time st)) a))) in *.
    cbn [chunked]. rewrite core_unfold, Hr. cbn [rbind]. rewrite Hcl. cbn [rbind fst snd].
    rewrite (IH (ts_of s1) k' d1 Hg1 Hk1 Hs1 Htb Hrest).
    (* the whole run *)
    rewrite !core_core_from. cbn [glue]. rewrite core_from_app, foldM_shift, Z.add_0_r, Hr. cbn [rbind].
    rewrite (core_from_glue c r (t_time st) (0 + chunk_len a)), (core_from_restart c _ _ s1 Hcap Hhas).
    assert (Ht : t_time st + (0 + chunk_len a) = t_time (ts_of s1)).
    { destruct Hk1 as (K1 & _). cbn [ls_of l_time] in K1. rewrite K1. unfold k'.
      rewrite ref_run_time, HT. unfold chunk_len.
      pose proof (last_time_shift (t_time st) a 0) as L. rewrite Z.add_0_l in L. rewrite L. lia. }
    rewrite Ht. reflexivity.
Qed.

Lemma chunks_valid g c : forall chs k,
  chunks_ok g c k chs = true -> valid_from g c k (glue (r_time k) chs) = true.
Proof.
  induction chs as [|a r IH]; intros k Hok; [reflexivity|]. cbn [chunks_ok] in Hok. cbn [glue].
  apply andb_prop in Hok; destruct Hok as [Hok Hrest]. apply andb_prop in Hok; destruct Hok as [Hok _].
  apply andb_prop in Hok; destruct Hok as [Hv _].
  rewrite valid_from_app, Hv. cbn [andb].
  specialize (IH _ Hrest). rewrite ref_run_time in IH.
  pose proof (last_time_shift (r_time k) a 0) as L. rewrite Z.add_0_l in L. rewrite L in IH.
  unfold chunk_len. now rewrite Z.add_comm.
Qed.

Theorem C03_chunked_tokens g c chs :
  valid_cfg g c = true -> chunks_ok g c (rclk0 c) chs = true ->
  chunked c (tstate0 c) chs = core c (tstate0 c) (glue 0 chs).
Proof.
  intros Hc Hok.
  apply (chunked_eq g c Hc chs (tstate0 c) (rclk0 c) (dstate0 c) (init_good g c Hc) (init_match c) (init_sim c)
           eq_refl Hok).
Qed.

Theorem C03_chunked_roundtrip g c chs :
  valid_cfg g c = true -> chunks_ok g c (rclk0 c) chs = true ->
  exists toks st seqs,
    chunked c (tstate0 c) chs = Ok (toks, st) /\ core c (tstate0 c) (glue 0 chs) = Ok (toks, st) /\
    detokenise c toks = Ok seqs /\ length seqs = Z.to_nat (c_ntracks c) /\
    forall i, (i < length seqs)%nat -> Permutation (filter rel (nth i seqs [])) (exp_track c (glue 0 chs) i).
Proof.
  intros Hc Hok. pose proof (chunks_valid g c chs (rclk0 c) Hok) as Hv. cbn [rclk0 r_time] in Hv.
  destruct (C01_core_roundtrip g c (glue 0 chs) Hc Hv) as (toks & st & seqs & H1 & _ & _ & _ & H3 & H4 & H5).
  exists toks, st, seqs. rewrite (C03_chunked_tokens g c chs Hc Hok). repeat split; assumption.
Qed.

(* any two groupings of the same piece give the same tokens and final state *)
Theorem C03_regroup g c chs1 chs2 :
  valid_cfg g c = true -> chunks_ok g c (rclk0 c) chs1 = true -> chunks_ok g c (rclk0 c) chs2 = true ->
  glue 0 chs1 = glue 0 chs2 ->
  chunked c (tstate0 c) chs1 = chunked c (tstate0 c) chs2.
Proof.
  intros Hc H1 H2 E. rewrite (C03_chunked_tokens g c chs1 Hc H1), (C03_chunked_tokens g c chs2 Hc H2). now rewrite E.
Qed.

(* ================================================================ non-vacuity *)
Definition chunks_ex : list (list event) :=
  [[ev_note 0 60 0 24 100; ev_note 1 62 0 12 30; ev_note 0 61 50 24 64; ev_cap 96];
   [ev_ts 3 4 0; ev_note 1 60 4 6 127; ev_cap 72];
   [ev_cap 72]].
Example ex_chunks_ok : valid_cfg 2 cfg_ex = true /\ chunks_ok 2 cfg_ex (rclk0 cfg_ex) chunks_ex = true.
Proof. vm_compute. split; reflexivity. Qed.
Example ex_chunks_run :
  exists toks st, chunked cfg_ex (tstate0 cfg_ex) chunks_ex = Ok (toks, st) /\ length toks = 26%nat /\ t_time st = 240.
Proof. eexists _, _. vm_compute. repeat split. Qed.
Example ex_regroup_glue :
  glue 0 chunks_ex =
  glue 0 [[ev_note 0 60 0 24 100; ev_note 1 62 0 12 30; ev_note 0 61 50 24 64; ev_cap 96; ev_ts 3 4 96;
           ev_note 1 60 100 6 127; ev_cap 168]; [ev_cap 72]].
Proof. vm_compute. reflexivity. Qed.
Example ex_regroup_ok :
  chunks_ok 2 cfg_ex (rclk0 cfg_ex)
    [[ev_note 0 60 0 24 100; ev_note 1 62 0 12 30; ev_note 0 61 50 24 64; ev_cap 96; ev_ts 3 4 96;
      ev_note 1 60 100 6 127; ev_cap 168]; [ev_cap 72]] = true.
Proof. vm_compute. reflexivity. Qed.
