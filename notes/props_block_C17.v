
(* ================================================================ message-level sensitivity (Proofs/C17_roll.v)
   Vocabulary (all computable, defined in Proofs/C17_roll.v, C05_wf.v):
     wf_key k l          the NOTE_ON/NOTE_OFF messages of key k = (channel, pitch) alternate in l, starting with an on,
                         ending with an off, every off strictly later than its on, the next on not before the off
     wf_seq a            every key of a is wf_key in SORTED order (sort_abs a); implied by wf_keys a (stored order)
     kproj k l           the note messages of key k in l, in list order
     roll_key L          independent pairing of ONE key's messages: (channel, pitch, onset, duration, velocity) of
                         L[0],L[1]; L[2],L[3]; ...
     sigb ty m           m is a non-note message whose type is compared (time / key signature unless ignored)
     entry_note e        (channel, pitch, onset, duration, velocity) of an interleaved entry
     ref ty ch l         per channel: every NOTE_ON of l with the first NOTE_OFF of its key after it, every compared
                         signature alone, in list order;  events ty l: the same without singling out a channel
     chan_canon ich ivel its iks ch a = the compared attributes of ref .. ch (sort_abs a)
     canon ich ivel its iks a          = the compared attributes of events .. (sort_abs a): the time-ordered list of
                         (channel, NOTE_ON, onset, pitch, duration, velocity, 0, 0, None) and
                         (channel, TIME_/KEY_SIGNATURE, tick, 0, 0, 0, numerator, denominator, key) tuples
     one_chan ty c a     every compared message of a is on channel c;  all_chan c a: every message of a is
     unvel m             m with the velocity of a NOTE_ON erased *)
From Proofs Require Import C05_proofs C05_wf C17_roll.

(* on well-formed input equals never raises *)
Theorem C17_wf_total : forall (a b : list msg) (ich its iks ivel : bool),
  wf_seq a = true -> wf_seq b = true -> exists r, equals a b ich its iks ivel = Ok r.
Proof. exact C17_roll.equals_wf_ok. Qed.
Print Assumptions C17_wf_total.

(* what the list equals() iterates over contains (any number of channels): restricted to channel ch and pitch n, its
   NOTE_ON entries are, in order, exactly the notes (channel, pitch, onset, duration, velocity) of that key as paired
   up independently by roll_key; the remaining entries of channel ch are exactly the compared signature messages of
   that channel, in sorted order *)
Theorem C17_view_notes : forall (a : list msg) (its iks : bool), wf_seq a = true ->
  exists ia, view a its iks = Ok ia /\
  (forall ch n,
     map entry_note (filter (fun e => (fst e =? ch) && (is_on (p_first (snd e)) && (m_note (p_first (snd e)) =? n))) ia) =
     roll_key (kproj (ch, n) (sort_abs a))) /\
  (forall ch,
     map (fun e => p_first (snd e)) (filter (fun e => (fst e =? ch) && negb (is_on (p_first (snd e)))) ia) =
     filter (fun m => (m_chan m =? ch) && sigb (eq_types its iks) m) (sort_abs a)).
Proof. exact C17_roll.C17_view_notes. Qed.
Print Assumptions C17_view_notes.

(* clause "fails whenever some note's pitch, onset, duration, channel or velocity, or some time or key signature or
   its tick, differs", ANY number of channels, channels compared: equality implies that every channel has the same
   canonical list of notes and signature events on both sides ... *)
Theorem C17_equal_chan : forall (a b : list msg) (its iks ivel : bool),
  wf_seq a = true -> wf_seq b = true -> equals a b false its iks ivel = Ok true ->
  forall ch, chan_canon false ivel its iks ch a = chan_canon false ivel its iks ch b.
Proof. exact C17_roll.C17_equal_chan. Qed.
Print Assumptions C17_equal_chan.

(* ... so one differing note or signature event on some channel makes equals False *)
Theorem C17_sensitive_chan : forall (a b : list msg) (its iks ivel : bool) (ch : Z),
  wf_seq a = true -> wf_seq b = true ->
  chan_canon false ivel its iks ch a <> chan_canon false ivel its iks ch b ->
  equals a b false its iks ivel = Ok false.
Proof. exact C17_roll.C17_sensitive_chan. Qed.
Print Assumptions C17_sensitive_chan.

(* PARTIAL (each argument uses a single channel for its compared messages; the two channels may differ): equals is
   True exactly when the canonical time-ordered event lists coincide, False exactly when they differ -- for every
   combination of the four flags.  Missing: several channels per sequence (there the converse direction depends on
   the tie-break order of simultaneous events of different channels, see C17_flags_monotone_signature_refuted). *)
Theorem C17_equal_iff_canon_partial : forall (a b : list msg) (ich its iks ivel : bool) (ca cb : Z),
  wf_seq a = true -> wf_seq b = true ->
  one_chan (eq_types its iks) ca a = true -> one_chan (eq_types its iks) cb b = true ->
  (equals a b ich its iks ivel = Ok true <-> canon ich ivel its iks a = canon ich ivel its iks b) /\
  (equals a b ich its iks ivel = Ok false <-> canon ich ivel its iks a <> canon ich ivel its iks b).
Proof. exact C17_roll.C17_equal_iff_canon_partial. Qed.
Print Assumptions C17_equal_iff_canon_partial.

(* the notes and the signature events separately *)
Theorem C17_equal_notes_sigs_partial : forall (a b : list msg) (ich its iks ivel : bool) (ca cb : Z),
  wf_seq a = true -> wf_seq b = true ->
  one_chan (eq_types its iks) ca a = true -> one_chan (eq_types its iks) cb b = true ->
  equals a b ich its iks ivel = Ok true ->
  canon_notes ich ivel its iks a = canon_notes ich ivel its iks b /\
  canon_sigs ich ivel its iks a = canon_sigs ich ivel its iks b.
Proof. exact C17_roll.C17_equal_notes_sigs. Qed.
Print Assumptions C17_equal_notes_sigs_partial.

(* one canonical entry differs (a note's pitch / onset / duration / velocity / channel, a signature's value / tick,
   as far as the flags compare them): False *)
Theorem C17_canon_sensitive_partial : forall (a b : list msg) (ich its iks ivel : bool) (ca cb : Z) (i : nat) x y,
  wf_seq a = true -> wf_seq b = true ->
  one_chan (eq_types its iks) ca a = true -> one_chan (eq_types its iks) cb b = true ->
  nth_error (canon ich ivel its iks a) i = Some x -> nth_error (canon ich ivel its iks b) i = Some y -> x <> y ->
  equals a b ich its iks ivel = Ok false.
Proof. exact C17_roll.C17_canon_sensitive. Qed.
Print Assumptions C17_canon_sensitive_partial.

(* clause "each ignore flag relaxes only its own attribute", velocity: message lists that differ only in the
   velocities of their NOTE_ONs compare equal with ignore_velocity ... *)
Theorem C17_velocity_only_partial : forall (a b : list msg) (ich its iks : bool) (ca cb : Z),
  wf_seq a = true -> wf_seq b = true ->
  one_chan (eq_types its iks) ca a = true -> one_chan (eq_types its iks) cb b = true ->
  map unvel a = map unvel b ->
  equals a b ich its iks true = Ok true.
Proof. exact C17_roll.C17_velocity_only. Qed.
Print Assumptions C17_velocity_only_partial.

(* ... and without it exactly when no velocity differs (the sorted message lists are identical) *)
Theorem C17_velocity_strict_partial : forall (a b : list msg) (ich its iks : bool) (ca cb : Z),
  wf_seq a = true -> wf_seq b = true ->
  one_chan (eq_types its iks) ca a = true -> one_chan (eq_types its iks) cb b = true ->
  map unvel a = map unvel b ->
  (equals a b ich its iks false = Ok true <-> sort_abs a = sort_abs b).
Proof. exact C17_roll.C17_velocity_strict. Qed.
Print Assumptions C17_velocity_strict_partial.

(* channel: a uniform relabelling of a single-channel sequence compares equal with ignore_channel, and unequal
   without it as soon as the channel really changes and there is a note or compared signature *)
Theorem C17_relabel : forall (a : list msg) (c c' : Z) (its iks ivel : bool),
  wf_seq a = true -> all_chan c a = true ->
  equals a (set_channel a c') true its iks ivel = Ok true /\
  (c <> c' -> existsb (fun m => is_on m || sigb (eq_types its iks) m) a = true ->
   equals a (set_channel a c') false its iks ivel = Ok false).
Proof. exact C17_roll.C17_relabel. Qed.
Print Assumptions C17_relabel.

(* ANY number of channels, EVERY flag combination: equality implies that the two sequences have the same multiset
   of compared events (the canonical lists are permutations of each other) ... *)
Theorem C17_equal_multiset : forall (a b : list msg) (ich its iks ivel : bool),
  wf_seq a = true -> wf_seq b = true -> equals a b ich its iks ivel = Ok true ->
  Permutation (canon ich ivel its iks a) (canon ich ivel its iks b).
Proof. exact C17_roll.C17_equal_multiset. Qed.
Print Assumptions C17_equal_multiset.

(* ... so equals is False whenever the multisets differ, in particular when one side has a note or signature event
   (as compared under the flags) that the other side does not have: a changed pitch, onset, duration, velocity,
   channel, signature value or tick *)
Theorem C17_sensitive_multiset : forall (a b : list msg) (ich its iks ivel : bool),
  wf_seq a = true -> wf_seq b = true ->
  ~ Permutation (canon ich ivel its iks a) (canon ich ivel its iks b) -> equals a b ich its iks ivel = Ok false.
Proof. exact C17_roll.C17_sensitive_multiset. Qed.
Print Assumptions C17_sensitive_multiset.

Theorem C17_sensitive_event : forall (a b : list msg) (ich its iks ivel : bool) x,
  wf_seq a = true -> wf_seq b = true ->
  In x (canon ich ivel its iks a) -> ~ In x (canon ich ivel its iks b) -> equals a b ich its iks ivel = Ok false.
Proof. exact C17_roll.C17_sensitive_event. Qed.
Print Assumptions C17_sensitive_event.

(* the signature flags on single-channel well-formed sequences: they only relax (the refutation
   C17_flags_monotone_signature_refuted needs an orphan note-off or two channels) ... *)
Theorem C17_flags_monotone_ts_partial : forall (a b : list msg) (ich iks ivel : bool) (ca cb : Z),
  wf_seq a = true -> wf_seq b = true ->
  one_chan (eq_types false iks) ca a = true -> one_chan (eq_types false iks) cb b = true ->
  equals a b ich false iks ivel = Ok true -> equals a b ich true iks ivel = Ok true.
Proof. exact C17_roll.C17_flags_monotone_ts. Qed.
Print Assumptions C17_flags_monotone_ts_partial.

Theorem C17_flags_monotone_ks_partial : forall (a b : list msg) (ich its ivel : bool) (ca cb : Z),
  wf_seq a = true -> wf_seq b = true ->
  one_chan (eq_types its false) ca a = true -> one_chan (eq_types its false) cb b = true ->
  equals a b ich its false ivel = Ok true -> equals a b ich its true ivel = Ok true.
Proof. exact C17_roll.C17_flags_monotone_ks. Qed.
Print Assumptions C17_flags_monotone_ks_partial.

(* ... sequences that differ only in their time-signature (key-signature) messages compare equal with the flag ... *)
Theorem C17_ts_only_partial : forall (a b : list msg) (ich iks ivel : bool) (ca cb : Z),
  wf_seq a = true -> wf_seq b = true ->
  one_chan (eq_types true iks) ca a = true -> one_chan (eq_types true iks) cb b = true ->
  filter (fun m => negb (tsb m)) a = filter (fun m => negb (tsb m)) b ->
  equals a b ich true iks ivel = Ok true.
Proof. exact C17_roll.C17_ts_only. Qed.
Print Assumptions C17_ts_only_partial.

Theorem C17_ks_only_partial : forall (a b : list msg) (ich its ivel : bool) (ca cb : Z),
  wf_seq a = true -> wf_seq b = true ->
  one_chan (eq_types its true) ca a = true -> one_chan (eq_types its true) cb b = true ->
  filter (fun m => negb (ksb m)) a = filter (fun m => negb (ksb m)) b ->
  equals a b ich its true ivel = Ok true.
Proof. exact C17_roll.C17_ks_only. Qed.
Print Assumptions C17_ks_only_partial.

(* ... and unequal without it as soon as their signature events (type, tick, value, channel) differ *)
Theorem C17_sigs_differ_partial : forall (a b : list msg) (ich its iks ivel : bool) (ca cb : Z),
  wf_seq a = true -> wf_seq b = true ->
  one_chan (eq_types its iks) ca a = true -> one_chan (eq_types its iks) cb b = true ->
  canon_sigs ich ivel its iks a <> canon_sigs ich ivel its iks b ->
  equals a b ich its iks ivel = Ok false.
Proof. exact C17_roll.C17_sigs_differ. Qed.
Print Assumptions C17_sigs_differ_partial.
