(* Pairing.v -- get_message_pairings, get_interleaved_message_pairings, cutoff, quantise, quantise_note_lengths,
   equals.  scoda/sequences/absolute_sequence.py *)
From Model Require Export Seq.

(* A pairing: first message with its position in the (sorted) message list, and optionally the closing message,
   with its position when it is a message of the sequence (None = an imputed Message object). *)
Definition pairing : Set := ((nat * msg) * option (option nat * msg))%type.
Definition p_first (p : pairing) : msg := snd (fst p).
Definition p_second (p : pairing) : option msg := option_map snd (snd p).

Definition tmem (t : mtype) (l : list mtype) : bool := existsb (mtype_eqb t) l.

(* per-channel state: pairings of that channel (in order) and the open table pitch -> index in that list *)
Record chst : Set := mkch { c_pairs : list pairing; c_open : list (Z * nat) }.

Fixpoint set_nth {A} (n : nat) (f : A -> A) (l : list A) : list A :=
  match l, n with
  | [], _ => []
  | x :: l', O => f x :: l'
  | x :: l', S n' => x :: set_nth n' f l'
  end.

Definition close_with (c : option nat * msg) (p : pairing) : pairing := (fst p, Some c).

Definition pair_step (types : list mtype) (impute : bool) (st : list (Z * chst)) (im : nat * msg) : list (Z * chst) :=
  let '(i, m) := im in
  if negb (tmem (m_type m) types) then st else
  let ch := m_chan m in
  let cs := match dget Z.eqb ch st with Some c => c | None => mkch [] [] end in
  let cs' :=
    match m_type m with
    | NOTE_ON =>
        let cs1 :=
          match dget Z.eqb (m_note m) (c_open cs) with
          | Some idx => if impute
                        then mkch (set_nth idx (close_with (None, mk_off ch (m_note m) (m_time m) (m_tf m))) (c_pairs cs))
                                  (ddel Z.eqb (m_note m) (c_open cs))
                        else cs
          | None => cs
          end in
        mkch (c_pairs cs1 ++ [((i, m), None)]) (dset Z.eqb (m_note m) (length (c_pairs cs1)) (c_open cs1))
    | NOTE_OFF =>
        match dget Z.eqb (m_note m) (c_open cs) with
        | Some idx => mkch (set_nth idx (close_with (Some i, m)) (c_pairs cs)) (ddel Z.eqb (m_note m) (c_open cs))
        | None => cs
        end
    | _ => mkch (c_pairs cs ++ [((i, m), None)]) (c_open cs)
    end in
  dset Z.eqb ch cs' st.

Fixpoint index_from {A} (i : nat) (l : list A) : list (nat * A) :=
  match l with [] => [] | x :: l' => (i, x) :: index_from (S i) l' end.

Definition impute_close (std : Z) (impute : bool) (p : pairing) : pairing :=
  match snd p with
  | None => if impute && is_on (p_first p)
            then (fst p, Some (None, mk_off (m_chan (p_first p)) (m_note (p_first p)) (m_time (p_first p) + std) (m_tf (p_first p))))
            else p
  | Some _ => p
  end.

(* operates on the sorted list (get_message_pairings sorts the sequence first) *)
Definition pairings_sorted (types : list mtype) (std : Z) (impute : bool) (sorted : list msg) : list (Z * list pairing) :=
  let st := fold_left (pair_step types impute) (index_from 0 sorted) [] in
  map (fun kv => (fst kv, map (impute_close std impute) (c_pairs (snd kv)))) st.

Definition NOTE_TYPES : list mtype := [NOTE_ON; NOTE_OFF].

(* ---------------------------------------------------------------- interleaving *)
Fixpoint min_head (l : list (Z * list pairing)) (i : nat) (best : option (nat * Z)) : option (nat * Z) :=
  match l with
  | [] => best
  | (_, []) :: l' => min_head l' (S i) best
  | (_, p :: _) :: l' =>
      let t := m_time (p_first p) in
      match best with
      | None => min_head l' (S i) (Some (i, t))
      | Some (_, bt) => if t <? bt then min_head l' (S i) (Some (i, t)) else min_head l' (S i) best
      end
  end.

Fixpoint interleave_fuel (fuel : nat) (l : list (Z * list pairing)) : list (Z * pairing) :=
  match fuel with
  | O => []
  | S f =>
      match min_head l O None with
      | None => []
      | Some (i, _) =>
          match nth_error l i with
          | Some (ch, p :: ps) => (ch, p) :: interleave_fuel f (set_nth i (fun _ => (ch, ps)) l)
          | _ => []
          end
      end
  end.
Definition interleave (l : list (Z * list pairing)) : list (Z * pairing) :=
  interleave_fuel (length (concat (map snd l))) l.

(* the Python loop starts whenever some channel exists and then indexes the first channel's (empty) list:
   IndexError when there are channels but no pairing at all (e.g. a sequence holding only an orphan note-off) *)
Definition interleaved (types : list mtype) (std : Z) (impute : bool) (sorted : list msg) : result (list (Z * pairing)) :=
  let ps := pairings_sorted types std impute sorted in
  match ps, concat (map snd ps) with
  | _ :: _, [] => Err IndexErr
  | _, _ => Ok (interleave ps)
  end.

(* ---------------------------------------------------------------- cutoff *)
Definition cutoff_updates (maxlen red : Z) (ps : list (Z * list pairing)) : list (nat * (Z * bool)) :=
  flat_map (fun kv => flat_map (fun p : pairing =>
     match snd p with
     | Some (Some i, off) => if maxlen <? m_time off - m_time (p_first p) then [(i, (m_time (p_first p) + red, m_tf (p_first p)))] else []
     | _ => []
     end) (snd kv)) ps.

Fixpoint lookup_nat {V} (i : nat) (l : list (nat * V)) : option V :=
  match l with [] => None | (j, v) :: l' => if Nat.eqb i j then Some v else lookup_nat i l' end.

(* maximum_length / reduced_length are int arguments *)
Definition cutoff (l : list msg) (maxlen red : Z) : list msg :=
  let s := sort_abs l in
  let ups := cutoff_updates maxlen red (pairings_sorted NOTE_TYPES PPQN true s) in
  sort_abs (map (fun im => match lookup_nat (fst im) ups with
                           | Some (t, f) => set_time (snd im) t f
                           | None => snd im end) (index_from 0 s)).

(* ---------------------------------------------------------------- quantise_note_lengths *)
Definition p_on_time (p : pairing) : Z := m_time (p_first p).
Definition p_off_time (p : pairing) : Z := match p_second p with Some o => m_time o | None => m_time (p_first p) end.

(* next pairing of the same pitch after position i in the channel's list *)
Fixpoint next_same (note : Z) (l : list pairing) : option pairing :=
  match l with [] => None | p :: l' => if Z.eqb (m_note (p_first p)) note then Some p else next_same note l' end.

Definition qnl_valid (values : list Z) (dne : bool) (p : pairing) (next : option pairing) : list Z :=
  let cur := p_off_time p - p_on_time p in
  let v1 := match next with
            | None => values
            | Some nx => fold_left (fun acc v => if p_on_time nx <? p_off_time p + (v - cur)
                                                 then remove_first Z.eqb v acc else acc) values values
            end in
  fold_left (fun acc v => if (0 <? v - cur) && dne && memZ v acc then remove_first Z.eqb v acc else acc) values v1.

Fixpoint qnl_channel (values : list Z) (dne : bool) (l : list pairing) : list msg :=
  match l with
  | [] => []
  | p :: l' =>
      let valid := qnl_valid values dne p (next_same (m_note (p_first p)) l') in
      let rest := qnl_channel values dne l' in
      match valid, snd p with
      | [], _ => rest
      | _, Some (_, off) =>
          let cur := p_off_time p - p_on_time p in
          let best := closest cur valid in
          p_first p :: set_time off (m_time off + (best - cur)) (m_tf off) :: rest
      | _, None => p_first p :: rest
      end
  end.

Definition quantise_note_lengths (l : list msg) (values : list Z) (std : Z) (dne : bool) : list msg :=
  let s := sort_abs l in
  let ps := pairings_sorted NOTE_TYPES std true s in
  sort_abs (flat_map (fun kv => qnl_channel values dne (snd kv)) ps ++ filter (fun m => negb (is_note m)) s).

(* ---------------------------------------------------------------- quantise (fixed code) *)
Definition positions (t : Z) (steps : list Z) : list Z :=
  map (fun s => (t / s) * s) steps ++ map (fun s => (t / s) * s + s) steps.

Record qstate : Set := mkq {
  q_open : list (k2 * Z);              (* open_messages : key -> quantised start *)
  q_tim : list (k2 * list Z);          (* message_timings *)
  q_out : list msg }.

Definition qstep (steps : list Z) (s : qstate) (m : msg) : qstate :=
  let k := (m_chan m, m_note m) in
  let t := m_time m in
  let poss := positions t steps in
  match m_type m with
  | NOTE_ON =>
      let nt := closest t poss in
      let m' := set_time m nt (m_tf m) in
      let s1 := match dget k2_eqb k (q_open s) with
                | Some _ => mkq (ddel k2_eqb k (q_open s))
                                (dset k2_eqb k (match dget k2_eqb k (q_tim s) with Some l => l ++ [nt] | None => [nt] end) (q_tim s))
                                (q_out s ++ [mk_off (m_chan m) (m_note m) nt (m_tf m)])
                | None => s
                end in
      let can_open := match dget k2_eqb k (q_tim s1) with
                      | None => true
                      | Some l => negb (nt <? nth 1 l 0)
                      end in
      if can_open then mkq (dset k2_eqb k nt (q_open s1)) (dset k2_eqb k [nt] (q_tim s1)) (q_out s1 ++ [m'])
      else s1
  | NOTE_OFF =>
      match dget k2_eqb k (q_open s) with
      | Some ot =>
          let valid := filter (fun p => 0 <? p - ot) poss in
          let valid := match valid with [] => [ot] | _ => valid end in
          let nt := closest t valid in
          mkq (ddel k2_eqb k (q_open s))
              (dset k2_eqb k (match dget k2_eqb k (q_tim s) with Some l => l ++ [nt] | None => [nt] end) (q_tim s))
              (q_out s ++ [set_time m nt (m_tf m)])
      | None => s
      end
  | _ => mkq (q_open s) (q_tim s) (q_out s ++ [set_time m (closest t poss) (m_tf m)])
  end.

(* smothered notes: indices (on, off) of pairs with non-positive length *)
Fixpoint smothered (l : list (nat * msg)) (tbl : list (k2 * (nat * Z))) : list nat :=
  match l with
  | [] => []
  | (i, m) :: l' =>
      let k := (m_chan m, m_note m) in
      match m_type m with
      | NOTE_ON => smothered l' (dset k2_eqb k (i, m_time m) tbl)
      | NOTE_OFF =>
          match dget k2_eqb k tbl with
          | Some (j, t) => (if m_time m - t <=? 0 then [j; i] else []) ++ smothered l' (ddel k2_eqb k tbl)
          | None => smothered l' tbl
          end
      | _ => smothered l' tbl
      end
  end.

(* fixed code: indices are removed in ascending order with a running shift = remove exactly that index set
   (all indices are distinct positions of the list) *)
Definition remove_indices {A} (l : list A) (idx : list nat) : list A :=
  map snd (filter (fun ia => negb (existsb (Nat.eqb (fst ia)) idx)) (index_from 0 l)).

Definition quantise (l : list msg) (steps : list Z) : result (list msg) :=
  match steps with
  | [] => match l with [] => Ok [] | _ => Err IndexErr end
  | _ =>
      let s := fold_left (qstep steps) l (mkq [] [] []) in
      Ok (sort_abs (remove_indices (q_out s) (smothered (index_from 0 (q_out s)) [])))
  end.

(* ---------------------------------------------------------------- equals (fixed code: compares ticks) *)
Definition eq_types (its iks : bool) : list mtype :=
  [NOTE_ON; NOTE_OFF] ++ (if its then [] else [TIME_SIGNATURE]) ++ (if iks then [] else [KEY_SIGNATURE]).

Definition pair_equal (ich ivel : bool) (a b : Z * pairing) : bool :=
  let ma := p_first (snd a) in let mb := p_first (snd b) in
  (ich || Z.eqb (fst a) (fst b)) &&
  mtype_eqb (m_type ma) (m_type mb) &&
  Z.eqb (m_time ma) (m_time mb) &&
  match m_type ma with
  | NOTE_ON => Z.eqb (m_note ma) (m_note mb) &&
               Z.eqb (p_off_time (snd a) - m_time ma) (p_off_time (snd b) - m_time mb) &&
               (ivel || Z.eqb (m_vel ma) (m_vel mb))
  | TIME_SIGNATURE => Z.eqb (m_num ma) (m_num mb) && Z.eqb (m_den ma) (m_den mb)
  | KEY_SIGNATURE => okey_eqb (m_key ma) (m_key mb)
  | _ => true
  end.

Fixpoint all2 {A} (f : A -> A -> bool) (a b : list A) : bool :=
  match a, b with
  | [], [] => true
  | x :: a', y :: b' => f x y && all2 f a' b'
  | _, _ => false
  end.

Definition equals (a b : list msg) (ich its iks ivel : bool) : result bool :=
  let ty := eq_types its iks in
  do ia <- interleaved ty PPQN true (sort_abs a);
  do ib <- interleaved ty PPQN true (sort_abs b);
  Ok (all2 (pair_equal ich ivel) ia ib).
