(* C03 (piece level) -- threading the tokeniser state through `tokenise` calls on consecutive groups of bars.
   Part 1: `tokenise_many` (the threaded calls of the model's own `tokenise`, defined in C19_tokenise.v) is the
   core-level `chunked` run on the front-end outputs of the calls, hence (C03_chunked_tokens) the single core run on
   the glued event list. *)
From Coq Require Import ZArith List Bool Lia Permutation Sorted.
From Model Require Import Base Util Seq Pairing Tok.
From Proofs Require Import C05_closest C04_sort C04_proofs C07_proofs.
From Proofs Require Import C01_frontend_sig C01_frontend_pipe C01_frontend_pair C01_rest C01_proofs C01_frontend C03_proofs.
From Proofs Require Import C03_piece_norm C03_piece_fe C03_piece_bars C03_piece_clock C03_piece_join.
From Proofs Require C19_tokenise.
Import ListNotations.
Open Scope Z_scope.

Notation tokenise_many := C19_tokenise.tokenise_many.

(* every call hands one list per configured track *)
Definition calls_len (c : cfg) (calls : list (list (list msg))) : bool :=
  forallb (fun call => lenZ call =? c_ntracks c) calls.

Lemma tokenise_many_chunked c : forall calls chs st,
  calls_len c calls = true -> mapM tok_frontend calls = Ok chs ->
  tokenise_many c st calls = chunked c st chs.
Proof.
  induction calls as [|call calls IH]; intros chs st Hl Hf.
  - cbn [mapM] in Hf. injection Hf as <-. reflexivity.
  - cbn [calls_len forallb] in Hl. apply andb_prop in Hl. destruct Hl as [Hl1 Hl].
    cbn [mapM] in Hf. destruct (tok_frontend call) as [evs|] eqn:E1; cbn [rbind] in Hf; [|discriminate].
    destruct (mapM tok_frontend calls) as [chs'|] eqn:E2; cbn [rbind] in Hf; [|discriminate].
    injection Hf as <-. cbn [C19_tokenise.tokenise_many chunked].
    rewrite tokenise_core, Hl1. cbn [negb]. rewrite E1. cbn [rbind].
    destruct (core c st evs) as [[t1 st1]|]; cbn [rbind fst snd]; [|reflexivity].
    rewrite (IH chs' st1 Hl eq_refl). reflexivity.
Qed.

(* Target 1: tokens and final state of the threaded calls = those of ONE core run on the glued events *)
Theorem C03_tokenise_chunked g c calls chs :
  valid_cfg g c = true -> calls_len c calls = true -> mapM tok_frontend calls = Ok chs ->
  chunks_ok g c (rclk0 c) chs = true ->
  tokenise_many c (tstate0 c) calls = core c (tstate0 c) (glue 0 chs).
Proof.
  intros Hc Hl Hf Hok. rewrite (tokenise_many_chunked c calls chs _ Hl Hf). now apply C03_chunked_tokens with g.
Qed.

(* ================================================================ Part 2: a group of bars is a chunk *)
(* a time signature the tokeniser can express, with a bar length that is a positive multiple of the grid unit *)
Definition sig_valid (g : Z) (c : cfg) (nd : Z * Z) : bool :=
  (0 <? snd nd) && ((fst nd * DEFAULT_TS_DEN) mod snd nd =? 0) &&
  in_range (c_tslo c) ((fst nd * DEFAULT_TS_DEN) / snd nd) (c_tshi c) &&
  (0 <? bar_cap c (fst nd) (snd nd)) && divb g (bar_cap c (fst nd) (snd nd)).

Lemma sig_valid_pos g c sg : forallb (sig_valid g c) sg = true -> caps_pos c sg.
Proof.
  intros H. apply Forall_forall. intros nd Hnd. rewrite forallb_forall in H. specialize (H nd Hnd).
  unfold sig_valid in H. apply andb_prop in H. destruct H as [H _]. apply andb_prop in H. destruct H as [_ H].
  now apply Z.ltb_lt in H.
Qed.

Lemma bars_dur_div g c sg : 0 < g -> forallb (sig_valid g c) sg = true -> (g | bars_dur c sg).
Proof.
  intros Hg. induction sg as [|nd sg IH]; intros H; [apply Z.divide_0_r|]. cbn [forallb] in H.
  apply andb_prop in H. destruct H as [H1 H2]. cbn [bars_dur]. apply Z.divide_add_r; [|now apply IH].
  unfold sig_valid in H1. apply andb_prop in H1. destruct H1 as [_ H1]. now apply divb_true.
Qed.

Lemma bars_dur_nonneg c sg : caps_pos c sg -> 0 <= bars_dur c sg.
Proof. induction 1 as [|nd sg H _ IH]; cbn [bars_dur]; lia. Qed.

Lemma bar_tsl_lt c sg : caps_pos c sg -> forall s y, In y (bar_tsl c s sg) -> fst (fst y) < s + bars_dur c sg.
Proof.
  induction 1 as [|nd sg Hp Hps IH]; intros s y Hy; [destruct Hy|]. cbn [bar_tsl bars_dur] in *.
  pose proof (bars_dur_nonneg c sg Hps). destruct Hy as [<-|Hy]; [cbn [fst]; lia|]. specialize (IH _ _ Hy). lia.
Qed.

(* the time signatures of the bars of a group against the grid (t0, B) on which the group starts *)
Lemma bars_run g c (Hg : 0 < g) : forall sg s t0 B prev,
  forallb (sig_valid g c) sg = true -> 0 < B -> (s - t0) mod B = 0 ->
  (prev = (NONE, NONE) \/ B = bar_cap c (fst prev) (snd prev)) -> (g | s) ->
  ts_run g c t0 B (changes prev (bar_tsl c s sg)) = true /\
  (s + bars_dur c sg - fst (ts_grid c t0 B (changes prev (bar_tsl c s sg))))
    mod snd (ts_grid c t0 B (changes prev (bar_tsl c s sg))) = 0.
Proof.
  induction sg as [|nd sg IH]; intros s t0 B prev Hv HB Hmod Hprev Hs.
  - cbn [bar_tsl changes ts_run ts_grid bars_dur fst snd]. split; [reflexivity|]. now rewrite Z.add_0_r.
  - cbn [forallb] in Hv. apply andb_prop in Hv. destruct Hv as [Hv1 Hv].
    pose proof Hv1 as Hv1'. unfold sig_valid in Hv1'.
    apply andb_prop in Hv1'. destruct Hv1' as [V4 V5]. apply andb_prop in V4. destruct V4 as [V3 V4].
    apply andb_prop in V3. destruct V3 as [V2 V3]. apply andb_prop in V2. destruct V2 as [V1 V2].
    pose proof V4 as Hcap. apply Z.ltb_lt in Hcap. pose proof V1 as Hden. apply Z.ltb_lt in Hden.
    cbn [bar_tsl changes bars_dur fst snd]. set (cap := bar_cap c (fst nd) (snd nd)) in *.
    destruct (ts_eqb (fst nd, snd nd) prev) eqn:E.
    + apply ts_eqb_eq in E. destruct Hprev as [Hp|Hp].
      * rewrite Hp in E. injection E as _ E2. unfold NONE in E2. lia.
      * rewrite <- E in Hp. cbn [fst snd] in Hp. fold cap in Hp. subst B.
        destruct (IH (s + cap) t0 cap prev Hv HB) as [R1 R2].
        -- replace (s + cap - t0) with (s - t0 + 1 * cap) by lia. now rewrite Z_mod_plus_full.
        -- right. rewrite <- E. reflexivity.
        -- apply Z.divide_add_r; [exact Hs|now apply divb_true].
        -- split; [exact R1|]. replace (s + (cap + bars_dur c sg)) with (s + cap + bars_dur c sg) by lia. exact R2.
    + destruct (IH (s + cap) s cap (fst nd, snd nd) Hv Hcap) as [R1 R2].
      * replace (s + cap - s) with cap by lia. apply Z_mod_same_full.
      * right. reflexivity.
      * apply Z.divide_add_r; [exact Hs|now apply divb_true].
      * cbn [ts_run ts_grid]. rewrite Hmod. change (0 <? 0) with false. cbv iota.
        fold cap. rewrite (divb_of g s Hg Hs), V1, V2, V3, V4, V5, R1. cbn [andb]. split; [reflexivity|].
        replace (s + (cap + bars_dur c sg)) with (s + cap + bars_dur c sg) by lia. exact R2.
Qed.

(* the signatures that survive normalise all sit on bar lines of the grid in force *)
Lemma bars_on g c : forall sg s t0 B prev,
  forallb (sig_valid g c) sg = true -> 0 < B -> (s - t0) mod B = 0 ->
  (prev = (NONE, NONE) \/ B = bar_cap c (fst prev) (snd prev)) ->
  ts_on c t0 B (changes prev (bar_tsl c s sg)) = true.
Proof.
  induction sg as [|nd sg IH]; intros s t0 B prev Hv HB Hmod Hprev; [reflexivity|].
  cbn [forallb] in Hv. apply andb_prop in Hv. destruct Hv as [Hv1 Hv].
  pose proof Hv1 as Hv1'. unfold sig_valid in Hv1'.
  apply andb_prop in Hv1'. destruct Hv1' as [V4 V5]. apply andb_prop in V4. destruct V4 as [V3 V4].
  apply andb_prop in V3. destruct V3 as [V2 V3]. apply andb_prop in V2. destruct V2 as [V1 V2].
  pose proof V4 as Hcap. apply Z.ltb_lt in Hcap. pose proof V1 as Hden. apply Z.ltb_lt in Hden.
  cbn [bar_tsl changes fst snd]. set (cap := bar_cap c (fst nd) (snd nd)) in *.
  destruct (ts_eqb (fst nd, snd nd) prev) eqn:E.
  - apply ts_eqb_eq in E. destruct Hprev as [Hp|Hp].
    + rewrite Hp in E. injection E as _ E2. unfold NONE in E2. lia.
    + rewrite <- E in Hp. cbn [fst snd] in Hp. fold cap in Hp. subst B.
      apply IH; [exact Hv|exact HB| |right; rewrite <- E; reflexivity].
      replace (s + cap - t0) with (s - t0 + 1 * cap) by lia. now rewrite Z_mod_plus_full.
  - cbn [ts_on]. rewrite Hmod, Z.eqb_refl. fold cap. rewrite V4. cbn [andb].
    apply IH; [exact Hv|exact Hcap| |right; reflexivity].
    replace (s + cap - s) with cap by lia. apply Z_mod_same_full.
Qed.

(* the ends of the bars of signatures sg laid out from tick s *)
Fixpoint bar_ends (c : cfg) (s : Z) (sg : list (Z * Z)) : list Z :=
  match sg with
  | [] => []
  | nd :: r => (s + bar_cap c (fst nd) (snd nd)) :: bar_ends c (s + bar_cap c (fst nd) (snd nd)) r
  end.

Lemma bar_ends_app c a b : forall s, bar_ends c s (a ++ b) = bar_ends c s a ++ bar_ends c (s + bars_dur c a) b.
Proof.
  induction a as [|nd a IH]; intros s; [cbn; now rewrite Z.add_0_r|]. cbn [app bar_ends bars_dur]. rewrite IH.
  do 3 f_equal. lia.
Qed.

Lemma bar_ends_shift c a sg : forall s, map (fun x => x + a) (bar_ends c s sg) = bar_ends c (s + a) sg.
Proof.
  induction sg as [|nd sg IH]; intros s; [reflexivity|]. cbn [bar_ends map]. rewrite IH. f_equal; [lia|f_equal; lia].
Qed.

(* the bar ends expected from a clock whose grid carries the bar start s: those up to s, then every bar's end *)
Lemma bars_expected g c : forall sg s k prev,
  forallb (sig_valid g c) sg = true -> 0 < r_total k -> 0 <= r_tbar k -> r_time k <= s ->
  (r_tbar k + (s - r_time k)) mod r_total k = 0 ->
  (prev = (NONE, NONE) \/ r_total k = bar_cap c (fst prev) (snd prev)) ->
  expected c k (changes prev (bar_tsl c s sg)) (s + bars_dur c sg) = adv_caps k s ++ bar_ends c s sg.
Proof.
  induction sg as [|nd sg IH]; intros s k prev Hv HB Htb Hks Hmod Hprev.
  - cbn [bar_tsl changes expected bars_dur bar_ends]. now rewrite Z.add_0_r, app_nil_r.
  - cbn [forallb] in Hv. apply andb_prop in Hv. destruct Hv as [Hv1 Hv].
    pose proof Hv1 as Hv1'. unfold sig_valid in Hv1'.
    apply andb_prop in Hv1'. destruct Hv1' as [V4 V5]. apply andb_prop in V4. destruct V4 as [V3 V4].
    apply andb_prop in V3. destruct V3 as [V2 V3]. apply andb_prop in V2. destruct V2 as [V1 V2].
    pose proof V4 as Hcap. apply Z.ltb_lt in Hcap. pose proof V1 as Hden. apply Z.ltb_lt in Hden.
    cbn [bar_tsl changes bars_dur bar_ends fst snd]. set (cap := bar_cap c (fst nd) (snd nd)) in *.
    assert (Hone : forall k1, r_time k1 = s -> r_tbar k1 = 0 -> r_total k1 = cap -> adv_caps k1 (s + cap) = [s + cap]).
    { intros k1 E1 E2 E3. unfold adv_caps, adv_n. rewrite E1, E2, E3.
      replace (0 + (s + cap - s)) with cap by lia. rewrite Z_div_same_full by lia. change (Z.to_nat 1) with 1%nat. cbn [ends].
      f_equal. lia. }
    replace (s + (cap + bars_dur c sg)) with (s + cap + bars_dur c sg) by lia.
    destruct (ts_eqb (fst nd, snd nd) prev) eqn:E.
    + apply ts_eqb_eq in E. destruct Hprev as [Hp|Hp].
      * rewrite Hp in E. injection E as _ E2. unfold NONE in E2. lia.
      * rewrite <- E in Hp. cbn [fst snd] in Hp. fold cap in Hp.
        rewrite (IH (s + cap) k prev Hv HB Htb); [|lia| |right; rewrite <- E; exact Hp].
        -- destruct (adv_comp k (mkrc s 0 cap false) s (s + cap) HB Htb Hks ltac:(lia) eq_refl) as [C1 _].
           ++ cbn [r_tbar]. unfold adv_tbar. now rewrite Hmod.
           ++ cbn [r_total]. now rewrite Hp.
           ++ rewrite <- C1, (Hone (mkrc s 0 cap false)) by reflexivity. now rewrite <- app_assoc.
        -- replace (r_tbar k + (s + cap - r_time k)) with (r_tbar k + (s - r_time k) + 1 * r_total k) by lia.
           now rewrite Z_mod_plus_full.
    + cbn [expected]. fold cap. f_equal.
      rewrite (IH (s + cap) (mkrc s 0 cap false) (fst nd, snd nd) Hv); cbn [r_time r_tbar r_total]; try lia.
      * rewrite (Hone (mkrc s 0 cap false)) by reflexivity. reflexivity.
      * replace (0 + (s + cap - s)) with cap by lia. apply Z_mod_same_full.
      * right. reflexivity.
Qed.

(* ---- a track of a group: well formed, a time signature exactly at every bar start, as long as the bars, and no
   message at the very end of the group (every track ends with a positive wait) *)
Fixpoint tsl_eqb (a b : list (Z * Z * Z)) : bool :=
  match a, b with
  | [], [] => true
  | x :: a', y :: b' => (fst (fst x) =? fst (fst y)) && (snd (fst x) =? snd (fst y)) && (snd x =? snd y) && tsl_eqb a' b'
  | _, _ => false
  end.
Lemma tsl_eqb_eq a : forall b, tsl_eqb a b = true -> a = b.
Proof.
  induction a as [|[[x1 x2] x3] a IH]; intros [|[[y1 y2] y3] b] H; cbn [tsl_eqb fst snd] in H; try discriminate; [reflexivity|].
  apply andb_prop in H. destruct H as [H H4]. apply andb_prop in H. destruct H as [H H3]. apply andb_prop in H.
  destruct H as [H1 H2]. apply Z.eqb_eq in H1, H2, H3. subst. f_equal. now apply IH.
Qed.

Definition gbar_track (c : cfg) (sg : list (Z * Z)) (r : list msg) : bool :=
  gtrack_ok r && tsl_eqb (tsv (ev_rel r)) (bar_tsl c 0 sg) && (dur_rel r =? bars_dur c sg) &&
  forallb (fun tm => fst tm <? bars_dur c sg) (timed 0 r).

(* a group of bars with signatures sg handed to one `tokenise` call *)
Definition group_ok (g : Z) (c : cfg) (sg : list (Z * Z)) (tracks : list (list msg)) : bool :=
  (lenZ tracks =? c_ntracks c) && (0 <? bars_dur c sg) && forallb (sig_valid g c) sg &&
  forallb (gbar_track c sg) tracks && forallb (fun r => forallb (note_ok g c) (notes_of r)) tracks.

Lemma maxt_In l x : In x l -> m_time x <= maxt l.
Proof.
  induction l as [|y l IH]; intros H; [destruct H|]. rewrite maxt_cons. destruct H as [->|H]; [lia|]. specialize (IH H). lia.
Qed.
Lemma maxt_ex l : 0 < maxt l -> exists x, In x l /\ m_time x = maxt l.
Proof.
  induction l as [|y l IH]; intros H; [cbn in H; lia|]. rewrite maxt_cons in *.
  destruct (Z_le_gt_dec (maxt l) (m_time y)) as [Hle|Hgt].
  - exists y. split; [now left|lia].
  - destruct IH as (x & Hx & Ht); [pose proof (maxt_ge l); lia|]. exists x. split; [now right|lia].
Qed.

Lemma piece_sig_In tracks k e : forall j, In e (piece_sig j tracks k) -> exists r, In r tracks /\ In e (psig (snd k) 0 r).
Proof.
  induction tracks as [|r ts IH]; intros j H; [destruct H|]. cbn [piece_sig] in H.
  destruct (fst k =? j); [exists r; split; [now left|exact H]|].
  destruct (IH _ H) as (r' & H1 & H2). exists r'. split; [now right|exact H2].
Qed.

Lemma psig_timed n r : forall cur e, In e (psig n cur r) -> exists m, In (s_time e, m) (timed cur r).
Proof.
  induction r as [|m r IH]; intros cur e H; [destruct H|]. cbn [psig timed] in *.
  destruct (is_wait m); [now apply IH|].
  destruct (is_note m && (n =? m_note m)).
  - destruct H as [<-|H]; [exists m; now left|]. destruct (IH _ _ H) as (m' & Hm'). exists m'. now right.
  - destruct (IH _ _ H) as (m' & Hm'). exists m'. now right.
Qed.

Lemma piece_dur_const tracks T : tracks <> [] -> 0 <= T -> (forall r, In r tracks -> dur_rel r = T) -> piece_dur tracks = T.
Proof.
  unfold piece_dur. induction tracks as [|r ts IH]; intros Hne HT H; [congruence|]. cbn [map fold_right].
  rewrite (H r (or_introl eq_refl)). destruct ts as [|r' ts'].
  - cbn. lia.
  - rewrite IH; [lia|discriminate|exact HT|]. intros x Hx. apply H. now right.
Qed.

Local Opaque fe_events.
Section GroupChunk.
  Variables (g : Z) (c : cfg) (sg : list (Z * Z)) (tracks : list (list msg)).
  Hypothesis Hc : valid_cfg g c = true.
  Hypothesis Hgr : group_ok g c sg tracks = true.

  Let T := bars_dur c sg.
  Let evs := fe_events tracks.

  Lemma group_parts :
    lenZ tracks = c_ntracks c /\ 0 < T /\ forallb (sig_valid g c) sg = true /\
    (forall r, In r tracks -> gtrack_ok r = true /\ tsv (ev_rel r) = bar_tsl c 0 sg /\ dur_rel r = T /\
                              forall tm, In tm (timed 0 r) -> fst tm < T) /\
    (forall r x, In r tracks -> In x (notes_of r) -> note_ok g c x = true).
  Proof.
    unfold group_ok in Hgr. apply andb_prop in Hgr. destruct Hgr as [H H5]. apply andb_prop in H. destruct H as [H H4].
    apply andb_prop in H. destruct H as [H H3]. apply andb_prop in H. destruct H as [H1 H2].
    apply Z.eqb_eq in H1. apply Z.ltb_lt in H2. rewrite forallb_forall in H4, H5.
    split; [exact H1|]. split; [exact H2|]. split; [exact H3|]. split.
    - intros r Hr. specialize (H4 r Hr). unfold gbar_track in H4.
      apply andb_prop in H4. destruct H4 as [H4 G4]. apply andb_prop in H4. destruct H4 as [H4 G3].
      apply andb_prop in H4. destruct H4 as [G1 G2]. apply tsl_eqb_eq in G2. apply Z.eqb_eq in G3.
      rewrite forallb_forall in G4. split; [exact G1|]. split; [exact G2|]. split; [exact G3|].
      intros tm Htm. specialize (G4 tm Htm). now apply Z.ltb_lt in G4.
    - intros r x Hr Hx. specialize (H5 r Hr). rewrite forallb_forall in H5. now apply H5.
  Qed.

  Let Hlen := proj1 group_parts.
  Let HT := proj1 (proj2 group_parts).
  Let Hsv := proj1 (proj2 (proj2 group_parts)).
  Let Htr := proj1 (proj2 (proj2 (proj2 group_parts))).
  Let Hno := proj2 (proj2 (proj2 (proj2 group_parts))).

  Lemma group_gtracks : gtracks_ok tracks = true.
  Proof. unfold gtracks_ok. apply forallb_forall. intros r Hr. now apply (Htr r Hr). Qed.
  Lemma group_ne : tracks <> [].
  Proof.
    destruct (valid_cfg_parts g c Hc) as (_ & _ & Hn & _). intros E. rewrite E in Hlen. cbn in Hlen. lia.
  Qed.
  Lemma group_pos : caps_pos c sg.
  Proof. now apply sig_valid_pos with g. Qed.
  Lemma group_g : 0 < g.
  Proof. now destruct (valid_cfg_parts g c Hc) as (_ & Hg & _). Qed.
  Lemma group_dur : piece_dur tracks = T.
  Proof.
    apply piece_dur_const; [exact group_ne|unfold T; apply bars_dur_nonneg, group_pos|]. intros r Hr. now apply (Htr r Hr).
  Qed.

  Let TSL := bar_TSL tracks.
  Lemma group_TSL : map ent TSL = changes (NONE, NONE) (bar_tsl c 0 sg) /\ (forall e, In e TSL -> m_chan (snd e) = 0).
  Proof. apply bar_TSL_spec; [exact group_pos|intros r Hr; now apply (Htr r Hr)|exact group_ne]. Qed.
  Lemma group_TSL_sorted : ForallOrdPairs elt TSL.
  Proof. apply bar_TSL_sorted with c sg; [exact group_pos|intros r Hr; now apply (Htr r Hr)|exact group_ne]. Qed.

  Lemma group_divT : divb g (piece_dur tracks) = true.
  Proof. rewrite group_dur. apply divb_of; [exact group_g|]. apply bars_dur_div; [exact group_g|exact Hsv]. Qed.

  (* 1. the front end of the group *)
  Lemma group_frontend : tok_frontend tracks = Ok evs.
  Proof.
    apply (gfrontend_ok tracks group_gtracks).
  Qed.

  Lemma group_sorted : StronglySorted ele evs.
  Proof. apply (gevents_sorted tracks group_gtracks). Qed.

  Lemma group_local e : In e evs -> 0 <= ev_time e /\ (is_tsev e = false -> ev_local_ok g c e = true).
  Proof.
    apply (gevent_local g c tracks group_gtracks Hlen Hno group_divT).
  Qed.

  Lemma group_ts : map ev_tsv (filter is_tsev evs) = changes (NONE, NONE) (bar_tsl c 0 sg).
  Proof.
    unfold evs. rewrite (gevents_ts tracks TSL group_gtracks eq_refl group_TSL_sorted (proj2 group_TSL)).
    rewrite tsv3_ent. apply group_TSL.
  Qed.

  (* the note messages of the sorted list come before the end of the group *)
  Lemma group_note_time x : In x (fe_sorted tracks) -> is_note x = true -> m_time x < T.
  Proof.
    intros Hx Hn. set (k := (m_chan x, m_note x)).
    assert (Hin : In (sigm x) (asig k (fe_sorted tracks))).
    { rewrite asig_kp. apply in_map. unfold kp. apply filter_In. split; [exact Hx|]. unfold nkey, k.
      now rewrite Hn, k2_eqb_refl. }
    rewrite (gfe_sorted_sig tracks group_gtracks) in Hin. apply piece_sig_In in Hin. destruct Hin as (r & Hr & Hin).
    apply psig_timed in Hin. destruct Hin as (m & Hm). destruct (Htr r Hr) as (_ & _ & _ & Hlt).
    specialize (Hlt _ Hm). exact Hlt.
  Qed.

  Lemma group_ev_le e : In e evs -> ev_time e <= T.
  Proof.
    intros He. destruct (gevent_msg tracks group_gtracks e He) as [Hin _].
    rewrite <- group_dur, <- (gfe_sorted_maxt tracks group_gtracks). now apply maxt_In.
  Qed.

  Lemma group_on_lt e : In e evs -> is_on (ev_msg e) = true -> ev_time e < T.
  Proof.
    intros He Hon. destruct (gevent_msg tracks group_gtracks e He) as [Hin _].
    apply group_note_time; [exact Hin|now apply on_is_note].
  Qed.

  (* some event sits exactly at the end of the group (the INTERNAL cap) *)
  Lemma group_end_event : exists e, In e evs /\ ev_time e = T.
  Proof.
    pose proof (gfe_sorted_maxt tracks group_gtracks) as Hm. rewrite group_dur in Hm.
    destruct (maxt_ex (fe_sorted tracks)) as (x & Hx & Ht); [lia|]. rewrite Hm in Ht.
    destruct (gfe_sorted_types tracks group_gtracks x Hx) as [Hn|Hs].
    - pose proof (group_note_time x Hx Hn). lia.
    - assert (Hs' : is_ts x || is_internal x = true).
      { destruct Hs as [[Hi _]|Hts]; [rewrite Hi; apply orb_true_r|now rewrite Hts]. }
      destruct (gsingle_event tracks group_gtracks x Hx Hs') as (e & He & Hmsg).
      exists e. split; [exact He|]. unfold ev_time. now rewrite Hmsg.
  Qed.

  (* 2. from a clock that stands on a bar start (time 0) the events are valid and lead to the bar start at the end of
     the group, with no note written at that instant *)
  Lemma group_run0 k0 :
    r_time k0 = 0 -> r_tbar k0 = 0 -> r_has k0 = false -> 0 < r_total k0 ->
    valid_from g c k0 evs = true /\
    r_time (fst (ref_run c k0 evs)) = T /\ r_tbar (fst (ref_run c k0 evs)) = 0 /\
    r_has (fst (ref_run c k0 evs)) = false /\ 0 < r_total (fst (ref_run c k0 evs)).
  Proof.
    intros K1 K2 K3 K4.
    destruct (bars_run g c group_g sg 0 0 (r_total k0) (NONE, NONE) Hsv K4) as [R1 R2];
      [reflexivity|now left|apply Z.divide_0_r|].
    rewrite Z.add_0_l in R2. fold T in R2.
    assert (Hloc : forall e, In e evs -> r_time k0 <= ev_time e /\ (is_tsev e = false -> ev_local_ok g c e = true)).
    { intros e He. rewrite K1. now apply group_local. }
    assert (Hv : valid_from g c k0 evs = true).
    { apply (valid_from_ts g c evs k0 0 (r_total k0)); [exact K4|reflexivity|now rewrite K2, K1|exact group_sorted|exact Hloc|].
      rewrite group_ts. exact R1. }
    split; [exact Hv|].
    assert (Htime : r_time (fst (ref_run c k0 evs)) = T).
    { rewrite ref_run_time, K1. destruct group_end_event as (e & He & Het).
      pose proof (last_time_sorted evs group_sorted 0 e He) as Hge.
      destruct (last_time_In evs 0) as [E|(e' & He' & E)]; [lia|]. pose proof (group_ev_le e' He'). lia. }
    split; [exact Htime|].
    destruct (ref_run_grid g c evs k0 0 (r_total k0) K4 eq_refl) as (G1 & G2 & G3);
      [now rewrite K2, K1|exact group_sorted|intros e He; now apply Hloc|rewrite group_ts; exact R1|].
    rewrite group_ts in G1, G2, G3. cbv zeta in G1, G2, G3. rewrite Htime, R2 in G3.
    split; [exact G3|].
    destruct (ref_run_has g c evs k0 (T - 1) Hv K4) as (H1 & H2 & H3);
      [lia|rewrite K3; discriminate|intros e He Hon; pose proof (group_on_lt e He Hon); lia|].
    cbv zeta in H1, H2, H3. split; [|exact H1].
    destruct (r_has (fst (ref_run c k0 evs))); [|reflexivity]. specialize (H3 eq_refl). rewrite Htime, G3 in H3. lia.
  Qed.

  (* ... hence from any clock on a bar start, with the events shifted to its time *)
  Lemma group_run k :
    r_tbar k = 0 -> r_has k = false -> 0 < r_total k -> (g | r_time k) ->
    let k' := fst (ref_run c k (map (shift_ev (r_time k)) evs)) in
    valid_from g c k (map (shift_ev (r_time k)) evs) = true /\
    r_time k' = r_time k + T /\ r_tbar k' = 0 /\ r_has k' = false /\ 0 < r_total k' /\ (g | r_time k').
  Proof.
    intros K2 K3 K4 K5. set (a := r_time k) in *. set (k0 := mkrc 0 0 (r_total k) false).
    assert (Ek : k = kshift a k0).
    { destruct k as [t tb tot h]. cbn [r_time r_tbar r_total r_has] in *. subst tb h. unfold kshift, k0, a.
      cbn [r_time r_tbar r_total r_has]. f_equal. }
    destruct (group_run0 k0 eq_refl eq_refl eq_refl K4) as (R1 & R2 & R3 & R4 & R5).
    cbv zeta.
    assert (E1 : valid_from g c k (map (shift_ev a) evs) = true).
    { rewrite Ek. rewrite valid_from_shift; [exact R1|exact group_g|exact K5]. }
    assert (E2 : fst (ref_run c k (map (shift_ev a) evs)) = kshift a (fst (ref_run c k0 evs))).
    { rewrite Ek. apply ref_run_shift. }
    rewrite E2. unfold kshift. cbn [r_time r_tbar r_total r_has]. rewrite R2.
    split; [exact E1|]. split; [lia|]. split; [exact R3|]. split; [exact R4|]. split; [exact R5|].
    apply Z.divide_add_r; [|exact K5]. apply bars_dur_div; [exact group_g|exact Hsv].
  Qed.

  (* 3. ... and the bar ends passed on the way are exactly the ends of the group's bars *)
  Lemma group_caps0 k0 :
    r_time k0 = 0 -> r_tbar k0 = 0 -> r_has k0 = false -> 0 < r_total k0 ->
    snd (ref_run c k0 evs) = bar_ends c 0 sg.
  Proof.
    intros K1 K2 K3 K4. destruct (group_run0 k0 K1 K2 K3 K4) as (_ & R2 & R3 & _ & R5).
    pose proof (run_expected c evs k0 0 (r_total k0) T K4 eq_refl) as Hr.
    rewrite group_ts in Hr.
    assert (Hon : ts_on c 0 (r_total k0) (changes (NONE, NONE) (bar_tsl c 0 sg)) = true).
    { apply (bars_on g c sg 0 0 (r_total k0) (NONE, NONE) Hsv K4); [reflexivity|now left]. }
    specialize (Hr ltac:(now rewrite K2, K1) group_sorted).
    assert (Hb : forall e, In e evs -> r_time k0 <= ev_time e <= T).
    { intros e He. rewrite K1. split; [now apply group_local|now apply group_ev_le]. }
    specialize (Hr Hb ltac:(rewrite K1; lia) Hon).
    pose proof (bars_expected g c sg 0 k0 (NONE, NONE) Hsv K4) as He. rewrite Z.add_0_l in He. fold T in He.
    rewrite He in Hr; [|lia|lia| |now left].
    - assert (E1 : adv_caps (fst (ref_run c k0 evs)) T = []).
      { unfold adv_caps, adv_n. rewrite R2, R3. replace (0 + (T - T)) with 0 by lia. rewrite Z.div_0_l by lia. reflexivity. }
      assert (E2 : adv_caps k0 0 = []).
      { unfold adv_caps, adv_n. rewrite K1, K2. cbn [Z.add Z.sub Z.opp]. rewrite Z.div_0_l by lia. reflexivity. }
      rewrite E1, E2, app_nil_r in Hr. exact Hr.
    - rewrite K1, K2. reflexivity.
  Qed.

  Lemma group_caps k :
    r_tbar k = 0 -> r_has k = false -> 0 < r_total k ->
    snd (ref_run c k (map (shift_ev (r_time k)) evs)) = bar_ends c (r_time k) sg.
  Proof.
    intros K2 K3 K4. set (a := r_time k) in *. set (k0 := mkrc 0 0 (r_total k) false).
    assert (Ek : k = kshift a k0).
    { destruct k as [t tb tot h]. cbn [r_time r_tbar r_total r_has] in *. subst tb h. unfold kshift, k0, a.
      cbn [r_time r_tbar r_total r_has]. f_equal. }
    rewrite Ek at 1. rewrite ref_run_shift_snd, (group_caps0 k0 eq_refl eq_refl eq_refl K4), bar_ends_shift. reflexivity.
  Qed.
End GroupChunk.

(* ================================================================ Target 2: groups of bars are chunks *)
(* a call group: the signatures of its bars and the lists handed to `tokenise` (one per track) *)
Definition group : Set := (list (Z * Z) * list (list msg))%type.
Definition groups_ok (g : Z) (c : cfg) (groups : list group) : bool :=
  forallb (fun gr => group_ok g c (fst gr) (snd gr)) groups.
Definition group_calls (groups : list group) : list (list (list msg)) := map snd groups.
Definition group_events (groups : list group) : list (list event) := map (fun gr => fe_events (snd gr)) groups.

Lemma groups_chunks g c (Hc : valid_cfg g c = true) : forall groups k,
  r_tbar k = 0 -> r_has k = false -> 0 < r_total k -> (g | r_time k) -> groups_ok g c groups = true ->
  chunks_ok g c k (group_events groups) = true.
Proof.
  induction groups as [|[sg tracks] groups IH]; intros k K2 K3 K4 K5 Hok; [reflexivity|].
  cbn [groups_ok forallb fst snd] in Hok. apply andb_prop in Hok. destruct Hok as [Hgr Hok].
  cbn [group_events map chunks_ok snd].
  destruct (group_run g c sg tracks Hc Hgr k K2 K3 K4 K5) as (R1 & R2 & R3 & R4 & R5 & R6).
  rewrite R1, R3, R4, Z.eqb_refl. cbn [andb negb]. apply IH; assumption.
Qed.

Lemma groups_frontend g c (Hc : valid_cfg g c = true) groups :
  groups_ok g c groups = true -> mapM tok_frontend (group_calls groups) = Ok (group_events groups).
Proof.
  induction groups as [|[sg tracks] groups IH]; intros Hok; [reflexivity|].
  cbn [groups_ok forallb fst snd] in Hok. apply andb_prop in Hok. destruct Hok as [Hgr Hok].
  cbn [group_calls group_events map mapM snd]. rewrite (group_frontend g c sg tracks Hgr). cbn [rbind].
  fold (group_calls groups). rewrite (IH Hok). reflexivity.
Qed.

Lemma groups_len g c groups : groups_ok g c groups = true -> calls_len c (group_calls groups) = true.
Proof.
  induction groups as [|[sg tracks] groups IH]; intros Hok; [reflexivity|].
  cbn [groups_ok forallb fst snd] in Hok. apply andb_prop in Hok. destruct Hok as [Hgr Hok].
  cbn [group_calls calls_len map forallb snd]. fold (group_calls groups). fold (calls_len c (group_calls groups)).
  rewrite (IH Hok), andb_true_r. unfold group_ok in Hgr. repeat (apply andb_prop in Hgr; destruct Hgr as [Hgr _]). exact Hgr.
Qed.

(* Target 2: for call groups made of whole bars (each track of a group: a time signature at every bar start, total
   duration = the bars' capacities, notes closed, no message at the group's last instant), every front end succeeds and
   its events form chunks in the sense of the core-level theorems *)
Theorem C03_bar_chunks_ok g c groups :
  valid_cfg g c = true -> groups_ok g c groups = true ->
  mapM tok_frontend (group_calls groups) = Ok (group_events groups) /\ calls_len c (group_calls groups) = true /\
  chunks_ok g c (rclk0 c) (group_events groups) = true.
Proof.
  intros Hc Hok. split; [now apply groups_frontend with g c|]. split; [now apply groups_len with g|].
  destruct (valid_cfg_parts g c Hc) as (_ & _ & _ & _ & _ & HB & _).
  apply groups_chunks; try assumption; try reflexivity. cbn [rclk0 r_time]. apply Z.divide_0_r.
Qed.

(* ... hence the threaded `tokenise` calls on the groups emit exactly the tokens (and final state) of ONE core run on
   the glued events, and that stream detokenises to the notes and bar caps of the glued events *)
Theorem C03_bars_tokens g c groups :
  valid_cfg g c = true -> groups_ok g c groups = true ->
  tokenise_many c (tstate0 c) (group_calls groups) = core c (tstate0 c) (glue 0 (group_events groups)).
Proof.
  intros Hc Hok. destruct (C03_bar_chunks_ok g c groups Hc Hok) as (H1 & H2 & H3).
  now apply C03_tokenise_chunked with g.
Qed.

(* ================================================================ Part 3: the notes of the threaded calls *)

Lemma track_notes_shift i a evs : track_notes i (map (shift_ev a) evs) = map (shiftn a) (track_notes i evs).
Proof.
  induction evs as [|e evs IH]; [reflexivity|]. unfold track_notes in *. cbn [map flat_map]. rewrite map_app, IH. f_equal.
  rewrite ev_msg_shift. change (is_on (shift_msg a (ev_msg e))) with (is_on (ev_msg e)).
  change (m_chan (shift_msg a (ev_msg e))) with (m_chan (ev_msg e)).
  destruct (is_on (ev_msg e) && (m_chan (ev_msg e) =? i)); [|reflexivity]. cbn [map]. f_equal.
  unfold pnote. rewrite p_first_shift, p_off_shift. reflexivity.
Qed.

(* the notes of track i in the glued event list: those of every chunk, shifted to the chunk's start *)
Fixpoint glued_notes (i : nat) (start : Z) (lens : list Z) (nts : list (list note)) : list note :=
  match lens, nts with
  | len :: lens', ns :: nts' => map (shiftn start) ns ++ glued_notes i (start + len) lens' nts'
  | _, _ => []
  end.

Lemma glue_track_notes i : forall chs start nts,
  Forall2 (fun ch ns => Permutation (track_notes (Z.of_nat i) ch) ns) chs nts ->
  Permutation (track_notes (Z.of_nat i) (glue start chs)) (glued_notes i start (map chunk_len chs) nts).
Proof.
  induction chs as [|ch chs IH]; intros start nts H; inversion H as [|? ns ? nts' Hp Hr]; subst; [constructor|].
  cbn [glue map glued_notes]. rewrite track_notes_app, track_notes_shift. apply Permutation_app.
  - now apply Permutation_map.
  - now apply IH.
Qed.

Lemma shiftn_msgs c a x : flat_map (note_msgs c) [shiftn a x] =
  map (fun m => set_time m (m_time m + a) (m_tf m)) (note_msgs c x).
Proof. destruct x as [[[p t] t'] v]. reflexivity. Qed.

Section GroupNotes.
  Variables (g : Z) (c : cfg) (sg : list (Z * Z)) (tracks : list (list msg)).
  Hypothesis Hc : valid_cfg g c = true.
  Hypothesis Hgr : group_ok g c sg tracks = true.

  (* the chunk's length is the duration of its bars *)
  Lemma group_len : chunk_len (fe_events tracks) = bars_dur c sg.
  Proof.
    destruct (valid_cfg_parts g c Hc) as (_ & _ & _ & _ & _ & HB & _).
    destruct (group_run0 g c sg tracks Hc Hgr (mkrc 0 0 (bar_cap c DEFAULT_TS_NUM DEFAULT_TS_DEN) false)
                eq_refl eq_refl eq_refl HB) as (_ & R2 & _).
    rewrite ref_run_time in R2. exact R2.
  Qed.

  Lemma group_notes i : (i < length tracks)%nat ->
    Permutation (track_notes (Z.of_nat i) (fe_events tracks)) (notes_of (nth i tracks [])).
  Proof. apply gfrontend_notes. now apply group_gtracks with g c sg. Qed.

  Lemma group_ntracks : length tracks = Z.to_nat (c_ntracks c).
  Proof. destruct (group_parts g c sg tracks Hgr) as (H & _). unfold lenZ in H. lia. Qed.
End GroupNotes.

Definition group_lens (c : cfg) (groups : list group) : list Z := map (fun gr => bars_dur c (fst gr)) groups.
Definition group_notes_of (i : nat) (groups : list group) : list (list note) :=
  map (fun gr => notes_of (nth i (snd gr) [])) groups.

Lemma groups_lens g c (Hc : valid_cfg g c = true) groups :
  groups_ok g c groups = true -> map chunk_len (group_events groups) = group_lens c groups.
Proof.
  induction groups as [|[sg tracks] groups IH]; intros Hok; [reflexivity|].
  cbn [groups_ok forallb fst snd] in Hok. apply andb_prop in Hok. destruct Hok as [Hgr Hok].
  cbn [group_events group_lens map fst snd]. rewrite (group_len g c sg tracks Hc Hgr). f_equal. now apply IH.
Qed.

Lemma groups_notes g c (Hc : valid_cfg g c = true) i groups : (i < Z.to_nat (c_ntracks c))%nat ->
  groups_ok g c groups = true ->
  Forall2 (fun ch ns => Permutation (track_notes (Z.of_nat i) ch) ns) (group_events groups) (group_notes_of i groups).
Proof.
  intros Hi. induction groups as [|[sg tracks] groups IH]; intros Hok; [constructor|].
  cbn [groups_ok forallb fst snd] in Hok. apply andb_prop in Hok. destruct Hok as [Hgr Hok].
  cbn [group_events group_notes_of map snd]. constructor; [|now apply IH].
  apply (group_notes g c sg tracks Hgr). now rewrite (group_ntracks g c sg tracks Hgr).
Qed.

(* the reference clock over the glued events of the groups: it ends on the bar start at the end of the last group,
   no note written there, having passed exactly the ends of all bars *)
Definition all_sigs (groups : list group) : list (Z * Z) := concat (map fst groups).

Lemma groups_run g c (Hc : valid_cfg g c = true) : forall groups k,
  r_tbar k = 0 -> r_has k = false -> 0 < r_total k -> (g | r_time k) -> groups_ok g c groups = true ->
  let r := ref_run c k (glue (r_time k) (group_events groups)) in
  r_time (fst r) = r_time k + bars_dur c (all_sigs groups) /\ r_tbar (fst r) = 0 /\ r_has (fst r) = false /\
  snd r = bar_ends c (r_time k) (all_sigs groups).
Proof.
  induction groups as [|[sg tracks] groups IH]; intros k K2 K3 K4 K5 Hok.
  - cbn. repeat split; try assumption. lia.
  - cbn [groups_ok forallb fst snd] in Hok. apply andb_prop in Hok. destruct Hok as [Hgr Hok].
    cbn [group_events map glue snd all_sigs concat fst]. fold (group_events groups). fold (all_sigs groups).
    rewrite ref_run_app. cbn [fst snd].
    destruct (group_run g c sg tracks Hc Hgr k K2 K3 K4 K5) as (_ & R2 & R3 & R4 & R5 & R6).
    rewrite (group_len g c sg tracks Hc Hgr), <- R2.
    destruct (IH _ R3 R4 R5 R6 Hok) as (I1 & I2 & I3 & I4). cbv zeta in I1, I2, I3, I4.
    rewrite I1, I2, I3, I4, (group_caps g c sg tracks Hc Hgr k K2 K3 K4), R2.
    rewrite bar_ends_app. split; [|split; [reflexivity|split; [reflexivity|reflexivity]]].
    clear. induction sg as [|nd sg IHs]; cbn [app bars_dur]; lia.
Qed.

Lemma exp_track_caps c evs i : filter is_cap (exp_track c evs i) = caps_msgs (run_caps c (rclk0 c) evs).
Proof.
  unfold exp_track. rewrite filter_app.
  assert (H1 : filter is_cap (flat_map (ev_notes c (Z.of_nat i)) evs) = []).
  { induction evs as [|e evs IH]; [reflexivity|]. cbn [flat_map]. rewrite filter_app, IH, app_nil_r.
    unfold ev_notes. destruct (m_type (ev_msg e)); try reflexivity. destruct (_ =? _); reflexivity. }
  assert (H2 : forall l, filter is_cap (caps_msgs l) = caps_msgs l).
  { induction l as [|x l IH]; [reflexivity|]. cbn [caps_msgs map filter] in *. unfold caps_msgs in IH. now rewrite IH. }
  now rewrite H1, H2.
Qed.

Lemma filter_cap_rel l : filter is_cap (filter rel l) = filter is_cap l.
Proof.
  rewrite filter_filter. apply filter_ext_in'. intros x _. unfold rel. destruct (is_cap x); [now rewrite orb_true_r|apply andb_false_r].
Qed.

(* Group-level round trip: the threaded calls succeed, their concatenated tokens are those of one core run on the
   glued events, the final state stands on the bar start at the end of the last group, the tokens detokenise to one
   sequence per track, the note messages of sequence i are exactly the notes of track i of every group (velocity
   replaced by its bin value), each group shifted to the sum of the durations of the groups before it, and its
   INTERNAL caps sit exactly on the ends of all bars. *)
Theorem C03_groups_roundtrip g c groups :
  valid_cfg g c = true -> groups_ok g c groups = true ->
  exists toks st seqs,
    tokenise_many c (tstate0 c) (group_calls groups) = Ok (toks, st) /\
    core c (tstate0 c) (glue 0 (group_events groups)) = Ok (toks, st) /\
    t_time st = bars_dur c (all_sigs groups) /\ t_tbar st = 0 /\
    detokenise c toks = Ok seqs /\ length seqs = Z.to_nat (c_ntracks c) /\
    forall i, (i < length seqs)%nat ->
      Permutation (filter rel (nth i seqs [])) (exp_track c (glue 0 (group_events groups)) i) /\
      Permutation (filter is_note (nth i seqs []))
                  (flat_map (note_msgs c) (glued_notes i 0 (group_lens c groups) (group_notes_of i groups))) /\
      Permutation (filter is_cap (nth i seqs [])) (caps_msgs (bar_ends c 0 (all_sigs groups))).
Proof.
  intros Hc Hok. destruct (C03_bar_chunks_ok g c groups Hc Hok) as (H1 & H2 & H3).
  pose proof (chunks_valid g c _ _ H3) as Hv. cbn [rclk0 r_time] in Hv.
  destruct (C01_core_roundtrip g c _ Hc Hv) as (toks & st & seqs & R1 & _ & R3 & R4 & R5 & R6 & R7).
  destruct (valid_cfg_parts g c Hc) as (_ & _ & _ & _ & _ & HB & _).
  destruct (groups_run g c Hc groups (rclk0 c) eq_refl eq_refl HB (Z.divide_0_r g) Hok) as (G1 & G2 & G3 & G4).
  cbv zeta in G1, G2, G3, G4. change (r_time (rclk0 c)) with 0 in G1, G2, G3, G4.
  assert (Hclose : ref_close (fst (ref_run c (rclk0 c) (glue 0 (group_events groups)))) =
                   (fst (ref_run c (rclk0 c) (glue 0 (group_events groups))), [])).
  { unfold ref_close. now rewrite G2, G3. }
  exists toks, st, seqs.
  split; [rewrite (tokenise_many_chunked c _ _ _ H2 H1), (C03_chunked_tokens g c _ Hc H3); exact R1|].
  split; [exact R1|].
  split; [rewrite R3; unfold run_end; rewrite Hclose; cbn [fst]; rewrite G1; lia|].
  split; [exact R4|]. split; [exact R5|]. split; [exact R6|]. intros i Hi. specialize (R7 i Hi). split; [exact R7|]. split.
  - apply (filter_perm is_note) in R7. rewrite filter_note_rel, exp_track_notes, ev_notes_track in R7.
    eapply perm_trans; [exact R7|]. apply Permutation_flat_map.
    rewrite <- (groups_lens g c Hc groups Hok). apply glue_track_notes. apply (groups_notes g c Hc i groups); [lia|exact Hok].
  - apply (filter_perm is_cap) in R7. rewrite filter_cap_rel, exp_track_caps in R7.
    unfold run_caps in R7. rewrite Hclose, G4 in R7. cbn [snd] in R7. now rewrite app_nil_r in R7.
Qed.
