#!/usr/bin/env python3
"""Systematic first-order mutants of the implementation, as a measure of what the checks detect (a diagnostic, not a check).

For a sample of syntactic mutation sites in the anchored source files (comparison operators, arithmetic operators,
boolean connectives, small integer constants, dropped `not`) the mutant is written into a scratch clone of the
repository, the quick checks of every property whose cone covers the changed function are run against it, and the
outcome is recorded: detected with a failing input / detected as a broken tie only / survived.

usage: harness/mutate.py N [seed]       (scratch clone: /var/tmp/repo_mut, scratch copy of /verif: /var/tmp/vmut)
output: notes/mutation_results.json, notes/mutation_summary.txt
"""
import ast, os, sys, json, random, subprocess, shutil, time
VERIF = os.path.dirname(os.path.dirname(os.path.abspath(__file__)))
sys.path.insert(0, os.path.join(VERIF, "harness"))
import srcmap

FILES = ["scoda/sequences/absolute_sequence.py", "scoda/sequences/relative_sequence.py", "scoda/sequences/sequence.py",
         "scoda/elements/bar.py", "scoda/elements/track.py", "scoda/elements/composition.py", "scoda/elements/message.py",
         "scoda/midi/midi_file.py", "scoda/midi/midi_track.py", "scoda/midi/midi_message.py", "scoda/misc/util.py",
         "scoda/misc/music_theory.py", "scoda/tokenisation/notelike_tokenisation.py"]
SKIP_FUNCS = {"plot_pianorolls", "__repr__", "from_dict", "regress", "simple_regression", "minmax", "_fill_dictionary_entry"}
CMP = {ast.Lt: ast.LtE, ast.LtE: ast.Lt, ast.Gt: ast.GtE, ast.GtE: ast.Gt, ast.Eq: ast.NotEq, ast.NotEq: ast.Eq}
BIN = {ast.Add: ast.Sub, ast.Sub: ast.Add, ast.Mult: ast.FloorDiv, ast.FloorDiv: ast.Mult}


def sites(tree):
    """(function qualname, node, kind) for every mutation site"""
    out = []

    def visit(node, fn):
        for ch in ast.iter_child_nodes(node):
            f2 = fn
            if isinstance(ch, (ast.FunctionDef, ast.AsyncFunctionDef)):
                f2 = (fn + "." if fn else "") + ch.name
                if ch.name in SKIP_FUNCS:
                    continue
            elif isinstance(ch, ast.ClassDef):
                f2 = (fn + "." if fn else "") + ch.name
            if fn or f2:
                if isinstance(ch, ast.Compare) and len(ch.ops) == 1 and type(ch.ops[0]) in CMP:
                    out.append((f2, ch, "cmp"))
                elif isinstance(ch, ast.BinOp) and type(ch.op) in BIN:
                    out.append((f2, ch, "bin"))
                elif isinstance(ch, ast.BoolOp):
                    out.append((f2, ch, "bool"))
                elif isinstance(ch, ast.UnaryOp) and isinstance(ch.op, ast.Not):
                    out.append((f2, ch, "not"))
                elif isinstance(ch, ast.Constant) and type(ch.value) is int and 0 <= ch.value <= 127:
                    out.append((f2, ch, "const"))
            visit(ch, f2)
    visit(tree, "")
    return [s for s in out if s[0] and "." in s[0] or s[0]]


def mutate(src, k):
    tree = ast.parse(src)
    ss = sites(tree)
    fn, node, kind = ss[k]
    if kind == "cmp":
        node.ops = [CMP[type(node.ops[0])]()]
    elif kind == "bin":
        node.op = BIN[type(node.op)]()
    elif kind == "bool":
        node.op = ast.Or() if isinstance(node.op, ast.And) else ast.And()
    elif kind == "not":
        node.op = ast.UAdd()                       # `not x` -> `+x`: truthiness kept only for bools/ints; use bool(x) instead
        new = ast.Call(func=ast.Name(id="bool", ctx=ast.Load()), args=[node.operand], keywords=[])
        for parent in ast.walk(tree):
            for field, val in ast.iter_fields(parent):
                if val is node:
                    setattr(parent, field, new)
                elif isinstance(val, list) and node in val:
                    val[val.index(node)] = new
    elif kind == "const":
        node.value = node.value + 1
    ast.fix_missing_locations(tree)
    return ast.unparse(tree), fn, kind, getattr(node, "lineno", 0)


def props_for(fname, fn):
    import check as C
    name = f"{fname}::{fn}"
    out = []
    for prop, cone in C.CONE.items():
        if any(srcmap.boost_for(op, [name]) for op, _ in cone):
            out.append(prop)
    return out


def main():
    n = int(sys.argv[1]) if len(sys.argv) > 1 else 20
    seed = int(sys.argv[2]) if len(sys.argv) > 2 else 0
    rng = random.Random(seed)
    repo, vm = "/var/tmp/repo_mut", "/var/tmp/vmut"
    if not os.path.isdir(repo):
        subprocess.check_call(["git", "clone", "-q", "/repo", repo])
    subprocess.check_call(["git", "-C", repo, "fetch", "-q", "origin"])
    subprocess.check_call(["git", "-C", repo, "checkout", "-q", "--detach", "origin/main"])
    subprocess.check_call(["git", "-C", repo, "checkout", "--", "."])
    subprocess.check_call(["rsync", "-a", "--delete", "--exclude", ".git", "--exclude", "evidence", "--exclude", "replays", VERIF + "/", vm + "/"])
    os.makedirs(vm + "/evidence", exist_ok=True); os.makedirs(vm + "/replays", exist_ok=True)
    allsites = []
    for f in FILES:
        src = open(os.path.join(repo, f)).read()
        for k, (fn, node, kind) in enumerate(sites(ast.parse(src))):
            allsites.append((f, k, fn, kind))
    rng.shuffle(allsites)
    results, t00 = [], time.time()
    for f, k, fn, kind in allsites:
        if len(results) >= n:
            break
        props = props_for(f, fn)[:4]
        if not props:
            continue
        path = os.path.join(repo, f)
        orig = open(path).read()
        try:
            new, fn2, kind2, line = mutate(orig, k)
            compile(new, path, "exec")
        except Exception:
            continue
        open(path, "w").write(new)
        rec = {"file": f, "function": fn, "kind": kind, "line": line, "props": props, "outcome": "survived", "detail": []}
        try:
            for p in props:
                try:
                    pr = subprocess.run([os.path.join(vm, "check"), p], capture_output=True, text=True, cwd=vm,
                                        env=dict(os.environ, SCODA_REPO=repo), timeout=1500)
                    out = pr.stdout
                except subprocess.TimeoutExpired:
                    out = "VIOLATION timeout"
                v = [l for l in out.splitlines() if l.startswith("VIOLATION")]
                if v:
                    tie_only = all("no-failing-input-found" in l for l in v)
                    rec["detail"].append((p, "tie-only" if tie_only else "failing-input"))
                    if not tie_only:
                        rec["outcome"] = "failing-input"
                        break
                    rec["outcome"] = "tie-only"
        finally:
            open(path, "w").write(orig)
        results.append(rec)
        print(len(results), rec["file"], rec["function"], rec["kind"], rec["line"], rec["outcome"], rec["detail"], f"{time.time() - t00:.0f}s", flush=True)
        json.dump(results, open(os.path.join(VERIF, "notes", "mutation_results.json"), "w"), indent=1)
    tot = len(results)
    summ = {k: sum(1 for r in results if r["outcome"] == k) for k in ("failing-input", "tie-only", "survived")}
    with open(os.path.join(VERIF, "notes", "mutation_summary.txt"), "w") as fh:
        fh.write(f"{tot} first-order mutants (seed {seed}): {summ}\n")
        for r in results:
            if r["outcome"] == "survived":
                fh.write(f"SURVIVED {r['file']}:{r['line']} {r['function']} [{r['kind']}] checked by {r['props']}\n")
    print(summ)


if __name__ == "__main__":
    main()
