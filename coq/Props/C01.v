(* C01 -- Tokenise, encode, decode, detokenise reproduces every valid piece exactly.
   CORE level: the statements are about event lists (channel, pairing) as produced by the tokeniser's front end
   `tok_frontend`; the front end itself is not characterised here.  `core c st evs` is, verbatim, everything
   `tokenise` does after the front end (C01_tokenise_core).

   Vocabulary of the statements (all defined in Proofs/C01_rest.v, Proofs/C01_proofs.v):
   * `valid_cfg g c` (boolean): g > 0 is a grid unit that fits the step sizes (`grid_ok`: the largest step is a
     positive multiple of g and for every multiple r of g up to the largest step the greedy choice
     `largest_le steps r` is a positive multiple of g -- a finite check; the default steps [2;3;4;6;8;12;16;24]
     pass with g = 2); num_tracks >= 1; some velocity bin >= VELOCITY_MAX and no negative bin; the initial bar
     capacity is a positive multiple of g.  No condition on the four flags, the pitch range or the note values.
   * `valid_events g c evs` (boolean): event times are non-decreasing multiples of g; notes have channel in
     0..num_tracks-1, pitch in range, duration >= 0 among the note values, velocity <= VELOCITY_MAX; a time
     signature at a bar start has denominator > 0, 8*num divisible by den, scaled numerator in the signature
     range and a bar capacity that is a positive multiple of g (a time signature inside a bar is ignored by the
     tokeniser and unconstrained); other event types (INTERNAL caps) are unconstrained.  The bar position is the
     reference clock `ref_step` / `ref_run` (closed form: position = ticks mod capacity), independent of step sizes.
   * `ev_notes c i e`: for a NOTE_ON event of channel i the two messages
     [NOTE_ON pitch (value of the velocity's bin) onset; NOTE_OFF pitch offset], otherwise [].
   * `run_caps c k evs`: the ends of the bars completed while the reference clock runs over evs, plus the end of the
     last bar when it is open or holds a note (the closing rest of `tokenise`).
   * `exp_track c evs i` = the `ev_notes` of channel i in event order ++ an INTERNAL cap at every `run_caps` time.
   * `rel m`: m is a NOTE_ON, NOTE_OFF or INTERNAL message. *)
From Coq Require Import ZArith List Bool Lia Permutation.
From Model Require Import Base Util Seq Pairing Tok.
From Proofs Require Import C01_rest C01_proofs.
Import ListNotations.
Open Scope Z_scope.

(* `tokenise` = track-count check, front end, then `core` (so the theorems below are about the model's own code) *)
Theorem C01_tokenise_core : forall (c : cfg) (st : tstate) (tracks : list (list msg)),
  tokenise c st tracks =
  if negb (Z.eqb (lenZ tracks) (c_ntracks c)) then Err TokErr else do evs <- tok_frontend tracks; core c st evs.
Proof. exact C01_rest.tokenise_core. Qed.
Print Assumptions C01_tokenise_core.

(* Rests: from a loop state inside a bar (0 < rem, tbar + rem = total, everything on the grid) a rest of any grid
   length buf >= 0 never fails (no TokErr, no OutOfFuel), emits only bar tokens and rest tokens whose value is a step
   size, advances the clock by exactly buf, keeps the bar invariant, and the decoder run over the emitted tokens from
   an equal clock ends on an equal clock, having inserted an INTERNAL cap into every track at exactly each completed
   bar end (time + rem, then every `total` ticks).  Clause: "rests crossing bar lines ... on the same bar grid". *)
Theorem C01_rest_sound : forall (g : Z) (c : cfg) (s : lstate) (buf : Z) (d : dstate),
  grid_ok (c_steps c) g = true ->
  0 < l_rem s -> l_tbar s + l_rem s = l_total s -> 0 <= l_tbar s -> (g | l_rem s) -> (g | l_total s) ->
  0 <= buf -> (g | buf) ->
  d_time d = l_time s -> d_tbar d = l_tbar s -> d_total d = l_total s -> d_rem d = l_rem s ->
  exists s' new d',
    apply_rest (rest_fuel buf) c s buf = Ok s' /\ l_toks s' = l_toks s ++ new /\
    Forall (fun t => t = TBar \/ exists v, t = TRest v /\ In v (c_steps c)) new /\
    l_time s' = l_time s + buf /\ l_tbar s' = (l_tbar s + buf) mod l_total s /\
    (0 < l_rem s' /\ l_tbar s' + l_rem s' = l_total s' /\ 0 <= l_tbar s' /\ (g | l_rem s') /\ (g | l_total s')) /\
    l_total s' = l_total s /\
    foldM (detok_step c) new d = Ok d' /\
    (d_time d' = l_time s' /\ d_tbar d' = l_tbar s' /\ d_total d' = l_total s' /\ d_rem d' = l_rem s') /\
    length (d_seqs d') = length (d_seqs d) /\
    forall i, (i < length (d_seqs d))%nat ->
      Permutation (filter rel (nth i (d_seqs d') []))
        (map (mk_internal 0) (ends (Z.to_nat ((l_tbar s + buf) / l_total s)) (l_time s + l_rem s) (l_total s))
         ++ filter rel (nth i (d_seqs d) [])).
Proof. exact C01_proofs.C01_rest_sound. Qed.
Print Assumptions C01_rest_sound.

(* Clause "tokenisation succeeds": the event loop of the core accepts every valid event list (initial loop state of
   `tokenise` on the initial tstate). *)
Theorem C01_core_accepts : forall (g : Z) (c : cfg) (evs : list event),
  valid_cfg g c = true -> valid_events g c evs = true ->
  exists s1, foldM (tok_event c 0) evs
               (mkls [] 0 0 DEFAULT_TS_NUM DEFAULT_TS_DEN (bar_cap c DEFAULT_TS_NUM DEFAULT_TS_DEN)
                     (bar_cap c DEFAULT_TS_NUM DEFAULT_TS_DEN) (-1) (-1) (-1) false) = Ok s1.
Proof. exact C01_proofs.C01_core_accepts. Qed.
Print Assumptions C01_core_accepts.

(* Clause "detokenising returns, track for track, exactly the same notes (pitch, onset, duration) with each velocity
   replaced by the value of its bin, on the same bar grid, total duration rounded up to the end of the last bar":
   the core succeeds, every emitted token is in the vocabulary, the final clock is the reference clock's and sits on
   a bar start, detokenisation succeeds with num_tracks sequences, and the NOTE_ON / NOTE_OFF / INTERNAL content of
   track i is a permutation of `exp_track c evs i` (the sequences are kept time-ordered by `insort`; the order of
   simultaneous messages is not stated).  For every configuration (all flag combinations). *)
Theorem C01_core_roundtrip : forall (g : Z) (c : cfg) (evs : list event),
  valid_cfg g c = true -> valid_events g c evs = true ->
  exists toks st seqs,
    core c (tstate0 c) evs = Ok (toks, st) /\ Forall (fun t => In t (vocab c)) toks /\
    t_time st = r_time (run_end c (rclk0 c) evs) /\ t_tbar st = 0 /\
    detokenise c toks = Ok seqs /\ length seqs = Z.to_nat (c_ntracks c) /\
    forall i, (i < length seqs)%nat -> Permutation (filter rel (nth i seqs [])) (exp_track c evs i).
Proof. exact C01_proofs.C01_core_roundtrip. Qed.
Print Assumptions C01_core_roundtrip.

(* the note part of `exp_track` does not depend on the clock: it is the `ev_notes` of the events, in event order *)
Theorem C01_exp_track_notes : forall (c : cfg) (evs : list event) (i : nat),
  filter is_note (exp_track c evs i) = flat_map (ev_notes c (Z.of_nat i)) evs.
Proof. exact C01_proofs.exp_track_notes. Qed.
Print Assumptions C01_exp_track_notes.

(* Supplement to the permutation statements: whatever the tokens, every detokenised track is ordered by time (so a
   track's note/cap content is determined by C01_core_roundtrip up to the order of simultaneous messages). *)
Theorem C01_detok_sorted : forall (c : cfg) (toks : list tok) (seqs : list (list msg)),
  detokenise c toks = Ok seqs -> Forall (fun l => time_sorted l = true) seqs.
Proof. exact C01_proofs.C01_detok_sorted. Qed.
Print Assumptions C01_detok_sorted.

(* Clause "encoded-then-decoded": whenever `encode` succeeds, `decode` gives the tokens back.  No hypothesis (in
   particular no NoDup of the vocabulary is needed: encode takes the last index, decode re-checks it). *)
Theorem C01_encode_decode : forall (c : cfg) (ts : list tok) (ids : list Z),
  encode c ts = Ok ids -> decode c ids = Ok ts.
Proof. exact C01_proofs.C01_encode_decode. Qed.
Print Assumptions C01_encode_decode.

(* The whole core pipeline: tokens -> ids -> tokens -> sequences. *)
Theorem C01_core_pipeline : forall (g : Z) (c : cfg) (evs : list event),
  valid_cfg g c = true -> valid_events g c evs = true ->
  exists toks st ids seqs,
    core c (tstate0 c) evs = Ok (toks, st) /\ encode c toks = Ok ids /\ decode c ids = Ok toks /\
    detokenise c toks = Ok seqs /\ length seqs = Z.to_nat (c_ntracks c) /\
    forall i, (i < length seqs)%nat -> Permutation (filter rel (nth i seqs [])) (exp_track c evs i).
Proof. exact C01_proofs.C01_core_pipeline. Qed.
Print Assumptions C01_core_pipeline.

(* ================================================================ FRONT END (piece level).
   Vocabulary (Proofs/C01_frontend_sig.v, _pipe.v, _pair.v, C01_frontend.v, C01_frontend_total.v):
   * `valid_track i r` (boolean, = `track_ok i r`): r as track number i has non-negative waits; only WAIT / NOTE_ON /
     NOTE_OFF messages, plus TIME_SIGNATURE messages when i = 0; for every pitch that occurs its NOTE_ON / NOTE_OFF
     messages strictly alternate starting with an on, every on is closed, and its off comes after a positive wait sum
     (`sig_ok` of the pitch signature `psig`: single channel, no overlap, positive durations); at most one time
     signature per tick and none that repeats the signature in force (`ts_ok`).
     `tracks_ok 0 tracks` is the conjunction of `valid_track j (track j)` (C01_tracks_ok_spec).
   * `notes_of r`: the notes (pitch, onset, offset, velocity) of a relative track, by an independent accumulator
     (clock over the waits, table of open pitches).
   * `piece_tsl tracks`: the (tick, numerator, denominator) of the time signatures of track 0.
   * `ts_run g c t0 B l`: the time signatures l against the bar grid (bars of length B from t0): each on the tick grid;
     one inside a bar is unconstrained (the tokeniser ignores it); one on a bar line has a positive denominator, a
     whole number of eighths within the signature range and a bar length that is a positive multiple of g.
   * `valid_piece g c tracks` (boolean): one track per configured track, track j valid as track j, every note with
     onset on the grid g, pitch in range, duration among the note values, velocity <= 127, the duration of the
     longest track (`piece_dur`, where the INTERNAL cap can land) on the grid, and `ts_run` of the time signatures.
   * `track_notes i evs`: the (pitch, onset, offset, velocity) of the NOTE_ON events of channel i, in event order.
   * `note_msgs c x`: the two messages the decoder writes for note x (velocity replaced by its bin value).
   PARTIAL (what valid_piece excludes although the library accepts it): a time signature equal to the one in force
   (normalise drops it; see ex_repeated_ts_rejected) and two time signatures on one tick. *)
From Proofs Require Import C01_frontend_pipe C01_frontend C01_frontend_total.

(* Clause "tokenisation succeeds", front-end part, for EVERY input: `tok_frontend` never fails.  Its only error
   would be the IndexError of get_interleaved_message_pairings (a channel without any pairing), which needs a
   NOTE_OFF without NOTE_ON, TIME_SIGNATURE or INTERNAL message; normalise never leaves one. *)
Theorem C01_frontend_total : forall tracks : list (list msg), exists evs, tok_frontend tracks = Ok evs.
Proof. exact C01_frontend_total.C01_frontend_total. Qed.
Print Assumptions C01_frontend_total.

(* `tracks_ok 0` is "track j is valid as track j". *)
Theorem C01_tracks_ok_spec : forall tracks : list (list msg),
  tracks_ok 0 tracks = true <-> forall n r, nth_error tracks n = Some r -> valid_track (0 + Z.of_nat n) r = true.
Proof. exact (fun tracks => C01_frontend.tracks_ok_valid_track tracks 0). Qed.
Print Assumptions C01_tracks_ok_spec.

(* The events of a valid piece: ordered by time; every event sits in the channel of its first message; the NOTE_ON
   events of channel i are exactly the notes of track i (as a multiset -- simultaneous notes of a track are re-ordered
   by pitch by AbsoluteSequence.sort -- and, pitch by pitch, in the same order); the TIME_SIGNATURE events are, in
   order, the time signatures of track 0. *)
Theorem C01_frontend_notes_partial : forall (g : Z) (c : cfg) (tracks : list (list msg)) (evs : list C01_rest.event),
  valid_piece g c tracks = true -> tok_frontend tracks = Ok evs ->
  Sorted.StronglySorted (fun a b => ev_time a <= ev_time b) evs /\
  (forall e, In e evs -> fst e = m_chan (ev_msg e)) /\
  (forall i, (i < length tracks)%nat ->
     Permutation (track_notes (Z.of_nat i) evs) (notes_of (nth i tracks [])) /\
     forall n, filter (pitch_is n) (track_notes (Z.of_nat i) evs) = filter (pitch_is n) (notes_of (nth i tracks []))) /\
  map ev_tsv (filter is_tsev evs) = piece_tsl tracks.
Proof. exact C01_frontend.C01_frontend_notes_partial. Qed.
Print Assumptions C01_frontend_notes_partial.

(* ... hence they satisfy the hypothesis of the core theorems above. *)
Theorem C01_frontend_valid_partial : forall (g : Z) (c : cfg) (tracks : list (list msg)) (evs : list C01_rest.event),
  valid_cfg g c = true -> valid_piece g c tracks = true -> tok_frontend tracks = Ok evs -> valid_events g c evs = true.
Proof. exact C01_frontend.C01_frontend_valid_partial. Qed.
Print Assumptions C01_frontend_valid_partial.

(* The property at piece level, for every valid configuration (all flag combinations, any bins / pitch range / note
   values / track count) and every valid piece (notes on all tracks, rests crossing bar lines, time-signature changes
   on track 0, simultaneous notes across tracks): tokenise succeeds with tokens of the vocabulary, they encode,
   decode gives them back, detokenise succeeds with one sequence per track, and the note messages of sequence i are
   exactly (up to the order of the messages; the sequences are time-ordered by C01_detok_sorted) the notes of track i
   -- same pitch, onset tick and offset tick -- with each velocity replaced by the value of its velocity bin.  Bar
   grid and total duration: the NOTE / INTERNAL content of sequence i is `exp_track c evs i` (an INTERNAL cap at every
   bar end passed by the reference clock over the front end's events evs, the last bar completed), and the final
   clock sits on that last bar line.  PARTIAL: see the note on valid_piece above. *)
Theorem C01_piece_roundtrip_partial : forall (g : Z) (c : cfg) (tracks : list (list msg)),
  valid_cfg g c = true -> valid_piece g c tracks = true ->
  exists evs toks st ids seqs,
    tok_frontend tracks = Ok evs /\ valid_events g c evs = true /\
    tokenise c (tstate0 c) tracks = Ok (toks, st) /\ Forall (fun t => In t (vocab c)) toks /\
    encode c toks = Ok ids /\ decode c ids = Ok toks /\
    t_time st = r_time (run_end c (rclk0 c) evs) /\ t_tbar st = 0 /\
    detokenise c toks = Ok seqs /\ length seqs = length tracks /\
    forall i, (i < length tracks)%nat ->
      Permutation (filter rel (nth i seqs [])) (exp_track c evs i) /\
      Permutation (filter is_note (nth i seqs [])) (flat_map (note_msgs c) (notes_of (nth i tracks []))).
Proof. exact C01_frontend.C01_piece_roundtrip_partial. Qed.
Print Assumptions C01_piece_roundtrip_partial.
