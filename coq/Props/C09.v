(* C09 -- Bar splitting follows the time signatures and conserves the music.
   Statements about Model/Bars.v : split_bars rels meta qnl, where rels = relative message lists of all tracks,
   meta = absolute list of the meta track (time / key signatures are read from it), qnl = re-quantise note lengths.

   Vocabulary (all defined in Proofs/C09_proofs.v, computable):
     blen n d            = PPQN * n * 4 / d = bar_capacity n d       length in ticks of an n/d bar
     bar_dur b           = dur_rel (b_rel b)                          sum of the waits of the bar's sequence
     maxdur rels         = max (0, longest track duration)
     all_nonneg rels     every wait message of every track has time >= 0
     all_pos tsq         every time-signature message has a positive bar length
     sig_schedule meta k, key_schedule meta k, bar_start meta k
                         signature / key / start tick of bar k obtained by running ONLY the head-consumption rule of
                         the loop on the meta track (at most one signature message and one key message is consumed per
                         bar, when its time is <= the start of the bar), independent of the tracks
     sig_in_force meta t, key_in_force meta t
                         the last time-signature (key) message of the meta track with time <= t, 4/4 (no key) before any
     ts_aligned meta     the time-signature messages have strictly increasing times; the first one lies on the 4/4 grid
                         from tick 0, each later one a positive whole number of bars (of its predecessor's signature)
                         after its predecessor; all have a positive bar length
     ks_aligned meta     the key messages have strictly increasing times and each time is the start tick of a bar
   Non-vacuity: C09_proofs.C09_examples.ex_hypotheses (3 tracks, 3/4 -> 2/4 -> 6/8, C -> G, all hypotheses hold, 4 bars).
   The last sentence of the property (conservation of the sounding set) is covered by the theorems at the end of this
   file (the C09_sound theorems); "inputs unchanged" holds by construction, the model is a pure function. *)
From Coq Require Import ZArith List Bool Lia.
From Model Require Import Base Seq Bars.
From Proofs Require Import C09_proofs.
Import ListNotations.
Open Scope Z_scope.

(* ["gives every track the same number of bars"]  every track gets a bar list, and all tracks get the same number
   n >= 1 of bars; no hypothesis *)
Theorem C09_same_count : forall rels meta qnl bars, split_bars rels meta qnl = Ok bars ->
  length bars = length rels /\ exists n, (1 <= n)%nat /\ forall t, In t bars -> length t = n.
Proof. exact C09_proofs.C09_same_count. Qed.
Print Assumptions C09_same_count.

(* ["bar k lasts exactly the length of the signature ..., carries that signature"]  every bar of the result lasts
   exactly the capacity of the signature (b_num, b_den) it is labelled with, its sequence starts with exactly that
   time-signature message and contains no other time-signature message; no hypothesis *)
Theorem C09_bar_signature : forall rels meta qnl bars, split_bars rels meta qnl = Ok bars ->
  forall t b, In t bars -> In b t ->
    dur_rel (b_rel b) = bar_capacity (b_num b) (b_den b) /\
    exists tl, b_rel b = mk_ts 0 (b_num b) (b_den b) 0 false :: tl /\ no_ts tl = true.
Proof. exact C09_proofs.C09_bar_signature. Qed.
Print Assumptions C09_bar_signature.

(* [error behaviour]  the only errors are a bar exception and the model's fuel bound *)
Theorem C09_errors : forall rels meta qnl e, split_bars rels meta qnl = Err e -> e = BarErr \/ e = OutOfFuel.
Proof. exact C09_proofs.C09_errors. Qed.
Print Assumptions C09_errors.

(* ["the signature / key in force", general form]  bar k of EVERY track is labelled with the signature and key of the
   track-independent schedule; no hypothesis (also for unaligned signature changes) *)
Theorem C09_signature_in_force_schedule : forall rels meta qnl bars, split_bars rels meta qnl = Ok bars ->
  forall t k b, In t bars -> nth_error t k = Some b ->
    (b_num b, b_den b) = sig_schedule meta k /\ b_key b = key_schedule meta k.
Proof. exact C09_proofs.C09_signature_in_force_schedule. Qed.
Print Assumptions C09_signature_in_force_schedule.

(* the start tick of bar k of the schedule is the total duration of bars 0..k-1 of any track *)
Theorem C09_bar_starts : forall rels meta qnl bars, split_bars rels meta qnl = Ok bars ->
  forall t k, In t bars -> (k <= length t)%nat -> sumZ (map bar_dur (firstn k t)) = bar_start meta k.
Proof. exact C09_proofs.C09_bar_starts. Qed.
Print Assumptions C09_bar_starts.

(* ["bar k ... carries the signature in force at its start (4/4 before any)"]  for boundary-aligned signature
   changes, bar k of every track carries the signature in force at the tick where it starts (= total duration of the
   bars before it).  Alignment is necessary: C09_examples.ex_same_tick_delayed / ex_mid_bar_delayed *)
Theorem C09_signature_in_force : forall rels meta qnl bars, split_bars rels meta qnl = Ok bars ->
  ts_aligned meta = true ->
  forall t k b, In t bars -> nth_error t k = Some b ->
    (b_num b, b_den b) = sig_in_force meta (sumZ (map bar_dur (firstn k t))).
Proof. exact C09_proofs.C09_signature_in_force. Qed.
Print Assumptions C09_signature_in_force.

(* ["... and the key in force"]  same for the key, when every key change falls on a bar start and all bar lengths
   are positive *)
Theorem C09_key_in_force : forall rels meta qnl bars, split_bars rels meta qnl = Ok bars ->
  all_pos (filter is_ts meta) = true -> ks_aligned meta = true ->
  forall t k b, In t bars -> nth_error t k = Some b ->
    b_key b = key_in_force meta (sumZ (map bar_dur (firstn k t))).
Proof. exact C09_proofs.C09_key_in_force. Qed.
Print Assumptions C09_key_in_force.

(* [the model's fuel is not a restriction]  with non-negative waits and positive bar lengths the loop never runs out
   of fuel: the result is Ok or a bar exception.  Non-negative waits are necessary:
   C09_examples.ex_negative_wait_out_of_fuel *)
Theorem C09_bar_length_positive_terminates : forall rels meta qnl,
  all_nonneg rels = true -> all_pos (filter is_ts meta) = true ->
  split_bars rels meta qnl <> Err OutOfFuel.
Proof. exact C09_proofs.C09_bar_length_positive_terminates. Qed.
Print Assumptions C09_bar_length_positive_terminates.

(* ["the bars cover the longest track with less than one bar to spare"]  with D the duration of the longest track:
   D = 0 gives exactly one bar; otherwise the last bar starts strictly before D and ends at or after D *)
Theorem C09_coverage : forall rels meta qnl bars, split_bars rels meta qnl = Ok bars ->
  all_nonneg rels = true -> all_pos (filter is_ts meta) = true ->
  forall t, In t bars ->
    (maxdur rels = 0 -> length t = 1%nat) /\
    (0 < maxdur rels -> sumZ (map bar_dur (removelast t)) < maxdur rels) /\
    maxdur rels <= sumZ (map bar_dur t).
Proof. exact C09_proofs.C09_coverage. Qed.
Print Assumptions C09_coverage.

(* ["Laid end to end, a track's bars reproduce its sounding (channel, pitch, tick) set exactly when note-length
   re-quantisation is off"]  (Proofs/C09_sound.v)  `sound k t 0 None l = Some v` (Proofs/C08_proofs.v) says that key
   k = (channel, pitch) is sounding at tick t of the relative list l, with velocity v; `paired_pos` is C08's
   predicate (per key NOTE_ON / NOTE_OFF alternate, starting with an on and ending with an off, a positive wait
   between an on and its off).  For every track i, every key and every tick, the bars of track i laid end to end
   sound exactly like track i (same velocity, too).  Hypotheses: non-negative waits, positive bar lengths, paired
   tracks.  Time / key signature messages inside the tracks are allowed (a track whose piece conflicts with the bar's
   signature makes split_bars fail, which `= Ok bars` excludes).  Re-quantisation ON: C09_sound_subset below. *)
From Proofs Require Import C08_proofs C09_sound.

Theorem C09_sound_conserved : forall (rels : list (list msg)) (meta : list msg) (bars : list (list bar)),
  split_bars rels meta false = Ok bars ->
  all_nonneg rels = true -> all_pos (filter is_ts meta) = true -> forallb paired_pos rels = true ->
  forall (i : nat) (bs : list bar) (r : list msg), nth_error bars i = Some bs -> nth_error rels i = Some r ->
  forall (k : k2) (t : Z), sound k t 0 None (concat (map b_rel bs)) = sound k t 0 None r.
Proof. exact C09_sound.C09_sound_conserved. Qed.
Print Assumptions C09_sound_conserved.

Theorem C09_sound_conserved_nth : forall (rels : list (list msg)) (meta : list msg) (bars : list (list bar)),
  split_bars rels meta false = Ok bars ->
  all_nonneg rels = true -> all_pos (filter is_ts meta) = true -> forallb paired_pos rels = true ->
  forall i : nat, (i < length rels)%nat ->
  forall (k : k2) (t : Z), sound k t 0 None (concat (map b_rel (nth i bars []))) = sound k t 0 None (nth i rels []).
Proof. exact C09_sound.C09_sound_conserved_nth. Qed.
Print Assumptions C09_sound_conserved_nth.

(* ["... and a subset of it when it is on"]  (Proofs/C09_sound_qnl.v; isS o = true iff o = Some _)  with note-length
   re-quantisation on, the bars of track i laid end to end sound only where track i sounds -- same hypotheses.
   Uses Proofs/Sound_glue.v (to_abs / to_rel keep the sounding set) and C06_main (the re-quantiser is the per-key
   reference qnl_key, which only shortens or drops notes). *)
From Proofs Require Import C09_sound_qnl.

Theorem C09_sound_subset : forall (rels : list (list msg)) (meta : list msg) (bars : list (list bar)),
  split_bars rels meta true = Ok bars ->
  all_nonneg rels = true -> all_pos (filter is_ts meta) = true -> forallb paired_pos rels = true ->
  forall (i : nat) (bs : list bar) (r : list msg), nth_error bars i = Some bs -> nth_error rels i = Some r ->
  forall (k : k2) (t : Z),
    isS (sound k t 0 None (concat (map b_rel bs))) = true -> isS (sound k t 0 None r) = true.
Proof. exact C09_sound_qnl.C09_sound_subset. Qed.
Print Assumptions C09_sound_subset.

(* the parenthesis "(only boundary-cut fragments may shrink)" is FALSE: the default note values are
   [24; 12; 6; 16; 8; 4; 36; 18; 9], so every note longer than 36 ticks is shortened to 36 -- here a half note
   [0, 48) lying entirely inside the single 4/4 bar sounds only on [0, 36) afterwards *)
Theorem C09_sound_only_cut_fragments_shrink_refuted :
  exists (rels : list (list msg)) (b : bar),
    all_nonneg rels = true /\ forallb paired_pos rels = true /\ split_bars rels [] true = Ok [[b]] /\
    dur_rel (nth 0 rels []) = 96 /\
    isS (sound (0, 60) 40 0 None (nth 0 rels [])) = true /\ isS (sound (0, 60) 40 0 None (b_rel b)) = false.
Proof.
  exists C09_qnl_examples.qx_half. eexists. split; [vm_compute; reflexivity|]. split; [vm_compute; reflexivity|].
  split; [vm_compute; reflexivity|]. vm_compute. repeat split; reflexivity.
Qed.
Print Assumptions C09_sound_only_cut_fragments_shrink_refuted.
