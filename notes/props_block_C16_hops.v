
(* ================================================================ compound operations (Model/ScaleDown.v,
   Proofs/C16_hops.v).  Vocabulary:
     optl meta        [j] for meta = Some j, [] for None
     names_h h        every object index named by the compound operation h (HOp o / HFail o e: names o; HSeq os: the
                      names of all of os; HScaleDown i k meta then_: i, the meta object and the names of then_)
     may_change_h h   likewise with may_change (for HScaleDown: i and the meta object, whose views are refreshed)
     writes_h h       likewise with writes (for HScaleDown: i only -- the meta object is only read)
     leaves_h j hs := no compound operation of hs has j in may_change_h;  no_write_h j hs := none has j in writes_h *)
From Model Require Import ScaleDown.
From Proofs Require Import C16_hops.

(* frame for one compound operation (any constructor of `hop`, including one that stops at its first error): every
   existing object stays at its index; it is literally unchanged unless the compound may change it, and at most
   regenerated unless the compound writes it.  In particular the meta object j <> i of scale(1/k, meta) is at most
   regenerated *)
Theorem C16_hframe : forall st h j s, nth_error st j = Some s ->
  exists s', nth_error (fst (hstep st h)) j = Some s' /\
             (memn j (may_change_h h) = false -> s' = s) /\
             (memn j (writes_h h) = false -> regen s s').
Proof. exact C16_hops.C16_hframe. Qed.
Print Assumptions C16_hframe.

(* an object the compound operation does not even name is literally unchanged *)
Theorem C16_hframe_names : forall st h j s, nth_error st j = Some s -> memn j (names_h h) = false ->
  nth_error (fst (hstep st h)) j = Some s.
Proof. exact C16_hops.C16_hframe_names. Qed.
Print Assumptions C16_hframe_names.

(* the store only grows *)
Theorem C16_hlength : forall st h, (length st <= length (fst (hstep st h)))%nat.
Proof. exact C16_hops.C16_hlength. Qed.
Print Assumptions C16_hlength.

(* scale(1/k, meta) on object i by itself: objects other than i and the meta object are literally unchanged; every
   object other than i -- in particular the meta object -- is at most regenerated and keeps its events; when the call
   fails (returns an error) this holds for object i too: only views were refreshed *)
Theorem C16_scale_down_frame : forall st i k meta j s, nth_error st j = Some s ->
  exists s', nth_error (fst (store_scale_down st i k meta)) j = Some s' /\
             (j <> i -> meta <> Some j -> s' = s) /\
             (j <> i -> regen s s' /\ same_events s s') /\
             (forall e, snd (store_scale_down st i k meta) = OErr e -> regen s s' /\ same_events s s').
Proof. exact C16_hops.C16_scale_down_frame. Qed.
Print Assumptions C16_scale_down_frame.

(* ... and it creates no object *)
Theorem C16_scale_down_length : forall st i k meta, length (fst (store_scale_down st i k meta)) = length st.
Proof. exact C16_hops.C16_scale_down_length. Qed.
Print Assumptions C16_scale_down_length.

(* histories of compound operations: an object no compound may change is literally unchanged afterwards; an object
   that is only read (e.g. used as meta sequence of scale) is at most regenerated and keeps its events; objects are
   only ever appended *)
Theorem C16_run_h_frame : forall hs st j s, nth_error st j = Some s -> leaves_h j hs = true ->
  nth_error (fst (run_h st hs)) j = Some s.
Proof. exact C16_hops.C16_run_h_frame. Qed.
Print Assumptions C16_run_h_frame.

Theorem C16_run_h_reads : forall hs st j s, nth_error st j = Some s -> no_write_h j hs = true ->
  exists s', nth_error (fst (run_h st hs)) j = Some s' /\ regen s s' /\ same_events s s'.
Proof. exact C16_hops.C16_run_h_reads. Qed.
Print Assumptions C16_run_h_reads.

Theorem C16_run_h_length : forall hs st, (length st <= length (fst (run_h st hs)))%nat.
Proof. exact C16_hops.C16_run_h_length. Qed.
Print Assumptions C16_run_h_length.
