(* C19 -- Token annotations (get_info) agree with the detokenised timeline.  Lemmas and proofs. *)
From Coq Require Import ZArith List Bool Lia.
From Model Require Import Tok.
Open Scope Z_scope.

(* ------------------------------------------------------------------ generic helpers *)
Lemma foldM_app {A B} (f : B -> A -> result B) (l1 l2 : list A) (b : B) :
  foldM f (l1 ++ l2) b = (do b' <- foldM f l1 b; foldM f l2 b').
Proof.
  revert b; induction l1 as [|x l1 IH]; intros b; cbn [foldM app rbind]; [reflexivity|].
  destruct (f b x) as [b'|e]; cbn [rbind]; [apply IH|reflexivity].
Qed.

Lemma firstn_snoc {A} (l : list A) (k : nat) (x : A) :
  nth_error l k = Some x -> firstn (S k) l = firstn k l ++ [x].
Proof.
  revert k; induction l as [|y l IH]; intros [|k] H; cbn in H; try discriminate.
  - inversion H; reflexivity.
  - cbn [firstn app]. f_equal. apply IH; exact H.
Qed.

(* ------------------------------------------------------------------ the clock of get_info, run on its own *)
Definition info_next (c : cfg) (s : istate) (t : tok) : istate := fst (info_step c false s t).
Definition info_run (c : cfg) (ts : list tok) (s : istate) : istate := fold_left (info_next c) ts s.

(* imputation never changes the clock *)
Lemma info_step_clock_imp : forall c imp s t, fst (info_step c imp s t) = info_next c s t.
Proof.
  intros c imp s t; unfold info_next, info_step.
  destruct t; try reflexivity. destruct (0 <? i_tbar s); reflexivity.
Qed.

Lemma info_run_snoc : forall c ts t s, info_run c (ts ++ [t]) s = info_next c (info_run c ts s) t.
Proof. intros; unfold info_run; rewrite fold_left_app; reflexivity. Qed.

(* annotation of one token: only non-note entries depend on [imp] *)
Definition annot (imp : bool) (t : tok) : option (Z * option Z) :=
  match t with
  | TNote _ p _ _ => Some (p, get_position p)
  | _ => if imp then Some (PRV_PITCH, get_position PRV_PITCH) else None
  end.
Lemma info_step_annot : forall c imp s t, snd (info_step c imp s t) = annot imp t.
Proof.
  intros c imp s t; unfold info_step, annot.
  destruct t; try reflexivity. destruct (0 <? i_tbar s); reflexivity.
Qed.

Lemma get_info_aux_cons : forall c imp s pos t ts,
  get_info_aux c imp s pos (t :: ts) =
  let r := get_info_aux c imp (info_next c s t) (pos + 1) ts in
  mkinfo (pos :: f_pos r) (i_time s :: f_time r) (i_tbar s :: f_tbar r) (annot imp t :: f_pitch r).
Proof.
  intros. cbn [get_info_aux].
  rewrite <- (info_step_clock_imp c imp s t), <- (info_step_annot c imp s t).
  destruct (info_step c imp s t) as [s' a]. reflexivity.
Qed.

(* ------------------------------------------------------------------ lengths and positions *)
Lemma aux_lengths : forall c imp ts s pos,
  length (f_pos (get_info_aux c imp s pos ts)) = length ts /\
  length (f_time (get_info_aux c imp s pos ts)) = length ts /\
  length (f_tbar (get_info_aux c imp s pos ts)) = length ts /\
  length (f_pitch (get_info_aux c imp s pos ts)) = length ts.
Proof.
  intros c imp ts; induction ts as [|t ts IH]; intros s pos.
  - cbn; auto.
  - rewrite get_info_aux_cons. cbn [f_pos f_time f_tbar f_pitch length].
    destruct (IH (info_next c s t) (pos + 1)) as (H1 & H2 & H3 & H4). rewrite H1, H2, H3, H4. auto.
Qed.

Theorem C19_lengths : forall c imp ts,
  length (f_pos (get_info c imp ts)) = length ts /\
  length (f_time (get_info c imp ts)) = length ts /\
  length (f_tbar (get_info c imp ts)) = length ts /\
  length (f_pitch (get_info c imp ts)) = length ts.
Proof. intros; apply aux_lengths. Qed.

Lemma aux_positions : forall c imp ts s pos,
  f_pos (get_info_aux c imp s pos ts) = rangeZ_aux (length ts) pos.
Proof.
  intros c imp ts; induction ts as [|t ts IH]; intros s pos.
  - reflexivity.
  - rewrite get_info_aux_cons. cbn [f_pos length rangeZ_aux]. rewrite IH. reflexivity.
Qed.

Lemma nth_rangeZ_aux : forall n lo k, (k < n)%nat -> nth k (rangeZ_aux n lo) 0 = lo + Z.of_nat k.
Proof.
  induction n as [|n IH]; intros lo k Hk; [lia|].
  destruct k as [|k]; cbn [rangeZ_aux nth]; [lia|]. rewrite IH by lia. lia.
Qed.

Theorem C19_positions : forall c imp ts,
  f_pos (get_info c imp ts) = rangeZ_aux (length ts) 0 /\
  forall k, (k < length ts)%nat -> nth k (f_pos (get_info c imp ts)) 0 = Z.of_nat k.
Proof.
  intros c imp ts. unfold get_info. rewrite aux_positions. split; [reflexivity|].
  intros k Hk. rewrite nth_rangeZ_aux by exact Hk. lia.
Qed.

(* ------------------------------------------------------------------ the entries at index k *)
Lemma aux_nth : forall c imp ts s pos k t,
  nth_error ts k = Some t ->
  let r := get_info_aux c imp s pos ts in
  let sk := info_run c (firstn k ts) s in
  nth k (f_time r) 0 = i_time sk /\ nth k (f_tbar r) 0 = i_tbar sk /\
  nth k (f_pitch r) None = annot imp t.
Proof.
  intros c imp ts; induction ts as [|x ts IH]; intros s pos k t H; [destruct k; discriminate|].
  rewrite get_info_aux_cons. cbn zeta. cbn [f_time f_tbar f_pitch].
  destruct k as [|k].
  - cbn in H. inversion H; subst x. cbn [nth firstn info_run fold_left]. auto.
  - cbn [nth_error] in H. cbn [nth firstn]. unfold info_run. cbn [fold_left].
    apply (IH (info_next c s x) (pos + 1) k t H).
Qed.

Theorem C19_entries : forall c imp ts k t,
  nth_error ts k = Some t ->
  nth k (f_time (get_info c imp ts)) 0 = i_time (info_run c (firstn k ts) (istate0 c)) /\
  nth k (f_tbar (get_info c imp ts)) 0 = i_tbar (info_run c (firstn k ts) (istate0 c)) /\
  nth k (f_pitch (get_info c imp ts)) None = annot imp t.
Proof. intros c imp ts k t H. exact (aux_nth c imp ts (istate0 c) 0 k t H). Qed.

(* ------------------------------------------------------------------ lock-step of detok_step and info_step *)
Definition clocks_agree (sd : dstate) (si : istate) : Prop :=
  d_time sd = i_time si /\ d_tbar sd = i_tbar si /\ d_total sd = i_total si /\ d_rem sd = i_rem si.

Lemma clocks_agree_init : forall c, clocks_agree (dstate0 c) (istate0 c).
Proof. intros c; unfold clocks_agree, dstate0, istate0; cbn. auto. Qed.

(* one step: whenever detok_step accepts the token, the two clocks move identically, for EVERY token (no hypothesis
   on the token: a TTsg with denominator 0 on an unfilled bar, and a note on a missing track, are rejected by
   detok_step, so they never reach the conclusion) *)
Lemma step_clock : forall c imp sd si t sd',
  clocks_agree sd si -> detok_step c sd t = Ok sd' ->
  clocks_agree sd' (fst (info_step c imp si t)).
Proof.
  intros c imp sd si t sd' (Ht & Hb & Hto & Hr) H.
  unfold clocks_agree. destruct t; cbn [detok_step info_step fst] in *.
  - inversion H; subst; auto.
  - inversion H; subst; auto.
  - inversion H; subst; auto.
  - inversion H; subst; cbn. rewrite Ht, Hr, Hto. auto.
  - inversion H; subst; cbn. rewrite Ht, Hb, Hto, Hr. auto.
  - inversion H; subst; cbn; auto.
  - inversion H; subst; cbn; auto.
  - inversion H; subst; cbn; auto.
  - destruct (py_index _ _); [|discriminate]. inversion H; subst; cbn; auto.
  - rewrite <- Hb. destruct (0 <? d_tbar sd).
    + inversion H; subst; cbn; auto.
    + destruct (d =? 0); [discriminate|].
      destruct (c_simplify c && (n mod 2 =? 0) && (d mod 2 =? 0)); inversion H; subst; cbn; auto.
Qed.

(* the joint fold: detok_step (which may reject) and info_step side by side *)
Fixpoint joint (c : cfg) (imp : bool) (ts : list tok) (sd : dstate) (si : istate) : result (dstate * istate) :=
  match ts with
  | [] => Ok (sd, si)
  | t :: ts' => do sd' <- detok_step c sd t; joint c imp ts' sd' (fst (info_step c imp si t))
  end.

Lemma joint_spec : forall c imp ts sd si,
  joint c imp ts sd si = (do sd' <- foldM (detok_step c) ts sd; Ok (sd', info_run c ts si)).
Proof.
  intros c imp ts; induction ts as [|t ts IH]; intros sd si; cbn [joint foldM rbind]; [reflexivity|].
  destruct (detok_step c sd t) as [sd'|e]; cbn [rbind]; [|reflexivity].
  rewrite IH, info_step_clock_imp. reflexivity.
Qed.

Lemma joint_clock : forall c imp ts sd si sd' si',
  clocks_agree sd si -> joint c imp ts sd si = Ok (sd', si') -> clocks_agree sd' si'.
Proof.
  intros c imp ts; induction ts as [|t ts IH]; intros sd si sd' si' Ha H; cbn [joint] in H.
  - inversion H; subst; exact Ha.
  - destruct (detok_step c sd t) as [sd1|e] eqn:E; cbn [rbind] in H; [|discriminate].
    eapply IH; [|exact H]. eapply step_clock; eauto.
Qed.

Theorem C19_clock : forall c imp ts sd si,
  joint c imp ts (dstate0 c) (istate0 c) = Ok (sd, si) ->
  (d_time sd, d_tbar sd, d_total sd, d_rem sd) = (i_time si, i_tbar si, i_total si, i_rem si).
Proof.
  intros c imp ts sd si H.
  destruct (joint_clock c imp ts _ _ _ _ (clocks_agree_init c) H) as (H1 & H2 & H3 & H4).
  rewrite H1, H2, H3, H4; reflexivity.
Qed.

(* same statement in terms of the model's own folds *)
Lemma detok_clock : forall c ts sd,
  foldM (detok_step c) ts (dstate0 c) = Ok sd -> clocks_agree sd (info_run c ts (istate0 c)).
Proof.
  intros c ts sd H.
  apply (joint_clock c false ts (dstate0 c) (istate0 c)); [apply clocks_agree_init|].
  rewrite joint_spec, H. reflexivity.
Qed.

(* ------------------------------------------------------------------ note tokens *)
(* insort keeps the inserted message *)
Lemma in_insort : forall x l, In x (insort x l).
Proof.
  intros x l; induction l as [|y l IH]; cbn [insort]; [left; reflexivity|].
  destruct (m_time x <? m_time y); [left; reflexivity|right; exact IH].
Qed.
Lemma in_insort_keep : forall x y l, In y l -> In y (insort x l).
Proof.
  intros x y l; induction l as [|z l IH]; intros H; cbn [insort]; [destruct H|].
  destruct (m_time x <? m_time z); [right; exact H|].
  destruct H as [H|H]; [left; exact H|right; exact (IH H)].
Qed.
Lemma nth_set_nth : forall {A} (l : list A) i f d, (i < length l)%nat -> nth i (set_nth i f l) d = f (nth i l d).
Proof.
  intros A l; induction l as [|x l IH]; intros i f d H; [cbn in H; lia|].
  destruct i as [|i]; cbn [set_nth nth]; [reflexivity|]. apply IH. cbn in H; lia.
Qed.
Lemma py_index_lt : forall n i k, py_index n i = Some k -> (Z.of_nat k < n).
Proof.
  intros n i k H; unfold py_index in H.
  destruct (0 <=? i) eqn:E1; [apply Z.leb_le in E1|apply Z.leb_gt in E1]; cbn [andb] in H.
  - destruct (i <? n) eqn:E2; [apply Z.ltb_lt in E2|apply Z.ltb_ge in E2].
    + inversion H; lia.
    + destruct (i <? 0) eqn:E3; [apply Z.ltb_lt in E3; lia|discriminate].
  - destruct (i <? 0) eqn:E3; [|discriminate]. cbn [andb] in H.
    destruct (- n <=? i) eqn:E4; [apply Z.leb_le in E4|discriminate]. inversion H; lia.
Qed.

Theorem C19_note_time : forall c imp ts k trk p v w sd,
  nth_error ts k = Some (TNote trk p v w) ->
  foldM (detok_step c) (firstn k ts) (dstate0 c) = Ok sd ->
  let time := nth k (f_time (get_info c imp ts)) 0 in
  time = d_time sd /\
  nth k (f_tbar (get_info c imp ts)) 0 = d_tbar sd /\
  nth k (f_pitch (get_info c imp ts)) None = Some (p, get_position p) /\
  forall sd', detok_step c sd (TNote trk p v w) = Ok sd' ->
    foldM (detok_step c) (firstn (S k) ts) (dstate0 c) = Ok sd' /\
    exists i vel val,
      d_seqs sd' = set_nth i (fun a => insort (mk_off 0 p (time + val) false) (insort (mk_on 0 p vel time false) a))
                           (d_seqs sd) /\
      In (mk_on 0 p vel time false) (nth i (d_seqs sd') []) /\
      m_time (mk_on 0 p vel time false) = time /\ m_note (mk_on 0 p vel time false) = p.
Proof.
  intros c imp ts k trk p v w sd Hn Hf.
  destruct (C19_entries c imp ts k _ Hn) as (E1 & E2 & E3).
  destruct (detok_clock c _ _ Hf) as (A1 & A2 & _ & _).
  cbn zeta. rewrite E1, E2, E3, <- A1, <- A2. cbn [annot].
  repeat split; try reflexivity.
  - rewrite (firstn_snoc _ _ _ Hn), foldM_app, Hf. cbn [rbind foldM]. rewrite H. reflexivity.
  - cbn [detok_step] in H.
    destruct (py_index _ _) as [i|] eqn:Ei; [|discriminate].
    exists i, (match w with Some x => x | None => d_pvel sd end), (match v with Some x => x | None => d_pval sd end).
    inversion H; subst sd'; cbn [d_seqs]. split; [reflexivity|]. split; [|split; reflexivity].
    apply py_index_lt in Ei. unfold lenZ in Ei.
    rewrite (nth_set_nth (d_seqs sd) i _ []) by lia.
    apply in_insort_keep, in_insort.
Qed.

(* ------------------------------------------------------------------ monotone times, in-bar time *)
(* boolean side condition: every rest value is non-negative and every bar token finds a non-negative remainder *)
Fixpoint clock_ok (c : cfg) (s : istate) (ts : list tok) : bool :=
  match ts with
  | [] => true
  | t :: ts' =>
      (match t with TRest v => 0 <=? v | TBar => 0 <=? i_rem s | _ => true end) && clock_ok c (info_next c s t) ts'
  end.

Lemma info_next_mono : forall c s t,
  (match t with TRest v => 0 <=? v | TBar => 0 <=? i_rem s | _ => true end) = true ->
  i_time s <= i_time (info_next c s t).
Proof.
  intros c s t H; unfold info_next, info_step; destruct t; cbn [fst i_time]; try lia.
  destruct (0 <? i_tbar s); cbn; lia.
Qed.

Lemma clock_ok_run_mono : forall c ts s, clock_ok c s ts = true -> i_time s <= i_time (info_run c ts s).
Proof.
  intros c ts; induction ts as [|t ts IH]; intros s H; unfold info_run; cbn [fold_left]; [lia|].
  cbn [clock_ok] in H. apply andb_true_iff in H as [H1 H2].
  pose proof (info_next_mono c s t H1). specialize (IH _ H2). unfold info_run in IH. lia.
Qed.

Lemma clock_ok_app : forall c l1 l2 s,
  clock_ok c s (l1 ++ l2) = clock_ok c s l1 && clock_ok c (info_run c l1 s) l2.
Proof.
  intros c l1; induction l1 as [|t l1 IH]; intros l2 s; cbn [app clock_ok]; [reflexivity|].
  rewrite IH. unfold info_run; cbn [fold_left]. rewrite andb_assoc. reflexivity.
Qed.

Lemma info_run_app : forall c l1 l2 s, info_run c (l1 ++ l2) s = info_run c l2 (info_run c l1 s).
Proof. intros; unfold info_run; apply fold_left_app. Qed.

Lemma firstn_split_le : forall {A} (l : list A) j k, (j <= k)%nat ->
  firstn k l = firstn j l ++ firstn (k - j) (skipn j l).
Proof.
  intros A l; induction l as [|x l IH]; intros j k H.
  - rewrite !firstn_nil, skipn_nil, firstn_nil. reflexivity.
  - destruct j as [|j]; [rewrite Nat.sub_0_r; reflexivity|].
    destruct k as [|k]; [lia|]. cbn [firstn skipn app Nat.sub]. f_equal. apply IH. lia.
Qed.

Theorem C19_monotone_partial : forall c imp ts j k,
  clock_ok c (istate0 c) ts = true -> (j <= k)%nat -> (k < length ts)%nat ->
  nth j (f_time (get_info c imp ts)) 0 <= nth k (f_time (get_info c imp ts)) 0.
Proof.
  intros c imp ts j k Hok Hjk Hk.
  destruct (nth_error ts k) as [tk|] eqn:Ek; [|apply nth_error_None in Ek; lia].
  destruct (nth_error ts j) as [tj|] eqn:Ej; [|apply nth_error_None in Ej; lia].
  destruct (C19_entries c imp ts k _ Ek) as (E1 & _). destruct (C19_entries c imp ts j _ Ej) as (F1 & _).
  rewrite E1, F1. rewrite (firstn_split_le ts j k Hjk), info_run_app.
  apply clock_ok_run_mono.
  rewrite <- (firstn_skipn k ts), (firstn_split_le ts j k Hjk), <- app_assoc, clock_ok_app in Hok.
  apply andb_true_iff in Hok as [_ Hok]. rewrite clock_ok_app in Hok. apply andb_true_iff in Hok as [Hok _].
  exact Hok.
Qed.

(* in-bar time: i_time = start of the current bar + i_tbar.  The bar start is tracked by a ghost run. *)
Definition bar_next (c : cfg) (sb : istate * Z) (t : tok) : istate * Z :=
  (info_next c (fst sb) t, match t with TBar => i_time (fst sb) + i_rem (fst sb) | _ => snd sb end).
Definition bar_run (c : cfg) (ts : list tok) (sb : istate * Z) : istate * Z := fold_left (bar_next c) ts sb.

Lemma bar_run_fst : forall c ts sb, fst (bar_run c ts sb) = info_run c ts (fst sb).
Proof.
  intros c ts; induction ts as [|t ts IH]; intros sb; unfold bar_run, info_run; cbn [fold_left]; [reflexivity|].
  apply (IH (bar_next c sb t)).
Qed.

Lemma bar_next_inv : forall c sb t,
  i_time (fst sb) = snd sb + i_tbar (fst sb) ->
  i_time (fst (bar_next c sb t)) = snd (bar_next c sb t) + i_tbar (fst (bar_next c sb t)).
Proof.
  intros c [s b] t H; cbn [fst snd] in *. unfold bar_next, info_next, info_step; cbn [fst snd].
  destruct t; cbn [fst i_time i_tbar]; try lia.
  destruct (0 <? i_tbar s); cbn; lia.
Qed.

Lemma bar_run_inv : forall c ts sb,
  i_time (fst sb) = snd sb + i_tbar (fst sb) ->
  i_time (fst (bar_run c ts sb)) = snd (bar_run c ts sb) + i_tbar (fst (bar_run c ts sb)).
Proof.
  intros c ts; induction ts as [|t ts IH]; intros sb H; unfold bar_run; cbn [fold_left]; [exact H|].
  apply (IH (bar_next c sb t)), bar_next_inv, H.
Qed.

(* start (absolute tick) of the bar that contains token k: the time of the last TBar among the first k tokens *)
Definition bar_start (c : cfg) (ts : list tok) (k : nat) : Z := snd (bar_run c (firstn k ts) (istate0 c, 0)).

Theorem C19_tbar : forall c imp ts k t,
  nth_error ts k = Some t ->
  nth k (f_tbar (get_info c imp ts)) 0 = nth k (f_time (get_info c imp ts)) 0 - bar_start c ts k.
Proof.
  intros c imp ts k t H. destruct (C19_entries c imp ts k t H) as (E1 & E2 & _). rewrite E1, E2.
  pose proof (bar_run_inv c (firstn k ts) (istate0 c, 0)) as Hi. rewrite bar_run_fst in Hi. cbn [fst snd] in Hi.
  unfold bar_start. specialize (Hi eq_refl). lia.
Qed.

(* bar_start really is the annotated time of the most recent bar token plus what was left of that bar *)
Lemma bar_start_snoc_bar : forall c ts k,
  nth_error ts k = Some TBar ->
  bar_start c ts (S k) = i_time (info_run c (firstn k ts) (istate0 c)) + i_rem (info_run c (firstn k ts) (istate0 c)).
Proof.
  intros c ts k H. unfold bar_start. rewrite (firstn_snoc _ _ _ H). unfold bar_run. rewrite fold_left_app.
  cbn [fold_left bar_next snd]. fold (bar_run c (firstn k ts) (istate0 c, 0)). rewrite bar_run_fst. reflexivity.
Qed.
Lemma bar_start_snoc_other : forall c ts k t,
  nth_error ts k = Some t -> t <> TBar -> bar_start c ts (S k) = bar_start c ts k.
Proof.
  intros c ts k t H Hne. unfold bar_start. rewrite (firstn_snoc _ _ _ H). unfold bar_run. rewrite fold_left_app.
  cbn [fold_left bar_next snd]. destruct t; try reflexivity. congruence.
Qed.

(* boolean side condition "every bar token closes an exactly filled bar" (remaining capacity 0) *)
Fixpoint bars_exact (c : cfg) (s : istate) (ts : list tok) : bool :=
  match ts with
  | [] => true
  | t :: ts' => (match t with TBar => i_rem s =? 0 | _ => true end) && bars_exact c (info_next c s t) ts'
  end.

Lemma bars_exact_app : forall c l1 l2 s,
  bars_exact c s (l1 ++ l2) = bars_exact c s l1 && bars_exact c (info_run c l1 s) l2.
Proof.
  intros c l1; induction l1 as [|t l1 IH]; intros l2 s; cbn [app bars_exact]; [reflexivity|].
  rewrite IH. unfold info_run; cbn [fold_left]. rewrite andb_assoc. reflexivity.
Qed.

Lemma skipn_nth_error : forall {A} (l : list A) k x, nth_error l k = Some x -> skipn k l = x :: skipn (S k) l.
Proof.
  intros A l; induction l as [|y l IH]; intros [|k] x H; cbn in H; try discriminate.
  - inversion H; reflexivity.
  - cbn [skipn]. rewrite (IH k x H). reflexivity.
Qed.

(* then the start of the bar after a bar token is the annotated time of that bar token *)
Theorem C19_bar_start_exact : forall c imp ts k,
  bars_exact c (istate0 c) ts = true -> nth_error ts k = Some TBar ->
  bar_start c ts (S k) = nth k (f_time (get_info c imp ts)) 0.
Proof.
  intros c imp ts k Hb Hk. rewrite (bar_start_snoc_bar c ts k Hk).
  destruct (C19_entries c imp ts k TBar Hk) as (E1 & _). rewrite E1.
  rewrite <- (firstn_skipn k ts), bars_exact_app, (skipn_nth_error ts k TBar Hk) in Hb.
  apply andb_true_iff in Hb as [_ Hb]. cbn [bars_exact] in Hb. apply andb_true_iff in Hb as [Hb _].
  apply Z.eqb_eq in Hb. lia.
Qed.

(* ------------------------------------------------------------------ non-vacuity *)
Definition ex_cfg : cfg := make_cfg 2 60 62 None None 4 true true false true true.
Definition ex_toks : list tok :=
  [TSta; TTsg 6 8; TVal 12; TNote (Some 0) 60 None (Some 80); TRest 12; TNote (Some 1) 62 None (Some 48);
   TRest 24; TBar; TRest 8; TVal 24; TNote (Some 0) 61 None (Some 112); TBar; TSto].

Example ex_joint_accepts : exists sd si, joint ex_cfg true ex_toks (dstate0 ex_cfg) (istate0 ex_cfg) = Ok (sd, si).
Proof. vm_compute. eexists; eexists; reflexivity. Qed.
Example ex_note_time : exists sd,
  nth_error ex_toks 5 = Some (TNote (Some 1) 62 None (Some 48)) /\
  foldM (detok_step ex_cfg) (firstn 5 ex_toks) (dstate0 ex_cfg) = Ok sd /\ d_time sd = 12.
Proof. vm_compute. eexists; repeat split; reflexivity. Qed.
Example ex_clock_ok : clock_ok ex_cfg (istate0 ex_cfg) ex_toks = true.
Proof. vm_compute; reflexivity. Qed.
Example ex_info : f_time (get_info ex_cfg false ex_toks) = [0; 0; 0; 0; 0; 12; 12; 36; 72; 80; 80; 80; 144]
                  /\ f_tbar (get_info ex_cfg false ex_toks) = [0; 0; 0; 0; 0; 12; 12; 36; 0; 8; 8; 8; 0].
Proof. vm_compute; split; reflexivity. Qed.
