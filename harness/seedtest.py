#!/usr/bin/env python3
"""Apply each seeded change to /repo, run the quick check of the property it breaks, undo it; print a table.
usage: seedtest.py [seed-dir-names...]   (default: all under /verif/seeded)"""
import os, sys, json, subprocess, time
VERIF = os.path.dirname(os.path.dirname(os.path.abspath(__file__)))
REPO = os.environ.get("SEED_REPO", "/repo")      # a scratch clone may be used while other runs read /repo
seeds = sys.argv[1:] or sorted(os.listdir(os.path.join(VERIF, "seeded")))
rows = []
for sd in seeds:
    d = os.path.join(VERIF, "seeded", sd)
    if not os.path.exists(os.path.join(d, "patch.diff")):
        continue
    meta = json.load(open(os.path.join(d, "meta.json")))
    prop = meta["property"]
    assert subprocess.run(["git", "-C", REPO, "status", "--porcelain"], capture_output=True, text=True).stdout.strip() == "", "repo dirty"
    subprocess.check_call(["git", "-C", REPO, "apply", os.path.join(d, "patch.diff")])
    try:
        t0 = time.time()
        env = dict(os.environ, SCODA_REPO=REPO)
        try:
            p = subprocess.run([os.path.join(VERIF, "check"), prop], capture_output=True, text=True, cwd=VERIF, env=env, timeout=2400)
            out = p.stdout + p.stderr
        except subprocess.TimeoutExpired as e:
            p = type("P", (), {"returncode": "timeout"})()
            out = ""
        viol = [l for l in out.splitlines() if l.startswith("VIOLATION")]
        detail = ""
        for l in viol:
            rp = l.split("replay=")[1].split()[0]
            try:
                r = json.load(open(rp))
                detail = (r.get("kind", "") + " | " + str(r.get("detail", r.get("no_longer_checks", "")))[:300])
            except Exception:
                pass
        rows.append((sd, prop, p.returncode, len(viol), any("no-failing-input-found" in l for l in viol), round(time.time() - t0), detail))
    finally:
        subprocess.check_call(["git", "-C", REPO, "checkout", "--", "."])
for r in rows:
    print(f"{r[0]:10s} prop={r[1]} exit={r[2]} violations={r[3]} no_input={r[4]} {r[5]}s :: {r[6]}")
json.dump([dict(zip(["seed", "property", "exit", "violations", "no_failing_input", "wall_s", "detail"], r)) for r in rows],
          open(os.path.join(VERIF, "seeded", "last_results.json"), "w"), indent=1)
