(* C17 (continued) -- insertion order: equals does not depend on the stored order of a sequence's messages, as long as
   no two different messages share the sort key (time, channel, type, pitch). *)
From Coq Require Import ZArith List Bool Lia Permutation.
From Model Require Import Base Seq Pairing.
From Proofs Require Import C17_proofs C15_proofs.
Import ListNotations.
Open Scope Z_scope.

Lemma sort_abs_perm_eq (a a' : list msg) :
  Permutation a a' -> key_determines (fun m => m) a = true -> sort_abs a = sort_abs a'.
Proof.
  intros P K. apply sorted_unique; auto using sort_abs_sorted.
  - rewrite !sort_abs_perm. exact P.
  - intros x y Hx Hy L1 L2.
    apply (key_determines_perm (fun m => m) a (sort_abs a)); auto.
    + apply Permutation_sym, sort_abs_perm.
    + now apply key_le_antisym.
Qed.

Lemma C17_perm_invariant (a a' b : list msg) (ich its iks ivel : bool) :
  Permutation a a' -> key_determines (fun m => m) a = true ->
  equals a b ich its iks ivel = equals a' b ich its iks ivel.
Proof. intros P K. apply C17_same_sorted. now apply sort_abs_perm_eq. Qed.

(* without the hypothesis: two note-ons with the same tick, channel and pitch but different velocities *)
Definition ex_dup : list msg :=
  [mk_on 0 60 90 0 false; mk_on 0 60 70 0 false; mk_off 0 60 10 false; mk_off 0 60 20 false].
Definition ex_dup' : list msg :=
  [mk_on 0 60 70 0 false; mk_on 0 60 90 0 false; mk_off 0 60 10 false; mk_off 0 60 20 false].
Lemma C17_insertion_order_witness :
  Permutation ex_dup ex_dup' /\ equals ex_dup ex_dup false false false false = Ok true /\
  equals ex_dup' ex_dup false false false false = Ok false.
Proof. split; [apply perm_swap|]. vm_compute. auto. Qed.

Example C17_ex_perm : Permutation ex_a (rev ex_a) /\ key_determines (fun m => m) ex_a = true.
Proof. split; [apply Permutation_rev|]. vm_compute. reflexivity. Qed.
