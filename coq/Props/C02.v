(* C02 -- Vocabulary is closed under tokenise; encode and decode are inverse bijections.
   Tokens are the structured type `tok`; the Python dictionary is keyed by `render_tok t` (strings) and ids are the
   positions in `vocab c`.  valid_cfg c (boolean) says: step sizes and note values are strictly increasing lists of
   positive integers, the velocity bins are strictly increasing with values in 1..127, 0 <= pitch_lo <= pitch_hi,
   1 <= num_tracks, 0 <= ts_lo <= ts_hi.  All statements are for every such configuration (all flag combinations)
   and unbounded inputs. *)
From Coq Require Import ZArith List Bool Lia String.
From Model Require Import Tok.
From Proofs Require Import C02_proofs C02_render.
Open Scope Z_scope.

(* ---- which constructor calls give a valid configuration *)

(* finite sweep (bound in the statement): the constructor's velocity bins lie in 1..127 and are strictly increasing
   EXCEPT for the 39 bin counts in bad_bins = [19;22;23;26;27;28;33..36;43..50;64..84], where the clamp to 127 repeats
   the last bin *)
Theorem C02_velocity_bins : forall n, 1 <= n <= 127 ->
  sincZ (velocity_bins n) = negb (memZ n bad_bins) /\
  forallb (fun x => (1 <=? x) && (x <=? 127)) (velocity_bins n) = true.
Proof. exact C02_proofs.velocity_bins_sinc. Qed.
Print Assumptions C02_velocity_bins.

(* the constructor with default step sizes / note values, 1 <= bins <= 127 outside bad_bins, at least one track and a
   non-negative pitch range builds a valid configuration (every flag combination) *)
Theorem C02_make_cfg_valid : forall ntracks plo phi nbins running ftrk fval fvel simplify,
  1 <= nbins <= 127 -> memZ nbins bad_bins = false -> 1 <= ntracks -> 0 <= plo <= phi ->
  valid_cfg (make_cfg ntracks plo phi None None nbins running ftrk fval fvel simplify) = true.
Proof. exact C02_proofs.C02_make_cfg_valid. Qed.
Print Assumptions C02_make_cfg_valid.

(* REFUTED for all configurations: with velocity_bins = 19 the constructor repeats the bin 127, the vocabulary holds the
   same token twice (positions 29 and 30), dictionary_size counts both, and id 29 does not decode *)
Theorem C02_bijection_refuted : exists (c : cfg) (i : Z),
  c = make_cfg 1 60 60 None None 19 true true true true true /\
  ~ NoDup (vocab c) /\ 0 <= i < dictionary_size c /\ decode1 c i = Err KeyErr.
Proof. exact C02_proofs.C02_bijection_refuted. Qed.
Print Assumptions C02_bijection_refuted.

(* ---- clause "maps its tokens one-to-one onto the consecutive ids 0..size-1, size = number of entries" *)

Theorem C02_nodup : forall c, valid_cfg c = true -> NoDup (vocab c).
Proof. exact C02_proofs.C02_nodup. Qed.
Print Assumptions C02_nodup.

(* reported size = number of entries (all distinct), and t is in the vocabulary iff it has an id in 0..size-1 *)
Theorem C02_size : forall c, valid_cfg c = true ->
  dictionary_size c = Z.of_nat (length (vocab c)) /\ NoDup (vocab c) /\
  (forall t, In t (vocab c) <-> exists i, 0 <= i < dictionary_size c /\ encode1 c t = Ok i).
Proof. exact C02_proofs.C02_size. Qed.
Print Assumptions C02_size.

(* ---- clause "decode(encode(t)) = t and encode(decode(i)) = i for every member" *)

Theorem C02_encode_decode : forall c t, valid_cfg c = true -> In t (vocab c) ->
  exists i, encode1 c t = Ok i /\ decode1 c i = Ok t /\ 0 <= i < dictionary_size c.
Proof. exact C02_proofs.C02_encode_decode. Qed.
Print Assumptions C02_encode_decode.

Theorem C02_decode_encode : forall c i, valid_cfg c = true -> 0 <= i < dictionary_size c ->
  exists t, decode1 c i = Ok t /\ encode1 c t = Ok i /\ In t (vocab c).
Proof. exact C02_proofs.C02_decode_encode. Qed.
Print Assumptions C02_decode_encode.

Theorem C02_encode_injective : forall c t1 t2 i, valid_cfg c = true ->
  encode1 c t1 = Ok i -> encode1 c t2 = Ok i -> t1 = t2.
Proof. exact C02_proofs.C02_encode_injective. Qed.
Print Assumptions C02_encode_injective.

(* list level (encode / decode of whole streams) *)
Theorem C02_encode_decode_list : forall c ts, valid_cfg c = true -> Forall (fun t => In t (vocab c)) ts ->
  exists ids, encode c ts = Ok ids /\ decode c ids = Ok ts /\ Forall (fun i => 0 <= i < dictionary_size c) ids.
Proof. exact C02_proofs.C02_encode_decode_list. Qed.
Print Assumptions C02_encode_decode_list.

Theorem C02_decode_encode_list : forall c ids, valid_cfg c = true -> Forall (fun i => 0 <= i < dictionary_size c) ids ->
  exists ts, decode c ids = Ok ts /\ encode c ts = Ok ids /\ Forall (fun t => In t (vocab c)) ts.
Proof. exact C02_proofs.C02_decode_encode_list. Qed.
Print Assumptions C02_decode_encode_list.

(* ---- the string keys: rendering is injective on the vocabulary, so the token -> id map of the Python dictionary
   (keyed by strings) is the same as the structured one *)

(* parse_tok inverts render_tok on every token whose numeric fields are >= 0 *)
Theorem C02_parse_render : forall t, wf_tok t = true -> parse_tok (render_tok t) = Some t.
Proof. exact C02_render.C02_parse_render. Qed.
Print Assumptions C02_parse_render.

Theorem C02_render_injective : forall c t1 t2, valid_cfg c = true -> In t1 (vocab c) -> In t2 (vocab c) ->
  render_tok t1 = render_tok t2 -> t1 = t2.
Proof. exact C02_render.C02_render_injective. Qed.
Print Assumptions C02_render_injective.

Theorem C02_render_nodup : forall c, valid_cfg c = true -> NoDup (map render_tok (vocab c)).
Proof. exact C02_render.C02_render_nodup. Qed.
Print Assumptions C02_render_nodup.

(* ---- clause "every token that tokenise emits for any input it accepts is a member of the vocabulary" *)
(* whole pipeline (front-end, event loop, final rest), any persistent state st, any tracks.  The hypothesis
   DEFAULT_TS_NUM = DEFAULT_TS_DEN is needed because the tokeniser writes the signature token with DEFAULT_TS_NUM as
   its second field while the vocabulary uses DEFAULT_TS_DEN (both are 8 in the generated settings). *)
Theorem C02_closed : forall c st tracks toks st',
  tokenise c st tracks = Ok (toks, st') -> valid_cfg c = true -> DEFAULT_TS_NUM = DEFAULT_TS_DEN ->
  Forall (fun t => In t (vocab c)) toks.
Proof. exact C02_proofs.C02_closed. Qed.
Print Assumptions C02_closed.

(* "so encode never fails on tokenise output" *)
Theorem C02_encode_tokenise : forall c st tracks toks st',
  tokenise c st tracks = Ok (toks, st') -> valid_cfg c = true -> DEFAULT_TS_NUM = DEFAULT_TS_DEN ->
  exists ids, encode c toks = Ok ids /\ decode c ids = Ok toks /\ Forall (fun i => 0 <= i < dictionary_size c) ids.
Proof. exact C02_proofs.C02_encode_tokenise. Qed.
Print Assumptions C02_encode_tokenise.

(* ---- clause "every vocabulary token is accepted by detokenise" (any stream over the vocabulary, in any order) *)
Theorem C02_accepted : forall c ts, Forall (fun t => In t (vocab c)) ts -> valid_cfg c = true ->
  exists r, detokenise c ts = Ok r /\ lenZ r = c_ntracks c.
Proof. exact C02_proofs.C02_accepted. Qed.
Print Assumptions C02_accepted.

Theorem C02_detokenise_tokenise : forall c st tracks toks st',
  tokenise c st tracks = Ok (toks, st') -> valid_cfg c = true -> DEFAULT_TS_NUM = DEFAULT_TS_DEN ->
  exists r, detokenise c toks = Ok r /\ lenZ r = c_ntracks c.
Proof. exact C02_proofs.C02_detokenise_tokenise. Qed.
Print Assumptions C02_detokenise_tokenise.
