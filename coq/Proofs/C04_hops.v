(* C04_hops.v -- property C04 for the compound-operation layer of Model/ScaleDown.v: scale_down / store_scale_down keep
   the invariant, hence every history of `hop`s does. *)
From Coq Require Import ZArith List Bool Lia Permutation.
From Model Require Import Base Seq Pairing Util Bars Store ScaleDown.
From Proofs Require Import C04_sort C04_proofs C04_ops C04_ops2 C04_inv C04_main C04_read.
Import ListNotations.
Open Scope Z_scope.

(* ================================================================ value level: scale_down *)
Lemma sd_div_wfr (k : Z) (m m' : msg) : 0 < k -> wfr_msg m = true -> sd_div k m = Ok m' -> wfr_msg m' = true.
Proof.
  intros Hk Hm E. unfold sd_div in E. destruct (is_wait m) eqn:Ew.
  - destruct (m_time m mod k =? 0); [|discriminate]. injection E as <-.
    unfold wfr_msg in *. rewrite is_wait_set_time, Ew in *. cbn in *. apply Z.leb_le in Hm. apply Z.leb_le.
    apply Z.div_pos; lia.
  - injection E as <-. exact Hm.
Qed.

Lemma mapM_sd_div_wfr (k : Z) (l l' : list msg) : 0 < k -> wfr l = true -> mapM (sd_div k) l = Ok l' -> wfr l' = true.
Proof.
  intro Hk. revert l'. induction l as [|m l IH]; intros l' Hl E; cbn [mapM] in E.
  - now injection E as <-.
  - rewrite wfr_cons in Hl. apply andb_prop in Hl. destruct Hl as [Hm Hl].
    inv_bind E as y Ey. inv_bind E as ys Eys. injection E as <-.
    rewrite wfr_cons, (sd_div_wfr k m y Hk Hm Ey), (IH ys Hl eq_refl). reflexivity.
Qed.

(* for k <= 0 the grouping loop makes no progress: it runs out of fuel on every non-empty list of bars *)
Lemma sd_loop_nonpos (fuel : nat) (k : Z) (bars : list bar) :
  k <= 0 -> bars <> [] -> sd_loop fuel k bars = Err OutOfFuel.
Proof.
  intros Hk Hb. induction fuel as [|f IH]; [reflexivity|]. cbn [sd_loop].
  destruct bars as [|cur bars']; [contradiction|].
  assert (E0 : Z.to_nat k = 0%nat) by lia. rewrite E0. cbn [firstn forallb concat map mapM rbind List.length skipn].
  rewrite IH. reflexivity.
Qed.

(* the result of scale(1/k) holds no negative wait, whatever the inputs (normalise re-creates every wait) and
   whatever k: a call with k <= 0 never succeeds with a non-empty result *)
Lemma scale_down_wfr (r mrel mabs r' : list msg) (k : Z) : scale_down r mrel mabs k = Ok r' -> wfr r' = true.
Proof.
  intros E. unfold scale_down in E. inv_bind E as bars Eb. destruct bars as [|own bars]; [discriminate|].
  inv_bind E as ms Em.
  destruct (Z.ltb 0 k) eqn:Hk; [apply Z.ltb_lt in Hk | apply Z.ltb_ge in Hk].
  - eapply mapM_sd_div_wfr; [exact Hk|apply wfr_normalise|exact E].
  - destruct own as [|b own'].
    + cbn in Em. injection Em as <-. cbn in E. now injection E as <-.
    + rewrite sd_loop_nonpos in Em by (try exact Hk; discriminate). discriminate.
Qed.

(* ================================================================ store level *)
Lemma store_scale_down_sinv (st : store) (i : nat) (k : Z) (meta : option nat) :
  SInv st -> SInv (fst (store_scale_down st i k meta)).
Proof.
  intros HS. unfold store_scale_down. apply lift_inv; [exact HS|]. intros x E.
  inv_bind E as st0 E0.
  assert (HS0 : SInv st0).
  { destruct meta as [j|].
    - inv_bind E0 as [sa xa] Ea. inv_bind E0 as [sb xb] Eb. injection E0 as <-.
      destruct (read_abss_inv _ _ _ _ HS Ea) as [HSa _]. destruct (read_rels_inv _ _ _ _ HSa Eb) as [HSb _]. exact HSb.
    - now injection E0 as <-. }
  inv_bind E as s Es. inv_bind E as [s1 r] Eg.
  pose proof (getn_inv _ _ _ HS0 Es) as Hy.
  destruct (get_rel_inv _ _ _ Hy Eg) as [Hs1 _].
  pose proof (setn_inv _ i _ HS0 Hs1) as HS1.
  inv_bind E as [mrel mabs] Em.
  destruct (scale_down r mrel mabs k) as [r'|e] eqn:Esd; injection E as <-; cbn [fst]; [|exact HS1].
  apply setn_inv; [exact HS1|]. apply Inv_rel. eapply scale_down_wfr; eassumption.
Qed.

(* full strength: no condition on k at all *)
Theorem C04_scale_down_inv_any_k : forall (st : store) (i : nat) (k : Z) (meta : option nat),
  forallb inv_b st = true -> forallb inv_b (fst (store_scale_down st i k meta)) = true.
Proof. intros st i k meta H. apply sinv_b_spec. apply store_scale_down_sinv. now apply sinv_b_spec. Qed.

(* the statement as asked for (the hypothesis 0 < k is not used) *)
Theorem C04_scale_down_inv : forall (st : store) (i : nat) (k : Z) (meta : option nat),
  forallb inv_b st = true -> 0 < k -> forallb inv_b (fst (store_scale_down st i k meta)) = true.
Proof. intros st i k meta H _. now apply C04_scale_down_inv_any_k. Qed.

(* ================================================================ compound operations *)
(* well-formed literal arguments of a compound operation: those of its constituent operations; scale(1/k) needs k > 0 *)
Definition hop_wf (h : hop) : bool :=
  match h with
  | HOp o => op_wf o
  | HSeq os => forallb op_wf os
  | HScaleDown _ k _ then_ => (0 <? k) && forallb op_wf then_
  | HFail o _ => op_wf o
  | HRaise _ => true
  end.

(* the same without the condition on k (the invariant survives every k) *)
Definition hop_wf0 (h : hop) : bool :=
  match h with
  | HOp o => op_wf o
  | HSeq os => forallb op_wf os
  | HScaleDown _ _ _ then_ => forallb op_wf then_
  | HFail o _ => op_wf o
  | HRaise _ => true
  end.

Lemma hop_wf_wf0 (h : hop) : hop_wf h = true -> hop_wf0 h = true.
Proof. destruct h; cbn; auto. intro H. apply andb_prop in H. tauto. Qed.

Lemma forallb_hop_wf_wf0 (hs : list hop) : forallb hop_wf hs = true -> forallb hop_wf0 hs = true.
Proof. rewrite !forallb_forall. intros H h Hh. apply hop_wf_wf0, H, Hh. Qed.

Lemma hseq_sinv (os : list op) (st : store) (last : out) :
  SInv st -> forallb op_wf os = true -> SInv (fst (hseq st os last)).
Proof.
  revert st last. induction os as [|o os IH]; intros st last HS Hwf; [exact HS|].
  cbn [forallb] in Hwf. apply andb_prop in Hwf. destruct Hwf as [Ho Hos].
  cbn [hseq]. pose proof (step_inv st o HS Ho) as H1. destruct (step st o) as [st1 x]. cbn [fst] in H1.
  destruct x; try (now apply IH); exact H1.
Qed.

Lemma hstep_sinv (st : store) (h : hop) : SInv st -> hop_wf0 h = true -> SInv (fst (hstep st h)).
Proof.
  intros HS Hwf. destruct h as [o|os|i k meta then_|o e|e]; cbn [hstep]; cbn [hop_wf0] in Hwf.
  - now apply step_inv.
  - now apply hseq_sinv.
  - pose proof (store_scale_down_sinv st i k meta HS) as H1.
    destruct (store_scale_down st i k meta) as [st1 x]. cbn [fst] in H1.
    destruct x; try (now apply hseq_sinv); exact H1.
  - pose proof (step_inv st o HS Hwf) as H1. destruct (step st o) as [st1 x]. exact H1.
  - exact HS.
Qed.

Lemma run_h_sinv (hs : list hop) (st : store) :
  SInv st -> forallb hop_wf0 hs = true -> SInv (fst (run_h st hs)).
Proof.
  revert st. induction hs as [|h hs IH]; intros st HS Hwf; [exact HS|].
  cbn [forallb] in Hwf. apply andb_prop in Hwf. destruct Hwf as [Hh Hhs].
  cbn [run_h]. pose proof (hstep_sinv st h HS Hh) as H1.
  destruct (hstep st h) as [st1 x]. cbn [fst] in H1. specialize (IH st1 H1 Hhs).
  destruct (run_h st1 hs) as [st2 xs]. exact IH.
Qed.

Theorem C04_hstep_inv_any_k : forall (st : store) (h : hop),
  forallb inv_b st = true -> hop_wf0 h = true -> forallb inv_b (fst (hstep st h)) = true.
Proof. intros st h H Hh. apply sinv_b_spec. apply hstep_sinv; [now apply sinv_b_spec|exact Hh]. Qed.

Theorem C04_run_h_inv_any_k : forall (st : store) (hs : list hop),
  forallb inv_b st = true -> forallb hop_wf0 hs = true -> forallb inv_b (fst (run_h st hs)) = true.
Proof. intros st hs H Hh. apply sinv_b_spec. apply run_h_sinv; [now apply sinv_b_spec|exact Hh]. Qed.

Theorem C04_hstep_inv : forall (st : store) (h : hop),
  forallb inv_b st = true -> hop_wf h = true -> forallb inv_b (fst (hstep st h)) = true.
Proof. intros st h H Hh. apply C04_hstep_inv_any_k; [exact H|now apply hop_wf_wf0]. Qed.

Theorem C04_run_h_inv : forall (st : store) (hs : list hop),
  forallb inv_b st = true -> forallb hop_wf hs = true -> forallb inv_b (fst (run_h st hs)) = true.
Proof. intros st hs H Hh. apply C04_run_h_inv_any_k; [exact H|now apply forallb_hop_wf_wf0]. Qed.

Theorem C04_reachable_h : forall hs : list hop,
  forallb hop_wf hs = true -> forallb inv_b (fst (run_h [] hs)) = true.
Proof. intros hs Hh. now apply C04_run_h_inv. Qed.

(* the statement of C04 for histories of compound operations *)
Theorem C04_history_h_any_k : forall (hs : list hop) (i : nat) (s : seq),
  forallb hop_wf0 hs = true -> nth_error (fst (run_h [] hs)) i = Some s ->
  exists s1 a s2 r, get_abs s = Ok (s1, a) /\ get_rel s = Ok (s2, r) /\
                    Permutation (ev_abs a) (ev_rel r) /\ dur_abs a = dur_rel r /\
                    tsorted a = true /\ wfa a = true /\ wfr r = true.
Proof.
  intros hs i s Ho Hn. pose proof (run_h_sinv hs [] (Forall_nil _) Ho) as HS.
  unfold SInv in HS. rewrite Forall_forall in HS. specialize (HS s (nth_error_In _ _ Hn)).
  destruct (get_abs_spec s HS) as [s1 [E1 [_ [_ [[Hs Hw] _]]]]].
  destruct (get_rel_spec s HS) as [s2 [E2 [_ [_ [Hr _]]]]].
  exists s1, (s_abs s1), s2, (s_rel s2). split; [exact E1|]. split; [exact E2|].
  destruct (views_agree _ _ _ _ _ HS E1 E2) as [K1 K2]. repeat split; assumption.
Qed.

Theorem C04_history_h : forall (hs : list hop) (i : nat) (s : seq),
  forallb hop_wf hs = true -> nth_error (fst (run_h [] hs)) i = Some s ->
  exists s1 a s2 r, get_abs s = Ok (s1, a) /\ get_rel s = Ok (s2, r) /\
                    Permutation (ev_abs a) (ev_rel r) /\ dur_abs a = dur_rel r /\
                    tsorted a = true /\ wfa a = true /\ wfr r = true.
Proof. intros hs i s Ho. apply C04_history_h_any_k. now apply forallb_hop_wf_wf0. Qed.

(* a history of plain operations is a history of compound operations *)
Lemma run_h_HOp (ops : list op) (st : store) : run_h st (map HOp ops) = run st ops.
Proof.
  revert st. induction ops as [|o ops IH]; intro st; [reflexivity|].
  cbn [map run_h run hstep]. destruct (step st o) as [st1 x]. now rewrite IH.
Qed.

(* ================================================================ readability for ALL hop histories *)
Lemma store_scale_down_R (st : store) (i : nat) (k : Z) (meta : option nat) :
  SR st -> SR (fst (store_scale_down st i k meta)).
Proof.
  intros HS. unfold store_scale_down. apply lift_R; [exact HS|]. intros x E.
  inv_bind E as st0 E0.
  assert (HS0 : SR st0).
  { destruct meta as [j|].
    - inv_bind E0 as [sa xa] Ea. inv_bind E0 as [sb xb] Eb. injection E0 as <-.
      eapply read_rels_R; [|exact Eb]. eapply read_abss_R; [|exact Ea]. exact HS.
    - now injection E0 as <-. }
  inv_bind E as s Es. inv_bind E as [s1 r] Eg.
  assert (HS1 : SR (setn st0 i s1)) by (apply setn_R; [exact HS0|eapply get_rel_R; exact Eg]).
  inv_bind E as [mrel mabs] Em.
  destruct (scale_down r mrel mabs k) as [r'|e]; injection E as <-; cbn [fst]; [|exact HS1].
  apply setn_R; [exact HS1|reflexivity].
Qed.

Lemma hseq_R (os : list op) (st : store) (last : out) : SR st -> SR (fst (hseq st os last)).
Proof.
  revert st last. induction os as [|o os IH]; intros st last HS; [exact HS|].
  cbn [hseq]. pose proof (step_R st o HS) as H1. destruct (step st o) as [st1 x]. cbn [fst] in H1.
  destruct x; try (now apply IH); exact H1.
Qed.

Lemma hstep_R (st : store) (h : hop) : SR st -> SR (fst (hstep st h)).
Proof.
  intros HS. destruct h as [o|os|i k meta then_|o e|e]; cbn [hstep].
  - now apply step_R.
  - now apply hseq_R.
  - pose proof (store_scale_down_R st i k meta HS) as H1.
    destruct (store_scale_down st i k meta) as [st1 x]. cbn [fst] in H1.
    destruct x; try (now apply hseq_R); exact H1.
  - pose proof (step_R st o HS) as H1. destruct (step st o) as [st1 x]. exact H1.
  - exact HS.
Qed.

Lemma run_h_R (hs : list hop) (st : store) : SR st -> SR (fst (run_h st hs)).
Proof.
  revert st. induction hs as [|h hs IH]; intros st HS; [exact HS|].
  cbn [run_h]. pose proof (hstep_R st h HS) as H1.
  destruct (hstep st h) as [st1 x]. cbn [fst] in H1. specialize (IH st1 H1).
  destruct (run_h st1 hs) as [st2 xs]. exact IH.
Qed.

(* no hypothesis on the compound operations or on their arguments (k <= 0, ill-formed literals, ...) *)
Theorem C04_readable_any_hops : forall (hs : list hop) (i : nat) (s : seq),
  nth_error (fst (run_h [] hs)) i = Some s ->
  (exists s1 a, get_abs s = Ok (s1, a)) /\ (exists s2 r, get_rel s = Ok (s2, r)).
Proof.
  intros hs i s Hn. apply R_readable.
  pose proof (run_h_R hs [] (Forall_nil _)) as HS. unfold SR in HS. rewrite Forall_forall in HS.
  apply HS. eapply nth_error_In. exact Hn.
Qed.

(* ================================================================ non-vacuity *)
(* two 4/4 bars (PPQN 24: a bar is 96 ticks) *)
Definition ex_bars_rel : list msg :=
  [mk_ts 0 4 4 0 false; mk_on 0 60 100 0 false; mk_wait 0 96 false; mk_off 0 60 0 false;
   mk_on 0 62 100 0 false; mk_wait 0 96 false; mk_off 0 62 0 false].
Definition ex_hstore : store := fst (run [] [ONewRel ex_bars_rel; ONewRel ex_bars_rel; OReadAbs 1; ONewRel ex_rel]).

(* hypotheses of C04_scale_down_inv: an invariant store on which scale(1/2) succeeds with every kind of meta object,
   halving the duration; the freshness states before / after; a failing call (k = 5) that only refreshes views *)
Example ex_scale_down :
  forallb inv_b ex_hstore = true /\ 0 < 2 /\
  map (fun s => (s_abs_stale s, s_rel_stale s)) ex_hstore = [(true, false); (false, false); (true, false)] /\
  map (fun meta => snd (store_scale_down ex_hstore 0 2 meta)) [None; Some 0%nat; Some 1%nat; Some 2%nat] =
    [ONone; ONone; ONone; ONone] /\
  map (fun meta => map (fun s => (s_abs_stale s, s_rel_stale s, dur_rel (s_rel s)))
                       (fst (store_scale_down ex_hstore 0 2 meta))) [None; Some 0%nat; Some 2%nat] =
    [[(true, false, 96); (false, false, 192); (true, false, 41)];
     [(true, false, 96); (false, false, 192); (true, false, 41)];
     [(true, false, 96); (false, false, 192); (false, false, 41)]] /\
  snd (store_scale_down ex_hstore 0 5 (Some 2%nat)) = OErr OutOfModel /\
  map (fun s => (s_abs_stale s, s_rel_stale s, dur_rel (s_rel s))) (fst (store_scale_down ex_hstore 0 5 (Some 2%nat))) =
    [(true, false, 192); (false, false, 192); (false, false, 41)] /\
  snd (store_scale_down ex_hstore 0 (-2) None) = OErr OutOfFuel /\
  forallb inv_b (fst (store_scale_down ex_hstore 0 2 (Some 2%nat))) = true.
Proof. vm_compute. repeat split; reflexivity. Qed.

(* a well-formed history of compound operations in which every constructor of `hop` occurs, scale(1/k) succeeds and
   fails, and a compound stops at its first error *)
Definition ex_hops : list hop :=
  [HOp (ONewRel ex_bars_rel); HOp (ONewRel ex_bars_rel); HOp (ONewRel ex_rel);
   HScaleDown 0 2 None [OQuantNorm 0 [12; 8] [24; 12; 6]; OReadAbs 0];
   HSeq [OScale 1 2; OQuantNorm 1 [12; 8] [24; 12; 6]];
   HScaleDown 1 4 (Some 0%nat) [ONormalise 1];
   HScaleDown 2 5 (Some 1%nat) [OReadAbs 2];
   HFail (OReadRel 1) ValueErr; HRaise ValueErr;
   HSeq [OReadAbs 7; ONew];
   HScaleDown 2 1 (Some 2%nat) []].

Example ex_hops_wf : forallb hop_wf ex_hops = true.
Proof. vm_compute. reflexivity. Qed.

Example ex_hops_run :
  let res := run_h [] ex_hops in
  map (fun x => match x with OErr e => Some e | _ => None end) (snd res) =
    [None; None; None; None; None; None; Some OutOfModel; Some ValueErr; Some ValueErr; Some OutOfModel; None] /\
  map (fun s => (s_abs_stale s, s_rel_stale s, dur_rel (s_rel s))) (fst res) =
    [(false, false, 72); (false, false, 72); (true, false, 96)] /\
  forallb inv_b (fst res) = true.
Proof. vm_compute. repeat split; reflexivity. Qed.

(* the hypotheses on the constituent operations are needed (as for plain histories): a negative wait handed to a
   constituent operation makes the two views diverge *)
Example hop_wf_needed :
  let hs := [HOp (ONewRel ex_bars_rel);
             HScaleDown 0 2 None [OOverwriteRel 0 [mk_wait 0 5 false; mk_on 0 60 100 0 false; mk_wait 0 (-3) false];
                                  OReadAbs 0]] in
  forallb hop_wf hs = false /\
  map (fun s => (s_abs_stale s, s_rel_stale s, dur_abs (s_abs s), dur_rel (s_rel s))) (fst (run_h [] hs)) =
    [(false, false, 5, 2)].
Proof. vm_compute. split; reflexivity. Qed.

(* C04_readable_any_hops: an ill-formed history (k <= 0, negative waits, missing objects) *)
Example ex_hops_any :
  let hs := [HOp (ONewRel [mk_wait 0 (-3) false]); HScaleDown 0 0 (Some 5%nat) []; HScaleDown 0 (-1) None [ONew];
             HFail (OScale 0 (-1)) ValueErr; HScaleDown 0 2 (Some 0%nat) [OReadAbs 0]] in
  forallb hop_wf hs = false /\ length (fst (run_h [] hs)) = 1%nat.
Proof. vm_compute. split; reflexivity. Qed.
