(* C17 -- equals distinguishes exactly the sequences that differ musically.
   Model: Pairing.equals a b ignore_channel ignore_time_signatures ignore_key_signatures ignore_velocity
   (AbsoluteSequence.equals, fixed code) : result bool.  Helper definitions (Proofs/C17_proofs.v):
     view a its iks    := interleaved (eq_types its iks) PPQN true (sort_abs a)   -- the list equals() iterates over
     proj ich ivel e   := (channel unless ich, type, tick, pitch, duration, velocity unless ivel, numerator,
                           denominator, key) of an interleaved entry, attributes irrelevant for the type zeroed
     differ ich ivel x y : bool := the two entries differ in tick / type / channel (unless ignored) / pitch / duration /
                           velocity (unless ignored) / signature value
     key_determines (fun m => m) a := no two different messages of a share (time, channel, type, pitch)
                           (Proofs/C15_proofs.v) *)
From Coq Require Import ZArith List Bool.
From Model Require Import Base Seq Pairing.
From Coq Require Import Permutation.
From Proofs Require Import C17_proofs C15_proofs C17_perm.
Import ListNotations.
Open Scope Z_scope.

(* clause "reflexive", "holds between a sequence and its copy" (a copy has the same message list): equals a a is True
   whenever the interleaving does not raise ... *)
Theorem C17_refl : forall (a : list msg) (ich its iks ivel : bool) ia,
  view a its iks = Ok ia -> equals a a ich its iks ivel = Ok true.
Proof. exact C17_proofs.C17_refl. Qed.
Print Assumptions C17_refl.

(* ... and otherwise it raises IndexError (channels exist but no pairing at all, e.g. only an orphan note-off) *)
Theorem C17_refl_total : forall (a : list msg) (ich its iks ivel : bool),
  equals a a ich its iks ivel = match view a its iks with Ok _ => Ok true | Err _ => Err IndexErr end.
Proof. exact C17_proofs.C17_refl_total. Qed.
Print Assumptions C17_refl_total.

(* clause "symmetric": same boolean, and same exception when one side raises *)
Theorem C17_sym : forall (a b : list msg) (ich its iks ivel : bool),
  equals a b ich its iks ivel = equals b a ich its iks ivel.
Proof. exact C17_proofs.C17_sym. Qed.
Print Assumptions C17_sym.

(* clause "each ignore flag relaxes only ...": ignore_channel / ignore_velocity can only turn False into True, and
   never change whether the call raises *)
Theorem C17_flags_monotone_channel : forall (a b : list msg) (its iks ivel : bool),
  equals a b false its iks ivel = Ok true -> equals a b true its iks ivel = Ok true.
Proof. exact C17_proofs.C17_flags_monotone_channel. Qed.
Print Assumptions C17_flags_monotone_channel.

Theorem C17_flags_monotone_velocity : forall (a b : list msg) (ich its iks : bool),
  equals a b ich its iks false = Ok true -> equals a b ich its iks true = Ok true.
Proof. exact C17_proofs.C17_flags_monotone_velocity. Qed.
Print Assumptions C17_flags_monotone_velocity.

Theorem C17_flags_err : forall (a b : list msg) (ich ivel ich' ivel' its iks : bool) e,
  equals a b ich its iks ivel = Err e <-> equals a b ich' its iks ivel' = Err e.
Proof. exact C17_proofs.C17_flags_err. Qed.
Print Assumptions C17_flags_err.

(* REFUTED for ignore_time_signatures: switching it on can turn True into IndexError (a time signature plus an
   orphan note-off) and, together with ignore_channel, True into False (the channel holding the time signature
   decides the tie-break between simultaneous notes of two channels) *)
Theorem C17_flags_monotone_signature_refuted :
  (exists a, equals a a false false false false = Ok true /\ equals a a false true false false = Err IndexErr) /\
  (exists a b, equals a b true false false false = Ok true /\ equals a b true true false false = Ok false).
Proof.
  split.
  - exists C17_proofs.ex_ts_orphan. exact C17_proofs.C17_its_error_witness.
  - exists C17_proofs.ex_tie_a, C17_proofs.ex_tie_b. exact C17_proofs.C17_its_false_witness.
Qed.
Print Assumptions C17_flags_monotone_signature_refuted.

(* which attributes are compared: one comparison is exactly equality of the projections ... *)
Theorem C17_pair_equal_spec : forall (ich ivel : bool) (x y : Z * pairing),
  pair_equal ich ivel x y = true <-> proj ich ivel x = proj ich ivel y.
Proof. exact C17_proofs.pair_equal_spec. Qed.
Print Assumptions C17_pair_equal_spec.

(* ... and equals is exactly equality of the projected interleaved lists (both for True and for False) *)
Theorem C17_characterise : forall (a b : list msg) (ich its iks ivel : bool),
  equals a b ich its iks ivel = Ok true <->
  exists ia ib, view a its iks = Ok ia /\ view b its iks = Ok ib /\
                map (proj ich ivel) ia = map (proj ich ivel) ib.
Proof. exact C17_proofs.C17_characterise. Qed.
Print Assumptions C17_characterise.

Theorem C17_characterise_false : forall (a b : list msg) (ich its iks ivel : bool),
  equals a b ich its iks ivel = Ok false <->
  exists ia ib, view a its iks = Ok ia /\ view b its iks = Ok ib /\
                map (proj ich ivel) ia <> map (proj ich ivel) ib.
Proof. exact C17_proofs.C17_characterise_false. Qed.
Print Assumptions C17_characterise_false.

(* clause "fails whenever some note's pitch, onset, duration, channel or velocity, or some time or key signature or
   its tick, differs" -- PARTIAL: stated on the interleaved pairing lists (entry i of one side differs from entry i of
   the other side in a compared attribute, or the lists have different lengths).  Missing: the step from "the two
   message lists differ in one attribute of one note" to "their interleaved lists differ at some position", which
   needs a theory of pairings_sorted / interleave. *)
Theorem C17_sensitive_partial : forall (a b : list msg) (ich its iks ivel : bool) ia ib i x y,
  view a its iks = Ok ia -> view b its iks = Ok ib ->
  nth_error ia i = Some x -> nth_error ib i = Some y ->
  differ ich ivel x y = true ->
  equals a b ich its iks ivel = Ok false.
Proof. exact C17_proofs.C17_sensitive. Qed.
Print Assumptions C17_sensitive_partial.

Theorem C17_sensitive_length_partial : forall (a b : list msg) (ich its iks ivel : bool) ia ib,
  view a its iks = Ok ia -> view b its iks = Ok ib -> length ia <> length ib ->
  equals a b ich its iks ivel = Ok false.
Proof. exact C17_proofs.C17_sensitive_length. Qed.
Print Assumptions C17_sensitive_length_partial.

(* differ is exactly the negation of one comparison: nothing else is looked at *)
Theorem C17_differ_spec : forall (ich ivel : bool) (x y : Z * pairing),
  differ ich ivel x y = negb (pair_equal ich ivel x y).
Proof. exact C17_proofs.differ_spec. Qed.
Print Assumptions C17_differ_spec.

(* clause "in any insertion order": equals sorts first, and sorting is idempotent, so the stored order of either
   argument is irrelevant as long as the sorted lists agree *)
Theorem C17_sort_idempotent : forall l : list msg, sort_abs (sort_abs l) = sort_abs l.
Proof. exact C17_proofs.sort_abs_idem. Qed.
Print Assumptions C17_sort_idempotent.

Theorem C17_sort_invariant : forall (a b : list msg) (ich its iks ivel : bool),
  equals (sort_abs a) b ich its iks ivel = equals a b ich its iks ivel /\
  equals a (sort_abs b) ich its iks ivel = equals a b ich its iks ivel.
Proof. intros. split; [apply C17_proofs.C17_sort_invariant|apply C17_proofs.C17_sort_invariant_r]. Qed.
Print Assumptions C17_sort_invariant.

Theorem C17_same_sorted : forall (a a' b : list msg) (ich its iks ivel : bool),
  sort_abs a = sort_abs a' -> equals a b ich its iks ivel = equals a' b ich its iks ivel.
Proof. exact C17_proofs.C17_same_sorted. Qed.
Print Assumptions C17_same_sorted.

(* any re-ordering of the stored messages, provided no two DIFFERENT messages share the sort key
   (time, channel, type, pitch): then sorting gives the same list whatever the insertion order *)
Theorem C17_perm_invariant : forall (a a' b : list msg) (ich its iks ivel : bool),
  Permutation a a' -> key_determines (fun m => m) a = true ->
  equals a b ich its iks ivel = equals a' b ich its iks ivel.
Proof. exact C17_perm.C17_perm_invariant. Qed.
Print Assumptions C17_perm_invariant.

(* REFUTED without that hypothesis: two note-ons with the same tick, channel and pitch and different velocities are
   kept in insertion order by the stable sort, and the comparison sees the velocities in a different order *)
Theorem C17_insertion_order_refuted : exists a a' : list msg,
  Permutation a a' /\ equals a a false false false false = Ok true /\ equals a' a false false false false = Ok false.
Proof. exists C17_perm.ex_dup, C17_perm.ex_dup'. exact C17_perm.C17_insertion_order_witness. Qed.
Print Assumptions C17_insertion_order_refuted.
