(* C03 (piece level), final part -- a piece given bar by bar (every bar: its signature and the content of every track,
   the relative list of the bar being `mk_ts 0 num den 0 false :: content` as built by the Bar constructor), any
   partition of the bar sequence into consecutive call groups: the threaded `tokenise` calls and the single call on the
   whole piece detokenise to the same notes. *)
From Coq Require Import ZArith List Bool Lia Permutation Sorted.
From Model Require Import Base Util Seq Pairing Tok.
From Proofs Require Import C05_closest C04_sort C04_proofs C07_proofs.
From Proofs Require Import C01_frontend_sig C01_frontend_pipe C01_frontend_pair C01_rest C01_proofs C01_frontend C03_proofs.
From Proofs Require Import C03_piece_norm C03_piece_fe C03_piece_bars C03_piece_clock C03_piece_join C03_piece_groups.
Import ListNotations.
Open Scope Z_scope.

(* ================================================================ bars *)
(* one bar of the piece: numerator, denominator, and the content of every track (without the leading signature) *)
Definition bar_col : Set := (Z * Z * list (list msg))%type.
Definition bc_sig (b : bar_col) : Z * Z := fst b.
Definition bc_cont (b : bar_col) : list (list msg) := snd b.
Definition bc_cap (c : cfg) (b : bar_col) : Z := bar_cap c (fst (bc_sig b)) (snd (bc_sig b)).
(* the relative list of track i of the bar, as the Bar constructor leaves it *)
Definition bar_rel (b : bar_col) (i : nat) : list msg :=
  mk_ts 0 (fst (bc_sig b)) (snd (bc_sig b)) 0 false :: nth i (bc_cont b) [].
(* track i of a run of bars, and the lists handed to `tokenise` for the run *)
Definition track_of (cols : list bar_col) (i : nat) : list msg := concat (map (fun b => bar_rel b i) cols).
Definition join (nt : nat) (cols : list bar_col) : list (list msg) := map (track_of cols) (List.seq 0%nat nt).
Definition sigs_of (cols : list bar_col) : list (Z * Z) := map bc_sig cols.

(* the content of one track of a bar: non-negative waits, only WAIT / NOTE_ON / NOTE_OFF messages, per pitch the
   notes alternate on / off with positive durations and are all closed (they end within the bar), total duration = the
   bar's capacity, every note valid for the tokeniser *)
Definition content_ok (g : Z) (c : cfg) (cap : Z) (r : list msg) : bool :=
  wfr r && forallb (fun m => is_wait m || is_note m) r &&
  forallb (fun m => negb (is_note m) || sig_ok (psig (m_note m) 0 r)) r &&
  (dur_rel r =? cap) && forallb (note_ok g c) (notes_of r).
Definition bar_ok (g : Z) (c : cfg) (nt : nat) (b : bar_col) : bool :=
  Nat.eqb (length (bc_cont b)) nt && sig_valid g c (bc_sig b) && forallb (content_ok g c (bc_cap c b)) (bc_cont b).
(* no message at the bar's last instant: every track of the bar ends with a positive wait *)
Definition open_bar (c : cfg) (b : bar_col) : bool :=
  forallb (fun r => forallb (fun tm => fst tm <? bc_cap c b) (timed 0 r)) (bc_cont b).
Definition dummy_bar : bar_col := (0, 0, []).
(* a call group: at least one bar, every bar valid, the last one open-ended *)
Definition bars_group_ok (g : Z) (c : cfg) (nt : nat) (cols : list bar_col) : bool :=
  negb (match cols with [] => true | _ => false end) && forallb (bar_ok g c nt) cols && open_bar c (last cols dummy_bar).

Lemma content_ok_parts g c cap r : content_ok g c cap r = true ->
  wfr r = true /\ (forall m, In m r -> is_wait m || is_note m = true) /\ (forall p, sig_ok (psig p 0 r) = true) /\
  dur_rel r = cap /\ (forall x, In x (notes_of r) -> note_ok g c x = true).
Proof.
  unfold content_ok. intros H. apply andb_prop in H. destruct H as [H H5]. apply andb_prop in H. destruct H as [H H4].
  apply andb_prop in H. destruct H as [H H3]. apply andb_prop in H. destruct H as [H1 H2].
  rewrite forallb_forall in H2, H5. apply Z.eqb_eq in H4.
  split; [exact H1|]. split; [exact H2|]. split; [|split; [exact H4|exact H5]].
  intros n. rewrite forallb_forall in H3.
  destruct (existsb (fun m => is_note m && (m_note m =? n)) r) eqn:E.
  - apply existsb_exists in E. destruct E as (m & Hm & E). apply andb_prop in E. destruct E as [E1 E2].
    apply Z.eqb_eq in E2. subst n. specialize (H3 m Hm). now rewrite E1 in H3.
  - rewrite psig_nil; [reflexivity|]. intros m Hm Hn Heq.
    assert (existsb (fun m => is_note m && (m_note m =? n)) r = true); [|congruence].
    apply existsb_exists. exists m. split; [exact Hm|]. rewrite Hn. now apply Z.eqb_eq.
Qed.

Lemma no_ts_content r m : (forall x, In x r -> is_wait x || is_note x = true) -> In m r -> is_ts m = false.
Proof.
  intros H Hm. specialize (H m Hm). destruct (is_ts m) eqn:E; [|reflexivity].
  rewrite (ts_not_wait m E), (ts_not_note m E) in H. discriminate.
Qed.

Section Track.
  Variables (g : Z) (c : cfg) (nt : nat) (i : nat).
  Hypothesis Hg : 0 < g.
  Hypothesis Hi : (i < nt)%nat.

  Lemma bar_content b : bar_ok g c nt b = true ->
    sig_valid g c (bc_sig b) = true /\ 0 < bc_cap c b /\ (g | bc_cap c b) /\ content_ok g c (bc_cap c b) (nth i (bc_cont b) []) = true.
  Proof.
    unfold bar_ok. intros H. apply andb_prop in H. destruct H as [H H3]. apply andb_prop in H. destruct H as [H1 H2].
    apply Nat.eqb_eq in H1. split; [exact H2|].
    pose proof H2 as H2'. unfold sig_valid in H2'. apply andb_prop in H2'. destruct H2' as [H2' V5].
    apply andb_prop in H2'. destruct H2' as [_ V4]. apply Z.ltb_lt in V4. apply divb_true in V5; [|exact Hg].
    split; [exact V4|]. split; [exact V5|]. rewrite forallb_forall in H3. apply H3. apply nth_In. lia.
  Qed.

  Lemma bar_rel_dur b : bar_ok g c nt b = true -> dur_rel (bar_rel b i) = bc_cap c b.
  Proof.
    intros H. destruct (bar_content b H) as (_ & _ & _ & Hc). destruct (content_ok_parts _ _ _ _ Hc) as (_ & _ & _ & Hd & _).
    unfold bar_rel. rewrite C04_proofs.dur_rel_cons. cbn. exact Hd.
  Qed.

  Lemma bar_rel_wfr b : bar_ok g c nt b = true -> wfr (bar_rel b i) = true.
  Proof.
    intros H. destruct (bar_content b H) as (_ & _ & _ & Hc). destruct (content_ok_parts _ _ _ _ Hc) as (Hw & _).
    unfold bar_rel. cbn [wfr forallb]. fold (wfr (nth i (bc_cont b) [])). now rewrite Hw.
  Qed.

  Lemma bar_rel_sig b p : bar_ok g c nt b = true -> sig_ok (psig p 0 (bar_rel b i)) = true.
  Proof.
    intros H. destruct (bar_content b H) as (_ & _ & _ & Hc). destruct (content_ok_parts _ _ _ _ Hc) as (_ & _ & Hs & _).
    unfold bar_rel. cbn [psig]. apply Hs.
  Qed.

  Lemma bar_rel_notes b : notes_of (bar_rel b i) = notes_of (nth i (bc_cont b) []).
  Proof. reflexivity. Qed.

  Lemma track_dur cols : forallb (bar_ok g c nt) cols = true -> dur_rel (track_of cols i) = bars_dur c (sigs_of cols).
  Proof.
    induction cols as [|b cols IH]; intros H; [reflexivity|]. cbn [forallb] in H. apply andb_prop in H. destruct H as [Hb H].
    unfold track_of. cbn [map concat sigs_of bars_dur]. rewrite C04_proofs.dur_rel_app, (bar_rel_dur b Hb).
    fold (track_of cols i). fold (sigs_of cols). rewrite (IH H). reflexivity.
  Qed.

  Lemma track_wfr cols : forallb (bar_ok g c nt) cols = true -> wfr (track_of cols i) = true.
  Proof.
    induction cols as [|b cols IH]; intros H; [reflexivity|]. cbn [forallb] in H. apply andb_prop in H. destruct H as [Hb H].
    unfold track_of. cbn [map concat]. rewrite wfr_app, (bar_rel_wfr b Hb). apply (IH H).
  Qed.

  Lemma track_msgs cols m : forallb (bar_ok g c nt) cols = true -> In m (track_of cols i) -> gmsg_ok m = true.
  Proof.
    induction cols as [|b cols IH]; intros H Hm; [destruct Hm|]. cbn [forallb] in H. apply andb_prop in H. destruct H as [Hb H].
    unfold track_of in Hm. cbn [map concat] in Hm. apply in_app_or in Hm. destruct Hm as [Hm|Hm]; [|now apply IH].
    unfold bar_rel in Hm. destruct Hm as [<-|Hm]; [reflexivity|].
    destruct (bar_content b Hb) as (_ & _ & _ & Hc). destruct (content_ok_parts _ _ _ _ Hc) as (_ & Hk & _).
    specialize (Hk m Hm). unfold gmsg_ok. now rewrite Hk.
  Qed.

  (* every pitch of a run of bars is well formed *)
  Lemma track_sig cols p : forallb (bar_ok g c nt) cols = true -> sig_ok (psig p 0 (track_of cols i)) = true.
  Proof.
    induction cols as [|b cols IH]; intros H; [reflexivity|]. cbn [forallb] in H. apply andb_prop in H. destruct H as [Hb H].
    unfold track_of. cbn [map concat]. fold (track_of cols i). rewrite psig_app, Z.add_0_l.
    apply sig_ok_app; [now apply bar_rel_sig| |].
    - rewrite <- (Z.add_0_l (dur_rel (bar_rel b i))), psig_shift, sig_ok_shift. now apply IH.
    - intros x y Hx Hy. pose proof (psig_upper p _ (bar_rel_wfr b Hb) 0 x Hx) as Bx.
      pose proof (psig_upper p _ (track_wfr cols H) _ y Hy) as By. lia.
  Qed.

  Lemma track_gtrack cols : forallb (bar_ok g c nt) cols = true -> gtrack_ok (track_of cols i) = true.
  Proof.
    intros H. unfold gtrack_ok. rewrite (track_wfr cols H). cbn [andb]. apply andb_true_intro. split.
    - apply forallb_forall. intros m Hm. now apply track_msgs with cols.
    - apply forallb_forall. intros m _. rewrite (track_sig cols (m_note m) H). apply orb_true_r.
  Qed.

  (* a time signature exactly at every bar start *)
  Lemma track_tsv cols : forallb (bar_ok g c nt) cols = true -> forall cur,
    tsv (ev_rel_from cur (track_of cols i)) = bar_tsl c cur (sigs_of cols).
  Proof.
    induction cols as [|b cols IH]; intros H cur; [reflexivity|]. cbn [forallb] in H. apply andb_prop in H. destruct H as [Hb H].
    unfold track_of. cbn [map concat sigs_of bar_tsl]. fold (track_of cols i). fold (sigs_of cols).
    rewrite ev_rel_from_app, tsv_app, (bar_rel_dur b Hb), (IH H). f_equal.
    unfold bar_rel. cbn [ev_rel_from is_wait is_internal mtype_eqb mk_ts m_type mtype_rank Z.eqb Pos.eqb].
    destruct (bar_content b Hb) as (_ & _ & _ & Hc). destruct (content_ok_parts _ _ _ _ Hc) as (_ & Hk & _).
    change (tsv ((cur, strip_time (mk_ts 0 (fst (bc_sig b)) (snd (bc_sig b)) 0 false)) :: ev_rel_from cur (nth i (bc_cont b) [])))
      with ((cur, fst (bc_sig b), snd (bc_sig b)) :: tsv (ev_rel_from cur (nth i (bc_cont b) []))).
    rewrite tsv_no_ts; [reflexivity|]. intros m Hm. now apply no_ts_content with (nth i (bc_cont b) []).
  Qed.

  (* no message at the last instant of the run when the last bar is open-ended *)
  Lemma track_open cols : cols <> [] -> forallb (bar_ok g c nt) cols = true -> open_bar c (last cols dummy_bar) = true ->
    forall cur tm, In tm (timed cur (track_of cols i)) -> fst tm < cur + bars_dur c (sigs_of cols).
  Proof.
    induction cols as [|b cols IH]; intros Hne H Ho cur tm Htm; [congruence|].
    cbn [forallb] in H. apply andb_prop in H. destruct H as [Hb H].
    destruct (bar_content b Hb) as (_ & Hcap & _ & Hc). destruct (content_ok_parts _ _ _ _ Hc) as (Hw & _ & _ & Hd & _).
    unfold track_of in Htm. cbn [map concat] in Htm. fold (track_of cols i) in Htm.
    rewrite timed_app, (bar_rel_dur b Hb) in Htm. cbn [sigs_of map bars_dur]. fold (sigs_of cols). fold (bc_cap c b).
    apply in_app_or in Htm. destruct Htm as [Htm|Htm].
    - assert (Hpos : 0 <= bars_dur c (sigs_of cols)).
      { apply bars_dur_nonneg. apply Forall_forall. intros nd Hnd. unfold sigs_of in Hnd. apply in_map_iff in Hnd.
        destruct Hnd as (b' & <- & Hb'). rewrite forallb_forall in H. now destruct (bar_content b' (H b' Hb')) as (_ & Hp & _). }
      unfold bar_rel in Htm. cbn [timed is_wait mtype_eqb mk_ts m_type mtype_rank Z.eqb Pos.eqb] in Htm.
      destruct Htm as [<-|Htm]; [cbn [fst]; lia|].
      destruct cols as [|b' cols'].
      + (* the last bar: open-ended *)
        cbn [last] in Ho. unfold open_bar in Ho. rewrite forallb_forall in Ho.
        assert (Hin : In (nth i (bc_cont b) []) (bc_cont b)).
        { apply nth_In. unfold bar_ok in Hb. apply andb_prop in Hb. destruct Hb as [Hb _]. apply andb_prop in Hb.
          destruct Hb as [Hb _]. apply Nat.eqb_eq in Hb. lia. }
        specialize (Ho _ Hin). rewrite forallb_forall in Ho.
        rewrite <- (Z.add_0_l cur), timed_shift in Htm. apply in_map_iff in Htm. destruct Htm as (tm0 & <- & Htm0).
        specialize (Ho _ Htm0). apply Z.ltb_lt in Ho. cbn [fst bars_dur sigs_of map]. lia.
      + pose proof (timed_bounds _ Hw cur tm Htm) as Bd. rewrite Hd in Bd.
        assert (0 < bars_dur c (sigs_of (b' :: cols'))).
        { cbn [sigs_of map bars_dur]. cbn [forallb] in H. apply andb_prop in H. destruct H as [Hb' H].
          destruct (bar_content b' Hb') as (_ & Hp' & _). fold (bc_cap c b').
          assert (0 <= bars_dur c (map bc_sig cols')); [|lia].
          apply bars_dur_nonneg. apply Forall_forall. intros nd Hnd. apply in_map_iff in Hnd.
          destruct Hnd as (b'' & <- & Hb''). rewrite forallb_forall in H. now destruct (bar_content b'' (H b'' Hb'')) as (_ & Hp & _). }
        lia.
    - destruct cols as [|b' cols']; [destruct Htm|].
      assert (Hlast : last (b :: b' :: cols') dummy_bar = last (b' :: cols') dummy_bar) by reflexivity.
      rewrite Hlast in Ho. specialize (IH ltac:(discriminate) H Ho _ _ Htm). lia.
  Qed.

  (* the notes of a run of bars: those of every bar, moved to the bar's start *)
  Fixpoint bars_notes (s : Z) (cols : list bar_col) : list note :=
    match cols with
    | [] => []
    | b :: cols' => map (shiftn s) (notes_of (nth i (bc_cont b) [])) ++ bars_notes (s + bc_cap c b) cols'
    end.

  Lemma bars_notes_shift a cols : forall s, map (shiftn a) (bars_notes s cols) = bars_notes (s + a) cols.
  Proof.
    induction cols as [|b cols IH]; intros s; [reflexivity|]. cbn [bars_notes]. rewrite map_app, map_map, IH.
    f_equal; [|f_equal; lia]. apply map_ext. intros x. apply shiftn_shiftn.
  Qed.

  Lemma track_notes_of cols : forallb (bar_ok g c nt) cols = true ->
    Permutation (notes_of (track_of cols i)) (bars_notes 0 cols).
  Proof.
    induction cols as [|b cols IH]; intros H; [constructor|]. cbn [forallb] in H. apply andb_prop in H. destruct H as [Hb H].
    unfold track_of. cbn [map concat bars_notes]. fold (track_of cols i).
    eapply perm_trans; [apply notes_of_app; intros p; now apply bar_rel_sig|].
    rewrite bar_rel_notes, (bar_rel_dur b Hb). apply Permutation_app.
    - rewrite (map_ext (shiftn 0) (fun x => x)) by apply shiftn_0. rewrite map_id. apply Permutation_refl.
    - eapply perm_trans; [apply Permutation_map, (IH H)|]. rewrite bars_notes_shift. apply Permutation_refl.
  Qed.

  Lemma note_ok_shift a x : (g | a) -> note_ok g c (shiftn a x) = note_ok g c x.
  Proof.
    intros Ha. destruct x as [[[p t] t'] v]. unfold note_ok, shiftn. rewrite (divb_shift g a t Hg Ha).
    replace (t' + a - (t + a)) with (t' - t) by lia. reflexivity.
  Qed.

  Lemma bars_notes_ok cols : forallb (bar_ok g c nt) cols = true -> forall s x, (g | s) ->
    In x (bars_notes s cols) -> note_ok g c x = true.
  Proof.
    induction cols as [|b cols IH]; intros H s x Hs Hx; [destruct Hx|]. cbn [forallb] in H. apply andb_prop in H.
    destruct H as [Hb H]. destruct (bar_content b Hb) as (_ & _ & Hdiv & Hc).
    destruct (content_ok_parts _ _ _ _ Hc) as (_ & _ & _ & _ & Hn).
    cbn [bars_notes] in Hx. apply in_app_or in Hx. destruct Hx as [Hx|Hx].
    - apply in_map_iff in Hx. destruct Hx as (x0 & <- & Hx0). rewrite note_ok_shift by exact Hs. now apply Hn.
    - apply (IH H (s + bc_cap c b)); [|exact Hx]. now apply Z.divide_add_r.
  Qed.
End Track.

(* ================================================================ a run of bars is a group *)
Lemma join_nth nt cols i : (i < nt)%nat -> nth i (join nt cols) [] = track_of cols i.
Proof.
  intros Hi. unfold join. rewrite (nth_indep _ [] (track_of cols 0%nat)) by (rewrite map_length, seq_length; exact Hi).
  rewrite (map_nth (track_of cols) (List.seq 0%nat nt) 0%nat i), seq_nth by exact Hi. reflexivity.
Qed.

Lemma join_In nt cols r : In r (join nt cols) -> exists i, (i < nt)%nat /\ r = track_of cols i.
Proof.
  unfold join. intros H. apply in_map_iff in H. destruct H as (i & <- & Hi). apply in_seq in Hi. exists i. split; [lia|reflexivity].
Qed.

Lemma bars_group g c nt cols :
  valid_cfg g c = true -> Z.of_nat nt = c_ntracks c -> bars_group_ok g c nt cols = true ->
  group_ok g c (sigs_of cols) (join nt cols) = true.
Proof.
  intros Hc Hnt H. destruct (valid_cfg_parts g c Hc) as (_ & Hg & _).
  unfold bars_group_ok in H. apply andb_prop in H. destruct H as [H Ho]. apply andb_prop in H. destruct H as [Hne Hb].
  assert (Hne' : cols <> []) by (destruct cols; [discriminate|discriminate]).
  assert (Hsv : forallb (sig_valid g c) (sigs_of cols) = true).
  { apply forallb_forall. intros nd Hnd. unfold sigs_of in Hnd. apply in_map_iff in Hnd. destruct Hnd as (b & <- & Hb').
    rewrite forallb_forall in Hb. specialize (Hb b Hb'). unfold bar_ok in Hb. apply andb_prop in Hb. destruct Hb as [Hb _].
    now apply andb_prop in Hb. }
  assert (HT : 0 < bars_dur c (sigs_of cols)).
  { pose proof (sig_valid_pos g c _ Hsv) as Hp. destruct cols as [|b cols]; [congruence|].
    cbn [sigs_of map bars_dur] in *. inversion Hp as [|? ? H1 H2]; subst. pose proof (bars_dur_nonneg c _ H2). lia. }
  unfold group_ok. apply andb_true_intro. split; [apply andb_true_intro; split; [apply andb_true_intro; split; [apply andb_true_intro; split|]|]|].
  - apply Z.eqb_eq. unfold lenZ, join. rewrite map_length, seq_length. exact Hnt.
  - now apply Z.ltb_lt.
  - exact Hsv.
  - apply forallb_forall. intros r Hr. destruct (join_In nt cols r Hr) as (i & Hi & ->).
    unfold gbar_track. rewrite (track_gtrack g c nt i Hg Hi cols Hb). cbn [andb].
    unfold ev_rel. rewrite (track_tsv g c nt i Hg Hi cols Hb 0), (track_dur g c nt i Hg Hi cols Hb), Z.eqb_refl.
    assert (E : tsl_eqb (bar_tsl c 0 (sigs_of cols)) (bar_tsl c 0 (sigs_of cols)) = true).
    { induction (bar_tsl c 0 (sigs_of cols)) as [|x l IH]; [reflexivity|]. cbn [tsl_eqb]. now rewrite !Z.eqb_refl, IH. }
    rewrite E. cbn [andb]. apply forallb_forall. intros tm Htm. apply Z.ltb_lt.
    pose proof (track_open g c nt i Hg Hi cols Hne' Hb Ho 0 tm Htm). lia.
  - apply forallb_forall. intros r Hr. destruct (join_In nt cols r Hr) as (i & Hi & ->).
    apply forallb_forall. intros x Hx.
    eapply Permutation_in in Hx; [|apply (track_notes_of g c nt i Hg Hi cols Hb)].
    apply (bars_notes_ok g c nt i Hg Hi cols Hb 0 x); [apply Z.divide_0_r|exact Hx].
Qed.

(* ================================================================ Target 3: any partition of the bars into call groups *)
(* a partition: the groups in order, each a run of bars; the piece is their concatenation *)
Definition parts_ok (g : Z) (c : cfg) (nt : nat) (parts : list (list bar_col)) : bool :=
  negb (match parts with [] => true | _ => false end) && forallb (bars_group_ok g c nt) parts.
Definition part_groups (nt : nat) (parts : list (list bar_col)) : list group :=
  map (fun cols => (sigs_of cols, join nt cols)) parts.

Lemma part_groups_ok g c nt parts :
  valid_cfg g c = true -> Z.of_nat nt = c_ntracks c -> forallb (bars_group_ok g c nt) parts = true ->
  groups_ok g c (part_groups nt parts) = true.
Proof.
  intros Hc Hnt. induction parts as [|cols parts IH]; intros H; [reflexivity|]. cbn [forallb] in H.
  apply andb_prop in H. destruct H as [H1 H2]. cbn [part_groups map groups_ok forallb fst snd].
  rewrite (bars_group g c nt cols Hc Hnt H1). apply (IH H2).
Qed.

Lemma part_calls nt parts : group_calls (part_groups nt parts) = map (join nt) parts.
Proof. unfold group_calls, part_groups. rewrite map_map. reflexivity. Qed.

Lemma last_app_ne {A} (a b : list A) d : b <> [] -> last (a ++ b) d = last b d.
Proof.
  intros Hb. induction a as [|x a IH]; [reflexivity|]. cbn [app]. destruct (a ++ b) eqn:E.
  - apply app_eq_nil in E. destruct E as [_ E]. congruence.
  - rewrite <- E at 1. cbn [last]. rewrite E in *. exact IH.
Qed.

(* the whole piece is one (big) group *)
Lemma whole_ok g c nt parts : parts_ok g c nt parts = true -> bars_group_ok g c nt (concat parts) = true.
Proof.
  unfold parts_ok. intros H. apply andb_prop in H. destruct H as [Hne H].
  induction parts as [|cols parts IH]; [discriminate|]. clear Hne. cbn [forallb] in H. apply andb_prop in H. destruct H as [H1 H2].
  destruct parts as [|cols' parts'].
  - cbn [concat]. now rewrite app_nil_r.
  - specialize (IH eq_refl H2). cbn [concat] in *.
    unfold bars_group_ok in *. apply andb_prop in H1. destruct H1 as [H1 O1]. apply andb_prop in H1. destruct H1 as [N1 B1].
    apply andb_prop in IH. destruct IH as [IH O2]. apply andb_prop in IH. destruct IH as [N2 B2].
    assert (Hne2 : cols' ++ concat parts' <> []) by (destruct (cols' ++ concat parts'); [discriminate|discriminate]).
    rewrite forallb_app, B1, B2, (last_app_ne cols _ dummy_bar Hne2), O2.
    destruct cols; [discriminate|reflexivity].
Qed.

Section PieceNotes.
  Variables (g : Z) (c : cfg) (nt : nat) (i : nat).
  Hypothesis Hg : 0 < g.
  Hypothesis Hi : (i < nt)%nat.

  Lemma bars_notes_app a b : forall s,
    bars_notes c i s (a ++ b) = bars_notes c i s a ++ bars_notes c i (s + bars_dur c (sigs_of a)) b.
  Proof.
    induction a as [|x a IH]; intros s; [cbn; now rewrite Z.add_0_r|].
    cbn [app bars_notes sigs_of map bars_dur]. rewrite IH, <- app_assoc. fold (sigs_of a).
    do 3 f_equal. unfold bc_cap. rewrite Z.add_assoc. reflexivity.
  Qed.

  (* whatever the partition, the glued notes of the groups are the notes of the bars *)
  Lemma parts_notes parts : forallb (bars_group_ok g c nt) parts = true -> forall s,
    Permutation (glued_notes i s (group_lens c (part_groups nt parts)) (group_notes_of i (part_groups nt parts)))
                (bars_notes c i s (concat parts)).
  Proof.
    induction parts as [|cols parts IH]; intros H s; [constructor|]. cbn [forallb] in H. apply andb_prop in H.
    destruct H as [H1 H2].
    assert (Hb : forallb (bar_ok g c nt) cols = true).
    { unfold bars_group_ok in H1. apply andb_prop in H1. destruct H1 as [H1 _]. now apply andb_prop in H1. }
    cbn [part_groups map group_lens group_notes_of glued_notes fst snd concat]. rewrite (bars_notes_app cols _ s).
    apply Permutation_app.
    - rewrite (join_nth nt cols i Hi). eapply perm_trans; [apply Permutation_map, (track_notes_of g c nt i Hg Hi cols Hb)|].
      rewrite (bars_notes_shift c nt i Hi). apply Permutation_refl.
    - apply (IH H2).
  Qed.
End PieceNotes.

Lemma all_sigs_parts nt parts : all_sigs (part_groups nt parts) = sigs_of (concat parts).
Proof.
  unfold all_sigs, part_groups, sigs_of. rewrite map_map. cbn [fst]. now rewrite concat_map.
Qed.

Lemma rel_split l : Permutation (filter rel l) (filter is_note l ++ filter is_cap l).
Proof.
  induction l as [|x l IH]; [constructor|]. cbn [filter]. unfold rel at 1.
  destruct (is_note x) eqn:En.
  - cbn [orb]. assert (is_cap x = false) as ->.
    { unfold is_note, is_on, is_off, is_cap, mtype_eqb in *. destruct (m_type x); cbn in *; congruence. }
    cbn [app]. now apply perm_skip.
  - cbn [orb]. destruct (is_cap x); [|exact IH]. eapply perm_trans; [apply perm_skip, IH|]. apply Permutation_middle.
Qed.

(* Target 3.  A piece given bar by bar (signature and content of every track per bar), ANY partition `parts` of its
   bar sequence into consecutive call groups: the threaded calls on the groups (each group handed over as the
   concatenation of its bars' lists, one list per track) and the single call on the whole piece both succeed, both end
   on the bar line at the end of the piece, both streams detokenise to one sequence per track, and in both the note
   messages of track i are exactly the notes of the bars of track i -- pitch, onset tick (bar start + offset in the
   bar), offset tick, velocity replaced by its bin value -- and the INTERNAL caps are exactly the ends of all bars.
   Hence the two detokenisations hold the same notes on the same bar grid. *)
Theorem C03_piece g c nt parts :
  valid_cfg g c = true -> Z.of_nat nt = c_ntracks c -> parts_ok g c nt parts = true ->
  exists toks1 st1 seqs1 toks2 st2 seqs2,
    tokenise_many c (tstate0 c) (map (join nt) parts) = Ok (toks1, st1) /\ detokenise c toks1 = Ok seqs1 /\
    tokenise c (tstate0 c) (join nt (concat parts)) = Ok (toks2, st2) /\ detokenise c toks2 = Ok seqs2 /\
    length seqs1 = nt /\ length seqs2 = nt /\
    t_time st1 = bars_dur c (sigs_of (concat parts)) /\ t_time st2 = bars_dur c (sigs_of (concat parts)) /\
    t_tbar st1 = 0 /\ t_tbar st2 = 0 /\
    forall i, (i < nt)%nat ->
      Permutation (filter is_note (nth i seqs1 [])) (flat_map (note_msgs c) (bars_notes c i 0 (concat parts))) /\
      Permutation (filter is_note (nth i seqs2 [])) (flat_map (note_msgs c) (bars_notes c i 0 (concat parts))) /\
      Permutation (filter is_cap (nth i seqs1 [])) (caps_msgs (bar_ends c 0 (sigs_of (concat parts)))) /\
      Permutation (filter is_cap (nth i seqs2 [])) (caps_msgs (bar_ends c 0 (sigs_of (concat parts)))) /\
      Permutation (filter rel (nth i seqs1 [])) (filter rel (nth i seqs2 [])).
Proof.
  intros Hc Hnt Hp. destruct (valid_cfg_parts g c Hc) as (_ & Hg & _).
  pose proof Hp as Hp'. unfold parts_ok in Hp'. apply andb_prop in Hp'. destruct Hp' as [_ Hparts].
  pose proof (part_groups_ok g c nt parts Hc Hnt Hparts) as Hok1.
  pose proof (whole_ok g c nt parts Hp) as Hw.
  assert (Hok2 : groups_ok g c (part_groups nt [concat parts]) = true).
  { apply part_groups_ok; [exact Hc|exact Hnt|]. cbn [forallb]. now rewrite Hw. }
  destruct (C03_groups_roundtrip g c _ Hc Hok1) as (toks1 & st1 & seqs1 & A1 & _ & A2 & A2' & A3 & A4 & A5).
  destruct (C03_groups_roundtrip g c _ Hc Hok2) as (toks2 & st2 & seqs2 & B1 & _ & B2 & B2' & B3 & B4 & B5).
  rewrite all_sigs_parts in A2, B2, A5, B5. cbn [concat] in B2, B5. rewrite app_nil_r in B2, B5.
  exists toks1, st1, seqs1, toks2, st2, seqs2.
  rewrite part_calls in A1, B1. split; [exact A1|]. split; [exact A3|].
  split.
  { cbn [map] in B1. rewrite C19_tokenise.tokenise_many_one in B1.
    destruct (tokenise c (tstate0 c) (join nt (concat parts))) as [[t s]|]; cbn [rbind fst snd] in B1; [exact B1|discriminate]. }
  split; [exact B3|]. split; [lia|]. split; [lia|]. split; [exact A2|]. split; [exact B2|]. split; [exact A2'|].
  split; [exact B2'|]. intros i Hi.
  destruct (A5 i ltac:(lia)) as (_ & AN & AC). destruct (B5 i ltac:(lia)) as (_ & BN & BC).
  assert (P1 : Permutation (filter is_note (nth i seqs1 [])) (flat_map (note_msgs c) (bars_notes c i 0 (concat parts)))).
  { eapply perm_trans; [exact AN|]. apply Permutation_flat_map. apply (parts_notes g c nt i Hg Hi parts Hparts 0). }
  assert (P2 : Permutation (filter is_note (nth i seqs2 [])) (flat_map (note_msgs c) (bars_notes c i 0 (concat parts)))).
  { eapply perm_trans; [exact BN|]. apply Permutation_flat_map.
    pose proof (parts_notes g c nt i Hg Hi [concat parts]) as Q. cbn [forallb concat] in Q. rewrite app_nil_r in Q.
    apply Q. now rewrite Hw. }
  split; [exact P1|]. split; [exact P2|]. split; [exact AC|]. split; [exact BC|].
  eapply perm_trans; [apply rel_split|]. eapply perm_trans; [|apply Permutation_sym, rel_split].
  apply Permutation_app.
  - eapply perm_trans; [exact P1|]. now apply Permutation_sym.
  - eapply perm_trans; [exact AC|]. now apply Permutation_sym.
Qed.

(* ================================================================ non-vacuity *)
(* three bars (4/4, 4/4, 3/4), two tracks; bar 2 is empty on track 0; a time-signature change at bar 3 *)
Definition xw (t : Z) : msg := mk_wait 0 t false.
Definition xon (p v : Z) : msg := mk_on 0 p v 0 false.
Definition xoff (p : Z) : msg := mk_off 0 p 0 false.
Definition ex_b1 : bar_col := (4, 4, [[xon 60 100; xw 24; xoff 60; xw 72]; [xw 48; xon 61 50; xw 36; xoff 61; xw 12]]).
Definition ex_b2 : bar_col := (4, 4, [[xw 96]; [xon 62 80; xw 12; xoff 62; xw 84]]).
Definition ex_b3 : bar_col := (3, 4, [[xw 24; xon 60 100; xw 36; xoff 60; xw 12]; [xw 72]]).

Example ex_parts_ok :
  valid_cfg 2 cfg_ex = true /\ Z.of_nat 2 = c_ntracks cfg_ex /\
  parts_ok 2 cfg_ex 2 [[ex_b1]; [ex_b2; ex_b3]] = true /\ parts_ok 2 cfg_ex 2 [[ex_b1; ex_b2]; [ex_b3]] = true /\
  parts_ok 2 cfg_ex 2 [[ex_b1]; [ex_b2]; [ex_b3]] = true /\ parts_ok 2 cfg_ex 2 [[ex_b1; ex_b2; ex_b3]] = true.
Proof. vm_compute. repeat split; reflexivity. Qed.

Example ex_groups_ok :
  groups_ok 2 cfg_ex (part_groups 2 [[ex_b1]; [ex_b2; ex_b3]]) = true /\
  chunks_ok 2 cfg_ex (rclk0 cfg_ex) (group_events (part_groups 2 [[ex_b1]; [ex_b2; ex_b3]])) = true.
Proof. vm_compute. split; reflexivity. Qed.

(* the bars handed to the calls start with their signature message, as the Bar constructor builds them *)
Example ex_bar_shape :
  join 2 [ex_b2; ex_b3] =
  [ [mk_ts 0 4 4 0 false; xw 96; mk_ts 0 3 4 0 false; xw 24; xon 60 100; xw 36; xoff 60; xw 12];
    [mk_ts 0 4 4 0 false; xon 62 80; xw 12; xoff 62; xw 84; mk_ts 0 3 4 0 false; xw 72] ].
Proof. reflexivity. Qed.

(* the threaded run differs from the single run as a token list (the second call re-announces 4/4) ... *)
Example ex_tokens_differ :
  match tokenise_many cfg_ex (tstate0 cfg_ex) (map (join 2) [[ex_b1]; [ex_b2; ex_b3]]),
        tokenise cfg_ex (tstate0 cfg_ex) (join 2 [ex_b1; ex_b2; ex_b3]) with
  | Ok (t1, s1), Ok (t2, s2) => (length t1, length t2, t_time s1, t_time s2)
  | _, _ => (O, O, 0, 0)
  end = (25%nat, 24%nat, 264, 264).
Proof. vm_compute. reflexivity. Qed.

(* ... but the notes and the bar ends it stands for are the same *)
Example ex_piece_content :
  bars_notes cfg_ex 1 0 [ex_b1; ex_b2; ex_b3] = [(61, 48, 84, 50); (62, 96, 108, 80)] /\
  bar_ends cfg_ex 0 (sigs_of [ex_b1; ex_b2; ex_b3]) = [96; 192; 264].
Proof. vm_compute. split; reflexivity. Qed.

(* the open-end hypothesis is needed by the core-level notion of chunk: when a track of a group ends on a NOTE_OFF,
   the front end writes no INTERNAL cap, so the group's events do not reach its end *)
Example ex_closed_end_no_cap :
  let b := (4, 4, [[xon 60 100; xw 24; xoff 60; xw 72]; [xw 60; xon 61 50; xw 36; xoff 61]]) in
  open_bar cfg_ex b = false /\
  match tok_frontend (join 2 [b]) with Ok evs => map (fun e => (m_type (ev_msg e), ev_time e)) evs | Err _ => [] end
  = [(TIME_SIGNATURE, 0); (NOTE_ON, 0); (NOTE_ON, 60)].
Proof. vm_compute. split; reflexivity. Qed.
