(* C09_sound_qnl -- last sentence of C09 with note-length re-quantisation ON: laid end to end, a track's bars sound
   only where the track sounds ("a subset").  Builds on C09_sound.v (round / loop structure), C06_main (the
   re-quantised notes of a key are the reference quantiser qnl_key of the key's notes) and Sound_glue.v (absolute
   tick-wise sounding <-> relative list-order sounding through to_abs / to_rel). *)
From Coq Require Import ZArith List Bool Lia Permutation.
From Model Require Import Base Seq Pairing Util Bars.
From Proofs Require Import C04_sort C05_closest C05_proofs C05_wf C05_sort C05_final C06_proofs C06_main.
From Proofs Require Import C07_proofs C15_proofs Sound_glue C08_proofs C09_proofs C09_sound.
Import ListNotations.
Open Scope Z_scope.

Definition isS (o : option Z) : bool := match o with Some _ => true | None => false end.

Lemma isS_orelse a b : isS (orelse a b) = isS a || isS b.
Proof. now destruct a. Qed.

(* ================================================================ S1: C07's boolean sounding = C08's sound is Some *)
Lemma sounding_isS k t : forall l o ov cur, alt_run k o l <> None -> isS ov = o ->
  C07_proofs.sounding k t (b2z o) cur l = isS (sound k t cur ov l).
Proof.
  induction l as [|m l IH]; intros o ov cur A Ho; [reflexivity|].
  cbn [C07_proofs.sounding sound alt_run] in *. rewrite isS_orelse.
  change (is_key k m) with (k2_eqb k (mkey m)) in *.
  destruct (type_cases m) as [T|[T|[T|T]]].
  - destruct (is_on_t m T) as (On & _ & Wt).
    assert (Of : is_off m = false) by (unfold is_off, mtype_eqb; now rewrite T).
    rewrite Wt, On, Of, !andb_true_r, !andb_false_r in *. rewrite hit_nw, dt_nw, Z.add_0_r by congruence.
    cbn [isS orb]. unfold ostep. rewrite T.
    destruct (k2_eqb k (mkey m)).
    + destruct o; [congruence|]. cbn [b2z Z.add]. apply (IH true (Some (m_vel m)) cur A eq_refl).
    + now apply IH.
  - destruct (is_off_t m T) as (On & _ & Wt).
    assert (Of : is_off m = true) by (unfold is_off, mtype_eqb; now rewrite T).
    rewrite Wt, On, Of, !andb_true_r, !andb_false_r in *. rewrite hit_nw, dt_nw, Z.add_0_r by congruence.
    cbn [isS orb]. unfold ostep. rewrite T.
    destruct (k2_eqb k (mkey m)).
    + destruct o; [|congruence]. cbn [b2z Z.sub]. apply (IH false None cur A eq_refl).
    + now apply IH.
  - assert (On : is_on m = false) by (unfold is_on, mtype_eqb; now rewrite T).
    assert (Of : is_off m = false) by (unfold is_off, mtype_eqb; now rewrite T).
    rewrite (is_wait_true _ T), On, Of, !andb_false_r in *.
    assert (Hdt : dt m = m_time m) by (unfold dt; now rewrite T). rewrite Hdt.
    assert (Eo : ostep k ov m = ov) by (unfold ostep; now rewrite T). rewrite Eo.
    rewrite (IH o ov (cur + m_time m) A Ho). f_equal. unfold hit. rewrite T.
    destruct o; cbn [b2z]; [change (0 <? 1) with true|change (0 <? 0) with false]; cbn [andb];
      destruct ((cur <=? t) && (t <? cur + m_time m)); cbn [isS]; now rewrite ?Ho.
  - destruct (is_plain_t m T) as (Nt & Wt). unfold is_note in Nt. apply orb_false_iff in Nt. destruct Nt as [On Of].
    destruct T as (T1 & T2 & T3).
    rewrite Wt, On, Of, !andb_false_r in *. rewrite hit_nw, dt_nw, Z.add_0_r by congruence.
    assert (Eo : ostep k ov m = ov) by (unfold ostep; destruct (m_type m); congruence). rewrite Eo.
    cbn [isS orb]. now apply IH.
Qed.

Lemma sounding_sound k t l : (forall k, alt_run k false l = Some false) ->
  C07_proofs.sounding k t 0 0 l = isS (sound k t 0 None l).
Proof. intros A. apply (sounding_isS k t l false None 0); [now rewrite A|reflexivity]. Qed.

(* ================================================================ S2: no zero-length notes in a paired_pos list *)
Lemma lt_le_mono t a c : a < c -> le_t t c <= lt_t t a.
Proof.
  intros H. unfold le_t, lt_t. destruct (Z.leb_spec c t), (Z.ltb_spec a t); cbn; lia.
Qed.

Lemma krun_rsdepth k t : forall r s cur, krun k s r = Some KC -> nonneg_waits r = true ->
  match s with
  | KC => 0 <= rsdepth k t cur r
  | KS => True
  | KF _ => forall a, a <= cur -> 0 <= lt_t t a + rsdepth k t cur r
  | KO _ => forall a, a < cur -> 0 <= lt_t t a + rsdepth k t cur r
  end.
Proof.
  unfold rsdepth. induction r as [|m r IH]; intros s cur H NN.
  - cbn in H. injection H as ->. cbn. lia.
  - apply nonneg_cons in NN. destruct NN as (Wm & NN & _). cbn [krun] in H.
    destruct (kstep k s m) as [s1|] eqn:KS; [|discriminate]. cbn [rsum].
    specialize (IH s1). unfold kstep in KS.
    destruct (type_cases m) as [T|[T|[T|T]]].
    + destruct (is_on_t m T) as (On & _ & Wt). rewrite Wt, T in *.
      destruct (k2_eqb k (mkey m)) eqn:K.
      * rewrite (term_on k _ _ cur m K On).
        destruct s; try discriminate; [|exact I]. injection KS as <-.
        specialize (IH cur H NN). cbn in IH. apply IH. lia.
      * rewrite (term_nokey k _ _ cur m K). injection KS as <-. specialize (IH cur H NN).
        destruct s; auto; try (intros a Ha; specialize (IH a Ha)); lia.
    + destruct (is_off_t m T) as (On & _ & Wt). rewrite Wt, T in *.
      assert (Of : is_off m = true) by (unfold is_off, mtype_eqb; now rewrite T).
      destruct (k2_eqb k (mkey m)) eqn:K.
      * rewrite (term_off k _ _ cur m K Of).
        destruct s; try discriminate. injection KS as <-. specialize (IH cur H NN). cbn in IH.
        intros a Ha. pose proof (lt_le_mono t a cur Ha). lia.
      * rewrite (term_nokey k _ _ cur m K). injection KS as <-. specialize (IH cur H NN).
        destruct s; auto; try (intros a Ha; specialize (IH a Ha)); lia.
    + rewrite (is_wait_true _ T), T in *. specialize (Wm eq_refl).
      destruct s; try discriminate; try (injection KS as <-); auto.
      * intros a Ha. specialize (IH (cur + m_time m) H NN).
        destruct (0 <? m_time m) eqn:E; [apply Z.ltb_lt in E|]; apply IH; lia.
      * intros a Ha. specialize (IH (cur + m_time m) H NN). cbn in IH. apply IH. lia.
    + destruct (is_plain_t m T) as (Nt & Wt). destruct T as (T1 & T2 & T3). rewrite Wt.
      rewrite (term_nonnote k _ _ cur m Nt).
      assert (s1 = s) by (destruct (m_type m); congruence). subst s1. specialize (IH cur H NN).
      destruct s; auto; try (intros a Ha; specialize (IH a Ha)); lia.
Qed.

Lemma paired_rsdepth l : paired_pos l = true -> nonneg_waits l = true -> forall k t, 0 <= rsdepth k t 0 l.
Proof.
  intros P NN k t. exact (krun_rsdepth k t l KC 0 (proj1 (paired_pos_all l) P k) NN).
Qed.

(* ================================================================ S3: strict alternation (salt) gives C05's wf_key *)
Definition st_match (o : option Z) (st : C05_wf.kst) (l : list msg) : Prop :=
  match o with
  | Some t0 => st = KOpen t0
  | None => st = KNone \/ exists a b, st = KClosed a b /\ Forall (fun m => b <= m_time m) l
  end.

Lemma salt_wf_run k : forall l o st, tsorted l = true -> salt k o l = true -> st_match o st l ->
  exists st', C05_wf.krun true st (kproj k l) = Some st' /\ kst_closed st'.
Proof.
  induction l as [|m l IH]; intros o st TS H M.
  - cbn in H. destruct o; [discriminate|]. exists st. split; [reflexivity|].
    destruct M as [->|(a & b & -> & _)]; exact I.
  - change (tsorted (m :: l)) with (sorted_time (m :: l)) in TS. apply sorted_time_cons in TS.
    destruct TS as [Fm TS]. change (sorted_time l) with (tsorted l) in TS.
    rewrite kproj_cons_eq. cbn [salt] in H. change (is_key k m) with (k2_eqb k (qkey m)) in H.
    assert (Mtail : forall b : Z, Forall (fun y => b <= m_time y) (m :: l) -> Forall (fun y => b <= m_time y) l)
      by (intros b F; now inversion F).
    destruct (k2_eqb k (qkey m)) eqn:K; cbn [andb] in H.
    + destruct (is_on m) eqn:On.
      * assert (N : is_note m = true) by (unfold is_note; now rewrite On). rewrite N. cbn [andb C05_wf.krun].
        destruct o as [t0|]; [discriminate|].
        assert (KS : C05_wf.kstep true st m = Some (KOpen (m_time m))).
        { unfold C05_wf.kstep. rewrite On. destruct M as [->|(a & b & -> & F)]; [reflexivity|].
          inversion F as [|? ? Hb _]; subst. apply Z.leb_le in Hb. now rewrite Hb. }
        rewrite KS. apply (IH (Some (m_time m)) _ TS H). reflexivity.
      * destruct (is_off m) eqn:Of.
        -- assert (N : is_note m = true) by (unfold is_note; now rewrite Of, orb_true_r). rewrite N. cbn [andb C05_wf.krun].
           destruct o as [t0|]; [|discriminate]. apply andb_true_iff in H. destruct H as [Hlt H]. cbn in M. subst st.
           unfold C05_wf.kstep. rewrite On, Hlt.
           apply (IH None _ TS H). right. exists t0, (m_time m). split; [reflexivity|exact Fm].
        -- assert (N : is_note m = false) by (unfold is_note; now rewrite On, Of). rewrite N. cbn [andb].
           apply (IH o st TS H). destruct o; [exact M|]. destruct M as [->|(a & b & -> & F)]; [now left|right].
           exists a, b. split; [reflexivity|now apply Mtail].
    + rewrite andb_false_r. apply (IH o st TS H). destruct o; [exact M|].
      destruct M as [->|(a & b & -> & F)]; [now left|right]. exists a, b. split; [reflexivity|now apply Mtail].
Qed.

Lemma swf_wf_abs l : tsorted l = true -> swf l = true -> wf_abs l = true.
Proof.
  intros TS W. apply wf_abs_spec. split; [exact TS|]. intros k.
  destruct (salt_wf_run k l None KNone TS (swf_spec l W k) (or_introl eq_refl)) as (st' & R & C).
  unfold wf_key. rewrite R. destruct st'; cbn in C; auto; contradiction.
Qed.
