(* Getters.v -- read-only helpers of the sequence classes and util.py that are not needed by a property's theorems but
   are part of the public surface: is_empty, channel consistency, durations, get_message_times_of_type,
   get_key_signature_guess, digitise_velocity / velocity_from_bin.  Tied by the correspondence op "getters". *)
From Model Require Export Store.

Definition rel_is_empty (r : list msg) : bool := negb (existsb is_on r).

Definition abs_channel_consistent (a : list msg) : bool :=
  match a with [] => true | m :: _ => forallb (fun x => Z.eqb (m_chan x) (m_chan m)) a end.
(* get_sequence_channel: SequenceException when inconsistent, IndexError on an empty sequence *)
Definition abs_sequence_channel (a : list msg) : result Z :=
  if negb (abs_channel_consistent a) then Err SeqErr else
  match a with [] => Err IndexErr | m :: _ => Ok (m_chan m) end.

Definition abs_times_of_type (types : list mtype) (a : list msg) : list msg := filter (fun m => tmem (m_type m) types) a.

(* RelativeSequence.get_key_signature_guess *)
Fixpoint leading_key (r : list msg) : option (option Key) :=
  match r with
  | [] => None
  | m :: r' => if is_ks m then Some (m_key m) else if is_wait m then None else leading_key r'
  end.
Definition note_in (n : Note) (l : list Note) : bool := existsb (note_eqb n) l.
Definition key_misses (r : list msg) (kn : Key * (list Note * Z)) : Z :=
  lenZ (filter (fun m => is_on m && match note_of_value (m_note m mod 12) with
                                    | Some n => negb (note_in n (fst (snd kn))) | None => false end) r).
Fixpoint best_key (cands : list (Key * Z * Z)) (best : option (Key * Z * Z)) : option Key :=
  match cands with
  | [] => option_map (fun b => fst (fst b)) best
  | (k, c, acc) :: rest =>
      match best with
      | None => best_key rest (Some (k, c, acc))
      | Some (bk, bc, bacc) =>
          if c <=? bc then (if (c <? bc) || (acc <? bacc) then best_key rest (Some (k, c, acc)) else best_key rest best)
          else best_key rest best
      end
  end.
Definition key_signature_guess (r : list msg) : option Key :=
  match leading_key r with
  | Some k => k
  | None => best_key (map (fun kn => (fst kn, key_misses r kn, snd (snd kn))) KeyNoteMapping) None
  end.

(* util.velocity_from_bin / digitise_velocity with the default settings *)
Definition default_bin_size : Z := round_half_even VELOCITY_MAX VELOCITY_BINS.
Definition velocity_from_bin (i : Z) : Z := Z.min VELOCITY_MAX ((i + 1) * default_bin_size).
(* get_velocity_bins() keeps float values: doubled to stay in Z for the comparison bins < v *)
Definition default_bins2 : list Z :=
  map (fun i => Z.min (2 * VELOCITY_MAX) (2 * ((i + 1) * default_bin_size) + default_bin_size)) (rangeZ_aux (Z.to_nat VELOCITY_BINS) 0).
Definition digitise_velocity (v : Z) : Z :=
  if Z.eqb v 0 then 0 else velocity_from_bin (lenZ (filter (fun b => b <? 2 * v) default_bins2)).
