(* C13 -- Loading rescales file ticks exactly and routes every event to the right sequence.
   Lemmas and proofs; the property theorems are re-exported in Props/C13.v. *)
From Coq Require Import ZArith List Bool Lia Permutation Sorted.
From Model Require Import Base Seq Pairing Util Bars Store Midi Show ShowX.
Open Scope Z_scope.

Lemma Forall2_imp {A B} (P Q : A -> B -> Prop) (l : list A) (l' : list B) :
  (forall a b, P a b -> Q a b) -> Forall2 P l l' -> Forall2 Q l l'.
Proof. intros H F. induction F; constructor; auto. Qed.

(* ================================================================ rounding *)
Lemma C13_round_half_even : forall a b, 0 < b -> 2 * Z.abs (round_half_even a b * b - a) <= b.
Proof.
  intros a b Hb. unfold round_half_even.
  pose proof (Z.div_mod a b ltac:(lia)) as Hdm.
  pose proof (Z.mod_pos_bound a b Hb) as Hr.
  set (q := a / b) in *. set (r := a mod b) in *.
  destruct (2 * r <? b) eqn:E1; [apply Z.ltb_lt in E1 | apply Z.ltb_ge in E1].
  - replace (q * b - a) with (- r) by lia. lia.
  - destruct (b <? 2 * r) eqn:E2; [apply Z.ltb_lt in E2 | apply Z.ltb_ge in E2].
    + replace ((q + 1) * b - a) with (b - r) by lia. lia.
    + destruct (Z.even q).
      * replace (q * b - a) with (- r) by lia. lia.
      * replace ((q + 1) * b - a) with (b - r) by lia. lia.
Qed.

(* ================================================================ one track: conv_track *)
(* channel given to the produced message: meta events (no channel, -1) get 0 *)
Definition ev_ch (e : mev) : Z := if Z.eqb (e_chan e) (-1) then 0 else e_chan e.

(* cumulative file tick of the k-th event of a track that starts at tick cum0 *)
Definition cum_tick (evs : list mev) (cum0 : Z) (k : nat) : Z := cum0 + sumZ (map e_dt (firstn (S k) evs)).

(* every key string of the track's key-signature events is known *)
Definition keys_ok (evs : list mev) : bool :=
  forallb (fun e => match e_kind e with MKs => dict_mem String.eqb (e_key e) KeyKeyMapping | _ => true end) evs.

(* the (at most one) message the event e yields when it is placed at library tick t *)
Definition ev_out (grouped : bool) (e : mev) (t : Z) : list (target * msg) :=
  match e_kind e with
  | MOn => if grouped then [(TOwn, if 0 <? e_b e then mk_on (ev_ch e) (e_a e) (e_b e) t false
                                    else mk_off (ev_ch e) (e_a e) t false)] else []
  | MOff => if grouped then [(TOwn, mk_off (ev_ch e) (e_a e) t false)] else []
  | MTs => [(TMeta, mk_ts (ev_ch e) (e_a e) (e_b e) t false)]
  | MKs => match dict_get String.eqb (e_key e) KeyKeyMapping with
           | Some k => [(TMeta, mk_ks (ev_ch e) (Some k) t false)] | None => [] end
  | MCc => [(TMeta, mk_cc (ev_ch e) (e_a e) (e_b e) t false)]
  | MPc => [(TOwn, mk_pc (ev_ch e) (e_a e) t false)]
  | MOther => []
  end.

Section Track.
  Variable rnd : Z -> Z -> Z.
  Variable tpb : Z.

  Fixpoint track_out (evs : list mev) (cum : Z) (grouped : bool) : list (target * msg) :=
    match evs with
    | [] => []
    | e :: evs' => ev_out grouped e (rnd ((cum + e_dt e) * PPQN) tpb) ++ track_out evs' (cum + e_dt e) grouped
    end.

  Lemma conv_track_char : forall evs cum g,
    conv_track rnd tpb evs cum g = if keys_ok evs then Ok (track_out evs cum g) else Err KeyErr.
  Proof.
    induction evs as [|e evs IH]; intros cum g; [reflexivity|].
    cbn [conv_track keys_ok forallb track_out]. fold (keys_ok evs). rewrite IH.
    unfold ev_out, ev_ch, dict_mem.
    destruct (keys_ok evs); cbn [rbind].
    - destruct (e_kind e); cbn [andb app]; try reflexivity.
      + destruct g, (0 <? e_b e); reflexivity.
      + destruct g; reflexivity.
      + destruct (dict_get String.eqb (e_key e) KeyKeyMapping); reflexivity.
    - rewrite andb_false_r. reflexivity.
  Qed.

  Lemma conv_track_ok : forall evs cum g ms,
    conv_track rnd tpb evs cum g = Ok ms -> keys_ok evs = true /\ ms = track_out evs cum g.
  Proof.
    intros evs cum g ms H. rewrite conv_track_char in H. destruct (keys_ok evs); [|discriminate].
    inversion H. auto.
  Qed.

  Lemma conv_track_err : forall evs cum g e, conv_track rnd tpb evs cum g = Err e -> e = KeyErr /\ keys_ok evs = false.
  Proof.
    intros evs cum g e H. rewrite conv_track_char in H. destruct (keys_ok evs); [discriminate|].
    inversion H. auto.
  Qed.

  Lemma cum_tick_0 : forall e evs cum, cum_tick (e :: evs) cum 0 = cum + e_dt e.
  Proof. intros. unfold cum_tick. cbn. lia. Qed.
  Lemma cum_tick_S : forall e evs cum k, cum_tick (e :: evs) cum (S k) = cum_tick evs (cum + e_dt e) k.
  Proof. intros. unfold cum_tick. cbn [firstn map sumZ]. lia. Qed.

  (* every produced message comes from one event; sources are strictly increasing (order kept, one message per
     event at most) *)
  Lemma track_out_index : forall evs cum g,
    exists ks : list nat, StronglySorted lt ks /\
      Forall2 (fun k tm => exists e, nth_error evs k = Some e /\
                                     In tm (ev_out g e (rnd (cum_tick evs cum k * PPQN) tpb))) ks (track_out evs cum g).
  Proof.
    induction evs as [|e evs IH]; intros cum g.
    - exists []. split; constructor.
    - destruct (IH (cum + e_dt e) g) as (ks & Hs & Hf).
      assert (Hs' : StronglySorted lt (map S ks)).
      { clear Hf. induction Hs as [|k ks Hs IHs Hk]; cbn; constructor; auto.
        rewrite Forall_map. eapply Forall_impl; [|exact Hk]. cbn. intros. lia. }
      assert (Hf' : Forall2 (fun k tm => exists e0, nth_error (e :: evs) k = Some e0 /\
                      In tm (ev_out g e0 (rnd (cum_tick (e :: evs) cum k * PPQN) tpb)))
                    (map S ks) (track_out evs (cum + e_dt e) g)).
      { clear Hs Hs'. induction Hf as [|k tm ks ms (e0 & H1 & H2) Hf IHf]; cbn [map]; constructor; auto.
        exists e0. rewrite cum_tick_S. auto. }
      cbn [track_out].
      assert (Hlen : (length (ev_out g e (rnd ((cum + e_dt e) * PPQN) tpb)) <= 1)%nat).
      { unfold ev_out. destruct (e_kind e), g;
          try (destruct (dict_get String.eqb (e_key e) KeyKeyMapping)); cbn [length]; lia. }
      destruct (ev_out g e (rnd ((cum + e_dt e) * PPQN) tpb)) as [|tm [|? ?]] eqn:Eo; cbn in Hlen; try lia.
      + exists (map S ks). auto.
      + exists (O :: map S ks). split.
        * constructor; auto. rewrite Forall_map. apply Forall_forall. intros. lia.
        * cbn [app]. constructor; auto. exists e. split; [reflexivity|]. rewrite cum_tick_0, Eo. left. reflexivity.
  Qed.

  (* conversely every event's output is in the track's output *)
  Lemma track_out_complete : forall evs cum g k e,
    nth_error evs k = Some e -> incl (ev_out g e (rnd (cum_tick evs cum k * PPQN) tpb)) (track_out evs cum g).
  Proof.
    induction evs as [|e0 evs IH]; intros cum g k e Hk; [destruct k; discriminate|].
    cbn [track_out]. destruct k as [|k].
    - inversion Hk; subst. rewrite cum_tick_0. apply incl_appl, incl_refl.
    - rewrite cum_tick_S. apply incl_appr. apply IH. exact Hk.
  Qed.

  Lemma ev_out_time : forall g e t tm, In tm (ev_out g e t) -> m_time (snd tm) = t.
  Proof.
    intros g e t tm H. unfold ev_out in H.
    destruct (e_kind e), g; try (destruct (dict_get String.eqb (e_key e) KeyKeyMapping));
      cbn [In] in H; try contradiction; destruct H as [H|H]; try contradiction; subst tm; cbn [snd];
      try (destruct (0 <? e_b e)); reflexivity.
  Qed.
End Track.

Section Position.
  Variable rnd : Z -> Z -> Z.
  Hypothesis Hrnd : forall a b, 0 < b -> 2 * Z.abs (rnd a b * b - a) <= b.
  Variable tpb : Z.

  Theorem C13_position : forall evs cum0 grouped ms,
    0 < tpb ->
    conv_track rnd tpb evs cum0 grouped = Ok ms ->
    exists ks : list nat,
      StronglySorted lt ks /\
      Forall2 (fun k tm => (k < length evs)%nat /\
                 let cum := cum0 + sumZ (map e_dt (firstn (S k) evs)) in
                 m_time (snd tm) = rnd (cum * PPQN) tpb /\
                 2 * Z.abs (m_time (snd tm) * tpb - cum * PPQN) <= tpb) ks ms.
  Proof.
    intros evs cum0 g ms Htpb H. apply conv_track_ok in H. destruct H as [_ ->].
    destruct (track_out_index rnd tpb evs cum0 g) as (ks & Hs & Hf).
    exists ks. split; [exact Hs|].
    eapply Forall2_imp; [|exact Hf]. cbn beta. intros k tm (e & H1 & H2).
    split. { apply nth_error_Some. congruence. }
    apply ev_out_time in H2. fold (cum_tick evs cum0 k). cbn zeta. rewrite H2. split; [reflexivity|].
    apply Hrnd. exact Htpb.
  Qed.
End Position.

(* ================================================================ list utilities *)
Lemma set_nth_ext {A} (f g : A -> A) : (forall x, f x = g x) -> forall n l, set_nth n f l = set_nth n g l.
Proof. intros H n l. revert n. induction l as [|x l IH]; intros [|n]; cbn; try reflexivity; congruence. Qed.

Lemma set_nth_comp {A} (f g : A -> A) : forall n l, set_nth n f (set_nth n g l) = set_nth n (fun x => f (g x)) l.
Proof. intros n l. revert n. induction l as [|x l IH]; intros [|n]; cbn; try reflexivity. rewrite IH. reflexivity. Qed.

Lemma set_nth_id {A} : forall n (l : list A), set_nth n (fun x => x) l = l.
Proof. intros n l. revert n. induction l as [|x l IH]; intros [|n]; cbn; try reflexivity. rewrite IH. reflexivity. Qed.

Lemma set_nth_length {A} (f : A -> A) : forall n l, length (set_nth n f l) = length l.
Proof. intros n l. revert n. induction l as [|x l IH]; intros [|n]; cbn; try reflexivity. rewrite IH. reflexivity. Qed.

Lemma nth_error_set_nth {A} (f : A -> A) : forall n l k,
  nth_error (set_nth n f l) k = if Nat.eqb k n then option_map f (nth_error l k) else nth_error l k.
Proof.
  intros n l. revert n. induction l as [|x l IH]; intros [|n] [|k]; cbn; try reflexivity.
  - destruct (Nat.eqb k n); reflexivity.
  - apply IH.
Qed.

(* the messages of a list inserted one after the other (binary insort) *)
Definition ins_all (ms : list msg) (l : list msg) : list msg := fold_left (fun a m => insort m a) ms l.

Lemma ins_all_app : forall a b l, ins_all (a ++ b) l = ins_all b (ins_all a l).
Proof. intros. unfold ins_all. apply fold_left_app. Qed.

Lemma insort_perm : forall x l, Permutation (insort x l) (x :: l).
Proof.
  intros x l. induction l as [|y l IH]; cbn; [reflexivity|].
  destruct (m_time x <? m_time y); [reflexivity|].
  rewrite IH. apply perm_swap.
Qed.

Lemma ins_all_perm : forall ms l, Permutation (ins_all ms l) (l ++ ms).
Proof.
  induction ms as [|m ms IH]; intros l; cbn.
  - rewrite app_nil_r. reflexivity.
  - unfold ins_all in *. rewrite IH. rewrite insort_perm. apply Permutation_middle.
Qed.

Lemma ins_all_in : forall ms l m, In m (ins_all ms l) <-> In m l \/ In m ms.
Proof.
  intros ms l m. split; intro H.
  - apply in_app_or. eapply Permutation_in; [apply ins_all_perm|exact H].
  - eapply Permutation_in; [symmetry; apply ins_all_perm|]. apply in_or_app. exact H.
Qed.

(* a cell of the loader state: sequence p of group g *)
Definition cell (ss : list (list (list msg))) (g p : nat) : option (list msg) :=
  match nth_error ss g with Some row => nth_error row p | None => None end.

Lemma cell_set : forall f g' p' ss g p,
  cell (set_nth g' (set_nth p' f) ss) g p
  = if Nat.eqb g g' && Nat.eqb p p' then option_map f (cell ss g p) else cell ss g p.
Proof.
  intros f g' p' ss g p. unfold cell. rewrite nth_error_set_nth.
  destruct (Nat.eqb g g'); cbn [andb]; [|reflexivity].
  destruct (nth_error ss g) as [row|]; cbn [option_map].
  - rewrite nth_error_set_nth. reflexivity.
  - destruct (Nat.eqb p p'); reflexivity.
Qed.

Lemma mapi_aux_in {A} : forall (l : list A) (i0 i : Z) (x : A),
  In (i, x) (mapi_aux (fun i t => (i, t)) i0 l) <-> exists n, i = i0 + Z.of_nat n /\ nth_error l n = Some x.
Proof.
  induction l as [|y l IH]; intros i0 i x; cbn [mapi_aux In].
  - split; [tauto|]. intros (n & _ & H). destruct n; discriminate.
  - rewrite IH. split.
    + intros [H|(n & H1 & H2)].
      * inversion H; subst. exists O. split; [lia|reflexivity].
      * exists (S n). split; [lia|exact H2].
    + intros ([|n] & H1 & H2).
      * left. cbn in H2. inversion H2; subst. f_equal. lia.
      * right. exists n. split; [lia|exact H2].
Qed.

Lemma mapi_in {A} : forall (l : list A) (i : Z) (x : A),
  In (i, x) (mapi (fun i t => (i, t)) l) <-> exists n, i = Z.of_nat n /\ nth_error l n = Some x.
Proof. intros. unfold mapi. rewrite mapi_aux_in. split; intros (n & H1 & H2); exists n; split; auto; lia. Qed.

Lemma find_pos_bound : forall i l k p, find_pos i l k = Some p -> (k <= p < k + length l)%nat.
Proof.
  induction l as [|x l IH]; intros k p H; cbn in H; [discriminate|].
  destruct (Z.eqb i x).
  - inversion H; subst. cbn. lia.
  - apply IH in H. cbn. lia.
Qed.

Lemma locate_bound : forall i groups g0 g p,
  locate i groups g0 = Some (g, p) ->
  exists grp, nth_error groups (g - g0) = Some grp /\ (g0 <= g)%nat /\ (p < length grp)%nat.
Proof.
  induction groups as [|grp groups IH]; intros g0 g p H; cbn in H; [discriminate|].
  destruct (find_pos i grp 0) as [q|] eqn:Eq.
  - inversion H; subst. apply find_pos_bound in Eq. exists grp. rewrite Nat.sub_diag. cbn. split; [reflexivity|lia].
  - apply IH in H. destruct H as (grp' & H1 & H2 & H3). exists grp'.
    replace (g - g0)%nat with (S (g - S g0)) by lia. cbn. split; [exact H1|lia].
Qed.

(* ================================================================ all tracks: conv_all *)
Definition is_own (tm : target * msg) : bool := match fst tm with TOwn => true | TMeta => false end.
Definition own_of (ms : list (target * msg)) : list msg := map snd (filter is_own ms).
Definition meta_of (ms : list (target * msg)) : list msg := map snd (filter (fun tm => negb (is_own tm)) ms).

(* track i is looked at by the loader: it is in some group or it is a meta track *)
Definition considered (groups : list (list Z)) (metas : list Z) (i : Z) : bool :=
  match locate i groups O, memZ i metas with None, false => false | _, _ => true end.

Section Routing.
  Variable rnd : Z -> Z -> Z.
  Variable tpb : Z.
  Variable groups : list (list Z).
  Variable metas : list Z.

  Lemma fold_add_to_some : forall ms st g p,
    fold_left (fun s tm => add_to s (Some (g, p)) tm) ms st
    = mkcs (set_nth g (set_nth p (ins_all (own_of ms))) (cs_seqs st)) (ins_all (meta_of ms) (cs_meta st)).
  Proof.
    induction ms as [|tm ms IH]; intros st g p.
    - cbn. destruct st as [ss mt]. cbn. f_equal.
      rewrite (set_nth_ext _ (fun x => x)); [symmetry; apply set_nth_id|].
      intros row. apply set_nth_id.
    - cbn [fold_left]. rewrite IH. destruct tm as [[|] m]; unfold add_to, own_of, meta_of;
        cbn [filter is_own fst snd negb map cs_seqs cs_meta]; f_equal.
      rewrite set_nth_comp. apply set_nth_ext. intros row. rewrite set_nth_comp. reflexivity.
  Qed.

  Lemma fold_add_to_none : forall ms st,
    fold_left (fun s tm => add_to s None tm) ms st = mkcs (cs_seqs st) (ins_all (map snd ms) (cs_meta st)).
  Proof.
    induction ms as [|tm ms IH]; intros st.
    - destruct st; reflexivity.
    - cbn [fold_left]. rewrite IH. unfold add_to. destruct (fst tm); reflexivity.
  Qed.

  (* effect of one considered track with known keys on the loader state *)
  Definition pstep (st : cstate) (it : Z * list mev) : cstate :=
    match locate (fst it) groups O with
    | Some (g, p) =>
        mkcs (set_nth g (set_nth p (ins_all (own_of (track_out rnd tpb (snd it) 0 true)))) (cs_seqs st))
             (ins_all (meta_of (track_out rnd tpb (snd it) 0 true)) (cs_meta st))
    | None => if memZ (fst it) metas
              then mkcs (cs_seqs st) (ins_all (map snd (track_out rnd tpb (snd it) 0 false)) (cs_meta st))
              else st
    end.

  Definition cstep (st : cstate) (it : Z * list mev) : result cstate :=
    let '(i, evs) := it in
    let loc := locate i groups O in
    match loc, memZ i metas with
    | None, false => Ok st
    | _, _ => do ms <- conv_track rnd tpb evs 0 (match loc with Some _ => true | None => false end);
              Ok (fold_left (fun s tm => add_to s loc tm) ms st)
    end.

  Definition all_keys_ok (its : list (Z * list mev)) : bool :=
    forallb (fun it => negb (considered groups metas (fst it)) || keys_ok (snd it)) its.

  Lemma cstep_char : forall st it,
    cstep st it = if negb (considered groups metas (fst it)) || keys_ok (snd it) then Ok (pstep st it) else Err KeyErr.
  Proof.
    intros st [i evs]. unfold cstep, pstep, considered. cbn [fst snd].
    destruct (locate i groups 0) as [[g p]|] eqn:El.
    - cbn [negb orb]. rewrite conv_track_char. destruct (keys_ok evs); cbn [rbind]; [|destruct (memZ i metas); reflexivity].
      rewrite fold_add_to_some. destruct (memZ i metas); reflexivity.
    - destruct (memZ i metas); cbn [negb orb]; [|reflexivity].
      rewrite conv_track_char. destruct (keys_ok evs); cbn [rbind]; [|reflexivity].
      rewrite fold_add_to_none. reflexivity.
  Qed.

  Lemma foldM_cstep : forall its st,
    foldM cstep its st = if all_keys_ok its then Ok (fold_left pstep its st) else Err KeyErr.
  Proof.
    induction its as [|it its IH]; intros st; [reflexivity|].
    cbn [foldM all_keys_ok forallb fold_left]. fold (all_keys_ok its). rewrite cstep_char.
    destruct (negb (considered groups metas (fst it)) || keys_ok (snd it)); cbn [rbind andb]; [apply IH|reflexivity].
  Qed.

  Definition init_state : cstate := mkcs (map (fun g : list Z => map (fun _ => @nil msg) g) groups) [].

  Lemma conv_all_char : forall tracks,
    conv_all rnd tpb tracks groups metas
    = let its := mapi (fun i t => (i, t)) tracks in
      if all_keys_ok its then Ok (fold_left pstep its init_state) else Err KeyErr.
  Proof. intros tracks. unfold conv_all. apply (foldM_cstep (mapi (fun i t => (i, t)) tracks) init_state). Qed.

  (* messages inserted into sequence p of group g / into the meta list, in insertion order *)
  Definition own1 (g p : nat) (it : Z * list mev) : list msg :=
    match locate (fst it) groups O with
    | Some (g', p') => if Nat.eqb g g' && Nat.eqb p p' then own_of (track_out rnd tpb (snd it) 0 true) else []
    | None => []
    end.
  Definition meta1 (it : Z * list mev) : list msg :=
    match locate (fst it) groups O with
    | Some _ => meta_of (track_out rnd tpb (snd it) 0 true)
    | None => if memZ (fst it) metas then map snd (track_out rnd tpb (snd it) 0 false) else []
    end.
  Definition own_msgs (its : list (Z * list mev)) (g p : nat) : list msg := flat_map (own1 g p) its.
  Definition meta_msgs (its : list (Z * list mev)) : list msg := flat_map meta1 its.

  Lemma option_map_id : forall (o : option (list msg)), option_map (ins_all []) o = o.
  Proof. intros [l|]; reflexivity. Qed.

  Lemma pstep_char : forall st it,
    cs_meta (pstep st it) = ins_all (meta1 it) (cs_meta st) /\
    (forall g p, cell (cs_seqs (pstep st it)) g p = option_map (ins_all (own1 g p it)) (cell (cs_seqs st) g p)) /\
    map (@length _) (cs_seqs (pstep st it)) = map (@length _) (cs_seqs st).
  Proof.
    intros st it. unfold pstep, meta1, own1.
    destruct (locate (fst it) groups 0) as [[g' p']|] eqn:El.
    - cbn [cs_meta cs_seqs]. split; [reflexivity|]. split.
      + intros g p. rewrite cell_set. destruct (Nat.eqb g g' && Nat.eqb p p'); [reflexivity|].
        rewrite option_map_id. reflexivity.
      + clear El. generalize (cs_seqs st). intros ss. revert g'.
        induction ss as [|row ss IHs]; intros [|g']; cbn; try reflexivity.
        * rewrite set_nth_length. reflexivity.
        * rewrite IHs. reflexivity.
    - destruct (memZ (fst it) metas); cbn [cs_meta cs_seqs].
      + split; [reflexivity|]. split; [|reflexivity]. intros g p. rewrite option_map_id. reflexivity.
      + split; [reflexivity|]. split; [|reflexivity]. intros g p. rewrite option_map_id. reflexivity.
  Qed.

  Lemma fold_pstep_char : forall its st,
    cs_meta (fold_left pstep its st) = ins_all (meta_msgs its) (cs_meta st) /\
    (forall g p, cell (cs_seqs (fold_left pstep its st)) g p
                 = option_map (ins_all (own_msgs its g p)) (cell (cs_seqs st) g p)) /\
    map (@length _) (cs_seqs (fold_left pstep its st)) = map (@length _) (cs_seqs st).
  Proof.
    induction its as [|it its IH]; intros st.
    - cbn. split; [reflexivity|]. split; [|reflexivity]. intros g p. rewrite option_map_id. reflexivity.
    - cbn [fold_left]. destruct (IH (pstep st it)) as (IH1 & IH2 & IH3).
      destruct (pstep_char st it) as (P1 & P2 & P3).
      rewrite IH1, IH3, P1, P3. unfold meta_msgs, own_msgs. cbn [flat_map].
      split; [rewrite ins_all_app; reflexivity|]. split; [|reflexivity].
      intros g p. rewrite IH2, P2. destruct (cell (cs_seqs st) g p); cbn [option_map]; [|reflexivity].
      rewrite ins_all_app. reflexivity.
  Qed.

  Lemma cell_init : forall g p grp, nth_error groups g = Some grp -> (p < length grp)%nat ->
    cell (cs_seqs init_state) g p = Some [].
  Proof.
    intros g p grp Hg Hp. unfold cell, init_state. cbn [cs_seqs].
    rewrite nth_error_map, Hg. cbn [option_map]. rewrite nth_error_map.
    destruct (nth_error grp p) eqn:E; [reflexivity|]. apply nth_error_None in E. lia.
  Qed.

  (* ---- the state after all tracks *)
  Theorem C13_routing_state : forall tracks st,
    conv_all rnd tpb tracks groups metas = Ok st ->
    let its := mapi (fun i t => (i, t)) tracks in
    cs_meta st = ins_all (meta_msgs its) [] /\
    map (@length _) (cs_seqs st) = map (@length _) groups /\
    forall g p grp, nth_error groups g = Some grp -> (p < length grp)%nat ->
                    cell (cs_seqs st) g p = Some (ins_all (own_msgs its g p) []).
  Proof.
    intros tracks st H its. rewrite conv_all_char in H. cbn zeta in H. fold its in H.
    destruct (all_keys_ok its); [|discriminate]. inversion H as [Hst]. clear H.
    destruct (fold_pstep_char its init_state) as (H1 & H2 & H3).
    split; [exact H1|]. split.
    - rewrite H3. unfold init_state. cbn [cs_seqs]. rewrite map_map. apply map_ext. intros. apply map_length.
    - intros g p grp Hg Hp. rewrite H2, (cell_init g p grp Hg Hp). reflexivity.
  Qed.
End Routing.

(* ================================================================ per-event statements on conv_track *)
Lemma Forall2_in_r {A B} (R : A -> B -> Prop) : forall l l' b, Forall2 R l l' -> In b l' -> exists a, In a l /\ R a b.
Proof.
  intros l l' b F. induction F as [|x y l l' Hxy F IH]; intros Hin; [contradiction|].
  destruct Hin as [->|Hin].
  - exists x. split; [left; reflexivity|exact Hxy].
  - destruct (IH Hin) as (a & H1 & H2). exists a. split; [right; exact H1|exact H2].
Qed.

Lemma keys_ok_nth : forall evs k e, keys_ok evs = true -> nth_error evs k = Some e -> e_kind e = MKs ->
  exists key, dict_get String.eqb (e_key e) KeyKeyMapping = Some key.
Proof.
  intros evs k e Hok Hk Hkind. unfold keys_ok in Hok. rewrite forallb_forall in Hok.
  specialize (Hok e (nth_error_In _ _ Hk)). rewrite Hkind in Hok. unfold dict_mem in Hok.
  destruct (dict_get String.eqb (e_key e) KeyKeyMapping) as [key|]; [exists key; reflexivity|discriminate].
Qed.

(* completeness: what the k-th event of a track yields *)
Theorem C13_event_message : forall rnd tpb evs cum0 g ms k e,
  conv_track rnd tpb evs cum0 g = Ok ms -> nth_error evs k = Some e ->
  let t := rnd ((cum0 + sumZ (map e_dt (firstn (S k) evs))) * PPQN) tpb in
  let ch := if Z.eqb (e_chan e) (-1) then 0 else e_chan e in
  match e_kind e with
  | MOn => g = true -> In (TOwn, if 0 <? e_b e then mk_on ch (e_a e) (e_b e) t false else mk_off ch (e_a e) t false) ms
  | MOff => g = true -> In (TOwn, mk_off ch (e_a e) t false) ms
  | MTs => In (TMeta, mk_ts ch (e_a e) (e_b e) t false) ms
  | MKs => exists key, dict_get String.eqb (e_key e) KeyKeyMapping = Some key /\
                       In (TMeta, mk_ks ch (Some key) t false) ms
  | MCc => In (TMeta, mk_cc ch (e_a e) (e_b e) t false) ms
  | MPc => In (TOwn, mk_pc ch (e_a e) t false) ms
  | MOther => True
  end.
Proof.
  intros rnd tpb evs cum0 g ms k e H Hk t ch. apply conv_track_ok in H. destruct H as [Hok ->].
  pose proof (track_out_complete rnd tpb evs cum0 g k e Hk) as Hc.
  fold (cum_tick evs cum0 k) in t. fold t in Hc. unfold ev_out in Hc. fold (ev_ch e) in ch. fold ch in Hc.
  destruct (e_kind e) eqn:Ek.
  - intros ->. apply Hc. left. reflexivity.
  - intros ->. apply Hc. left. reflexivity.
  - apply Hc. left. reflexivity.
  - destruct (keys_ok_nth evs k e Hok Hk Ek) as [key Hkey]. exists key. split; [exact Hkey|].
    rewrite Hkey in Hc. apply Hc. left. reflexivity.
  - apply Hc. left. reflexivity.
  - apply Hc. left. reflexivity.
  - exact I.
Qed.

(* soundness: where a produced message comes from *)
Theorem C13_message_source : forall rnd tpb evs cum0 g ms tg m,
  conv_track rnd tpb evs cum0 g = Ok ms -> In (tg, m) ms ->
  exists k e, nth_error evs k = Some e /\
    let t := rnd ((cum0 + sumZ (map e_dt (firstn (S k) evs))) * PPQN) tpb in
    let ch := if Z.eqb (e_chan e) (-1) then 0 else e_chan e in
    match m_type m with
    | NOTE_ON => g = true /\ tg = TOwn /\ e_kind e = MOn /\ 0 < e_b e /\ m = mk_on ch (e_a e) (e_b e) t false
    | NOTE_OFF => g = true /\ tg = TOwn /\ (e_kind e = MOff \/ (e_kind e = MOn /\ e_b e <= 0)) /\
                  m = mk_off ch (e_a e) t false
    | TIME_SIGNATURE => tg = TMeta /\ e_kind e = MTs /\ m = mk_ts ch (e_a e) (e_b e) t false
    | KEY_SIGNATURE => tg = TMeta /\ e_kind e = MKs /\
                       exists key, dict_get String.eqb (e_key e) KeyKeyMapping = Some key /\ m = mk_ks ch (Some key) t false
    | CONTROL_CHANGE => tg = TMeta /\ e_kind e = MCc /\ m = mk_cc ch (e_a e) (e_b e) t false
    | PROGRAM_CHANGE => tg = TOwn /\ e_kind e = MPc /\ m = mk_pc ch (e_a e) t false
    | _ => False
    end.
Proof.
  intros rnd tpb evs cum0 g ms tg m H Hin. apply conv_track_ok in H. destruct H as [Hok ->].
  destruct (track_out_index rnd tpb evs cum0 g) as (ks & _ & Hf).
  destruct (Forall2_in_r _ _ _ _ Hf Hin) as (k & _ & e & Hk & He).
  exists k, e. split; [exact Hk|]. fold (cum_tick evs cum0 k). fold (ev_ch e).
  set (t := rnd (cum_tick evs cum0 k * PPQN) tpb) in *. cbn zeta.
  unfold ev_out in He. destruct (e_kind e) eqn:Ek.
  - destruct g; [|contradiction]. destruct He as [He|[]]. inversion He; subst tg m.
    destruct (0 <? e_b e) eqn:Eb; [apply Z.ltb_lt in Eb | apply Z.ltb_ge in Eb]; cbn [m_type mk_on mk_off]; auto 10.
  - destruct g; [|contradiction]. destruct He as [He|[]]. inversion He; subst tg m. cbn [m_type mk_off]. auto 10.
  - destruct He as [He|[]]. inversion He; subst tg m. cbn [m_type mk_ts]. auto.
  - destruct (dict_get String.eqb (e_key e) KeyKeyMapping) as [key|] eqn:Ekey; [|contradiction].
    destruct He as [He|[]]. inversion He; subst tg m. cbn [m_type mk_ks]. split; [reflexivity|]. split; [reflexivity|].
    exists key. auto.
  - destruct He as [He|[]]. inversion He; subst tg m. cbn [m_type mk_cc]. auto.
  - destruct He as [He|[]]. inversion He; subst tg m. cbn [m_type mk_pc]. auto.
  - contradiction.
Qed.

(* ================================================================ routing, membership form *)
Lemma in_own_of : forall ms m, In m (own_of ms) <-> In (TOwn, m) ms.
Proof.
  intros ms m. unfold own_of. rewrite in_map_iff. split.
  - intros ([tg m'] & H1 & H2). cbn in H1. subst m'. apply filter_In in H2. destruct H2 as [H2 H3].
    unfold is_own in H3. cbn in H3. destruct tg; [exact H2|discriminate].
  - intros H. exists (TOwn, m). split; [reflexivity|]. apply filter_In. split; [exact H|reflexivity].
Qed.

Lemma in_meta_of : forall ms m, In m (meta_of ms) <-> In (TMeta, m) ms.
Proof.
  intros ms m. unfold meta_of. rewrite in_map_iff. split.
  - intros ([tg m'] & H1 & H2). cbn in H1. subst m'. apply filter_In in H2. destruct H2 as [H2 H3].
    unfold is_own in H3. cbn in H3. destruct tg; [discriminate|exact H2].
  - intros H. exists (TMeta, m). split; [reflexivity|]. apply filter_In. split; [exact H|reflexivity].
Qed.

Lemma conv_all_keys : forall rnd tpb tracks groups metas st n evs,
  conv_all rnd tpb tracks groups metas = Ok st -> nth_error tracks n = Some evs ->
  considered groups metas (Z.of_nat n) = true -> keys_ok evs = true.
Proof.
  intros rnd tpb tracks groups metas st n evs H Hn Hc. rewrite conv_all_char in H. cbn zeta in H.
  destruct (all_keys_ok groups metas (mapi (fun i t => (i, t)) tracks)) eqn:E; [|discriminate].
  unfold all_keys_ok in E. rewrite forallb_forall in E.
  assert (Hin : In (Z.of_nat n, evs) (mapi (fun i t => (i, t)) tracks)) by (apply mapi_in; eauto).
  specialize (E _ Hin). cbn [fst snd] in E. rewrite Hc in E. exact E.
Qed.

(* sequence p of group g holds exactly the messages routed to TOwn of the tracks located at (g, p) *)
Theorem C13_routing_seq : forall rnd tpb tracks groups metas st g p grp,
  conv_all rnd tpb tracks groups metas = Ok st ->
  nth_error groups g = Some grp -> (p < length grp)%nat ->
  exists l, cell (cs_seqs st) g p = Some l /\
    forall m, In m l <->
      exists n evs ms, nth_error tracks n = Some evs /\ locate (Z.of_nat n) groups O = Some (g, p) /\
                       conv_track rnd tpb evs 0 true = Ok ms /\ In (TOwn, m) ms.
Proof.
  intros rnd tpb tracks groups metas st g p grp H Hg Hp.
  destruct (C13_routing_state rnd tpb groups metas tracks st H) as (_ & _ & Hc).
  eexists. split; [apply (Hc g p grp Hg Hp)|]. intros m.
  rewrite ins_all_in. unfold own_msgs. rewrite in_flat_map. split.
  - intros [[]|([i evs] & Hin & Hm)]. apply mapi_in in Hin. destruct Hin as (n & -> & Hn).
    unfold own1 in Hm. cbn [fst snd] in Hm.
    destruct (locate (Z.of_nat n) groups 0) as [[g' p']|] eqn:El; [|contradiction].
    destruct (Nat.eqb g g') eqn:E1; [|contradiction]. destruct (Nat.eqb p p') eqn:E2; [|contradiction].
    apply Nat.eqb_eq in E1. apply Nat.eqb_eq in E2. subst g' p'. cbn [andb] in Hm.
    apply in_own_of in Hm. exists n, evs, (track_out rnd tpb evs 0 true). repeat split; auto.
    rewrite conv_track_char.
    rewrite (conv_all_keys rnd tpb tracks groups metas st n evs H Hn); [reflexivity|].
    unfold considered. rewrite El. reflexivity.
  - intros (n & evs & ms & Hn & El & Hms & Hm). right. exists (Z.of_nat n, evs). split; [apply mapi_in; eauto|].
    unfold own1. cbn [fst snd]. rewrite El, !Nat.eqb_refl. cbn [andb]. apply in_own_of.
    apply conv_track_ok in Hms. destruct Hms as [_ ->]. exact Hm.
Qed.

(* the meta list holds exactly the TMeta messages of the grouped tracks and all messages of the ungrouped meta
   tracks *)
Theorem C13_routing_meta : forall rnd tpb tracks groups metas st,
  conv_all rnd tpb tracks groups metas = Ok st ->
  forall m, In m (cs_meta st) <->
    exists n evs ms, nth_error tracks n = Some evs /\
      ((exists loc, locate (Z.of_nat n) groups O = Some loc /\
                    conv_track rnd tpb evs 0 true = Ok ms /\ In (TMeta, m) ms) \/
       (locate (Z.of_nat n) groups O = None /\ memZ (Z.of_nat n) metas = true /\
        conv_track rnd tpb evs 0 false = Ok ms /\ exists tg, In (tg, m) ms)).
Proof.
  intros rnd tpb tracks groups metas st H m.
  destruct (C13_routing_state rnd tpb groups metas tracks st H) as (Hm & _ & _).
  rewrite Hm, ins_all_in. unfold meta_msgs. rewrite in_flat_map. split.
  - intros [[]|([i evs] & Hin & Hx)]. apply mapi_in in Hin. destruct Hin as (n & -> & Hn).
    unfold meta1 in Hx. cbn [fst snd] in Hx.
    destruct (locate (Z.of_nat n) groups 0) as [loc|] eqn:El.
    + apply in_meta_of in Hx. exists n, evs, (track_out rnd tpb evs 0 true). split; [exact Hn|]. left.
      exists loc. split; [exact El|]. split; [|exact Hx]. rewrite conv_track_char.
      rewrite (conv_all_keys rnd tpb tracks groups metas st n evs H Hn); [reflexivity|].
      unfold considered. rewrite El. reflexivity.
    + destruct (memZ (Z.of_nat n) metas) eqn:Em; [|contradiction].
      apply in_map_iff in Hx. destruct Hx as ([tg m'] & Hx1 & Hx2). cbn in Hx1. subst m'.
      exists n, evs, (track_out rnd tpb evs 0 false). split; [exact Hn|]. right.
      split; [exact El|]. split; [exact Em|]. split; [|exists tg; exact Hx2]. rewrite conv_track_char.
      rewrite (conv_all_keys rnd tpb tracks groups metas st n evs H Hn); [reflexivity|].
      unfold considered. rewrite El, Em. reflexivity.
  - intros (n & evs & ms & Hn & [(loc & El & Hms & Hx)|(El & Em & Hms & tg & Hx)]); right;
      exists (Z.of_nat n, evs); (split; [apply mapi_in; eauto|]); unfold meta1; cbn [fst snd]; rewrite El.
    + apply in_meta_of. apply conv_track_ok in Hms. destruct Hms as [_ ->]. exact Hx.
    + rewrite Em. apply conv_track_ok in Hms. destruct Hms as [_ ->]. apply in_map_iff. exists (tg, m). auto.
Qed.

(* note messages never reach the meta list: a track outside every group contributes no notes at all *)
Theorem C13_routing_meta_no_notes : forall rnd tpb tracks groups metas st,
  conv_all rnd tpb tracks groups metas = Ok st -> forall m, In m (cs_meta st) -> is_note m = false.
Proof.
  intros rnd tpb tracks groups metas st H m Hin.
  apply (C13_routing_meta rnd tpb tracks groups metas st H) in Hin.
  destruct Hin as (n & evs & ms & Hn & [(loc & El & Hms & Hx)|(El & Em & Hms & tg & Hx)]).
  - destruct (C13_message_source _ _ _ _ _ _ _ _ Hms Hx) as (k & e & _ & Hs). cbn zeta in Hs.
    unfold is_note, is_on, is_off, mtype_eqb.
    destruct (m_type m); try reflexivity; destruct Hs as (? & Hs & _); discriminate.
  - destruct (C13_message_source _ _ _ _ _ _ _ _ Hms Hx) as (k & e & _ & Hs). cbn zeta in Hs.
    unfold is_note, is_on, is_off, mtype_eqb.
    destruct (m_type m); try reflexivity; destruct Hs as (Hs & _); discriminate.
Qed.

(* ================================================================ convert: shape and error cases *)
Definition usable (s : seq) : bool := negb (s_abs_stale s && s_rel_stale s).

Lemma get_abs_ok : forall s, usable s = true ->
  exists s' a, get_abs s = Ok (s', a) /\ s_abs_stale s' = false /\ s_abs s' = a.
Proof.
  intros [a r sa sr] H. unfold usable in H. cbn in H. unfold get_abs. cbn.
  destruct sa; [destruct sr; [discriminate|]|]; eexists; eexists; split; reflexivity || (split; reflexivity).
Qed.

Lemma get_rel_ok : forall s, usable s = true -> exists s' r, get_rel s = Ok (s', r).
Proof.
  intros [a r sa sr] H. unfold usable in H. cbn in H. unfold get_rel. cbn.
  destruct sr; [destruct sa; [discriminate|]|]; eexists; eexists; reflexivity.
Qed.

Lemma seq_normalise_ok : forall s, usable s = true ->
  exists s', seq_normalise s = Ok s' /\ s_abs_stale s' = true /\ s_rel_stale s' = false.
Proof.
  intros s H. unfold seq_normalise, upd_rel. destruct (get_rel_ok s H) as (s' & r & ->). cbn [rbind].
  eexists. split; [reflexivity|]. split; reflexivity.
Qed.

Lemma refresh_abs_all_ok : forall l, forallb usable l = true -> exists r, refresh_abs_all l = Ok r.
Proof.
  induction l as [|s l IH]; intros H; [eexists; reflexivity|].
  cbn in H. apply andb_true_iff in H. destruct H as [H1 H2].
  cbn [refresh_abs_all]. destruct (get_abs_ok s H1) as (s' & a & -> & _). cbn [rbind].
  destruct (IH H2) as ([r as_] & ->). cbn [rbind]. eexists. reflexivity.
Qed.

Lemma seq_merge_ok : forall s others, usable s = true -> forallb usable others = true ->
  exists s' os, seq_merge s others = Ok (s', os) /\ s_abs_stale s' = true /\ s_rel_stale s' = false.
Proof.
  intros s others H1 H2. unfold seq_merge.
  destruct (get_abs_ok s H1) as (s1 & a & -> & _). cbn [rbind].
  destruct (refresh_abs_all_ok others H2) as ([os as_] & ->). cbn [rbind].
  destruct (seq_normalise_ok (mkseq (merge_abs a as_) (s_rel s1) false true) eq_refl) as (s2 & -> & Ha & Hr).
  cbn [rbind]. eexists. eexists. split; [reflexivity|]. split; assumption.
Qed.

Lemma mapM_length {A B} (f : A -> result B) : forall l ys, mapM f l = Ok ys -> length ys = length l.
Proof.
  induction l as [|x l IH]; intros ys H; cbn in H.
  - inversion H. reflexivity.
  - destruct (f x); cbn in H; [|discriminate]. destruct (mapM f l); cbn in H; [|discriminate].
    inversion H. cbn. f_equal. apply IH. reflexivity.
Qed.

Lemma mapM_ok {A B} (f : A -> result B) (P : B -> bool) : forall l,
  (forall x, In x l -> exists y, f x = Ok y /\ P y = true) ->
  exists ys, mapM f l = Ok ys /\ forallb P ys = true.
Proof.
  induction l as [|x l IH]; intros H; [exists []; split; reflexivity|].
  destruct (H x (or_introl eq_refl)) as (y & Hy & Py).
  destruct IH as (ys & Hys & Pys). { intros x' Hx'. apply H. right. exact Hx'. }
  exists (y :: ys). cbn [mapM]. rewrite Hy, Hys. cbn. rewrite Py, Pys. split; reflexivity.
Qed.

Lemma mapM_err {A B} (f : A -> result B) (e : err) : forall l,
  (forall x, In x l -> (exists y, f x = Ok y) \/ f x = Err e) ->
  (exists x, In x l /\ f x = Err e) -> mapM f l = Err e.
Proof.
  induction l as [|x l IH]; intros H (x0 & Hin & Hx0); [contradiction|].
  cbn [mapM]. destruct (H x (or_introl eq_refl)) as [(y & Hy)|Hy]; rewrite Hy; cbn [rbind]; [|reflexivity].
  destruct Hin as [->|Hin]; [congruence|].
  rewrite IH; [reflexivity| |exists x0; auto]. intros x' Hx'. apply H. right. exact Hx'.
Qed.

Lemma merge_group_cases : forall g,
  match g with
  | [] => merge_group g = Err IndexErr
  | _ => exists s, merge_group g = Ok s /\ usable s = true
  end.
Proof.
  intros g. unfold merge_group.
  destruct (mapM_ok (fun a => seq_normalise (seq_of_abs a)) usable g) as (ss & Hss & Pss).
  { intros a _. destruct (seq_normalise_ok (seq_of_abs a) eq_refl) as (s' & H1 & H2 & H3).
    exists s'. split; [exact H1|]. unfold usable. rewrite H2, H3. reflexivity. }
  rewrite Hss. cbn [rbind]. pose proof (mapM_length _ _ _ Hss) as Hlen.
  destruct g as [|a g]; destruct ss as [|s ss]; try discriminate; [reflexivity|].
  cbn in Pss. apply andb_true_iff in Pss. destruct Pss as [P1 P2].
  destruct (seq_merge_ok s ss P1 P2) as (s' & os & -> & Ha & Hr). cbn [rbind].
  exists s'. split; [reflexivity|]. unfold usable. rewrite Ha, Hr. reflexivity.
Qed.

Definition is_nil {A} (l : list A) : bool := match l with [] => true | _ => false end.

Lemma mapM_merge_group : forall rows,
  if existsb is_nil rows then mapM merge_group rows = Err IndexErr
  else exists merged, mapM merge_group rows = Ok merged /\ forallb usable merged = true.
Proof.
  intros rows. destruct (existsb is_nil rows) eqn:E.
  - apply mapM_err.
    + intros g _. pose proof (merge_group_cases g) as H. destruct g; [right; exact H|].
      destruct H as (s & H & _). left. exists s. exact H.
    + apply existsb_exists in E. destruct E as (g & Hin & Hg). exists g. split; [exact Hin|].
      destruct g; [|discriminate]. apply (merge_group_cases []).
  - apply mapM_ok. intros g Hin. pose proof (merge_group_cases g) as H. destruct g; [|exact H].
    assert (existsb is_nil rows = true) by (apply existsb_exists; exists []; auto). congruence.
Qed.

Lemma existsb_is_nil_lengths {A B} : forall (l : list (list A)) (l' : list (list B)),
  map (@length _) l = map (@length _) l' -> existsb is_nil l = existsb is_nil l'.
Proof.
  induction l as [|x l IH]; intros [|y l'] H; cbn in H; try discriminate; [reflexivity|].
  inversion H as [[H1 H2]]. cbn. rewrite (IH l' H2). destruct x, y; cbn in H1; try discriminate; reflexivity.
Qed.

Definition ts0 (m : msg) : bool := is_ts m && Z.eqb (m_time m) 0.

Section Convert.
  Variable rnd : Z -> Z -> Z.
  Variable tpb : Z.

  (* the part of convert after the per-group merge *)
  Definition finish (tracks : list (list mev)) (groups : list (list Z)) (metas : list Z) (meta_index : Z)
             (st : cstate) (merged : list seq) : result (list seq) :=
    if (meta_index <? 0) || (lenZ merged <=? meta_index) then Err ValueErr else
    match nth_error merged (Z.to_nat meta_index) with
    | None => Err ValueErr
    | Some mt =>
        do '(mt1, _) <- seq_merge mt [seq_of_abs (cs_meta st)];
        do '(mt2, a) <- get_abs mt1;
        do mt3 <- (if existsb (fun m => is_ts m && Z.eqb (m_time m) 0) a then Ok mt2
                   else seq_add_abs mt2 (mk_ts (default_channel tracks groups metas) 4 4 0 false));
        Ok (set_nth (Z.to_nat meta_index) (fun _ => mt3) merged)
    end.

  Lemma convert_unfold : forall tracks groups metas mi,
    convert rnd tpb tracks groups metas mi =
    do st <- conv_all rnd tpb tracks groups metas;
    do merged <- mapM merge_group (cs_seqs st);
    finish tracks groups metas mi st merged.
  Proof. reflexivity. Qed.

  Lemma finish_cases : forall tracks groups metas mi st merged,
    forallb usable merged = true ->
    if (mi <? 0) || (lenZ merged <=? mi) then finish tracks groups metas mi st merged = Err ValueErr
    else exists seqs s, finish tracks groups metas mi st merged = Ok seqs /\ length seqs = length merged /\
                        nth_error seqs (Z.to_nat mi) = Some s /\ s_abs_stale s = false /\
                        existsb ts0 (s_abs s) = true.
  Proof.
    intros tracks groups metas mi st merged Hu. unfold finish.
    destruct ((mi <? 0) || (lenZ merged <=? mi)) eqn:E; [reflexivity|].
    apply orb_false_iff in E. destruct E as [E1 E2]. apply Z.ltb_ge in E1. apply Z.leb_gt in E2. unfold lenZ in E2.
    destruct (nth_error merged (Z.to_nat mi)) as [mt|] eqn:En.
    2:{ apply nth_error_None in En. lia. }
    assert (Hmt : usable mt = true).
    { rewrite forallb_forall in Hu. apply Hu. eapply nth_error_In. exact En. }
    destruct (seq_merge_ok mt [seq_of_abs (cs_meta st)] Hmt eq_refl) as (mt1 & os & -> & Ha1 & Hr1). cbn [rbind].
    assert (Hu1 : usable mt1 = true) by (unfold usable; rewrite Ha1, Hr1; reflexivity).
    destruct (get_abs_ok mt1 Hu1) as (mt2 & a & -> & Ha2 & Hab2). cbn [rbind].
    fold ts0.
    destruct (existsb ts0 a) eqn:Ets; cbn [rbind].
    - eexists. exists mt2. split; [reflexivity|]. split; [apply set_nth_length|].
      split; [rewrite nth_error_set_nth, Nat.eqb_refl, En; reflexivity|]. split; [exact Ha2|].
      rewrite Hab2. exact Ets.
    - unfold seq_add_abs, upd_abs.
      assert (Hu2 : usable mt2 = true) by (unfold usable; rewrite Ha2; reflexivity).
      destruct (get_abs_ok mt2 Hu2) as (mt2' & a' & -> & _ & _). cbn [rbind].
      eexists. eexists. split; [reflexivity|]. split; [apply set_nth_length|].
      split; [rewrite nth_error_set_nth, Nat.eqb_refl, En; reflexivity|]. split; [reflexivity|].
      cbn [s_abs]. apply existsb_exists. eexists. split.
      + eapply Permutation_in; [symmetry; apply insort_perm|]. left. reflexivity.
      + reflexivity.
  Qed.

  Theorem C13_convert_shape : forall tracks groups metas mi seqs,
    convert rnd tpb tracks groups metas mi = Ok seqs -> length seqs = length groups.
  Proof.
    intros tracks groups metas mi seqs H. rewrite convert_unfold in H.
    destruct (conv_all rnd tpb tracks groups metas) as [st|] eqn:Ec; [|discriminate]. cbn [rbind] in H.
    destruct (C13_routing_state rnd tpb groups metas tracks st Ec) as (_ & Hlen & _).
    assert (Hl : length (cs_seqs st) = length groups).
    { rewrite <- (map_length (@length _) (cs_seqs st)), Hlen. apply map_length. }
    destruct (mapM merge_group (cs_seqs st)) as [merged|] eqn:Em; [|discriminate]. cbn [rbind] in H.
    apply mapM_length in Em. unfold finish in H.
    destruct ((mi <? 0) || (lenZ merged <=? mi)); [discriminate|].
    destruct (nth_error merged (Z.to_nat mi)); [|discriminate].
    destruct (seq_merge s [seq_of_abs (cs_meta st)]) as [[mt1 ?]|]; [|discriminate]. cbn [rbind] in H.
    destruct (get_abs mt1) as [[mt2 a]|]; [|discriminate]. cbn [rbind] in H.
    match type of H with rbind ?x _ = _ => destruct x as [mt3|] end; [|discriminate]. cbn [rbind] in H.
    inversion H. rewrite set_nth_length. congruence.
  Qed.

  (* complete case analysis of the outcome of convert *)
  Theorem C13_convert_cases : forall tracks groups metas mi,
    let keys := forallb (fun it : Z * list mev => negb (considered groups metas (fst it)) || keys_ok (snd it))
                        (mapi (fun i t => (i, t)) tracks) in
    let r := convert rnd tpb tracks groups metas mi in
    (keys = false /\ r = Err KeyErr) \/
    (keys = true /\ existsb is_nil groups = true /\ r = Err IndexErr) \/
    (keys = true /\ existsb is_nil groups = false /\ (mi < 0 \/ lenZ groups <= mi) /\ r = Err ValueErr) \/
    (keys = true /\ existsb is_nil groups = false /\ 0 <= mi < lenZ groups /\
     exists seqs s, r = Ok seqs /\ length seqs = length groups /\
                    nth_error seqs (Z.to_nat mi) = Some s /\ get_abs s = Ok (s, s_abs s) /\
                    existsb ts0 (s_abs s) = true).
  Proof.
    intros tracks groups metas mi keys r. subst r. rewrite convert_unfold.
    pose proof (conv_all_char rnd tpb groups metas tracks) as Hc. cbn zeta in Hc.
    unfold all_keys_ok in Hc. fold keys in Hc.
    destruct keys eqn:Ek.
    2:{ left. rewrite Hc. split; reflexivity. }
    right. remember (fold_left (pstep rnd tpb groups metas) (mapi (fun i t => (i, t)) tracks) (init_state groups)) as st.
    destruct (C13_routing_state rnd tpb groups metas tracks st Hc) as (_ & Hlen & _).
    rewrite Hc. cbn [rbind].
    pose proof (mapM_merge_group (cs_seqs st)) as Hm.
    rewrite (existsb_is_nil_lengths _ _ Hlen) in Hm.
    destruct (existsb is_nil groups) eqn:En.
    { left. rewrite Hm. repeat split; reflexivity. }
    right. destruct Hm as (merged & Hm & Hu). rewrite Hm. cbn [rbind].
    assert (Hl : length merged = length groups).
    { apply mapM_length in Hm. rewrite Hm, <- (map_length (@length _) (cs_seqs st)), Hlen. apply map_length. }
    pose proof (finish_cases tracks groups metas mi st merged Hu) as Hf.
    unfold lenZ in *. rewrite Hl in Hf.
    destruct ((mi <? 0) || (Z.of_nat (length groups) <=? mi)) eqn:E.
    - left. split; [reflexivity|]. split; [reflexivity|]. split; [|exact Hf].
      apply orb_true_iff in E. destruct E as [E|E]; [apply Z.ltb_lt in E; lia | apply Z.leb_le in E; lia].
    - right. split; [reflexivity|]. split; [reflexivity|].
      apply orb_false_iff in E. destruct E as [E1 E2]. apply Z.ltb_ge in E1. apply Z.leb_gt in E2.
      split; [lia|]. destruct Hf as (seqs & s & H1 & H2 & H3 & H4 & H5).
      exists seqs, s. split; [exact H1|]. split; [congruence|]. split; [exact H3|]. split; [|exact H5].
      unfold get_abs. rewrite H4. reflexivity.
  Qed.
End Convert.

Definition keys_all_ok (tracks : list (list mev)) (groups : list (list Z)) (metas : list Z) : bool :=
  forallb (fun it : Z * list mev => negb (considered groups metas (fst it)) || keys_ok (snd it))
          (mapi (fun i t => (i, t)) tracks).

Theorem C13_convert_keyerr : forall rnd tpb tracks groups metas mi,
  convert rnd tpb tracks groups metas mi = Err KeyErr <-> keys_all_ok tracks groups metas = false.
Proof.
  intros rnd tpb tracks groups metas mi. unfold keys_all_ok.
  destruct (C13_convert_cases rnd tpb tracks groups metas mi) as [(K & R)|[(K & _ & R)|[(K & _ & _ & R)|(K & _ & _ & s & ? & R & _)]]];
    cbn zeta in *; rewrite K, R; split; intros H; congruence.
Qed.

Theorem C13_convert_indexerr : forall rnd tpb tracks groups metas mi,
  keys_all_ok tracks groups metas = true ->
  (convert rnd tpb tracks groups metas mi = Err IndexErr <-> existsb is_nil groups = true).
Proof.
  intros rnd tpb tracks groups metas mi HK. unfold keys_all_ok in HK.
  destruct (C13_convert_cases rnd tpb tracks groups metas mi) as [(K & R)|[(K & N & R)|[(K & N & _ & R)|(K & N & _ & s & ? & R & _)]]];
    cbn zeta in *; try congruence; rewrite N, R; split; intros H; congruence.
Qed.

Theorem C13_convert_valueerr : forall rnd tpb tracks groups metas mi,
  keys_all_ok tracks groups metas = true -> existsb is_nil groups = false ->
  (convert rnd tpb tracks groups metas mi = Err ValueErr <-> mi < 0 \/ lenZ groups <= mi).
Proof.
  intros rnd tpb tracks groups metas mi HK HN. unfold keys_all_ok in HK.
  destruct (C13_convert_cases rnd tpb tracks groups metas mi) as [(K & R)|[(K & N & R)|[(K & N & I & R)|(K & N & I & s & ? & R & _)]]];
    cbn zeta in *; try congruence; rewrite R; split; intros H; try congruence; try lia; auto.
Qed.

Theorem C13_convert_ok : forall rnd tpb tracks groups metas mi,
  keys_all_ok tracks groups metas = true -> existsb is_nil groups = false -> 0 <= mi < lenZ groups ->
  exists seqs, convert rnd tpb tracks groups metas mi = Ok seqs.
Proof.
  intros rnd tpb tracks groups metas mi HK HN HI. unfold keys_all_ok in HK.
  destruct (C13_convert_cases rnd tpb tracks groups metas mi) as [(K & R)|[(K & N & R)|[(K & N & I & R)|(K & N & I & seqs & ? & R & _)]]];
    cbn zeta in *; try congruence; try lia. exists seqs. exact R.
Qed.

Theorem C13_meta_has_ts0 : forall rnd tpb tracks groups metas mi seqs,
  convert rnd tpb tracks groups metas mi = Ok seqs ->
  exists s, nth_error seqs (Z.to_nat mi) = Some s /\ get_abs s = Ok (s, s_abs s) /\
            existsb (fun m => is_ts m && Z.eqb (m_time m) 0) (s_abs s) = true.
Proof.
  intros rnd tpb tracks groups metas mi seqs H.
  destruct (C13_convert_cases rnd tpb tracks groups metas mi) as [(K & R)|[(K & N & R)|[(K & N & I & R)|(K & N & I & seqs' & s & R & _ & H1 & H2 & H3)]]];
    cbn zeta in *; try congruence.
  rewrite R in H. inversion H; subst seqs'. exists s. auto.
Qed.

(* ================================================================ non-vacuity examples and findings *)
Definition ex_tracks : list (list mev) :=
  [ [ev MOn 0 60 64 "" 12; ev MOn 0 60 0 "" 470; ev MTs (-1) 3 4 "" 7];
    [ev MKs (-1) 0 0 "Am" 100; ev MOn 3 61 5 "" 0; ev MOff 3 61 0 "" 100];
    [ev MOn 1 70 70 "" 1; ev MTs (-1) 6 8 "" 0; ev MOther (-1) 0 0 "" 5] ].

Example C13_ex_position : exists ms, conv_track round_half_even 480 (nth 0 ex_tracks []) 0 true = Ok ms /\ length ms = 3%nat.
Proof. eexists. split; vm_compute; reflexivity. Qed.

(* tracks 1 and 0 form group 0, track 1 is also asked for in group 1, track 2 is an ungrouped meta track *)
Example C13_ex_conv_all : exists st, conv_all round_half_even 480 ex_tracks [[1; 0]; [1]] [2] = Ok st /\
  cell (cs_seqs st) 0 0 = Some [mk_on 3 61 5 5 false; mk_off 3 61 10 false] /\
  cell (cs_seqs st) 0 1 = Some [mk_on 0 60 64 1 false; mk_off 0 60 24 false] /\
  cell (cs_seqs st) 1 0 = Some [] /\
  cs_meta st = [mk_ts 0 6 8 0 false; mk_ks 0 (Some K_C) 5 false; mk_ts 0 3 4 24 false].
Proof. eexists. repeat split; vm_compute; reflexivity. Qed.

Example C13_ex_convert : exists seqs, convert_exec 480 ex_tracks [[1; 0]; [1]] [2] 0 = Ok seqs /\ length seqs = 2%nat.
Proof. eexists. split; vm_compute; reflexivity. Qed.

Example C13_ex_keys : keys_all_ok ex_tracks [[1; 0]; [1]] [2] = true /\ existsb is_nil [[1; 0]; [1]] = false.
Proof. split; vm_compute; reflexivity. Qed.

Example C13_ex_errors :
  convert_exec 480 ex_tracks [[1; 0]; [1]] [2] 2 = Err ValueErr /\
  convert_exec 480 ex_tracks [[1; 0]; [1]] [2] (-1) = Err ValueErr /\
  convert_exec 480 ex_tracks [[1; 0]; []] [2] 0 = Err IndexErr /\
  convert_exec 480 [[ev MKs (-1) 0 0 "H" 0]] [[0]] [] 0 = Err KeyErr /\
  (* a key error in a track nobody looks at is not raised *)
  (exists seqs, convert_exec 480 [[ev MKs (-1) 0 0 "H" 0]; []] [[1]] [] 0 = Ok seqs).
Proof. repeat split; try (vm_compute; reflexivity). eexists. vm_compute. reflexivity. Qed.

(* finding (D16): a track listed in two groups reaches only the first one; the later group gets nothing from it *)
Example C13_track_in_two_groups : exists st,
  conv_all round_half_even 480 [[ev MOn 0 60 64 "" 0; ev MOff 0 60 0 "" 480]] [[0]; [0]] [] = Ok st /\
  cell (cs_seqs st) 0 0 = Some [mk_on 0 60 64 0 false; mk_off 0 60 24 false] /\
  cell (cs_seqs st) 1 0 = Some [].
Proof. eexists. repeat split; vm_compute; reflexivity. Qed.

(* ================================================================ end-to-end corollaries on events *)
Theorem C13_routing_multiset : forall rnd tpb tracks groups metas st,
  conv_all rnd tpb tracks groups metas = Ok st ->
  let its := mapi (fun i t => (i, t)) tracks in
  Permutation (cs_meta st) (meta_msgs rnd tpb groups metas its) /\
  forall g p grp, nth_error groups g = Some grp -> (p < length grp)%nat ->
    exists l, cell (cs_seqs st) g p = Some l /\ Permutation l (own_msgs rnd tpb groups its g p).
Proof.
  intros rnd tpb tracks groups metas st H its.
  destruct (C13_routing_state rnd tpb groups metas tracks st H) as (Hm & _ & Hc). fold its in Hm, Hc.
  split.
  - rewrite Hm. apply (ins_all_perm (meta_msgs rnd tpb groups metas its) []).
  - intros g p grp Hg Hp. eexists. split; [apply (Hc g p grp Hg Hp)|]. apply (ins_all_perm _ []).
Qed.

(* every time / key signature event of a considered track is on the meta list *)
Theorem C13_routing_signatures : forall rnd tpb tracks groups metas st n evs k e,
  conv_all rnd tpb tracks groups metas = Ok st ->
  nth_error tracks n = Some evs -> considered groups metas (Z.of_nat n) = true ->
  nth_error evs k = Some e ->
  let t := rnd (sumZ (map e_dt (firstn (S k) evs)) * PPQN) tpb in
  let ch := if Z.eqb (e_chan e) (-1) then 0 else e_chan e in
  (e_kind e = MTs -> In (mk_ts ch (e_a e) (e_b e) t false) (cs_meta st)) /\
  (e_kind e = MKs -> exists key, dict_get String.eqb (e_key e) KeyKeyMapping = Some key /\
                                 In (mk_ks ch (Some key) t false) (cs_meta st)).
Proof.
  intros rnd tpb tracks groups metas st n evs k e H Hn Hc Hk t ch.
  pose proof (conv_all_keys rnd tpb tracks groups metas st n evs H Hn Hc) as Hok.
  assert (Hconv : forall g, conv_track rnd tpb evs 0 g = Ok (track_out rnd tpb evs 0 g)).
  { intros g. rewrite conv_track_char, Hok. reflexivity. }
  assert (Hin : forall m, (forall g, In (TMeta, m) (track_out rnd tpb evs 0 g)) -> In m (cs_meta st)).
  { intros m Hm. apply (C13_routing_meta rnd tpb tracks groups metas st H).
    unfold considered in Hc. destruct (locate (Z.of_nat n) groups 0) as [loc|] eqn:El.
    - exists n, evs, (track_out rnd tpb evs 0 true). split; [exact Hn|]. left. exists loc. auto.
    - destruct (memZ (Z.of_nat n) metas) eqn:Em; [|discriminate].
      exists n, evs, (track_out rnd tpb evs 0 false). split; [exact Hn|]. right.
      split; [exact El|]. split; [exact Em|]. split; [apply Hconv|]. exists TMeta. apply Hm. }
  split; intros Ekind.
  - apply Hin. intros g. pose proof (C13_event_message rnd tpb evs 0 g _ k e (Hconv g) Hk) as Hev.
    cbn zeta in Hev. rewrite Ekind in Hev. exact Hev.
  - pose proof (C13_event_message rnd tpb evs 0 true _ k e (Hconv true) Hk) as Hev.
    cbn zeta in Hev. rewrite Ekind in Hev. destruct Hev as (key & Hkey & _). exists key. split; [exact Hkey|].
    apply Hin. intros g. pose proof (C13_event_message rnd tpb evs 0 g _ k e (Hconv g) Hk) as Hev.
    cbn zeta in Hev. rewrite Ekind in Hev. destruct Hev as (key' & Hkey' & Hev).
    assert (key' = key) by congruence. subst key'. exact Hev.
Qed.

(* every note event of a grouped track is in the sequence the track is located at; a note-on with velocity 0 (or
   less) is a note-off *)
Theorem C13_routing_notes : forall rnd tpb tracks groups metas st n evs g p k e,
  conv_all rnd tpb tracks groups metas = Ok st ->
  nth_error tracks n = Some evs -> locate (Z.of_nat n) groups O = Some (g, p) ->
  nth_error evs k = Some e ->
  let t := rnd (sumZ (map e_dt (firstn (S k) evs)) * PPQN) tpb in
  let ch := if Z.eqb (e_chan e) (-1) then 0 else e_chan e in
  exists l, cell (cs_seqs st) g p = Some l /\
    (e_kind e = MOn -> 0 < e_b e -> In (mk_on ch (e_a e) (e_b e) t false) l) /\
    (e_kind e = MOn -> e_b e <= 0 -> In (mk_off ch (e_a e) t false) l) /\
    (e_kind e = MOff -> In (mk_off ch (e_a e) t false) l).
Proof.
  intros rnd tpb tracks groups metas st n evs g p k e H Hn El Hk t ch.
  assert (Hc : considered groups metas (Z.of_nat n) = true) by (unfold considered; rewrite El; reflexivity).
  pose proof (conv_all_keys rnd tpb tracks groups metas st n evs H Hn Hc) as Hok.
  assert (Hconv : conv_track rnd tpb evs 0 true = Ok (track_out rnd tpb evs 0 true)).
  { rewrite conv_track_char, Hok. reflexivity. }
  pose proof (locate_bound _ _ _ _ _ El) as (grp & Hg & _ & Hp). rewrite Nat.sub_0_r in Hg.
  destruct (C13_routing_seq rnd tpb tracks groups metas st g p grp H Hg Hp) as (l & Hl & Hiff).
  exists l. split; [exact Hl|].
  pose proof (C13_event_message rnd tpb evs 0 true _ k e Hconv Hk) as Hev. cbn zeta in Hev.
  assert (Hin : forall m, In (TOwn, m) (track_out rnd tpb evs 0 true) -> In m l).
  { intros m Hm. apply Hiff. exists n, evs, (track_out rnd tpb evs 0 true). auto. }
  split; [|split]; intros Ekind; rewrite Ekind in Hev.
  - intros Hb. apply Hin. specialize (Hev eq_refl). apply Z.ltb_lt in Hb. rewrite Hb in Hev. exact Hev.
  - intros Hb. apply Hin. specialize (Hev eq_refl). apply Z.ltb_ge in Hb. rewrite Hb in Hev. exact Hev.
  - apply Hin. exact (Hev eq_refl).
Qed.

(* every note message of a loaded sequence comes from a note event of a track located exactly there *)
Theorem C13_routing_note_source : forall rnd tpb tracks groups metas st g p l m,
  conv_all rnd tpb tracks groups metas = Ok st ->
  cell (cs_seqs st) g p = Some l -> In m l -> is_note m = true ->
  exists n evs k e, nth_error tracks n = Some evs /\ locate (Z.of_nat n) groups O = Some (g, p) /\
    nth_error evs k = Some e /\ (e_kind e = MOn \/ e_kind e = MOff) /\
    m_note m = e_a e /\ m_time m = rnd (sumZ (map e_dt (firstn (S k) evs)) * PPQN) tpb /\
    (is_on m = true <-> e_kind e = MOn /\ 0 < e_b e).
Proof.
  intros rnd tpb tracks groups metas st g p l m H Hl Hin Hnote.
  destruct (C13_routing_state rnd tpb groups metas tracks st H) as (_ & Hlen & _).
  assert (Hgp : exists grp, nth_error groups g = Some grp /\ (p < length grp)%nat).
  { unfold cell in Hl. destruct (nth_error (cs_seqs st) g) as [row|] eqn:Er; [|discriminate].
    assert (Hrow : nth_error (map (@length _) (cs_seqs st)) g = Some (length row)) by (rewrite nth_error_map, Er; reflexivity).
    rewrite Hlen, nth_error_map in Hrow. destruct (nth_error groups g) as [grp|]; [|discriminate].
    exists grp. split; [reflexivity|]. cbn in Hrow. inversion Hrow as [Hr]. rewrite Hr.
    apply nth_error_Some. congruence. }
  destruct Hgp as (grp & Hg & Hp).
  destruct (C13_routing_seq rnd tpb tracks groups metas st g p grp H Hg Hp) as (l' & Hl' & Hiff).
  rewrite Hl in Hl'. inversion Hl'; subst l'. apply Hiff in Hin.
  destruct Hin as (n & evs & ms & Hn & El & Hms & Hm).
  destruct (C13_message_source _ _ _ _ _ _ _ _ Hms Hm) as (k & e & Hk & Hs). cbn zeta in Hs.
  exists n, evs, k, e. split; [exact Hn|]. split; [exact El|]. split; [exact Hk|].
  unfold is_note, is_on, is_off, mtype_eqb in *.
  destruct (m_type m) eqn:Et; cbn in Hnote; try discriminate.
  - destruct Hs as (_ & _ & Hkind & ->). cbn. split; [tauto|]. split; [reflexivity|]. split; [reflexivity|].
    split; [discriminate|]. intros [Hon Hb]. destruct Hkind as [Hkind|[_ Hkind]]; [congruence|lia].
  - destruct Hs as (_ & _ & Hkind & Hb & ->). cbn. split; [auto|]. split; [reflexivity|]. split; [reflexivity|].
    split; auto.
Qed.

(* ================================================================ what convert returns, in terms of the routed lists *)
Theorem C13_group_union_partial : forall rnd tpb tracks groups metas mi seqs,
  convert rnd tpb tracks groups metas mi = Ok seqs ->
  exists st merged,
    conv_all rnd tpb tracks groups metas = Ok st /\
    mapM merge_group (cs_seqs st) = Ok merged /\ length merged = length seqs /\
    (forall g, g <> Z.to_nat mi -> nth_error seqs g = nth_error merged g) /\
    exists mt mt1 os mt2 a,
      nth_error merged (Z.to_nat mi) = Some mt /\
      seq_merge mt [seq_of_abs (cs_meta st)] = Ok (mt1, os) /\ get_abs mt1 = Ok (mt2, a) /\
      ((existsb (fun m => is_ts m && Z.eqb (m_time m) 0) a = true /\ nth_error seqs (Z.to_nat mi) = Some mt2) \/
       (existsb (fun m => is_ts m && Z.eqb (m_time m) 0) a = false /\
        exists mt3, seq_add_abs mt2 (mk_ts (default_channel tracks groups metas) 4 4 0 false) = Ok mt3 /\
                    nth_error seqs (Z.to_nat mi) = Some mt3)).
Proof.
  intros rnd tpb tracks groups metas mi seqs H. rewrite convert_unfold in H.
  destruct (conv_all rnd tpb tracks groups metas) as [st|] eqn:Ec; [|discriminate]. cbn [rbind] in H.
  destruct (mapM merge_group (cs_seqs st)) as [merged|] eqn:Em; [|discriminate]. cbn [rbind] in H.
  exists st, merged. split; [reflexivity|]. split; [exact Em|]. unfold finish in H.
  destruct ((mi <? 0) || (lenZ merged <=? mi)); [discriminate|].
  destruct (nth_error merged (Z.to_nat mi)) as [mt|] eqn:En; [|discriminate].
  destruct (seq_merge mt [seq_of_abs (cs_meta st)]) as [[mt1 os]|] eqn:Es; [|discriminate]. cbn [rbind] in H.
  destruct (get_abs mt1) as [[mt2 a]|] eqn:Eg; [|discriminate]. cbn [rbind] in H.
  assert (Hnth : forall x, seqs = set_nth (Z.to_nat mi) (fun _ => x) merged ->
                 length merged = length seqs /\
                 (forall g, g <> Z.to_nat mi -> nth_error seqs g = nth_error merged g) /\
                 nth_error seqs (Z.to_nat mi) = Some x).
  { intros x ->. split; [symmetry; apply set_nth_length|]. split.
    - intros g Hg. rewrite nth_error_set_nth. apply Nat.eqb_neq in Hg. rewrite Hg. reflexivity.
    - rewrite nth_error_set_nth, Nat.eqb_refl, En. reflexivity. }
  destruct (existsb (fun m => is_ts m && Z.eqb (m_time m) 0) a) eqn:Ets; cbn [rbind] in H.
  - assert (Hs : seqs = set_nth (Z.to_nat mi) (fun _ => mt2) merged) by (inversion H; reflexivity).
    destruct (Hnth mt2 Hs) as (H1 & H2 & H3). split; [exact H1|]. split; [exact H2|].
    exists mt, mt1, os, mt2, a. split; [reflexivity|]. split; [exact Es|]. split; [exact Eg|]. left. auto.
  - destruct (seq_add_abs mt2 (mk_ts (default_channel tracks groups metas) 4 4 0 false)) as [mt3|] eqn:Ea;
      [|discriminate]. cbn [rbind] in H.
    assert (Hs : seqs = set_nth (Z.to_nat mi) (fun _ => mt3) merged) by (inversion H; reflexivity).
    destruct (Hnth mt3 Hs) as (H1 & H2 & H3). split; [exact H1|]. split; [exact H2|].
    exists mt, mt1, os, mt2, a. split; [reflexivity|]. split; [exact Es|]. split; [exact Eg|]. right.
    split; [exact Ets|]. exists mt3. auto.
Qed.

(* the hypothesis on rnd is satisfiable: the executable loader *)
Theorem C13_position_exec : forall tpb evs cum0 grouped ms,
  0 < tpb -> conv_track round_half_even tpb evs cum0 grouped = Ok ms ->
  exists ks : list nat,
    StronglySorted lt ks /\
    Forall2 (fun k tm => (k < length evs)%nat /\
               let cum := cum0 + sumZ (map e_dt (firstn (S k) evs)) in
               m_time (snd tm) = round_half_even (cum * PPQN) tpb /\
               2 * Z.abs (m_time (snd tm) * tpb - cum * PPQN) <= tpb) ks ms.
Proof. intros tpb. apply (C13_position round_half_even C13_round_half_even tpb). Qed.
