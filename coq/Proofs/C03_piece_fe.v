(* C03 (piece level), part B -- the front end `tok_frontend` on tracks that carry TIME_SIGNATURE messages on EVERY
   track and may repeat the signature in force (concatenations of Bar lists).  Same chain of stages as
   C01_frontend_pipe.v / C01_frontend.v, under the weaker track predicate `gtrack_ok`; normalise now drops the repeated
   signatures (C03_piece_norm.normalise_tsdrop). *)
From Coq Require Import ZArith List Bool Lia Permutation Sorted.
From Model Require Import Base Util Seq Pairing Tok.
From Proofs Require Import C05_closest C04_sort C04_proofs C07_proofs.
From Proofs Require Import C01_frontend_sig C01_frontend_pipe C01_frontend_pair C01_rest C01_proofs C01_frontend.
From Proofs Require Import C03_piece_norm.
Import ListNotations.
Open Scope Z_scope.

(* ================================================================ track well-formedness (group level) *)
(* WAIT / NOTE_ON / NOTE_OFF / TIME_SIGNATURE messages, on any track *)
Definition gmsg_ok (m : msg) : bool := is_wait m || is_note m || is_ts m.
(* non-negative waits; allowed message types; the signature of every pitch that occurs is well formed *)
Definition gtrack_ok (r : list msg) : bool :=
  wfr r && forallb gmsg_ok r && forallb (fun m => negb (is_note m) || sig_ok (psig (m_note m) 0 r)) r.

Lemma gtrack_ok_parts r : gtrack_ok r = true ->
  wfr r = true /\ (forall m, In m r -> gmsg_ok m = true) /\ (forall n, sig_ok (psig n 0 r) = true).
Proof.
  unfold gtrack_ok. intros H. apply andb_prop in H. destruct H as [H H3]. apply andb_prop in H. destruct H as [H1 H2].
  split; [exact H1|]. split; [now apply forallb_forall|].
  intros n. rewrite forallb_forall in H3.
  destruct (existsb (fun m => is_note m && (m_note m =? n)) r) eqn:E.
  - apply existsb_exists in E. destruct E as (m & Hm & E). apply andb_prop in E. destruct E as [E1 E2].
    apply Z.eqb_eq in E2. subst n. specialize (H3 m Hm). now rewrite E1 in H3.
  - rewrite psig_nil; [reflexivity|]. intros m Hm Hn Heq.
    assert (existsb (fun m => is_note m && (m_note m =? n)) r = true); [|congruence].
    apply existsb_exists. exists m. split; [exact Hm|]. rewrite Hn. now apply Z.eqb_eq.
Qed.

Lemma gpsig_sle n r : gtrack_ok r = true -> ForallOrdPairs sle (psig n 0 r).
Proof.
  intros H. destruct (gtrack_ok_parts r H) as (Hw & _ & Hs). apply sig_ok_sle; [apply Hs|]. now apply psig_times.
Qed.

Definition gtracks_ok (tracks : list (list msg)) : bool := forallb gtrack_ok tracks.

Lemma gtracks_In tracks r : gtracks_ok tracks = true -> In r tracks -> gtrack_ok r = true.
Proof. unfold gtracks_ok. rewrite forallb_forall. auto. Qed.

Lemma gpiece_sig_sle tracks k : forall j, gtracks_ok tracks = true -> ForallOrdPairs sle (piece_sig j tracks k).
Proof.
  induction tracks as [|r ts IH]; intros j H; cbn [piece_sig]; [constructor|].
  cbn [gtracks_ok forallb] in H. apply andb_prop in H. destruct H as [Hr Hts].
  destruct (fst k =? j); [now apply gpsig_sle|now apply IH].
Qed.

Lemma gpiece_sig_ok tracks k : forall j, gtracks_ok tracks = true -> sig_ok (piece_sig j tracks k) = true.
Proof.
  induction tracks as [|r ts IH]; intros j H; cbn [piece_sig]; [reflexivity|].
  cbn [gtracks_ok forallb] in H. apply andb_prop in H. destruct H as [Hr Hts].
  destruct (fst k =? j); [now apply (gtrack_ok_parts r Hr)|now apply IH].
Qed.

Lemma gasig_track j n r : gtrack_ok r = true -> asig (j, n) (to_abs (set_channel r j)) = psig n 0 r.
Proof.
  intros H. unfold ev_rel. rewrite asig_to_abs; unfold ev_rel; rewrite esig_set_channel; [reflexivity|].
  now apply gpsig_sle.
Qed.

Lemma gasig_tracks tracks k : forall j, gtracks_ok tracks = true ->
  asig k (concat (map to_abs (mapi_aux setch j tracks))) = piece_sig j tracks k.
Proof.
  induction tracks as [|r ts IH]; intros j H; [reflexivity|]. cbn [mapi_aux map concat piece_sig].
  cbn [gtracks_ok forallb] in H. apply andb_prop in H. destruct H as [Hr Hts].
  rewrite asig_app. destruct (Z.eqb_spec (fst k) j) as [E|E].
  - rewrite asig_tracks_above by lia. rewrite app_nil_r. destruct k as [c n]. cbn [fst snd] in *. subst c.
    now apply gasig_track.
  - rewrite IH by exact Hts. replace (asig k (to_abs (setch j r))) with (@nil sigent); [reflexivity|].
    symmetry. apply asig_other_chan with j; [|exact E]. apply to_abs_chan, set_channel_chan.
Qed.

(* `tsdrop` commutes with stripping the messages' own time field *)
Definition strip_ev (tm : Z * msg) : Z * msg := (fst tm, strip_time (snd tm)).
Lemma tsdrop_strip l : forall prev, tsdrop prev (map strip_ev l) = map strip_ev (tsdrop prev l).
Proof.
  induction l as [|tm l IH]; intros prev; [reflexivity|]. cbn [map tsdrop]. unfold strip_ev at 1 2 3. cbn [snd].
  change (is_ts (strip_time (snd tm))) with (is_ts (snd tm)).
  change (m_num (strip_time (snd tm))) with (m_num (snd tm)). change (m_den (strip_time (snd tm))) with (m_den (snd tm)).
  destruct (is_ts (snd tm)); [destruct (ts_eqb _ _)|]; cbn [map]; now rewrite IH.
Qed.

Lemma ev_rel_timed' r cur :
  ev_rel_from cur r = map strip_ev (filter (fun tm => negb (is_internal (snd tm))) (timed cur r)).
Proof. apply ev_rel_timed. Qed.

Section Group.
  Variable tracks : list (list msg).
  Hypothesis Hok : gtracks_ok tracks = true.

  Lemma gtrack_wfr r : In r tracks -> wfr r = true.
  Proof. intros H. now apply (gtrack_ok_parts r (gtracks_In tracks r Hok H)). Qed.

  Lemma gconcat_wfa : wfa (concat (map to_abs (chs tracks))) = true.
  Proof.
    unfold wfa. apply forallb_forall. intros x Hx. apply in_concat in Hx. destruct Hx as (l & Hl & Hx).
    apply in_map_iff in Hl. destruct Hl as (c & <- & Hc). apply mapi_aux_In in Hc. destruct Hc as (i & r & Hr & ->).
    apply nth_error_In in Hr.
    assert (Hw : wfa (to_abs (set_channel r (0 + Z.of_nat i))) = true)
      by (apply to_abs_wfa; rewrite wfr_set_channel; now apply gtrack_wfr).
    unfold wfa in Hw. rewrite forallb_forall in Hw. now apply Hw.
  Qed.

  Lemma gfe_abs_perm : Permutation (concat (map to_abs (chs tracks))) (fe_abs tracks).
  Proof. unfold fe_abs, merge_abs. cbn [app]. apply sort_abs_perm. Qed.
  Lemma gfe_abs_tsorted : tsorted (fe_abs tracks) = true.
  Proof. apply sort_abs_tsorted. Qed.
  Lemma gfe_abs_ksorted : ksorted (fe_abs tracks) = true.
  Proof. apply sort_abs_ksorted. Qed.
  Lemma gfe_abs_wfa : wfa (fe_abs tracks) = true.
  Proof. eapply wfa_perm; [apply gfe_abs_perm|apply gconcat_wfa]. Qed.

  Lemma gfe_abs_sig k : asig k (fe_abs tracks) = piece_sig 0 tracks k.
  Proof.
    unfold fe_abs, merge_abs. cbn [app]. rewrite asig_sort_abs; rewrite chs_eq, gasig_tracks by exact Hok.
    - reflexivity.
    - now apply gpiece_sig_sle.
  Qed.

  (* every message of the merged absolute list comes from a track: an INTERNAL cap of channel i at the duration of
     track i, or a stamped note / time-signature message of track i with channel i *)
  Lemma gfe_abs_In x : In x (fe_abs tracks) ->
    exists i r, nth_error tracks i = Some r /\ m_chan x = Z.of_nat i /\
      ((is_internal x = true /\ m_time x = dur_rel r) \/
       (exists m, In m r /\ (is_note m = true \/ is_ts m = true) /\ exists t f, x = set_time (set_chan m (Z.of_nat i)) t f)).
  Proof.
    intros Hx. eapply Permutation_in in Hx; [|symmetry; apply gfe_abs_perm].
    apply in_concat in Hx. destruct Hx as (l & Hl & Hx).
    apply in_map_iff in Hl. destruct Hl as (c & <- & Hc). apply mapi_aux_In in Hc. destruct Hc as (i & r & Hr & ->).
    rewrite Z.add_0_l in Hx. exists i, r. split; [exact Hr|].
    destruct (to_abs_In _ _ Hx) as [->|(m & t & f & Hm & Hw & ->)].
    - split.
      + cbn [mk_internal m_chan]. destruct r as [|m0 r0]; [destruct Hx|reflexivity].
      + left. split; [reflexivity|]. cbn [mk_internal m_time]. apply dur_rel_set_channel.
    - unfold set_channel in Hm. apply in_map_iff in Hm. destruct Hm as (m0 & <- & Hm0).
      split; [reflexivity|]. right. exists m0. split; [exact Hm0|].
      apply nth_error_In in Hr. destruct (gtrack_ok_parts r (gtracks_In tracks r Hok Hr)) as (_ & Ht & _).
      specialize (Ht m0 Hm0). unfold gmsg_ok in Ht.
      change (is_wait (set_chan m0 (Z.of_nat i))) with (is_wait m0) in Hw. rewrite Hw in Ht. cbn [orb] in Ht.
      split; [now apply orb_prop in Ht|]. now exists t, f.
  Qed.

  Lemma gfe_abs_types x : In x (fe_abs tracks) -> is_note x = true \/ is_internal x = true \/ is_ts x = true.
  Proof.
    intros Hx. destruct (gfe_abs_In x Hx) as (i & r & _ & _ & [[H _]|(m & _ & Hm & t & f & ->)]); [right; now left|].
    change (is_note (set_time (set_chan m (Z.of_nat i)) t f)) with (is_note m).
    change (is_ts (set_time (set_chan m (Z.of_nat i)) t f)) with (is_ts m). tauto.
  Qed.

  Lemma gfe_rel0_ev : ev_rel (fe_rel0 tracks) = ev_abs (fe_abs tracks).
  Proof. apply to_rel_events; [apply gfe_abs_tsorted|apply gfe_abs_wfa]. Qed.

  Lemma gfe_rel0_types x : In x (fe_rel0 tracks) -> is_wait x = true \/ is_note x = true \/ is_ts x = true.
  Proof.
    intros Hx. destruct (to_rel_aux_In _ _ _ _ Hx) as [H|(m & Hm & Hi & ->)]; [now left|]. right.
    destruct (gfe_abs_types m Hm) as [H|[H|H]]; [now left|congruence|now right].
  Qed.

  Lemma gfe_rel0_alt k : alt k false (fe_rel0 tracks) = true.
  Proof.
    rewrite (alt_esig k _ 0 false). fold (ev_rel (fe_rel0 tracks)). rewrite gfe_rel0_ev.
    fold (asig k (fe_abs tracks)). rewrite gfe_abs_sig. apply sig_ok_alt_bits. now apply gpiece_sig_ok.
  Qed.

  Lemma gtype_flags x : is_wait x = true \/ is_note x = true \/ is_ts x = true -> is_ks x = false.
  Proof.
    unfold is_wait, is_note, is_on, is_off, is_ts, is_ks, mtype_eqb. destruct (m_type x); cbn; intros [H|[H|H]];
      try discriminate; reflexivity.
  Qed.

  (* normalise keeps every message at its tick and drops the repeated signatures *)
  Lemma gfe_rel_timed : timed 0 (fe_rel tracks) = tsdrop (NONE, NONE) (timed 0 (fe_rel0 tracks)).
  Proof.
    apply normalise_tsdrop.
    - apply gfe_rel0_alt.
    - apply no_ks_ok. intros m Hm. now apply gtype_flags, gfe_rel0_types.
    - apply to_rel_wfr.
  Qed.

  Lemma gfe_rel_wfr : wfr (fe_rel tracks) = true.
  Proof. apply nonneg_normalise. Qed.

  Lemma gfe_rel_types x : In x (fe_rel tracks) -> is_wait x = true \/ is_note x = true \/ is_ts x = true.
  Proof.
    intros Hx. destruct (is_wait x) eqn:Ew; [now left|].
    destruct (In_timed _ 0 x Hx Ew) as [t Ht]. rewrite gfe_rel_timed in Ht. apply tsdrop_In in Ht.
    apply timed_In in Ht. destruct Ht as [Ht _]. destruct (gfe_rel0_types x Ht) as [H|H]; [congruence|now right].
  Qed.

  (* signatures of the keys: untouched by the dropping *)
  Lemma esig_timed k r cur :
    esig k (ev_rel_from cur r) = map (fun tm => sige (strip_ev tm)) (filter (fun tm => nkey k (snd tm)) (timed cur r)).
  Proof.
    rewrite ev_rel_timed'. unfold esig. rewrite filter_map_comm, map_map, filter_filter. f_equal.
    apply filter_ext_in'. intros tm _. unfold strip_ev. cbn [snd]. rewrite nkey_strip.
    destruct (nkey k (snd tm)) eqn:E; [|apply andb_false_r].
    now rewrite (note_not_internal _ (nkey_note k _ E)).
  Qed.

  Lemma gfe_rel_esig k : esig k (ev_rel (fe_rel tracks)) = piece_sig 0 tracks k.
  Proof.
    unfold ev_rel. rewrite esig_timed, gfe_rel_timed, tsdrop_filter.
    - rewrite <- esig_timed. fold (ev_rel (fe_rel0 tracks)). rewrite gfe_rel0_ev. apply gfe_abs_sig.
    - intros tm Ht. unfold nkey. now rewrite (ts_not_note _ Ht).
  Qed.

  Lemma gfe_sorted_sig k : asig k (fe_sorted tracks) = piece_sig 0 tracks k.
  Proof.
    assert (O : ForallOrdPairs sle (piece_sig 0 tracks k)) by now apply gpiece_sig_sle.
    unfold fe_sorted. rewrite asig_sort_abs; rewrite asig_to_abs; rewrite gfe_rel_esig; auto.
  Qed.

  (* the time signatures left after normalise: those of the merged list, repeats dropped *)
  Lemma tsig_timed r cur :
    tsig (ev_rel_from cur r) = map strip_ev (filter (fun tm => is_ts (snd tm)) (timed cur r)).
  Proof.
    rewrite ev_rel_timed'. unfold tsig. rewrite filter_map_comm, filter_filter. f_equal.
    apply filter_ext_in'. intros tm _. unfold strip_ev. cbn [snd]. change (is_ts (strip_time (snd tm))) with (is_ts (snd tm)).
    destruct (is_ts (snd tm)) eqn:E; [|apply andb_false_r]. now rewrite (ts_not_internal _ E).
  Qed.

  Lemma gfe_rel_tsig : tsig (ev_rel (fe_rel tracks)) = tsdrop (NONE, NONE) (ats (fe_abs tracks)).
  Proof.
    unfold ev_rel. rewrite tsig_timed, gfe_rel_timed, tsdrop_ts, <- tsdrop_strip, <- tsig_timed.
    fold (ev_rel (fe_rel0 tracks)). rewrite gfe_rel0_ev. reflexivity.
  Qed.

  Lemma gfe_sorted_tsorted : tsorted (fe_sorted tracks) = true.
  Proof. apply sort_abs_tsorted. Qed.
  Lemma gfe_sorted_wfa : wfa (fe_sorted tracks) = true.
  Proof. eapply wfa_perm; [apply sort_abs_perm|]. apply to_abs_wfa, gfe_rel_wfr. Qed.

  Lemma gmaxt_app a b : maxt (a ++ b) = Z.max (maxt a) (maxt b).
  Proof. induction a as [|x a IH]; cbn [app]; [pose proof (maxt_ge b); cbn; lia|]. rewrite !maxt_cons, IH. lia. Qed.

  Lemma gmaxt_tracks ts : (forall r, In r ts -> wfr r = true) -> forall j,
    maxt (concat (map to_abs (mapi_aux setch j ts))) = piece_dur ts.
  Proof.
    induction ts as [|r ts IH]; intros Hw j; [reflexivity|]. cbn [mapi_aux map concat].
    unfold piece_dur. cbn [map fold_right]. fold (piece_dur ts).
    rewrite gmaxt_app, IH by (intros x Hx; apply Hw; now right). f_equal.
    assert (Hr : wfr (setch j r) = true) by (unfold setch; rewrite wfr_set_channel; apply Hw; now left).
    rewrite <- dur_abs_maxt; [|apply to_abs_tsorted|apply wfa_Forall, to_abs_wfa, Hr].
    rewrite to_abs_dur by exact Hr. apply dur_rel_set_channel.
  Qed.

  Lemma gfe_rel_dur : dur_rel (fe_rel tracks) = piece_dur tracks.
  Proof.
    unfold fe_rel. rewrite C07_duration by apply to_rel_wfr.
    unfold fe_rel0. rewrite to_rel_dur; [|apply gfe_abs_tsorted|apply gfe_abs_wfa].
    rewrite dur_abs_maxt; [|apply gfe_abs_tsorted|apply wfa_Forall, gfe_abs_wfa].
    rewrite <- (maxt_perm _ _ gfe_abs_perm). rewrite chs_eq. apply gmaxt_tracks. exact gtrack_wfr.
  Qed.

  (* every message handed to the pairing step is a note, the cap at the end of the longest track, or a time signature *)
  Lemma gfe_sorted_types x : In x (fe_sorted tracks) ->
    is_note x = true \/ (is_internal x = true /\ m_time x = piece_dur tracks) \/ is_ts x = true.
  Proof.
    intros Hx. unfold fe_sorted in Hx. eapply Permutation_in in Hx; [|symmetry; apply sort_abs_perm].
    destruct (to_abs_In _ _ Hx) as [->|(m & t & f & Hm & Hw & ->)].
    - right. left. split; [reflexivity|]. cbn [mk_internal m_time]. apply gfe_rel_dur.
    - destruct (gfe_rel_types m Hm) as [H|[H|H]]; [congruence|now left|right; now right].
  Qed.

  (* the maximal time of the sorted list is the duration of the longest track *)
  Lemma gfe_sorted_maxt : maxt (fe_sorted tracks) = piece_dur tracks.
  Proof.
    rewrite <- gfe_rel_dur. rewrite <- (to_abs_dur _ gfe_rel_wfr).
    unfold fe_sorted. rewrite <- (maxt_perm _ _ (sort_abs_perm (to_abs (fe_rel tracks)))).
    symmetry. apply dur_abs_maxt; [apply to_abs_tsorted|apply wfa_Forall, to_abs_wfa, gfe_rel_wfr].
  Qed.
End Group.

(* ================================================================ the events *)
Definition tsv3 (E : list C04_proofs.event) : list (Z * Z * Z) := map (fun e => (fst e, m_num (snd e), m_den (snd e))) E.

Section GEvents.
  Variables (g : Z) (c : cfg) (tracks : list (list msg)) (TSL : list C04_proofs.event).
  Hypothesis Hok : gtracks_ok tracks = true.
  (* the time signatures that survive normalise: strictly increasing ticks, all on channel 0 *)
  Hypothesis Hts : tsdrop (NONE, NONE) (ats (fe_abs tracks)) = TSL.
  Hypothesis HtsS : ForallOrdPairs elt TSL.
  Hypothesis Hts0 : forall e, In e TSL -> m_chan (snd e) = 0.
  Hypothesis Hlen : lenZ tracks = c_ntracks c.
  Hypothesis Hnotes : forall r x, In r tracks -> In x (notes_of r) -> note_ok g c x = true.
  Hypothesis Hdur : divb g (piece_dur tracks) = true.

  Let S := fe_sorted tracks.
  Let P := pairings_sorted TOK_TYPES PPQN true S.

  Lemma gfe_sorted_ats : ats S = TSL.
  Proof.
    assert (E : tsig (ev_rel (fe_rel tracks)) = TSL) by (rewrite gfe_rel_tsig by exact Hok; exact Hts).
    unfold S, fe_sorted. rewrite ats_sort_abs; rewrite ats_to_abs; rewrite E; auto.
  Qed.

  Lemma gfirst_ts_chan m : In m S -> is_ts m = true -> m_chan m = 0.
  Proof.
    intros Hin Ht. change (m_chan m) with (m_chan (snd (m_time m, strip_time m))). apply Hts0.
    rewrite <- gfe_sorted_ats, ats_filter. apply (in_map (fun m0 => (m_time m0, strip_time m0))). apply filter_In. now split.
  Qed.

  Lemma gS_alt k : alt k false S = true.
  Proof.
    assert (Ha : alt k false S = alt_bits false (asig k S)).
    { unfold asig. generalize false. induction S as [|m l IH]; intros b; [reflexivity|]. cbn [alt].
      unfold is_key. unfold ev_abs. cbn [filter]. fold (ev_abs l).
      destruct (is_internal m) eqn:Ei; cbn [negb].
      - assert (is_on m = false /\ is_off m = false) as [-> ->].
        { unfold is_internal, is_on, is_off, mtype_eqb in *. destruct (m_type m); cbn in *; split; congruence. }
        rewrite !andb_false_r. apply IH.
      - cbn [map]. unfold esig. cbn [filter snd]. rewrite nkey_strip. unfold nkey, is_note.
        destruct (k2_eqb k (m_chan m, m_note m)); cbn [andb].
        + destruct (is_on m) eqn:Eon; cbn [orb andb map alt_bits].
          * change (s_on (sige (m_time m, strip_time m))) with (is_on m). rewrite Eon. f_equal. apply IH.
          * destruct (is_off m) eqn:Eoff; cbn [andb map alt_bits]; [|apply IH].
            change (s_on (sige (m_time m, strip_time m))) with (is_on m). rewrite Eon. f_equal. apply IH.
        + rewrite andb_false_r. apply IH. }
    rewrite Ha. unfold S. rewrite gfe_sorted_sig by exact Hok. apply sig_ok_alt_bits. now apply gpiece_sig_ok.
  Qed.

  Lemma gP_facts :
    uniq P /\
    (forall ch pl, In (ch, pl) P -> pl <> [] /\ Forall (pgood S ch) pl /\ ForallOrdPairs mle (map p_first pl)) /\
    (forall ch n, map strip (filter (onpitch n) (chan_pairs ch P)) = cpairs None (kp (ch, n) S)) /\
    (forall ch, map p_first (filter nonon (chan_pairs ch P)) = filter (single ch) S).
  Proof. apply pairings_tok; [apply gfe_sorted_tsorted|exact gS_alt]. Qed.

  Lemma gfrontend_ok : tok_frontend tracks = Ok (fe_events tracks).
  Proof.
    rewrite tok_frontend_eq. apply interleaved_ok. intros ch pl H. destruct gP_facts as (_ & H2 & _). now apply (H2 ch pl).
  Qed.

  Lemma gP_sorted kv : In kv P -> ForallOrdPairs ple (snd kv).
  Proof.
    destruct kv as [ch pl]. intros H. destruct gP_facts as (_ & H2 & _). destruct (H2 ch pl H) as (_ & _ & H3). cbn [snd].
    apply (FOP_map_inv ple mle p_first); [|exact H3]. intros x y _ _ Hxy. exact Hxy.
  Qed.

  Lemma gevents_perm : Permutation (fe_events tracks) (flat P).
  Proof. apply interleave_spec, gP_sorted. Qed.
  Lemma gevents_sorted : StronglySorted ele (fe_events tracks).
  Proof. apply interleave_spec, gP_sorted. Qed.

  Lemma gevent_in e : In e (fe_events tracks) -> exists pl, In (fst e, pl) P /\ In (snd e) pl.
  Proof.
    intros H. eapply Permutation_in in H; [|apply gevents_perm]. unfold flat in H. apply in_flat_map in H.
    destruct H as ([ch pl] & Hkv & He). cbn [fst snd] in He. apply in_map_iff in He. destruct He as (p & <- & Hp).
    exists pl. cbn [fst snd]. now split.
  Qed.

  Lemma gchan_notes_pitch ch n :
    map pnote (filter (onpitch n) (chan_pairs ch P)) = sig_notes n None (piece_sig 0 tracks (ch, n)).
  Proof.
    destruct gP_facts as (_ & _ & H3 & _). specialize (H3 ch n).
    rewrite (map_ext pnote (fun p => snote (strip p))) by (intros; apply pnote_strip).
    rewrite <- map_map, H3. rewrite <- (gfe_sorted_sig tracks Hok (ch, n)). fold S. rewrite asig_kp.
    apply (cpairs_sig_notes (ch, n) (kp (ch, n) S)) with (o := None).
    - apply Forall_forall. intros m Hm. unfold kp in Hm. now apply filter_In in Hm.
    - rewrite <- asig_kp. unfold S. rewrite gfe_sorted_sig by exact Hok. apply sig_ok_alt_bits. now apply gpiece_sig_ok.
    - intros ? [=].
  Qed.

  Lemma gP_chan ch pl : In (ch, pl) P -> Forall (fun p => m_chan (p_first p) = ch) pl.
  Proof.
    intros H. destruct gP_facts as (_ & H2 & _). destruct (H2 ch pl H) as (_ & Hg & _).
    eapply Forall_impl; [|exact Hg]. intros p Hp. apply Hp.
  Qed.

  Lemma gfrontend_notes i : (i < length tracks)%nat ->
    Permutation (track_notes (Z.of_nat i) (fe_events tracks)) (notes_of (nth i tracks [])).
  Proof.
    intros Hi. eapply perm_trans.
    - unfold track_notes. apply Permutation_flat_map. apply gevents_perm.
    - fold (track_notes (Z.of_nat i) (flat P)). destruct gP_facts as (Hu & _ & _).
      rewrite track_notes_flat; [|exact Hu|exact gP_chan].
      apply perm_by_pitch. intros n. rewrite on_notes_pitch, gchan_notes_pitch, notes_of_pitch.
      rewrite <- (piece_sig_nth tracks n 0 i Hi). reflexivity.
  Qed.

  Lemma gfrontend_notes_pitch i n : (i < length tracks)%nat ->
    filter (pitch_is n) (on_notes (chan_pairs (Z.of_nat i) P)) = filter (pitch_is n) (notes_of (nth i tracks [])).
  Proof.
    intros Hi. rewrite on_notes_pitch, gchan_notes_pitch, notes_of_pitch.
    rewrite <- (piece_sig_nth tracks n 0 i Hi). reflexivity.
  Qed.

  Lemma gevent_chan e : In e (fe_events tracks) -> fst e = m_chan (ev_msg e).
  Proof.
    intros He. destruct (gevent_in e He) as (pl & Hkv & Hp).
    pose proof (gP_chan (fst e) pl Hkv) as Hf. rewrite Forall_forall in Hf. symmetry. now apply Hf.
  Qed.

  (* every event starts with a message of the sorted list: a NOTE_ON, a TIME_SIGNATURE or the INTERNAL cap *)
  Lemma gevent_msg e : In e (fe_events tracks) -> In (ev_msg e) S /\ ftype (ev_msg e) = true.
  Proof.
    intros He. destruct (gevent_in e He) as (pl & Hkv & Hp). destruct e as [ch p]. cbn [fst snd] in *.
    destruct gP_facts as (_ & H2 & _). destruct (H2 ch pl Hkv) as (_ & Hg & _).
    rewrite Forall_forall in Hg. destruct (Hg p Hp) as (_ & Hin & Hft). now split.
  Qed.

  (* conversely every TIME_SIGNATURE / INTERNAL message of the sorted list starts an event *)
  Lemma gsingle_event x : In x S -> is_ts x || is_internal x = true -> exists e, In e (fe_events tracks) /\ ev_msg e = x.
  Proof.
    intros Hx Hs. destruct gP_facts as (_ & _ & _ & H4). specialize (H4 (m_chan x)).
    assert (Hin : In x (filter (single (m_chan x)) S)).
    { apply filter_In. split; [exact Hx|]. unfold single. now rewrite Hs, Z.eqb_refl. }
    rewrite <- H4 in Hin. apply in_map_iff in Hin. destruct Hin as (p & Hp & Hin). apply filter_In in Hin.
    destruct Hin as [Hin _]. exists (m_chan x, p). split; [|exact Hp].
    eapply Permutation_in; [symmetry; apply gevents_perm|]. unfold flat. apply in_flat_map.
    unfold chan_pairs in Hin. destruct (dget Z.eqb (m_chan x) P) as [pl|] eqn:G; [|destruct Hin].
    exists (m_chan x, pl). split; [now apply dget_In|]. cbn [fst snd]. now apply in_map.
  Qed.

  Lemma gevent_local e : In e (fe_events tracks) -> 0 <= ev_time e /\ (is_tsev e = false -> ev_local_ok g c e = true).
  Proof.
    intros He. destruct (gevent_in e He) as (pl & Hkv & Hp). destruct e as [ch p]. cbn [fst snd] in *.
    destruct gP_facts as (Hu & H2 & _). destruct (H2 ch pl Hkv) as (_ & Hg & _).
    rewrite Forall_forall in Hg. destruct (Hg p Hp) as (Hch & Hin & Hft).
    assert (Hnn : 0 <= m_time (p_first p)).
    { pose proof (wfa_Forall _ (gfe_sorted_wfa tracks)) as Hw. rewrite Forall_forall in Hw. now apply Hw. }
    split; [exact Hnn|]. unfold is_tsev, ev_local_ok, ev_msg. cbn [snd]. intros Hnts.
    destruct (gfe_sorted_types tracks Hok _ Hin) as [Hn|[[Hi Ht]|Hts']]; [| |congruence].
    - (* a note: it is a NOTE_ON, and one of the notes of track ch *)
      assert (Hon : is_on (p_first p) = true).
      { unfold ftype in Hft. destruct (is_on (p_first p)); [reflexivity|]. cbn [orb] in Hft.
        apply orb_prop in Hft. destruct Hft as [Hf|Hf]; [congruence|].
        apply note_not_internal in Hn. congruence. }
      assert (Hpl : chan_pairs ch P = pl) by (unfold chan_pairs; now rewrite (In_dget _ _ _ Hu Hkv)).
      assert (Hx : In (pnote p) (sig_notes (m_note (p_first p)) None (piece_sig 0 tracks (ch, m_note (p_first p))))).
      { rewrite <- gchan_notes_pitch, Hpl. apply in_map. apply filter_In. split; [exact Hp|].
        unfold onpitch. now rewrite Hon, Z.eqb_refl. }
      assert (Hrange : 0 <= ch < Z.of_nat (length tracks)).
      { destruct (Z_lt_dec ch 0) as [Hlt|Hge]; [rewrite piece_sig_out in Hx by (cbn [fst]; lia); destruct Hx|].
        destruct (Z_lt_dec ch (Z.of_nat (length tracks))); [lia|].
        rewrite piece_sig_out in Hx by (cbn [fst]; lia). destruct Hx. }
      set (i := Z.to_nat ch). assert (Hi : (i < length tracks)%nat) by lia.
      replace ch with (0 + Z.of_nat i) in Hx by lia. rewrite piece_sig_nth in Hx by exact Hi.
      rewrite <- notes_of_pitch in Hx. apply filter_In in Hx. destruct Hx as [Hx _].
      pose proof (Hnotes (nth i tracks []) (pnote p) (nth_In _ _ Hi) Hx) as Hno.
      unfold note_ok, pnote in Hno.
      apply andb_prop in Hno. destruct Hno as [Hno N5]. apply andb_prop in Hno. destruct Hno as [Hno N4].
      apply andb_prop in Hno. destruct Hno as [Hno N3]. apply andb_prop in Hno. destruct Hno as [N1 N2].
      apply is_on_type' in Hon. rewrite Hon, N1. unfold ev_dur, ev_time, ev_msg. cbn [snd]. rewrite Hch, N2, N3, N4, N5.
      unfold lenZ in Hlen.
      replace (0 <=? ch) with true by (symmetry; apply Z.leb_le; lia).
      replace (ch <? c_ntracks c) with true by (symmetry; apply Z.ltb_lt; lia). reflexivity.
    - (* the cap *)
      rewrite Ht, Hdur. unfold is_internal, mtype_eqb in Hi. destruct (m_type (p_first p)); cbn in Hi; try discriminate.
      reflexivity.
  Qed.

  (* the TIME_SIGNATURE events, in event order, are the surviving time signatures *)
  Lemma gevents_ts : map ev_tsv (filter is_tsev (fe_events tracks)) = tsv3 TSL.
  Proof.
    destruct gP_facts as (Hu & H2 & _ & H4).
    assert (E1 : filter is_tsev (fe_events tracks) = filter is_tsev (filter (fun e => fst e =? 0) (fe_events tracks))).
    { rewrite filter_filter. apply filter_ext_in'. intros e He. destruct (is_tsev e) eqn:Ets; [|now rewrite andb_false_r].
      rewrite andb_true_r. symmetry. apply Z.eqb_eq.
      destruct (gevent_in e He) as (pl & Hkv & Hp). destruct (H2 _ _ Hkv) as (_ & Hg & _).
      rewrite Forall_forall in Hg. destruct (Hg _ Hp) as (Hch & Hin & _). rewrite <- Hch.
      now apply gfirst_ts_chan. }
    rewrite E1. unfold fe_events. fold S. fold P. rewrite (interleave_chan 0 P Hu).
    set (pl := chan_pairs 0 P) in *.
    assert (E2 : map ev_tsv (filter is_tsev (map (pair 0) pl)) =
                 map (fun m => (m_time m, m_num m, m_den m)) (filter is_ts (map p_first (filter nonon pl)))).
    { rewrite !filter_map_comm, !map_map, filter_filter. cbn [snd].
      rewrite (filter_ext_in' (fun x => nonon x && is_ts (p_first x)) (fun x => is_tsev (0, x)) pl); [reflexivity|].
      intros p _. unfold is_tsev, ev_msg, nonon. cbn [snd]. destruct (is_ts (p_first p)) eqn:E; [|apply andb_false_r].
      assert (is_on (p_first p) = false) as ->; [|reflexivity].
      destruct (is_on (p_first p)) eqn:Eon; [|reflexivity]. apply on_is_note in Eon. rewrite (ts_not_note _ E) in Eon.
      discriminate. }
    rewrite E2. unfold pl. rewrite (H4 0), filter_filter.
    rewrite (filter_ext_in' (fun m => single 0 m && is_ts m) is_ts S).
    - pose proof gfe_sorted_ats as Ha. rewrite ats_filter in Ha. rewrite <- Ha. unfold tsv3. rewrite map_map. reflexivity.
    - intros m Hm. destruct (is_ts m) eqn:E; [|apply andb_false_r]. rewrite andb_true_r.
      unfold single. rewrite E, (gfirst_ts_chan m Hm E). reflexivity.
  Qed.

  (* per track and pitch, the NOTE_ON events come in the order of the track's notes *)
  Lemma gfrontend_notes_order i n : (i < length tracks)%nat ->
    filter (pitch_is n) (track_notes (Z.of_nat i) (fe_events tracks)) = filter (pitch_is n) (notes_of (nth i tracks [])).
  Proof.
    intros Hi. rewrite track_notes_filter by exact gevent_chan.
    pose proof gP_facts as (Hu & _). unfold fe_events. fold S. fold P. rewrite (interleave_chan _ _ Hu).
    rewrite track_notes_chan.
    - rewrite Z.eqb_refl. now apply gfrontend_notes_pitch.
    - unfold chan_pairs. destruct (dget Z.eqb (Z.of_nat i) _) as [pl|] eqn:G; [|constructor].
      apply gP_chan. now apply dget_In.
  Qed.
End GEvents.
