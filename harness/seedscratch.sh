#!/bin/bash
# run seedtest.py on a scratch copy of /verif against a scratch clone of /repo (so /repo and /verif stay undisturbed)
# usage: harness/seedscratch.sh <scratch-name> seed...
set -e
S=/var/tmp/$1; shift
mkdir -p $S
rsync -a --delete --exclude .git --exclude evidence --exclude replays /verif/ $S/
mkdir -p $S/evidence $S/replays
R=/var/tmp/repo_$(basename $S)
if [ ! -d $R ]; then git clone -q /repo $R; fi
git -C $R fetch -q origin; git -C $R checkout -q --detach origin/main 2>/dev/null || git -C $R checkout -q --detach origin/HEAD
git -C $R checkout -- .
cd $S && SEED_REPO=$R python3 harness/seedtest.py "$@"
