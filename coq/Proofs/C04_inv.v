(* C04_inv.v -- the invariant of the Sequence wrapper object and its preservation by every operation of the
   functional store (Model/Store.v). *)
From Coq Require Import ZArith List Bool Lia Permutation.
From Model Require Import Base Seq Pairing Util Bars Store.
From Proofs Require Import C04_sort C04_proofs C04_ops C04_ops2.
Import ListNotations.
Open Scope Z_scope.

(* ---------------------------------------------------------------- the invariant *)
(* 1. at least one view is fresh (the object is readable);
   2. a fresh absolute view is sorted by time and holds no negative time / WAIT message;
   3. a fresh relative view holds no negative wait;
   4. when both views are fresh they describe the same timed events (as a multiset: simultaneous messages may be
      ordered differently) and the same total duration. *)
Definition Inv (s : seq) : Prop :=
  (s_abs_stale s && s_rel_stale s = false) /\
  (s_abs_stale s = false -> abs_ok (s_abs s)) /\
  (s_rel_stale s = false -> wfr (s_rel s) = true) /\
  (s_abs_stale s = false -> s_rel_stale s = false ->
     Permutation (ev_abs (s_abs s)) (ev_rel (s_rel s)) /\ dur_abs (s_abs s) = dur_rel (s_rel s)).

Definition SInv (st : store) : Prop := Forall Inv st.

Lemma Inv_abs (a r : list msg) : abs_ok a -> Inv (mkseq a r false true).
Proof. intro H. repeat split; cbn; try discriminate; intros; apply H. Qed.

Lemma Inv_rel (a r : list msg) : wfr r = true -> Inv (mkseq a r true false).
Proof. intro H. repeat split; cbn; try discriminate; intros; exact H. Qed.

Lemma Inv_empty : Inv seq_empty.
Proof. apply Inv_abs, abs_ok_nil. Qed.

(* ---------------------------------------------------------------- reads *)
Lemma get_abs_spec (s : seq) : Inv s ->
  exists s', get_abs s = Ok (s', s_abs s') /\ Inv s' /\ s_abs_stale s' = false /\ abs_ok (s_abs s') /\
             s_rel s' = s_rel s /\ s_rel_stale s' = s_rel_stale s.
Proof.
  destruct s as [a r sa sr]. intros [H1 [H2 [H3 H4]]]. cbn [s_abs s_rel s_abs_stale s_rel_stale] in *.
  unfold get_abs. cbn [s_abs s_rel s_abs_stale s_rel_stale].
  destruct sa.
  - destruct sr; [discriminate|]. specialize (H3 eq_refl).
    exists (mkseq (to_abs r) r false false). split; [reflexivity|]. cbn [s_abs s_rel s_abs_stale s_rel_stale].
    repeat split; cbn [s_abs s_rel s_abs_stale s_rel_stale]; intros;
      try (now apply abs_ok_to_abs); try exact H3; try (apply to_abs_tsorted); try (now apply to_abs_wfa).
    + apply to_abs_events.
    + now apply to_abs_dur.
  - exists (mkseq a r false sr). split; [reflexivity|]. cbn [s_abs s_rel s_abs_stale s_rel_stale].
    repeat split; cbn [s_abs s_rel s_abs_stale s_rel_stale]; intros; try (apply H2; reflexivity);
      try (apply H3; assumption); try (apply H4; assumption).
Qed.

Lemma get_rel_spec (s : seq) : Inv s ->
  exists s', get_rel s = Ok (s', s_rel s') /\ Inv s' /\ s_rel_stale s' = false /\ wfr (s_rel s') = true /\
             s_abs s' = s_abs s /\ s_abs_stale s' = s_abs_stale s.
Proof.
  destruct s as [a r sa sr]. intros [H1 [H2 [H3 H4]]]. cbn [s_abs s_rel s_abs_stale s_rel_stale] in *.
  unfold get_rel. cbn [s_abs s_rel s_abs_stale s_rel_stale].
  destruct sr.
  - destruct sa; [discriminate|]. destruct (H2 eq_refl) as [Hs Hw].
    exists (mkseq a (to_rel a) false false). split; [reflexivity|]. cbn [s_abs s_rel s_abs_stale s_rel_stale].
    repeat split; cbn [s_abs s_rel s_abs_stale s_rel_stale]; intros;
      try exact Hs; try exact Hw; try apply to_rel_wfr.
    + now rewrite to_rel_events.
    + now rewrite to_rel_dur.
  - exists (mkseq a r sa false). split; [reflexivity|]. cbn [s_abs s_rel s_abs_stale s_rel_stale].
    repeat split; cbn [s_abs s_rel s_abs_stale s_rel_stale]; intros; try (apply H2; assumption);
      try (apply H3; reflexivity); try (apply H4; assumption); try exact H1.
Qed.

(* forward forms *)
Lemma get_abs_inv (s s' : seq) (a : list msg) : Inv s -> get_abs s = Ok (s', a) ->
  Inv s' /\ a = s_abs s' /\ s_abs_stale s' = false /\ abs_ok a /\ s_rel s' = s_rel s /\ s_rel_stale s' = s_rel_stale s.
Proof.
  intros H E. destruct (get_abs_spec s H) as [s0 [E0 [H1 [H2 [H3 [H4 H5]]]]]].
  rewrite E0 in E. injection E as <- <-.
  split; [exact H1|]. split; [reflexivity|]. split; [exact H2|]. split; [exact H3|]. split; assumption.
Qed.

Lemma get_rel_inv (s s' : seq) (r : list msg) : Inv s -> get_rel s = Ok (s', r) ->
  Inv s' /\ r = s_rel s' /\ s_rel_stale s' = false /\ wfr r = true /\ s_abs s' = s_abs s /\ s_abs_stale s' = s_abs_stale s.
Proof.
  intros H E. destruct (get_rel_spec s H) as [s0 [E0 [H1 [H2 [H3 [H4 H5]]]]]].
  rewrite E0 in E. injection E as <- <-.
  split; [exact H1|]. split; [reflexivity|]. split; [exact H2|]. split; [exact H3|]. split; assumption.
Qed.

(* ---------------------------------------------------------------- mutators through one view *)
Lemma upd_abs_spec (s : seq) (f : list msg -> list msg) :
  Inv s -> (forall a, abs_ok a -> abs_ok (f a)) -> exists s', upd_abs s f = Ok s' /\ Inv s'.
Proof.
  intros H Hf. destruct (get_abs_spec s H) as [s1 [E1 [_ [_ [Ha _]]]]].
  unfold upd_abs. rewrite E1. cbn [rbind]. eexists. split; [reflexivity|]. apply Inv_abs, Hf, Ha.
Qed.

Lemma upd_rel_spec (s : seq) (f : list msg -> list msg) :
  Inv s -> (forall r, wfr r = true -> wfr (f r) = true) -> exists s', upd_rel s f = Ok s' /\ Inv s'.
Proof.
  intros H Hf. destruct (get_rel_spec s H) as [s1 [E1 [_ [_ [Hr _]]]]].
  unfold upd_rel. rewrite E1. cbn [rbind]. eexists. split; [reflexivity|]. apply Inv_rel, Hf, Hr.
Qed.

Lemma upd_abs_inv (s s' : seq) (f : list msg -> list msg) :
  Inv s -> (forall a, abs_ok a -> abs_ok (f a)) -> upd_abs s f = Ok s' -> Inv s'.
Proof. intros H Hf E. destruct (upd_abs_spec s f H Hf) as [s0 [E0 H0]]. congruence. Qed.

Lemma upd_rel_inv (s s' : seq) (f : list msg -> list msg) :
  Inv s -> (forall r, wfr r = true -> wfr (f r) = true) -> upd_rel s f = Ok s' -> Inv s'.
Proof. intros H Hf E. destruct (upd_rel_spec s f H Hf) as [s0 [E0 H0]]. congruence. Qed.

Lemma seq_normalise_inv (s s' : seq) : Inv s -> seq_normalise s = Ok s' -> Inv s'.
Proof. intros H E. eapply upd_rel_inv; [exact H| |exact E]. intros r _. apply wfr_normalise. Qed.

Lemma seq_copy_inv (s : seq) : Inv s -> Inv (seq_copy s).
Proof.
  destruct s as [a r sa sr]. intros [H1 [H2 [H3 H4]]]. cbn [s_abs s_rel s_abs_stale s_rel_stale] in *.
  unfold seq_copy. cbn [s_abs s_rel s_abs_stale s_rel_stale]. destruct sa, sr.
  - discriminate.
  - apply Inv_rel. now apply H3.
  - apply Inv_abs. now apply H2.
  - unfold seq_of_both. repeat split; cbn [s_abs s_rel s_abs_stale s_rel_stale]; intros;
      try (apply H2; reflexivity); try (apply H3; reflexivity); try (apply H4; reflexivity).
Qed.

Lemma seq_refresh_inv (s s' : seq) : Inv s -> seq_refresh s = Ok s' -> Inv s'.
Proof.
  intros H E. unfold seq_refresh in E. destruct (s_abs_stale s && s_rel_stale s); [discriminate|].
  destruct (get_abs_spec s H) as [s1 [E1 [H1 _]]]. rewrite E1 in E. cbn [rbind] in E.
  destruct (get_rel_spec s1 H1) as [s2 [E2 [H2 _]]]. rewrite E2 in E. cbn [rbind] in E. now injection E as <-.
Qed.

(* sorting the absolute view in place (get_message_pairings) keeps both views in agreement *)
Lemma seq_sort_abs_inv (s s' : seq) : Inv s -> seq_sort_abs s = Ok s' -> Inv s'.
Proof.
  intros H E. unfold seq_sort_abs in E.
  destruct (get_abs_spec s H) as [s1 [E1 [H1 [Hst [[Hs Hw] _]]]]]. rewrite E1 in E. cbn [rbind] in E.
  injection E as <-. destruct H1 as [_ [_ [K3 K4]]].
  repeat split; cbn [s_abs s_rel s_abs_stale s_rel_stale]; intros.
  - apply sort_abs_tsorted.
  - eapply wfa_perm; [apply sort_abs_perm|exact Hw].
  - now apply K3.
  - etransitivity; [apply ev_abs_perm; symmetry; apply sort_abs_perm|]. now apply K4.
  - rewrite <- (dur_abs_perm (s_abs s1) (sort_abs (s_abs s1))).
    + now apply K4.
    + exact Hs.
    + apply sort_abs_tsorted.
    + now apply wfa_Forall.
    + apply sort_abs_perm.
Qed.

(* ---------------------------------------------------------------- the store *)
Lemma getn_inv (st : store) (i : nat) (s : seq) : SInv st -> getn st i = Ok s -> Inv s.
Proof.
  intros HS E. unfold getn in E. destruct (nth_error st i) as [x|] eqn:En; [|discriminate].
  injection E as <-. unfold SInv in HS. rewrite Forall_forall in HS. apply HS. eapply nth_error_In. exact En.
Qed.

Lemma set_nth_Forall {A} (P : A -> Prop) (f : A -> A) (n : nat) (l : list A) :
  (forall x, P x -> P (f x)) -> Forall P l -> Forall P (set_nth n f l).
Proof.
  intro Hf. revert n. induction l as [|x l IH]; intros n H; [destruct n; exact H|].
  inversion H as [|? ? Hx Hl]; subst. destruct n; cbn [set_nth]; constructor; auto.
Qed.

Lemma setn_inv (st : store) (i : nat) (s : seq) : SInv st -> Inv s -> SInv (setn st i s).
Proof. intros HS H. unfold setn. apply set_nth_Forall; [intros _ _; exact H|exact HS]. Qed.

Lemma SInv_app (st st' : store) : SInv st -> SInv st' -> SInv (st ++ st').
Proof. intros H1 H2. apply Forall_app. now split. Qed.

Lemma SInv_snoc (st : store) (s : seq) : SInv st -> Inv s -> SInv (st ++ [s]).
Proof. intros H1 H2. apply SInv_app; [exact H1|]. constructor; [exact H2|constructor]. Qed.

Lemma on_obj_inv (st : store) (i : nat) (f : seq -> result seq) :
  SInv st -> (forall s s', Inv s -> f s = Ok s' -> Inv s') -> SInv (fst (on_obj st i f)).
Proof.
  intros HS Hf. unfold on_obj. destruct (getn st i) as [s|e] eqn:Eg; [|exact HS].
  destruct (f s) as [s'|e] eqn:Ef; [|exact HS]. cbn [fst].
  apply setn_inv; [exact HS|]. eapply Hf; [|exact Ef]. eapply getn_inv; eassumption.
Qed.

Lemma lift_inv (st : store) (r : result (store * out)) :
  SInv st -> (forall x, r = Ok x -> SInv (fst x)) -> SInv (fst (lift st r)).
Proof. intros HS Hr. unfold lift. destruct r as [x|e]; [now apply Hr|exact HS]. Qed.

(* invert  (do x <- r; k) = Ok y *)
Tactic Notation "inv_bind" hyp(E) "as" simple_intropattern(p) ident(Ey) :=
  match type of E with
  | rbind ?x _ = Ok _ => destruct x as [p|] eqn:Ey; cbn [rbind] in E; [|discriminate E]
  end.

Lemma read_abss_inv (js : list nat) (st st' : store) (as_ : list (list msg)) :
  SInv st -> read_abss st js = Ok (st', as_) -> SInv st' /\ forallb wfa as_ = true.
Proof.
  revert st st' as_. induction js as [|j js IH]; intros st st' as_ HS E; cbn [read_abss] in E.
  - injection E as <- <-. now split.
  - inv_bind E as s Es. inv_bind E as [s' a] Eg. inv_bind E as [st1 rs] Er. injection E as <- <-.
    pose proof (getn_inv _ _ _ HS Es) as Hy.
    destruct (get_abs_inv _ _ _ Hy Eg) as [Hs' [_ [_ [[_ Hw] _]]]].
    destruct (IH _ _ _ (setn_inv _ j _ HS Hs') Er) as [K1 K2]. split; [exact K1|].
    cbn [forallb]. now rewrite Hw, K2.
Qed.

Lemma read_rels_inv (js : list nat) (st st' : store) (rs : list (list msg)) :
  SInv st -> read_rels st js = Ok (st', rs) -> SInv st' /\ forallb wfr rs = true.
Proof.
  revert st st' rs. induction js as [|j js IH]; intros st st' rs HS E; cbn [read_rels] in E.
  - injection E as <- <-. now split.
  - inv_bind E as s Es. inv_bind E as [s' a] Eg. inv_bind E as [st1 rs1] Er. injection E as <- <-.
    pose proof (getn_inv _ _ _ HS Es) as Hy.
    destruct (get_rel_inv _ _ _ Hy Eg) as [Hs' [_ [_ [Hw _]]]].
    destruct (IH _ _ _ (setn_inv _ j _ HS Hs') Er) as [K1 K2]. split; [exact K1|].
    cbn [forallb]. now rewrite Hw, K2.
Qed.

Lemma concat_args_wfr (st : store) (js : list nat) (rs : list (list msg)) :
  SInv st ->
  mapM (fun j => do t <- getn st j; do '(_, rj) <- get_rel (seq_copy t); Ok rj) js = Ok rs ->
  forallb wfr rs = true.
Proof.
  intro HS. revert rs. induction js as [|j js IH]; intros rs E; cbn [mapM] in E.
  - now injection E as <-.
  - inv_bind E as r1 E1. inv_bind E as rs1 E2. injection E as <-.
    inv_bind E1 as t Et. inv_bind E1 as [s' rj] Eg. injection E1 as <-.
    pose proof (seq_copy_inv _ (getn_inv _ _ _ HS Et)) as Hc.
    destruct (get_rel_inv _ _ _ Hc Eg) as [_ [_ [_ [Hw _]]]].
    cbn [forallb]. now rewrite Hw, (IH _ eq_refl).
Qed.

(* ---------------------------------------------------------------- well-formed literal arguments *)
(* Message lists handed to a constructor / overwrite / add / concatenate hold no negative time (absolute), no WAIT in
   an absolute list, no negative wait (relative); edit scripts set no negative time; scale factors are >= 0 (the
   model covers integer factors >= 1 only); cutoff's reduced length is >= 0; quantisation steps are positive and
   note values non-negative. *)
Definition op_wf (o : op) : bool :=
  match o with
  | ONewAbs a => wfa a
  | ONewRel r => wfr r
  | OAddAbs _ m => wfa_msg m
  | OAddRel _ m _ => wfr_msg m
  | OConcatLit _ rs => forallb wfr rs
  | OOverwriteAbs _ ms => wfa ms
  | OOverwriteRel _ ms => wfr ms
  | OScale _ k => 0 <=? k
  | OEditAbs _ es => forallb edit_wf es
  | OEditRel _ es => forallb edit_wf es
  | OCutoff _ _ red => 0 <=? red
  | OQuantise _ steps => forallb (fun s => 0 <? s) steps
  | OQnl _ values _ _ => forallb (fun v => 0 <=? v) values
  | OQuantNorm _ steps values => forallb (fun s => 0 <? s) steps && forallb (fun v => 0 <=? v) values
  | _ => true
  end.

Lemma seq_qnl_inv (s s' : seq) (values : list Z) (std : Z) (dne : bool) :
  forallb (fun v => 0 <=? v) values = true -> Inv s -> seq_qnl s values std dne = Ok s' -> Inv s'.
Proof.
  intros Hv H E. eapply upd_abs_inv; [exact H| |exact E]. intros a [_ Ha]. now apply wfa_qnl.
Qed.

Lemma seq_cutoff_inv (s s' : seq) (mx red : Z) : 0 <= red -> Inv s -> seq_cutoff s mx red = Ok s' -> Inv s'.
Proof.
  intros Hr H E. eapply upd_abs_inv; [exact H| |exact E]. intros a [_ Ha]. now apply wfa_cutoff.
Qed.

Lemma seq_quantise_inv (s s' : seq) (steps : list Z) :
  forallb (fun x => 0 <? x) steps = true -> Inv s -> seq_quantise s steps = Ok s' -> Inv s'.
Proof.
  intros Hst H E. unfold seq_quantise in E. inv_bind E as [s1 a] Eg. inv_bind E as a' Eq. injection E as <-.
  destruct (get_abs_inv _ _ _ H Eg) as [_ [_ [_ [[_ Hw] _]]]].
  apply Inv_abs. eapply wfa_quantise; eassumption.
Qed.

Lemma seq_transpose_inv (s s' : seq) (k : Z) (b : bool) : Inv s -> seq_transpose s k = Ok (s', b) -> Inv s'.
Proof.
  intros H E. unfold seq_transpose in E. inv_bind E as [s1 r] Eg.
  destruct (get_rel_inv _ _ _ H Eg) as [_ [_ [_ [Hw _]]]].
  pose proof (wfr_transpose r k Hw) as Ht.
  destruct (transpose r k) as [r' shifted]. cbn [fst] in Ht.
  assert (H2 : Inv (mkseq (s_abs s1) r' true false)) by now apply Inv_rel.
  destruct shifted.
  - inv_bind E as s3 En. inv_bind E as s4 Eq. injection E as <- _.
    eapply seq_qnl_inv; [apply default_note_values_nonneg| |exact Eq]. eapply seq_normalise_inv; eassumption.
  - now injection E as <- _.
Qed.

(* every operation of the alphabet keeps the invariant of every object of the store *)
Theorem step_inv (st : store) (o : op) : SInv st -> op_wf o = true -> SInv (fst (step st o)).
Proof.
  intros HS Hwf. destruct o; cbn [step]; cbn [op_wf] in Hwf.
  - (* ONew *) cbn [fst]. apply SInv_snoc; [exact HS|apply Inv_empty].
  - (* ONewAbs *) cbn [fst]. apply SInv_snoc; [exact HS|]. unfold seq_overwrite_abs. apply Inv_abs.
    now apply abs_ok_fold_insort.
  - (* ONewRel *) cbn [fst]. apply SInv_snoc; [exact HS|]. now apply Inv_rel.
  - (* OCopy *) apply lift_inv; [exact HS|]. intros x E. inv_bind E as s Es. injection E as <-. cbn [fst].
    apply SInv_snoc; [exact HS|]. apply seq_copy_inv. eapply getn_inv; eassumption.
  - (* OAddAbs *) apply on_obj_inv; [exact HS|]. intros s s' H E. eapply upd_abs_inv; [exact H| |exact E].
    intros a Ha. now apply abs_ok_insort.
  - (* OAddRel *) apply on_obj_inv; [exact HS|]. intros s s' H E. eapply upd_rel_inv; [exact H| |exact E].
    intros r Hr. destruct idx as [k|]; [now apply wfr_py_insert|now apply wfr_snoc].
  - (* OConcat *) apply lift_inv; [exact HS|]. intros x E. inv_bind E as s Es. inv_bind E as [s1 r] Eg.
    inv_bind E as rs Em. injection E as <-. cbn [fst].
    pose proof (getn_inv _ _ _ HS Es) as Hy.
    destruct (get_rel_inv _ _ _ Hy Eg) as [_ [_ [_ [Hw _]]]].
    apply setn_inv; [exact HS|]. apply Inv_rel. rewrite wfr_app, Hw. cbn [andb].
    apply forallb_concat. eapply concat_args_wfr; eassumption.
  - (* OConcatLit *) apply lift_inv; [exact HS|]. intros x E. inv_bind E as s Es. inv_bind E as [s1 r] Eg.
    injection E as <-. cbn [fst].
    pose proof (getn_inv _ _ _ HS Es) as Hy.
    destruct (get_rel_inv _ _ _ Hy Eg) as [_ [_ [_ [Hw _]]]].
    apply setn_inv; [exact HS|]. apply Inv_rel. rewrite wfr_app, Hw. cbn [andb]. now apply forallb_concat.
  - (* OMerge *) apply lift_inv; [exact HS|]. intros x E. inv_bind E as s Es. inv_bind E as [s1 a] Eg.
    inv_bind E as [st1 as_] Er. inv_bind E as s2 Es2. inv_bind E as s3 En. injection E as <-. cbn [fst].
    pose proof (getn_inv _ _ _ HS Es) as Hy.
    destruct (get_abs_inv _ _ _ Hy Eg) as [Hs1 [_ [_ [[_ Hwa] _]]]].
    destruct (read_abss_inv _ _ _ _ (setn_inv _ i _ HS Hs1) Er) as [HS1 Hws].
    apply setn_inv; [exact HS1|]. eapply seq_normalise_inv; [|exact En].
    apply Inv_abs. now apply abs_ok_merge.
  - (* OCutoff *) apply on_obj_inv; [exact HS|]. intros s s' H E. eapply seq_cutoff_inv; [|exact H|exact E].
    now apply Z.leb_le.
  - (* ONormalise *) apply on_obj_inv; [exact HS|]. apply seq_normalise_inv.
  - (* OPad *) apply on_obj_inv; [exact HS|]. intros s s' H E. eapply upd_rel_inv; [exact H| |exact E].
    intros r Hr. now apply wfr_pad.
  - (* OSetChannel *) apply on_obj_inv; [exact HS|]. intros s s' H E. eapply upd_rel_inv; [exact H| |exact E].
    intros r Hr. now apply wfr_set_channel.
  - (* OOverwriteAbs *) apply on_obj_inv; [exact HS|]. intros s s' H E. injection E as <-.
    unfold seq_overwrite_abs. apply Inv_abs. now apply abs_ok_fold_insort.
  - (* OOverwriteRel *) apply on_obj_inv; [exact HS|]. intros s s' H E. injection E as <-.
    unfold seq_overwrite_rel. now apply Inv_rel.
  - (* OSplit *) apply lift_inv; [exact HS|]. intros x E. inv_bind E as s Es. inv_bind E as [s1 r] Eg.
    injection E as <-. cbn [fst].
    pose proof (getn_inv _ _ _ HS Es) as Hy.
    destruct (get_rel_inv _ _ _ Hy Eg) as [Hs1 [_ [_ [Hw _]]]].
    apply SInv_app; [now apply setn_inv|].
    pose proof (wfr_seq_split r caps Hw) as Hsp. rewrite forallb_forall in Hsp.
    apply Forall_forall. intros t Ht. apply in_map_iff in Ht. destruct Ht as [p [<- Hp]].
    apply Inv_rel. now apply Hsp.
  - (* OScale *) apply on_obj_inv; [exact HS|]. intros s s' H E. eapply upd_rel_inv; [exact H| |exact E].
    intros r Hr. apply wfr_scale; [now apply Z.leb_le|exact Hr].
  - (* OTranspose *) apply lift_inv; [exact HS|]. intros x E. inv_bind E as s Es. inv_bind E as [s' b] Et.
    injection E as <-. cbn [fst]. apply setn_inv; [exact HS|].
    eapply seq_transpose_inv; [|exact Et]. eapply getn_inv; eassumption.
  - (* OQuantise *) apply on_obj_inv; [exact HS|]. intros s s' H E. eapply seq_quantise_inv; eassumption.
  - (* OQnl *) apply on_obj_inv; [exact HS|]. intros s s' H E. eapply seq_qnl_inv; eassumption.
  - (* OQuantNorm *) apply on_obj_inv; [exact HS|]. intros s s' H E. apply andb_prop in Hwf. destruct Hwf as [W1 W2].
    unfold seq_quantise_and_normalise in E. inv_bind E as s1 E1. inv_bind E as s2 E2.
    eapply seq_normalise_inv; [|exact E]. eapply seq_qnl_inv; [exact W2| |exact E2].
    eapply seq_quantise_inv; eassumption.
  - (* ORefresh *) apply on_obj_inv; [exact HS|]. apply seq_refresh_inv.
  - (* OReadAbs *) apply lift_inv; [exact HS|]. intros x E. inv_bind E as s Es. inv_bind E as [s1 a] Eg.
    injection E as <-. cbn [fst]. apply setn_inv; [exact HS|].
    eapply get_abs_inv; [|exact Eg]. eapply getn_inv; eassumption.
  - (* OReadRel *) apply lift_inv; [exact HS|]. intros x E. inv_bind E as s Es. inv_bind E as [s1 a] Eg.
    injection E as <-. cbn [fst]. apply setn_inv; [exact HS|].
    eapply get_rel_inv; [|exact Eg]. eapply getn_inv; eassumption.
  - (* OEquals *) apply lift_inv; [exact HS|]. intros x E.
    inv_bind E as s Es. inv_bind E as [s1 a1] Eg. inv_bind E as t Et. inv_bind E as [t1 b1] Eh.
    inv_bind E as s2 Es2. inv_bind E as s3 Es3.
    pose proof (getn_inv _ _ _ HS Es) as Hy.
    destruct (get_abs_inv _ _ _ Hy Eg) as [Hs1 _].
    pose proof (setn_inv _ i _ HS Hs1) as HS1.
    pose proof (getn_inv _ _ _ HS1 Et) as Hy0.
    destruct (get_abs_inv _ _ _ Hy0 Eh) as [Ht1 _].
    pose proof (setn_inv _ j _ HS1 Ht1) as HS2.
    pose proof (getn_inv _ _ _ HS2 Es2) as Hy1.
    pose proof (seq_sort_abs_inv _ _ Hy1 Es3) as Hy2.
    pose proof (setn_inv _ i _ HS2 Hy2) as HS3.
    destruct (interleaved _ _ _ _) as [ia|e].
    + inv_bind E as t2 Et2. inv_bind E as t3 Et3.
      pose proof (getn_inv _ _ _ HS3 Et2) as Hy3.
      pose proof (seq_sort_abs_inv _ _ Hy3 Et3) as Hy4.
      pose proof (setn_inv _ j _ HS3 Hy4) as HS4.
      destruct (equals _ _ _ _ _ _); injection E as <-; exact HS4.
    + injection E as <-. exact HS3.
  - (* OPairings *) apply on_obj_inv; [exact HS|]. apply seq_sort_abs_inv.
  - (* ODuration *) apply lift_inv; [exact HS|]. intros x E. inv_bind E as s Es. inv_bind E as [s1 a] Eg.
    pose proof (getn_inv _ _ _ HS Es) as Hy.
    destruct (get_abs_inv _ _ _ Hy Eg) as [Hs1 _].
    destruct (last_opt a); injection E as <-; cbn [fst]; now apply setn_inv.
  - (* OEditAbs *) apply on_obj_inv; [exact HS|]. intros s s' H E. unfold seq_edit_abs in E.
    inv_bind E as [s1 a] Eg. injection E as <-.
    destruct (get_abs_inv _ _ _ H Eg) as [_ [_ [_ [[_ Hw] _]]]].
    apply Inv_abs. now apply abs_ok_edit.
  - (* OEditRel *) apply on_obj_inv; [exact HS|]. intros s s' H E. unfold seq_edit_rel in E.
    inv_bind E as [s1 r] Eg. injection E as <-.
    destruct (get_rel_inv _ _ _ H Eg) as [_ [_ [_ [Hw _]]]].
    apply Inv_rel. now apply apply_edits_rel_wfr.
  - (* OBarInit *) apply lift_inv; [exact HS|]. intros x E. inv_bind E as s Es. inv_bind E as [s1 r] Eg.
    pose proof (wfr_bar_init_full r num den) as Hb.
    destruct (bar_init_full r num den) as [r' e]. injection E as <-. cbn [fst] in *.
    apply setn_inv; [exact HS|]. now apply Inv_rel.
  - (* OBarCopy *) apply lift_inv; [exact HS|]. intros x E. inv_bind E as s Es. inv_bind E as [c1 r] Eg.
    inv_bind E as r' Eb. injection E as <-. cbn [fst].
    apply SInv_snoc; [exact HS|]. apply Inv_rel. eapply wfr_bar_init. exact Eb.
  - (* OSplitBars *) apply lift_inv; [exact HS|]. intros x E.
    inv_bind E as [st0 x0] E0. inv_bind E as [st0' x1] E1. inv_bind E as m Em. inv_bind E as [m1 ma] Eg.
    inv_bind E as [st2 rels] E2.
    destruct (read_abss_inv _ _ _ _ HS E0) as [HS0 _].
    destruct (read_rels_inv _ _ _ _ HS0 E1) as [HS0' _].
    pose proof (getn_inv _ _ _ HS0' Em) as Hm.
    destruct (get_abs_inv _ _ _ Hm Eg) as [Hm1 _].
    destruct (read_rels_inv _ _ _ _ (setn_inv _ meta _ HS0' Hm1) E2) as [HS2 _].
    destruct (split_bars rels ma qnl) as [bars|e] eqn:Eb; injection E as <-; cbn [fst]; [|exact HS2].
    apply SInv_app; [exact HS2|].
    pose proof (split_bars_ok _ _ _ _ Eb) as Hb. rewrite Forall_forall in Hb.
    apply Forall_forall. intros t Ht. apply in_map_iff in Ht. destruct Ht as [b [<- Hin]].
    apply Inv_rel. now apply Hb.
Qed.
