(* C05_survive -- an isolated note survives quantisation whenever a grid position for its end lies after its
   quantised start. *)
From Coq Require Import ZArith List Bool Lia Permutation.
From Model Require Import Base Seq Pairing.
From Proofs Require Import C05_closest C05_proofs C05_wf C05_sweep C05_sort C05_final.
Import ListNotations.
Open Scope Z_scope.

(* ------------------------------------------------------------------ the loop only appends *)
Lemma qstep_grows steps s m : exists e, q_out (qstep steps s m) = q_out s ++ e.
Proof.
  destruct (m_type m) eqn:T;
    try (rewrite qstep_other by congruence; cbn [q_out]; eexists; reflexivity).
  - rewrite qstep_off by exact T. destruct (dget k2_eqb (qkey m) (q_open s)).
    + cbn [q_out]. eexists; reflexivity.
    + exists []. now rewrite app_nil_r.
  - rewrite qstep_on by exact T. cbv zeta.
    assert (H1 : exists e, q_out (q_retrig steps s m) = q_out s ++ e).
    { unfold q_retrig. destruct (dget k2_eqb (qkey m) (q_open s)).
      - cbn [q_out]. eexists; reflexivity.
      - exists []. now rewrite app_nil_r. }
    destruct H1 as (e & He). destruct (q_can_open steps (q_retrig steps s m) m).
    + cbn [q_out]. rewrite He, <- app_assoc. eexists; reflexivity.
    + exists e. exact He.
Qed.

Lemma fold_grows steps l : forall s, exists e, q_out (fold_left (qstep steps) l s) = q_out s ++ e.
Proof.
  induction l as [|m l IH]; intros s; cbn [fold_left].
  - exists []. now rewrite app_nil_r.
  - destruct (IH (qstep steps s m)) as (e & He). destruct (qstep_grows steps s m) as (e' & He').
    exists (e' ++ e). now rewrite He, He', app_assoc.
Qed.

(* ------------------------------------------------------------------ messages of other keys leave key k alone *)
Lemma qstep_frame steps s m k : is_note m && k2_eqb k (qkey m) = false -> uniq (q_open s) ->
  dget k2_eqb k (q_open (qstep steps s m)) = dget k2_eqb k (q_open s) /\
  kproj k (q_out (qstep steps s m)) = kproj k (q_out s).
Proof.
  intros Hk Hu. destruct (is_note m) eqn:N.
  2:{ assert (T : m_type m <> NOTE_ON /\ m_type m <> NOTE_OFF).
      { apply nonnote_type. unfold nonnote. now rewrite N. }
      destruct T as [T1 T2]. rewrite qstep_other by assumption. cbn [q_open q_out]. split; [reflexivity|].
      apply kproj_snoc_other. unfold qmove. now rewrite is_note_set_time, N. }
  cbn [andb] in Hk.
  apply is_note_type in N. destruct N as [T|T].
  - rewrite qstep_on by exact T. cbv zeta.
    assert (H1 : dget k2_eqb k (q_open (q_retrig steps s m)) = dget k2_eqb k (q_open s) /\
                 kproj k (q_out (q_retrig steps s m)) = kproj k (q_out s)).
    { unfold q_retrig. destruct (dget k2_eqb (qkey m) (q_open s)); [|now split]. cbn [q_open q_out]. split.
      - now rewrite dget2_ddel, Hk by exact Hu.
      - apply kproj_snoc_other. change (qkey (mk_off (m_chan m) (m_note m) (qnt steps m) (m_tf m))) with (qkey m).
        now rewrite Hk, andb_false_r. }
    destruct H1 as [H1 H2]. destruct (q_can_open steps (q_retrig steps s m) m); [|now split].
    cbn [q_open q_out]. split.
    + now rewrite dget2_dset, Hk.
    + rewrite kproj_snoc_other; [exact H2|]. change (qkey (qmove steps m)) with (qkey m). now rewrite Hk, andb_false_r.
  - rewrite qstep_off by exact T. destruct (dget k2_eqb (qkey m) (q_open s)); [|now split].
    cbn [q_open q_out]. split.
    + now rewrite dget2_ddel, Hk by exact Hu.
    + apply kproj_snoc_other. rewrite qkey_set_time. now rewrite Hk, andb_false_r.
Qed.

Lemma kproj_nil_cons k m l : kproj k (m :: l) = [] -> is_note m && k2_eqb k (qkey m) = false /\ kproj k l = [].
Proof.
  rewrite kproj_cons_eq. destruct (is_note m && k2_eqb k (qkey m)); [discriminate|auto].
Qed.

Lemma fold_frame steps k : forall mid pre s, wf_inv pre s -> no_fail (pre ++ mid) -> kproj k mid = [] ->
  wf_inv (pre ++ mid) (fold_left (qstep steps) mid s) /\
  dget k2_eqb k (q_open (fold_left (qstep steps) mid s)) = dget k2_eqb k (q_open s) /\
  kproj k (q_out (fold_left (qstep steps) mid s)) = kproj k (q_out s).
Proof.
  induction mid as [|m mid IH]; intros pre s Hw Hnf Hk; cbn [fold_left].
  - rewrite app_nil_r. auto.
  - apply kproj_nil_cons in Hk. destruct Hk as [Hm Hk].
    replace (pre ++ m :: mid) with ((pre ++ [m]) ++ mid) in * by (rewrite <- app_assoc; reflexivity).
    assert (Hnf1 : no_fail (pre ++ [m])) by now apply no_fail_app with mid.
    destruct (wf_step steps pre s m Hnf1 Hw) as [Hw' _].
    destruct (qstep_frame steps s m k Hm (proj1 Hw)) as [F1 F2].
    destruct (IH (pre ++ [m]) (qstep steps s m) Hw' Hnf Hk) as (I1 & I2 & I3).
    split; [exact I1|]. split; congruence.
Qed.

(* ------------------------------------------------------------------ the loop on a sorted, failure-free prefix *)
Lemma wfm_prefix pre steps : steps <> [] -> pos_steps steps = true -> sorted_time pre = true -> no_fail pre ->
  wfm_inv (maxZ steps) pre (quantise_core pre steps).
Proof.
  intros Hne Hpos Hs Hnf. unfold quantise_core.
  apply (fold_inv_pre (qstep steps) (wfm_inv (maxZ steps))
           (fun p => sorted_time p = true /\ no_fail p)) with (pre := []) (l := pre).
  - intros p m [H1 H2]. split; [exact (proj1 (sorted_time_app _ _ H1))|now apply no_fail_prefix with m].
  - intros p s m [Hq1 Hq2] [Hw Hm]. destruct (wf_step steps p s m Hq2 Hw) as [Hw' Hret].
    split; [exact Hw'|]. apply move_step; auto.
  - split; assumption.
  - split.
    + split; [constructor|]. split; [constructor|]. intros k. exists KNone. cbn. repeat split; discriminate.
    + split; constructor.
Qed.

Lemma krun_last_time strict : forall L st a b, krun strict st L = Some (KClosed a b) ->
  (L = [] /\ st = KClosed a b) \/ exists x, In x L /\ m_time x = b.
Proof.
  induction L as [|m L IH]; intros st a b Hr; cbn [krun] in Hr.
  - left. split; [reflexivity|congruence].
  - right. destruct (kstep strict st m) as [s1|] eqn:KS; [|discriminate].
    destruct (IH s1 a b Hr) as [[-> ->]|(x & Hx & Hb)].
    + exists m. split; [now left|]. destruct (is_on m) eqn:Hon.
      * destruct (kstep_on_inv _ _ _ _ Hon KS) as [E _]. discriminate.
      * destruct (kstep_off_inv _ _ _ _ Hon KS) as (a' & _ & E & _). congruence.
    + exists x. split; [now right|exact Hb].
Qed.

Lemma dzc_app L1 : forall o L, dzc o (L1 ++ L) = dzc o L1 ++ dzc (popen o L1) L.
Proof.
  induction L1 as [|x L1 IH]; intros o L; cbn [app dzc popen]; [reflexivity|].
  destruct o; rewrite IH; [now rewrite app_assoc|reflexivity].
Qed.

(* ------------------------------------------------------------------ C05_survive *)
Lemma C05_survive : forall pre on mid off post steps out,
  steps <> [] -> pos_steps steps = true ->
  wf_abs (pre ++ on :: mid ++ off :: post) = true ->
  m_type on = NOTE_ON -> m_type off = NOTE_OFF -> qkey off = qkey on ->
  kproj (qkey on) mid = [] ->
  forallb (fun x => m_time x + 2 * maxZ steps <=? m_time on) (kproj (qkey on) pre) = true ->
  existsb (fun p => qnt steps on <? p) (positions (m_time off) steps) = true ->
  quantise (pre ++ on :: mid ++ off :: post) steps = Ok out ->
  In (qmove steps on) out /\
  exists t', qnt steps on < t' /\ In (set_time off t' (m_tf off)) out.
Proof.
  intros pre on mid off post steps out Hne Hpos Hwf Ton Toff Hkoff Hmid Hisob Hex Hq.
  assert (Hiso : forall x, In x (kproj (qkey on) pre) -> m_time x + 2 * maxZ steps <= m_time on).
  { intros x Hx. rewrite forallb_forall in Hisob. apply Z.leb_le. now apply Hisob. }
  clear Hisob.
  set (l := pre ++ on :: mid ++ off :: post) in *. set (k := qkey on) in *.
  set (M := maxZ steps) in *.
  pose proof (proj1 (wf_abs_spec l) Hwf) as [Hsort Hkeys].
  pose proof (wf_key_no_fail l Hkeys) as Hnf.
  assert (Hnote_on : is_note on = true) by (apply is_note_type; now left).
  assert (Hnote_off : is_note off = true) by (apply is_note_type; now right).
  (* the prefix *)
  assert (Hnf_pre : no_fail pre) by (apply no_fail_app with (on :: mid ++ off :: post); exact Hnf).
  assert (Hs_pre : sorted_time pre = true) by exact (proj1 (sorted_time_app _ _ Hsort)).
  destruct (wfm_prefix pre steps Hne Hpos Hs_pre Hnf_pre) as [Hw0 Hm0].
  set (s0 := quantise_core pre steps) in *.
  (* the note-on is accepted *)
  assert (Hnf1 : no_fail (pre ++ [on])).
  { apply no_fail_app with (mid ++ off :: post). unfold l in Hnf. now rewrite <- app_assoc. }
  destruct (wf_step steps pre s0 on Hnf1 Hw0) as [Hw1 Hret]. specialize (Hret Ton).
  destruct Hw0 as (Hu0 & Hut0 & Hk0). destruct (Hk0 k) as (st & Hr & Ha & Hin).
  pose proof (Hnf1 k) as Hnf1k. unfold k in Hnf1k. rewrite kproj_snoc_same, krun_app in Hnf1k by exact Hnote_on.
  fold k in Hnf1k.
  assert (Hst : forall a, st <> KOpen a).
  { intros a ->. destruct (Hin a eq_refl) as (a' & Hr'). rewrite Hr' in Hnf1k. cbn [krun] in Hnf1k.
    unfold kstep in Hnf1k. rewrite (proj2 (is_on_type on) Ton) in Hnf1k. congruence. }
  assert (Hcan : q_can_open steps s0 on = true).
  { unfold q_can_open. fold k. destruct st as [|a|a b]; cbn in Ha; destruct Ha as [_ Ha]; rewrite Ha;
      [reflexivity|now destruct (Hst a)|]. cbn [nth]. apply negb_true_iff, Z.ltb_ge.
    destruct (krun_last_time false _ _ _ _ Hr) as [[_ E]|(x & Hx & Hb)]; [discriminate|].
    apply kproj_in in Hx. destruct Hx as (Hx & Hxn & Hxk).
    destruct Hm0 as [Hm0 _]. rewrite Forall_forall in Hm0.
    destruct (Hm0 x Hx) as (m & t' & Hmin & Hbound & [Hxm|(E & _)]); [|discriminate].
    assert (Hmk : In m (kproj k pre)).
    { unfold kproj. apply filter_In. split; [exact Hmin|]. rewrite Hxm in Hxn, Hxk.
      rewrite is_note_set_time in Hxn. rewrite qkey_set_time in Hxk. rewrite Hxn, Hxk. apply k2_eqb_refl. }
    specialize (Hiso m Hmk). rewrite Hxm in Hb. cbn [set_time m_time] in Hb.
    pose proof (qnt_near steps on Hne Hpos) as Hnear. fold M in Hnear, Hbound, Hiso. lia. }
  assert (Hs1 : qstep steps s0 on =
                mkq (dset k2_eqb k (qnt steps on) (q_open s0)) (dset k2_eqb k [qnt steps on] (q_tim s0))
                    (q_out s0 ++ [qmove steps on])).
  { rewrite qstep_on by exact Ton. cbv zeta. rewrite Hret, Hcan. reflexivity. }
  set (s1 := qstep steps s0 on) in *.
  assert (Hp0 : popen None (kproj k (q_out s0)) = None).
  { pose proof (krun_popen false _ KNone None st Hr eq_refl) as Hpo.
    destruct (popen None (kproj k (q_out s0))); [|reflexivity]. destruct st; try discriminate. now destruct (Hst a). }
  (* the messages in between *)
  assert (Hnf2 : no_fail ((pre ++ [on]) ++ mid)).
  { apply no_fail_app with (off :: post). unfold l in Hnf. now rewrite <- !app_assoc. }
  destruct (fold_frame steps k mid (pre ++ [on]) s1 Hw1 Hnf2 Hmid) as (Hw2 & Ho2 & Hk2).
  set (s2 := fold_left (qstep steps) mid s1) in *.
  assert (Ho2' : dget k2_eqb k (q_open s2) = Some (qnt steps on)).
  { rewrite Ho2, Hs1. cbn [q_open]. now rewrite dget2_dset, k2_eqb_refl. }
  (* the note-off *)
  set (nt := closest (m_time off) (q_valid steps (qnt steps on) off)).
  assert (Hs3 : q_out (qstep steps s2 off) = q_out s2 ++ [set_time off nt (m_tf off)]).
  { rewrite qstep_off by exact Toff. rewrite Hkoff. fold k. rewrite Ho2'. reflexivity. }
  assert (Hnt : qnt steps on < nt).
  { pose proof (closest_in (m_time off) (q_valid steps (qnt steps on) off) (q_valid_nonempty _ _ _)) as Hc.
    apply q_valid_in in Hc. fold nt in Hc. destruct Hc as [[_ Hc]|[_ Hall]]; [exact Hc|].
    apply existsb_exists in Hex. destruct Hex as (p & Hp & Hlt). apply Z.ltb_lt in Hlt.
    specialize (Hall p Hp). lia. }
  (* the rest *)
  assert (Hcore : quantise_core l steps = fold_left (qstep steps) post (qstep steps s2 off)).
  { unfold quantise_core, l, s2, s1, s0, quantise_core. rewrite fold_left_app. cbn [fold_left].
    rewrite fold_left_app. reflexivity. }
  destruct (fold_grows steps post (qstep steps s2 off)) as (e & He).
  assert (Hkout : kproj k (q_out (quantise_core l steps)) =
                  kproj k (q_out s0) ++ [qmove steps on; set_time off nt (m_tf off)] ++ kproj k e).
  { rewrite Hcore, He, Hs3, !kproj_app, Hk2, Hs1. cbn [q_out]. rewrite kproj_app.
    assert (E1 : kproj k [qmove steps on] = [qmove steps on]).
    { rewrite kproj_cons_eq. change (qkey (qmove steps on)) with k. change (is_note (qmove steps on)) with (is_note on).
      now rewrite Hnote_on, k2_eqb_refl. }
    assert (E2 : kproj k [set_time off nt (m_tf off)] = [set_time off nt (m_tf off)]).
    { rewrite kproj_cons_eq. rewrite qkey_set_time, is_note_set_time, Hkoff. fold k.
      now rewrite Hnote_off, k2_eqb_refl. }
    rewrite E1, E2, <- !app_assoc. reflexivity. }
  (* the sweep and the sort *)
  rewrite quantise_eq in Hq by exact Hne. injection Hq as <-.
  assert (Hnfo : forall k', krun false KNone (kproj k' (q_out (quantise_core l steps))) <> None).
  { intros k' Hk'. destruct (C05_wf_core l steps Hkeys k') as (st' & Hr' & _). congruence. }
  pose proof (sweep_dz _ Hnfo k) as Hdz. rewrite Hkout in Hdz. unfold dz in Hdz.
  rewrite dzc_app, Hp0 in Hdz. cbn [app dzc] in Hdz.
  change (m_time (set_time off nt (m_tf off)) - m_time (qmove steps on)) with (nt - qnt steps on) in Hdz.
  assert (Z0 : nt - qnt steps on <=? 0 = false) by (apply Z.leb_gt; lia). rewrite Z0 in Hdz.
  assert (Hboth : forall x, In x [qmove steps on; set_time off nt (m_tf off)] ->
                            In x (sort_abs (remove_indices (q_out (quantise_core l steps))
                                     (smothered (index_from 0 (q_out (quantise_core l steps))) [])))).
  { intros x Hx. apply sort_abs_in. change (In x (sweep (q_out (quantise_core l steps)))).
    assert (Hk' : In x (kproj k (sweep (q_out (quantise_core l steps))))).
    { rewrite Hdz. apply in_or_app. left. apply in_or_app. right. apply in_or_app. left. exact Hx. }
    now apply kproj_in in Hk'. }
  split; [apply Hboth; now left|]. exists nt. split; [exact Hnt|]. apply Hboth. right. now left.
Qed.

(* non-vacuity: a note on channel 0 isolated from an earlier note of its key, with other events in between *)
Example C05_survive_example :
  let pre := [mk_on 0 60 90 0 false; mk_off 0 60 4 false; mk_cc 0 7 100 10 false] in
  let on := mk_on 0 60 90 31 false in let mid := [mk_on 1 60 80 33 false] in
  let off := mk_off 0 60 47 false in let post := [mk_off 1 60 50 false] in
  wf_abs (pre ++ on :: mid ++ off :: post) = true /\ pos_steps [10] = true /\
  kproj (qkey on) mid = [] /\ qkey off = qkey on /\
  forallb (fun x => m_time x + 2 * maxZ [10] <=? m_time on) (kproj (qkey on) pre) = true /\
  existsb (fun p => qnt [10] on <? p) (positions (m_time off) [10]) = true /\
  exists out, quantise (pre ++ on :: mid ++ off :: post) [10] = Ok out /\
    map (fun m => (m_type m, m_chan m, m_time m)) out =
    [(NOTE_ON, 0, 0); (CONTROL_CHANGE, 0, 10); (NOTE_OFF, 0, 10); (NOTE_ON, 0, 30); (NOTE_ON, 1, 30);
     (NOTE_OFF, 0, 50); (NOTE_OFF, 1, 50)].
Proof. vm_compute. repeat split. eexists. split; reflexivity. Qed.
