(* Bars.v -- Bar constructor (scoda/elements/bar.py, fixed code) and Sequence.sequences_split_bars. *)
From Model Require Export Pairing Util.

Definition is_ts (m : msg) : bool := mtype_eqb (m_type m) TIME_SIGNATURE.
Definition is_ks (m : msg) : bool := mtype_eqb (m_type m) KEY_SIGNATURE.

(* int(numerator * PPQN / (denominator / 4)); denominators are positive *)
Definition bar_capacity (num den : Z) : Z := (num * PPQN * 4) / den.

(* value-level effect of Bar.__init__ on the relative list of its sequence.  The constructor mutates the sequence
   before it raises, so the list is returned in the error case as well. *)
Definition bar_init_full (rel : list msg) (num den : Z) : list msg * option err :=
  let r := normalise rel in
  let cap := bar_capacity num den in
  let d := dur_rel r in
  if cap <? d then (r, Some BarErr) else
  let r := if d <? cap then pad r cap false else r in
  let tss := filter is_ts r in
  if (1 <? lenZ tss) then (r, Some BarErr) else
  if negb (forallb (fun m => Z.eqb (m_num m) num && Z.eqb (m_den m) den) tss) then (r, Some BarErr) else
  (mk_ts 0 num den 0 false :: filter (fun m => negb (is_ts m)) r, None).
Definition bar_init (rel : list msg) (num den : Z) : result (list msg) :=
  match bar_init_full rel num den with (r, None) => Ok r | (_, Some e) => Err e end.

Record bar : Set := mkbar { b_rel : list msg; b_num : Z; b_den : Z; b_key : option Key }.

(* one round of the splitting loop for one track: (bar content, remainder, has_remainder) *)
Definition sb_track (qnl : bool) (len : Z) (rel : list msg) : list msg * list msg * bool :=
  let '(p0, rest, more) := match seq_split rel [len] with
                           | p0 :: p1 :: _ => (p0, p1, true)
                           | [p0] => (p0, [], false)
                           | [] => ([], [], false)
                           end in
  let p0' := if qnl then to_rel (quantise_note_lengths (to_abs p0) get_default_note_values PPQN true) else p0 in
  (p0', rest, more).

Fixpoint sb_loop (fuel : nat) (qnl : bool) (seqs : list (list msg)) (tsq ksq : list msg) (cur num den : Z)
         (key : option Key) (acc : list (list bar)) : result (list (list bar)) :=
  match fuel with
  | O => Err OutOfFuel
  | S f =>
      let '(num, den, tsq) := match tsq with
                              | m :: r => if m_time m <=? cur then (m_num m, m_den m, r) else (num, den, tsq)
                              | [] => (num, den, tsq) end in
      let '(key, ksq) := match ksq with
                         | m :: r => if m_time m <=? cur then (m_key m, r) else (key, ksq)
                         | [] => (key, ksq) end in
      let len := (PPQN * num * 4) / den in
      let cur := cur + len in
      let rounds := map (sb_track qnl len) seqs in
      let more := existsb (fun x => snd x) rounds in
      let bars := map (fun x => bar_init (fst (fst x)) num den) rounds in
      (* any BarException aborts the call *)
      match fold_right (fun b acc' => match b, acc' with
                                      | Ok r, Ok l => Ok (mkbar r num den key :: l)
                                      | Err e, _ => Err e
                                      | _, Err e => Err e end) (Ok []) bars with
      | Err e => Err e
      | Ok newbars =>
          let acc' := map (fun ab : list bar * bar => fst ab ++ [snd ab]) (combine acc newbars) in
          if more then sb_loop f qnl (map (fun x => snd (fst x)) rounds) tsq ksq cur num den key acc'
          else Ok acc'
      end
  end.

(* rels : relative lists of all input sequences; meta_abs : absolute list of the meta track (stored order) *)
Definition split_bars (rels : list (list msg)) (meta_abs : list msg) (qnl : bool) : result (list (list bar)) :=
  let tsq := filter is_ts meta_abs in
  let tsq := match tsq with [] => [mk_ts 0 4 4 0 false] | _ => tsq end in
  let ksq := filter is_ks meta_abs in
  let fuel := S (S (Z.to_nat (fold_right Z.max 0 (map dur_rel rels)))) in
  sb_loop fuel qnl rels tsq ksq 0 4 4 None (map (fun _ => []) rels).
