(* C05_sweep -- the zero-length sweep (smothered + remove_indices) on a list whose keys alternate (non-strictly)
   leaves a list whose keys alternate strictly. *)
From Coq Require Import ZArith List Bool Lia Permutation.
From Model Require Import Base Seq Pairing.
From Proofs Require Import C05_closest C05_proofs C05_wf.
Import ListNotations.
Open Scope Z_scope.

(* ------------------------------------------------------------------ smothered, one element at a time *)
Definition stab : Set := list (k2 * (nat * Z)).

Definition sm_out (tbl : stab) (im : nat * msg) : list nat :=
  let m := snd im in
  if is_on m then [] else
  if is_off m then
    match dget k2_eqb (qkey m) tbl with
    | Some (j, t) => if m_time m - t <=? 0 then [j; fst im] else []
    | None => []
    end
  else [].

Definition sm_tbl (tbl : stab) (im : nat * msg) : stab :=
  let m := snd im in
  if is_on m then dset k2_eqb (qkey m) (fst im, m_time m) tbl else
  if is_off m then
    match dget k2_eqb (qkey m) tbl with
    | Some _ => ddel k2_eqb (qkey m) tbl
    | None => tbl
    end
  else tbl.

Lemma smothered_cons im l tbl : smothered (im :: l) tbl = sm_out tbl im ++ smothered l (sm_tbl tbl im).
Proof.
  destruct im as [i m]. unfold sm_out, sm_tbl, is_on, is_off, mtype_eqb. cbn [smothered fst snd].
  fold (qkey m). destruct (m_type m); cbn; try reflexivity.
  destruct (dget k2_eqb (qkey m) tbl) as [[j t]|]; reflexivity.
Qed.

Definition stbl (l : list (nat * msg)) (tbl : stab) : stab := fold_left sm_tbl l tbl.

Lemma smothered_app l1 : forall l2 tbl,
  smothered (l1 ++ l2) tbl = smothered l1 tbl ++ smothered l2 (stbl l1 tbl).
Proof.
  induction l1 as [|im l1 IH]; intros l2 tbl; [reflexivity|].
  cbn [app]. rewrite !smothered_cons, IH, app_assoc. reflexivity.
Qed.

Lemma smothered_one im tbl : smothered [im] tbl = sm_out tbl im.
Proof. rewrite smothered_cons. cbn [smothered]. apply app_nil_r. Qed.

Lemma stbl_snoc l im tbl : stbl (l ++ [im]) tbl = sm_tbl (stbl l tbl) im.
Proof. unfold stbl. now rewrite fold_left_app. Qed.

Lemma index_from_snoc {A} (o : list A) x : index_from 0 (o ++ [x]) = index_from 0 o ++ [(length o, x)].
Proof. rewrite index_from_app. reflexivity. Qed.

(* ------------------------------------------------------------------ indexed lists *)
Definition nin (S : list nat) (ia : nat * msg) : bool := negb (existsb (Nat.eqb (fst ia)) S).

Lemma nin_app S E ia : nin (S ++ E) ia = nin S ia && nin E ia.
Proof. unfold nin. rewrite existsb_app. apply negb_orb. Qed.

Lemma nin_nil ia : nin [] ia = true.
Proof. reflexivity. Qed.

Definition kprojI (k : k2) (l : list (nat * msg)) : list (nat * msg) :=
  filter (fun ia => is_note (snd ia) && k2_eqb k (qkey (snd ia))) l.

Lemma kproj_map k l : kproj k (map snd l) = map snd (kprojI k l).
Proof. exact (filter_map_snd (fun m => is_note m && k2_eqb k (qkey m)) l). Qed.

Lemma kprojI_snoc k l ia :
  kprojI k (l ++ [ia]) = kprojI k l ++ (if is_note (snd ia) && k2_eqb k (qkey (snd ia)) then [ia] else []).
Proof. exact (filter_snoc (fun ia => is_note (snd ia) && k2_eqb k (qkey (snd ia))) l ia). Qed.

Lemma map_fst_index_from {A} (l : list A) : forall k, map fst (index_from k l) = seq k (length l).
Proof. induction l as [|x l IH]; intros k; cbn; [reflexivity|now rewrite IH]. Qed.

Lemma index_from_NoDup {A} (l : list A) k : NoDup (index_from k l).
Proof. apply (NoDup_map_inv fst). rewrite map_fst_index_from. apply seq_NoDup. Qed.

Lemma index_from_lt {A} (l : list A) i x : In (i, x) (index_from 0 l) -> (i < length l)%nat.
Proof.
  intros H. apply index_from_in in H. destruct H as [_ H]. rewrite Nat.sub_0_r in H.
  apply nth_error_Some. congruence.
Qed.

Lemma smothered_lt (o : list msg) i : In i (smothered (index_from 0 o) []) -> (i < length o)%nat.
Proof.
  intros Hi.
  destruct (smothered_notes (index_from 0 o) (index_from 0 o) [] (incl_refl _) (Forall_nil _) i Hi) as (m & Hm & _).
  eapply index_from_lt; eauto.
Qed.

(* ------------------------------------------------------------------ the invariant *)
Definition le_end (st' : kst) (b : Z) : Prop :=
  st' = KNone \/ exists a' b', st' = KClosed a' b' /\ b' <= b.

Lemma le_end_mono st' b c : le_end st' b -> b <= c -> le_end st' c.
Proof. intros [->|(a' & b' & -> & H)] Hc; [now left|right; exists a', b'; split; [reflexivity|lia]]. Qed.

(* st: state of key k in the whole prefix (non-strict run); T: table of the sweep; RI: the indexed survivors *)
Definition krel (k : k2) (st : kst) (T : stab) (RI : list (nat * msg)) : Prop :=
  match st with
  | KNone => dget k2_eqb k T = None /\ krun true KNone (map snd (kprojI k RI)) = Some KNone
  | KClosed a b => dget k2_eqb k T = None /\
                   exists st', krun true KNone (map snd (kprojI k RI)) = Some st' /\ le_end st' b
  | KOpen a => exists j x X st'',
                 dget k2_eqb k T = Some (j, a) /\ kprojI k RI = X ++ [(j, x)] /\ is_on x = true /\ m_time x = a /\
                 krun true KNone (map snd X) = Some st'' /\ le_end st'' a
  end.

Lemma krel_ext k st T T' RI RI' :
  dget k2_eqb k T' = dget k2_eqb k T -> kprojI k RI' = kprojI k RI -> krel k st T RI -> krel k st T' RI'.
Proof. intros H1 H2. unfold krel. rewrite H1, H2. auto. Qed.

(* dropping the zero-length (on, off) pairs of an alternating list *)
Fixpoint dzc (o : option msg) (L : list msg) : list msg :=
  match L with
  | [] => []
  | m :: L' => match o with
               | None => dzc (Some m) L'
               | Some on => (if m_time m - m_time on <=? 0 then [] else [on; m]) ++ dzc None L'
               end
  end.

Definition dz (L : list msg) : list msg :=
  dzc None L ++ match popen None L with Some on => [on] | None => [] end.

Lemma dzc_snoc L : forall o m,
  dzc o (L ++ [m]) = dzc o L ++ match popen o L with
                                | Some on => if m_time m - m_time on <=? 0 then [] else [on; m]
                                | None => [] end.
Proof.
  induction L as [|x L IH]; intros o m; cbn [app dzc popen].
  - destruct o; [now rewrite app_nil_r|reflexivity].
  - destruct o; rewrite IH; [now rewrite app_assoc|reflexivity].
Qed.

Definition sweep_S (o : list msg) : list nat := smothered (index_from 0 o) [].
Definition sweep_T (o : list msg) : stab := stbl (index_from 0 o) [].
Definition sweep_RI (o : list msg) : list (nat * msg) := filter (nin (sweep_S o)) (index_from 0 o).

Definition sweep_inv (o : list msg) : Prop :=
  uniq (sweep_T o) /\
  forall k, (exists st, krun false KNone (kproj k o) = Some st /\ krel k st (sweep_T o) (sweep_RI o)) /\
            map snd (kprojI k (sweep_RI o)) = dz (kproj k o).

Lemma sweep_S_snoc o x : sweep_S (o ++ [x]) = sweep_S o ++ sm_out (sweep_T o) (length o, x).
Proof. unfold sweep_S, sweep_T. now rewrite index_from_snoc, smothered_app, smothered_one. Qed.

Lemma sweep_T_snoc o x : sweep_T (o ++ [x]) = sm_tbl (sweep_T o) (length o, x).
Proof. unfold sweep_T. now rewrite index_from_snoc, stbl_snoc. Qed.

Lemma sweep_RI_in o ia : In ia (sweep_RI o) -> In ia (index_from 0 o).
Proof. unfold sweep_RI. intros H. apply filter_In in H. tauto. Qed.

Lemma sweep_RI_NoDup o : NoDup (sweep_RI o).
Proof. apply NoDup_filter, index_from_NoDup. Qed.

Lemma nin_self o x : nin (sweep_S o) (length o, x) = true.
Proof.
  unfold nin. apply negb_true_iff. apply not_true_iff_false. intros H. apply existsb_exists in H.
  destruct H as (i & Hi & E). apply Nat.eqb_eq in E. cbn [fst] in E. subst i.
  apply smothered_lt in Hi. lia.
Qed.

(* the survivors after one more element, when nothing new is removed *)
Lemma sweep_RI_snoc_keep o x : sm_out (sweep_T o) (length o, x) = [] ->
  sweep_RI (o ++ [x]) = sweep_RI o ++ [(length o, x)].
Proof.
  intros H. unfold sweep_RI. rewrite sweep_S_snoc, H, app_nil_r, index_from_snoc, filter_app.
  cbn [filter]. now rewrite nin_self.
Qed.

(* ... and when the pair (j, n) is removed *)
Lemma sweep_RI_snoc_drop o x j : sm_out (sweep_T o) (length o, x) = [j; length o] ->
  sweep_RI (o ++ [x]) = filter (nin [j; length o]) (sweep_RI o).
Proof.
  intros H. unfold sweep_RI. rewrite sweep_S_snoc, H, index_from_snoc, filter_app.
  cbn [filter]. rewrite nin_app. replace (nin [j; length o] (length o, x)) with false.
  - rewrite andb_false_r, app_nil_r, filter_filter. apply filter_ext. intros ia. apply nin_app.
  - unfold nin. cbn [existsb fst]. now rewrite Nat.eqb_refl, orb_true_r.
Qed.

Lemma nin_pair_other o j i y : In (i, y) (sweep_RI o) -> i <> j -> nin [j; length o] (i, y) = true.
Proof.
  intros Hin Hne. apply sweep_RI_in, index_from_lt in Hin. unfold nin. cbn [existsb fst].
  destruct (Nat.eqb_spec i j); [congruence|]. destruct (Nat.eqb_spec i (length o)); [lia|reflexivity].
Qed.

Lemma nin_pair_self (o : list msg) j y : nin [j; length o] (j, y) = false.
Proof. unfold nin. cbn [existsb fst]. now rewrite Nat.eqb_refl. Qed.

Lemma RI_fun o i x y : In (i, x) (sweep_RI o) -> In (i, y) (sweep_RI o) -> x = y.
Proof. intros H1 H2. apply sweep_RI_in in H1, H2. eapply index_from_fun; eauto. Qed.

Lemma kprojI_in k l ia : In ia (kprojI k l) -> In ia l /\ is_note (snd ia) = true /\ qkey (snd ia) = k.
Proof.
  unfold kprojI. intros H. apply filter_In in H. destruct H as [H1 H2]. apply andb_true_iff in H2.
  destruct H2 as [H2 H3]. apply k2_eqb_eq in H3. auto.
Qed.

(* dropping the last surviving message of key k0 (index j) *)
Lemma drop_other o j x0 k0 k X :
  kprojI k0 (sweep_RI o) = X ++ [(j, x0)] -> k <> k0 ->
  kprojI k (filter (nin [j; length o]) (sweep_RI o)) = kprojI k (sweep_RI o).
Proof.
  intros HX Hk. unfold kprojI at 1. rewrite filter_comm. fold (kprojI k (sweep_RI o)).
  apply filter_true_in. intros [i y] Hin. apply kprojI_in in Hin. destruct Hin as (Hin & _ & Hkey). cbn [snd] in Hkey.
  apply nin_pair_other; [exact Hin|]. intros ->.
  assert (H0 : In (j, x0) (kprojI k0 (sweep_RI o))) by (rewrite HX; apply in_or_app; right; now left).
  apply kprojI_in in H0. destruct H0 as (H0 & _ & Hkey0). cbn [snd] in Hkey0.
  rewrite (RI_fun o j y x0 Hin H0) in Hkey. congruence.
Qed.

Lemma drop_same o j x0 k0 X :
  kprojI k0 (sweep_RI o) = X ++ [(j, x0)] ->
  kprojI k0 (filter (nin [j; length o]) (sweep_RI o)) = X.
Proof.
  intros HX. unfold kprojI at 1. rewrite filter_comm. fold (kprojI k0 (sweep_RI o)). rewrite HX, filter_app.
  cbn [filter]. rewrite nin_pair_self, app_nil_r.
  assert (Hnd : NoDup (X ++ [(j, x0)])).
  { rewrite <- HX. unfold kprojI. apply NoDup_filter, sweep_RI_NoDup. }
  assert (H0 : In (j, x0) (sweep_RI o)).
  { assert (H : In (j, x0) (kprojI k0 (sweep_RI o))) by (rewrite HX; apply in_or_app; right; now left).
    now apply kprojI_in in H. }
  apply filter_true_in. intros [i y] Hin.
  assert (Hy : In (i, y) (sweep_RI o)).
  { assert (H : In (i, y) (kprojI k0 (sweep_RI o))) by (rewrite HX; apply in_or_app; now left).
    now apply kprojI_in in H. }
  apply nin_pair_other; [exact Hy|]. intros ->.
  rewrite (RI_fun o j y x0 Hy H0) in Hin.
  apply NoDup_remove_2 in Hnd. rewrite app_nil_r in Hnd. contradiction.
Qed.

Lemma kstep_off_inv strict st m st' : is_on m = false -> kstep strict st m = Some st' ->
  exists a, st = KOpen a /\ st' = KClosed a (m_time m) /\ (if strict then a < m_time m else a <= m_time m).
Proof.
  unfold kstep. intros ->. destruct st as [|a|a b]; try discriminate.
  destruct strict.
  - destruct (a <? m_time m) eqn:E; [|discriminate]. intros [= <-]. exists a. apply Z.ltb_lt in E. auto.
  - destruct (a <=? m_time m) eqn:E; [|discriminate]. intros [= <-]. exists a. apply Z.leb_le in E. auto.
Qed.

Lemma kstep_on_inv strict st m st' : is_on m = true -> kstep strict st m = Some st' ->
  st' = KOpen (m_time m) /\ (st = KNone \/ exists a b, st = KClosed a b /\ b <= m_time m).
Proof.
  unfold kstep. intros ->. destruct st as [|a|a b]; try discriminate.
  - intros [= <-]. split; [reflexivity|now left].
  - destruct (b <=? m_time m) eqn:E; [|discriminate]. intros [= <-]. apply Z.leb_le in E.
    split; [reflexivity|]. right. exists a, b. auto.
Qed.

Lemma kstep_on_le_end strict st'' x : is_on x = true -> le_end st'' (m_time x) ->
  kstep strict st'' x = Some (KOpen (m_time x)).
Proof.
  intros Hon [->|(a' & b' & -> & Hle)]; unfold kstep; rewrite Hon; [reflexivity|].
  apply Z.leb_le in Hle. now rewrite Hle.
Qed.

Lemma is_note_on_off m : is_note m = true -> is_on m = false -> is_off m = true.
Proof. unfold is_note. intros H1 H2. rewrite H2 in H1. exact H1. Qed.

Lemma sweep_step o x : (forall k, krun false KNone (kproj k (o ++ [x])) <> None) ->
  sweep_inv o -> sweep_inv (o ++ [x]).
Proof.
  intros Hnf [Hu Hk]. set (n := length o).
  assert (Heq : forall a b, k2_eqb a b = true <-> a = b) by apply k2_eqb_eq.
  destruct (is_note x) eqn:N.
  2:{ (* not a note: nothing changes *)
    assert (Hon : is_on x = false) by (unfold is_note in N; now apply orb_false_iff in N).
    assert (Hoff : is_off x = false) by (unfold is_note in N; now apply orb_false_iff in N).
    assert (Ho : sm_out (sweep_T o) (n, x) = []) by (unfold sm_out; cbn [snd]; now rewrite Hon, Hoff).
    assert (Ht : sweep_T (o ++ [x]) = sweep_T o).
    { rewrite sweep_T_snoc. unfold sm_tbl. cbn [snd]. now rewrite Hon, Hoff. }
    split; [now rewrite Ht|]. intros k. destruct (Hk k) as [(st & Hr & Hrel) Hdz].
    assert (HI : kprojI k (sweep_RI (o ++ [x])) = kprojI k (sweep_RI o)).
    { rewrite (sweep_RI_snoc_keep o x Ho), kprojI_snoc. cbn [snd]. rewrite N. apply app_nil_r. }
    rewrite kproj_snoc_other by now rewrite N. split; [|now rewrite HI].
    exists st. split; [exact Hr|].
    rewrite Ht. eapply krel_ext; [reflexivity|exact HI|exact Hrel]. }
  set (k0 := qkey x).
  destruct (Hk k0) as [(st0 & Hr0 & Hrel0) Hdz0].
  pose proof (krun_popen false _ KNone None st0 Hr0 eq_refl) as Hpo0.
  pose proof (Hnf k0) as Hnf0. unfold k0 in Hnf0. rewrite kproj_snoc_same, krun_app in Hnf0 by exact N.
  fold k0 in Hnf0. rewrite Hr0 in Hnf0. cbn [krun] in Hnf0.
  destruct (kstep false st0 x) as [st1|] eqn:KS; [|congruence]. clear Hnf0.
  assert (Hrun0 : krun false KNone (kproj k0 (o ++ [x])) = Some st1).
  { unfold k0. rewrite kproj_snoc_same, krun_app by exact N. fold k0. rewrite Hr0. cbn [krun]. now rewrite KS. }
  (* frame for the other keys *)
  assert (Hframe : forall k, k <> k0 ->
            dget k2_eqb k (sweep_T (o ++ [x])) = dget k2_eqb k (sweep_T o) ->
            kprojI k (sweep_RI (o ++ [x])) = kprojI k (sweep_RI o) ->
            (exists st, krun false KNone (kproj k (o ++ [x])) = Some st /\
                        krel k st (sweep_T (o ++ [x])) (sweep_RI (o ++ [x]))) /\
            map snd (kprojI k (sweep_RI (o ++ [x]))) = dz (kproj k (o ++ [x]))).
  { intros k Hne H1 H2. destruct (Hk k) as [(st & Hr & Hrel) Hdz].
    assert (Hkp : kproj k (o ++ [x]) = kproj k o).
    { apply kproj_snoc_other. destruct (k2_eqb k (qkey x)) eqn:E; [|apply andb_false_r].
      apply k2_eqb_eq in E. now destruct Hne. }
    rewrite Hkp, H2. split; [|exact Hdz]. exists st. split; [exact Hr|]. eapply krel_ext; eauto. }
  assert (Hneq : forall k, k <> k0 -> k2_eqb k k0 = false).
  { intros k Hne. destruct (k2_eqb k k0) eqn:E; [|reflexivity]. apply k2_eqb_eq in E. now destruct Hne. }
  destruct (is_on x) eqn:Hon.
  - (* NOTE_ON *)
    destruct (kstep_on_inv _ _ _ _ Hon KS) as [-> Hst0].
    assert (Ho : sm_out (sweep_T o) (n, x) = []) by (unfold sm_out; cbn [snd]; now rewrite Hon).
    assert (Ht : sweep_T (o ++ [x]) = dset k2_eqb k0 (n, m_time x) (sweep_T o)).
    { rewrite sweep_T_snoc. unfold sm_tbl. cbn [snd fst]. now rewrite Hon. }
    split; [rewrite Ht; now apply uniq_dset|].
    intros k. destruct (k2_eqb k k0) eqn:E.
    + apply k2_eqb_eq in E. subst k.
      assert (HI : kprojI k0 (sweep_RI (o ++ [x])) = kprojI k0 (sweep_RI o) ++ [(n, x)]).
      { rewrite (sweep_RI_snoc_keep o x Ho), kprojI_snoc. cbn [snd]. fold k0. now rewrite N, k2_eqb_refl. }
      split.
      2:{ rewrite HI, map_app, Hdz0. unfold k0 at 2. rewrite kproj_snoc_same by exact N. fold k0.
          assert (Hp0 : popen None (kproj k0 o) = None).
          { destruct (popen None (kproj k0 o)); [|reflexivity].
            destruct Hst0 as [->|(a & b & -> & _)]; discriminate. }
          unfold dz. rewrite dzc_snoc, popen_snoc, Hp0, !app_nil_r. reflexivity. }
      exists (KOpen (m_time x)). split; [exact Hrun0|].
      rewrite Ht, (sweep_RI_snoc_keep o x Ho). cbn [krel].
      assert (Hst'' : exists st'', krun true KNone (map snd (kprojI k0 (sweep_RI o))) = Some st'' /\
                                   le_end st'' (m_time x)).
      { destruct Hst0 as [->|(a & b & -> & Hb)]; cbn [krel] in Hrel0.
        - exists KNone. split; [tauto|now left].
        - destruct Hrel0 as (_ & st' & H1 & H2). exists st'. split; [exact H1|]. eapply le_end_mono; eauto. }
      destruct Hst'' as (st'' & H1 & H2).
      exists n, x, (kprojI k0 (sweep_RI o)), st''. split; [now rewrite dget2_dset, k2_eqb_refl|].
      split; [|auto]. rewrite kprojI_snoc. cbn [snd]. fold k0. now rewrite N, k2_eqb_refl.
    + assert (Hne : k <> k0) by (intros ->; rewrite k2_eqb_refl in E; discriminate).
      apply Hframe; [exact Hne|..].
      * now rewrite Ht, dget2_dset, E.
      * rewrite (sweep_RI_snoc_keep o x Ho), kprojI_snoc. cbn [snd]. fold k0. now rewrite E, andb_false_r, app_nil_r.
  - (* NOTE_OFF *)
    pose proof (is_note_on_off x N Hon) as Hoff.
    destruct (kstep_off_inv _ _ _ _ Hon KS) as (a & -> & -> & Hle).
    cbn [krel] in Hrel0. destruct Hrel0 as (j & x0 & X & st'' & HT & HX & Hon0 & Ht0 & Hrun'' & Hle'').
    assert (Ht : sweep_T (o ++ [x]) = ddel k2_eqb k0 (sweep_T o)).
    { rewrite sweep_T_snoc. unfold sm_tbl. cbn [snd fst]. rewrite Hon, Hoff. fold k0. now rewrite HT. }
    split; [rewrite Ht; now apply uniq_ddel|].
    destruct (popen None (kproj k0 o)) as [on0|] eqn:Hp0; [|discriminate]. clear Hpo0.
    assert (Hdzx : map snd X = dzc None (kproj k0 o) /\ x0 = on0).
    { rewrite HX, map_app in Hdz0. unfold dz in Hdz0. rewrite Hp0 in Hdz0. cbn [map snd] in Hdz0.
      now apply app_inj_tail in Hdz0. }
    destruct Hdzx as [HdzX ->].
    assert (Hkp0 : kproj k0 (o ++ [x]) = kproj k0 o ++ [x]) by (unfold k0; now apply kproj_snoc_same).
    assert (Hx0 : krun true KNone (map snd (X ++ [(j, on0)])) = Some (KOpen a)).
    { rewrite map_app, krun_app, Hrun''. cbn [map snd krun]. subst a. now rewrite (kstep_on_le_end true st'' on0 Hon0 Hle''). }
    destruct (m_time x - a <=? 0) eqn:Z0; [apply Z.leb_le in Z0|apply Z.leb_gt in Z0].
    + (* zero length: both are removed *)
      assert (Ho : sm_out (sweep_T o) (n, x) = [j; n]).
      { unfold sm_out. cbn [snd fst]. rewrite Hon, Hoff. fold k0. rewrite HT.
        apply Z.leb_le in Z0. now rewrite Z0. }
      rewrite (sweep_RI_snoc_drop o x j Ho).
      intros k. destruct (k2_eqb k k0) eqn:E.
      * apply k2_eqb_eq in E. subst k. split.
        2:{ rewrite (drop_same o j on0 k0 X HX), HdzX, Hkp0. unfold dz.
            rewrite dzc_snoc, popen_snoc, Hp0, Ht0. apply Z.leb_le in Z0. now rewrite Z0, !app_nil_r. }
        exists (KClosed a (m_time x)). split; [exact Hrun0|].
        rewrite Ht. cbn [krel]. split; [now rewrite dget2_ddel, k2_eqb_refl|].
        exists st''. rewrite (drop_same o j on0 k0 X HX). split; [exact Hrun''|]. eapply le_end_mono; [exact Hle''|]. cbn in Hle. lia.
      * assert (Hne : k <> k0) by (intros ->; rewrite k2_eqb_refl in E; discriminate).
        destruct (Hk k) as [(st & Hr & Hrel) Hdz].
        assert (Hkp : kproj k (o ++ [x]) = kproj k o).
        { apply kproj_snoc_other. fold k0. now rewrite E, andb_false_r. }
        rewrite Hkp, (drop_other o j on0 k0 k X HX Hne). split; [|exact Hdz].
        exists st. split; [exact Hr|].
        eapply krel_ext; [| |exact Hrel].
        -- now rewrite Ht, dget2_ddel, E.
        -- now apply (drop_other o j on0 k0 k X HX).
    + (* positive length: kept *)
      assert (Ho : sm_out (sweep_T o) (n, x) = []).
      { unfold sm_out. cbn [snd fst]. rewrite Hon, Hoff. fold k0. rewrite HT.
        apply Z.leb_gt in Z0. now rewrite Z0. }
      intros k. destruct (k2_eqb k k0) eqn:E.
      * apply k2_eqb_eq in E. subst k.
        assert (HI : kprojI k0 (sweep_RI (o ++ [x])) = kprojI k0 (sweep_RI o) ++ [(n, x)]).
        { rewrite (sweep_RI_snoc_keep o x Ho), kprojI_snoc. cbn [snd]. fold k0. now rewrite N, k2_eqb_refl. }
        split.
        2:{ rewrite HI, HX, !map_app, HdzX, Hkp0. cbn [map snd]. unfold dz.
            rewrite dzc_snoc, popen_snoc, Hp0, Ht0. apply Z.leb_gt in Z0. rewrite Z0, app_nil_r, <- app_assoc.
            reflexivity. }
        exists (KClosed a (m_time x)). split; [exact Hrun0|].
        rewrite Ht, (sweep_RI_snoc_keep o x Ho). cbn [krel]. split; [now rewrite dget2_ddel, k2_eqb_refl|].
        exists (KClosed a (m_time x)). split.
        -- rewrite kprojI_snoc. cbn [snd]. fold k0. rewrite N, k2_eqb_refl. cbn [andb].
           rewrite HX, map_app, krun_app, Hx0. cbn [map snd krun]. unfold kstep. rewrite Hon.
           assert (Hlt : a <? m_time x = true) by (apply Z.ltb_lt; lia). now rewrite Hlt.
        -- right. exists a, (m_time x). split; [reflexivity|lia].
      * assert (Hne : k <> k0) by (intros ->; rewrite k2_eqb_refl in E; discriminate).
        apply Hframe; [exact Hne|..].
        -- now rewrite Ht, dget2_ddel, E.
        -- rewrite (sweep_RI_snoc_keep o x Ho), kprojI_snoc. cbn [snd]. fold k0. now rewrite E, andb_false_r, app_nil_r.
Qed.

Lemma sweep_inv_all o : (forall k, krun false KNone (kproj k o) <> None) -> sweep_inv o.
Proof.
  induction o as [|x o IH] using rev_ind; intros Hnf.
  - split; [constructor|]. intros k. split; [|reflexivity]. exists KNone. split; [reflexivity|]. cbn. split; reflexivity.
  - apply sweep_step; [exact Hnf|]. apply IH. intros k Hk. apply (Hnf k).
    rewrite kproj_snoc, krun_app, Hk. reflexivity.
Qed.

(* the swept list *)
Definition sweep (o : list msg) : list msg := remove_indices o (smothered (index_from 0 o) []).

Lemma sweep_eq o : sweep o = map snd (sweep_RI o).
Proof. reflexivity. Qed.

Lemma sweep_wf_key o : (forall k, exists st, krun false KNone (kproj k o) = Some st /\ kst_closed st) ->
  forall k, wf_key k (sweep o) = true.
Proof.
  intros H k.
  assert (Hnf : forall k, krun false KNone (kproj k o) <> None).
  { intros k' Hk'. destruct (H k') as (st & Hr & _). congruence. }
  destruct (sweep_inv_all o Hnf) as [_ Hk]. destruct (Hk k) as [(st & Hr & Hrel) _].
  destruct (H k) as (st' & Hr' & Hc). rewrite Hr in Hr'. injection Hr' as <-.
  unfold wf_key. rewrite sweep_eq, kproj_map.
  destruct st as [|a|a b]; cbn [krel kst_closed] in *; [| contradiction |].
  - destruct Hrel as [_ ->]. reflexivity.
  - destruct Hrel as (_ & st' & -> & [->|(a' & b' & -> & _)]); reflexivity.
Qed.

(* per key, the sweep drops exactly the zero-length pairs *)
Lemma sweep_dz o : (forall k, krun false KNone (kproj k o) <> None) ->
  forall k, kproj k (sweep o) = dz (kproj k o).
Proof.
  intros Hnf k. destruct (sweep_inv_all o Hnf) as [_ Hk]. destruct (Hk k) as [_ H].
  now rewrite sweep_eq, kproj_map.
Qed.
