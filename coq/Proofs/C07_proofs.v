(* C07 -- normalise returns a well-formed sequence with the same duration and sound.
   Everything is about Model.Seq.normalise (fold of nstep, final wait, cleanup).
   Part 1: the specification predicates, written independently of normalise.
   Part 2: tests (vm_compute) on concrete ill-formed inputs.
   Part 3: proofs. *)
From Coq Require Import ZArith List Bool Lia.
From Model Require Import Base Seq.
Import ListNotations.
Open Scope Z_scope.

(* ================================================================ Part 1: specification predicates *)

(* hypothesis of every theorem: a WAIT never carries a negative time *)
Definition nonneg_waits (l : list msg) : bool := forallb (fun m => negb (is_wait m) || (0 <=? m_time m)) l.

(* m is a message of (channel, pitch) k *)
Definition is_key (k : k2) (m : msg) : bool := k2_eqb k (m_chan m, m_note m).

(* clause 1.  [alt k opn l]: reading l from left to right with the note of key k currently open (opn = true) or
   closed, every NOTE_ON of k comes while closed, every NOTE_OFF of k while open, and the list ends closed.
   [alt k false l = true] says the note messages of k form the word (on off)*. *)
Fixpoint alt (k : k2) (opn : bool) (l : list msg) : bool :=
  match l with
  | [] => negb opn
  | m :: l' =>
      if is_key k m && is_on m then negb opn && alt k true l'
      else if is_key k m && is_off m then opn && alt k false l'
      else alt k opn l'
  end.

(* clause 2.  [ts_ok prev l]: no TIME_SIGNATURE of l has the (numerator, denominator) of the previous one
   (prev = the one in force before l; (-1,-1) = none). *)
Definition is_ts (m : msg) : bool := mtype_eqb (m_type m) TIME_SIGNATURE.
Definition is_ks (m : msg) : bool := mtype_eqb (m_type m) KEY_SIGNATURE.
Definition ts_eqb (a b : Z * Z) : bool := Z.eqb (fst a) (fst b) && Z.eqb (snd a) (snd b).
Fixpoint ts_ok (prev : Z * Z) (l : list msg) : bool :=
  match l with
  | [] => true
  | m :: l' => if is_ts m then negb (ts_eqb (m_num m, m_den m) prev) && ts_ok (m_num m, m_den m) l'
               else ts_ok prev l'
  end.
Fixpoint ks_ok (prev : option Key) (l : list msg) : bool :=
  match l with
  | [] => true
  | m :: l' => if is_ks m then negb (okey_eqb (m_key m) prev) && ks_ok (m_key m) l' else ks_ok prev l'
  end.

(* clause 4.  [sounding k t d cur l]: tick t lies inside a WAIT of l during which the nesting depth of key k
   (d at the start of l, +1 per NOTE_ON, -1 per NOTE_OFF) is positive; cur = tick at the start of l. *)
Fixpoint sounding (k : k2) (t : Z) (d cur : Z) (l : list msg) : bool :=
  match l with
  | [] => false
  | m :: l' =>
      if is_wait m then ((0 <? d) && (cur <=? t) && (t <? cur + m_time m)) || sounding k t d (cur + m_time m) l'
      else if is_key k m && is_on m then sounding k t (d + 1) cur l'
      else if is_key k m && is_off m then sounding k t (d - 1) cur l'
      else sounding k t d cur l'
  end.

(* the input's notes are paired: for key k, reading from depth d, no NOTE_OFF comes at depth 0 and the list ends
   at depth 0 *)
Fixpoint bal (k : k2) (d : Z) (l : list msg) : bool :=
  match l with
  | [] => d =? 0
  | m :: l' =>
      if is_key k m && is_on m then bal k (d + 1) l'
      else if is_key k m && is_off m then (0 <? d) && bal k (d - 1) l'
      else bal k d l'
  end.
(* ... for every key that occurs on a note message of l (other keys are trivially balanced) *)
Definition balanced (l : list msg) : bool :=
  forallb (fun m => negb (is_note m) || bal (m_chan m, m_note m) 0 l) l.

(* clause 5.  the observable content of a relative list: every non-wait message with its tick *)
Fixpoint timed (cur : Z) (l : list msg) : list (Z * msg) :=
  match l with
  | [] => []
  | m :: l' => if is_wait m then timed (cur + m_time m) l' else (cur, m) :: timed cur l'
  end.

(* ================================================================ Part 2: tests on concrete inputs *)
Module Tests.
  Definition w t := mk_wait 0 t false.
  Definition on c p := mk_on c p 64 0 false.
  Definition off c p := mk_off c p 0 false.
  Definition ts n d := mk_ts 0 n d 0 false.
  Definition ks k := mk_ks 0 k 0 false.
  Definition keys : list k2 := [(0,60);(1,60);(0,61);(2,5);(0,-1)].
  Definition ticks : list Z := [-1;0;1;2;3;4;5;6;7;8;9;10;11;12;13;14;15;16;17;18;19;20].

  (* orphan offs, re-triggers, nested notes on several channels, unclosed notes, repeated signatures, trailing rest *)
  Definition l1 := [off 0 60; w 2; on 0 60; w 1; on 0 60; on 1 60; w 3; off 0 60; ts 4 4; w 1; ts 4 4; off 0 60;
                    off 0 60; w 2; on 0 61; ks (Some K_C); ks (Some K_C); w 4; on 1 60; w 1; off 1 60; ts 3 4; ts 4 4; w 5].
  Definition l2 := [ts (-1) (-1); ks None; w 0; on 0 60; w 0; off 0 60; on 0 60; on 0 60; w 3; on 2 5; w 1; off 0 60; w 2].
  (* balanced, nested and overlapping *)
  Definition l3 := [w 1; on 0 60; w 2; on 0 60; on 1 60; w 3; off 0 60; w 1; off 0 60; w 2; on 0 60; w 1; off 1 60;
                    off 0 60; ts 4 4; w 2; ts 4 4; w 1].
  Definition l4 := [mk_wait 3 1 false; mk_cc 5 7 100 0 false; mk_wait 3 2 false].

  Fixpoint timed_eqb (a b : list (Z * msg)) : bool :=
    match a, b with
    | [], [] => true
    | (t, m) :: a', (t', m') :: b' => Z.eqb t t' && msg_eqb m m' && timed_eqb a' b'
    | _, _ => false
    end.
  Definition checks (l : list msg) :=
    let o := normalise l in
    (forallb (fun k => alt k false o) keys, ts_ok (NONE, NONE) o, ks_ok None o,
     (dur_rel o =? dur_rel l),
     balanced l,
     forallb (fun k => forallb (fun t => Bool.eqb (sounding k t 0 0 o) (sounding k t 0 0 l)) ticks) keys,
     (dur_rel (normalise o) =? dur_rel o),
     timed_eqb (timed 0 (normalise o)) (timed 0 o)).
  Eval vm_compute in (nonneg_waits l1, checks l1).
  Eval vm_compute in (nonneg_waits l2, checks l2).
  Eval vm_compute in (nonneg_waits l3, checks l3).
  Eval vm_compute in (nonneg_waits l4, checks l4).
  Eval vm_compute in map (fun m => (m_type m, m_chan m, m_note m, m_time m)) (normalise l1).
  Eval vm_compute in map (fun m => (m_type m, m_chan m, m_note m, m_time m)) (normalise (normalise l1)).
  Eval vm_compute in map (fun m => (m_type m, m_chan m, m_note m, m_time m)) (normalise l4).
  Eval vm_compute in map (fun m => (m_type m, m_chan m, m_note m, m_time m)) (normalise (normalise l4)).
End Tests.
