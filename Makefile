# /verif/Makefile -- build the Coq development (full .vo build) from the live tree at $(SCODA_REPO)
SCODA_REPO ?= /repo
export SCODA_REPO
.PHONY: setup gen coq clean audit
setup: coq
gen:
	python3 harness/translate.py coq/Gen
coq: gen
	cd coq && coq_makefile -f _CoqProject -o Makefile.coq >/dev/null 2>&1 && timeout 3000 $(MAKE) -f Makefile.coq -j16
clean:
	cd coq && [ -f Makefile.coq ] && $(MAKE) -f Makefile.coq clean || true
	rm -rf coq/cases coq/Makefile.coq coq/Makefile.coq.conf

# independent re-check of every compiled file with coqchk; prints the axioms the development relies on
audit: coq
	cd coq && timeout 3000 coqchk -silent -o -Q Gen Gen -Q Model Model -Q Proofs Proofs -Q Props Props $$(ls Props/C??.v | sed 's#/#.#; s#\.v$$##') 2>&1 | tail -40
