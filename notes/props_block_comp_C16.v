
(* ================================================================ bars, tracks, compositions (Model/Comp.v,
   Proofs/Comp_proofs.v).  A composition is a list of tracks, a track a list of bars plus a program, a bar owns a
   Sequence object; all are values of the functional model.  Vocabulary (Proofs/Comp_proofs.v):
     bar_built b    b is a value returned by the Bar constructor:  exists s, cbar_new s (cb_num b) (cb_den b) (cb_key b) = Ok b
     track_built t  all bars of t are bar_built and t is what the Track constructor returns on them
     comp_built c   all tracks of c are track_built
     ticks l 0      (Proofs/C18_proofs.v) the non-wait messages of the relative list l with their accumulated ticks *)
From Model Require Import Comp.
From Proofs Require Import C18_proofs Comp_proofs.

(* frame: applying any bar operation f (transpose, copy, any history on the bar's sequence, ...) to bar bi of track
   ti yields a composition of the same shape in which every other track is literally the old one, and in track ti the
   program and every other bar are literally the old ones: the other bars are independent by construction *)
Theorem C16_comp_frame : forall (c c' : comp) (ti bi : nat) (f : cbar -> result cbar),
  comp_on_bar c ti bi f = Ok c' ->
  length c' = length c /\
  (forall tj, tj <> ti -> nth_error c' tj = nth_error c tj) /\
  exists t b b' t', nth_error c ti = Some t /\ nth_error (ct_bars t) bi = Some b /\ f b = Ok b' /\
    nth_error c' ti = Some t' /\ ct_program t' = ct_program t /\ length (ct_bars t') = length (ct_bars t) /\
    nth_error (ct_bars t') bi = Some b' /\
    (forall bj, bj <> bi -> nth_error (ct_bars t') bj = nth_error (ct_bars t) bj).
Proof. exact Comp_proofs.C16_comp_frame. Qed.
Print Assumptions C16_comp_frame.

(* the call fails only for an index out of range or because the bar operation itself fails *)
Theorem C16_comp_frame_err : forall (c : comp) (ti bi : nat) (f : cbar -> result cbar) (e : err),
  comp_on_bar c ti bi f = Err e ->
  (e = IndexErr /\ (nth_error c ti = None \/ exists t, nth_error c ti = Some t /\ nth_error (ct_bars t) bi = None)) \/
  exists t b, nth_error c ti = Some t /\ nth_error (ct_bars t) bi = Some b /\ f b = Err e.
Proof. exact Comp_proofs.C16_comp_frame_err. Qed.
Print Assumptions C16_comp_frame_err.

(* what Composition.from_sequences returns is made by the constructors *)
Theorem C16_comp_from_sequences_built : forall (rels : list (list msg)) (meta : nat) (c : comp),
  comp_from_sequences rels meta = Ok c -> comp_built c.
Proof. exact Comp_proofs.comp_from_sequences_built. Qed.
Print Assumptions C16_comp_from_sequences_built.

(* clause "a copy of a ... composition equals its original": Composition.copy of a composition built by
   from_sequences never raises; the copy has the same number of tracks, track by track the same program and number
   of bars, and bar by bar the same signature, key, timed events of the (fresh) relative view and duration.  The
   copy is again made by the constructors. *)
Theorem C16_comp_copy : forall (rels : list (list msg)) (meta : nat) (c : comp),
  comp_from_sequences rels meta = Ok c ->
  exists c', comp_copy c = Ok c' /\
    (length c' = length c /\
     forall ti t, nth_error c ti = Some t ->
       exists t', nth_error c' ti = Some t' /\ ct_program t' = ct_program t /\
         length (ct_bars t') = length (ct_bars t) /\
         forall bi b, nth_error (ct_bars t) bi = Some b ->
           exists b', nth_error (ct_bars t') bi = Some b' /\
             cb_num b' = cb_num b /\ cb_den b' = cb_den b /\ cb_key b' = cb_key b /\
             s_rel_stale (cb_seq b) = false /\ s_rel_stale (cb_seq b') = false /\
             ticks (s_rel (cb_seq b')) 0 = ticks (s_rel (cb_seq b)) 0 /\
             dur_rel (s_rel (cb_seq b')) = dur_rel (s_rel (cb_seq b))) /\
    comp_built c'.
Proof. exact Comp_proofs.C16_comp_copy. Qed.
Print Assumptions C16_comp_copy.

(* the same for every composition made by the constructors (so also for copies of copies); comp_equal c c' is the
   shape / program / bar-by-bar statement spelled out in C16_comp_copy.  The hypothesis is needed: a hand-assembled
   track whose bars carry different programs makes Track (hence copy) raise, Comp_proofs.C16_comp_copy_needs_built *)
Theorem C16_comp_copy_built : forall c : comp, comp_built c ->
  exists c', comp_copy c = Ok c' /\ comp_equal c c' /\ comp_built c'.
Proof. exact Comp_proofs.C16_comp_copy_built. Qed.
Print Assumptions C16_comp_copy_built.

(* "a copy of a ... track equals its original" *)
Theorem C16_track_copy : forall t : ctrack, track_built t ->
  exists t', ctrack_copy t = Ok t' /\ ct_program t' = ct_program t /\ length (ct_bars t') = length (ct_bars t) /\
    (forall bi b, nth_error (ct_bars t) bi = Some b -> exists b', nth_error (ct_bars t') bi = Some b' /\ bar_equal b b') /\
    track_built t'.
Proof. exact Comp_proofs.C16_track_copy. Qed.
Print Assumptions C16_track_copy.

(* laid end to end again (Composition.to_sequences), original and copy give track by track sequences with the same
   timed events and the same duration *)
Theorem C16_comp_copy_sequences : forall c c' : comp, comp_built c -> comp_copy c = Ok c' ->
  exists ss ss', comp_to_sequences c = Ok ss /\ comp_to_sequences c' = Ok ss' /\ length ss' = length ss /\
    forall ti s, nth_error ss ti = Some s ->
      exists s', nth_error ss' ti = Some s' /\ ticks (s_rel s') 0 = ticks (s_rel s) 0 /\
                 dur_rel (s_rel s') = dur_rel (s_rel s).
Proof. exact Comp_proofs.C16_comp_copy_sequences. Qed.
Print Assumptions C16_comp_copy_sequences.
