
(* ================================================================ compound operations (Model/ScaleDown.v)
   Extra imports needed at the top of Props/C04.v:
     From Model Require Import ScaleDown.
     From Proofs Require Import C04_hops.
   Vocabulary (Proofs/C04_hops.v):
     hop_wf h   the literal arguments of the compound operation h are well-formed: op_wf of every constituent
                operation (HOp o / HFail o e: o; HSeq os: all of os; HScaleDown i k meta then_: all of then_) and, for
                HScaleDown, 0 < k
     hop_wf0 h  the same without the condition on k *)
From Model Require Import ScaleDown.
From Proofs Require Import C04_hops.

(* scale(1/k, meta_sequence) on object i keeps the invariant of every object of the store: on success (object i gets
   the new relative list and a stale absolute view) and on failure (only views of i / the meta object were refreshed),
   for every kind of meta object (none, the receiver itself, another object, a missing object) *)
Theorem C04_scale_down_inv : forall (st : store) (i : nat) (k : Z) (meta : option nat),
  forallb inv_b st = true -> 0 < k -> forallb inv_b (fst (store_scale_down st i k meta)) = true.
Proof. exact C04_hops.C04_scale_down_inv. Qed.
Print Assumptions C04_scale_down_inv.

(* ... in fact for EVERY integer k: with k <= 0 the model's grouping loop makes no progress and the call fails *)
Theorem C04_scale_down_inv_any_k : forall (st : store) (i : nat) (k : Z) (meta : option nat),
  forallb inv_b st = true -> forallb inv_b (fst (store_scale_down st i k meta)) = true.
Proof. exact C04_hops.C04_scale_down_inv_any_k. Qed.
Print Assumptions C04_scale_down_inv_any_k.

(* EVERY compound operation (all 4 constructors of `hop`, including a compound that stops at its first error and a
   call that raises after its state effect) keeps the invariant of every object of the store *)
Theorem C04_hstep_inv : forall (st : store) (h : hop),
  forallb inv_b st = true -> hop_wf h = true -> forallb inv_b (fst (hstep st h)) = true.
Proof. exact C04_hops.C04_hstep_inv. Qed.
Print Assumptions C04_hstep_inv.

Theorem C04_hstep_inv_any_k : forall (st : store) (h : hop),
  forallb inv_b st = true -> hop_wf0 h = true -> forallb inv_b (fst (hstep st h)) = true.
Proof. exact C04_hops.C04_hstep_inv_any_k. Qed.
Print Assumptions C04_hstep_inv_any_k.

(* hence every finite history of compound operations, from any store satisfying the invariant / from the empty store *)
Theorem C04_run_h_inv : forall (st : store) (hs : list hop),
  forallb inv_b st = true -> forallb hop_wf hs = true -> forallb inv_b (fst (run_h st hs)) = true.
Proof. exact C04_hops.C04_run_h_inv. Qed.
Print Assumptions C04_run_h_inv.

Theorem C04_run_h_inv_any_k : forall (st : store) (hs : list hop),
  forallb inv_b st = true -> forallb hop_wf0 hs = true -> forallb inv_b (fst (run_h st hs)) = true.
Proof. exact C04_hops.C04_run_h_inv_any_k. Qed.
Print Assumptions C04_run_h_inv_any_k.

Theorem C04_reachable_h : forall hs : list hop,
  forallb hop_wf hs = true -> forallb inv_b (fst (run_h [] hs)) = true.
Proof. exact C04_hops.C04_reachable_h. Qed.
Print Assumptions C04_reachable_h.

(* the statement of C04 in one piece for histories of compound operations (the alphabet the correspondence check
   runs): every object of the final store is readable through both properties and the two lists agree *)
Theorem C04_history_h : forall (hs : list hop) (i : nat) (s : seq),
  forallb hop_wf hs = true -> nth_error (fst (run_h [] hs)) i = Some s ->
  exists s1 a s2 r, get_abs s = Ok (s1, a) /\ get_rel s = Ok (s2, r) /\
                    Permutation (ev_abs a) (ev_rel r) /\ dur_abs a = dur_rel r /\
                    tsorted a = true /\ wfa a = true /\ wfr r = true.
Proof. exact C04_hops.C04_history_h. Qed.
Print Assumptions C04_history_h.

Theorem C04_history_h_any_k : forall (hs : list hop) (i : nat) (s : seq),
  forallb hop_wf0 hs = true -> nth_error (fst (run_h [] hs)) i = Some s ->
  exists s1 a s2 r, get_abs s = Ok (s1, a) /\ get_rel s = Ok (s2, r) /\
                    Permutation (ev_abs a) (ev_rel r) /\ dur_abs a = dur_rel r /\
                    tsorted a = true /\ wfa a = true /\ wfr r = true.
Proof. exact C04_hops.C04_history_h_any_k. Qed.
Print Assumptions C04_history_h_any_k.

(* histories of plain operations are the histories of compound operations built from HOp only *)
Theorem C04_run_h_HOp : forall (ops : list op) (st : store), run_h st (map HOp ops) = run st ops.
Proof. exact C04_hops.run_h_HOp. Qed.
Print Assumptions C04_run_h_HOp.

(* readability needs no assumption at all: after ANY history of compound operations (arbitrary, even ill-formed,
   arguments; k <= 0; missing objects) no object has both views stale *)
Theorem C04_readable_any_hops : forall (hs : list hop) (i : nat) (s : seq),
  nth_error (fst (run_h [] hs)) i = Some s ->
  (exists s1 a, get_abs s = Ok (s1, a)) /\ (exists s2 r, get_rel s = Ok (s2, r)).
Proof. exact C04_hops.C04_readable_any_hops. Qed.
Print Assumptions C04_readable_any_hops.
