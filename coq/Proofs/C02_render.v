(* C02 -- string rendering of tokens: parse_tok inverts render_tok on well-formed tokens, hence rendering is
   injective on the vocabulary (the Python dictionary is keyed by the rendered strings). *)
From Coq Require Import ZArith List Bool Lia Ascii String DecimalString DecimalN.
From Model Require Import Tok.
From Proofs Require Import C02_proofs.
Open Scope Z_scope.

Fixpoint has_char (c : ascii) (s : string) : bool :=
  match s with EmptyString => false | String a s' => Ascii.eqb a c || has_char c s' end.

Lemma has_char_app : forall c a b, has_char c (a ++ b)%string = has_char c a || has_char c b.
Proof. intros c a b; induction a as [|x a IH]; cbn [append has_char]; [reflexivity|]. rewrite IH, orb_assoc; reflexivity. Qed.

Lemma split_on_nochar : forall c s, has_char c s = false -> split_on c s = [s].
Proof.
  intros c s; induction s as [|a s IH]; intros H; cbn [split_on]; [reflexivity|].
  cbn [has_char] in H. apply orb_false_iff in H as [H1 H2]. rewrite H1, (IH H2). reflexivity.
Qed.

Lemma split_on_app : forall c a b, has_char c a = false ->
  split_on c (a ++ String c b)%string = a :: split_on c b.
Proof.
  intros c a b; induction a as [|x a IH]; intros H; cbn [append split_on].
  - rewrite Ascii.eqb_refl. reflexivity.
  - cbn [has_char] in H. apply orb_false_iff in H as [H1 H2]. rewrite H1, (IH H2). reflexivity.
Qed.

Lemma uint_clean : forall d, has_char "-" (NilEmpty.string_of_uint d) = false /\ has_char "_" (NilEmpty.string_of_uint d) = false.
Proof. induction d; cbn [NilEmpty.string_of_uint has_char Ascii.eqb Bool.eqb orb]; auto. Qed.

Lemma zeros_clean : forall k, has_char "-" (zeros k) = false /\ has_char "_" (zeros k) = false.
Proof. induction k as [|k IH]; cbn; auto. Qed.

Lemma to_uint_nonnil : forall n, N.to_uint n <> Decimal.Nil.
Proof.
  intros n H. pose proof (DecimalN.Unsigned.of_to n) as E. rewrite H in E. cbn in E. subst n. discriminate.
Qed.

Lemma digits_eq : forall n, digits n = NilEmpty.string_of_uint (N.to_uint n).
Proof. intros n; unfold digits, NilZero.string_of_uint. pose proof (to_uint_nonnil n). destruct (N.to_uint n); congruence. Qed.

Lemma fmt_nonneg : forall w z, 0 <= z -> fmt w z = (zeros (w - String.length (digits (Z.to_N z))) ++ digits (Z.to_N z))%string.
Proof. intros w z H; destruct z; try reflexivity. lia. Qed.

Lemma fmt_clean : forall w z, 0 <= z -> has_char "-" (fmt w z) = false /\ has_char "_" (fmt w z) = false.
Proof.
  intros w z H. rewrite (fmt_nonneg w z H), !has_char_app, digits_eq.
  destruct (zeros_clean (w - String.length (NilEmpty.string_of_uint (N.to_uint (Z.to_N z))))) as [A B].
  destruct (uint_clean (N.to_uint (Z.to_N z))) as [C D]. rewrite A, B, C, D. auto.
Qed.

Lemma uos_zeros : forall k s, NilEmpty.uint_of_string (zeros k ++ s)%string = option_map (Nat.iter k Decimal.D0) (NilEmpty.uint_of_string s).
Proof.
  induction k as [|k IH]; intros s.
  - cbn. destruct (NilEmpty.uint_of_string s); reflexivity.
  - change (zeros (S k) ++ s)%string with (String "0" (zeros k ++ s)). cbn [NilEmpty.uint_of_string]. rewrite IH.
    destruct (NilEmpty.uint_of_string s); reflexivity.
Qed.

Lemma of_uint_zeros : forall k u, N.of_uint (Nat.iter k Decimal.D0 u) = N.of_uint u.
Proof. induction k as [|k IH]; intros u; [reflexivity|]. cbn [Nat.iter]. rewrite <- (IH u). reflexivity. Qed.

Lemma parse_int_fmt : forall w z, 0 <= z -> parse_int (fmt w z) = Some z.
Proof.
  intros w z H. rewrite (fmt_nonneg w z H). set (k := (w - _)%nat). clearbody k.
  assert (E : NilEmpty.uint_of_string (zeros k ++ digits (Z.to_N z))%string = Some (Nat.iter k Decimal.D0 (N.to_uint (Z.to_N z)))).
  { rewrite uos_zeros, digits_eq, NilEmpty.usu. reflexivity. }
  unfold parse_int. destruct (zeros k ++ digits (Z.to_N z))%string as [|a s] eqn:Es.
  - cbn in E. inversion E as [E']. destruct k; cbn in E'; [|discriminate]. symmetry in E'. apply to_uint_nonnil in E'. destruct E'.
  - unfold NilZero.uint_of_string. rewrite E. cbn [option_map]. rewrite of_uint_zeros, DecimalN.Unsigned.of_to. f_equal. lia.
Qed.

Definition nodash (s : string) : Prop := has_char "-" s = false.
Definition nounder (s : string) : Prop := has_char "_" s = false.

Lemma split_join_dash : forall parts, parts <> [] -> Forall nodash parts -> split_on "-" (join_dash parts) = parts.
Proof.
  induction parts as [|x parts IH]; intros Hne F; [congruence|].
  inversion F as [|? ? Hx Fp]; subst. destruct parts as [|y r].
  - cbn [join_dash]. apply split_on_nochar, Hx.
  - change (join_dash (x :: y :: r)) with (x ++ String "-" (join_dash (y :: r)))%string.
    rewrite split_on_app by exact Hx. rewrite IH; [reflexivity|discriminate|exact Fp].
Qed.

Lemma split_part : forall pfx f, nounder pfx -> nounder f -> split_on "_" (pfx ++ "_" ++ f)%string = [pfx; f].
Proof.
  intros pfx f Hp Hf. change (pfx ++ "_" ++ f)%string with (pfx ++ String "_" f)%string.
  rewrite split_on_app by exact Hp. rewrite split_on_nochar by exact Hf. reflexivity.
Qed.

Lemma render_part_nodash : forall pfx w z, nodash pfx -> 0 <= z -> nodash (render_part pfx w z).
Proof.
  intros pfx w z Hp Hz. unfold nodash, render_part. rewrite !has_char_app. destruct (fmt_clean w z Hz) as [A _].
  rewrite Hp, A. reflexivity.
Qed.

Lemma render_part_split : forall pfx w z, nounder pfx -> 0 <= z ->
  split_on "_" (render_part pfx w z) = [pfx; fmt w z].
Proof. intros pfx w z Hp Hz. unfold render_part. apply split_part; [exact Hp|apply fmt_clean, Hz]. Qed.

Definition onn (o : option Z) : bool := match o with Some x => 0 <=? x | None => true end.
Definition wf_tok (t : tok) : bool :=
  match t with
  | TPad | TSta | TSto | TBar => true
  | TRest v | TTrk v | TVal v | TVel v => 0 <=? v
  | TNote t p v w => onn t && (0 <=? p) && onn v && onn w
  | TTsg n d => (0 <=? n) && (0 <=? d)
  end.

Lemma parse_single : forall pfx w z, 0 <= z ->
  nodash pfx -> nounder pfx ->
  parse_parts (render_part pfx w z) = [[pfx; fmt w z]].
Proof.
  intros pfx w z Hz Hd Hu. unfold parse_parts.
  rewrite split_on_nochar by (apply render_part_nodash; assumption). cbn [map].
  rewrite render_part_split by assumption. reflexivity.
Qed.

Ltac pfx_clean := unfold nodash, nounder; vm_compute; reflexivity.

Lemma parse_render_rest : forall v, 0 <= v -> parse_tok (render_tok (TRest v)) = Some (TRest v).
Proof.
  intros v Hv. unfold parse_tok. cbn [render_tok]. rewrite parse_single by (try pfx_clean; exact Hv).
  pose proof (parse_int_fmt 2 v Hv) as E. cbv -[parse_int fmt]. rewrite E. reflexivity.
Qed.


Lemma parse_render_trk : forall v, 0 <= v -> parse_tok (render_tok (TTrk v)) = Some (TTrk v).
Proof.
  intros v Hv. unfold parse_tok. cbn [render_tok]. rewrite parse_single by (try pfx_clean; exact Hv).
  pose proof (parse_int_fmt 2 v Hv) as E. cbv -[parse_int fmt]. rewrite E. reflexivity.
Qed.
Lemma parse_render_val : forall v, 0 <= v -> parse_tok (render_tok (TVal v)) = Some (TVal v).
Proof.
  intros v Hv. unfold parse_tok. cbn [render_tok]. rewrite parse_single by (try pfx_clean; exact Hv).
  pose proof (parse_int_fmt 2 v Hv) as E. cbv -[parse_int fmt]. rewrite E. reflexivity.
Qed.
Lemma parse_render_vel : forall v, 0 <= v -> parse_tok (render_tok (TVel v)) = Some (TVel v).
Proof.
  intros v Hv. unfold parse_tok. cbn [render_tok]. rewrite parse_single by (try pfx_clean; exact Hv).
  pose proof (parse_int_fmt 3 v Hv) as E. cbv -[parse_int fmt]. rewrite E. reflexivity.
Qed.

Lemma parse_render_tsg : forall n d, 0 <= n -> 0 <= d -> parse_tok (render_tok (TTsg n d)) = Some (TTsg n d).
Proof.
  intros n d Hn Hd. unfold parse_tok. cbn [render_tok].
  destruct (fmt_clean 2 n Hn) as [A1 A2]. destruct (fmt_clean 2 d Hd) as [B1 B2].
  assert (Hp : parse_parts (PFX_TIME_SIGNATURE ++ "_" ++ fmt 2 n ++ "_" ++ fmt 2 d)%string =
               [[PFX_TIME_SIGNATURE; fmt 2 n; fmt 2 d]]).
  { unfold parse_parts. rewrite split_on_nochar.
    - cbn [map]. change (PFX_TIME_SIGNATURE ++ "_" ++ fmt 2 n ++ "_" ++ fmt 2 d)%string
        with (PFX_TIME_SIGNATURE ++ String "_" (fmt 2 n ++ String "_" (fmt 2 d)))%string.
      rewrite split_on_app by pfx_clean. rewrite split_on_app by exact A2. rewrite split_on_nochar by exact B2.
      reflexivity.
    - rewrite !has_char_app, A1, B1. reflexivity. }
  rewrite Hp. pose proof (parse_int_fmt 2 n Hn) as E1. pose proof (parse_int_fmt 2 d Hd) as E2.
  cbv -[parse_int fmt]. rewrite E1, E2. reflexivity.
Qed.

Lemma parse_parts_join : forall parts, parts <> [] -> Forall nodash parts ->
  parse_parts (join_dash parts) = map (split_on "_") parts.
Proof. intros parts Hne F. unfold parse_parts. rewrite split_join_dash by assumption. reflexivity. Qed.

Lemma parse_render_note : forall t p v w, onn t = true -> 0 <= p -> onn v = true -> onn w = true ->
  parse_tok (render_tok (TNote t p v w)) = Some (TNote t p v w).
Proof.
  intros t p v w Ht Hp Hv Hw. unfold parse_tok.
  pose proof (parse_int_fmt 3 p Hp) as Ep.
  assert (Dp : nodash (render_part PFX_PITCH 3 p)) by (apply render_part_nodash; [pfx_clean|exact Hp]).
  assert (Sp : split_on "_" (render_part PFX_PITCH 3 p) = [PFX_PITCH; fmt 3 p]) by (apply render_part_split; [pfx_clean|exact Hp]).
  destruct t as [t|], v as [v|], w as [w|]; cbn [onn] in Ht, Hv, Hw;
    try (apply Z.leb_le in Ht; pose proof (parse_int_fmt 2 t Ht) as Et;
         assert (Dt : nodash (render_part PFX_TRACK 2 t)) by (apply render_part_nodash; [pfx_clean|exact Ht]);
         assert (St : split_on "_" (render_part PFX_TRACK 2 t) = [PFX_TRACK; fmt 2 t]) by (apply render_part_split; [pfx_clean|exact Ht]));
    try (apply Z.leb_le in Hv; pose proof (parse_int_fmt 2 v Hv) as Ev;
         assert (Dv : nodash (render_part PFX_VALUE 2 v)) by (apply render_part_nodash; [pfx_clean|exact Hv]);
         assert (Sv : split_on "_" (render_part PFX_VALUE 2 v) = [PFX_VALUE; fmt 2 v]) by (apply render_part_split; [pfx_clean|exact Hv]));
    try (apply Z.leb_le in Hw; pose proof (parse_int_fmt 3 w Hw) as Ew;
         assert (Dw : nodash (render_part PFX_VELOCITY 3 w)) by (apply render_part_nodash; [pfx_clean|exact Hw]);
         assert (Sw : split_on "_" (render_part PFX_VELOCITY 3 w) = [PFX_VELOCITY; fmt 3 w]) by (apply render_part_split; [pfx_clean|exact Hw]));
    cbn [render_tok app];
    (rewrite parse_parts_join; [|discriminate|repeat (constructor; try assumption)]);
    cbn [map]; rewrite ?St, ?Sp, ?Sv, ?Sw; cbv -[parse_int fmt]; rewrite ?Et, ?Ep, ?Ev, ?Ew; reflexivity.
Qed.

Theorem C02_parse_render : forall t, wf_tok t = true -> parse_tok (render_tok t) = Some t.
Proof.
  intros t H. destruct t; cbn [wf_tok] in H.
  - reflexivity.
  - reflexivity.
  - reflexivity.
  - reflexivity.
  - apply parse_render_rest, Z.leb_le, H.
  - apply parse_render_trk, Z.leb_le, H.
  - apply parse_render_val, Z.leb_le, H.
  - apply parse_render_vel, Z.leb_le, H.
  - apply andb_true_iff in H as [H Hw]. apply andb_true_iff in H as [H Hv]. apply andb_true_iff in H as [Ht Hp].
    apply parse_render_note; try assumption. apply Z.leb_le, Hp.
  - apply andb_true_iff in H as [Hn Hd]. apply parse_render_tsg; apply Z.leb_le; assumption.
Qed.

Lemma oinP_onn : forall b l o, (forall x, In x l -> 0 <= x) -> oinP b l o -> onn o = true.
Proof.
  intros b l [x|] Hl H; cbn [oinP onn] in *; [|reflexivity]. destruct H as [_ H]. apply Z.leb_le, Hl, H.
Qed.

Lemma vocab_wf : forall c t, valid_cfg c = true -> In t (vocab c) -> wf_tok t = true.
Proof.
  intros c t Hv Hin. destruct (valid_cfg_P c Hv). apply vocab_iff in Hin.
  assert (Rt : forall x, In x (rangeZ 0 (c_ntracks c)) -> 0 <= x) by (intros x Hx; apply in_rangeZ in Hx; lia).
  assert (Rs : forall x, In x (c_steps c) -> 0 <= x) by (intros x Hx; apply v_steps_pos in Hx; lia).
  assert (Rv : forall x, In x (c_values c) -> 0 <= x) by (intros x Hx; apply v_values_pos in Hx; lia).
  assert (Rw : forall x, In x (c_vbins c) -> 0 <= x) by (intros x Hx; apply v_vbins_rng in Hx; lia).
  destruct t; cbn [in_vocab_spec wf_tok] in *; try reflexivity.
  - apply Z.leb_le, Rs, Hin.
  - apply Z.leb_le, Rt, Hin.
  - apply Z.leb_le, Rv, Hin.
  - apply Z.leb_le, Rw, Hin.
  - destruct Hin as (Ht & Hp & Hvv & Hw). apply in_rangeZ in Hp.
    rewrite (oinP_onn _ _ _ Rt Ht), (oinP_onn _ _ _ Rv Hvv), (oinP_onn _ _ _ Rw Hw). cbn [andb].
    rewrite !andb_true_r. apply Z.leb_le; lia.
  - destruct Hin as [-> Hn]. apply in_rangeZ in Hn. apply andb_true_iff; split; apply Z.leb_le; [lia|].
    unfold DEFAULT_TS_DEN; lia.
Qed.

Theorem C02_parse_render_vocab : forall c t, valid_cfg c = true -> In t (vocab c) ->
  parse_tok (render_tok t) = Some t.
Proof. intros c t Hv Hin. apply C02_parse_render. eapply vocab_wf; eassumption. Qed.

Theorem C02_render_injective_wf : forall t1 t2, wf_tok t1 = true -> wf_tok t2 = true ->
  render_tok t1 = render_tok t2 -> t1 = t2.
Proof.
  intros t1 t2 H1 H2 E. pose proof (C02_parse_render t1 H1) as P1. pose proof (C02_parse_render t2 H2) as P2.
  rewrite E in P1. congruence.
Qed.

Theorem C02_render_injective : forall c t1 t2, valid_cfg c = true -> In t1 (vocab c) -> In t2 (vocab c) ->
  render_tok t1 = render_tok t2 -> t1 = t2.
Proof. intros c t1 t2 Hv H1 H2. apply C02_render_injective_wf; eapply vocab_wf; eassumption. Qed.

(* the string-level vocabulary (the keys of the Python dictionary) has no duplicates *)
Theorem C02_render_nodup : forall c, valid_cfg c = true -> NoDup (map render_tok (vocab c)).
Proof.
  intros c Hv. pose proof (C02_nodup c Hv) as Hnd.
  assert (Hinj : forall t1 t2, In t1 (vocab c) -> In t2 (vocab c) -> render_tok t1 = render_tok t2 -> t1 = t2)
    by (intros; eapply C02_render_injective; eassumption).
  induction Hnd as [|t l Ht Hnd IH]; cbn [map]; constructor.
  - rewrite in_map_iff. intros (t' & E & Hin). apply Ht.
    rewrite (Hinj t t' (or_introl eq_refl) (or_intror Hin) (eq_sym E)). exact Hin.
  - apply IH. intros t1 t2 H1 H2. apply Hinj; right; assumption.
Qed.

(* negative numbers are NOT parsed back: the rendering of -1 contains the token-part separator "-" *)
Example parse_render_negative : parse_tok (render_tok (TRest (-1))) = None.
Proof. vm_compute. reflexivity. Qed.
Example ex_render : map render_tok [TRest 3; TNote (Some 1) 60 None (Some 127); TTsg 12 8] =
  ["rst_03"%string; "trk_01-pit_060-vel_127"%string; "tsg_12_08"%string].
Proof. vm_compute. reflexivity. Qed.
