(* C15 (continued) -- through to_rel and normalise: the relative view after a merge does not depend on the order of
   merging (up to the velocity of note-ons with identical time/channel/pitch), and its duration is the maximum. *)
From Coq Require Import ZArith List Bool Lia Permutation.
From Model Require Import Base Seq Pairing Store.
From Proofs Require Import C17_proofs C15_proofs.
Import ListNotations.
Open Scope Z_scope.

(* forget the velocity of note-ons *)
Definition erase (m : msg) : msg := if is_on m then set_vel m 0 else m.

Lemma erase_on m : m_type m = NOTE_ON -> erase m = set_vel m 0.
Proof. intros H. unfold erase, is_on. now rewrite H. Qed.
Lemma erase_other m : m_type m <> NOTE_ON -> erase m = m.
Proof. intros H. unfold erase, is_on. destruct (m_type m); try reflexivity. congruence. Qed.

Lemma erase_fields m :
  m_type (erase m) = m_type m /\ m_chan (erase m) = m_chan m /\ m_time (erase m) = m_time m /\
  m_tf (erase m) = m_tf m /\ m_note (erase m) = m_note m /\ m_num (erase m) = m_num m /\
  m_den (erase m) = m_den m /\ m_key (erase m) = m_key m.
Proof. unfold erase. destruct (is_on m); cbn; repeat split. Qed.

Lemma skey_erase m : skey (erase m) = skey m.
Proof. unfold erase. now destruct (is_on m). Qed.
Lemma is_on_erase m : is_on (erase m) = is_on m.
Proof. unfold erase. now destruct (is_on m) eqn:E. Qed.
Lemma erase_mk_wait c t f : erase (mk_wait c t f) = mk_wait c t f.
Proof. reflexivity. Qed.
Lemma erase_strip m : erase (strip_time m) = strip_time (erase m).
Proof. unfold erase. change (is_on (strip_time m)) with (is_on m). now destruct (is_on m). Qed.
Lemma first_chan_erase l : first_chan (map erase l) = first_chan l.
Proof. destruct l as [|m l]; [reflexivity|]. cbn. apply erase_fields. Qed.

(* ---------------------------------------------------------------- to_rel commutes with erase *)
Lemma to_rel_aux_erase l : forall cur curf, to_rel_aux (map erase l) cur curf = map erase (to_rel_aux l cur curf).
Proof.
  induction l as [|m l IH]; intros cur curf; [reflexivity|].
  cbn [map to_rel_aux].
  destruct (erase_fields m) as (E1 & E2 & E3 & E4 & _). rewrite E1, E2, E3, E4.
  rewrite !map_app, IH. f_equal; [|f_equal].
  - destruct (cur <? m_time m); reflexivity.
  - destruct (mtype_eqb (m_type m) INTERNAL); [reflexivity|]. cbn [map]. now rewrite erase_strip.
Qed.
Lemma to_rel_erase l : to_rel (map erase l) = map erase (to_rel l).
Proof. apply to_rel_aux_erase. Qed.

(* ---------------------------------------------------------------- normalise commutes with erase *)
Definition erase_st (s : nstate) : nstate :=
  mkn (n_open s) (map erase (n_out s)) (n_wait s) (n_waitf s) (n_ts s) (n_key s).

Lemma flush_erase s c m : flush (erase_st s) c (erase m) = erase_st (flush s c m).
Proof.
  unfold flush, erase_st. cbn [n_open n_out n_wait n_waitf n_ts n_key]. f_equal.
  destruct (0 <? n_wait s); rewrite !map_app; reflexivity.
Qed.

Lemma nstep_erase s m : nstep (erase_st s) (erase m) = erase_st (nstep s m).
Proof.
  destruct (erase_fields m) as (E1 & E2 & E3 & E4 & E5 & E6 & E7 & E8).
  unfold nstep. rewrite E1, E2, E3, E4, E5, E6, E7, E8.
  change (n_open (erase_st s)) with (n_open s). change (n_wait (erase_st s)) with (n_wait s).
  change (n_waitf (erase_st s)) with (n_waitf s). change (n_ts (erase_st s)) with (n_ts s).
  change (n_key (erase_st s)) with (n_key s). change (n_out (erase_st s)) with (map erase (n_out s)).
  destruct (m_type m).
  - apply (flush_erase s).
  - apply (flush_erase s).
  - destruct (okey_eqb (m_key m) (n_key s)); [reflexivity|].
    apply (flush_erase (mkn (n_open s) (n_out s) (n_wait s) (n_waitf s) (n_ts s) (m_key m))).
  - destruct ((m_num m =? fst (n_ts s)) && (m_den m =? snd (n_ts s))); [reflexivity|].
    apply (flush_erase (mkn (n_open s) (n_out s) (n_wait s) (n_waitf s) (m_num m, m_den m) (n_key s))).
  - apply (flush_erase s).
  - apply (flush_erase s).
  - destruct (depth (m_chan m, m_note m) (n_open s)) as [|d]; [reflexivity|].
    destruct d; [|reflexivity].
    apply (flush_erase (mkn (dset k2_eqb (m_chan m, m_note m) 0%nat (n_open s)) (n_out s) (n_wait s) (n_waitf s) (n_ts s) (n_key s))).
  - destruct (depth (m_chan m, m_note m) (n_open s)) as [|d]; [|reflexivity].
    apply (flush_erase (mkn (dset k2_eqb (m_chan m, m_note m) 1%nat (n_open s)) (n_out s) (n_wait s) (n_waitf s) (n_ts s) (n_key s))).
  - reflexivity.
Qed.

Lemma fold_nstep_erase l : forall s, fold_left nstep (map erase l) (erase_st s) = erase_st (fold_left nstep l s).
Proof. induction l as [|m l IH]; intros s; [reflexivity|]. cbn [map fold_left]. now rewrite nstep_erase, IH. Qed.

Lemma remove_last_on_erase k l :
  remove_last_on k (map erase l) = (map erase (fst (remove_last_on k l)), snd (remove_last_on k l)).
Proof.
  induction l as [|m l IH]; [reflexivity|]. cbn [map remove_last_on]. rewrite IH.
  destruct (remove_last_on k l) as [r found]. cbn [fst snd].
  destruct (erase_fields m) as (_ & E2 & _ & _ & E5 & _). rewrite is_on_erase, E2, E5.
  destruct found; [reflexivity|]. destruct (is_on m && k2_eqb k (m_chan m, m_note m)); reflexivity.
Qed.

Lemma cleanup_erase o : forall out, cleanup o (map erase out) = map erase (cleanup o out).
Proof.
  unfold cleanup. induction o as [|[k d] o IH]; intros out; [reflexivity|].
  cbn [fold_left fst snd]. destruct d; [apply IH|]. rewrite remove_last_on_erase. cbn [fst]. apply IH.
Qed.

Lemma normalise_erase l : normalise (map erase l) = map erase (normalise l).
Proof.
  unfold normalise. cbv zeta.
  change (mkn [] [] 0 false (NONE, NONE) None) with (erase_st (mkn [] [] 0 false (NONE, NONE) None)) at 1 2 3 4 5.
  rewrite !fold_nstep_erase. set (s := fold_left nstep l _).
  change (n_open (erase_st s)) with (n_open s). change (n_wait (erase_st s)) with (n_wait s).
  change (n_waitf (erase_st s)) with (n_waitf s). change (n_out (erase_st s)) with (map erase (n_out s)).
  rewrite first_chan_erase, <- cleanup_erase. f_equal.
  destruct (0 <? n_wait s); [|reflexivity]. now rewrite map_app.
Qed.

(* ---------------------------------------------------------------- order independence of the merged relative view *)
Lemma C15_order_rel (a b : list msg) (o1 o2 : list (list msg)) :
  Permutation (a ++ concat o1) (b ++ concat o2) ->
  key_determines erase (a ++ concat o1) = true ->
  map erase (normalise (to_rel (merge_abs a o1))) = map erase (normalise (to_rel (merge_abs b o2))).
Proof.
  intros P K. rewrite <- !normalise_erase, <- !to_rel_erase. do 2 f_equal.
  apply C15_order_view; auto. apply skey_erase.
Qed.

(* only note messages in the inputs: the hypothesis reduces to "equal key => equal up to velocity" for notes, which
   holds e.g. when all messages are built by mk_on / mk_off with integer ticks *)
Definition plain_note (m : msg) : bool :=
  is_note m && negb (m_tf m) && Z.eqb (m_ctrl m) NONE && Z.eqb (m_prog m) NONE && Z.eqb (m_num m) NONE &&
  Z.eqb (m_den m) NONE && okey_eqb (m_key m) None && (is_on m || Z.eqb (m_vel m) NONE).

Lemma plain_notes_key_determines l : forallb plain_note l = true -> key_determines erase l = true.
Proof.
  intros H. rewrite forallb_forall in H. unfold key_determines. apply forallb_forall. intros x Hx.
  apply forallb_forall. intros y Hy. destruct (skey_eqb x y) eqn:E; [|reflexivity]. cbn [negb orb].
  apply msg_eqb_eq. apply skey_eqb_spec in E. pose proof (H x Hx) as Px. pose proof (H y Hy) as Py.
  unfold plain_note in Px, Py.
  repeat match goal with Hh : _ && _ = true |- _ => apply andb_prop in Hh as [? ?] end.
  repeat match goal with Hh : (_ =? _) = true |- _ => apply Z.eqb_eq in Hh end.
  repeat match goal with Hh : okey_eqb _ _ = true |- _ => apply okey_eqb_eq in Hh end.
  repeat match goal with Hh : negb _ = true |- _ => apply negb_true_iff in Hh end.
  unfold skey in E. injection E as E1 E2 E3 E4. apply mtype_rank_inj in E3.
  assert (Eon : is_on x = is_on y) by (unfold is_on; now rewrite E3).
  unfold erase. rewrite <- Eon.
  destruct x, y; cbn in *. subst.
  destruct (is_on _) eqn:On in *; cbn.
  - reflexivity.
  - repeat match goal with Hh : false || _ = true |- _ => cbn [orb] in Hh; apply Z.eqb_eq in Hh end. now subst.
Qed.
