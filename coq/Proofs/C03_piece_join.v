(* C03 (piece level), part E -- concatenating relative lists: pitch signatures, notes, time signatures and ticks of
   `a ++ b` from those of a and b (b moved to the end of a). *)
From Coq Require Import ZArith List Bool Lia Permutation Sorted.
From Model Require Import Base Util Seq Pairing Tok.
From Proofs Require Import C05_closest C04_sort C04_proofs C07_proofs.
From Proofs Require Import C01_frontend_sig C01_frontend_pipe C01_frontend_pair C01_rest C01_proofs C01_frontend.
Import ListNotations.
Open Scope Z_scope.

(* ================================================================ signatures *)
Definition she (d : Z) (e : sigent) : sigent := (s_time e + d, s_on e, snd e).

Lemma psig_app n a b : forall cur, psig n cur (a ++ b) = psig n cur a ++ psig n (cur + dur_rel a) b.
Proof.
  induction a as [|m a IH]; intros cur; cbn [app psig].
  - unfold dur_rel. cbn. now rewrite Z.add_0_r.
  - rewrite C04_proofs.dur_rel_cons. destruct (is_wait m).
    + rewrite IH. do 2 f_equal. lia.
    + rewrite Z.add_0_l. destruct (is_note m && (n =? m_note m)); cbn [app]; now rewrite IH.
Qed.

Lemma psig_shift n r d : forall cur, psig n (cur + d) r = map (she d) (psig n cur r).
Proof.
  induction r as [|m r IH]; intros cur; [reflexivity|]. cbn [psig].
  destruct (is_wait m).
  - replace (cur + d + m_time m) with (cur + m_time m + d) by lia. apply IH.
  - destruct (is_note m && (n =? m_note m)); cbn [map]; now rewrite IH.
Qed.

Lemma psig_upper n r : wfr r = true -> forall cur e, In e (psig n cur r) -> cur <= s_time e <= cur + dur_rel r.
Proof.
  induction r as [|m r IH]; intros Hw cur e H; [destruct H|].
  cbn [wfr forallb] in Hw. apply andb_prop in Hw. destruct Hw as [Hm Hr]. specialize (IH Hr).
  pose proof (dur_rel_nonneg r Hr) as Hd. rewrite C04_proofs.dur_rel_cons. cbn [psig] in H.
  destruct (is_wait m) eqn:Ew.
  - unfold wfr_msg in Hm. rewrite Ew in Hm. cbn in Hm. apply Z.leb_le in Hm. specialize (IH _ _ H). lia.
  - destruct (is_note m && (n =? m_note m)).
    + destruct H as [<-|H]; [cbn; lia|]. specialize (IH _ _ H). lia.
    + specialize (IH _ _ H). lia.
Qed.

Definition shst (d : Z) (st : sst) : sst :=
  match st with SNone => SNone | SOpen a => SOpen (a + d) | SClosed b => SClosed (b + d) end.

Lemma sstep_shift d st e : sstep (shst d st) (she d e) = option_map (shst d) (sstep st e).
Proof.
  unfold sstep, she. change (s_on (s_time e + d, s_on e, snd e)) with (s_on e).
  change (s_time (s_time e + d, s_on e, snd e)) with (s_time e + d).
  destruct (s_on e), st as [|a|b]; cbn [shst option_map]; try reflexivity.
  - replace (b + d <=? s_time e + d) with (b <=? s_time e); [destruct (b <=? s_time e); reflexivity|].
    destruct (b <=? s_time e) eqn:E; symmetry; [apply Z.leb_le in E; apply Z.leb_le; lia|apply Z.leb_gt in E; apply Z.leb_gt; lia].
  - replace (a + d <? s_time e + d) with (a <? s_time e); [destruct (a <? s_time e); reflexivity|].
    destruct (a <? s_time e) eqn:E; symmetry; [apply Z.ltb_lt in E; apply Z.ltb_lt; lia|apply Z.ltb_ge in E; apply Z.ltb_ge; lia].
Qed.

Lemma srun_shift d s : forall st, srun (shst d st) (map (she d) s) = option_map (shst d) (srun st s).
Proof.
  induction s as [|e s IH]; intros st; [reflexivity|]. cbn [map srun]. rewrite sstep_shift.
  destruct (sstep st e) as [st1|]; cbn [option_map]; [apply IH|reflexivity].
Qed.

Lemma sig_ok_shift d s : sig_ok (map (she d) s) = sig_ok s.
Proof.
  unfold sig_ok. change SNone with (shst d SNone) at 1. rewrite srun_shift.
  destruct (srun SNone s) as [[|a|b]|]; reflexivity.
Qed.

Lemma srun_app a b : forall st, srun st (a ++ b) = match srun st a with Some st' => srun st' b | None => None end.
Proof.
  induction a as [|e a IH]; intros st; [reflexivity|]. cbn [app srun]. destruct (sstep st e); [apply IH|reflexivity].
Qed.

Lemma srun_closed_time s : forall st t, srun st s = Some (SClosed t) -> st = SClosed t \/ exists e, In e s /\ s_time e = t.
Proof.
  induction s as [|e s IH]; intros st t H; cbn [srun] in H; [left; congruence|].
  destruct (sstep st e) as [st1|] eqn:E; [|discriminate]. destruct (IH _ _ H) as [->|(x & Hx & Ht)].
  - right. exists e. split; [now left|]. unfold sstep in E. destruct (s_on e), st as [|a|b]; try discriminate.
    + destruct (b <=? s_time e); discriminate.
    + destruct (a <? s_time e); [now injection E|discriminate].
  - right. exists x. split; [now right|exact Ht].
Qed.

Lemma srun_from_closed t s st' : (forall e, In e s -> t <= s_time e) -> srun SNone s = Some st' ->
  exists st'', srun (SClosed t) s = Some st'' /\ sclosed st'' = sclosed st'.
Proof.
  destruct s as [|e s]; intros Hle H.
  - cbn in H. injection H as <-. exists (SClosed t). split; reflexivity.
  - cbn [srun] in *. unfold sstep in *. destruct (s_on e); [|discriminate].
    specialize (Hle e (or_introl eq_refl)). apply Z.leb_le in Hle. rewrite Hle. exists st'. split; [exact H|reflexivity].
Qed.

(* two well-formed signatures, the second not before the first *)
Lemma sig_ok_app a b : sig_ok a = true -> sig_ok b = true ->
  (forall x y, In x a -> In y b -> s_time x <= s_time y) -> sig_ok (a ++ b) = true.
Proof.
  unfold sig_ok. intros Ha Hb Hab. rewrite srun_app.
  destruct (srun SNone a) as [st|] eqn:Ea; [|discriminate].
  destruct (srun SNone b) as [stb|] eqn:Eb; [|discriminate].
  destruct st as [| |t]; [now rewrite Eb|discriminate|].
  destruct (srun_closed_time a SNone t Ea) as [E|(x & Hx & Ht)]; [discriminate|].
  destruct (srun_from_closed t b stb) as (st'' & H1 & H2); [|exact Eb|].
  - intros y Hy. rewrite <- Ht. now apply Hab.
  - now rewrite H1, H2.
Qed.

(* ================================================================ notes, pitch by pitch *)
Fixpoint sopen (o : option (Z * Z)) (s : list sigent) : option (Z * Z) :=
  match s with
  | [] => o
  | e :: s' => if s_on e then sopen (Some (s_time e, snd e)) s' else sopen None s'
  end.

Lemma sig_notes_app n a b : forall o, sig_notes n o (a ++ b) = sig_notes n o a ++ sig_notes n (sopen o a) b.
Proof.
  induction a as [|e a IH]; intros o; [reflexivity|]. cbn [app sig_notes sopen].
  destruct (s_on e); [apply IH|]. destruct o as [[t0 v0]|]; cbn [app]; now rewrite IH.
Qed.

Lemma alt_bits_sopen s : forall opn o, alt_bits opn s = true -> is_some o = opn -> sopen o s = None.
Proof.
  induction s as [|e s IH]; intros opn o H Ho; cbn [alt_bits sopen] in *.
  - destruct o; [subst opn; discriminate|reflexivity].
  - destruct (s_on e).
    + apply andb_prop in H. destruct H as [_ H]. now apply IH with true.
    + apply andb_prop in H. destruct H as [_ H]. now apply IH with false.
Qed.

Definition shiftn (a : Z) (x : note) : note := let '(p, t, t', v) := x in (p, t + a, t' + a, v).

Lemma sig_notes_shift n d s : forall o,
  sig_notes n (option_map (fun tv => (fst tv + d, snd tv)) o) (map (she d) s) = map (shiftn d) (sig_notes n o s).
Proof.
  induction s as [|e s IH]; intros o; [reflexivity|]. cbn [map sig_notes].
  change (s_on (she d e)) with (s_on e). change (s_time (she d e)) with (s_time e + d). change (snd (she d e)) with (snd e).
  destruct (s_on e).
  - apply (IH (Some (s_time e, snd e))).
  - destruct o as [[t0 v0]|]; cbn [option_map fst snd map]; [|apply (IH None)]. f_equal. apply (IH None).
Qed.

Lemma filter_pitch_shift n d l : filter (pitch_is n) (map (shiftn d) l) = map (shiftn d) (filter (pitch_is n) l).
Proof.
  induction l as [|x l IH]; [reflexivity|]. cbn [map filter].
  assert (E : pitch_is n (shiftn d x) = pitch_is n x) by (destruct x as [[[p t] t'] v]; reflexivity).
  rewrite E. destruct (pitch_is n x); cbn [map]; now rewrite IH.
Qed.

(* the notes of a ++ b, when every pitch of a is closed at its end *)
Lemma notes_of_app a b : (forall p, sig_ok (psig p 0 a) = true) ->
  Permutation (notes_of (a ++ b)) (notes_of a ++ map (shiftn (dur_rel a)) (notes_of b)).
Proof.
  intros Ha. apply perm_by_pitch. intros n.
  rewrite filter_app, filter_pitch_shift, !notes_of_pitch, psig_app, sig_notes_app.
  rewrite (alt_bits_sopen _ false None (sig_ok_alt_bits _ (Ha n)) eq_refl).
  f_equal. rewrite (psig_shift n b (dur_rel a) 0). apply (sig_notes_shift n (dur_rel a) (psig n 0 b) None).
Qed.

Lemma shiftn_shiftn a b x : shiftn a (shiftn b x) = shiftn (b + a) x.
Proof. destruct x as [[[p t] t'] v]. unfold shiftn. now rewrite <- !Z.add_assoc. Qed.
Lemma shiftn_0 x : shiftn 0 x = x.
Proof. destruct x as [[[p t] t'] v]. unfold shiftn. now rewrite !Z.add_0_r. Qed.

(* ================================================================ events and ticks *)
Lemma ev_rel_from_app a b : forall cur, ev_rel_from cur (a ++ b) = ev_rel_from cur a ++ ev_rel_from (cur + dur_rel a) b.
Proof.
  induction a as [|m a IH]; intros cur; cbn [app ev_rel_from].
  - unfold dur_rel. cbn. now rewrite Z.add_0_r.
  - rewrite C04_proofs.dur_rel_cons. destruct (is_wait m).
    + rewrite IH. do 2 f_equal. lia.
    + rewrite Z.add_0_l. destruct (is_internal m); cbn [app]; now rewrite IH.
Qed.

Lemma tsv_app a b : tsv (a ++ b) = tsv a ++ tsv b.
Proof. unfold tsv. now rewrite tsig_app, map_app. Qed.

Lemma tsv_no_ts r : (forall m, In m r -> is_ts m = false) -> forall cur, tsv (ev_rel_from cur r) = [].
Proof.
  induction r as [|m r IH]; intros H cur; [reflexivity|]. cbn [ev_rel_from].
  assert (IH' : forall c, tsv (ev_rel_from c r) = []) by (apply IH; intros x Hx; apply H; now right).
  destruct (is_wait m); [apply IH'|]. destruct (is_internal m); [apply IH'|].
  unfold tsv, tsig in *. cbn [filter snd]. change (is_ts (strip_time m)) with (is_ts m).
  rewrite (H m (or_introl eq_refl)). apply IH'.
Qed.

Lemma timed_bounds r : wfr r = true -> forall cur tm, In tm (timed cur r) -> cur <= fst tm <= cur + dur_rel r.
Proof.
  induction r as [|m r IH]; intros Hw cur tm H; [destruct H|].
  cbn [wfr forallb] in Hw. apply andb_prop in Hw. destruct Hw as [Hm Hr]. specialize (IH Hr).
  pose proof (dur_rel_nonneg r Hr) as Hd. rewrite C04_proofs.dur_rel_cons. cbn [timed] in H.
  destruct (is_wait m) eqn:Ew.
  - unfold wfr_msg in Hm. rewrite Ew in Hm. cbn in Hm. apply Z.leb_le in Hm. specialize (IH _ _ H). lia.
  - destruct H as [<-|H]; [cbn [fst]; lia|]. specialize (IH _ _ H). lia.
Qed.

Lemma timed_shift r d : forall cur, timed (cur + d) r = map (fun tm => (fst tm + d, snd tm)) (timed cur r).
Proof.
  induction r as [|m r IH]; intros cur; [reflexivity|]. cbn [timed]. destruct (is_wait m).
  - replace (cur + d + m_time m) with (cur + m_time m + d) by lia. apply IH.
  - cbn [map fst snd]. now rewrite IH.
Qed.
