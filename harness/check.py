#!/venv/bin/python
"""./check Cxx [--tier quick|thorough] [--replay FILE]   (DESIGN.md section 4)

exit 0  : the property held on everything explored (KNOWN-FINDING lines for listed findings that still reproduce)
exit 1  : a line `VIOLATION property=<id> replay=<path>[ no-failing-input-found]`
Evidence is written to evidence/<id>.json on every run.
"""
import os, sys, json, time, re, subprocess, hashlib, random, fcntl, traceback

VERIF = os.path.dirname(os.path.dirname(os.path.abspath(__file__)))
REPO = os.environ.setdefault("SCODA_REPO", "/repo")
os.environ["PYTHONHASHSEED"] = "0"
os.environ["PYTHONPATH"] = REPO
sys.path.insert(0, os.path.join(VERIF, "harness"))
sys.path.insert(0, REPO)
COQ = os.path.join(VERIF, "coq")

# property -> operations whose model/implementation agreement the property's theorems rest on, with case counts
CONE = {
    "C01": [("tok_roundtrip", 400), ("tok_stateful", 100), ("util", 150), ("digitise", 60)],
    "C02": [("vocab", 40), ("tok_roundtrip", 250), ("tok_stream", 250), ("util", 60)],
    "C03": [("tok_stateful", 400)],
    "C04": [("history", 350), ("scale_down", 150), ("to_abs", 200), ("to_rel", 200), ("rel_abs_rel", 200), ("getters", 120)],
    "C05": [("quantise", 800), ("history", 150)],
    "C06": [("qnl", 700), ("pairings", 300), ("util", 120)],
    "C07": [("normalise", 900), ("concat_repeat", 300)],
    "C08": [("split", 800), ("concat_repeat", 300)],
    "C09": [("split_bars", 500), ("bar", 200), ("comp_file", 100)],
    "C10": [("bar", 700)],
    "C11": [("history", 250), ("bar", 200), ("split_bars", 150), ("pad", 150), ("tok_roundtrip", 150), ("tok_stream", 200), ("composition", 100), ("util", 250), ("midi_load", 150), ("comp_file", 80)],
    "C12": [("midi_events", 300), ("midi_roundtrip", 400), ("midi_roundtrip_mi", 250)],
    "C13": [("midi_load", 600), ("comp_file", 200)],
    "C14": [("transpose_rel", 600), ("history", 150), ("composition", 120)],
    "C15": [("merge", 600)],
    "C16": [("history", 450), ("composition", 150), ("concat_repeat", 150)],
    "C17": [("equals", 800), ("interleaved", 300)],
    "C18": [("pad", 300), ("cutoff", 400), ("scale", 300), ("set_channel", 300), ("concat_repeat", 300)],
    "C19": [("tok_stream", 500), ("tok_roundtrip", 150)],
    "C20": [("music_theory", 1500)],
}
THOROUGH_FACTOR = 12

TRUSTED_BASE = [
    "Coq 8.16.1 kernel and its vm_compute evaluator (no native_compute)",
    "the formal statement of the property in coq/Props/<id>.v (my reading of the English text)",
    "harness/translate.py (Python-subset semantics) for coq/Gen/*.v",
    "the correspondence check (differential testing of the hand-written model against the live implementation; "
    "generator coverage bounds it), harness/canon.py canonicalisation and harness/oracles.py",
    "Python semantics as summarised in DESIGN.md section 2; mido's file codec and numpy.digitize are not modelled",
]


import resource
try:        # a changed implementation that allocates without bound fails with MemoryError instead of exhausting the machine
    resource.setrlimit(resource.RLIMIT_AS, (12 << 30, 12 << 30))
except (ValueError, OSError):
    pass


def log(*a):
    print(*a, flush=True)


def sh(cmd, timeout=3000, cwd=None):
    p = subprocess.run(cmd, shell=True, capture_output=True, text=True, timeout=timeout, cwd=cwd)
    return p.returncode, p.stdout + p.stderr


class Lock:
    def __enter__(self):
        self.f = open(os.path.join(VERIF, ".build.lock"), "w")
        fcntl.flock(self.f, fcntl.LOCK_EX)

    def __exit__(self, *a):
        fcntl.flock(self.f, fcntl.LOCK_UN)
        self.f.close()


def build(prop):
    """regenerate Gen, build the model and the property's cone. returns (ok, detail, theorems)"""
    with Lock():
        rc, out = sh(f"python3 {VERIF}/harness/translate.py {COQ}/Gen")
        if rc != 0:
            return False, "translator failed (source left the translated subset): " + out.strip()[-600:], {}
        if not os.path.exists(os.path.join(COQ, "Makefile.coq")):
            sh("coq_makefile -f _CoqProject -o Makefile.coq", cwd=COQ)
        def fail_detail(out):
            m = re.search(r'File "([^"]+)", line (\d+).*?\n(Error:.*?)(?:\n\n|\Z)', out, re.S)
            return f"{m.group(1)}:{m.group(2)} {m.group(3)[:400]}" if m else out[-800:]
        # the executable model first (the correspondence check needs it even when a proof no longer compiles)
        rc, out = sh("timeout 2400 make -f Makefile.coq -j16 Model/ShowX.vo", cwd=COQ)
        if rc != 0:
            return False, "Coq build of the model failed: " + fail_detail(out), {}
        if os.path.exists(os.path.join(COQ, "Props", f"{prop}.v")):
            rc, out = sh(f"timeout 2400 make -f Makefile.coq -j16 Props/{prop}.vo", cwd=COQ)
            if rc != 0:
                return False, "Coq build failed: " + fail_detail(out), {}
    return True, "", theorems(prop)


def theorems(prop):
    path = os.path.join(COQ, "Props", f"{prop}.v")
    if not os.path.exists(path):
        return {}
    names = re.findall(r"^\s*Theorem\s+(" + prop + r"_\w+)", open(path).read(), re.M)
    res = {}
    for n in names:
        res[n] = "refuted" if n.endswith("_refuted") else "partial" if "_partial" in n else "full"
    return res


def audit(prop, thms):
    """Print Assumptions for every theorem of the property, evaluated now"""
    if not thms:
        return {}, True
    path = os.path.join(COQ, "cases")
    os.makedirs(path, exist_ok=True)
    f = os.path.join(path, f"Audit_{prop}_{os.getpid()}.v")
    with open(f, "w") as fh:
        fh.write(f"From Props Require Import {prop}.\n")
        for t in thms:
            fh.write(f'Goal True. idtac "@@{t}". Abort.\nPrint Assumptions {t}.\n')
    rc, out = sh(f"coqc -Q Gen Gen -Q Model Model -Q Proofs Proofs -Q Props Props {f}", cwd=COQ, timeout=600)
    for ext in (".v", ".vo", ".vok", ".vos", ".glob"):
        try:
            os.remove(f[:-2] + ext)
        except OSError:
            pass
    try:
        os.remove(os.path.join(path, f".Audit_{prop}_{os.getpid()}.aux"))
    except OSError:
        pass
    if rc != 0:
        return {"error": out[-500:]}, False
    res = {}
    for chunk in out.split("@@")[1:]:
        name, _, rest = chunk.partition("\n")
        rest = rest.strip()
        res[name.strip()] = "closed" if rest.startswith("Closed under the global context") else rest[:400]
    return res, True


def write_replay(prop, obj):
    d = os.path.join(VERIF, "replays", prop)
    os.makedirs(d, exist_ok=True)
    h = hashlib.sha256(json.dumps(obj, sort_keys=True, default=str).encode()).hexdigest()[:12]
    p = os.path.join(d, f"{h}.json")
    with open(p, "w") as f:
        json.dump(obj, f, indent=1, default=str)
    return p


def load_findings():
    return json.load(open(os.path.join(VERIF, "known_findings.json")))


def main():
    args = sys.argv[1:]
    prop = args[0]
    tier = os.environ.get("VERIF_TIER", "quick")
    replay = None
    if "--tier" in args:
        tier = args[args.index("--tier") + 1]
    if "--replay" in args:
        replay = args[args.index("--replay") + 1]
    seed = int(os.environ.get("VERIF_SEED", "0"))
    t0 = time.time()

    if replay:
        return do_replay(prop, replay)

    violations = []       # (replay path, found_failing_input)
    notes = []
    findings_hit = []

    ok_build, detail, thms = build(prop)
    aud = {}
    broken_tie = []
    if not ok_build:
        broken_tie.append({"kind": "build", "detail": detail})
    else:
        aud, ok_a = audit(prop, thms)
        if not ok_a:
            broken_tie.append({"kind": "audit", "detail": str(aud)})
    discharged = [t for t in thms if aud.get(t) is not None]
    axioms = {t: a for t, a in aud.items() if a != "closed"}

    import oracles, witnesses, corr
    kf = load_findings()

    # 1. regression corpus: witnesses of fixed defects (must hold) and of listed findings (reported, not alarms)
    wres = witnesses.run()
    listed = {f["witness"]: f for f in kf["findings"]}
    for wid, r in wres.items():
        if prop not in r["props"]:
            continue
        if wid in listed and listed[wid]["property"] == prop:
            if not r["ok"]:
                findings_hit.append(f"KNOWN-FINDING: property={prop} {wid}: {listed[wid]['what']}")
            else:
                notes.append(f"listed finding {wid} no longer reproduces")
        elif wid in listed:
            continue
        elif not r["ok"]:
            p = write_replay(prop, {"property": prop, "kind": "regression of a fixed defect", "witness": wid,
                                    "detail": r["detail"], "replay": f"PYTHONPATH=$SCODA_REPO /venv/bin/python harness/witnesses.py {wid}"})
            violations.append((p, True))

    # 2. property-specific exhaustive parts (C20) and the independent oracle + correspondence over generated cases
    cov = {"ops": {}, "evaluations": 0, "distinct_nontrivial": 0, "samples": []}
    factor = THOROUGH_FACTOR if tier == "thorough" else 1
    disagreements = []
    import srcmap
    changed_fns = srcmap.changed(REPO)       # functions whose AST differs from the recorded tree: examined harder
    cov["changed_functions"] = changed_fns[:40]
    for opname, n in CONE[prop]:
        if changed_fns and srcmap.boost_for(opname, changed_fns):
            n *= 4
        try:
            corpus = corr.exhaustive_inputs(opname) if tier == "thorough" else None
            if corpus:
                cov.setdefault("exhaustive_small_scope", {})[opname] = len(corpus)
            r = corr.correspond(opname, n * factor, seed, corpus=corpus)
        except Exception as e:
            broken_tie.append({"kind": "correspondence-crash", "op": opname, "detail": f"{type(e).__name__}: {str(e)[-500:]}"})
            continue
        cov["ops"][opname] = {k: r[k] for k in ("evaluations", "distinct", "distinct_nontrivial", "coq_s")}
        cov["evaluations"] += r["evaluations"]
        cov["distinct_nontrivial"] += r["distinct_nontrivial"]
        if r["sample"] is not None and len(cov["samples"]) < 4:
            cov["samples"].append({"op": opname, "input": r["sample"]})
        for d in r["disagreements"]:
            d["op"] = opname
            disagreements.append(d)
    if disagreements:
        broken_tie.append({"kind": "correspondence", "count": len(disagreements),
                           "first": {k: (str(v)[:1500]) for k, v in disagreements[0].items()}})

    # oracle on the implementation: fresh inputs (and the disagreeing ones first)
    ores = oracles.run(prop, seed, tier, extra_inputs=[(d["op"], d["input"]) for d in disagreements[:50]],
                       boost=(10 if broken_tie else 1) if not os.environ.get("VERIF_NOBOOST") else 1, kf=kf)
    cov["oracle_evaluations"] = ores["evaluations"]
    cov["oracle_nontrivial"] = ores["nontrivial"]
    cov["evaluations"] += ores["evaluations"]
    cov["distinct_nontrivial"] += ores["nontrivial"]
    if ores.get("exhaustive"):
        cov["exhaustive_part"] = ores["exhaustive"]
    if ores.get("sample") is not None:
        cov["samples"].append({"oracle_input": ores["sample"]})
    new_fail = []
    for f in ores["failures"]:
        hit = oracles.recognise(prop, f, kf)
        if hit:
            line = f"KNOWN-FINDING: property={prop} {hit}"
            if line not in findings_hit:
                findings_hit.append(line)
        else:
            new_fail.append(f)

    if new_fail:
        f = oracles.shrink(prop, new_fail[0])
        p = write_replay(prop, {"property": prop, "kind": "failing input (oracle on the implementation)", **f,
                                "tie": broken_tie})
        violations.append((p, True))
    elif broken_tie:
        p = write_replay(prop, {"property": prop, "kind": "tie between model and source broken; no failing input found",
                                "no_longer_checks": broken_tie})
        violations.append((p, False))

    # 3. evidence
    wall = round(time.time() - t0, 2)
    ev = {
        "property_id": prop, "tier": tier, "seed": seed, "level": "proof",
        "coverage": {
            "obligations": max(1, len(thms)), "discharged": len(discharged) if thms else 0,
            "checker_cmd": f"make -C {VERIF} coq  # then: coqc Print Assumptions audit of coq/Props/{prop}.v (harness/check.py audit)",
            "trusted_base": TRUSTED_BASE + [f"axioms reported by Print Assumptions: {axioms if axioms else 'none (every theorem closed under the global context)'}"],
            "theorems": thms, "assumptions": aud,
            "evaluations": cov["evaluations"], "distinct_nontrivial": cov["distinct_nontrivial"],
            "rule": "correspondence cases: distinct generated inputs per modelled operation that are non-trivial by the "
                    "operation's own rule (harness/ops.py, e.g. a wait crosses a capacity boundary for split); oracle cases: "
                    "see harness/oracles.py; both from one PRNG seeded with VERIF_SEED",
            "samples": cov["samples"][:5] or [{"note": "no generated cases (finite domain enumerated completely)"}],
            "correspondence": cov["ops"], "oracle_evaluations": cov.get("oracle_evaluations", 0),
            "disagreements": len(disagreements), "known_findings_reported": findings_hit, "notes": notes,
            "changed_functions_since_recorded_tree": cov.get("changed_functions", []),
        },
        "assumptions": TRUSTED_BASE,
        "wall_s": wall, "violations": len(violations),
    }
    if "exhaustive_part" in cov:
        ev["coverage"]["exhaustive_part"] = cov["exhaustive_part"]
    if "exhaustive_small_scope" in cov:
        ev["coverage"]["exhaustive_small_scope"] = cov["exhaustive_small_scope"]
    if tier == "thorough" and thms:
        # independent re-check of the compiled theorem file and everything it depends on
        rc, out = sh(f"timeout 2400 coqchk -silent -o -Q Gen Gen -Q Model Model -Q Proofs Proofs -Q Props Props Props.{prop}", cwd=COQ, timeout=2500)
        ev["coverage"]["coqchk"] = " ".join(out.split())[-600:]
        if rc != 0:
            log(f"coqchk failed for Props.{prop}")
    os.makedirs(os.path.join(VERIF, "evidence"), exist_ok=True)
    with open(os.path.join(VERIF, "evidence", f"{prop}.json"), "w") as f:
        json.dump(ev, f, indent=1, default=str)

    for line in findings_hit:
        log(line)
    log(f"{prop}: theorems={len(thms)} discharged={len(discharged)} axioms={'none' if not axioms else axioms} "
        f"correspondence={cov['evaluations']} cases, disagreements={len(disagreements)}, oracle failures={len(new_fail)} wall={wall}s")
    if violations:
        for p, found in violations:
            log(f"VIOLATION property={prop} replay={p}" + ("" if found else " no-failing-input-found"))
        return 1
    return 0


def do_replay(prop, path):
    import oracles
    obj = json.load(open(path))
    log(json.dumps(obj, indent=1)[:3000])
    if "op" in obj and "input" in obj:
        import ops, coqrun
        op = ops.OPS[obj["op"]]
        inp = oracles.retuple(obj["input"])
        impl = op.impl(inp)
        model = coqrun.eval_exprs([op.coq(inp)])[0]
        log("IMPLEMENTATION:", impl[:2000])
        log("MODEL         :", model[:2000])
        log("ORACLE        :", oracles.judge(prop, obj["op"], inp))
    return 0


if __name__ == "__main__":
    try:
        sys.exit(main())
    except SystemExit:
        raise
    except Exception:
        traceback.print_exc()
        sys.exit(2)
