"""Input generators (one seeded PRNG; small dense alphabets so that coincidences are common)."""
import random
from canon import *

GRID = [0, 6, 12, 18, 24, 36, 48, 60, 72, 84, 96, 108, 120, 144, 192]
PITCHES = [60, 61, 62, 60, 61, 62, 20, 21, 108, 109, 64, 0, 127]     # incl. both ends of the MIDI pitch range
CHANS = [0, 0, 0, 1, 1, 2]
VELS = [1, 127, 100, 64, 24, 40, 41, 39, 90]
EDGE_PITCHES = [0, 127, 0, 127, 1, 126]
KEYS = ["C", "G", "D", "A", "E", "B", "F_S", "C_S", "F", "B_B", "E_B", "A_B", "D_B", "G_B", "C_B"]
SIGS = [(4, 4), (3, 4), (2, 4), (6, 8), (5, 8), (2, 2), (12, 8), (3, 16), (4, 4), (3, 4), (1, 4), (7, 8), (9, 16),
        (4, 8), (4, 2), (2, 8), (8, 8), (8, 4), (3, 32), (5, 32), (2, 64), (6, 64), (7, 16), (5, 16), (3, 64), (5, 64), (1, 128)]   # same numerators with different denominators; denominators that do not divide 96
STEP_POOLS = [[12], [6], [24, 12, 6, 16, 8, 4], [5, 12], [7], [12, 8], [3, 4], [24, 12, 6, 3, 16, 8, 4, 2], [1], [10, 4]]
VALUE_POOLS = [[24, 12, 6, 16, 8, 4, 36, 18, 9], [12], [12, 24], [6, 12, 24, 48], [5, 7], [4, 8, 16], [1], [24, 12, 12], [], [96]]


def tick(rng, hi=60):
    r = rng.random()
    if r < 0.45:
        return rng.choice([g for g in GRID if g <= hi] or [0])
    if r < 0.7:
        return max(0, rng.choice([g for g in GRID if g <= hi] or [0]) + rng.choice([-1, 1, -2, 2, 3]))
    return rng.randint(0, hi)


def small_dur(rng):
    return rng.choice([1, 2, 3, 5, 6, 6, 11, 12, 12, 13, 18, 24, 24, 25, 30, 36, 48, 7, 4, 8, 16, 96, 100])


def gen_notes(rng, n=None, chans=None, pitches=None, hi=60, allow_overlap=False):
    """well-formed notes (chan, pitch, onset, dur, vel): per (chan, pitch) no two notes overlap; abutting allowed"""
    n = rng.randint(0, 7) if n is None else n
    chans = chans or CHANS
    pitches = pitches or PITCHES
    notes, busy = [], {}
    for _ in range(n * 3):
        if len(notes) >= n:
            break
        c, p = rng.choice(chans), rng.choice(pitches)
        on, d = tick(rng, hi), small_dur(rng)
        iv = busy.setdefault((c, p), [])
        if not allow_overlap and any(on < e and s < on + d for s, e in iv):
            continue
        if not allow_overlap and any(on == s for s, e in iv):
            continue
        iv.append((on, on + d))
        notes.append((c, p, on, d, rng.choice(VELS)))
    return notes


def notes_to_abs(rng, notes, sigs=True, shuffle=True, meta_chan=0, extra=True):
    """absolute message tuples in insertion order (the caller inserts them with add_absolute_message)"""
    ms = []
    for c, p, on, d, v in notes:
        ms.append(ON(c, p, v, on))
        ms.append(OFF(c, p, on + d))
    if sigs:
        for _ in range(rng.choice([0, 0, 1, 1, 2, 3])):
            a, b = rng.choice(SIGS)
            ms.append(TS(meta_chan, a, b, tick(rng, 120)))
        for _ in range(rng.choice([0, 0, 1, 2])):
            ms.append(KS(meta_chan, rng.choice(KEYS), tick(rng, 120)))
    if extra and rng.random() < 0.15:
        ms.append(PC(rng.choice(CHANS), rng.randint(0, 5), tick(rng)))
    if extra and rng.random() < 0.15:
        ms.append(CC(rng.choice(CHANS), 64, rng.choice([0, 127]), tick(rng)))
    if shuffle:
        rng.shuffle(ms)
    else:
        ms.sort(key=lambda m: m[2])
    return ms


RANK = {"INTERNAL": 0, "SEQUENCE_CONTROL": 1, "KEY_SIGNATURE": 2, "TIME_SIGNATURE": 3, "CONTROL_CHANGE": 4,
        "PROGRAM_CHANGE": 5, "NOTE_OFF": 6, "NOTE_ON": 7, "WAIT": 8}


def abs_to_rel(ms, library_order=False):
    """python-side conversion used only to build relative INPUTS (not an oracle).  Simultaneous messages: note-offs first,
    or -- library_order -- the library's canonical order (channel, type, pitch), in which a lower channel's note-on
    precedes a higher channel's note-off on the same tick"""
    out, cur = [], 0
    key = (lambda m: (m[2], m[1], RANK[m[0]], m[4])) if library_order else (lambda m: (m[2], {"NOTE_OFF": 0}.get(m[0], 1)))
    for m in sorted(ms, key=key):
        if m[2] > cur:
            out.append(WT(m[1], m[2] - cur))
            cur = m[2]
        out.append(m[:2] + (0, False) + m[4:])
    return out


def gen_abs_wf(rng, **kw):
    return notes_to_abs(rng, gen_notes(rng, **{k: v for k, v in kw.items() if k in ("n", "chans", "pitches", "hi")}),
                        sigs=kw.get("sigs", True), shuffle=kw.get("shuffle", True), extra=kw.get("extra", True))


def gen_rel_wf(rng, trailing=True, **kw):
    r = abs_to_rel(gen_abs_wf(rng, **kw), library_order=rng.random() < 0.4)
    if trailing and rng.random() < 0.5:
        r.append(WT(rng.choice(CHANS), rng.choice([1, 6, 12, 24, 50])))
    return r


def gen_rel_malformed(rng, n=None, floats=False):
    """arbitrary relative event lists: orphan offs, re-triggers, unclosed/nested notes, repeated signatures, zero waits"""
    n = rng.randint(0, 10) if n is None else n
    out = []
    pitches = rng.choice([[60], [60, 61], [60, 61, 62]])
    chans = rng.choice([[0], [0, 1], [0, 1, 2], [1, 17]])        # the message model does not restrict channels to 0..15
    sigs = rng.sample(SIGS, 2)
    keys = rng.sample(KEYS, 2)
    for _ in range(n):
        r = rng.random()
        c = rng.choice(chans)
        if r < 0.3:
            out.append(ON(c, rng.choice(pitches), rng.choice([100, 64, 100, 64, 0])))     # velocity 0 is a legal NOTE_ON here
        elif r < 0.6:
            out.append(OFF(c, rng.choice(pitches)))
        elif r < 0.82:
            w = WT(c, rng.choice([0, 1, 5, 6, 12, 12, 24, 96]))
            out.append(FL(w) if floats and rng.random() < 0.2 else w)
        elif r < 0.91:
            a, b = rng.choice(sigs)
            out.append(TS(c, a, b))
        elif r < 0.98:
            out.append(KS(c, rng.choice(keys)))
        else:
            out.append(PC(c, 1))
    return out


def gen_caps(rng):
    k = rng.choice([1, 1, 1, 2, 2, 3, 4])
    return [rng.choice([6, 12, 24, 24, 36, 48, 96, 5, 1, 13, 30]) for _ in range(k)]
