"""Independent property oracles on the live implementation (never on the model, never through Sequence.equals).

judge(prop, opname, inp) -> list of violation strings ([] = the property holds on this input, None = input outside
the property's domain / trivial).  The notions used (piano roll, sounding set, events) are written here from scratch.
"""
import os, sys, random, math, itertools, json
from fractions import Fraction
from canon import *
import gen as G
import ops
from ops import mk_abs, mk_rel, abs_of, rel_of, stored_abs, Sequence, Bar, MT

from scoda.misc.music_theory import Key, CircleOfFifths, MusicMapping, Note
from scoda.exceptions.bar_exception import BarException


def retuple(x):
    if isinstance(x, list):
        return tuple(retuple(y) for y in x) if _looks_tuple(x) else [retuple(y) for y in x]
    return x


def _looks_tuple(x):
    # message tuples and op tuples start with a string tag; configs are all-scalar mixed lists
    return (len(x) > 0 and isinstance(x[0], str) and (x[0] in TYPES or x[0].startswith("O") or x[0] in ("on", "off", "ts", "ks", "cc", "pc", "x"))) \
        or (len(x) == 11 and isinstance(x[0], int) and isinstance(x[-1], bool))


# ------------------------------------------------------------------------------------------------ notions
def events(ms, rel=False):
    """multiset (sorted list) of timed events of an absolute tuple list, INTERNAL caps excluded"""
    return sorted((m[0], m[1], m[2], m[4], m[5], m[8], m[9], str(m[10])) for m in ms if m[0] != "INTERNAL")


def abs_from_rel(ms):
    """independent relative -> absolute: (type, chan, tick, ...) and the total duration"""
    out, t = [], 0
    for m in ms:
        if m[0] == "WAIT":
            t += m[2]
        else:
            out.append(m[:2] + (t,) + m[3:])
    return out, t


def roll(ms):
    """piano roll of an absolute list: sorted (chan, pitch, onset, dur, vel); ill-formed input -> None"""
    opn, notes = {}, []
    for m in sorted(ms, key=lambda m: (m[2], 0 if m[0] == "NOTE_OFF" else 1)):
        k = (m[1], m[4])
        if m[0] == "NOTE_ON":
            if k in opn:
                return None
            opn[k] = (m[2], m[5])
        elif m[0] == "NOTE_OFF":
            if k not in opn:
                return None
            s, v = opn.pop(k)
            notes.append((m[1], m[4], s, m[2] - s, v))
    if opn:
        return None
    return sorted(notes)


def wellformed(ms):
    r = roll(ms)
    return r is not None and all(n[3] > 0 for n in r)


def alternates(ms):
    """per (chan, pitch): on off on off ... ending with off, in list order"""
    st = {}
    for m in ms:
        k = (m[1], m[4])
        if m[0] == "NOTE_ON":
            if st.get(k, False):
                return False
            st[k] = True
        elif m[0] == "NOTE_OFF":
            if not st.get(k, False):
                return False
            st[k] = False
    return not any(st.values())


def sounding(ms):
    """{(chan,pitch): merged intervals} with nesting depth semantics, for an absolute list"""
    depth, start, out = {}, {}, {}
    for m in sorted(ms, key=lambda m: (m[2], 0 if m[0] == "NOTE_OFF" else 1)):
        k = (m[1], m[4])
        if m[0] == "NOTE_ON":
            if depth.get(k, 0) == 0:
                start[k] = m[2]
            depth[k] = depth.get(k, 0) + 1
        elif m[0] == "NOTE_OFF" and depth.get(k, 0) > 0:
            depth[k] -= 1
            if depth[k] == 0 and m[2] > start[k]:
                iv = out.setdefault(k, [])
                if iv and iv[-1][1] >= start[k]:
                    iv[-1] = (iv[-1][0], max(iv[-1][1], m[2]))
                else:
                    iv.append((start[k], m[2]))
    return {k: v for k, v in out.items() if v}


def balanced(ms):
    depth = {}
    for m in sorted(ms, key=lambda m: (m[2], 0 if m[0] == "NOTE_OFF" else 1)):
        k = (m[1], m[4])
        if m[0] == "NOTE_ON":
            depth[k] = depth.get(k, 0) + 1
        elif m[0] == "NOTE_OFF":
            if depth.get(k, 0) == 0:
                return False
            depth[k] -= 1
    return not any(depth.values())


def sig_in_force(ms, kind):
    """step function tick -> value for TIME_SIGNATURE / KEY_SIGNATURE as a list of (tick, value) without repeats"""
    out = []
    for m in sorted((m for m in ms if m[0] == kind), key=lambda m: m[2]):
        v = (m[8], m[9]) if kind == "TIME_SIGNATURE" else m[10]
        if out and out[-1][0] == m[2]:
            out[-1] = (m[2], v)
        elif not out or out[-1][1] != v:
            out.append((m[2], v))
    res = []
    for t, v in out:
        if not res or res[-1][1] != v:
            res.append((t, v))
    return res


def ints_only(ms):
    return all(not m[3] for m in ms)


# ------------------------------------------------------------------------------------------------ per-property judges
J = {}


def judge_for(prop, opname):
    def deco(f):
        J.setdefault(prop, []).append((opname, f))
        return f
    return deco


# ---- C07
@judge_for("C07", "normalise")
def j_c07(ms):
    if any(m[0] == "WAIT" and m[2] < 0 for m in ms):
        return None
    s = mk_rel(ms)
    s.normalise()
    out = rel_of(s)
    v = []
    if not alternates(out):
        v.append("note-ons and note-offs do not alternate per channel and pitch")
    ts, ks = None, None
    for m in out:
        if m[0] == "TIME_SIGNATURE":
            if (m[8], m[9]) == ts:
                v.append("repeated time signature survives")
            ts = (m[8], m[9])
        if m[0] == "KEY_SIGNATURE":
            if m[10] == ks:
                v.append("repeated key signature survives")
            ks = m[10]
    a_in, d_in = abs_from_rel(ms)
    a_out, d_out = abs_from_rel(out)
    if d_in != d_out:
        v.append(f"duration changed {d_in} -> {d_out}")
    if balanced(a_in) and sounding(a_in) != sounding(a_out):
        v.append("sounding set changed on a paired input")
    s2 = mk_rel(out)
    s2.normalise()
    a2, d2 = abs_from_rel(rel_of(s2))
    if events(a2) != events(a_out) or d2 != d_out:
        v.append("second normalise changes observable content")
    return v


# ---- C18
@judge_for("C18", "pad")
def j_c18_pad(inp):
    ms, p = inp
    s = ops.mk_rel_junk(ms)
    s.pad(p)
    out = rel_of(s)
    a_in, d_in = abs_from_rel(ms)
    a_out, d_out = abs_from_rel(out)
    v = []
    if events(a_in) != events(a_out):
        v.append("pad changed events")
    if d_out != max(d_in, p):
        v.append(f"duration {d_out} != max({d_in},{p})")
    return v


@judge_for("C18", "cutoff")
def j_c18_cutoff(inp):
    ms, mx, red = inp
    if not wellformed(ms) or red > mx:
        return None
    s = mk_abs(ms)
    s.cutoff(mx, red)
    out = abs_of(s)
    exp = sorted((c, p, on, (red if d > mx else d), vel) for c, p, on, d, vel in roll(ms))
    v = []
    if red == 0:
        # collapsed notes have no piano-roll representation: compare the note messages themselves
        expm = sorted([("NOTE_ON", c, on, p) for c, p, on, d, vel in exp] + [("NOTE_OFF", c, on + d, p) for c, p, on, d, vel in exp])
        gotm = sorted((m[0], m[1], m[2], m[4]) for m in out if m[0] in ("NOTE_ON", "NOTE_OFF"))
        if gotm != expm:
            v.append(f"note messages after cutoff({mx}, 0): {gotm}, expected {expm}")
    elif roll(out) != exp:
        v.append(f"notes after cutoff {roll(out)} expected {exp}")
    non = lambda l: events([m for m in l if m[0] not in ("NOTE_ON", "NOTE_OFF")])
    if non(ms) != non(out):
        v.append("cutoff changed non-note events")
    return v


@judge_for("C18", "scale")
def j_c18_scale(inp):
    ms, k = inp[0], inp[1]
    how = inp[2] if len(inp) > 2 else "rel"
    s = ops.scale_apply(inp)
    a_in, d_in = abs_from_rel(ms if how != "abs" else rel_of(ops.mk_track(ms, how)))
    if how == "rel":
        a_out, d_out = abs_from_rel(rel_of(s))
    else:           # observed through the absolute view, which was fresh before the call
        a_out = abs_of(s)
        d_out = a_out[-1][2] if a_out else 0
        a_out = [m for m in a_out if m[0] != "INTERNAL"]
    exp = [m[:2] + (m[2] * k,) + m[3:] for m in a_in]
    v = []
    if events(exp) != events(a_out):
        v.append("scale: events are not the input's with every tick multiplied")
    if d_out != d_in * k:
        v.append("scale: duration not multiplied")
    return v


@judge_for("C18", "set_channel")
def j_c18_setch(inp):
    ms, c = inp
    s = mk_rel(ms)
    s.set_channel(c)
    out = rel_of(s)
    exp = [m[:1] + (c,) + m[2:] for m in ms]
    return [] if out == exp else ["set_channel changed something other than the channel"]


# ---- the same judges on a piece that holds the same Message objects several times (repeated plain concatenate)
def _shared_piece(inp):
    ops_ = inp[0]
    k = next(i for i, o in enumerate(ops_) if o[0] == "OConcatShare")
    store, _ = ops._exec(ops_[:k + 1], return_store=True)
    return store[inp[1]], ops_[k + 1]


def _on_shared(judge, kind, mkinp):
    def j(inp):
        piece, follow = _shared_piece(inp)
        if follow[0] != kind:
            return None
        ms = rel_of(piece)
        ops.PREBUILT[:] = [piece]
        try:
            return judge(mkinp(ms, follow))
        finally:
            ops.PREBUILT[:] = []
    return j


J.setdefault("C07", []).append(("concat_repeat", _on_shared(j_c07, "ONormalise", lambda ms, f: ms)))
J.setdefault("C18", []).append(("concat_repeat", _on_shared(j_c18_pad, "OPad", lambda ms, f: (ms, f[2]))))
J.setdefault("C18", []).append(("concat_repeat", _on_shared(j_c18_setch, "OSetChannel", lambda ms, f: (ms, f[2]))))


# ---- C08
@judge_for("C08", "split")
def j_c08(inp):
    ms, caps = inp
    a_in, d_in = abs_from_rel(ms)
    if not balanced(a_in) or not alternates(ms) or any(c <= 0 for c in caps):
        return None
    s = mk_rel(ms)
    s.refresh()
    before = ops.show_seq(s)
    pieces = s.split(list(caps))
    ps = [rel_of(p) for p in pieces]
    v = []
    if ops.show_seq(s) != before:
        v.append("split changed its source")
    # the pieces are values of their own: an in-place operation on one of them leaves the others (and the source) alone
    if len(pieces) > 1:
        k = next((i for i, p in enumerate(ps) if any(m[0] == "NOTE_ON" for m in p)), 0)
        pieces[k].transpose(1)
        pieces[k].set_channel(9)
        if [rel_of(p) for i, p in enumerate(pieces) if i != k] != [p for i, p in enumerate(ps) if i != k]:
            v.append(f"transposing piece {k} changed another piece")
        if ops.show_seq(s) != before:
            v.append(f"transposing piece {k} changed the source")
    if len(ps) > len(caps) + 1:
        v.append("more than len(capacities)+1 pieces")
    durs = [abs_from_rel(p)[1] for p in ps]
    for i, d in enumerate(durs[:-1]):
        if d != caps[i]:
            v.append(f"piece {i} lasts {d}, capacity {caps[i]}")
    if sum(durs) != d_in:
        v.append(f"durations sum to {sum(durs)}, original {d_in}")
    laid, off = [], 0
    for p, d in zip(ps, durs):
        a, _ = abs_from_rel(p)
        if not alternates(p):
            v.append("a piece ends with a note still sounding or has an orphan")
        laid += [m[:2] + (m[2] + off,) + m[3:] for m in a]
        off += d
    if sounding(laid) != sounding(a_in):
        v.append("sounding set of the pieces laid end to end differs")
    non = lambda l: events([m for m in l if m[0] not in ("NOTE_ON", "NOTE_OFF")])
    if non(laid) != non(a_in):
        v.append("non-note events lost or moved")
    vel = lambda l: {(m[1], m[4], m[5]) for m in l if m[0] == "NOTE_ON"}
    if not vel(laid) <= vel(a_in):
        v.append("re-struck note with a different velocity")
    return v


# ---- C10
@judge_for("C10", "bar")
def j_c10(inp):
    ms, num, den = inp
    a_in, d_in = abs_from_rel(ms)
    if any(m[0] == "WAIT" and m[2] < 0 for m in ms):
        return None
    s = ops.mk_rel_junk(ms)
    cap = num * 96 // den
    # signatures that survive normalisation, computed independently: a signature is dropped only when it repeats the
    # previous one literally (same numerator and same denominator)
    tss, cur = [], None
    for m in ms:
        if m[0] == "TIME_SIGNATURE":
            if (m[8], m[9]) != cur:
                tss.append((m[8], m[9]))
            cur = (m[8], m[9])
    try:
        b = Bar(s, num, den)
    except BarException:
        # rejection is a matter of content: offering the same sequence object again must be rejected again
        try:
            Bar(s, num, den)
        except BarException:
            return []
        return ["a sequence rejected by Bar (over-long / conflicting signature) is accepted when the same object is offered again"]
    v = []
    out = rel_of(b.sequence)
    d = abs_from_rel(out)[1]
    if d != cap:
        v.append(f"bar lasts {d} ticks, signature {num}/{den} needs {cap}")
    if d_in > cap:
        v.append("over-long sequence accepted")
    if len(tss) > 1 or any(t != (num, den) for t in tss):
        v.append("conflicting or second signature accepted")
    sig = [(i, m[8], m[9]) for i, m in enumerate(out) if m[0] == "TIME_SIGNATURE"]
    if sig != [(0, num, den)]:
        v.append(f"signature events {sig}")
    c = b.copy()
    ca, cd = abs_from_rel(rel_of(c.sequence))
    if (events(ca), cd, c.time_signature_numerator, c.time_signature_denominator, c.key_signature) != \
            (events(abs_from_rel(out)[0]), d, num, den, b.key_signature):
        v.append("copy differs from the bar")
    if not ints_only(out):
        v.append("non-integer tick in a bar")
    return v


# ---- C11 (types): bars and histories
@judge_for("C11", "bar")
def j_c11_bar(inp):
    ms, num, den = inp
    if not ints_only(ms):
        return None
    try:
        b = Bar(mk_rel(ms), num, den)
    except BarException:
        return []
    bad = [m for m in rel_of(b.sequence) + abs_of(b.sequence) if m[3]]
    return [f"float tick {bad[0]}"] if bad else []


@judge_for("C11", "split_bars")
def j_c11_sb(inp):
    rels, meta, qnl = inp
    try:
        bars = Sequence.sequences_split_bars([mk_rel(ms) for ms in rels], meta_track_index=meta, quantise_note_lengths=qnl)
    except BarException:
        return []
    bad = [m for t in bars for b in t for m in rel_of(b.sequence) + abs_of(b.sequence) if m[3]]
    return [f"float tick {bad[0]}"] if bad else []


def _history_hook(check):
    def j(ops_):
        st, viol = [], []

        def hook(store, step, op):
            viol.extend(check(store, step, op, st))
        ops._exec(ops_, hook=hook)
        return viol
    return j


def _c11_check(store, step, op, memo):
    v = []
    if op[0] == "OScaleDown":          # a non-integer argument (factor 1/k): outside the property's premise from here on
        memo.append("non-integer-argument")
    if memo:
        return v
    for i, s in enumerate(store):
        for fresh, lst in ((not s._abs_stale, getattr(s, "_abs", None)), (not s._rel_stale, getattr(s, "_rel", None))):
            if fresh and lst is not None:
                for m in lst._messages:
                    if m.time is not None and type(m.time) is not int:
                        v.append(f"step {step} {op[0]}: object {i} holds time {m.time!r} of type {type(m.time).__name__}")
                        return v
    return v


J.setdefault("C11", []).append(("history", _history_hook(_c11_check)))


@judge_for("C06", "util")
def j_c06_defaults(inp):
    """default note values: a caller that edits the list it was given must not change the values a later default
    quantisation allows"""
    from scoda.misc import util
    kind, a = inp
    if kind != "defaults":
        return None
    if ops.PPQN != 24:
        return None
    documented = [24, 12, 6, 16, 8, 4, 36, 18, 9]        # the default note values at PPQN 24 (Model/Util.v computes the same list)
    mine = util.get_default_note_values()
    mine[:] = [x for x in mine if x % 3 == 0]          # e.g. keep only the straight values
    s = mk_abs([ON(0, 60, 100, 0), OFF(0, 60, 16), ON(0, 62, 100, 48), OFF(0, 62, 56)])
    s.quantise_note_lengths()
    got = sorted(d for _, _, _, d, _ in roll(abs_of(s)))
    exp = sorted(min(documented, key=lambda v: (abs(v - d), documented.index(v))) for d in (16, 8))
    return [] if got == exp else [f"default note-length quantisation after a caller edited the list it got from get_default_note_values(): durations {got}, expected {exp}"]


@judge_for("C06", "util")
def j_c06_fmd(inp):
    from scoda.misc import util
    kind, a = inp
    if kind != "fmd":
        return None
    e, l = a
    got = util.find_minimal_distance(e, list(l))
    want = min(range(len(l)), key=lambda i: (abs(l[i] - e), i))
    return [] if got == want else [f"find_minimal_distance({e}, {l}) = {got}, the closest candidate has index {want}"]


@judge_for("C02", "util")
def j_c02_defaults(inp):
    """a tokeniser built with the default note values keeps ITS vocabulary: a caller that later extends the list it
    got from get_default_note_values() must not make that tokeniser emit tokens outside its dictionary"""
    from scoda.misc import util
    kind, a = inp
    if kind != "defaults":
        return None
    t = ops.Tokeniser(num_tracks=1)
    mine = util.get_default_note_values()
    mine.append(40)
    s_ = mk_abs([ON(0, 60, 100, 0), OFF(0, 60, 40)])
    try:
        toks = t.tokenise([s_])
    except Exception:
        return []                      # rejected: 40 is not one of this tokeniser's note values
    bad = [x for x in toks if x not in t.dictionary]
    return [f"tokenise emitted {bad[0]!r}, which is not in the vocabulary (the default note values were extended by a caller afterwards)"] if bad else []


@judge_for("C11", "util")
def j_c11_util(inp):
    from scoda.misc import util
    kind, a = inp
    if kind == "durs":
        vals = util.get_note_durations(*a)
    elif kind == "steps":
        vals = util.get_default_step_sizes(upper_bound_shift=a[0], lower_bound_shift=a[1])
    elif kind == "defaults":
        vals = util.get_default_note_values() + util.get_default_step_sizes()
    else:
        return None
    bad = [x for x in vals if type(x) is not int]
    return [f"tick grid value {bad[0]!r} of type {type(bad[0]).__name__} (these values become message times in quantise)"] if bad else []


@judge_for("C11", "tok_roundtrip")
def j_c11_tok(inp):
    cfg, tracks = inp[0], inp[1]
    t = ops.mk_tok(cfg)
    try:
        toks = t.tokenise([mk_rel(ms) for ms in tracks])
        out = t.detokenise(toks)
    except Exception:
        return None
    v = []
    for tk in toks:
        for part in tk.split("-"):
            if part[:3] in ("rst", "val") and not part.split("_")[1].isdigit():
                v.append(f"token {tk} embeds a non-integer tick")
    for s in out:
        if any(m[3] for m in abs_of(s)):
            v.append("detokenise produced a float tick")
    return v


@judge_for("C11", "midi_load_nd")
@judge_for("C11", "midi_load")
def j_c11_load(inp):
    """integer ticks in everything the loader returns (file ticks are integers; the rescaled position is rounded)"""
    try:
        seqs = ops.midi_load(inp, os.path.join(ops.TMP, f"t{os.getpid()}.mid"))
    except Exception:
        return None
    for i, s_ in enumerate(seqs):
        bad = [m for m in abs_of(s_) + rel_of(s_) if m[3]]
        if bad:
            return [f"loaded sequence {i} holds a float tick: {bad[0]}"]
    return []


@judge_for("C11", "tok_stream")
def j_c11_stream(inp):
    cfg, toks = inp
    t = ops.mk_tok(cfg)
    try:
        out = t.detokenise(list(toks))
    except Exception:
        return None
    for s_ in out:
        bad = [m for m in abs_of(s_) + rel_of(s_) if m[3]]
        if bad:
            return [f"detokenise produced a float tick {bad[0]}"]
    return []


# ---- C04 : views agree after every step; everything stays readable
def _content(s):
    """canonical content through whichever view is fresh (independent conversion for the relative view)"""
    if not s._abs_stale:
        a = [from_message(m) for m in s._abs._messages]
        d = a[-1][2] if a else 0
        return events(a), d
    a, d = abs_from_rel([from_message(m, rel=True) for m in s._rel._messages])
    return events(a), d


def _c04_check(store, step, op, memo):
    v = []
    if op[0] == "OOverwriteSelf" and op[1] < len(store):
        # "the effect of every operation is visible": the sequence now holds exactly the messages the iterable yielded
        if op[2] == "abs":
            exp = (events(list(op[4])), max([m[2] for m in op[4]] + [0]))
        else:
            a_, d_ = abs_from_rel(list(op[4]))
            exp = (events(a_), d_)
        try:
            got = _content(store[op[1]])
        except Exception as e:
            got = ("unreadable", str(e))
        if got != exp:
            v.append(f"step {step} {op[0]} ({op[2]}, {op[3]}): the sequence holds {got}, the messages handed over were {exp}")
    for i, s in enumerate(store):
        if s._abs_stale and s._rel_stale:
            v.append(f"step {step} {op[0]}: object {i} has both views stale (unreadable)")
            continue
        if not s._abs_stale and not s._rel_stale:
            a = [from_message(m) for m in s._abs._messages]
            r, d = abs_from_rel([from_message(m, rel=True) for m in s._rel._messages])
            da = a[-1][2] if a else 0
            if events(a) != events(r) or (da != d):
                v.append(f"step {step} {op[0]}: object {i}: absolute view {events(a)} (dur {da}) vs relative view {events(r)} (dur {d})")
    return v


J.setdefault("C04", []).append(("history", _history_hook(_c04_check)))
J.setdefault("C04", []).append(("scale_down", _history_hook(_c04_check)))


def _c05_check(store, step, op, memo):
    """right after a successful quantise, whatever happened to the object before, every event lies on the grid"""
    if op[0] not in ("OQuantise", "OQuantDefault") or op[1] >= len(store):
        return []
    steps = list(op[2]) if op[0] == "OQuantise" else [24, 12, 6, 16, 8, 4]
    s_ = store[op[1]]
    if not steps or s_._abs_stale:
        return []
    bad = [from_message(m) for m in s_._abs._messages if isinstance(m.time, int) and all(m.time % st for st in steps)]
    return [f"step {step} {op[0]} {steps}: object {op[1]} holds an event off the grid: {bad[0]}"] if bad else []


J.setdefault("C05", []).append(("history", _history_hook(_c05_check)))


def _c14_check(store, step, op, memo):
    """a transposition must be visible through BOTH views (same events whichever view is read)"""
    if op[0] != "OTranspose":
        return []
    return _c04_check(store, step, op, memo)


J.setdefault("C14", []).append(("history", _history_hook(_c14_check)))


@judge_for("C04", "rel_abs_rel")
def j_c04_conv(ms):
    if any(m[0] == "WAIT" and m[2] < 0 for m in ms):
        return None
    s = mk_rel(ms)
    a = abs_of(s)
    exp, d = abs_from_rel(ms)
    v = []
    if events(a) != events(exp) or (a[-1][2] if a else 0) != d:
        v.append("relative -> absolute lost an event or duration")
    s2 = mk_abs([m for m in exp])
    r, d2 = abs_from_rel(rel_of(s2))
    if events(r) != events(exp):
        v.append("absolute -> relative lost an event")
    return v


# ---- C16 : operations on one object leave every other object's content unchanged
def _c16_check(store, step, op, memo):
    touched = set()
    for x in op[1:3]:
        if isinstance(x, int) and not isinstance(x, bool):
            touched.add(x)
        elif isinstance(x, (list, tuple)) and x and all(isinstance(y, int) and not isinstance(y, bool) for y in x):
            touched.update(x)
    if op[0] in ("OPad", "OSetChannel", "OScale", "OTranspose", "OCutoff", "OBarInit", "OBarCopy", "OCopy", "ONormalise", "ORefresh",
                 "OReadAbs", "OReadRel", "OPairings", "ODuration"):
        touched = {op[1]}
    if op[0] == "OEquals":
        touched = {op[1], op[2]}
    if op[0] == "OScaleDown":
        touched = {op[1]}
    if op[0] in ("ONew", "ONewAbs", "ONewRel"):
        touched = set()
    if op[0] in ("OConcat", "OMerge"):
        touched = {op[1]} | set(op[2])
    if op[0] == "OSplitBars":
        touched = set(op[1])
    cur = []
    for s in store:
        try:
            cur.append(_content(s))
        except Exception as e:
            cur.append(("unreadable", str(e)))
    v = []
    mutating = {"OConcat": [1], "OMerge": [1]}
    for i, c in enumerate(cur):
        if i < len(memo):
            untouched = i not in touched or (op[0] in mutating and i not in [op[k] for k in mutating[op[0]]]) \
                or op[0] in ("OCopy", "OSplit", "OSplitBars", "OBarCopy", "OEquals", "OReadAbs", "OReadRel", "ORefresh", "OPairings", "ODuration")
            if untouched and memo[i] != c:
                v.append(f"step {step} {op}: object {i} changed from {memo[i]} to {c} although the operation was not applied to it")
    if op[0] == "OCopy" and len(cur) > len(memo) and cur[-1] != cur[op[1]]:
        v.append(f"step {step}: copy of object {op[1]} differs from it")
    if op[0] == "OCopy" and len(cur) > len(memo) and ops.show_seq(store[-1]) != ops.show_seq(store[op[1]]):
        v.append(f"step {step}: the copy of object {op[1]} does not hold the same message lists in both views: "
                 f"{ops.show_seq(store[-1])[:300]} vs {ops.show_seq(store[op[1]])[:300]}")
    if op[0] == "OBarCopy" and len(cur) > len(memo):
        # Bar.copy() of a bar whose sequence is object i: the constructor normalises and pads, but on well-formed content
        # the copy holds exactly the original's notes
        try:
            r_src, r_cpy = roll(abs_of(store[op[1]].copy())), roll(abs_of(store[-1].copy()))
        except Exception:
            r_src = r_cpy = None
        if r_src is not None and wellformed(abs_of(store[op[1]].copy())) and r_cpy != r_src:
            v.append(f"step {step}: the copy of the bar holds the notes {r_cpy}, the bar's sequence {r_src}")
    memo[:] = cur
    return v


J.setdefault("C16", []).append(("history", _history_hook(_c16_check)))


# non-integral tick values (scale(1/k, quantise_afterwards=False) on odd waits) are outside the Coq model (integers with a
# float tag); copies and split pieces of such sequences are judged on the implementation alone
def _gen_scaled_copy(r):
    ms = G.gen_rel_wf(r, n=r.randint(1, 4), pitches=[60, 61, 62], hi=40, extra=False, sigs=False)
    return ms, r.choice([2, 2, 4]), r.choice([[5], [7, 6], [3, 3, 3], [11]])


ops.Op("scaled_copy", _gen_scaled_copy, lambda inp: "", None)


def _exact(s):
    return ([(m.message_type.name, m.channel, m.time, m.note, m.velocity) for m in s.rel._messages],
            [(m.message_type.name, m.channel, m.time, m.note, m.velocity) for m in s.abs._messages])


@judge_for("C16", "scaled_copy")
def j_c16_scaled(inp):
    ms, k, caps = inp
    s = mk_rel(ms)
    try:
        s.scale(1 / k, quantise_afterwards=False)
    except Exception:
        return None
    before = _exact(s)
    c = s.copy()
    v = []
    if _exact(c) != before:
        v.append(f"the copy {_exact(c)[0]} differs from its original {before[0]}")
    total = sum(m[2] for m in before[0] if m[0] == "WAIT")
    ps = s.split(list(caps))
    if sum(m.time for p in ps for m in p.rel._messages if m.message_type == MT.WAIT) != total:
        v.append(f"the split pieces last {sum(m.time for p in ps for m in p.rel._messages if m.message_type == MT.WAIT)} ticks in total, the original {total}")
    if _exact(s) != before:
        v.append("split changed its source")
    return v


# ---- a channel set to None after construction (Message() itself turns None into 0): outside the Coq model (waits derived
# from such a message get channel 0), judged on the implementation alone
def _gen_none_channel(r):
    ms = G.gen_abs_wf(r, n=r.randint(1, 4), chans=[0, 0, 1], pitches=[60, 61], hi=30, sigs=r.random() < 0.3, extra=r.random() < 0.3)
    return ms, r.randrange(len(ms)) if ms else 0, r.random() < 0.5, r.randrange(1 << 20)


ops.Op("none_channel", _gen_none_channel, lambda inp: "", None)


def _with_none(ms, k, twin):
    """the sequence with message k given channel None while iterating messages_abs(); twin: a copy of that message on
    channel 0 at the same tick is added as well (same tick, type and pitch on channels None and 0)"""
    s = mk_abs(ms)
    target, done = tuple(ms[k]), False
    for m in s.messages_abs():
        if not done and tuple(from_message(m)) == target:
            m.channel = None
            done = True
    if twin and ms:
        t = s.abs._messages[0]
        for m in s.abs._messages:
            if m.channel is None:
                t = m
        c = t.copy()
        c.channel = 0
        s.add_absolute_message(c)
    return s


@judge_for("C04", "none_channel")
def j_c04_none(inp):
    ms, k, twin, seed = inp
    if not ms or k >= len(ms):
        return None
    try:
        s = _with_none(ms, k, twin)
        a = [from_message(m) for m in s.abs._messages]
        r, d = abs_from_rel([from_message(m, rel=True) for m in s.rel._messages])
    except Exception as e:
        return [f"editing a channel to None while iterating messages_abs() raised {type(e).__name__}: {e}"]
    strip = lambda l: sorted((m[0], m[2], m[4], m[5], m[8], m[9], str(m[10])) for m in l if m[0] not in ("INTERNAL", "WAIT"))
    da = a[-1][2] if a else 0
    if strip(a) != strip(r) or da != d:
        return [f"absolute view {strip(a)} (dur {da}) vs relative view {strip(r)} (dur {d})"]
    if any(x[2] > y[2] for x, y in zip(a, a[1:])):
        return ["absolute view not sorted by time"]
    return []


@judge_for("C17", "none_channel")
def j_c17_none(inp):
    """the same events entered in two different orders compare equal, also when a channel is None"""
    ms, k, twin, seed = inp
    if not ms or not wellformed(ms) or k >= len(ms):
        return None
    # as in j_c17: two different signatures of one type on one tick and channel have no defined order
    sigs = [(m[0], m[1], m[2]) for m in ms if m[0] in ("TIME_SIGNATURE", "KEY_SIGNATURE")]
    if len(set(sigs)) != len(sigs):
        return None
    try:
        a = _with_none(ms, k, twin)
        order = list(ms)
        random.Random(seed).shuffle(order)
        b = _with_none(order, order.index(ms[k]), twin)      # the same message, found by content (copy() would turn the None back into 0)
        r1, r2 = a.equals(b), b.equals(a)
    except Exception as e:
        return [f"equals raised {type(e).__name__}: {e}"]
    return [] if (r1 and r2) else [f"the same events entered in another order compare unequal ({r1}, {r2})"]


def _comp_content(c):
    return [[(b.time_signature_numerator, b.time_signature_denominator, b.key_signature, _content(b.sequence)) for b in t.bars]
            for t in c.tracks]


@judge_for("C16", "composition")
def j_c16_comp(inp):
    rels, meta, ti, bi, k = inp
    from scoda.elements.composition import Composition
    try:
        c = Composition.from_sequences([mk_rel(ms) for ms in rels], meta)
        cp = c.copy()
    except Exception:
        return None
    v = []
    before = _comp_content(c)
    if _comp_content(cp) != before:
        v.append("a copy of the composition differs from it")
    if ti < len(cp.tracks) and bi < len(cp.tracks[ti].bars):
        try:
            cp.tracks[ti].bars[bi].transpose(k)
            cp.tracks[ti].bars[bi].sequence.pad(500)
        except Exception:
            return v
        if _comp_content(c) != before:
            v.append("operating on a bar of the copy changed the original composition")
        b0 = c.tracks[ti].bars[bi]
        try:
            b0.sequence.set_channel(7)
        except Exception:
            return v
        if any(ch == 7 for (_, ch, *_r) in _comp_content(cp)[ti][bi][3][0]):
            v.append("operating on a bar of the original changed the copy")
    return v


@judge_for("C14", "composition")
def j_c14_bar(inp):
    rels, meta, ti, bi, k = inp
    from scoda.elements.composition import Composition
    try:
        c = Composition.from_sequences([mk_rel(ms) for ms in rels], meta)
    except Exception:
        return None
    if not (ti < len(c.tracks) and bi < len(c.tracks[ti].bars)):
        return None
    b = c.tracks[ti].bars[bi]
    k0 = b.key_signature
    notes0 = roll(abs_of(b.sequence))
    try:
        flag = b.transpose(k)
    except Exception as e:
        return [f"Bar.transpose raised {type(e).__name__}: {e}"]
    v = []
    if k0 is not None:
        if b.key_signature is None:
            v.append("the bar's key became undefined")
        elif (TONIC[b.key_signature.name] - TONIC[k0.name] - k) % 12:
            v.append(f"bar key {k0.name} transposed by {k} gave {b.key_signature.name}")
    out = abs_of(b.sequence)
    if any(not (21 <= m[4] <= 108) for m in out if m[0] in ("NOTE_ON", "NOTE_OFF")):
        v.append("note outside the playable range in a transposed bar")
    if notes0 is not None and not flag and all(21 <= n[1] + k <= 108 for n in notes0):
        if roll(out) != sorted((c_, p + k, on, d, vel) for c_, p, on, d, vel in notes0):
            v.append("bar notes are not the plain shift")
    return v


# ---- C05
@judge_for("C05", "quantise")
def j_c05(inp):
    ms, steps = inp[0], inp[1]
    if not wellformed(ms) or not steps:
        return None
    s = ops.quant_seq(inp)
    ms = abs_of(s)               # what quantise sees (with the INTERNAL end marker if the input ends with a rest)
    s.quantise(list(steps))
    out = abs_of(s)
    v = []
    mx = max(steps)
    if any(all(m[2] % st for st in steps) for m in out):
        v.append("event off the grid")
    if not wellformed(out):
        v.append("notes not well-formed after quantise (pairing / positive duration / overlap)")
    non = lambda l: sorted((m[0], m[1], m[4], m[5], m[8], m[9], str(m[10])) for m in l if m[0] not in ("NOTE_ON", "NOTE_OFF"))
    if non(ms) != non(out):
        v.append("a non-note event was lost or changed")
    # displacement: match every output message with an input message of the same identity within max step
    for m in out:
        cands = [x for x in ms if x[:2] == m[:2] and x[4:] == m[4:] and abs(x[2] - m[2]) <= mx]
        if not cands:
            v.append(f"message {m} is not within {mx} ticks of an input message with the same content")
            break
    # isolated notes
    r_in, r_out = roll(ms), roll(out) or []
    for (c, p, on, d, vel) in r_in:
        others = [n for n in r_in if n[:2] == (c, p) and n != (c, p, on, d, vel)]
        if any(abs(n[2] - (on + d)) < 2 * mx or abs(n[2] + n[3] - on) < 2 * mx or abs(n[2] - on) < 2 * mx for n in others):
            continue
        pos = lambda t: [(t // st) * st for st in steps] + [(t // st) * st + st for st in steps]
        qs = min(pos(on), key=lambda x: abs(x - on))
        fits = any(x > qs for x in pos(on + d))
        present = [n for n in r_out if n[:2] == (c, p) and n[4] == vel and abs(n[2] - on) <= mx]
        if fits and not present:
            v.append(f"isolated note {(c, p, on, d, vel)} dropped although a grid position for its end exists")
        if not fits and present:
            v.append(f"isolated note {(c, p, on, d, vel)} kept although no grid position for its end exists")
    return v


# ---- C06
@judge_for("C06", "qnl")
def j_c06(inp):
    ms, vals, std, dne = inp[:4]
    if not wellformed(ms) or any(x <= 0 for x in vals):
        return None
    if len(inp) > 4 and inp[4]:
        if not vals:
            return None      # an empty value list means "defaults" to quantise_and_normalise
        s0 = mk_abs(ms)
        s0.quantise([1])     # the compound call quantises first: judged only where that step keeps every note (C05 judges it)
        if roll(abs_of(s0)) != roll(ms):
            return None
    out = abs_of(ops.qnl_apply(inp))
    v = []
    r_in, r_out = roll(ms), roll(out)
    if r_out is None:
        return ["output notes overlap or are unpaired"]
    if any(n[3] not in vals for n in r_out):
        v.append("a note has a duration outside the allowed values")
    non = lambda l: events([m for m in l if m[0] not in ("NOTE_ON", "NOTE_OFF")])
    if non(ms) != non(out) and not (len(inp) > 4 and inp[4]):     # the compound call also normalises (drops repeated signatures)
        v.append("a non-note event changed")
    key = lambda n: (n[0], n[1], n[2], n[4])
    din = {key(n): n for n in r_in}
    for n in r_out:
        if key(n) not in din:
            v.append(f"note {n} has no input note with the same channel, pitch, onset, velocity")
            return v
    dout = {key(n): n for n in r_out}
    for n in r_in:
        nxt = min([m[2] for m in r_in if m[:2] == n[:2] and m[2] > n[2]], default=None)
        cand = [x for x in vals if (nxt is None or n[2] + x <= nxt) and (not dne or x <= n[3])]
        o = dout.get(key(n))
        if not cand and o is not None:
            v.append(f"note {n} kept although no allowed duration fits")
        if cand and o is None:
            v.append(f"note {n} removed although durations {cand} fit")
        if cand and o is not None:
            best = min(abs(x - n[3]) for x in cand)
            if o[3] not in cand or abs(o[3] - n[3]) != best:
                v.append(f"note {n} got duration {o[3]}, closest fitting is at distance {best} among {cand}")
            if dne and o[3] > n[3]:
                v.append("note extended although extension is disabled")
    return v


J.setdefault("C08", []).append(("concat_repeat", _on_shared(j_c08, "OSplit", lambda ms, f: (ms, f[2]))))


# ---- C09
@judge_for("C09", "split_bars")
def j_c09(inp):
    rels, meta, qnl = inp
    tracks = [abs_from_rel(ms) for ms in rels]
    if not all(wellformed(a) for a, _ in tracks):
        return None
    # domain: signature changes on the running bar boundaries
    sigs = sorted([m for m in tracks[meta][0] if m[0] == "TIME_SIGNATURE"], key=lambda m: m[2])
    D = max(d for _, d in tracks)
    bounds, t, cur, k = [], 0, (4, 4), 0
    sig_at = {}
    for m in sigs:
        sig_at.setdefault(m[2], []).append((m[8], m[9]))
    if any(len(set(v)) > 1 for v in sig_at.values()):
        return None
    pending = sorted(sig_at)
    while True:
        if pending and pending[0] == t:
            cur = sig_at[pending.pop(0)][0]
        elif pending and pending[0] < t:
            return None          # a signature change inside a bar: outside the property's domain
        ln = 96 * cur[0] // cur[1]
        if ln <= 0:
            return None
        bounds.append((t, ln, cur))
        t += ln
        if t >= D:
            break
    if pending and pending[0] < t:
        return None
    ss = [mk_rel(ms) for ms in rels]
    for s in ss:
        s.refresh()
    before = [ops.show_seq(s) for s in ss]
    try:
        bars = Sequence.sequences_split_bars(ss, meta_track_index=meta, quantise_note_lengths=qnl)
    except BarException as e:
        return [f"BarException on an input inside the domain: {e}"]
    v = []
    if [ops.show_seq(s) for s in ss] != before:
        v.append("inputs changed")
    if len({len(t) for t in bars}) != 1:
        v.append("tracks have different numbers of bars")
        return v
    nb = len(bars[0])
    if nb != len(bounds) and not (D == 0 and nb == 1):
        # zero-time events on the final boundary are not carried into a further bar (finding D5); the bar count must
        # still cover D with less than one bar to spare
        v.append(f"{nb} bars, expected {len(bounds)} to cover duration {D}")
        return v
    keys = sorted([m for m in tracks[meta][0] if m[0] == "KEY_SIGNATURE"], key=lambda m: m[2])
    for ti, tb in enumerate(bars):
        laid = []
        for bi, b in enumerate(tb):
            st, ln, sg = bounds[bi]
            out = rel_of(b.sequence)
            a, d = abs_from_rel(out)
            if d != ln:
                v.append(f"track {ti} bar {bi} lasts {d}, expected {ln}")
            if (b.time_signature_numerator, b.time_signature_denominator) != sg:
                v.append(f"track {ti} bar {bi} carries {b.time_signature_numerator}/{b.time_signature_denominator}, in force {sg}")
            kin = [m[10] for m in keys if m[2] <= st]
            # the splitter consumes one key signature per bar: when every key signature stands on a bar line, one per
            # bar line at most, the bar carries the key in force at its start
            starts = {b_[0] for b_ in bounds}
            if all(m[2] in starts for m in keys) and len({m[2] for m in keys}) == len(keys):
                want = kin[-1] if kin else None
                have = b.key_signature.name if b.key_signature is not None else None
                if have != want:
                    v.append(f"track {ti} bar {bi} carries the key {have}, in force at its start: {want}")
            laid += [m[:2] + (m[2] + st,) + m[3:] for m in a]
        so, si = sounding(laid), sounding(tracks[ti][0])
        if not qnl and so != si:
            v.append(f"track {ti}: sounding set differs without re-quantisation")
        if qnl:
            for k_, ivs in so.items():
                for (a0, a1) in ivs:
                    if not any(b0 <= a0 and a1 <= b1 for (b0, b1) in si.get(k_, [])):
                        v.append(f"track {ti}: bars sound {k_} on [{a0},{a1}) where the input is silent")
            # a note lying inside one bar whose duration is an allowed default value (and that is not followed by the
            # same key before its end) must come out unchanged; notes longer than 36 ticks are listed finding D22
            allowed = {24, 12, 6, 16, 8, 4, 36, 18, 9}
            r_out = roll(laid) or []
            for n in roll(tracks[ti][0]):
                inside = any(st <= n[2] and n[2] + n[3] <= st + ln for st, ln, _ in bounds)
                if inside and n[3] in allowed and n not in r_out:
                    v.append(f"track {ti}: note {n} lies inside one bar with an allowed duration but is not reproduced")
    return v


# ---- C14
@judge_for("C14", "transpose_rel")
def j_c14_messages(inp):
    """message-level reading, for every stream (also ill-formed ones): every note message ends up in range on the pitch
    class of pitch + k; the flag is true exactly when some note message had to be moved by octaves; flag false means
    every note message was shifted by exactly k"""
    ms, k = inp
    rs = ops.RelativeSequence(messages=[ops.to_message(m, rel=True) for m in ms])
    flag = rs.transpose(k)
    out = [ops.from_message(m, rel=True) for m in rs._messages]
    v = []
    if len(out) != len(ms):
        return ["transpose changed the number of messages"]
    moved = False
    for a, b in zip(ms, out):
        if a[0] in ("NOTE_ON", "NOTE_OFF"):
            if not (21 <= b[4] <= 108) or (b[4] - a[4] - k) % 12:
                v.append(f"{a[0]} {a[4]} became {b[4]} (k = {k})")
                break
            moved = moved or b[4] != a[4] + k
    if bool(flag) != moved:
        v.append(f"returned {bool(flag)} although {'a' if moved else 'no'} note message was moved by octaves")
    return v


@judge_for("C14", "transpose_rel")
def j_c14(inp):
    ms, k = inp
    a_in, d_in = abs_from_rel(ms)
    if not wellformed(a_in):
        return None
    s = mk_rel(ms)
    flag = s.transpose(k)
    out, d_out = abs_from_rel(rel_of(s))
    v = []
    notes_in, notes_out = roll(a_in), roll(out)
    if any(not (21 <= m[4] <= 108) for m in out if m[0] in ("NOTE_ON", "NOTE_OFF")):
        v.append("note outside 21..108 after transposition")
    inrange = all(21 <= n[1] <= 108 for n in notes_in)
    need = any(not (21 <= n[1] + k <= 108) for n in notes_in)
    if inrange and flag != need:
        v.append(f"returned {flag}, octave shift needed: {need}")
    if notes_out is None:
        v.append("output not well-formed")
    else:
        for n in notes_out:
            if not any(m[0] == n[0] and (m[1] + k - n[1]) % 12 == 0 for m in notes_in):
                v.append(f"note {n} is not the image of an input note")
                break
    if inrange and not need:
        exp = sorted((c, p + k, on, d, vel) for c, p, on, d, vel in notes_in)
        if notes_out != exp:
            v.append("plain shift expected when nothing leaves the range")
        back = mk_rel(rel_of(s))
        back.transpose(-k)
        if roll(abs_from_rel(rel_of(back))[0]) != notes_in:
            v.append("transposing back does not restore the notes")
    kin = [m[10] for m in a_in if m[0] == "KEY_SIGNATURE"]
    kout = [m[10] for m in out if m[0] == "KEY_SIGNATURE"]
    if not flag:
        for a, b in zip(kin, kout):
            if b is None:
                v.append("key signature became undefined")
            elif (tonic(b) - tonic(a) - k) % 12 != 0:
                v.append(f"key {a} transposed by {k} gave {b}")
    if any(m[0] == "KEY_SIGNATURE" and m[10] is None for m in out):
        v.append("key signature became undefined")
    return v


TONIC = {"C": 0, "G": 7, "D": 2, "A": 9, "E": 4, "B": 11, "F_S": 6, "C_S": 1, "F": 5, "B_B": 10, "E_B": 3, "A_B": 8,
         "D_B": 1, "G_B": 6, "C_B": 11}


def tonic(kname):
    return TONIC[kname]


# ---- C15
@judge_for("C15", "merge")
def j_c15(inp):
    kinds = [k for k, _ in inp]
    seqs = [(ms if k == "abs" else abs_from_rel(ms)[0]) for k, ms in inp]
    if not all(balanced(ms) and wellformed(ms) for ms in seqs):
        return None
    ss = [ops.mk_any(k, ms) for k, ms in inp]
    durs = [(abs_of(s)[-1][2] if abs_of(s) else 0) for s in ss]
    ops.merge_call(ss)
    out = abs_of(ss[0])
    v = []
    allm = [m for ms in seqs for m in ms]
    if sounding(out) != sounding(allm):
        v.append("sounding set is not the union")
    d = out[-1][2] if out else 0
    if d != max(durs):
        v.append(f"duration {d} != max {max(durs)}")
    # order independence of (pitch, onset, duration, channel)
    perm = list(reversed(inp))
    ps = [ops.mk_any(k, ms) for k, ms in perm]
    ops.merge_call(ps)
    strip = lambda l: sorted((c, p, on, dd) for c, p, on, dd, _ in (roll(l) or []))
    if strip(out) != strip(abs_of(ps[0])):
        v.append("notes depend on the order of merging")
    # note segmentation: when notes of one channel and pitch coming from different inputs never overlap (they may
    # abut), the merged notes are exactly the union of the inputs' notes (onset and duration of every note kept)
    rolls = [roll(ms) or [] for ms in seqs]
    clash = False
    for i in range(len(rolls)):
        for j in range(i + 1, len(rolls)):
            for (c1, p1, on1, d1, _) in rolls[i]:
                for (c2, p2, on2, d2, _) in rolls[j]:
                    if (c1, p1) == (c2, p2) and on1 < on2 + d2 and on2 < on1 + d1:
                        clash = True
    if not clash:
        exp_notes = sorted((c, p, on, dd) for rl in rolls for c, p, on, dd, _ in rl)
        if strip(out) != exp_notes:
            v.append(f"merged notes {strip(out)} are not the union of the inputs' notes {exp_notes}")
    # signatures: every signature event that does not repeat the one in force (in tick order over all inputs) is kept
    for kind in ("TIME_SIGNATURE", "KEY_SIGNATURE"):
        exp = sig_in_force(allm, kind)
        got = sig_in_force(out, kind)
        if got != exp and len({m[2] for m in allm if m[0] == kind}) == len([m for m in allm if m[0] == kind]):
            v.append(f"{kind} in force differs: {got} vs {exp}")
    return v


# ---- C17
@judge_for("C17", "equals")
def j_c17(inp):
    a, b, fl, kind = inp[:4]
    share = len(inp) > 4 and inp[4]
    if not (wellformed(a) and wellformed(b)):
        return None
    # two different signatures of one type on the same tick and channel have no defined order (the stable sort keeps
    # insertion order; C17_insertion_order_refuted / C17_perm_invariant's hypothesis): outside the property's domain
    for l in (a, b):
        sigs = [(m[0], m[1], m[2]) for m in l if m[0] in ("TIME_SIGNATURE", "KEY_SIGNATURE")]
        if len(set(sigs)) != len(sigs):
            return None
    sa, sb = mk_abs(a), mk_abs(b)
    v = []
    if not mk_abs(a).equals(mk_abs(a)):
        v.append("not reflexive")
    if not mk_abs(a).equals(mk_abs(a).copy()):
        v.append("a sequence does not equal its copy")
    if not mk_abs(a).equals(mk_rel(G.abs_to_rel(a))) and len({m[2] for m in a}) == len(a):
        v.append("same events through the relative representation compare unequal")
    p1, p2 = ops.mk_abs_pair(a, b, share), ops.mk_abs_pair(b, a, share)
    r1, r2 = p1[0].equals(p1[1], *fl), p2[0].equals(p2[1], *fl)
    if r1 != r2:
        v.append("not symmetric")
    # ground truth by canonical content
    ich, its, iks, ivel = fl

    def canon(ms):
        notes = [(None if ich else c, p, on, d, None if ivel else vel) for c, p, on, d, vel in roll(ms)]
        sig = [] if its else [(m[2], m[8], m[9]) + (() if ich else (m[1],)) for m in ms if m[0] == "TIME_SIGNATURE"]
        ks = [] if iks else [(m[2], m[10]) + (() if ich else (m[1],)) for m in ms if m[0] == "KEY_SIGNATURE"]
        return sorted(notes, key=str), sorted(sig), sorted(ks)
    same = canon(a) == canon(b)
    # the channel flag is only claimed for a uniform relabelling of a single-channel sequence (property text): with
    # several channels the interleaving order of simultaneous events depends on the channels themselves
    single = len({m[1] for m in a}) <= 1 and len({m[1] for m in b}) <= 1
    if same and not r1 and (single or not ich):
        v.append(f"musically equal sequences compare unequal (perturbation {kind}, flags {fl})")
    if not same and r1 and kind not in ("chan_all", "channel"):
        v.append(f"sequences differing by {kind} compare equal with flags {fl}")
    return v


# ---- C12
@judge_for("C12", "midi_roundtrip_mi")
def j_c12_mi(inp):
    return j_c12(inp[0], inp[1])


@judge_for("C12", "midi_roundtrip")
def j_c12(rels, mi=0):
    tracks = [abs_from_rel(ms)[0] for ms in rels]
    if not all(wellformed(a) and all(1 <= m[5] <= 127 for m in a if m[0] == "NOTE_ON") for a in tracks):
        return None
    ss = [mk_rel(ms) for ms in rels]
    path = os.path.join(ops.TMP, f"o{os.getpid()}.mid")
    Sequence.sequences_save(ss, path)
    back = Sequence.sequences_load(path, target_meta_track_index=mi)
    v = []
    if len(back) != len(rels):
        return [f"{len(back)} sequences loaded, {len(rels)} saved"]
    for i, s_ in enumerate(back):
        if i != mi and any(m[0] in ("TIME_SIGNATURE", "KEY_SIGNATURE") for m in abs_of(s_)):
            v.append(f"sequence {i} carries a signature although sequence {mi} is the designated meta sequence")
    strip = lambda l: sorted((p, on, d, vel) for _, p, on, d, vel in (roll(l) or [("x",) * 5]))
    for i, (a, s) in enumerate(zip(tracks, back)):
        if strip(a) != strip(abs_of(s)):
            v.append(f"sequence {i}: notes {strip(abs_of(s))} differ from saved {strip(a)}")
    allm = [m for a in tracks for m in a]
    out0 = abs_of(back[mi])
    ticks = {m[2] for m in allm if m[0] in ("TIME_SIGNATURE", "KEY_SIGNATURE")}
    if len(ticks) == len([m for m in allm if m[0] in ("TIME_SIGNATURE", "KEY_SIGNATURE")]):   # no two signatures on one tick
        exp_ts = sig_in_force(allm, "TIME_SIGNATURE")
        if not exp_ts or exp_ts[0][0] != 0:
            exp_ts = sig_in_force([TS(0, 4, 4, 0)] + allm, "TIME_SIGNATURE")
        if sig_in_force(out0, "TIME_SIGNATURE") != exp_ts:
            v.append(f"time signature in force {sig_in_force(out0, 'TIME_SIGNATURE')} expected {exp_ts}")
        if sig_in_force(out0, "KEY_SIGNATURE") != sig_in_force(allm, "KEY_SIGNATURE"):
            v.append("key signature in force differs")
    return v


# ---- C13 through Composition.from_midi_file: the bars must follow the signatures of the DESIGNATED meta sequence
@judge_for("C13", "comp_file")
def j_c13_comp(inp):
    tpb, tracks, groups, metas, mi = inp
    from scoda.elements.composition import Composition
    ntr = len(tracks)
    flat = [i for g in groups for i in g]
    if not groups or any(not g for g in groups) or len(set(flat)) != len(flat) or any(i >= ntr for i in flat) \
            or not (0 <= mi < len(groups)):
        return None
    if any(e[0] == "ks" and e[4] not in MusicMapping.KeyKeyMapping for t in tracks for e in t):
        return None
    path = os.path.join(ops.TMP, f"q{os.getpid()}.mid")
    ops.write_midi(tpb, tracks, path)
    try:
        seqs = Sequence.sequences_load(path, track_indices=[list(g) for g in groups], meta_track_indices=list(metas),
                                       target_meta_track_index=mi)
        for s_ in seqs:
            s_.quantise_and_normalise()
        ref = Composition.from_sequences(seqs, mi)
    except Exception:
        return None          # the step-by-step route itself fails: judged by the loader / bar-splitting properties
    try:
        c = Composition.from_midi_file(path, [list(g) for g in groups], list(metas), mi)
    except Exception as e:
        return [f"from_midi_file raised {type(e).__name__}: {e} where load + quantise + from_sequences with the same meta index succeeds"]
    sig = lambda comp: [[(b.time_signature_numerator, b.time_signature_denominator, b.key_signature) for b in t.bars] for t in comp.tracks]
    if sig(c) != sig(ref):
        return [f"bar signatures {sig(c)} differ from those of the designated meta sequence {sig(ref)}"]
    if _comp_content(c) != _comp_content(ref):
        return ["bars differ from load + quantise + from_sequences"]
    return []


# ---- C13
@judge_for("C13", "midi_load_nd")
@judge_for("C13", "midi_load")
def j_c13(inp):
    tpb, tracks, groups, metas, mi = inp[:5]
    ntr = len(tracks)
    flat = [i for g in groups for i in g]
    if not groups or any(not g for g in groups) or len(set(flat)) != len(flat) or any(i >= ntr for i in flat) \
            or not (0 <= mi < len(groups)):
        return None
    if any(e[0] == "ks" and e[4] not in MusicMapping.KeyKeyMapping for t in tracks for e in t):
        return None
    path = os.path.join(ops.TMP, f"p{os.getpid()}.mid")
    seqs = ops.midi_load(inp, path)
    v = []
    if len(seqs) != len(groups):
        return ["wrong number of sequences"]
    # exact positions
    def pos(track):
        out, T = [], 0
        for e in track:
            T += e[5]
            out.append((e, Fraction(T * 24, tpb)))
        return out
    for gi, g in enumerate(groups):
        exp = []
        for i in g:
            for e, x in pos(tracks[i]):
                if e[0] == "on" and e[3] > 0:
                    exp.append(("NOTE_ON", e[1], x, e[2]))
                elif e[0] in ("on", "off"):
                    exp.append(("NOTE_OFF", e[1], x, e[2]))
        # per-track normalisation and the merge fuse overlapping notes: compare sounding sets with a half-tick tolerance
        got = abs_of(seqs[gi])
        # every loaded note event must sit within half a tick of the exact position of a file event of that kind
        for m in got:
            if m[0] in ("NOTE_ON", "NOTE_OFF"):
                if not any(ty == m[0] and ch == m[1] and n == m[4] and abs(x - m[2]) <= Fraction(1, 2) for ty, ch, x, n in exp):
                    v.append(f"group {gi}: {m[0]} pitch {m[4]} at tick {m[2]} is not within half a tick of a file event of its tracks")
                    break
        # sounding set: compare with the union computed from rounded-exact positions when no position is a tie
        if all((x * 2).denominator != 1 or x.denominator == 1 for _, _, x, _ in exp):
            per_track = []
            for i in g:
                tr = []
                for e, x in pos(tracks[i]):
                    t = int(Fraction(round(x)))
                    if e[0] == "on" and e[3] > 0:
                        tr.append(ON(e[1], e[2], e[3], t))
                    elif e[0] in ("on", "off"):
                        tr.append(OFF(e[1], e[2], t))
                per_track.append(_norm_sounding(tr))
            union = {}
            for sd in per_track:
                for k_, ivs in sd.items():
                    union.setdefault(k_, []).extend(ivs)
            union = {k_: _merge_iv(ivs) for k_, ivs in union.items()}
            if sounding(got) != union:
                v.append(f"group {gi}: sounding set {sounding(got)} is not the union of its tracks {union}")
    # signatures of considered tracks on the meta target
    considered = [i for i in range(ntr) if i in flat or i in metas]
    exp_sig = []
    for i in considered:
        for e, x in pos(tracks[i]):
            if e[0] == "ts":
                exp_sig.append(("TIME_SIGNATURE", x, (e[2], e[3])))
            elif e[0] == "ks":
                exp_sig.append(("KEY_SIGNATURE", x, MusicMapping.KeyKeyMapping[e[4]].name))
    got_meta = abs_of(seqs[mi])
    for gi, s in enumerate(seqs):
        if gi != mi and any(m[0] in ("TIME_SIGNATURE", "KEY_SIGNATURE") for m in abs_of(s)):
            v.append(f"signature on sequence {gi}, which is not the meta target")
    for m in got_meta:
        if m[0] in ("TIME_SIGNATURE", "KEY_SIGNATURE"):
            val = (m[8], m[9]) if m[0] == "TIME_SIGNATURE" else m[10]
            if not any(k_ == m[0] and abs(x - m[2]) <= Fraction(1, 2) and val == w for k_, x, w in exp_sig) and \
                    not (m[0] == "TIME_SIGNATURE" and m[2] == 0 and val == (4, 4)):
                v.append(f"signature {m[0]} {val} at {m[2]} has no source in the considered tracks")
    return v


def _merge_iv(ivs):
    out = []
    for a, b in sorted(ivs):
        if out and out[-1][1] >= a:
            out[-1] = (out[-1][0], max(out[-1][1], b))
        else:
            out.append((a, b))
    return out


def _norm_sounding(tr):
    """sounding set of one track after normalise: stack semantics, orphan offs ignored, unclosed notes removed"""
    depth, start, out = {}, {}, {}
    for m in sorted(tr, key=lambda m: m[2]):      # file order within a tick is preserved by sorted() stability
        k = (m[1], m[4])
        if m[0] == "NOTE_ON":
            if depth.get(k, 0) == 0:
                start[k] = m[2]
            depth[k] = depth.get(k, 0) + 1
        elif depth.get(k, 0) > 0:
            depth[k] -= 1
            if depth[k] == 0 and m[2] > start[k]:
                out.setdefault(k, []).append((start[k], m[2]))
    return {k: _merge_iv(v) for k, v in out.items()}


# ---- tokeniser properties
def bin_value(nb, v):
    bs = round(127 / nb)
    bins = [min(127, (i + 1) * bs + bs // 2) for i in range(nb)]
    for b in bins:
        if v <= b:
            return b
    return None


def valid_piece(cfg, tracks, hires=False):
    nt, lo, hi, steps, values, nb = cfg[:6]
    W = 96
    if len(cfg) > 11 and cfg[11] != 24:
        if cfg[11] != 480 or not hires:
            return None    # a tokeniser resolution different from the one the piece is written in: the bar grid of the piece is not the tokeniser's
        W = 1920           # gen_piece writes pieces for ppqn=480 configurations on the 480 grid
    steps, values = ops.cfg_steps(cfg), ops.cfg_values(cfg)
    u = steps[0]
    if any(s % u for s in steps) or len(tracks) != nt:
        return None
    if bin_value(nb, 127) is None or nb > 127:
        return None
    grid, sig, t = [], (4, 4), 0
    info = []
    D = 0
    for i, ms in enumerate(tracks):
        a, d = abs_from_rel(ms)
        D = max(D, d)
        if not wellformed(a) or len({m[1] for m in ms}) > 1:
            return None
        for c, p, on, dur, vel in roll(a):
            if not (lo <= p <= hi) or dur not in values or on % u or not (1 <= vel <= 127):
                return None
        if any(m[0] not in ("NOTE_ON", "NOTE_OFF", "TIME_SIGNATURE") for m in a):
            return None
        if d % u:
            return None
        info.append((a, d))
    sigs = {}
    for m in [m for a, _ in info for m in a]:
        if m[0] == "TIME_SIGNATURE":
            tlo, thi = (cfg[12] if len(cfg) > 12 else (2, 16))
            if m[2] in sigs or (8 * m[8]) % m[9] or not (tlo <= 8 * m[8] // m[9] <= thi) or (W * m[8] // m[9]) % u or m[9] not in (1, 2, 4, 8, 16):
                return None
            sigs[m[2]] = (m[8], m[9])
    pend = sorted(sigs)
    bounds, cur, t = [], (4, 4), 0
    last = max([D] + [m[2] for a, _ in info for m in a])
    while t <= last:
        if pend and pend[0] == t:
            cur = sigs[pend.pop(0)]
        elif pend and pend[0] < t:
            return None
        ln = W * cur[0] // cur[1]
        if ln % u:
            return None
        bounds.append((t, t + ln, cur))
        t += ln
    if pend:
        return None
    return {"bounds": bounds, "info": info, "D": D}


@judge_for("C01", "tok_roundtrip")
def j_c01(inp):
    cfg, tracks = inp[0], inp[1]
    hows = inp[2] if len(inp) > 2 else ["rel"] * len(tracks)
    vp = valid_piece(cfg, tracks, hires=True)
    if vp is None or len(hows) != len(tracks):
        return None
    t = ops.mk_tok(cfg)
    try:
        toks = t.tokenise([ops.mk_track(ms, h) for ms, h in zip(tracks, hows)])
    except Exception as e:
        return [f"tokenise rejected a valid piece: {type(e).__name__} {e}"]
    try:
        out = t.detokenise(t.decode(t.encode(toks)))
    except Exception as e:
        return [f"round trip raised {type(e).__name__} {e}"]
    v = []
    nb = cfg[5]
    for i, (a, d) in enumerate(vp["info"]):
        exp = sorted((p, on, dur, bin_value(nb, vel)) for _, p, on, dur, vel in roll(a))
        got = roll(abs_of(out[i]))
        if got is None or sorted((p, on, dur, vel) for _, p, on, dur, vel in got) != exp:
            v.append(f"track {i}: notes {got} expected {exp}")
    # bar grid and duration.  D_in = duration of the piece; the property wants the smallest bar end >= D_in.
    ends = [e for s_, e, _ in vp["bounds"]]
    D_in = max([m[2] for a, _ in vp["info"] for m in a] + [vp["D"]])
    exp_dur = 0 if D_in == 0 else min(e for e in ends if e >= D_in)
    note_end = max([m[2] for a, _ in vp["info"] for m in a if m[0] == "NOTE_OFF"] + [0])
    # where the tokeniser's clock stops: end of the bar holding the last onset / cap
    starts = [m[2] for a, _ in vp["info"] for m in a if m[0] == "NOTE_ON"]
    caps_in = [d for (a, d), ms in zip(vp["info"], tracks) if ms and ms[-1][0] == "WAIT"]
    last_on = max(starts + [-1])
    last_cap = max(caps_in + [0])
    stop = 0
    for s_, e, _ in vp["bounds"]:
        if s_ <= last_on < e:
            stop = max(stop, e)
        if s_ < last_cap <= e:
            stop = max(stop, e)
    caps = sorted(m[2] for m in abs_of(out[0]) if m[0] == "INTERNAL")
    dur = max((abs_of(s)[-1][2] if abs_of(s) else 0) for s in out)
    if note_end > stop:
        if dur != exp_dur:
            v.append(f"D19: a note ends at {note_end}, beyond the last bar reached ({stop}); duration {dur} instead of {exp_dur}")
    else:
        if caps != [e for e in ends if e <= exp_dur]:
            v.append(f"bar caps at {caps}, expected the bar ends {[e for e in ends if e <= exp_dur]}")
        if dur != exp_dur:
            v.append(f"total duration {dur}, end of the last bar {exp_dur}")
    return v


@judge_for("C03", "tok_stateful")
@judge_for("C01", "tok_stateful")
def j_c01_chunked(inp):
    """the round trip through the incremental entry point: the piece cut at its bar lines with Sequence.split (no Bar
    objects, hence no signature message per chunk), tokenised chunk by chunk with a caller-supplied state = {}"""
    cfg, tracks = inp[0], inp[1]
    vp = valid_piece(cfg, tracks)
    if vp is None or len(vp["bounds"]) < 2:
        return None
    # chunks cut with split carry no signature of their own: only pieces whose single signature stands at tick 0 are judged
    if any(m[0] == "TIME_SIGNATURE" and m[2] > 0 for a, _ in vp["info"] for m in a):
        return None
    t = ops.mk_tok(cfg)
    caps = [e - s_ for s_, e, _ in vp["bounds"]]
    try:
        pieces = [mk_rel(ms).split(list(caps)) for ms in tracks]
        n = max(len(p) for p in pieces)
        state, toks = {}, []
        for k in range(n):
            toks += t.tokenise([(p[k] if k < len(p) else Sequence()) for p in pieces], state_dict=state)
        whole = t.tokenise([mk_rel(ms) for ms in tracks])
        o1, o2 = t.detokenise(whole), t.detokenise(toks)
    except Exception as e:
        return None if "Invalid" in str(e) else [f"chunked round trip raised {type(e).__name__}: {e}"]
    v = []
    for i, (x, y) in enumerate(zip(o1, o2)):
        # a note crossing a bar line is cut by split into two abutting notes: compare what sounds, not the segmentation
        if sounding(abs_of(x)) != sounding(abs_of(y)):
            v.append(f"track {i}: notes {roll(abs_of(y))} after tokenising bar by bar with state = {{}}, {roll(abs_of(x))} in one call")
    return v


def dup_bins(nb):
    bs = round(127 / nb)
    bins = [min(127, (i + 1) * bs + bs // 2) for i in range(nb)]
    return len(set(bins)) != len(bins)


@judge_for("C02", "vocab")
def j_c02_vocab(cfg):
    # a step-size or note-value list with repeated entries is a misconfiguration (valid_cfg requires duplicate-free lists)
    if any(l and len(set(l)) != len(l) for l in (cfg[3], cfg[4])):
        return None
    t = ops.mk_tok(cfg)
    d = t.dictionary
    v = []
    if sorted(d.values()) != list(range(len(d))):
        v.append("ids are not 0..size-1 one-to-one")
    if t.dictionary_size != len(d):
        v.append(f"dictionary_size {t.dictionary_size} != {len(d)} entries")
    ks = list(d)
    if t.decode(t.encode(ks)) != ks:
        v.append("decode(encode(t)) != t")
    ids = list(range(len(d)))
    try:
        if t.encode(t.decode(ids)) != ids:
            v.append("encode(decode(i)) != i")
    except KeyError:
        v.append("decode fails on an id below size")
    try:
        t.detokenise(ks)
    except Exception as e:
        v.append(f"detokenise rejects a vocabulary token: {type(e).__name__} {e}")
    return v


@judge_for("C02", "tok_roundtrip")
def j_c02_closed(inp):
    cfg, tracks = inp[0], inp[1]
    hows = inp[2] if len(inp) > 2 and len(inp[2]) == len(tracks) else ["rel"] * len(tracks)
    if cfg[5] > 127:
        return None
    t = ops.mk_tok(cfg)
    try:
        toks = t.tokenise([ops.mk_track(ms, h) for ms, h in zip(tracks, hows)], state_dict=ops.init_state(inp))
    except Exception:
        return None
    bad = [x for x in toks if x not in t.dictionary]
    return [f"tokenise emitted {bad[0]!r}, which is not in the vocabulary"] if bad else []


@judge_for("C03", "tok_stateful")
def j_c03(inp):
    cfg, tracks, seed = inp[0], inp[1], inp[2]
    bar_tok = not (len(inp) > 3 and inp[3])
    if valid_piece(cfg, tracks) is None:
        return None
    t = ops.mk_tok(cfg)
    try:
        bars = ops._bars_of(tracks)
    except BarException:
        return None
    nb = len(bars[0])
    groups = ops.partition(random.Random(seed), nb)
    try:
        whole = t.tokenise([Bar.to_sequence(tb) for tb in ops._bars_of(tracks)], insert_bar_token=bar_tok)
        sd, chunks = {}, []
        bars2 = ops._bars_of(tracks)
        shared = len(inp) > 4 and inp[4]
        if shared:          # same history as the harness: bars inspected, whole piece re-joined from these bars tokenised first
            for tb in bars2:
                for b_ in tb:
                    try:
                        b_.sequence.get_sequence_duration()
                    except IndexError:
                        pass
            whole2 = t.tokenise([Bar.to_sequence(tb) for tb in bars2], insert_bar_token=bar_tok)
            if whole2 != whole:
                return ["the whole piece re-joined from inspected bars tokenises differently from the same piece re-joined from fresh bars"]
        for a, b in groups:
            chunks += t.tokenise([(tb[a].sequence if shared and b - a == 1 else Bar.to_sequence(tb[a:b])) for tb in bars2],
                                 state_dict=sd, insert_bar_token=bar_tok)
        o1, o2 = t.detokenise(whole), t.detokenise(chunks)
    except Exception as e:
        return None if isinstance(e, Exception) and "Invalid" in str(e) else [f"{type(e).__name__}: {e}"]
    v = []
    for i, (x, y) in enumerate(zip(o1, o2)):
        if roll(abs_of(x)) != roll(abs_of(y)):
            v.append(f"track {i}: notes differ between whole-piece and chunked tokenisation")
        caps = lambda s: [m[2] for m in abs_of(s) if m[0] == "INTERNAL"]
        if caps(x) != caps(y):
            v.append(f"track {i}: bar grid differs {caps(x)} vs {caps(y)}")
    # the state dictionary is a value: continuing from a copy taken after the first call (dict(state)) gives the same
    # tokens as continuing with the original, in whichever order the two continuations run
    if len(groups) > 1 and not v:
        try:
            b3, b4 = ops._bars_of(tracks), ops._bars_of(tracks)
            sd1 = {}
            t.tokenise([Bar.to_sequence(tb[groups[0][0]:groups[0][1]]) for tb in b3], state_dict=sd1, insert_bar_token=bar_tok)
            snap = dict(sd1)
            rest1, rest2 = [], []
            for a, b in groups[1:]:
                rest1 += t.tokenise([Bar.to_sequence(tb[a:b]) for tb in b3], state_dict=sd1, insert_bar_token=bar_tok)
            for a, b in groups[1:]:
                rest2 += t.tokenise([Bar.to_sequence(tb[a:b]) for tb in b4], state_dict=snap, insert_bar_token=bar_tok)
            if rest1 != rest2:
                v.append("continuing from a copy of the state dictionary gives different tokens than continuing from the original")
        except Exception as e:
            if "Invalid" not in str(e):
                v.append(f"{type(e).__name__}: {e}")
    return v


@judge_for("C19", "tok_stream")
def j_c19(inp):
    cfg, toks = inp
    t = ops.mk_tok_used(cfg, toks)
    v = []
    for imp in (False, True):
        info = t.get_info(list(toks), flag_impute_values=imp)
        n = len(toks)
        if any(len(info[k]) != n for k in info):
            v.append("annotation lists do not have one entry per token")
            return v
        if info["info_position"] != list(range(n)):
            v.append("positions are not 0,1,2,...")
        # onset of the note placed by token i = detokenise(prefix up to i) minus detokenise(prefix before i)
        for i, tk in enumerate(toks):
            if "pit" not in tk:
                continue
            before = [tuple(m) for s in t.detokenise(list(toks[:i])) for m in abs_of(s) if m[0] == "NOTE_ON"]
            after = [tuple(m) for s in t.detokenise(list(toks[:i + 1])) for m in abs_of(s) if m[0] == "NOTE_ON"]
            new = list(after)
            for m in before:
                new.remove(m)
            if len(new) != 1:
                v.append("a note token did not place exactly one note")
                break
            if info["info_time"][i] != new[0][2]:
                v.append(f"token {i} {tk}: annotated time {info['info_time'][i]}, detokenise places the note at {new[0][2]}")
            if info["info_pitch"][i] != new[0][4]:
                v.append(f"token {i}: annotated pitch {info['info_pitch'][i]} != {new[0][4]}")
            order = [1, 8, 3, 10, 5, 0, 7, 2, 9, 4, 11, 6]
            if info["info_circle_of_fifths"][i] != order.index(new[0][4] % 12) - 5:
                v.append(f"token {i}: circle-of-fifths annotation wrong")
    return v


@judge_for("C19", "tok_roundtrip")
def j_c19_tok(inp):
    cfg, tracks = inp[0], inp[1]
    if valid_piece(cfg, tracks) is None:
        return None
    t = ops.mk_tok(cfg)
    try:
        toks = t.tokenise([mk_rel(ms) for ms in tracks])
    except Exception:
        return None
    info = t.get_info(toks)
    v = []
    times = [x for x, tk in zip(info["info_time"], toks)]
    if any(b < a for a, b in zip(times, times[1:])):
        v.append("annotated times decrease")
    caps = [0] + [m[2] for m in abs_of(t.detokenise(toks)[0]) if m[0] == "INTERNAL"]
    for i, tk in enumerate(toks):
        if "pit" in tk:
            start = max(c for c in caps if c <= info["info_time"][i])
            if info["info_time_bar"][i] != info["info_time"][i] - start:
                v.append(f"token {i}: in-bar time {info['info_time_bar'][i]} != onset {info['info_time'][i]} - bar start {start}")
    return v


# ---- C20 exhaustive
def exhaustive_c20():
    try:
        return _exhaustive_c20()
    except Exception as e:
        return [f"music theory function raised {type(e).__name__}: {e}"], 1


def _exhaustive_c20():
    v, n = [], 0
    # the tables are process-wide: use the library a little first (key-signature guess reads the scale table)
    for ms_ in ([ON(0, 62, 90, 0), OFF(0, 62, 12), ON(0, 66, 90, 12), OFF(0, 66, 24)], [ON(0, 60, 90, 0), OFF(0, 60, 6)]):
        mk_abs(ms_).rel.get_key_signature_guess()
    scale = [0, 2, 4, 5, 7, 9, 11]
    for k in Key:
        notes, acc = MusicMapping.KeyNoteMapping[k]
        tn = TONIC[k.name]
        n += 1
        if sorted(x.value for x in notes) != sorted((tn + s) % 12 for s in scale) or notes[0].value != tn:
            v.append(f"{k}: note set is not the major scale on its tonic")
        # accidental count against the circle of fifths (theorems C20_accidentals / C20_enharmonic_accidentals)
        n += 1
        try:
            dc = CircleOfFifths.get_distance(0, tn)
            if not (isinstance(acc, int) and 0 <= acc <= 7 and ((acc - dc) % 12 == 0 or (acc + dc) % 12 == 0)):
                v.append(f"{k}: accidental count {acc!r} is not the circle-of-fifths distance {dc} from C to its tonic (mod 12, either direction)")
            for k2 in Key:
                if k2 is not k and TONIC[k2.name] == tn and acc + MusicMapping.KeyNoteMapping[k2][1] != 12:
                    v.append(f"{k} and {k2} share a tonic but their accidental counts do not add up to 12")
        except Exception as e:
            v.append(f"{k}: accidental-count check raised {type(e).__name__}: {e}")
        for i in range(-30, 31):
            n += 1
            try:
                r = Key.transpose_key(k, i)
            except Exception as e:
                v.append(f"transpose_key({k.name},{i}) raised {type(e).__name__}: {e}")
                continue
            if r is None or not isinstance(r, Key):
                v.append(f"transpose_key({k.name},{i}) returned {r!r}")
                continue
            if (TONIC[r.name] - tn - i) % 12:
                v.append(f"transpose_key({k.name},{i}) = {r.name}: tonic not shifted by {i}")
            rs = sorted(x.value for x in MusicMapping.KeyNoteMapping[r][0])
            if rs != sorted((x.value + i) % 12 for x in notes):
                v.append(f"transpose_key({k.name},{i}): scale not shifted as a set")
            if i in range(0, 12):        # "all integers": intervals far beyond 2^53 behave like their residue mod 12
                for big in (2 ** 53, 12 * 2 ** 60, 10 ** 30, -(2 ** 64)):
                    n += 1
                    try:
                        rb = Key.transpose_key(k, big + i)
                    except Exception as e:
                        v.append(f"transpose_key({k.name},{big}+{i}) raised {type(e).__name__}: {e}")
                        continue
                    small = Key.transpose_key(k, (big + i) % 12)
                    if rb is None or small is None or TONIC[rb.name] != TONIC[small.name]:
                        v.append(f"transpose_key({k.name},{big}+{i}) differs from transposing by the residue {(big + i) % 12}")
            for j in (-13, -12, -1, 0, 1, 5, 12):
                r2 = Key.transpose_key(r, j) if r is not None else None
                r3 = Key.transpose_key(k, i + j)
                if r2 is None or r3 is None or TONIC[r2.name] != TONIC[r3.name]:
                    v.append(f"transposition not additive at {k.name},{i},{j}")
    for a in range(128):
        for b in range(128):
            n += 1
            d = CircleOfFifths.get_distance(a, b)
            if not (-5 <= d <= 6):
                v.append(f"distance({a},{b}) = {d}")
            if (CircleOfFifths.get_position(b) - CircleOfFifths.get_position(a) - d) % 12:
                v.append(f"distance({a},{b}) disagrees with positions")
            if CircleOfFifths.from_distance(a, d) != b % 12:
                v.append(f"from_distance({a},{d}) != {b % 12}")
        if len(v) > 5:
            break
    return v, n


# ------------------------------------------------------------------------------------------------ driver
def judge(prop, opname, inp):
    for o, f in J.get(prop, []):
        if o == opname:
            try:
                return f(inp)
            except Exception as e:
                return [f"oracle run raised {type(e).__name__}: {e}"]
    return None


ORACLE_N = {"quick": 250, "thorough": 4000}


def run(prop, seed, tier, extra_inputs=(), boost=1, kf=None):
    res = {"evaluations": 0, "nontrivial": 0, "failures": [], "sample": None}
    kf = kf or {"findings": []}
    if prop == "C20":
        v, n = exhaustive_c20()
        res.update(evaluations=n, nontrivial=n, exhaustive=f"15 keys x intervals -30..30 (+ additivity with 7 second intervals), 128 x 128 pitch pairs: {n} evaluations on the implementation")
        res["failures"] = [{"op": "music_theory", "input": None, "detail": x} for x in v[:5]]
        res["sample"] = "transpose_key(Key.D_B, -13); get_distance(60, 66)"
        return res
    seen = set()
    for opname, f in J.get(prop, []):
        rng = random.Random(f"oracle/{seed}/{prop}/{opname}")
        op = ops.OPS[opname]
        n = ORACLE_N[tier] * boost
        if opname in ("vocab",):
            n = max(20, n // 10)
        if opname in ("tok_stream", "history", "tok_stateful", "scale_down", "concat_repeat", "none_channel", "scaled_copy", "midi_load_nd"):
            n = max(50, n // 2)
        inputs = [i for o, i in extra_inputs if o == opname] + [op.gen(rng) for _ in range(n)]
        new_here, known_here = 0, 0
        for inp in inputs:
            try:
                r = ops.with_timeout(f, inp, 30)
            except ops.Timeout:
                r = ["the operation did not terminate within 30 s"]
            except MemoryError:
                r = ["the operation exhausted memory"]
            except Exception as e:
                r = [f"oracle run raised {type(e).__name__}: {e}"]
            res["evaluations"] += 1
            if r is None:
                continue
            key = repr(inp)
            if key not in seen:
                seen.add(key)
                res["nontrivial"] += 1
                if res["sample"] is None and res["nontrivial"] > 3:
                    res["sample"] = {"op": opname, "input": inp}
            if r:
                fail = {"op": opname, "input": inp, "detail": r[:3]}
                if recognise(prop, fail, kf):
                    known_here += 1
                    if known_here <= 3:          # keep a few instances of listed findings, never let them crowd out new ones
                        res["failures"].append(fail)
                else:
                    new_here += 1
                    res["failures"].append(fail)
                    if new_here >= 8:
                        break
    return res


def recognise(prop, failure, kf):
    """is this oracle failure an instance of a listed finding?  The recogniser looks at the input, not at the message."""
    op, inp, detail = failure["op"], failure["input"], " ".join(failure["detail"])
    for f in kf["findings"]:
        if f["property"] != prop:
            continue
        rec = f.get("recogniser")
        if rec == "D5" and op in ("split", "concat_repeat"):
            if op == "concat_repeat":          # the same finding reached through a repeated section: look at the piece that is split
                try:
                    piece, follow = _shared_piece(inp)
                except Exception:
                    continue
                if follow[0] != "OSplit":
                    continue
                ms, caps = rel_of(piece), follow[2]
            else:
                ms, caps = inp
            d = sum(m[2] for m in ms if m[0] == "WAIT")
            # zero-time non-note events after the last wait, with the capacities used up exactly at the end
            tail = []
            for m in reversed(ms):
                if m[0] == "WAIT":
                    break
                tail.append(m)
            acc = list(itertools.accumulate(caps))
            if d in acc and any(m[0] not in ("NOTE_OFF",) for m in tail) and "non-note events lost" in detail:
                return f"{f['witness']}: {f['what']}"
        if rec == "D19" and op == "tok_roundtrip" and "D19" in detail:
            return f"{f['witness']}: {f['what']}"
        if rec == "D21" and op in ("midi_load", "midi_load_nd"):
            tpb, tracks = inp[0], inp[1]
            for tr in tracks:
                T, on_at = 0, {}
                for e in tr:
                    T += e[5]
                    x = round(Fraction(T * 24, tpb))
                    if e[0] == "on" and e[3] > 0:
                        on_at[(e[1], e[2])] = x
                    elif e[0] in ("on", "off") and on_at.pop((e[1], e[2]), None) == x:
                        return f"{f['witness']}: {f['what']}"
        if rec == "D16" and op in ("midi_load", "midi_load_nd"):
            flat = [i for g in inp[2] for i in g]
            if len(set(flat)) != len(flat):
                return f"{f['witness']}: {f['what']}"
        if rec == "D15" and op == "vocab" and dup_bins(inp[5]):
            return f"{f['witness']}: {f['what']}"
        if rec == "D18" and op == "tok_roundtrip":
            cfg = inp[0]
            if bin_value(cfg[5], 127) is None and "IndexError" in detail:
                return f"{f['witness']}: {f['what']}"
    return None


def shrink(prop, failure):
    """greedy shrinking: drop messages / ops while the oracle still fails"""
    op, inp = failure["op"], failure["input"]
    f = dict(J.get(prop, [])).get(op)
    if f is None or inp is None:
        return failure

    def fails(x):
        try:
            r = f(x)
        except Exception:
            return False
        return bool(r)

    def try_lists(x, path=()):
        # returns a smaller failing input by deleting one element of some list inside x
        if isinstance(x, list):
            for i in range(len(x)):
                yield x[:i] + x[i + 1:]
            for i, y in enumerate(x):
                for z in try_lists(y):
                    yield x[:i] + [z] + x[i + 1:]
        elif isinstance(x, tuple) and not (x and isinstance(x[0], str) and x[0] in TYPES):
            for i, y in enumerate(x):
                for z in try_lists(y):
                    yield x[:i] + (z,) + x[i + 1:]

    cur, budget = inp, 300
    improved = True
    cfg_first = op in ("tok_roundtrip", "tok_stateful", "tok_stream", "vocab")   # never shrink inside a configuration
    while improved and budget > 0:
        improved = False
        cands = try_lists(cur) if not cfg_first else \
            ((cur[:1] + rest) for rest in try_lists(tuple(cur[1:]))) if op != "vocab" else iter(())
        for cand in cands:
            budget -= 1
            if budget <= 0:
                break
            if fails(cand):
                cur, improved = cand, True
                break
    out = dict(failure)
    out["input"] = cur
    try:
        d = f(cur)
        if d:
            out["detail"] = d[:3]
    except Exception:
        pass
    out["replay"] = f"./check {prop} --replay <this file>"
    return out
