(* C10 -- a Bar always lasts exactly its time signature, or its construction fails.
   Lemmas and proofs about Model.Bars.bar_init; the property theorems are restated in Props/C10.v. *)
From Coq Require Import ZArith List Bool Lia.
From Model Require Import Base Seq Pairing Bars.
From Proofs Require Import C18_proofs.
Import ListNotations.
Open Scope Z_scope.

(* ================================================================ one step of normalise, summarised *)
Definition wait_of (s : nstate) (c : Z) : list msg :=
  if 0 <? n_wait s then [mk_wait c (n_wait s) (n_waitf s)] else [].
Definition sig_of (m : msg) : Z * Z := (m_num m, m_den m).

Lemma flush_out s c m : n_out (flush s c m) = n_out s ++ wait_of s c ++ [m].
Proof. unfold flush, wait_of. cbn [n_out]. destruct (0 <? n_wait s); [rewrite <- app_assoc|]; reflexivity. Qed.
Lemma flush_wait s c m : n_wait (flush s c m) = if 0 <? n_wait s then 0 else n_wait s.
Proof. reflexivity. Qed.
Lemma flush_ts s c m : n_ts (flush s c m) = n_ts s.
Proof. reflexivity. Qed.

Lemma sig_eqb_spec m t : (m_num m =? fst t) && (m_den m =? snd t) = true <-> sig_of m = t.
Proof.
  unfold sig_of. destruct t as [a b]. cbn [fst snd]. rewrite andb_true_iff, !Z.eqb_eq.
  split; [intros [-> ->]; reflexivity|intros H; injection H; auto].
Qed.

(* what one step does to the output, the pending wait and the current signature *)
Lemma nstep_shape s m :
  (is_wait m = true /\ n_out (nstep s m) = n_out s /\ n_wait (nstep s m) = n_wait s + m_time m /\
     n_ts (nstep s m) = n_ts s) \/
  (is_wait m = false /\ n_out (nstep s m) = n_out s /\ n_wait (nstep s m) = n_wait s /\
     n_ts (nstep s m) = n_ts s /\ (is_ts m = true -> sig_of m = n_ts s)) \/
  (is_wait m = false /\ n_out (nstep s m) = n_out s ++ wait_of s (m_chan m) ++ [m] /\
     n_wait (nstep s m) = (if 0 <? n_wait s then 0 else n_wait s) /\
     n_ts (nstep s m) = (if is_ts m then sig_of m else n_ts s) /\ (is_ts m = true -> sig_of m <> n_ts s)).
Proof.
  unfold nstep, is_wait, is_ts. destruct (m_type m) eqn:T; cbn [mtype_eqb mtype_rank Z.eqb Pos.eqb].
  - (* INTERNAL *) right; right. rewrite flush_out. repeat split; discriminate.
  - right; right. rewrite flush_out. repeat split; discriminate.
  - (* KEY_SIGNATURE *)
    destruct (okey_eqb (m_key m) (n_key s)).
    + right; left. repeat split; discriminate.
    + right; right. rewrite flush_out. repeat split; discriminate.
  - (* TIME_SIGNATURE *)
    destruct ((m_num m =? fst (n_ts s)) && (m_den m =? snd (n_ts s))) eqn:E.
    + right; left. repeat split. intros _. now apply sig_eqb_spec.
    + right; right. rewrite flush_out. repeat split. intros _ H. apply sig_eqb_spec in H. congruence.
  - right; right. rewrite flush_out. repeat split; discriminate.
  - right; right. rewrite flush_out. repeat split; discriminate.
  - (* NOTE_OFF *)
    destruct (depth (m_chan m, m_note m) (n_open s)) as [|d].
    + right; left. repeat split; discriminate.
    + destruct d.
      * right; right. rewrite flush_out. repeat split; discriminate.
      * right; left. repeat split; discriminate.
  - (* NOTE_ON *)
    destruct (depth (m_chan m, m_note m) (n_open s)) as [|d].
    + right; right. rewrite flush_out. repeat split; discriminate.
    + right; left. repeat split; discriminate.
  - left. repeat split.
Qed.

(* ================================================================ removing unclosed note-ons *)
Lemma remove_last_on_filter (q : msg -> bool) k l :
  (forall m, is_on m = true -> q m = false) ->
  filter q (fst (remove_last_on k l)) = filter q l.
Proof.
  intros Q. induction l as [|m l IH]; [reflexivity|].
  cbn [remove_last_on]. destruct (remove_last_on k l) as [r found]. cbn [fst] in IH.
  destruct found.
  - cbn [fst filter]. now rewrite IH.
  - destruct (is_on m && k2_eqb k (m_chan m, m_note m)) eqn:E.
    + cbn [fst filter]. apply andb_prop in E. destruct E as [E _]. now rewrite (Q m E).
    + cbn [fst filter]. now rewrite IH.
Qed.

Lemma cleanup_filter (q : msg -> bool) o out :
  (forall m, is_on m = true -> q m = false) -> filter q (cleanup o out) = filter q out.
Proof.
  intros Q. unfold cleanup. revert out. induction o as [|kd o IH]; intros out; [reflexivity|].
  cbn [fold_left]. rewrite IH. destruct (snd kd); [reflexivity|]. now apply remove_last_on_filter.
Qed.

Lemma is_ts_not_on m : is_ts m = true -> is_on m = false.
Proof. unfold is_ts, is_on. destruct (m_type m); cbn; congruence. Qed.
Lemma is_wait_not_ts m : is_wait m = true -> is_ts m = false.
Proof. unfold is_ts, is_wait. destruct (m_type m); cbn; congruence. Qed.

Lemma on_not_wait m : is_on m = true -> is_wait m = false.
Proof. intros H. destruct (is_wait m) eqn:W; [|reflexivity]. apply is_wait_not_on in W. congruence. Qed.
Lemma on_not_ts m : is_on m = true -> is_ts m = false.
Proof. intros H. destruct (is_ts m) eqn:W; [|reflexivity]. apply is_ts_not_on in W. congruence. Qed.

Definition n0 : nstate := mkn [] [] 0 false (NONE, NONE) None.

Lemma normalise_unfold l :
  normalise l = cleanup (n_open (fold_left nstep l n0)) (n_out (fold_left nstep l n0) ++ wait_of (fold_left nstep l n0) (first_chan l)).
Proof.
  unfold normalise, wait_of. fold n0. destruct (0 <? n_wait (fold_left nstep l n0)); [reflexivity|].
  now rewrite app_nil_r.
Qed.

(* ================================================================ the waits of a normalised list are positive *)
Lemma waits_pos_app a b : waits_pos (a ++ b) = waits_pos a && waits_pos b.
Proof. unfold waits_pos. now rewrite filter_app, forallb_app. Qed.

Lemma waits_pos_wait_of s c : waits_pos (wait_of s c) = true.
Proof.
  unfold wait_of. destruct (0 <? n_wait s) eqn:E; [|reflexivity].
  unfold waits_pos. cbn. now rewrite E.
Qed.

Lemma waits_pos_single m : is_wait m = false -> waits_pos [m] = true.
Proof. intros W. unfold waits_pos. cbn [filter]. now rewrite W. Qed.

Lemma nstep_waits_pos s m : waits_pos (n_out s) = true -> waits_pos (n_out (nstep s m)) = true.
Proof.
  intros H. destruct (nstep_shape s m) as [(_ & -> & _)|[(_ & -> & _)|(W & -> & _)]]; try exact H.
  now rewrite !waits_pos_app, H, waits_pos_wait_of, (waits_pos_single m W).
Qed.

Lemma fold_nstep_waits_pos l s : waits_pos (n_out s) = true -> waits_pos (n_out (fold_left nstep l s)) = true.
Proof. revert s. induction l as [|m l IH]; intros s H; [exact H|]. cbn [fold_left]. apply IH. now apply nstep_waits_pos. Qed.

Lemma normalise_waits_pos l : waits_pos (normalise l) = true.
Proof.
  rewrite normalise_unfold. unfold waits_pos. rewrite cleanup_filter by exact on_not_wait.
  fold (waits_pos (n_out (fold_left nstep l n0) ++ wait_of (fold_left nstep l n0) (first_chan l))).
  rewrite waits_pos_app, waits_pos_wait_of, andb_true_r. now apply fold_nstep_waits_pos.
Qed.

(* ================================================================ normalise keeps the duration *)
Lemma dur_rel_wait_of s c : 0 <= n_wait s -> dur_rel (wait_of s c) = n_wait s.
Proof.
  intros H. unfold wait_of. destruct (0 <? n_wait s) eqn:E.
  - unfold dur_rel. cbn. lia.
  - apply Z.ltb_ge in E. unfold dur_rel. cbn. lia.
Qed.

Lemma dur_rel_single_other m : is_wait m = false -> dur_rel [m] = 0.
Proof. intros W. now rewrite (dur_rel_cons_other m [] W). Qed.

Lemma fold_nstep_dur l : forall s, waits_nonneg l = true -> 0 <= n_wait s ->
  0 <= n_wait (fold_left nstep l s) /\
  dur_rel (n_out (fold_left nstep l s)) + n_wait (fold_left nstep l s) = dur_rel (n_out s) + n_wait s + dur_rel l.
Proof.
  induction l as [|m l IH]; intros s N W0.
  - cbn [fold_left]. unfold dur_rel at 3. cbn. lia.
  - apply waits_nonneg_cons in N. destruct N as [N1 N2]. cbn [fold_left].
    destruct (nstep_shape s m) as [(W & O & Wt & _)|[(W & O & Wt & _)|(W & O & Wt & _)]].
    + specialize (N1 W). destruct (IH (nstep s m) N2) as [I1 I2]; [lia|].
      split; [exact I1|]. rewrite I2, O, Wt, (dur_rel_cons_wait m l W). lia.
    + destruct (IH (nstep s m) N2) as [I1 I2]; [lia|].
      split; [exact I1|]. rewrite I2, O, Wt, (dur_rel_cons_other m l W). lia.
    + assert (Wn : 0 <= n_wait (nstep s m)) by (rewrite Wt; destruct (0 <? n_wait s); lia).
      destruct (IH (nstep s m) N2 Wn) as [I1 I2].
      split; [exact I1|]. rewrite I2, O, Wt, (dur_rel_cons_other m l W), !dur_rel_app.
      rewrite (dur_rel_wait_of s _ W0), (dur_rel_single_other m W).
      destruct (0 <? n_wait s) eqn:E; [lia|]. apply Z.ltb_ge in E. lia.
Qed.

Lemma dur_rel_filter (q : msg -> bool) l : (forall m, is_wait m = true -> q m = true) -> dur_rel (filter q l) = dur_rel l.
Proof.
  intros Q. induction l as [|m l IH]; [reflexivity|]. cbn [filter].
  destruct (is_wait m) eqn:W.
  - rewrite (Q m W), (dur_rel_cons_wait m l W), dur_rel_cons_wait by exact W. now rewrite IH.
  - rewrite (dur_rel_cons_other m l W). destruct (q m); [rewrite dur_rel_cons_other by exact W|]; exact IH.
Qed.

Lemma dur_rel_cleanup o out : dur_rel (cleanup o out) = dur_rel out.
Proof. unfold dur_rel. now rewrite cleanup_filter by exact on_not_wait. Qed.

(* C07-style duration lemma, proved locally *)
Lemma normalise_dur l : waits_nonneg l = true -> dur_rel (normalise l) = dur_rel l.
Proof.
  intros N. rewrite normalise_unfold, dur_rel_cleanup, dur_rel_app.
  destruct (fold_nstep_dur l n0 N) as [I1 I2]; [cbn; lia|].
  rewrite (dur_rel_wait_of _ _ I1), I2. unfold dur_rel at 1. cbn. lia.
Qed.

(* ================================================================ time signatures kept by normalise *)
(* consecutive repetitions of the current signature are dropped *)
Fixpoint dedup_ts (cur : Z * Z) (l : list msg) : list msg :=
  match l with
  | [] => []
  | m :: l' => if (m_num m =? fst cur) && (m_den m =? snd cur) then dedup_ts cur l' else m :: dedup_ts (sig_of m) l'
  end.

Lemma filter_ts_wait_of s c : filter is_ts (wait_of s c) = [].
Proof. unfold wait_of. destruct (0 <? n_wait s); reflexivity. Qed.

Lemma fold_nstep_ts l : forall s,
  filter is_ts (n_out (fold_left nstep l s)) = filter is_ts (n_out s) ++ dedup_ts (n_ts s) (filter is_ts l).
Proof.
  induction l as [|m l IH]; intros s.
  - cbn. now rewrite app_nil_r.
  - cbn [fold_left filter]. rewrite IH.
    destruct (nstep_shape s m) as [(W & O & _ & T)|[(W & O & _ & T & D)|(W & O & _ & T & D)]].
    + rewrite (is_wait_not_ts m W), O, T. reflexivity.
    + rewrite O, T. destruct (is_ts m) eqn:E; [|reflexivity].
      cbn [dedup_ts]. specialize (D eq_refl). apply sig_eqb_spec in D. now rewrite D.
    + rewrite O, T, !filter_app, filter_ts_wait_of. cbn [filter app].
      destruct (is_ts m) eqn:E; [|now rewrite app_nil_r].
      cbn [dedup_ts]. specialize (D eq_refl).
      destruct ((m_num m =? fst (n_ts s)) && (m_den m =? snd (n_ts s))) eqn:F.
      * apply sig_eqb_spec in F. contradiction.
      * now rewrite <- app_assoc.
Qed.

Lemma normalise_ts l : filter is_ts (normalise l) = dedup_ts (NONE, NONE) (filter is_ts l).
Proof.
  rewrite normalise_unfold, cleanup_filter by exact on_not_ts.
  rewrite filter_app, filter_ts_wait_of, app_nil_r, fold_nstep_ts. reflexivity.
Qed.

(* a signature different from "none" that occurs in the input survives (its first occurrence after each change) *)
Lemma dedup_ts_keeps cur l m : In m l ->
  sig_of m = cur \/ exists m', In m' (dedup_ts cur l) /\ sig_of m' = sig_of m.
Proof.
  intros I. revert cur. induction l as [|x l IH]; intros cur; [contradiction|].
  cbn [dedup_ts]. destruct I as [->|I].
  - destruct ((m_num m =? fst cur) && (m_den m =? snd cur)) eqn:E.
    + left. now apply sig_eqb_spec.
    + right. exists m. split; [now left|reflexivity].
  - destruct ((m_num x =? fst cur) && (m_den x =? snd cur)) eqn:E.
    + apply IH. exact I.
    + destruct (IH I (sig_of x)) as [H|(m' & I' & S')].
      * right. exists x. split; [now left|now symmetry].
      * right. exists m'. split; [now right|exact S'].
Qed.

(* ================================================================ bar_init, unfolded *)
Definition sig_ok (num den : Z) (m : msg) : bool := (m_num m =? num) && (m_den m =? den).

(* the normalised list, padded to the capacity when shorter *)
Definition bar_body (rel : list msg) (num den : Z) : list msg :=
  if dur_rel (normalise rel) <? bar_capacity num den then pad (normalise rel) (bar_capacity num den) false
  else normalise rel.

Lemma bar_init_eq rel num den :
  bar_init rel num den =
  if bar_capacity num den <? dur_rel (normalise rel) then Err BarErr else
  if 1 <? lenZ (filter is_ts (bar_body rel num den)) then Err BarErr else
  if negb (forallb (sig_ok num den) (filter is_ts (bar_body rel num den))) then Err BarErr else
  Ok (mk_ts 0 num den 0 false :: filter (fun m => negb (is_ts m)) (bar_body rel num den)).
Proof.
  unfold bar_init, bar_init_full, bar_body. cbv zeta.
  destruct (bar_capacity num den <? dur_rel (normalise rel)); [reflexivity|].
  destruct (1 <? lenZ _); [reflexivity|].
  fold (sig_ok num den). destruct (negb _); reflexivity.
Qed.

Lemma bar_body_spec rel num den : dur_rel (normalise rel) <= bar_capacity num den ->
  dur_rel (bar_body rel num den) = bar_capacity num den /\
  filter is_ts (bar_body rel num den) = filter is_ts (normalise rel) /\
  ticks (bar_body rel num den) 0 = ticks (normalise rel) 0 /\
  waits_pos (bar_body rel num den) = true.
Proof.
  intros D. unfold bar_body. pose proof (normalise_waits_pos rel) as P.
  pose proof (waits_pos_nonneg _ P) as N.
  destruct (dur_rel (normalise rel) <? bar_capacity num den) eqn:E.
  - apply Z.ltb_lt in E. rewrite (C18_pad_eq _ (bar_capacity num den) false N).
    replace (dur_rel (normalise rel) <? bar_capacity num den) with true by (symmetry; apply Z.ltb_lt; lia).
    rewrite dur_rel_app, filter_app, ticks_app, waits_pos_app, P. cbn [ticks filter app].
    change (is_wait (mk_wait _ _ _)) with true. cbn [ticks]. rewrite !app_nil_r.
    repeat split.
    + unfold dur_rel at 2. cbn. lia.
    + unfold waits_pos. cbn. apply andb_true_iff. split; [apply Z.ltb_lt; lia|reflexivity].
  - apply Z.ltb_ge in E. repeat split; [lia|exact P].
Qed.

Lemma bar_init_ok rel num den r : bar_init rel num den = Ok r ->
  dur_rel (normalise rel) <= bar_capacity num den /\
  lenZ (filter is_ts (normalise rel)) <= 1 /\
  forallb (sig_ok num den) (filter is_ts (normalise rel)) = true /\
  r = mk_ts 0 num den 0 false :: filter (fun m => negb (is_ts m)) (bar_body rel num den).
Proof.
  rewrite bar_init_eq.
  destruct (bar_capacity num den <? dur_rel (normalise rel)) eqn:E1; [discriminate|].
  apply Z.ltb_ge in E1. destruct (bar_body_spec rel num den E1) as (_ & -> & _).
  destruct (1 <? lenZ _) eqn:E2; [discriminate|]. apply Z.ltb_ge in E2.
  destruct (forallb _ _) eqn:E3; cbn [negb]; [|discriminate].
  intros H. injection H as <-. auto.
Qed.

(* ================================================================ the theorems *)
Lemma C10_total rel num den : (exists r, bar_init rel num den = Ok r) \/ bar_init rel num den = Err BarErr.
Proof.
  rewrite bar_init_eq.
  destruct (_ <? _); [now right|]. destruct (_ <? _); [now right|]. destruct (negb _); [now right|].
  left. eexists. reflexivity.
Qed.

Lemma C10_signature rel num den r : bar_init rel num den = Ok r ->
  exists r', r = mk_ts 0 num den 0 false :: r' /\ forallb (fun m => negb (is_ts m)) r' = true.
Proof.
  intros H. apply bar_init_ok in H. destruct H as (_ & _ & _ & ->).
  eexists. split; [reflexivity|]. apply forallb_forall. intros m I. apply filter_In in I. tauto.
Qed.

Lemma C10_duration rel num den r : bar_init rel num den = Ok r -> dur_rel r = bar_capacity num den.
Proof.
  intros H. apply bar_init_ok in H. destruct H as (D & _ & _ & ->).
  rewrite dur_rel_cons_other by reflexivity.
  rewrite dur_rel_filter by (intros m W; now rewrite (is_wait_not_ts m W)).
  now apply bar_body_spec.
Qed.

Lemma C10_reject_long_norm rel num den :
  bar_capacity num den < dur_rel (normalise rel) -> bar_init rel num den = Err BarErr.
Proof. intros H. rewrite bar_init_eq. apply Z.ltb_lt in H. now rewrite H. Qed.

Lemma C10_reject_long rel num den : waits_nonneg rel = true ->
  bar_capacity num den < dur_rel rel -> bar_init rel num den = Err BarErr.
Proof. intros N H. apply C10_reject_long_norm. now rewrite normalise_dur. Qed.

(* on the normalised list: two or more signatures, or one that differs *)
Lemma C10_reject_sig_norm rel num den :
  1 < lenZ (filter is_ts (normalise rel)) \/
  existsb (fun m => is_ts m && negb (sig_ok num den m)) (normalise rel) = true ->
  bar_init rel num den = Err BarErr.
Proof.
  intros H. rewrite bar_init_eq.
  destruct (bar_capacity num den <? dur_rel (normalise rel)) eqn:E1; [reflexivity|].
  apply Z.ltb_ge in E1. destruct (bar_body_spec rel num den E1) as (_ & -> & _).
  destruct H as [H|H].
  - apply Z.ltb_lt in H. now rewrite H.
  - destruct (1 <? lenZ _); [reflexivity|].
    apply existsb_exists in H. destruct H as (m & I & Hm). apply andb_prop in Hm. destruct Hm as [T S].
    destruct (forallb _ _) eqn:F; [|reflexivity].
    rewrite forallb_forall in F. specialize (F m). rewrite F in S; [discriminate|].
    apply filter_In. auto.
Qed.

(* on the input list: any signature message that differs from the bar's signature (and is not the degenerate
   None/None signature) leads to rejection *)
Lemma C10_reject_sig_conflict rel num den m :
  In m rel -> is_ts m = true -> sig_of m <> (num, den) -> sig_of m <> (NONE, NONE) ->
  bar_init rel num den = Err BarErr.
Proof.
  intros I T S1 S2. apply C10_reject_sig_norm. right.
  assert (I' : In m (filter is_ts rel)) by (apply filter_In; auto).
  destruct (dedup_ts_keeps (NONE, NONE) _ m I') as [H|(m' & I2 & S')]; [contradiction|].
  rewrite <- normalise_ts in I2. apply filter_In in I2. destruct I2 as [I2 T2].
  apply existsb_exists. exists m'. split; [exact I2|]. rewrite T2. cbn [andb].
  destruct (sig_ok num den m') eqn:E; [|reflexivity].
  unfold sig_ok in E. apply (sig_eqb_spec m' (num, den)) in E. congruence.
Qed.

(* on the input list: the signatures kept by normalise are those of the input without consecutive repetitions;
   two of them is one too many *)
Lemma C10_reject_sig_second rel num den :
  1 < lenZ (dedup_ts (NONE, NONE) (filter is_ts rel)) -> bar_init rel num den = Err BarErr.
Proof. intros H. apply C10_reject_sig_norm. left. now rewrite normalise_ts. Qed.

(* boolean form of the hypothesis *)
Lemma C10_reject_sig_conflict_b rel num den :
  existsb (fun m => is_ts m && negb (sig_ok num den m) && negb (sig_ok NONE NONE m)) rel = true ->
  bar_init rel num den = Err BarErr.
Proof.
  intros H. apply existsb_exists in H. destruct H as (m & I & Hm).
  apply andb_prop in Hm. destruct Hm as [Hm H3]. apply andb_prop in Hm. destruct Hm as [H1 H2].
  apply negb_true_iff in H2, H3.
  apply (C10_reject_sig_conflict rel num den m I H1).
  - intros E. apply (sig_eqb_spec m (num, den)) in E. unfold sig_ok in H2. cbn [fst snd] in E. congruence.
  - intros E. apply (sig_eqb_spec m (NONE, NONE)) in E. unfold sig_ok in H3. cbn [fst snd] in E. congruence.
Qed.

(* ================================================================ non-vacuity *)
Definition ex_bar : list msg :=
  [mk_on 0 60 100 0 false; mk_wait 0 24 false; mk_ts 0 4 4 0 false; mk_wait 0 10 false; mk_off 0 60 0 false].
Example C10_ex_ok : exists r, bar_init ex_bar 4 4 = Ok r /\ dur_rel r = 96.
Proof. eexists. split; vm_compute; reflexivity. Qed.
Example C10_ex_long : waits_nonneg [mk_wait 0 100 false] = true /\ bar_capacity 3 4 < dur_rel [mk_wait 0 100 false].
Proof. split; vm_compute; reflexivity. Qed.
Example C10_ex_conflict :
  In (mk_ts 0 4 4 0 false) ex_bar /\ is_ts (mk_ts 0 4 4 0 false) = true /\
  sig_of (mk_ts 0 4 4 0 false) <> (3, 4) /\ sig_of (mk_ts 0 4 4 0 false) <> (NONE, NONE).
Proof. cbn. repeat split; try tauto; discriminate. Qed.
Example C10_ex_second :
  1 < lenZ (dedup_ts (NONE, NONE) (filter is_ts [mk_ts 0 3 4 0 false; mk_wait 0 5 false; mk_ts 0 4 4 0 false; mk_ts 0 3 4 0 false])).
Proof. vm_compute. reflexivity. Qed.
Example C10_ex_conflict_b :
  existsb (fun m => is_ts m && negb (sig_ok 3 4 m) && negb (sig_ok NONE NONE m)) ex_bar = true.
Proof. vm_compute. reflexivity. Qed.
Example C10_ex_sig_norm :
  1 < lenZ (filter is_ts (normalise [mk_ts 0 3 4 0 false; mk_wait 0 5 false; mk_ts 0 4 4 0 false])) /\
  existsb (fun m => is_ts m && negb (sig_ok 3 4 m)) (normalise ex_bar) = true.
Proof. split; vm_compute; reflexivity. Qed.
