(* C05 -- quantise: totality, grid, bounded movement, non-note messages kept. *)
From Coq Require Import ZArith List Bool Lia Permutation.
From Model Require Import Base Seq Pairing.
From Proofs Require Import C05_closest.
Import ListNotations.
Open Scope Z_scope.

(* ------------------------------------------------------------------ definitions used by the statements *)
Definition quantise_core (l : list msg) (steps : list Z) : qstate := fold_left (qstep steps) l (mkq [] [] []).

Definition on_grid (steps : list Z) (t : Z) : bool := existsb (fun s => t mod s =? 0) steps.
Definition pos_steps (steps : list Z) : bool := forallb (fun s => 0 <? s) steps.
Definition maxZ (l : list Z) : Z := fold_right Z.max 0 l.
Definition nonnote (m : msg) : bool := negb (is_note m).
(* the quantised time of a message that is not a note-off *)
Definition qnt (steps : list Z) (m : msg) : Z := closest (m_time m) (positions (m_time m) steps).
Definition qmove (steps : list Z) (m : msg) : msg := set_time m (qnt steps m) (m_tf m).

Fixpoint sorted_time (l : list msg) : bool :=
  match l with
  | [] => true
  | m :: l' => match l' with [] => true | m' :: _ => (m_time m <=? m_time m') && sorted_time l' end
  end.

Lemma quantise_eq l steps : steps <> [] ->
  quantise l steps =
  Ok (sort_abs (remove_indices (q_out (quantise_core l steps))
                               (smothered (index_from 0 (q_out (quantise_core l steps))) []))).
Proof. destruct steps; [congruence|reflexivity]. Qed.

(* ------------------------------------------------------------------ C05_ok *)
Lemma C05_ok : forall l steps, steps <> [] -> exists out, quantise l steps = Ok out.
Proof. intros l steps H. rewrite quantise_eq by exact H. eexists; reflexivity. Qed.

(* ------------------------------------------------------------------ message types *)
Lemma is_on_type m : is_on m = true <-> m_type m = NOTE_ON.
Proof. unfold is_on, mtype_eqb. destruct (m_type m); cbn; split; congruence. Qed.
Lemma is_off_type m : is_off m = true <-> m_type m = NOTE_OFF.
Proof. unfold is_off, mtype_eqb. destruct (m_type m); cbn; split; congruence. Qed.
Lemma is_note_type m : is_note m = true <-> (m_type m = NOTE_ON \/ m_type m = NOTE_OFF).
Proof. unfold is_note. rewrite orb_true_iff, is_on_type, is_off_type. tauto. Qed.
Lemma nonnote_type m : nonnote m = true <-> (m_type m <> NOTE_ON /\ m_type m <> NOTE_OFF).
Proof.
  unfold nonnote. rewrite negb_true_iff, <- not_true_iff_false, is_note_type. tauto.
Qed.

(* ------------------------------------------------------------------ unfolding qstep *)
Definition qkey (m : msg) : k2 := (m_chan m, m_note m).

Definition q_tim_app (s : qstate) (k : k2) (nt : Z) : list (k2 * list Z) :=
  dset k2_eqb k (match dget k2_eqb k (q_tim s) with Some l => l ++ [nt] | None => [nt] end) (q_tim s).

Definition q_retrig (steps : list Z) (s : qstate) (m : msg) : qstate :=
  match dget k2_eqb (qkey m) (q_open s) with
  | Some _ => mkq (ddel k2_eqb (qkey m) (q_open s)) (q_tim_app s (qkey m) (qnt steps m))
                  (q_out s ++ [mk_off (m_chan m) (m_note m) (qnt steps m) (m_tf m)])
  | None => s
  end.

Definition q_can_open (steps : list Z) (s1 : qstate) (m : msg) : bool :=
  match dget k2_eqb (qkey m) (q_tim s1) with
  | None => true
  | Some l => negb (qnt steps m <? nth 1 l 0)
  end.

Definition q_valid (steps : list Z) (ot : Z) (m : msg) : list Z :=
  match filter (fun p => 0 <? p - ot) (positions (m_time m) steps) with
  | [] => [ot]
  | v => v
  end.

Lemma qstep_on steps s m : m_type m = NOTE_ON ->
  qstep steps s m =
  let s1 := q_retrig steps s m in
  if q_can_open steps s1 m
  then mkq (dset k2_eqb (qkey m) (qnt steps m) (q_open s1)) (dset k2_eqb (qkey m) [qnt steps m] (q_tim s1))
           (q_out s1 ++ [qmove steps m])
  else s1.
Proof. intros H. unfold qstep. rewrite H. reflexivity. Qed.

Lemma qstep_off steps s m : m_type m = NOTE_OFF ->
  qstep steps s m =
  match dget k2_eqb (qkey m) (q_open s) with
  | Some ot => mkq (ddel k2_eqb (qkey m) (q_open s)) (q_tim_app s (qkey m) (closest (m_time m) (q_valid steps ot m)))
                   (q_out s ++ [set_time m (closest (m_time m) (q_valid steps ot m)) (m_tf m)])
  | None => s
  end.
Proof.
  intros H. unfold qstep. rewrite H. fold (qkey m).
  destruct (dget k2_eqb (qkey m) (q_open s)) as [ot|]; [|reflexivity].
  unfold q_valid, q_tim_app.
  destruct (filter (fun p => 0 <? p - ot) (positions (m_time m) steps)); reflexivity.
Qed.

Lemma qstep_other steps s m : m_type m <> NOTE_ON -> m_type m <> NOTE_OFF ->
  qstep steps s m = mkq (q_open s) (q_tim s) (q_out s ++ [qmove steps m]).
Proof. intros H1 H2. unfold qstep. destruct (m_type m); try congruence; reflexivity. Qed.

(* generic fold invariant, indexed by the processed prefix *)
Lemma fold_inv_pre (f : qstate -> msg -> qstate) (P : list msg -> qstate -> Prop) (Q : list msg -> Prop) :
  (forall pre m, Q (pre ++ [m]) -> Q pre) ->
  (forall pre s m, Q (pre ++ [m]) -> P pre s -> P (pre ++ [m]) (f s m)) ->
  forall l pre s, Q (pre ++ l) -> P pre s -> P (pre ++ l) (fold_left f l s).
Proof.
  intros HQ Hstep. induction l as [|m l IH]; intros pre s Hq Hp; cbn [fold_left].
  - now rewrite app_nil_r.
  - replace (pre ++ m :: l) with ((pre ++ [m]) ++ l) in * by (rewrite <- app_assoc; reflexivity).
    apply IH; [exact Hq|]. apply Hstep; [|exact Hp].
    clear -HQ Hq. revert Hq. generalize (pre ++ [m]). induction l as [|x l IH] using rev_ind; intros p Hq.
    + now rewrite app_nil_r in Hq.
    + apply IH. apply HQ with x. now rewrite <- app_assoc.
Qed.

Lemma fold_inv (f : qstate -> msg -> qstate) (P : qstate -> Prop) :
  (forall s m, P s -> P (f s m)) -> forall l s, P s -> P (fold_left f l s).
Proof. intros H. induction l; intros s Hs; cbn; auto. Qed.

(* ------------------------------------------------------------------ the grid *)
Lemma positions_in t steps p :
  In p (positions t steps) <-> exists s, In s steps /\ (p = t / s * s \/ p = t / s * s + s).
Proof.
  unfold positions. rewrite in_app_iff, !in_map_iff. split.
  - intros [(s & <- & Hs)|(s & <- & Hs)]; exists s; auto.
  - intros (s & Hs & [->| ->]); [left|right]; exists s; auto.
Qed.

Lemma positions_nonempty t steps : steps <> [] -> positions t steps <> [].
Proof. destruct steps; [congruence|discriminate]. Qed.

Lemma positions_grid t steps p : In p (positions t steps) -> on_grid steps p = true.
Proof.
  rewrite positions_in. intros (s & Hs & Hp). unfold on_grid. apply existsb_exists. exists s. split; [exact Hs|].
  apply Z.eqb_eq. destruct (Z.eq_dec s 0) as [->|Hne].
  - destruct Hp as [->| ->]; rewrite Z.mul_0_r; reflexivity.
  - destruct Hp as [->| ->].
    + now apply Z.mod_mul.
    + replace (t / s * s + s) with ((t / s + 1) * s) by ring. now apply Z.mod_mul.
Qed.

Lemma qnt_grid steps m : steps <> [] -> on_grid steps (qnt steps m) = true.
Proof.
  intros H. apply positions_grid with (t := m_time m). apply closest_in. now apply positions_nonempty.
Qed.

Lemma q_valid_nonempty steps ot m : q_valid steps ot m <> [].
Proof. unfold q_valid. destruct (filter _ _); discriminate. Qed.

Lemma q_valid_in steps ot m p :
  In p (q_valid steps ot m) ->
  (In p (positions (m_time m) steps) /\ ot < p) \/
  (p = ot /\ forall x, In x (positions (m_time m) steps) -> x <= ot).
Proof.
  unfold q_valid. destruct (filter _ _) as [|v vs] eqn:E.
  - intros [<-|[]]. right. split; [reflexivity|]. intros x Hx.
    destruct (Z_le_gt_dec x ot) as [Hle|Hgt]; [exact Hle|exfalso].
    assert (Hin : In x (filter (fun p => 0 <? p - ot) (positions (m_time m) steps))).
    { apply filter_In. split; [exact Hx|]. apply Z.ltb_lt. lia. }
    rewrite E in Hin. destruct Hin.
  - rewrite <- E. intros H. apply filter_In in H. destruct H as [H1 H2]. apply Z.ltb_lt in H2.
    left. split; [exact H1|lia].
Qed.

Definition grid_inv (steps : list Z) (s : qstate) : Prop :=
  Forall (fun m => on_grid steps (m_time m) = true) (q_out s) /\
  Forall (fun kv : k2 * Z => on_grid steps (snd kv) = true) (q_open s).

Lemma Forall_snoc {A} (P : A -> Prop) l x : Forall P l -> P x -> Forall P (l ++ [x]).
Proof. intros H1 H2. apply Forall_app. split; [exact H1|]. constructor; [exact H2|constructor]. Qed.

Lemma grid_step steps s m : steps <> [] -> grid_inv steps s -> grid_inv steps (qstep steps s m).
Proof.
  intros Hne [Hout Hopen].
  destruct (m_type m) eqn:T;
    try (rewrite qstep_other by congruence; split; cbn [q_out q_open]; [|exact Hopen];
         apply Forall_snoc; [exact Hout|now apply qnt_grid]).
  - (* NOTE_OFF *)
    rewrite qstep_off by exact T. destruct (dget k2_eqb (qkey m) (q_open s)) as [ot|] eqn:G; [|now split].
    split; cbn [q_out q_open].
    + apply Forall_snoc; [exact Hout|]. cbn [set_time m_time].
      pose proof (closest_in (m_time m) (q_valid steps ot m) (q_valid_nonempty _ _ _)) as Hin.
      apply q_valid_in in Hin. destruct Hin as [[Hin _]|[-> _]].
      * eapply positions_grid; eauto.
      * apply (dget_vals k2_eqb (fun v => on_grid steps v = true) _ _ _ Hopen G).
    + now apply (ddel_vals k2_eqb (fun v => on_grid steps v = true)).
  - (* NOTE_ON *)
    rewrite qstep_on by exact T. cbv zeta.
    assert (H1 : grid_inv steps (q_retrig steps s m)).
    { unfold q_retrig. destruct (dget k2_eqb (qkey m) (q_open s)); [|now split].
      split; cbn [q_out q_open].
      - apply Forall_snoc; [exact Hout|]. cbn [mk_off m_time]. now apply qnt_grid.
      - now apply (ddel_vals k2_eqb (fun v => on_grid steps v = true)). }
    destruct (q_can_open steps (q_retrig steps s m) m); [|exact H1].
    destruct H1 as [H1o H1p]. split; cbn [q_out q_open].
    + apply Forall_snoc; [exact H1o|]. cbn [qmove set_time m_time]. now apply qnt_grid.
    + apply (dset_vals k2_eqb (fun v => on_grid steps v = true)); [exact H1p|now apply qnt_grid].
Qed.

Lemma grid_core l steps : steps <> [] -> grid_inv steps (quantise_core l steps).
Proof.
  intros H. unfold quantise_core. apply fold_inv.
  - intros s m. now apply grid_step.
  - split; constructor.
Qed.

Lemma C05_grid : forall l steps out, steps <> [] -> quantise l steps = Ok out ->
  Forall (fun m => existsb (fun s => m_time m mod s =? 0) steps = true) out.
Proof.
  intros l steps out Hne H. rewrite quantise_eq in H by exact Hne. injection H as <-.
  apply sort_abs_Forall, remove_indices_Forall. exact (proj1 (grid_core l steps Hne)).
Qed.

(* ------------------------------------------------------------------ non-note messages are kept *)
Lemma nonnote_set_time m t f : nonnote (set_time m t f) = nonnote m.
Proof. reflexivity. Qed.

Lemma filter_snoc {A} (p : A -> bool) l x : filter p (l ++ [x]) = filter p l ++ (if p x then [x] else []).
Proof. rewrite filter_app. cbn [filter]. now destruct (p x). Qed.

Definition keep_inv (steps : list Z) (pre : list msg) (s : qstate) : Prop :=
  filter nonnote (q_out s) = map (qmove steps) (filter nonnote pre).

Lemma keep_step steps pre s m : keep_inv steps pre s -> keep_inv steps (pre ++ [m]) (qstep steps s m).
Proof.
  unfold keep_inv. intros H. rewrite (filter_snoc nonnote pre m).
  destruct (nonnote m) eqn:N.
  - pose proof (proj1 (nonnote_type m) N) as [T1 T2]. rewrite qstep_other by assumption. cbn [q_out].
    rewrite filter_snoc. unfold qmove at 1. rewrite nonnote_set_time, N, H, map_app. reflexivity.
  - rewrite app_nil_r. assert (T : m_type m = NOTE_ON \/ m_type m = NOTE_OFF).
    { apply is_note_type. unfold nonnote in N. now apply negb_false_iff in N. }
    destruct T as [T|T].
    + rewrite qstep_on by exact T. cbv zeta.
      assert (H1 : filter nonnote (q_out (q_retrig steps s m)) = map (qmove steps) (filter nonnote pre)).
      { unfold q_retrig. destruct (dget k2_eqb (qkey m) (q_open s)); [|exact H]. cbn [q_out].
        rewrite filter_snoc. cbn. now rewrite app_nil_r. }
      destruct (q_can_open steps (q_retrig steps s m) m); [|exact H1]. cbn [q_out].
      rewrite filter_snoc. unfold qmove at 1. rewrite nonnote_set_time, N, app_nil_r. exact H1.
    + rewrite qstep_off by exact T. destruct (dget k2_eqb (qkey m) (q_open s)); [|exact H]. cbn [q_out].
      rewrite filter_snoc, nonnote_set_time, N, app_nil_r. exact H.
Qed.

Lemma keep_core l steps : keep_inv steps l (quantise_core l steps).
Proof.
  unfold quantise_core.
  apply (fold_inv_pre (qstep steps) (keep_inv steps) (fun _ => True)) with (pre := []) (l := l); auto.
  - intros pre s m _. apply keep_step.
  - reflexivity.
Qed.

(* the indices returned by the zero-length sweep point to note messages *)
Section Smothered.
  Variable L : list (nat * msg).
  Let Q (i : nat) : Prop := exists m, In (i, m) L /\ is_note m = true.

  Lemma smothered_notes : forall l tbl, incl l L ->
    Forall (fun kv : k2 * (nat * Z) => Q (fst (snd kv))) tbl ->
    forall i, In i (smothered l tbl) -> Q i.
  Proof.
    induction l as [|[j m] l IH]; intros tbl Hincl Htbl i; cbn [smothered]; [intros []|].
    assert (Hl : incl l L) by (intros x Hx; apply Hincl; now right).
    assert (Hj : In (j, m) L) by (apply Hincl; now left).
    destruct (m_type m) eqn:T; try (apply IH; assumption).
    - (* NOTE_OFF *)
      destruct (dget k2_eqb (m_chan m, m_note m) tbl) as [[j0 t0]|] eqn:G; [|apply IH; assumption].
      intros Hin. apply in_app_or in Hin. destruct Hin as [Hin|Hin].
      + destruct (m_time m - t0 <=? 0); [|destruct Hin].
        destruct Hin as [<-|[<-|[]]].
        * exact (dget_vals k2_eqb (fun v : nat * Z => Q (fst v)) _ _ _ Htbl G).
        * exists m. split; [exact Hj|]. apply is_note_type. now right.
      + revert Hin. apply IH; [exact Hl|].
        now apply (ddel_vals k2_eqb (fun v : nat * Z => Q (fst v))).
    - (* NOTE_ON *)
      apply IH; [exact Hl|].
      apply (dset_vals k2_eqb (fun v : nat * Z => Q (fst v))); [exact Htbl|].
      exists m. split; [exact Hj|]. apply is_note_type. now left.
  Qed.
End Smothered.

Lemma smothered_only_notes (out : list msg) i x :
  In (i, x) (index_from 0 out) -> In i (smothered (index_from 0 out) []) -> nonnote x = false.
Proof.
  intros Hx Hi.
  destruct (smothered_notes (index_from 0 out) (index_from 0 out) [] (incl_refl _) (Forall_nil _) i Hi)
    as (m & Hm & Hn).
  rewrite (index_from_fun out 0 i x m Hx Hm). unfold nonnote. now rewrite Hn.
Qed.

Lemma C05_keep_other : forall l steps out, steps <> [] -> quantise l steps = Ok out ->
  Permutation (filter nonnote out) (map (qmove steps) (filter nonnote l)).
Proof.
  intros l steps out Hne H. rewrite quantise_eq in H by exact Hne. injection H as <-.
  rewrite (filter_perm nonnote _ _ (sort_abs_perm _)).
  rewrite filter_remove_indices by apply smothered_only_notes.
  rewrite (keep_core l steps). reflexivity.
Qed.

(* ------------------------------------------------------------------ bounded movement *)
Lemma in_maxZ s l : In s l -> s <= maxZ l.
Proof.
  induction l as [|x l IH]; cbn [maxZ fold_right]; [intros []|].
  intros [->|H]; [lia|]. specialize (IH H). unfold maxZ in IH. lia.
Qed.

Lemma pos_steps_in steps s : pos_steps steps = true -> In s steps -> 0 < s.
Proof.
  unfold pos_steps. rewrite forallb_forall. intros H Hs. apply Z.ltb_lt. now apply H.
Qed.

Lemma floor_bounds t s : 0 < s -> t / s * s <= t < t / s * s + s.
Proof.
  intros Hs. pose proof (Z.div_mod t s ltac:(lia)) as E. pose proof (Z.mod_pos_bound t s Hs) as B. lia.
Qed.

Lemma positions_near steps t p : pos_steps steps = true -> In p (positions t steps) ->
  Z.abs (p - t) <= maxZ steps.
Proof.
  intros Hpos Hp. apply positions_in in Hp. destruct Hp as (s & Hs & Hp).
  pose proof (pos_steps_in _ _ Hpos Hs) as H0. pose proof (in_maxZ _ _ Hs) as Hm.
  pose proof (floor_bounds t s H0) as B. lia.
Qed.

Lemma qnt_near steps m : steps <> [] -> pos_steps steps = true -> Z.abs (qnt steps m - m_time m) <= maxZ steps.
Proof.
  intros Hne Hpos. apply positions_near; [exact Hpos|]. apply closest_in. now apply positions_nonempty.
Qed.

Lemma sorted_time_cons m l :
  sorted_time (m :: l) = true <-> Forall (fun y => m_time m <= m_time y) l /\ sorted_time l = true.
Proof.
  revert m. induction l as [|y l IH]; intros m.
  - cbn. split; [intros _; split; [constructor|reflexivity]|reflexivity].
  - change (sorted_time (m :: y :: l)) with ((m_time m <=? m_time y) && sorted_time (y :: l)).
    rewrite andb_true_iff, Z.leb_le. split.
    + intros [H1 H2]. split; [|exact H2]. constructor; [exact H1|].
      apply IH in H2. destruct H2 as [H2 _]. eapply Forall_impl; [|exact H2]. cbn. intros; lia.
    + intros [H1 H2]. inversion H1; subst. split; assumption.
Qed.

Lemma sorted_time_app a b : sorted_time (a ++ b) = true ->
  sorted_time a = true /\ forall x y, In x a -> In y b -> m_time x <= m_time y.
Proof.
  induction a as [|m a IH]; cbn [app].
  - intros _. split; [reflexivity|intros x y []].
  - rewrite sorted_time_cons. intros [H1 H2]. destruct (IH H2) as [Ha Hab]. split.
    + apply sorted_time_cons. split; [|exact Ha]. apply Forall_app in H1. tauto.
    + intros x y [<-|Hx] Hy; [|auto]. rewrite Forall_forall in H1. apply H1. apply in_or_app. now right.
Qed.

(* ins = true: inserted note-offs (re-trigger of a sounding key) are allowed *)
Definition moved_from (ins : bool) (M : Z) (pre : list msg) (x : msg) : Prop :=
  exists m t', In m pre /\ Z.abs (t' - m_time m) <= M /\
    (x = set_time m t' (m_tf m) \/
     (ins = true /\ m_type m = NOTE_ON /\ x = mk_off (m_chan m) (m_note m) t' (m_tf m))).

Definition move_inv (ins : bool) (M : Z) (pre : list msg) (s : qstate) : Prop :=
  Forall (moved_from ins M pre) (q_out s) /\
  Forall (fun kv : k2 * Z => exists m0, In m0 pre /\ snd kv <= m_time m0 + M) (q_open s).

Lemma moved_from_mono ins M pre m x : moved_from ins M pre x -> moved_from ins M (pre ++ [m]) x.
Proof.
  intros (m0 & t' & Hin & Hb & Hx). exists m0, t'. split; [apply in_or_app; now left|]. tauto.
Qed.

Lemma move_inv_mono ins M pre m s : move_inv ins M pre s -> move_inv ins M (pre ++ [m]) s.
Proof.
  intros [H1 H2]. split.
  - eapply Forall_impl; [|exact H1]. intros x. apply moved_from_mono.
  - eapply Forall_impl; [|exact H2]. intros kv (m0 & Hin & Hb). exists m0. split; [apply in_or_app; now left|exact Hb].
Qed.

Lemma move_step ins steps pre s m : steps <> [] -> pos_steps steps = true ->
  sorted_time (pre ++ [m]) = true ->
  (ins = false -> m_type m = NOTE_ON -> q_retrig steps s m = s) ->
  move_inv ins (maxZ steps) pre s -> move_inv ins (maxZ steps) (pre ++ [m]) (qstep steps s m).
Proof.
  intros Hne Hpos Hsort Hins Hinv0.
  assert (Hle : forall x, In x pre -> m_time x <= m_time m).
  { intros x Hx. apply (proj2 (sorted_time_app _ _ Hsort) x m Hx). now left. }
  pose proof (move_inv_mono _ _ _ m _ Hinv0) as [Hout Hopen].
  assert (Hm : In m (pre ++ [m])) by (apply in_or_app; right; now left).
  pose proof (qnt_near steps m Hne Hpos) as Hnear.
  assert (Hself : moved_from ins (maxZ steps) (pre ++ [m]) (qmove steps m)).
  { exists m, (qnt steps m). split; [exact Hm|]. split; [exact Hnear|now left]. }
  set (Popen := fun v : Z => exists m0, In m0 (pre ++ [m]) /\ v <= m_time m0 + maxZ steps).
  destruct (m_type m) eqn:T;
    try (rewrite qstep_other by congruence; split; cbn [q_out q_open]; [|exact Hopen];
         apply Forall_snoc; [exact Hout|exact Hself]).
  - (* NOTE_OFF *)
    rewrite qstep_off by exact T. destruct (dget k2_eqb (qkey m) (q_open s)) as [ot|] eqn:G; [|now split].
    split; cbn [q_out q_open]; [|now apply (ddel_vals k2_eqb Popen)].
    apply Forall_snoc; [exact Hout|].
    exists m, (closest (m_time m) (q_valid steps ot m)). split; [exact Hm|]. split; [|now left].
    pose proof (closest_in (m_time m) (q_valid steps ot m) (q_valid_nonempty _ _ _)) as Hin.
    apply q_valid_in in Hin. destruct Hin as [[Hin _]|[-> Hall]].
    + now apply positions_near.
    + destruct steps as [|s0 ss]; [congruence|].
      assert (Hs0 : In s0 (s0 :: ss)) by now left.
      pose proof (pos_steps_in _ _ Hpos Hs0) as H0.
      pose proof (floor_bounds (m_time m) s0 H0) as B.
      assert (Hp : m_time m / s0 * s0 + s0 <= ot).
      { apply Hall. apply positions_in. exists s0. split; [exact Hs0|now right]. }
      destruct (dget_vals k2_eqb (fun v : Z => exists m0, In m0 pre /\ v <= m_time m0 + maxZ (s0 :: ss))
                  _ _ _ (proj2 Hinv0) G) as (m0 & Hm0 & Hb).
      specialize (Hle _ Hm0). lia.
  - (* NOTE_ON *)
    rewrite qstep_on by exact T. cbv zeta.
    assert (H1 : move_inv ins (maxZ steps) (pre ++ [m]) (q_retrig steps s m)).
    { destruct ins; [|rewrite Hins by (reflexivity || exact T); now split].
      unfold q_retrig. destruct (dget k2_eqb (qkey m) (q_open s)); [|now split].
      split; cbn [q_out q_open]; [|now apply (ddel_vals k2_eqb Popen)].
      apply Forall_snoc; [exact Hout|].
      exists m, (qnt steps m). split; [exact Hm|]. split; [exact Hnear|]. right. repeat split; assumption. }
    destruct (q_can_open steps (q_retrig steps s m) m); [|exact H1].
    destruct H1 as [H1o H1p]. split; cbn [q_out q_open].
    + apply Forall_snoc; [exact H1o|exact Hself].
    + apply (dset_vals k2_eqb Popen); [exact H1p|]. exists m. split; [exact Hm|]. lia.
Qed.

Lemma move_core l steps : steps <> [] -> pos_steps steps = true -> sorted_time l = true ->
  move_inv true (maxZ steps) l (quantise_core l steps).
Proof.
  intros Hne Hpos Hs. unfold quantise_core.
  apply (fold_inv_pre (qstep steps) (move_inv true (maxZ steps)) (fun p => sorted_time p = true)) with (pre := []) (l := l).
  - intros pre m H. exact (proj1 (sorted_time_app _ _ H)).
  - intros pre s m Hq. apply move_step; auto. discriminate.
  - exact Hs.
  - split; constructor.
Qed.

(* statement on the loop result (stored order, before the zero-length sweep and the final sort) ... *)
Lemma C05_move_core : forall l steps, steps <> [] -> pos_steps steps = true -> sorted_time l = true ->
  Forall (moved_from true (maxZ steps) l) (q_out (quantise_core l steps)).
Proof. intros l steps H1 H2 H3. exact (proj1 (move_core l steps H1 H2 H3)). Qed.

(* ... and transferred to the output *)
Lemma C05_move : forall l steps out, steps <> [] -> pos_steps steps = true -> sorted_time l = true ->
  quantise l steps = Ok out ->
  Forall (fun x => exists m t', In m l /\ Z.abs (t' - m_time m) <= maxZ steps /\
            (x = set_time m t' (m_tf m) \/
             (m_type m = NOTE_ON /\ x = mk_off (m_chan m) (m_note m) t' (m_tf m)))) out.
Proof.
  intros l steps out Hne Hpos Hs H. rewrite quantise_eq in H by exact Hne. injection H as <-.
  apply sort_abs_Forall, remove_indices_Forall.
  eapply Forall_impl; [|exact (C05_move_core l steps Hne Hpos Hs)].
  intros x (m & t' & H1 & H2 & H3). exists m, t'. tauto.
Qed.
