(* ShowX.v -- rendering of stores, outputs, bars, tokens for the correspondence check. *)
From Model Require Import Base Seq Pairing Bars Store Show.
Open Scope string_scope.

Definition show_seq (s : seq) : string :=
  "A" ++ (if s_abs_stale s then "~" else show_msgs (s_abs s)) ++ "/R" ++ (if s_rel_stale s then "~" else show_msgs (s_rel s)).
Definition show_store (st : store) : string := sjoin "#" (map show_seq st).
Definition show_sig (x : Z * Z * option Key) : string :=
  let '(n, d, k) := x in show_Z n ++ "/" ++ show_Z d ++ "/" ++ show_key k.
Definition show_out (o : out) : string :=
  match o with
  | ONone => "-" | OBool b => show_bool b | OZ z => show_Z z | OMsgs l => "[" ++ show_msgs l ++ "]"
  | OErr e => "!" ++ show_err e
  | OBars l => sjoin "|" (map (fun t => sjoin "," (map show_sig t)) l)
  end.

(* the state after every step of a history, and each step's output *)
Fixpoint run_trace (st : store) (ops : list op) : list string :=
  match ops with
  | [] => []
  | o :: ops' => let '(st1, x) := step st o in (show_out x ++ "@" ++ show_store st1) :: run_trace st1 ops'
  end.
Definition show_trace (ops : list op) : string := sjoin "$" (run_trace [] ops).

Definition show_bar (b : bar) : string :=
  show_sig (b_num b, b_den b, b_key b) ++ "=" ++ show_msgs (b_rel b).
Definition show_bars (r : result (list (list bar))) : string :=
  show_res (fun l => sjoin "|" (map (fun t => sjoin "&" (map show_bar t)) l)) r.

Definition show_pairing (p : pairing) : string :=
  show_msg (p_first p) ++ match p_second p with Some o => ">" ++ show_msg o | None => "" end.
Definition show_pairings (l : list (Z * list pairing)) : string :=
  sjoin "|" (map (fun kv => show_Z (fst kv) ++ "=" ++ sjoin ";" (map show_pairing (snd kv))) l).
Definition show_interleaved (l : list (Z * pairing)) : string :=
  sjoin ";" (map (fun kv => show_Z (fst kv) ++ "=" ++ show_pairing (snd kv)) l).
