(* C06 -- quantise_note_lengths: closest, valid durations, per-channel rewriting, non-note messages. *)
From Coq Require Import ZArith List Bool Lia Permutation.
From Model Require Import Base Seq Pairing.
From Proofs Require Import C05_closest C05_proofs.
Import ListNotations.
Open Scope Z_scope.

(* ------------------------------------------------------------------ C06_closest_spec *)
Lemma C06_closest_spec : forall e l, l <> [] ->
  exists n, find_minimal_distance e l = Z.of_nat n /\ (n < length l)%nat /\
    closest e l = nth n l 0 /\ In (closest e l) l /\
    (forall x, In x l -> Z.abs (closest e l - e) <= Z.abs (x - e)) /\
    (forall k, (k < n)%nat -> Z.abs (closest e l - e) < Z.abs (nth k l 0 - e)).
Proof.
  intros e l H. destruct (closest_spec e l H) as (n & Hr & Hc & (Hn & Hmin & Hfirst)).
  exists n. rewrite Hc. repeat split; auto. now apply nth_In.
Qed.

(* ------------------------------------------------------------------ duplicate-free lists *)
Fixpoint nodupb (l : list Z) : bool :=
  match l with [] => true | x :: l' => negb (memZ x l') && nodupb l' end.

Lemma memZ_in x l : memZ x l = true <-> In x l.
Proof.
  unfold memZ. rewrite existsb_exists. split.
  - intros (y & Hy & E). apply Z.eqb_eq in E. now subst.
  - intros H. exists x. split; [exact H|apply Z.eqb_refl].
Qed.

Lemma nodupb_NoDup l : nodupb l = true -> NoDup l.
Proof.
  induction l as [|x l IH]; cbn [nodupb]; [constructor|].
  rewrite andb_true_iff, negb_true_iff. intros [H1 H2]. constructor; [|auto].
  rewrite <- memZ_in. congruence.
Qed.

Lemma remove_first_notin x l : ~ In x l -> remove_first Z.eqb x l = l.
Proof.
  induction l as [|y l IH]; cbn [remove_first]; [reflexivity|].
  intros H. destruct (Z.eqb_spec x y) as [->|Hne]; [exfalso; apply H; now left|].
  rewrite IH; [reflexivity|]. intros Hin. apply H. now right.
Qed.

Lemma remove_first_filter x l : NoDup l -> remove_first Z.eqb x l = filter (fun y => negb (y =? x)) l.
Proof.
  induction l as [|y l IH]; cbn [remove_first filter]; [reflexivity|].
  intros Hnd. inversion Hnd as [|? ? Hy Hl]; subst.
  destruct (Z.eqb_spec x y) as [->|Hne].
  - rewrite Z.eqb_refl. cbn [negb]. rewrite <- IH by exact Hl. symmetry. now apply remove_first_notin.
  - destruct (Z.eqb_spec y x) as [->|_]; [congruence|]. cbn [negb]. now rewrite IH.
Qed.

(* removing every listed value that satisfies c, one occurrence at a time, from a duplicate-free list *)
Lemma fold_remove_filter (c : Z -> bool) : forall vs acc, NoDup acc ->
  fold_left (fun acc v => if c v then remove_first Z.eqb v acc else acc) vs acc =
  filter (fun x => negb (memZ x vs && c x)) acc.
Proof.
  induction vs as [|v vs IH]; intros acc Hnd; cbn [fold_left].
  - symmetry. apply filter_all_true. intros; reflexivity.
  - destruct (c v) eqn:Cv.
    + rewrite IH by (rewrite remove_first_filter by exact Hnd; now apply NoDup_filter).
      rewrite remove_first_filter by exact Hnd. rewrite filter_filter. apply filter_ext. intros x.
      unfold memZ. cbn [existsb]. destruct (Z.eqb_spec x v) as [->|Hne]; cbn [negb orb andb].
      * now rewrite Cv.
      * reflexivity.
    + rewrite IH by exact Hnd. apply filter_ext. intros x.
      unfold memZ. cbn [existsb]. destruct (Z.eqb_spec x v) as [->|Hne]; cbn [orb].
      * rewrite Cv. now rewrite !andb_false_r.
      * reflexivity.
Qed.

Ltac zb := repeat match goal with
  | |- context [?a <? ?b] => destruct (Z.ltb_spec a b)
  | |- context [?a <=? ?b] => destruct (Z.leb_spec a b)
  end.

(* ------------------------------------------------------------------ C06_valid_spec *)
(* v fits: the note ends no later than the onset of the next note of its pitch, and (with do_not_extend) is not
   longer than the current duration *)
Definition fits (dne : bool) (p : pairing) (next : option pairing) (v : Z) : bool :=
  match next with None => true | Some nx => p_on_time p + v <=? p_on_time nx end &&
  (negb dne || (v <=? p_off_time p - p_on_time p)).

Lemma qnl_valid_filter values dne p next : nodupb values = true ->
  qnl_valid values dne p next = filter (fits dne p next) values.
Proof.
  intros Hb. pose proof (nodupb_NoDup _ Hb) as Hnd. unfold qnl_valid.
  set (cur := p_off_time p - p_on_time p).
  set (c2 := fun v => (0 <? v - cur) && dne).
  assert (E2 : forall v1, NoDup v1 ->
    fold_left (fun acc v => if (0 <? v - cur) && dne && memZ v acc then remove_first Z.eqb v acc else acc) values v1 =
    filter (fun x => negb (memZ x values && c2 x)) v1).
  { intros v1 Hv1. rewrite <- fold_remove_filter by exact Hv1.
    clear Hv1. revert v1. induction values as [|v vs IH]; intros v1; cbn [fold_left]; [reflexivity|].
    rewrite IH by (cbn [nodupb] in Hb; apply andb_true_iff in Hb; try tauto; inversion Hnd; auto).
    f_equal. unfold c2. destruct ((0 <? v - cur) && dne); cbn [andb]; [|reflexivity].
    destruct (memZ v v1) eqn:M; [reflexivity|].
    symmetry. apply remove_first_notin. rewrite <- memZ_in. congruence. }
  destruct next as [nx|].
  - rewrite (fold_remove_filter (fun v => p_on_time nx <? p_off_time p + (v - cur))) by exact Hnd.
    rewrite E2 by now apply NoDup_filter. rewrite filter_filter. apply filter_ext_in. intros x Hx.
    apply memZ_in in Hx. rewrite Hx. cbn [andb]. unfold fits, c2. fold cur.
    replace (p_off_time p + (x - cur)) with (p_on_time p + x) by (unfold cur; ring).
    destruct dne; zb; cbn; try reflexivity; lia.
  - rewrite E2 by exact Hnd. apply filter_ext_in. intros x Hx.
    apply memZ_in in Hx. rewrite Hx. cbn [andb]. unfold fits, c2. fold cur.
    destruct dne; zb; cbn; try reflexivity; lia.
Qed.

Lemma C06_valid_spec : forall values dne p next v, nodupb values = true ->
  (In v (qnl_valid values dne p next) <->
   In v values /\
   match next with None => True | Some nx => p_on_time p + v <= p_on_time nx end /\
   (dne = false \/ v <= p_off_time p - p_on_time p)).
Proof.
  intros values dne p next v Hb. rewrite qnl_valid_filter by exact Hb.
  rewrite filter_In. unfold fits. rewrite andb_true_iff, orb_true_iff, negb_true_iff, Z.leb_le.
  destruct next as [nx|]; [rewrite Z.leb_le|]; tauto.
Qed.

(* ------------------------------------------------------------------ C06_channel_durations *)
(* what one pairing contributes, given the next pairing of its pitch in the channel *)
Definition qnl_emit (values : list Z) (dne : bool) (p : pairing) (next : option pairing) : list msg :=
  match qnl_valid values dne p next, snd p with
  | [], _ => []
  | v, Some (_, off) =>
      [p_first p;
       set_time off (m_time off + (closest (p_off_time p - p_on_time p) v - (p_off_time p - p_on_time p))) (m_tf off)]
  | _, None => [p_first p]
  end.

Fixpoint with_next (l : list pairing) : list (pairing * option pairing) :=
  match l with
  | [] => []
  | p :: l' => (p, next_same (m_note (p_first p)) l') :: with_next l'
  end.

Lemma qnl_channel_eq values dne ps :
  qnl_channel values dne ps = flat_map (fun pn => qnl_emit values dne (fst pn) (snd pn)) (with_next ps).
Proof.
  induction ps as [|p ps IH]; cbn [qnl_channel with_next]; [reflexivity|].
  rewrite IH. cbn [flat_map]. generalize (flat_map (fun pn => qnl_emit values dne (fst pn) (snd pn)) (with_next ps)).
  intros R. cbn [fst snd]. unfold qnl_emit.
  destruct (qnl_valid values dne p (next_same (m_note (p_first p)) ps)) as [|v vs]; [reflexivity|].
  destruct (snd p) as [[i off]|]; reflexivity.
Qed.

Lemma qnl_emit_spec values dne p next i off : nodupb values = true -> snd p = Some (i, off) ->
  let cur := m_time off - m_time (p_first p) in
  let valid := filter (fits dne p next) values in
  (valid = [] -> qnl_emit values dne p next = []) /\
  (valid <> [] -> exists d,
     In d valid /\ (forall x, In x valid -> Z.abs (d - cur) <= Z.abs (x - cur)) /\
     d = closest cur valid /\
     qnl_emit values dne p next = [p_first p; set_time off (m_time (p_first p) + d) (m_tf off)] /\
     (dne = true -> d <= cur)).
Proof.
  intros Hb Hp cur valid. unfold qnl_emit. rewrite qnl_valid_filter by exact Hb. fold valid.
  assert (Hcur : p_off_time p - p_on_time p = cur).
  { unfold p_off_time, p_on_time, p_second. rewrite Hp. reflexivity. }
  rewrite Hcur, Hp. split.
  - intros ->. reflexivity.
  - intros Hne. exists (closest cur valid).
    pose proof (closest_in cur valid Hne) as Hin.
    split; [exact Hin|]. split; [intros x Hx; now apply closest_min|]. split; [reflexivity|]. split.
    + assert (E : forall d, m_time off + (d - cur) = m_time (p_first p) + d) by (intros; unfold cur; ring).
      destruct valid as [|v vs]; [congruence|]. rewrite E. reflexivity.
    + intros Hd. assert (Hall : forall x, In x valid -> x <= cur).
      { intros x Hx. unfold valid in Hx. apply filter_In in Hx. destruct Hx as [_ Hf].
        unfold fits in Hf. apply andb_true_iff in Hf. destruct Hf as [_ Hf]. rewrite Hd in Hf. cbn [negb orb] in Hf.
        apply Z.leb_le in Hf. rewrite Hcur in Hf. exact Hf. }
      now apply Hall.
Qed.

Lemma C06_channel_durations : forall values dne ps, nodupb values = true ->
  qnl_channel values dne ps = flat_map (fun pn => qnl_emit values dne (fst pn) (snd pn)) (with_next ps) /\
  forall p next i off, snd p = Some (i, off) ->
    let cur := m_time off - m_time (p_first p) in
    let valid := qnl_valid values dne p next in
    (valid = [] -> qnl_emit values dne p next = []) /\
    (valid <> [] -> exists d,
       In d values /\ In d valid /\ (forall x, In x valid -> Z.abs (d - cur) <= Z.abs (x - cur)) /\
       qnl_emit values dne p next = [p_first p; set_time off (m_time (p_first p) + d) (m_tf off)] /\
       (dne = true -> d <= cur)).
Proof.
  intros values dne ps Hb. split; [apply qnl_channel_eq|].
  intros p next i off Hp cur valid. unfold valid. rewrite qnl_valid_filter by exact Hb.
  destruct (qnl_emit_spec values dne p next i off Hb Hp) as [H1 H2]. split; [exact H1|].
  intros Hne. destruct (H2 Hne) as (d & Hd & Hmin & _ & He & Hle). exists d.
  split; [apply filter_In in Hd; tauto|]. auto.
Qed.

(* non-vacuity: a channel with two notes of the same pitch; the first may not run into the second *)
Example C06_channel_example :
  let on1 := mk_on 0 60 100 0 false in let off1 := mk_off 0 60 10 false in
  let on2 := mk_on 0 60 100 12 false in let off2 := mk_off 0 60 40 false in
  let ps : list pairing := [((0%nat, on1), Some (Some 1%nat, off1)); ((2%nat, on2), Some (Some 3%nat, off2))] in
  nodupb [6; 12; 24] = true /\
  qnl_channel [6; 12; 24] false ps = [on1; mk_off 0 60 12 false; on2; mk_off 0 60 36 false] /\
  qnl_channel [24; 48] false ps = [on2; mk_off 0 60 36 false].
Proof. vm_compute. repeat split. Qed.

(* ------------------------------------------------------------------ pairings hold note-ons and note-offs only *)
Lemma fold_left_inv {S X} (f : S -> X -> S) (P : S -> Prop) :
  (forall s x, P s -> P (f s x)) -> forall l s, P s -> P (fold_left f l s).
Proof. intros H. induction l; intros s Hs; cbn; auto. Qed.

Lemma tmem_note_types t :
  tmem t NOTE_TYPES = match t with NOTE_ON | NOTE_OFF => true | _ => false end.
Proof. destruct t; reflexivity. Qed.

Definition pair_note (p : pairing) : Prop :=
  m_type (p_first p) = NOTE_ON /\ match snd p with Some (_, off) => m_type off = NOTE_OFF | None => True end.

Lemma set_nth_Forall {A} (P : A -> Prop) (f : A -> A) : (forall x, P x -> P (f x)) ->
  forall n l, Forall P l -> Forall P (set_nth n f l).
Proof.
  intros Hf n l. revert n. induction l as [|x l IH]; intros n H; destruct n; cbn [set_nth]; try exact H;
    inversion H; subst; constructor; auto.
Qed.

Definition st_note (st : list (Z * chst)) : Prop :=
  Forall (fun kv : Z * chst => Forall pair_note (c_pairs (snd kv))) st.

Lemma pair_step_note impute st im : st_note st -> st_note (pair_step NOTE_TYPES impute st im).
Proof.
  intros Hst. destruct im as [i m]. unfold pair_step. rewrite tmem_note_types.
  set (cs := match dget Z.eqb (m_chan m) st with Some c => c | None => mkch [] [] end).
  assert (Hcs : Forall pair_note (c_pairs cs)).
  { unfold cs. destruct (dget Z.eqb (m_chan m) st) as [c|] eqn:G; [|constructor].
    exact (dget_vals Z.eqb (fun v : chst => Forall pair_note (c_pairs v)) _ _ _ Hst G). }
  destruct (m_type m) eqn:T; cbn [negb]; try exact Hst;
    apply (dset_vals Z.eqb (fun v : chst => Forall pair_note (c_pairs v))); try exact Hst.
  - (* NOTE_OFF *)
    destruct (dget Z.eqb (m_note m) (c_open cs)) as [idx|]; [|exact Hcs]. cbn [c_pairs].
    apply set_nth_Forall; [|exact Hcs]. intros p [Hp _]. split; [exact Hp|exact T].
  - (* NOTE_ON *)
    cbn [c_pairs]. apply Forall_app. split.
    + destruct (dget Z.eqb (m_note m) (c_open cs)) as [idx|]; [|exact Hcs].
      destruct impute; [|exact Hcs]. cbn [c_pairs].
      apply set_nth_Forall; [|exact Hcs]. intros p [Hp _]. split; [exact Hp|reflexivity].
    + constructor; [|constructor]. split; [exact T|exact I].
Qed.

Lemma impute_close_note std impute p : pair_note p -> pair_note (impute_close std impute p).
Proof.
  intros [H1 H2]. unfold impute_close. destruct (snd p) eqn:E; [split; [exact H1|now rewrite E]|].
  destruct (impute && is_on (p_first p)); [|split; [exact H1|now rewrite E]].
  split; [exact H1|reflexivity].
Qed.

Lemma pairings_note std impute s :
  Forall (fun kv : Z * list pairing => Forall pair_note (snd kv)) (pairings_sorted NOTE_TYPES std impute s).
Proof.
  unfold pairings_sorted.
  assert (H : st_note (fold_left (pair_step NOTE_TYPES impute) (index_from 0 s) [])).
  { apply fold_left_inv; [intros; now apply pair_step_note|constructor]. }
  revert H. generalize (fold_left (pair_step NOTE_TYPES impute) (index_from 0 s) []). intros st H.
  apply Forall_map. eapply Forall_impl; [|exact H]. intros [ch cs] Hp. cbn [fst snd] in *.
  apply Forall_map. eapply Forall_impl; [|exact Hp]. intros p. apply impute_close_note.
Qed.

Lemma qnl_channel_notes values dne ps : Forall pair_note ps ->
  Forall (fun m => is_note m = true) (qnl_channel values dne ps).
Proof.
  induction ps as [|p ps IH]; intros H; cbn [qnl_channel]; [constructor|].
  inversion H as [|? ? [Hp1 Hp2] Hps]; subst. specialize (IH Hps).
  assert (Hf : is_note (p_first p) = true) by (apply is_note_type; now left).
  destruct (qnl_valid values dne p (next_same (m_note (p_first p)) ps)); [exact IH|].
  destruct (snd p) as [[i off]|].
  - constructor; [exact Hf|]. constructor; [|exact IH]. apply is_note_type. right. exact Hp2.
  - constructor; [exact Hf|exact IH].
Qed.

Lemma filter_none {A} (p : A -> bool) l : Forall (fun x => p x = false) l -> filter p l = [].
Proof. induction 1 as [|x l Hx _ IH]; cbn [filter]; [reflexivity|now rewrite Hx]. Qed.

(* ------------------------------------------------------------------ C06_nonnote *)
Lemma C06_nonnote : forall l values std dne,
  Permutation (filter nonnote (quantise_note_lengths l values std dne)) (filter nonnote (sort_abs l)).
Proof.
  intros l values std dne. unfold quantise_note_lengths.
  rewrite (filter_perm nonnote _ _ (sort_abs_perm _)). rewrite filter_app.
  rewrite filter_none.
  - cbn [app]. change (fun m => negb (is_note m)) with nonnote. rewrite filter_filter.
    erewrite filter_ext; [reflexivity|]. intros x. now destruct (nonnote x).
  - apply Forall_flat_map. eapply Forall_impl; [|apply pairings_note].
    intros [ch ps] Hp. cbn [snd] in *. eapply Forall_impl; [|apply qnl_channel_notes; exact Hp].
    intros m Hm. unfold nonnote. now rewrite Hm.
Qed.
