(* C19 -- streams produced by tokenise (from the fresh tokeniser state) and streams over the vocabulary:
   the get_info clock follows the tokeniser's own clock, annotated times never decrease, and detokenise accepts
   every prefix of a vocabulary stream. *)
From Coq Require Import ZArith List Bool Lia.
From Model Require Import Tok.
From Proofs Require Import C02_proofs C19_proofs.
Open Scope Z_scope.

(* the get_info clock after the tokens emitted so far equals the tokeniser's loop clock, and the side condition of
   C19_monotone_partial holds for them *)
Definition J (c : cfg) (pre : list tok) (s : lstate) : Prop :=
  clock_ok c (istate0 c) (pre ++ l_toks s) = true /\
  bars_exact c (istate0 c) (pre ++ l_toks s) = true /\
  info_run c (pre ++ l_toks s) (istate0 c) = mkis (l_time s) (l_tbar s) (l_total s) (l_rem s).

Lemma J_app : forall c pre s l s',
  J c pre s -> l_toks s' = (l_toks s ++ l)%list ->
  clock_ok c (mkis (l_time s) (l_tbar s) (l_total s) (l_rem s)) l = true ->
  bars_exact c (mkis (l_time s) (l_tbar s) (l_total s) (l_rem s)) l = true ->
  info_run c l (mkis (l_time s) (l_tbar s) (l_total s) (l_rem s)) = mkis (l_time s') (l_tbar s') (l_total s') (l_rem s') ->
  J c pre s'.
Proof.
  intros c pre s l s' (J1 & J3 & J2) Ht Hc Hb Hr. unfold J.
  rewrite Ht, app_assoc, (clock_ok_app c (pre ++ l_toks s) l), (bars_exact_app c (pre ++ l_toks s) l),
    (info_run_app c (pre ++ l_toks s) l), J1, J2, J3, Hc, Hb, Hr. auto.
Qed.

Lemma apply_rest_J : forall c pre fuel s buf s',
  (forall v, In v (c_steps c) -> 0 <= v) ->
  apply_rest fuel c s buf = Ok s' -> J c pre s -> J c pre s'.
Proof.
  intros c pre fuel s buf s' Hpos. revert fuel s buf s'. destruct (c_steps c) as [|st0 sts] eqn:Hs.
  { intros fuel s buf s' H F. destruct (Z_le_gt_dec buf 0) as [Hb|Hb].
    - rewrite apply_rest_eq in H. destruct (buf <=? 0) eqn:E; [inversion H; subst; exact F|apply Z.leb_gt in E; lia].
    - destruct (apply_rest_nosteps c Hs fuel s buf ltac:(lia)) as (e & He). congruence. }
  assert (Hne : c_steps c <> []) by (rewrite Hs; discriminate). rewrite <- Hs in Hpos. clear Hs.
  induction fuel as [|f IH]; intros s buf s' H F; rewrite apply_rest_eq in H;
    (destruct (buf <=? 0); [inversion H; subst; exact F|]); [discriminate|].
  cbv zeta in H.
  destruct (if last_step c <? Z.min buf (l_rem s) then Some (last_step c) else largest_le (c_steps c) (Z.min buf (l_rem s)))
    as [v|] eqn:Ev; [|discriminate].
  assert (Hv : In v (c_steps c)).
  { destruct (last_step c <? Z.min buf (l_rem s)).
    - inversion Ev; subst. apply last_in, Hne.
    - unfold largest_le in Ev. apply last_opt_in in Ev. apply filter_In in Ev as [Ev _]. exact Ev. }
  apply Hpos in Hv. apply IH in H; [exact H|].
  eapply J_app; [exact F|cbn [l_toks]; reflexivity| | |].
  - destruct (l_rem s - v =? 0) eqn:E; cbn [app clock_ok]; unfold info_next; cbn [info_step fst i_rem].
    + apply Z.eqb_eq in E. repeat (apply andb_true_iff; split); try reflexivity; apply Z.leb_le; lia.
    + repeat (apply andb_true_iff; split); try reflexivity; apply Z.leb_le; lia.
  - destruct (l_rem s - v =? 0) eqn:E; cbn [app bars_exact]; unfold info_next; cbn [info_step fst i_rem]; [|reflexivity].
    rewrite E. reflexivity.
  - destruct (l_rem s - v =? 0) eqn:E; unfold info_run; cbn [app fold_left]; unfold info_next;
      cbn [info_step fst i_time i_tbar i_total i_rem l_time l_tbar l_total l_rem]; [|reflexivity].
    apply Z.eqb_eq in E. f_equal; lia.
Qed.

(* the bar capacity announced by the emitted signature token is the one the tokeniser uses *)
Lemma bar_cap_scaled : forall c num den,
  (num * DEFAULT_TS_DEN) mod den = 0 ->
  bar_cap c (num * DEFAULT_TS_DEN / den) DEFAULT_TS_DEN = bar_cap c num den.
Proof.
  intros c num den Hm. unfold bar_cap. set (D := DEFAULT_TS_DEN) in *.
  assert (HD : D <> 0) by (unfold D, DEFAULT_TS_DEN; lia).
  destruct (Z.eq_dec den 0) as [->|Hd].
  - rewrite Zmod_0_r in Hm. rewrite !Zdiv_0_r. rewrite Z.mul_0_r. apply Z.div_0_l, HD.
  - pose proof (Z.div_exact (num * D) den Hd) as [_ Hex]. specialize (Hex Hm).
    set (q := num * D / den) in *.
    rewrite <- (Z.div_mul_cancel_r (c_ppqn c * 4 * num) den D Hd HD).
    assert (X : c_ppqn c * 4 * num * D = c_ppqn c * 4 * q * den)
      by (transitivity (c_ppqn c * 4 * (num * D)); [ring|rewrite Hex; ring]).
    rewrite X.
    rewrite (Z.mul_comm den D). symmetry. apply Z.div_mul_cancel_r; assumption.
Qed.

Lemma info_run_nonclock : forall c l s,
  Forall (fun t => match t with TTrk _ | TVal _ | TVel _ | TNote _ _ _ _ => True | _ => False end) l ->
  info_run c l s = s /\ clock_ok c s l = true /\ bars_exact c s l = true.
Proof.
  intros c l s F; revert s; induction F as [|t l Ht F IH]; intros s; [repeat split; reflexivity|].
  unfold info_run in *; cbn [fold_left clock_ok bars_exact].
  assert (E : info_next c s t = s) by (destruct t; try contradiction; reflexivity).
  rewrite E. destruct (IH s) as (A & B & C). rewrite A, B, C. destruct t; try contradiction; auto.
Qed.

Lemma note_tok_nonclock : forall c s ch pit val vel,
  Forall (fun t => match t with TTrk _ | TVal _ | TVel _ | TNote _ _ _ _ => True | _ => False end)
         (note_tok c s ch pit val vel).
Proof.
  intros. unfold note_tok. rewrite !Forall_app. repeat split;
    try (match goal with |- Forall _ (if ?b then _ else _) => destruct b end); repeat constructor.
Qed.

Lemma tok_event_J : forall c pre shift s e s',
  DEFAULT_TS_NUM = DEFAULT_TS_DEN -> (forall v, In v (c_steps c) -> 0 <= v) ->
  tok_event c shift s e = Ok s' -> J c pre s -> J c pre s'.
Proof.
  intros c pre shift s e s' Hts Hpos H F. unfold tok_event in H.
  set (m := p_first (snd e)) in *.
  destruct (if l_time s =? m_time m + shift then Ok s
            else apply_rest (rest_fuel (m_time m + shift - l_time s)) c s (m_time m + shift - l_time s))
    as [s1|] eqn:E1; cbn [rbind] in H; [|discriminate].
  assert (F1 : J c pre s1).
  { destruct (l_time s =? m_time m + shift); [inversion E1; subst; exact F|].
    eapply apply_rest_J; [exact Hpos|exact E1|exact F]. }
  clear E1 F. destruct (m_type m) eqn:Em; try (inversion H; subst; exact F1).
  - (* TIME_SIGNATURE *)
    destruct (0 <? l_tbar s1) eqn:Eb; [inversion H; subst; exact F1|].
    destruct (m_num m * DEFAULT_TS_DEN mod m_den m =? 0) eqn:Emod; cbn [negb] in H; [apply Z.eqb_eq in Emod|discriminate].
    destruct (negb ((c_tslo c <=? m_num m * DEFAULT_TS_DEN / m_den m) && (m_num m * DEFAULT_TS_DEN / m_den m <=? c_tshi c)));
      [discriminate|].
    inversion H; subst s'; clear H. eapply J_app; [exact F1|cbn [l_toks]; reflexivity|reflexivity|reflexivity|].
    unfold info_run; cbn [fold_left]. unfold info_next; cbn [info_step i_tbar]. rewrite Eb. cbn [fst].
    cbn [l_time l_tbar l_total l_rem i_time]. rewrite Hts, bar_cap_scaled by exact Emod. reflexivity.
  - (* NOTE_ON *)
    destruct (nth_error (c_vbins c) (Z.to_nat (bin_velocity (m_vel m) (c_vbins c)))) as [vel|]; [|discriminate].
    destruct (negb ((c_plo c <=? m_note m) && (m_note m <=? c_phi c))); [discriminate|].
    destruct (negb (memZ (p_off_time (snd e) - m_time m) (c_values c))); [discriminate|].
    inversion H; subst s'; clear H.
    destruct (info_run_nonclock c _ (mkis (l_time s1) (l_tbar s1) (l_total s1) (l_rem s1))
                (note_tok_nonclock c s1 (m_chan m) (m_note m) (p_off_time (snd e) - m_time m) vel)) as (A & B & C).
    eapply J_app; [exact F1|cbn [l_toks]; reflexivity|exact B|exact C|rewrite A; reflexivity].
Qed.

Lemma foldM_tok_event_J : forall c pre shift evs s s',
  DEFAULT_TS_NUM = DEFAULT_TS_DEN -> (forall v, In v (c_steps c) -> 0 <= v) ->
  foldM (tok_event c shift) evs s = Ok s' -> J c pre s -> J c pre s'.
Proof.
  intros c pre shift evs; induction evs as [|e evs IH]; intros s s' Hts Hpos H F; cbn [foldM] in H.
  - inversion H; subst; exact F.
  - destruct (tok_event c shift s e) as [s1|] eqn:E; cbn [rbind] in H; [|discriminate].
    eapply IH; [exact Hts|exact Hpos|exact H|]. eapply tok_event_J; eauto.
Qed.

(* second invariant: the loop's bar capacity is the capacity of its current signature *)
Definition T (c : cfg) (s : lstate) : Prop := l_total s = bar_cap c (l_num s) (l_den s).

Lemma apply_rest_T : forall c fuel s buf s', apply_rest fuel c s buf = Ok s' -> T c s -> T c s'.
Proof.
  intros c fuel; induction fuel as [|f IH]; intros s buf s' H F; rewrite apply_rest_eq in H;
    (destruct (buf <=? 0); [inversion H; subst; exact F|]); [discriminate|].
  cbv zeta in H.
  destruct (if last_step c <? Z.min buf (l_rem s) then Some (last_step c) else largest_le (c_steps c) (Z.min buf (l_rem s)))
    as [v|]; [|discriminate].
  apply IH in H; [exact H|]. exact F.
Qed.

Lemma tok_event_T : forall c shift s e s', tok_event c shift s e = Ok s' -> T c s -> T c s'.
Proof.
  intros c shift s e s' H F. unfold tok_event in H.
  set (m := p_first (snd e)) in *.
  destruct (if l_time s =? m_time m + shift then Ok s
            else apply_rest (rest_fuel (m_time m + shift - l_time s)) c s (m_time m + shift - l_time s))
    as [s1|] eqn:E1; cbn [rbind] in H; [|discriminate].
  assert (F1 : T c s1).
  { destruct (l_time s =? m_time m + shift); [inversion E1; subst; exact F|]. eapply apply_rest_T; eassumption. }
  clear E1 F. destruct (m_type m); try (inversion H; subst; exact F1).
  - destruct (0 <? l_tbar s1); [inversion H; subst; exact F1|].
    destruct (negb (m_num m * DEFAULT_TS_DEN mod m_den m =? 0)); [discriminate|].
    destruct (negb ((c_tslo c <=? m_num m * DEFAULT_TS_DEN / m_den m) && (m_num m * DEFAULT_TS_DEN / m_den m <=? c_tshi c)));
      [discriminate|].
    inversion H; subst s'. reflexivity.
  - destruct (nth_error (c_vbins c) (Z.to_nat (bin_velocity (m_vel m) (c_vbins c)))) as [vel|]; [|discriminate].
    destruct (negb ((c_plo c <=? m_note m) && (m_note m <=? c_phi c))); [discriminate|].
    destruct (negb (memZ (p_off_time (snd e) - m_time m) (c_values c))); [discriminate|].
    inversion H; subst s'. exact F1.
Qed.

Lemma foldM_tok_event_T : forall c shift evs s s', foldM (tok_event c shift) evs s = Ok s' -> T c s -> T c s'.
Proof.
  intros c shift evs; induction evs as [|e evs IH]; intros s s' H F; cbn [foldM] in H.
  - inversion H; subst; exact F.
  - destruct (tok_event c shift s e) as [s1|] eqn:E; cbn [rbind] in H; [|discriminate].
    eapply IH; [exact H|]. eapply tok_event_T; eauto.
Qed.

(* "the tokens emitted so far (pre) and the persistent tokeniser state st are in sync": get_info's clock after pre is
   the tokeniser's clock, and pre satisfies the side condition of C19_monotone_clock_ok *)
Definition synced (c : cfg) (pre : list tok) (st : tstate) : Prop :=
  clock_ok c (istate0 c) pre = true /\ bars_exact c (istate0 c) pre = true /\
  info_run c pre (istate0 c) = mkis (t_time st) (t_tbar st) (bar_cap c (t_num st) (t_den st)) (t_rem st).

Lemma synced_init : forall c, synced c [] (tstate0 c).
Proof. intros c; repeat split; reflexivity. Qed.

(* one tokenise call, from ANY persistent state that is in sync with the tokens emitted before *)
Theorem tokenise_synced : forall c st tracks toks st' pre,
  DEFAULT_TS_NUM = DEFAULT_TS_DEN -> (forall v, In v (c_steps c) -> 0 <= v) ->
  tokenise c st tracks = Ok (toks, st') -> synced c pre st -> synced c (pre ++ toks) st'.
Proof.
  intros c st tracks toks st' pre Hts Hpos H (S1 & S3 & S2). unfold tokenise in H.
  destruct (negb (lenZ tracks =? c_ntracks c)); [discriminate|].
  destruct (tok_frontend tracks) as [evs|]; cbn [rbind] in H; [|discriminate].
  match type of H with (do s1 <- foldM ?f evs ?x; _) = _ =>
    set (s0 := x) in H; destruct (foldM f evs s0) as [s1|] eqn:E1 end;
    cbn [rbind] in H; [|discriminate].
  assert (F0 : J c pre s0) by (unfold J, s0; cbn [l_toks l_time l_tbar l_total l_rem]; rewrite app_nil_r; auto).
  assert (T0 : T c s0) by reflexivity.
  assert (F1 : J c pre s1) by (eapply foldM_tok_event_J; eassumption).
  assert (T1 : T c s1) by (eapply foldM_tok_event_T; eassumption).
  destruct (if (((0 <? l_tbar s1) || l_has s1) && (0 <? l_rem s1))%bool
            then apply_rest (rest_fuel (l_rem s1)) c s1 (l_rem s1) else Ok s1) as [s2|] eqn:E2;
    cbn [rbind] in H; [|discriminate].
  assert (F2 : J c pre s2 /\ T c s2).
  { destruct (((0 <? l_tbar s1) || l_has s1) && (0 <? l_rem s1))%bool; [|inversion E2; subst; auto].
    split; [eapply apply_rest_J; eassumption|eapply apply_rest_T; eassumption]. }
  inversion H; subst. destruct F2 as [(A & A' & B) C]. split; [exact A|]. split; [exact A'|]. rewrite B. unfold T in C.
  cbn [t_time t_tbar t_num t_den t_rem]. rewrite C. reflexivity.
Qed.

(* successive tokenise calls with the persistent state threaded through, outputs concatenated *)
Fixpoint tokenise_many (c : cfg) (st : tstate) (pieces : list (list (list msg))) : result (list tok * tstate) :=
  match pieces with
  | [] => Ok ([], st)
  | p :: ps => do r1 <- tokenise c st p; do r2 <- tokenise_many c (snd r1) ps; Ok ((fst r1 ++ fst r2)%list, snd r2)
  end.

Lemma tokenise_many_synced : forall c pieces st toks st' pre,
  DEFAULT_TS_NUM = DEFAULT_TS_DEN -> (forall v, In v (c_steps c) -> 0 <= v) ->
  tokenise_many c st pieces = Ok (toks, st') -> synced c pre st -> synced c (pre ++ toks) st'.
Proof.
  intros c pieces; induction pieces as [|p ps IH]; intros st toks st' pre Hts Hpos H S; cbn [tokenise_many] in H.
  - inversion H; subst. rewrite app_nil_r. exact S.
  - destruct (tokenise c st p) as [[t1 st1]|] eqn:E1; cbn [rbind fst snd] in H; [|discriminate].
    destruct (tokenise_many c st1 ps) as [[t2 st2]|] eqn:E2; cbn [rbind fst snd] in H; [|discriminate].
    inversion H; subst. rewrite app_assoc. eapply IH; [exact Hts|exact Hpos|exact E2|].
    eapply tokenise_synced; eassumption.
Qed.

Lemma tokenise_many_one : forall c st p, tokenise_many c st [p] = (do r <- tokenise c st p; Ok (fst r, snd r)).
Proof.
  intros c st p. cbn [tokenise_many]. destruct (tokenise c st p) as [[t1 st1]|]; cbn [rbind fst snd]; [|reflexivity].
  rewrite app_nil_r. reflexivity.
Qed.

Theorem tokenise_clock : forall c pieces toks st',
  DEFAULT_TS_NUM = DEFAULT_TS_DEN -> (forall v, In v (c_steps c) -> 0 <= v) ->
  tokenise_many c (tstate0 c) pieces = Ok (toks, st') ->
  clock_ok c (istate0 c) toks = true /\ bars_exact c (istate0 c) toks = true /\
  i_time (info_run c toks (istate0 c)) = t_time st' /\
  i_tbar (info_run c toks (istate0 c)) = t_tbar st' /\
  i_rem (info_run c toks (istate0 c)) = t_rem st'.
Proof.
  intros c pieces toks st' Hts Hpos H.
  destruct (tokenise_many_synced c pieces _ _ _ [] Hts Hpos H (synced_init c)) as (A & A' & B).
  cbn [app] in A, A', B. split; [exact A|]. split; [exact A'|]. rewrite B. cbn. auto.
Qed.

Theorem C19_monotone_many : forall c imp pieces toks st' j k,
  tokenise_many c (tstate0 c) pieces = Ok (toks, st') -> valid_cfg c = true -> DEFAULT_TS_NUM = DEFAULT_TS_DEN ->
  (j <= k)%nat -> (k < length toks)%nat ->
  nth j (f_time (get_info c imp toks)) 0 <= nth k (f_time (get_info c imp toks)) 0.
Proof.
  intros c imp pieces toks st' j k H Hv Hts Hjk Hk. destruct (valid_cfg_P c Hv).
  apply C19_monotone_partial; [|exact Hjk|exact Hk].
  eapply tokenise_clock; [exact Hts| |exact H]. intros v Hin. apply v_steps_pos in Hin. lia.
Qed.

Theorem C19_monotone : forall c imp tracks toks st' j k,
  tokenise c (tstate0 c) tracks = Ok (toks, st') -> valid_cfg c = true -> DEFAULT_TS_NUM = DEFAULT_TS_DEN ->
  (j <= k)%nat -> (k < length toks)%nat ->
  nth j (f_time (get_info c imp toks)) 0 <= nth k (f_time (get_info c imp toks)) 0.
Proof.
  intros c imp tracks toks st' j k H. apply (C19_monotone_many c imp [tracks] toks st' j k).
  rewrite tokenise_many_one, H. reflexivity.
Qed.

(* for tokenise output the clock of get_info IS the tokeniser's clock (time, time in bar, remaining capacity) *)
Theorem C19_tokenise_clock : forall c pieces toks st',
  tokenise_many c (tstate0 c) pieces = Ok (toks, st') -> valid_cfg c = true -> DEFAULT_TS_NUM = DEFAULT_TS_DEN ->
  clock_ok c (istate0 c) toks = true /\ bars_exact c (istate0 c) toks = true /\
  i_time (info_run c toks (istate0 c)) = t_time st' /\
  i_tbar (info_run c toks (istate0 c)) = t_tbar st' /\
  i_rem (info_run c toks (istate0 c)) = t_rem st'.
Proof.
  intros c pieces toks st' H Hv Hts. destruct (valid_cfg_P c Hv).
  eapply tokenise_clock; [exact Hts| |exact H]. intros v Hin. apply v_steps_pos in Hin. lia.
Qed.

(* ------------------------------------------------------------------ streams over the vocabulary *)
Lemma firstn_in : forall {A} k (l : list A) x, In x (firstn k l) -> In x l.
Proof.
  intros A k; induction k as [|k IH]; intros l x H; [destruct H|].
  destruct l as [|y l]; cbn [firstn] in H; [destruct H|].
  destruct H as [H|H]; [left; exact H|right; apply IH; exact H].
Qed.

(* detokenise accepts every prefix of a vocabulary stream, so the detokeniser state of C19_note_time exists *)
Theorem C19_vocab_prefix : forall c ts k,
  valid_cfg c = true -> Forall (fun t => In t (vocab c)) ts ->
  exists sd, foldM (detok_step c) (firstn k ts) (dstate0 c) = Ok sd /\
             (d_time sd, d_tbar sd, d_total sd, d_rem sd) =
             (i_time (info_run c (firstn k ts) (istate0 c)), i_tbar (info_run c (firstn k ts) (istate0 c)),
              i_total (info_run c (firstn k ts) (istate0 c)), i_rem (info_run c (firstn k ts) (istate0 c))).
Proof.
  intros c ts k Hv F. destruct (valid_cfg_P c Hv).
  assert (Fk : Forall (fun t => In t (vocab c)) (firstn k ts)).
  { apply Forall_forall. intros t Ht. rewrite Forall_forall in F. apply F. eapply firstn_in; exact Ht. }
  destruct (foldM_inv (detok_step c) (fun t => In t (vocab c)) (detok_inv c)) with (l := firstn k ts) (b := dstate0 c)
    as (s & E & _).
  - intros b a Pa Ib. apply detok_step_vocab; [apply vocab_iff; exact Pa|exact Ib].
  - exact Fk.
  - apply detok_inv_init; lia.
  - exists s; split; [exact E|]. destruct (detok_clock c _ _ E) as (A1 & A2 & A3 & A4). rewrite A1, A2, A3, A4. reflexivity.
Qed.

(* hence for vocabulary streams the note clause holds with an existing onset state *)
Theorem C19_note_time_vocab : forall c imp ts k trk p v w,
  valid_cfg c = true -> Forall (fun t => In t (vocab c)) ts ->
  nth_error ts k = Some (TNote trk p v w) ->
  exists sd sd' i vel val,
    foldM (detok_step c) (firstn k ts) (dstate0 c) = Ok sd /\
    foldM (detok_step c) (firstn (S k) ts) (dstate0 c) = Ok sd' /\
    nth k (f_time (get_info c imp ts)) 0 = d_time sd /\
    nth k (f_pitch (get_info c imp ts)) None = Some (p, get_position p) /\
    d_seqs sd' = set_nth i (fun a => insort (mk_off 0 p (d_time sd + val) false) (insort (mk_on 0 p vel (d_time sd) false) a))
                         (d_seqs sd) /\
    In (mk_on 0 p vel (d_time sd) false) (nth i (d_seqs sd') []).
Proof.
  intros c imp ts k trk p v w Hv F Hn.
  destruct (C19_vocab_prefix c ts k Hv F) as (sd & E & _).
  destruct (C19_vocab_prefix c ts (S k) Hv F) as (sd' & E' & _).
  destruct (C19_note_time c imp ts k trk p v w sd Hn E) as (T1 & _ & T3 & T4).
  cbv zeta in T1, T4.
  assert (Hstep : detok_step c sd (TNote trk p v w) = Ok sd').
  { rewrite (firstn_snoc _ _ _ Hn), foldM_app, E in E'. cbn [rbind foldM] in E'.
    destruct (detok_step c sd (TNote trk p v w)); cbn [rbind] in E'; [exact E'|discriminate]. }
  destruct (T4 sd' Hstep) as (_ & i & vel & val & S1 & S2 & _).
  exists sd, sd', i, vel, val. rewrite <- T1. repeat split; try assumption; try reflexivity.
Qed.

(* non-vacuity: a real tokenise run *)
Definition ex_tracks : list (list msg) :=
  [[mk_on 0 60 100 0 false; mk_wait 0 12 false; mk_off 0 60 0 false; mk_wait 0 12 false;
    mk_on 0 62 40 0 false; mk_wait 0 24 false; mk_off 0 62 0 false];
   [mk_wait 0 12 false; mk_on 0 61 90 0 false; mk_wait 0 24 false; mk_off 0 61 0 false]].
Example ex_tokenise : exists toks st',
  tokenise ex_cfg (tstate0 ex_cfg) ex_tracks = Ok (toks, st') /\ (length toks = 11)%nat /\ valid_cfg ex_cfg = true.
Proof. vm_compute. eexists; eexists; repeat split; reflexivity. Qed.

(* annotated times CAN decrease on a stream of vocabulary tokens that no tokenise call produces: rests overrunning the
   bar make the remaining capacity negative and the bar token then moves the clock backwards (both in get_info and
   in detokenise, which stay in lock-step) *)
Example monotone_needs_clock_ok :
  let ts := [TRest 24; TRest 24; TRest 24; TRest 24; TRest 24; TBar; TSto] in
  Forall (fun t => In t (vocab ex_cfg)) ts /\ clock_ok ex_cfg (istate0 ex_cfg) ts = false /\
  f_time (get_info ex_cfg false ts) = [0; 24; 48; 72; 96; 120; 96].
Proof.
  cbv zeta. split; [|split; vm_compute; reflexivity].
  repeat (apply Forall_cons; [apply vocab_iff; vm_compute; auto 10|]). apply Forall_nil.
Qed.

Theorem C19_monotone_needs_clock_ok : exists c ts,
  valid_cfg c = true /\ Forall (fun t => In t (vocab c)) ts /\ clock_ok c (istate0 c) ts = false /\
  nth 5 (f_time (get_info c false ts)) 0 = 120 /\ nth 6 (f_time (get_info c false ts)) 0 = 96.
Proof.
  exists ex_cfg, [TRest 24; TRest 24; TRest 24; TRest 24; TRest 24; TBar; TSto].
  destruct monotone_needs_clock_ok as (A & B & C). cbv zeta in A, B, C.
  split; [vm_compute; reflexivity|]. split; [exact A|]. split; [exact B|]. rewrite C. split; reflexivity.
Qed.

Example ex_vocab_stream : valid_cfg ex_cfg = true /\ Forall (fun t => In t (vocab ex_cfg)) ex_toks /\
  nth_error ex_toks 5 = Some (TNote (Some 1) 62 None (Some 48)).
Proof.
  split; [vm_compute; reflexivity|]. split; [|reflexivity].
  repeat (apply Forall_cons; [apply vocab_iff; vm_compute; auto 10|]). apply Forall_nil.
Qed.
Example ex_tokenise_many : exists toks st',
  tokenise_many ex_cfg (tstate0 ex_cfg) [ex_tracks; ex_tracks] = Ok (toks, st') /\ (length toks = 22)%nat /\ t_time st' = 192.
Proof. vm_compute. eexists; eexists; repeat split; reflexivity. Qed.

(* in tokenise output every bar token closes an exactly filled bar, so "the start of the bar" used by C19_tbar is the
   annotated time of the most recent bar token *)
Theorem C19_bar_start_tokenise : forall c imp pieces toks st' k,
  tokenise_many c (tstate0 c) pieces = Ok (toks, st') -> valid_cfg c = true -> DEFAULT_TS_NUM = DEFAULT_TS_DEN ->
  nth_error toks k = Some TBar ->
  bar_start c toks (S k) = nth k (f_time (get_info c imp toks)) 0.
Proof.
  intros c imp pieces toks st' k H Hv Hts Hk.
  destruct (C19_tokenise_clock c pieces toks st' H Hv Hts) as (_ & Hb & _).
  apply C19_bar_start_exact; assumption.
Qed.
