(* C04_sort.v -- sorting lemmas for property C04: `sort_abs` (stable insertion sort by (time, channel, type rank,
   note)) and `insort` (binary_insort by time).  Both are permutations, both produce / keep time-sorted lists,
   sort_abs is idempotent and stable. *)
From Coq Require Import ZArith List Bool Lia Permutation.
From Model Require Import Base Seq.
Import ListNotations.
Open Scope Z_scope.

(* ---------------------------------------------------------------- time-sortedness (boolean, adjacent pairs) *)
Fixpoint tsorted (l : list msg) : bool :=
  match l with
  | [] => true
  | x :: l' => match l' with [] => true | y :: _ => (m_time x <=? m_time y) && tsorted l' end
  end.

(* largest time of a list (0 for the empty list) *)
Definition maxt (l : list msg) : Z := fold_right Z.max 0 (map m_time l).

(* time of the last message, 0 for the empty list: the duration of an absolute list *)
Definition dur_abs (l : list msg) : Z := match last_opt l with Some m => m_time m | None => 0 end.

Lemma tsorted_cons (x y : msg) (l : list msg) :
  tsorted (x :: y :: l) = ((m_time x <=? m_time y) && tsorted (y :: l)).
Proof. reflexivity. Qed.

Lemma tsorted_tail (x : msg) (l : list msg) : tsorted (x :: l) = true -> tsorted l = true.
Proof.
  destruct l as [|y l]; [reflexivity|]. rewrite tsorted_cons. intro H. now apply andb_prop in H.
Qed.

Lemma tsorted_head (x : msg) (l : list msg) :
  tsorted (x :: l) = true -> Forall (fun y => m_time x <= m_time y) l.
Proof.
  revert x. induction l as [|y l IH]; intros x H; [constructor|].
  rewrite tsorted_cons in H. apply andb_prop in H. destruct H as [Hxy Hl]. apply Z.leb_le in Hxy.
  constructor; [exact Hxy|].
  specialize (IH y Hl). eapply Forall_impl; [|exact IH]. cbn beta. intros a Ha. lia.
Qed.

Lemma tsorted_cons_intro (x : msg) (l : list msg) :
  tsorted l = true -> (forall y, hd_error l = Some y -> m_time x <= m_time y) -> tsorted (x :: l) = true.
Proof.
  intros Hl Hh. destruct l as [|y l]; [reflexivity|].
  rewrite tsorted_cons, Hl, andb_true_r. apply Z.leb_le. apply Hh. reflexivity.
Qed.

Lemma tsorted_app (l1 l2 : list msg) :
  tsorted l1 = true -> tsorted l2 = true ->
  (forall x y, In x l1 -> In y l2 -> m_time x <= m_time y) -> tsorted (l1 ++ l2) = true.
Proof.
  induction l1 as [|x l1 IH]; intros H1 H2 Hc; [exact H2|].
  cbn [app]. apply tsorted_cons_intro.
  - apply IH; [eapply tsorted_tail; exact H1|exact H2|]. intros a b Ha Hb. apply Hc; [now right|exact Hb].
  - intros y Hy. destruct l1 as [|z l1].
    + destruct l2 as [|z l2]; [discriminate|]. cbn in Hy. injection Hy as <-. apply Hc; now left.
    + cbn in Hy. injection Hy as <-. rewrite tsorted_cons in H1. apply andb_prop in H1. now apply Z.leb_le.
Qed.

(* ---------------------------------------------------------------- the sort key *)
Lemma key_le_time (a b : msg) : key_le a b = true -> m_time a <= m_time b.
Proof.
  unfold key_le. destruct (m_time a <? m_time b) eqn:E1; [apply Z.ltb_lt in E1; lia|].
  destruct (m_time b <? m_time a) eqn:E2; [discriminate|].
  apply Z.ltb_ge in E1. apply Z.ltb_ge in E2. lia.
Qed.

Lemma key_le_false_time (a b : msg) : key_le a b = false -> m_time b <= m_time a.
Proof.
  unfold key_le. destruct (m_time a <? m_time b) eqn:E1; [discriminate|]. apply Z.ltb_ge in E1. lia.
Qed.

(* the order is total *)
Lemma key_le_total (a b : msg) : key_le a b = false -> key_le b a = true.
Proof.
  unfold key_le.
  destruct (m_time a <? m_time b) eqn:E1; [discriminate|].
  destruct (m_time b <? m_time a) eqn:E2; [reflexivity|].
  destruct (m_chan a <? m_chan b) eqn:E3; [discriminate|].
  destruct (m_chan b <? m_chan a) eqn:E4; [reflexivity|].
  destruct (mtype_rank (m_type a) <? mtype_rank (m_type b)) eqn:E5; [discriminate|].
  destruct (mtype_rank (m_type b) <? mtype_rank (m_type a)) eqn:E6; [reflexivity|].
  intro H. apply Z.leb_gt in H. apply Z.leb_le. lia.
Qed.

(* the four components of the key *)
Definition skey (m : msg) : Z * Z * Z * Z := (m_time m, m_chan m, mtype_rank (m_type m), m_note m).
Definition skey_eqb (k : Z * Z * Z * Z) (m : msg) : bool :=
  let '(t, c, r, n) := k in
  (m_time m =? t) && (m_chan m =? c) && (mtype_rank (m_type m) =? r) && (m_note m =? n).

Lemma skey_eqb_spec (k : Z * Z * Z * Z) (m : msg) : skey_eqb k m = true <-> skey m = k.
Proof.
  destruct k as [[[t c] r] n]. unfold skey_eqb, skey. rewrite !andb_true_iff, !Z.eqb_eq.
  split; [intros [[[-> ->] ->] ->]; reflexivity|intro H; injection H as -> -> -> ->; auto].
Qed.

Lemma key_le_false_neq (a b : msg) : key_le a b = false -> skey a <> skey b.
Proof.
  unfold key_le, skey. intros H E. injection E as E1 E2 E3 E4. rewrite E1, E2, E3, E4 in H.
  rewrite !Z.ltb_irrefl in H. apply Z.leb_gt in H. lia.
Qed.

(* ---------------------------------------------------------------- sort_abs *)
Lemma ins_sorted_perm (x : msg) (l : list msg) : Permutation (x :: l) (ins_sorted x l).
Proof.
  induction l as [|y l IH]; cbn [ins_sorted]; [reflexivity|].
  destruct (key_le x y); [reflexivity|].
  etransitivity; [apply perm_swap|]. now apply perm_skip.
Qed.

Lemma sort_abs_perm (l : list msg) : Permutation l (sort_abs l).
Proof.
  induction l as [|x l IH]; cbn [sort_abs]; [constructor|].
  etransitivity; [apply perm_skip; exact IH|]. apply ins_sorted_perm.
Qed.

Lemma ins_sorted_tsorted (x : msg) (l : list msg) : tsorted l = true -> tsorted (ins_sorted x l) = true.
Proof.
  induction l as [|y l IH]; intro H; cbn [ins_sorted]; [reflexivity|].
  destruct (key_le x y) eqn:E.
  - rewrite tsorted_cons, H, andb_true_r. apply Z.leb_le. now apply key_le_time.
  - apply tsorted_cons_intro; [apply IH; eapply tsorted_tail; exact H|].
    intros z Hz. destruct l as [|w l]; cbn [ins_sorted] in Hz.
    + cbn in Hz. injection Hz as <-. now apply key_le_false_time.
    + destruct (key_le x w); cbn in Hz; injection Hz as <-.
      * now apply key_le_false_time.
      * rewrite tsorted_cons in H. apply andb_prop in H. now apply Z.leb_le.
Qed.

Lemma sort_abs_tsorted (l : list msg) : tsorted (sort_abs l) = true.
Proof. induction l as [|x l IH]; cbn [sort_abs]; [reflexivity|]. now apply ins_sorted_tsorted. Qed.

(* sortedness by the full key *)
Fixpoint ksorted (l : list msg) : bool :=
  match l with
  | [] => true
  | x :: l' => match l' with [] => true | y :: _ => key_le x y && ksorted l' end
  end.

Lemma ins_sorted_ksorted (x : msg) (l : list msg) : ksorted l = true -> ksorted (ins_sorted x l) = true.
Proof.
  induction l as [|y l IH]; intro H; cbn [ins_sorted]; [reflexivity|].
  destruct (key_le x y) eqn:E.
  - change (key_le x y && ksorted (y :: l) = true). now rewrite E, H.
  - assert (Hl : ksorted l = true).
    { destruct l as [|w l]; [reflexivity|]. cbn [ksorted] in H. now apply andb_prop in H. }
    specialize (IH Hl).
    destruct l as [|w l]; cbn [ins_sorted] in *.
    + cbn [ksorted]. now rewrite (key_le_total _ _ E).
    + destruct (key_le x w) eqn:E2.
      * change (key_le y x && ksorted (x :: w :: l) = true). now rewrite (key_le_total _ _ E), IH.
      * change (key_le y w && ksorted (w :: ins_sorted x l) = true).
        cbn [ksorted] in H. apply andb_prop in H. destruct H as [-> _]. exact IH.
Qed.

Lemma sort_abs_ksorted (l : list msg) : ksorted (sort_abs l) = true.
Proof. induction l as [|x l IH]; cbn [sort_abs]; [reflexivity|]. now apply ins_sorted_ksorted. Qed.

Lemma ksorted_tsorted (l : list msg) : ksorted l = true -> tsorted l = true.
Proof.
  induction l as [|x l IH]; [reflexivity|]. destruct l as [|y l]; [reflexivity|].
  cbn [ksorted]. intro H. apply andb_prop in H. destruct H as [H1 H2].
  rewrite tsorted_cons, (IH H2), andb_true_r. apply Z.leb_le. now apply key_le_time.
Qed.

(* a key-sorted list is a fixed point: sort_abs is idempotent *)
Lemma sort_abs_sorted_id (l : list msg) : ksorted l = true -> sort_abs l = l.
Proof.
  induction l as [|x l IH]; intro H; [reflexivity|]. cbn [sort_abs].
  destruct l as [|y l]; [reflexivity|].
  cbn [ksorted] in H. apply andb_prop in H. destruct H as [H1 H2].
  rewrite (IH H2). cbn [ins_sorted]. now rewrite H1.
Qed.

Lemma sort_abs_idem (l : list msg) : sort_abs (sort_abs l) = sort_abs l.
Proof. apply sort_abs_sorted_id, sort_abs_ksorted. Qed.

(* stability: the messages of any one key keep their relative order *)
Lemma ins_sorted_stable (k : Z * Z * Z * Z) (x : msg) (l : list msg) :
  filter (skey_eqb k) (ins_sorted x l) = filter (skey_eqb k) (x :: l).
Proof.
  induction l as [|y l IH]; cbn [ins_sorted]; [reflexivity|].
  destruct (key_le x y) eqn:E; [reflexivity|].
  apply key_le_false_neq in E.
  cbn [filter] in *. rewrite IH.
  destruct (skey_eqb k x) eqn:Ex, (skey_eqb k y) eqn:Ey; try reflexivity.
  apply skey_eqb_spec in Ex, Ey. congruence.
Qed.

Lemma sort_abs_stable (k : Z * Z * Z * Z) (l : list msg) :
  filter (skey_eqb k) (sort_abs l) = filter (skey_eqb k) l.
Proof.
  induction l as [|x l IH]; cbn [sort_abs]; [reflexivity|].
  rewrite ins_sorted_stable. cbn [filter]. now rewrite IH.
Qed.

(* ---------------------------------------------------------------- insort *)
Lemma insort_perm (x : msg) (l : list msg) : Permutation (x :: l) (insort x l).
Proof.
  induction l as [|y l IH]; cbn [insort]; [reflexivity|].
  destruct (m_time x <? m_time y); [reflexivity|].
  etransitivity; [apply perm_swap|]. now apply perm_skip.
Qed.

Lemma insort_tsorted (x : msg) (l : list msg) : tsorted l = true -> tsorted (insort x l) = true.
Proof.
  induction l as [|y l IH]; intro H; cbn [insort]; [reflexivity|].
  destruct (m_time x <? m_time y) eqn:E.
  - apply Z.ltb_lt in E. rewrite tsorted_cons, H, andb_true_r. apply Z.leb_le. lia.
  - apply Z.ltb_ge in E.
    apply tsorted_cons_intro; [apply IH; eapply tsorted_tail; exact H|].
    intros z Hz. destruct l as [|w l]; cbn [insort] in Hz.
    + cbn in Hz. now injection Hz as <-.
    + destruct (m_time x <? m_time w); cbn in Hz; injection Hz as <-; [exact E|].
      rewrite tsorted_cons in H. apply andb_prop in H. now apply Z.leb_le.
Qed.

(* inserting into a time-sorted list an element that is not earlier than any other puts it last *)
Lemma insort_last (x : msg) (l : list msg) :
  Forall (fun y => m_time y <= m_time x) l -> insort x l = l ++ [x].
Proof.
  induction l as [|y l IH]; intro H; cbn [insort]; [reflexivity|].
  inversion H as [|? ? Hy Hl]; subst.
  destruct (m_time x <? m_time y) eqn:E; [apply Z.ltb_lt in E; lia|].
  cbn [app]. now rewrite (IH Hl).
Qed.

Lemma fold_insort_tsorted (ms acc : list msg) :
  tsorted acc = true -> tsorted (fold_left (fun a m => insort m a) ms acc) = true.
Proof.
  revert acc. induction ms as [|m ms IH]; intros acc H; cbn [fold_left]; [exact H|].
  apply IH. now apply insort_tsorted.
Qed.

Lemma fold_insort_perm (ms acc : list msg) :
  Permutation (ms ++ acc) (fold_left (fun a m => insort m a) ms acc).
Proof.
  revert acc. induction ms as [|m ms IH]; intros acc; cbn [fold_left app]; [reflexivity|].
  etransitivity; [|apply IH].
  etransitivity; [apply Permutation_middle|]. apply Permutation_app_head. apply insort_perm.
Qed.

(* ---------------------------------------------------------------- last element / maximum *)
Lemma last_opt_app {A} (l : list A) (x : A) : last_opt (l ++ [x]) = Some x.
Proof.
  induction l as [|y l IH]; [reflexivity|]. cbn [app]. destruct (l ++ [x]) eqn:E.
  - destruct l; discriminate.
  - cbn [last_opt]. cbn [last_opt] in IH. exact IH.
Qed.

Lemma last_opt_cons {A} (x y : A) (l : list A) : last_opt (x :: y :: l) = last_opt (y :: l).
Proof. reflexivity. Qed.

Lemma maxt_cons (x : msg) (l : list msg) : maxt (x :: l) = Z.max (m_time x) (maxt l).
Proof. reflexivity. Qed.

Lemma maxt_perm (l l' : list msg) : Permutation l l' -> maxt l = maxt l'.
Proof.
  induction 1 as [|x l l' _ IH|x y l|l l' l'' _ IH1 _ IH2].
  - reflexivity.
  - rewrite !maxt_cons. now rewrite IH.
  - rewrite !maxt_cons. generalize (maxt l). intro z. lia.
  - congruence.
Qed.

Lemma maxt_ge (l : list msg) : 0 <= maxt l.
Proof. induction l as [|x l IH]; [cbn; lia|]. rewrite maxt_cons. lia. Qed.

(* in a time-sorted list of non-negative times the last time is the largest *)
Lemma dur_abs_maxt (l : list msg) :
  tsorted l = true -> Forall (fun m => 0 <= m_time m) l -> dur_abs l = maxt l.
Proof.
  induction l as [|x l IH]; intros Hs Hn; [reflexivity|].
  inversion Hn as [|? ? Hx Hl]; subst.
  destruct l as [|y l].
  - unfold dur_abs, maxt. cbn. lia.
  - unfold dur_abs in *. rewrite last_opt_cons, (IH (tsorted_tail _ _ Hs) Hl), maxt_cons.
    apply tsorted_head in Hs. inversion Hs as [|? ? Hxy _]; subst. rewrite !maxt_cons. lia.
Qed.

Lemma dur_abs_perm (l l' : list msg) :
  tsorted l = true -> tsorted l' = true -> Forall (fun m => 0 <= m_time m) l -> Permutation l l' ->
  dur_abs l = dur_abs l'.
Proof.
  intros H1 H2 Hn Hp. rewrite (dur_abs_maxt l H1 Hn).
  rewrite (dur_abs_maxt l' H2); [now apply maxt_perm|].
  eapply Permutation_Forall; eassumption.
Qed.
