(* C18, cut-off clause.  The pairing machinery of Model/Pairing.v (per-channel pairing lists, open tables, index based
   updates) is shown to compute, position by position on the sorted list, the simple one-pass function cut_spec. *)
From Coq Require Import ZArith List Bool Lia Arith Permutation.
From Model Require Import Base Seq Pairing.
From Proofs Require Import C18_proofs.
Import ListNotations.
Open Scope Z_scope.

(* ================================================================ generic facts on insertion-ordered dicts *)
Section DictFacts.
  Context {K V : Type} (eqb : K -> K -> bool).
  Hypothesis eqb_eq : forall a b, eqb a b = true <-> a = b.

  Lemma eqb_refl' k : eqb k k = true.
  Proof. now apply eqb_eq. Qed.
  Lemma eqb_false_sym a b : eqb a b = false -> eqb b a = false.
  Proof.
    intros H. destruct (eqb b a) eqn:E; [|reflexivity]. apply eqb_eq in E. subst. now rewrite eqb_refl' in H.
  Qed.

  Lemma dget_dset k k' (v : V) d : dget eqb k' (dset eqb k v d) = if eqb k' k then Some v else dget eqb k' d.
  Proof.
    induction d as [|[k1 v1] d IH]; cbn [dset dget]; [reflexivity|].
    destruct (eqb k k1) eqn:E; cbn [dget].
    - apply eqb_eq in E. subst k1. destruct (eqb k' k); reflexivity.
    - rewrite IH. destruct (eqb k' k1) eqn:E1; [|reflexivity].
      apply eqb_eq in E1. subst k1. now rewrite (eqb_false_sym _ _ E).
  Qed.

  Lemma dget_ddel_other k k' (d : list (K * V)) : eqb k' k = false -> dget eqb k' (ddel eqb k d) = dget eqb k' d.
  Proof.
    intros H. induction d as [|[k1 v1] d IH]; cbn [ddel dget]; [reflexivity|].
    destruct (eqb k k1) eqn:E; cbn [dget].
    - apply eqb_eq in E. subst k1. now rewrite H.
    - now rewrite IH.
  Qed.

  Lemma dget_notin k (d : list (K * V)) : ~ In k (map fst d) -> dget eqb k d = None.
  Proof.
    induction d as [|[k1 v1] d IH]; cbn [map fst In dget]; [reflexivity|]. intros H.
    destruct (eqb k k1) eqn:E; [apply eqb_eq in E; subst; tauto|]. apply IH. tauto.
  Qed.

  Lemma in_keys_ddel x k (d : list (K * V)) : In x (map fst (ddel eqb k d)) -> In x (map fst d).
  Proof.
    induction d as [|[k1 v1] d IH]; cbn [ddel map fst In]; [tauto|].
    destruct (eqb k k1); cbn [map fst In]; [tauto|]. intros [H|H]; auto.
  Qed.

  Lemma nodup_ddel k (d : list (K * V)) : NoDup (map fst d) -> NoDup (map fst (ddel eqb k d)).
  Proof.
    induction d as [|[k1 v1] d IH]; cbn [ddel map fst]; intros H; [constructor|].
    inversion H as [|? ? H1 H2]; subst. destruct (eqb k k1); [exact H2|].
    cbn [map fst]. constructor; [|now apply IH]. intros I. apply in_keys_ddel in I. contradiction.
  Qed.

  Lemma dget_ddel_same k (d : list (K * V)) : NoDup (map fst d) -> dget eqb k (ddel eqb k d) = None.
  Proof.
    induction d as [|[k1 v1] d IH]; cbn [ddel map fst]; intros H; [reflexivity|].
    inversion H as [|? ? H1 H2]; subst. destruct (eqb k k1) eqn:E.
    - apply eqb_eq in E. subst k1. now apply dget_notin.
    - cbn [dget]. rewrite E. now apply IH.
  Qed.

  Lemma in_keys_dset' x k (v : V) d : In x (map fst (dset eqb k v d)) -> x = k \/ In x (map fst d).
  Proof.
    induction d as [|[k1 v1] d IH]; cbn [dset map fst In].
    - intros [H|[]]. now left.
    - destruct (eqb k k1) eqn:E; cbn [map fst In].
      + intros [H|H]; right; auto.
      + intros [H|H]; [right; now left|]. destruct (IH H); auto.
  Qed.

  Lemma nodup_dset' k (v : V) d : NoDup (map fst d) -> NoDup (map fst (dset eqb k v d)).
  Proof.
    induction d as [|[k1 v1] d IH]; cbn [dset map fst]; intros H.
    - constructor; [intros []|constructor].
    - inversion H as [|? ? H1 H2]; subst. destruct (eqb k k1) eqn:E; cbn [map fst].
      + constructor; assumption.
      + constructor; [|now apply IH]. intros I. apply in_keys_dset' in I. destruct I as [I|I]; [|contradiction].
        subst k1. now rewrite eqb_refl' in E.
  Qed.

  (* where dset writes *)
  Lemma dset_split k (v : V) d :
    (exists v0 d1 d2, dget eqb k d = Some v0 /\ d = d1 ++ (k, v0) :: d2 /\ dset eqb k v d = d1 ++ (k, v) :: d2) \/
    (dget eqb k d = None /\ dset eqb k v d = d ++ [(k, v)]).
  Proof.
    induction d as [|[k1 v1] d IH]; cbn [dset dget].
    - right. split; reflexivity.
    - destruct (eqb k k1) eqn:E.
      + apply eqb_eq in E. subst k1. left. exists v1, [], d. repeat split; reflexivity.
      + destruct IH as [(v0 & d1 & d2 & G & E1 & E2)|(G & E2)].
        * left. exists v0, ((k1, v1) :: d1), d2. rewrite G, E2, E1 at 1. repeat split; reflexivity.
        * right. rewrite G, E2. split; reflexivity.
  Qed.
End DictFacts.

(* ================================================================ set_nth *)
Lemma set_nth_split {A} (f : A -> A) : forall n (l : list A) x, nth_error l n = Some x ->
  exists l1 l2, l = l1 ++ x :: l2 /\ length l1 = n /\ set_nth n f l = l1 ++ f x :: l2.
Proof.
  induction n as [|n IH]; intros [|y l] x H; cbn in H; try discriminate.
  - injection H as ->. exists [], l. repeat split; reflexivity.
  - destruct (IH l x H) as (l1 & l2 & E1 & E2 & E3). exists (y :: l1), l2.
    cbn [set_nth app length]. rewrite E3, E2. rewrite E1 at 1. repeat split; reflexivity.
Qed.

Lemma nth_error_set_nth_other {A} (f : A -> A) : forall n n' (l : list A), n' <> n ->
  nth_error (set_nth n f l) n' = nth_error l n'.
Proof.
  induction n as [|n IH]; intros [|n'] [|y l] H; cbn; try reflexivity; try congruence.
  apply IH. congruence.
Qed.

Lemma nth_error_set_nth_fst (c : option nat * msg) : forall n n' (l : list pairing),
  option_map p_first (nth_error (set_nth n (close_with c) l) n') = option_map p_first (nth_error l n').
Proof.
  induction n as [|n IH]; intros [|n'] [|y l]; cbn; try reflexivity. apply IH.
Qed.

Lemma length_set_nth {A} (f : A -> A) : forall n (l : list A), length (set_nth n f l) = length l.
Proof. induction n as [|n IH]; intros [|y l]; cbn; try reflexivity. now rewrite IH. Qed.

(* ================================================================ the specification *)
Definition kof (m : msg) : k2 := (m_chan m, m_note m).
Definition otab : Type := k2 -> option msg.          (* the currently sounding NOTE_ON of each (channel, pitch) *)
Definition upd (o : otab) (k : k2) (v : option msg) : otab := fun k' => if k2_eqb k' k then v else o k'.
Definition onone : otab := fun _ => None.

Definition open_step (o : otab) (m : msg) : otab :=
  if is_on m then upd o (kof m) (Some m) else if is_off m then upd o (kof m) None else o.

(* what cutoff does to one message of the sorted list, given the open table *)
Definition cut_msg (maxlen red : Z) (o : otab) (m : msg) : msg :=
  if is_off m then
    match o (kof m) with
    | Some on => if maxlen <? m_time m - m_time on then set_time m (m_time on + red) (m_tf on) else m
    | None => m
    end
  else m.

Fixpoint cut_spec (maxlen red : Z) (o : otab) (l : list msg) : list msg :=
  match l with
  | [] => []
  | m :: l' => cut_msg maxlen red o m :: cut_spec maxlen red (open_step o m) l'
  end.

Lemma cut_spec_ext maxlen red l : forall o1 o2, (forall k, o1 k = o2 k) -> cut_spec maxlen red o1 l = cut_spec maxlen red o2 l.
Proof.
  induction l as [|m l IH]; intros o1 o2 H; [reflexivity|]. cbn [cut_spec]. f_equal.
  - unfold cut_msg. now rewrite H.
  - apply IH. intros k. unfold open_step, upd. destruct (is_on m); [now destruct (k2_eqb k (kof m))|].
    destruct (is_off m); [now destruct (k2_eqb k (kof m))|apply H].
Qed.

(* ================================================================ abstraction of the pairing state *)
Definition entry : Type := (nat * msg * msg)%type.       (* index of the closing NOTE_OFF, the NOTE_ON, the NOTE_OFF *)
Definition closedp (p : pairing) : list entry :=
  match snd p with Some (Some i, off) => [(i, p_first p, off)] | _ => [] end.
Definition closedc (ps : list pairing) : list entry := flat_map closedp ps.
Definition closed (st : list (Z * chst)) : list entry := flat_map (fun kv => closedc (c_pairs (snd kv))) st.

Definition open_of (cs : chst) (n : Z) : option msg :=
  match dget Z.eqb n (c_open cs) with
  | Some idx => option_map p_first (nth_error (c_pairs cs) idx)
  | None => None
  end.
Definition cs_of (st : list (Z * chst)) (ch : Z) : chst :=
  match dget Z.eqb ch st with Some c => c | None => mkch [] [] end.
Definition abs_open (st : list (Z * chst)) : otab := fun k => open_of (cs_of st (fst k)) (snd k).

Definition WFc (cs : chst) : Prop :=
  NoDup (map fst (c_open cs)) /\
  forall n idx, dget Z.eqb n (c_open cs) = Some idx ->
    exists p, nth_error (c_pairs cs) idx = Some p /\ snd p = None /\ m_note (p_first p) = n.
Definition WF (st : list (Z * chst)) : Prop := forall ch cs, dget Z.eqb ch st = Some cs -> WFc cs.

Lemma WFc_empty : WFc (mkch [] []).
Proof. split; [constructor|]. intros n idx H. discriminate. Qed.
Lemma WF_cs_of st ch : WF st -> WFc (cs_of st ch).
Proof. intros H. unfold cs_of. destruct (dget Z.eqb ch st) eqn:E; [exact (H _ _ E)|exact WFc_empty]. Qed.

Definition chan_step (cs : chst) (i : nat) (m : msg) : chst :=
  match m_type m with
  | NOTE_ON =>
      let cs1 := match dget Z.eqb (m_note m) (c_open cs) with
                 | Some idx => mkch (set_nth idx (close_with (None, mk_off (m_chan m) (m_note m) (m_time m) (m_tf m))) (c_pairs cs))
                                    (ddel Z.eqb (m_note m) (c_open cs))
                 | None => cs
                 end in
      mkch (c_pairs cs1 ++ [((i, m), None)]) (dset Z.eqb (m_note m) (length (c_pairs cs1)) (c_open cs1))
  | NOTE_OFF =>
      match dget Z.eqb (m_note m) (c_open cs) with
      | Some idx => mkch (set_nth idx (close_with (Some i, m)) (c_pairs cs)) (ddel Z.eqb (m_note m) (c_open cs))
      | None => cs
      end
  | _ => mkch (c_pairs cs ++ [((i, m), None)]) (c_open cs)
  end.

Lemma pair_step_eq st i m :
  pair_step NOTE_TYPES true st (i, m) =
  if is_note m then dset Z.eqb (m_chan m) (chan_step (cs_of st (m_chan m)) i m) st else st.
Proof.
  unfold pair_step, chan_step, cs_of, is_note, is_on, is_off, tmem, NOTE_TYPES. cbn [existsb].
  destruct (m_type m); reflexivity.
Qed.

(* ---- closing the pairing at the open index of a pitch *)
Lemma closedc_app a b : closedc (a ++ b) = closedc a ++ closedc b.
Proof. apply flat_map_app. Qed.

Lemma chan_close cs n idx (c : option nat * msg) :
  WFc cs -> dget Z.eqb n (c_open cs) = Some idx ->
  let cs' := mkch (set_nth idx (close_with c) (c_pairs cs)) (ddel Z.eqb n (c_open cs)) in
  WFc cs' /\
  (exists on, open_of cs n = Some on /\
     forall e, In e (closedc (c_pairs cs')) <->
               In e (closedc (c_pairs cs)) \/ In e (match fst c with Some i => [(i, on, snd c)] | None => [] end)) /\
  (forall n', open_of cs' n' = if n' =? n then None else open_of cs n') /\
  length (c_pairs cs') = length (c_pairs cs).
Proof.
  intros [ND W] G cs'. destruct (W n idx G) as (p & Np & Sp & Mp).
  destruct (set_nth_split (close_with c) idx (c_pairs cs) p Np) as (l1 & l2 & E1 & E2 & E3).
  repeat split.
  - cbn [c_open cs']. now apply (nodup_ddel Z.eqb).
  - intros n' idx' G'. cbn [c_open c_pairs cs'] in *.
    destruct (n' =? n) eqn:En.
    + apply Z.eqb_eq in En. subst n'. rewrite (dget_ddel_same Z.eqb Z.eqb_eq n _ ND) in G'. discriminate.
    + rewrite (dget_ddel_other Z.eqb Z.eqb_eq n n' _ En) in G'.
      destruct (W n' idx' G') as (p' & Np' & Sp' & Mp').
      assert (idx' <> idx).
      { intros ->. rewrite Np in Np'. injection Np' as <-. apply Z.eqb_neq in En. congruence. }
      exists p'. rewrite nth_error_set_nth_other by assumption. auto.
  - exists (p_first p). split.
    + unfold open_of. rewrite G, Np. reflexivity.
    + intros e. cbn [c_pairs cs']. rewrite E3. rewrite E1.
      rewrite !closedc_app. change (closedc (?x :: l2)) with (closedp x ++ closedc l2).
      assert (P0 : closedp p = []) by (unfold closedp; now rewrite Sp).
      assert (P1 : closedp (close_with c p) = match fst c with Some i => [(i, p_first p, snd c)] | None => [] end)
        by (destruct c as [[i|] off]; reflexivity).
      rewrite P0, P1, !in_app_iff. cbn [In]. tauto.
  - intros n'. unfold open_of. cbn [c_open c_pairs cs'].
    destruct (n' =? n) eqn:En.
    + apply Z.eqb_eq in En. subst n'. now rewrite (dget_ddel_same Z.eqb Z.eqb_eq n _ ND).
    + rewrite (dget_ddel_other Z.eqb Z.eqb_eq n n' _ En).
      destruct (dget Z.eqb n' (c_open cs)); [|reflexivity]. apply nth_error_set_nth_fst.
  - apply length_set_nth.
Qed.

(* ---- appending the pairing of a new NOTE_ON *)
Lemma chan_append cs i m :
  WFc cs -> dget Z.eqb (m_note m) (c_open cs) = None ->
  let cs' := mkch (c_pairs cs ++ [((i, m), None)]) (dset Z.eqb (m_note m) (length (c_pairs cs)) (c_open cs)) in
  WFc cs' /\
  (forall e, In e (closedc (c_pairs cs')) <-> In e (closedc (c_pairs cs))) /\
  (forall n', open_of cs' n' = if n' =? m_note m then Some m else open_of cs n').
Proof.
  intros [ND W] G cs'. repeat split.
  - cbn [c_open cs']. now apply (nodup_dset' Z.eqb Z.eqb_eq).
  - intros n' idx' G'. cbn [c_open c_pairs cs'] in *. rewrite (dget_dset Z.eqb Z.eqb_eq) in G'.
    destruct (n' =? m_note m) eqn:En.
    + injection G' as <-. apply Z.eqb_eq in En. exists ((i, m), None).
      rewrite nth_error_app2 by lia. rewrite Nat.sub_diag. cbn. auto.
    + destruct (W n' idx' G') as (p' & Np' & Sp' & Mp'). exists p'.
      rewrite nth_error_app1 by (apply nth_error_Some; congruence). auto.
  - cbn [c_pairs cs']. rewrite closedc_app, in_app_iff. cbn. tauto.
  - cbn [c_pairs cs']. rewrite closedc_app, in_app_iff. cbn. tauto.
  - intros n'. unfold open_of. cbn [c_open c_pairs cs']. rewrite (dget_dset Z.eqb Z.eqb_eq).
    destruct (n' =? m_note m) eqn:En.
    + rewrite nth_error_app2 by lia. now rewrite Nat.sub_diag.
    + destruct (dget Z.eqb n' (c_open cs)) as [idx'|] eqn:G'; [|reflexivity].
      destruct (W n' idx' G') as (p' & Np' & _).
      rewrite nth_error_app1 by (apply nth_error_Some; congruence). reflexivity.
Qed.

(* ---- one channel, one message *)
Definition new_entries (o : option msg) (i : nat) (m : msg) : list entry :=
  if is_off m then match o with Some on => [(i, on, m)] | None => [] end else [].

Lemma is_on_type m : is_on m = true -> m_type m = NOTE_ON.
Proof. unfold is_on. destruct (m_type m); cbn; congruence. Qed.
Lemma is_off_type m : is_off m = true -> m_type m = NOTE_OFF.
Proof. unfold is_off. destruct (m_type m); cbn; congruence. Qed.
Lemma on_not_off m : is_on m = true -> is_off m = false.
Proof. unfold is_on, is_off. destruct (m_type m); cbn; congruence. Qed.

Lemma chan_step_spec cs i m : WFc cs -> is_note m = true ->
  let cs' := chan_step cs i m in
  WFc cs' /\
  (forall e, In e (closedc (c_pairs cs')) <-> In e (closedc (c_pairs cs)) \/ In e (new_entries (open_of cs (m_note m)) i m)) /\
  (forall n', open_of cs' n' = if n' =? m_note m then (if is_on m then Some m else None) else open_of cs n').
Proof.
  intros Wc Nt cs'. unfold new_entries. destruct (is_on m) eqn:On.
  - (* NOTE_ON *)
    rewrite (on_not_off m On). subst cs'. unfold chan_step. rewrite (is_on_type m On).
    destruct (dget Z.eqb (m_note m) (c_open cs)) as [idx|] eqn:G.
    + destruct (chan_close cs (m_note m) idx (None, mk_off (m_chan m) (m_note m) (m_time m) (m_tf m)) Wc G)
        as (W1 & (on & _ & C1) & O1 & _).
      set (cs1 := mkch _ _) in *.
      assert (G1 : dget Z.eqb (m_note m) (c_open cs1) = None).
      { cbn [c_open cs1]. apply (dget_ddel_same Z.eqb Z.eqb_eq). apply Wc. }
      destruct (chan_append cs1 i m W1 G1) as (W2 & C2 & O2).
      split; [exact W2|]. split.
      * intros e. rewrite C2, C1. cbn [fst In]. tauto.
      * intros n'. rewrite O2, O1. destruct (n' =? m_note m); reflexivity.
    + destruct (chan_append cs i m Wc G) as (W2 & C2 & O2).
      split; [exact W2|]. split; [|exact O2].
      intros e. rewrite C2. cbn [In]. tauto.
  - (* NOTE_OFF *)
    assert (Off : is_off m = true) by (unfold is_note in Nt; now rewrite On in Nt).
    rewrite Off. subst cs'. unfold chan_step. rewrite (is_off_type m Off).
    destruct (dget Z.eqb (m_note m) (c_open cs)) as [idx|] eqn:G.
    + destruct (chan_close cs (m_note m) idx (Some i, m) Wc G) as (W1 & (on & Oo & C1) & O1 & _).
      split; [exact W1|]. split; [|exact O1].
      intros e. rewrite C1, Oo. cbn [fst snd]. tauto.
    + split; [exact Wc|]. split.
      * intros e. unfold open_of. rewrite G. cbn [In]. tauto.
      * intros n'. destruct (n' =? m_note m) eqn:En; [|reflexivity].
        apply Z.eqb_eq in En. subst n'. unfold open_of. now rewrite G.
Qed.

(* ================================================================ the whole state, one message *)
Lemma closed_app a b : closed (a ++ b) = closed a ++ closed b.
Proof. apply flat_map_app. Qed.

Lemma closed_dset st ch cs' (E : list entry) :
  (forall e, In e (closedc (c_pairs cs')) <-> In e (closedc (c_pairs (cs_of st ch))) \/ In e E) ->
  forall e, In e (closed (dset Z.eqb ch cs' st)) <-> In e (closed st) \/ In e E.
Proof.
  intros H e. unfold cs_of in H.
  destruct (dset_split Z.eqb Z.eqb_eq ch cs' st) as [(v0 & d1 & d2 & G & E1 & E2)|(G & E2)]; rewrite G in H.
  - rewrite E2. rewrite E1. rewrite !closed_app. change (closed (?x :: d2)) with (closedc (c_pairs (snd x)) ++ closed d2).
    cbn [snd]. rewrite !in_app_iff, H. tauto.
  - rewrite E2, closed_app, in_app_iff. cbn [closed flat_map snd]. rewrite app_nil_r, H. cbn. tauto.
Qed.

Lemma cs_of_dset st ch cs' c : cs_of (dset Z.eqb ch cs' st) c = if c =? ch then cs' else cs_of st c.
Proof. unfold cs_of. rewrite (dget_dset Z.eqb Z.eqb_eq). destruct (c =? ch); reflexivity. Qed.

Lemma WF_dset st ch cs' : WF st -> WFc cs' -> WF (dset Z.eqb ch cs' st).
Proof.
  intros W Wc c cs G. rewrite (dget_dset Z.eqb Z.eqb_eq) in G. destruct (c =? ch).
  - injection G as <-. exact Wc.
  - exact (W _ _ G).
Qed.

Lemma k2_eqb_split (a b : k2) : k2_eqb a b = (fst a =? fst b) && (snd a =? snd b).
Proof. reflexivity. Qed.

Lemma step_abs st i m : WF st ->
  let st' := pair_step NOTE_TYPES true st (i, m) in
  WF st' /\
  (forall k, abs_open st' k = open_step (abs_open st) m k) /\
  (forall e, In e (closed st') <-> In e (closed st) \/ In e (new_entries (abs_open st (kof m)) i m)).
Proof.
  intros W st'. subst st'. rewrite pair_step_eq. destruct (is_note m) eqn:Nt.
  - destruct (chan_step_spec (cs_of st (m_chan m)) i m (WF_cs_of st _ W) Nt) as (W1 & C1 & O1).
    split; [now apply WF_dset|]. split.
    + intros [c n]. unfold abs_open at 1. cbn [fst snd]. rewrite cs_of_dset. unfold open_step.
      destruct (is_on m) eqn:On.
      * unfold upd. rewrite k2_eqb_split. unfold kof, abs_open. cbn [fst snd].
        destruct (c =? m_chan m) eqn:Ec; cbn [andb]; [|reflexivity].
        apply Z.eqb_eq in Ec. subst c. rewrite O1. destruct (n =? m_note m); reflexivity.
      * assert (Off : is_off m = true) by (unfold is_note in Nt; now rewrite On in Nt). rewrite Off.
        unfold upd. rewrite k2_eqb_split. unfold kof, abs_open. cbn [fst snd].
        destruct (c =? m_chan m) eqn:Ec; cbn [andb]; [|reflexivity].
        apply Z.eqb_eq in Ec. subst c. rewrite O1. destruct (n =? m_note m); reflexivity.
    + apply closed_dset. exact C1.
  - split; [exact W|]. unfold is_note in Nt. apply orb_false_iff in Nt. destruct Nt as [On Off]. split.
    + intros k. unfold open_step. now rewrite On, Off.
    + intros e. unfold new_entries. rewrite Off. cbn [In]. tauto.
Qed.

(* ================================================================ the whole fold *)
Definition pstep := pair_step NOTE_TYPES true.

Lemma fold_closed rest : forall n st, WF st ->
  let stF := fold_left pstep (index_from n rest) st in
  WF stF /\
  (forall e, In e (closed st) -> In e (closed stF)) /\
  (forall i a b, In (i, a, b) (closed stF) -> In (i, a, b) (closed st) \/ (n <= i)%nat).
Proof.
  induction rest as [|m rest IH]; intros n st W; cbn [index_from fold_left].
  - split; [exact W|]. split; [intros e I; exact I|]. intros i a b I. now left.
  - destruct (step_abs st n m W) as (W1 & _ & C1). fold pstep in W1, C1.
    destruct (IH (S n) (pstep st (n, m)) W1) as (W2 & M2 & B2).
    split; [exact W2|]. split.
    + intros e I. apply M2, C1. now left.
    + intros i a b I. destruct (B2 i a b I) as [I2|I2]; [|right; lia].
      apply C1 in I2. destruct I2 as [I2|I2]; [now left|]. right.
      unfold new_entries in I2. destruct (is_off m); [|destruct I2].
      destruct (abs_open st (kof m)); [|destruct I2]. destruct I2 as [I2|[]]. injection I2 as <- _ _. lia.
Qed.

(* ================================================================ the update list *)
Definition long (maxlen : Z) (on off : msg) : bool := maxlen <? m_time off - m_time on.
Definition upd_of (red : Z) (on : msg) : Z * bool := (m_time on + red, m_tf on).

Lemma in_updates maxlen red st i v :
  In (i, v) (cutoff_updates maxlen red (map (fun kv => (fst kv, map (impute_close PPQN true) (c_pairs (snd kv)))) st)) <->
  exists on off, In (i, on, off) (closed st) /\ long maxlen on off = true /\ v = upd_of red on.
Proof.
  unfold cutoff_updates, closed, closedc. rewrite in_flat_map. split.
  - intros (kv & Ikv & I). apply in_map_iff in Ikv. destruct Ikv as (kv0 & <- & Ikv0). cbn [snd] in I.
    apply in_flat_map in I. destruct I as (p & Ip & I). apply in_map_iff in Ip. destruct Ip as (p0 & <- & Ip0).
    unfold impute_close in I. destruct (snd p0) as [[[j|] off]|] eqn:Sp.
    + rewrite Sp in I. destruct (maxlen <? m_time off - m_time (p_first p0)) eqn:L; [|destruct I].
      destruct I as [I|[]]. injection I as <- <-. exists (p_first p0), off. split; [|split; [exact L|reflexivity]].
      apply in_flat_map. exists kv0. split; [exact Ikv0|]. apply in_flat_map. exists p0. split; [exact Ip0|].
      unfold closedp. rewrite Sp. now left.
    + rewrite Sp in I. destruct I.
    + destruct (true && is_on (p_first p0)); cbn [snd] in I; [destruct I|]. rewrite Sp in I. destruct I.
  - intros (on & off & I & L & ->). apply in_flat_map in I. destruct I as (kv0 & Ikv0 & I).
    apply in_flat_map in I. destruct I as (p0 & Ip0 & I). unfold closedp in I.
    destruct (snd p0) as [[[j|] off0]|] eqn:Sp; [|destruct I|destruct I]. destruct I as [I|[]]. injection I as -> <- ->.
    exists (fst kv0, map (impute_close PPQN true) (c_pairs (snd kv0))). split.
    + apply in_map_iff. exists kv0. split; [reflexivity|exact Ikv0].
    + cbn [snd]. apply in_flat_map. exists p0. split.
      * apply in_map_iff. exists p0. split; [|exact Ip0]. unfold impute_close. now rewrite Sp.
      * rewrite Sp. unfold long in L. rewrite L. now left.
Qed.

Lemma lookup_nat_some {V} i (l : list (nat * V)) v : lookup_nat i l = Some v -> In (i, v) l.
Proof.
  induction l as [|[j w] l IH]; cbn [lookup_nat]; [discriminate|].
  destruct (Nat.eqb i j) eqn:E.
  - apply Nat.eqb_eq in E. subst j. intros H. injection H as ->. now left.
  - intros H. right. now apply IH.
Qed.
Lemma lookup_nat_none {V} i (l : list (nat * V)) : lookup_nat i l = None -> forall v, ~ In (i, v) l.
Proof.
  induction l as [|[j w] l IH]; cbn [lookup_nat]; [intros _ v []|].
  destruct (Nat.eqb i j) eqn:E; [discriminate|]. apply Nat.eqb_neq in E.
  intros H v [I|I]; [injection I as -> _; congruence|]. exact (IH H v I).
Qed.

(* ================================================================ main simulation *)
Section Main.
  Variables (maxlen red : Z) (ups : list (nat * (Z * bool))).
  Definition apply_ups (im : nat * msg) : msg :=
    match lookup_nat (fst im) ups with Some (t, f) => set_time (snd im) t f | None => snd im end.

  Lemma main_sim rest : forall n st, WF st ->
    (forall i a b, In (i, a, b) (closed st) -> (i < n)%nat) ->
    (forall i v, In (i, v) ups <->
       exists on off, In (i, on, off) (closed (fold_left pstep (index_from n rest) st)) /\
                      long maxlen on off = true /\ v = upd_of red on) ->
    map apply_ups (index_from n rest) = cut_spec maxlen red (abs_open st) rest.
  Proof.
    induction rest as [|m rest IH]; intros n st W Lt U; [reflexivity|].
    cbn [index_from map cut_spec]. cbn [index_from fold_left] in U.
    destruct (step_abs st n m W) as (W1 & O1 & C1). fold pstep in W1, O1, C1.
    destruct (fold_closed rest (S n) (pstep st (n, m)) W1) as (_ & M2 & B2).
    set (stF := fold_left pstep (index_from (S n) rest) (pstep st (n, m))) in *.
    (* entries with index n in the final state are exactly the new entries of this step *)
    assert (En : forall a b, In (n, a, b) (closed stF) <-> In (n, a, b) (new_entries (abs_open st (kof m)) n m)).
    { intros a b. split.
      - intros I. destruct (B2 n a b I) as [I2|I2]; [|lia]. apply C1 in I2. destruct I2 as [I2|I2]; [|exact I2].
        apply Lt in I2. lia.
      - intros I. apply M2, C1. now right. }
    f_equal.
    - (* this message *)
      unfold apply_ups, cut_msg. cbn [fst snd]. unfold new_entries in En.
      destruct (lookup_nat n ups) as [[t f]|] eqn:Lk.
      + apply lookup_nat_some in Lk. apply U in Lk. destruct Lk as (on & off & I & L & Ev).
        apply En in I. destruct (is_off m); [|destruct I].
        destruct (abs_open st (kof m)) as [on'|]; [|destruct I]. destruct I as [I|[]]. injection I as <- <-.
        unfold long in L. rewrite L. unfold upd_of in Ev. now injection Ev as -> ->.
      + pose proof (lookup_nat_none _ _ Lk) as Nn. destruct (is_off m); [|reflexivity].
        destruct (abs_open st (kof m)) as [on|]; [|reflexivity].
        destruct (maxlen <? m_time m - m_time on) eqn:L; [|reflexivity]. exfalso.
        apply (Nn (upd_of red on)), U. exists on, m. split; [|split; [exact L|reflexivity]].
        apply En. now left.
    - (* the rest *)
      rewrite (cut_spec_ext maxlen red rest (open_step (abs_open st) m) (abs_open (pstep st (n, m)))) by (intros k; now rewrite O1).
      apply IH; [exact W1| |exact U].
      intros i a b I. apply C1 in I. destruct I as [I|I]; [apply Lt in I; lia|].
      unfold new_entries in I. destruct (is_off m); [|destruct I].
      destruct (abs_open st (kof m)); [|destruct I]. destruct I as [I|[]]. injection I as <- _ _. lia.
  Qed.
End Main.

Lemma WF_nil : WF [].
Proof. intros ch cs H. discriminate. Qed.

(* the list handed to the final sort *)
Theorem cutoff_spec (l : list msg) (maxlen red : Z) :
  cutoff l maxlen red = sort_abs (cut_spec maxlen red onone (sort_abs l)).
Proof.
  unfold cutoff. f_equal. unfold pairings_sorted.
  set (ups := cutoff_updates _ _ _).
  change (map (apply_ups ups) (index_from 0 (sort_abs l)) = cut_spec maxlen red onone (sort_abs l)).
  rewrite (cut_spec_ext maxlen red (sort_abs l) onone (abs_open [])) by reflexivity.
  apply main_sim; [exact WF_nil|intros i a b []|].
  intros i v. subst ups. apply in_updates.
Qed.

(* ================================================================ the final sort: order facts *)
Definition lexle (a b : msg) : Prop :=
  m_time a < m_time b \/ (m_time a = m_time b /\
  (m_chan a < m_chan b \/ (m_chan a = m_chan b /\
  (mtype_rank (m_type a) < mtype_rank (m_type b) \/ (mtype_rank (m_type a) = mtype_rank (m_type b) /\
   m_note a <= m_note b))))).

Lemma key_le_spec a b : key_le a b = true <-> lexle a b.
Proof.
  unfold key_le, lexle.
  destruct (m_time a <? m_time b) eqn:E1; [apply Z.ltb_lt in E1; split; [lia|reflexivity]|apply Z.ltb_ge in E1].
  destruct (m_time b <? m_time a) eqn:E2; [apply Z.ltb_lt in E2; split; [discriminate|lia]|apply Z.ltb_ge in E2].
  destruct (m_chan a <? m_chan b) eqn:E3; [apply Z.ltb_lt in E3; split; [lia|reflexivity]|apply Z.ltb_ge in E3].
  destruct (m_chan b <? m_chan a) eqn:E4; [apply Z.ltb_lt in E4; split; [discriminate|lia]|apply Z.ltb_ge in E4].
  destruct (mtype_rank (m_type a) <? mtype_rank (m_type b)) eqn:E5;
    [apply Z.ltb_lt in E5; split; [lia|reflexivity]|apply Z.ltb_ge in E5].
  destruct (mtype_rank (m_type b) <? mtype_rank (m_type a)) eqn:E6;
    [apply Z.ltb_lt in E6; split; [discriminate|lia]|apply Z.ltb_ge in E6].
  rewrite Z.leb_le. lia.
Qed.

Lemma key_le_trans a b c : key_le a b = true -> key_le b c = true -> key_le a c = true.
Proof. rewrite !key_le_spec. unfold lexle. lia. Qed.
Lemma key_le_time_lt a b : m_time a < m_time b -> key_le a b = true.
Proof. intros H. apply key_le_spec. now left. Qed.
Lemma key_le_time_le a b : key_le a b = true -> m_time a <= m_time b.
Proof. rewrite key_le_spec. unfold lexle. lia. Qed.

(* strongly sorted *)
Fixpoint ssorted (l : list msg) : Prop :=
  match l with [] => True | a :: t => (forall b, In b t -> key_le a b = true) /\ ssorted t end.

Lemma ins_sorted_in x l y : In y (ins_sorted x l) <-> y = x \/ In y l.
Proof.
  induction l as [|z l IH]; cbn [ins_sorted In]; [intuition|].
  destruct (key_le x z); cbn [In]; [intuition|]. rewrite IH. intuition.
Qed.

Lemma key_le_total a b : key_le a b = false -> key_le b a = true.
Proof.
  intros H. apply key_le_spec. destruct (key_le b a) eqn:E; [now apply key_le_spec|].
  exfalso. assert (~ lexle a b) by (rewrite <- key_le_spec; congruence).
  assert (~ lexle b a) by (rewrite <- key_le_spec; congruence). unfold lexle in *. lia.
Qed.

Lemma ssorted_ins x l : ssorted l -> ssorted (ins_sorted x l).
Proof.
  induction l as [|z l IH]; cbn [ins_sorted ssorted]; [intros _; split; [intros b []|exact I]|].
  intros [Hz Hl]. destruct (key_le x z) eqn:E.
  - cbn [ssorted]. split; [|split; assumption].
    intros b [<-|Ib]; [exact E|]. apply (key_le_trans x z b E). now apply Hz.
  - cbn [ssorted]. split; [|now apply IH].
    intros b Ib. apply ins_sorted_in in Ib. destruct Ib as [->|Ib]; [now apply key_le_total|now apply Hz].
Qed.

Lemma ssorted_sort l : ssorted (sort_abs l).
Proof. induction l as [|x l IH]; cbn [sort_abs]; [exact I|]. now apply ssorted_ins. Qed.

Lemma ssorted_filter p l : ssorted l -> ssorted (filter p l).
Proof.
  induction l as [|x l IH]; cbn [filter ssorted]; [auto|]. intros [Hx Hl].
  destruct (p x); [|now apply IH]. cbn [ssorted]. split; [|now apply IH].
  intros b Ib. apply filter_In in Ib. apply Hx. tauto.
Qed.

Lemma ins_sorted_head x l : (forall z, In z l -> key_le x z = true) -> ins_sorted x l = x :: l.
Proof. destruct l as [|y l]; [reflexivity|]. intros H. cbn [ins_sorted]. now rewrite (H y (or_introl eq_refl)). Qed.

Lemma sort_sorted_id l : ssorted l -> sort_abs l = l.
Proof.
  induction l as [|x l IH]; [reflexivity|]. cbn [ssorted sort_abs]. intros [Hx Hl].
  rewrite (IH Hl). now apply ins_sorted_head.
Qed.

Lemma filter_ins_sorted p x l : ssorted l ->
  filter p (ins_sorted x l) = if p x then ins_sorted x (filter p l) else filter p l.
Proof.
  induction l as [|y l IH]; cbn [ins_sorted filter ssorted].
  - intros _. destruct (p x); reflexivity.
  - intros [Hy Hl]. destruct (key_le x y) eqn:E.
    + cbn [filter]. destruct (p x); [|reflexivity]. symmetry. apply ins_sorted_head.
      intros z Iz. destruct (p y).
      * destruct Iz as [<-|Iz]; [exact E|]. apply filter_In in Iz. apply (key_le_trans x y z E), Hy. tauto.
      * apply filter_In in Iz. apply (key_le_trans x y z E), Hy. tauto.
    + cbn [filter]. rewrite (IH Hl). destruct (p x), (p y); try reflexivity.
      cbn [ins_sorted]. now rewrite E.
Qed.

Lemma filter_sort p l : filter p (sort_abs l) = sort_abs (filter p l).
Proof.
  induction l as [|x l IH]; [reflexivity|]. cbn [sort_abs filter].
  rewrite filter_ins_sorted by apply ssorted_sort. rewrite IH. destruct (p x); reflexivity.
Qed.

(* ================================================================ one (channel, pitch) at a time *)
Definition sel (k : k2) (m : msg) : bool := is_note m && k2_eqb k (kof m).
Definition N (k : k2) (l : list msg) : list msg := filter (sel k) l.

(* cut_spec restricted to the messages of one key: o = the currently open NOTE_ON of that key *)
Definition cut1 (maxlen red : Z) (o : option msg) (m : msg) : msg :=
  if is_off m then
    match o with
    | Some on => if maxlen <? m_time m - m_time on then set_time m (m_time on + red) (m_tf on) else m
    | None => m
    end
  else m.
(* (the lists this is applied to hold NOTE_ON / NOTE_OFF messages only) *)
Definition next1 (o : option msg) (m : msg) : option msg := if is_on m then Some m else None.
Fixpoint cut_key (maxlen red : Z) (o : option msg) (L : list msg) : list msg :=
  match L with [] => [] | m :: L' => cut1 maxlen red o m :: cut_key maxlen red (next1 o m) L' end.

Lemma k2_eqb_refl k : k2_eqb k k = true.
Proof. unfold k2_eqb. now rewrite !Z.eqb_refl. Qed.
Lemma k2_eqb_true a b : k2_eqb a b = true -> a = b.
Proof.
  unfold k2_eqb. intros H. apply andb_prop in H. destruct H as [H1 H2].
  apply Z.eqb_eq in H1, H2. destruct a, b. cbn in *. congruence.
Qed.

Lemma cut_msg_fields maxlen red o m :
  is_on (cut_msg maxlen red o m) = is_on m /\ is_off (cut_msg maxlen red o m) = is_off m /\
  kof (cut_msg maxlen red o m) = kof m.
Proof.
  unfold cut_msg. destruct (is_off m) eqn:Off; [|repeat split; exact Off].
  destruct (o (kof m)); [|repeat split; exact Off].
  destruct (_ <? _); repeat split; exact Off.
Qed.

Lemma sel_cut_msg maxlen red o k m : sel k (cut_msg maxlen red o m) = sel k m.
Proof.
  destruct (cut_msg_fields maxlen red o m) as (E1 & E2 & E3). unfold sel, is_note. now rewrite E1, E2, E3.
Qed.

Lemma N_cut_spec maxlen red k s : forall o,
  N k (cut_spec maxlen red o s) = cut_key maxlen red (o k) (N k s).
Proof.
  induction s as [|m s IH]; intros o; [reflexivity|].
  cbn [cut_spec N filter]. rewrite sel_cut_msg. fold (N k (cut_spec maxlen red (open_step o m) s)). fold (N k s).
  rewrite IH. destruct (sel k m) eqn:S.
  - unfold sel in S. apply andb_prop in S. destruct S as [Nt Ek]. apply k2_eqb_true in Ek. subst k.
    cbn [cut_key]. f_equal. f_equal. unfold open_step, next1, upd.
    destruct (is_on m) eqn:On; [now rewrite k2_eqb_refl|].
    assert (Off : is_off m = true) by (unfold is_note in Nt; now rewrite On in Nt).
    now rewrite Off, k2_eqb_refl.
  - f_equal. unfold open_step, upd. unfold sel in S.
    destruct (is_on m) eqn:On.
    + unfold is_note in S. rewrite On in S. cbn [orb andb] in S. now rewrite S.
    + destruct (is_off m) eqn:Off; [|reflexivity].
      unfold is_note in S. rewrite On, Off in S. cbn [orb andb] in S. now rewrite S.
Qed.

Lemma filter_cut_spec_other maxlen red (q : msg -> bool) s :
  (forall m, q m = true -> is_off m = false) ->
  (forall o m, q (cut_msg maxlen red o m) = q m) ->
  forall o, filter q (cut_spec maxlen red o s) = filter q s.
Proof.
  intros Q1 Q2. induction s as [|m s IH]; intros o; [reflexivity|].
  cbn [cut_spec filter]. rewrite Q2, IH. destruct (q m) eqn:E; [|reflexivity].
  f_equal. unfold cut_msg. now rewrite (Q1 m E).
Qed.

(* ---- the shortened per-key list is still sorted *)
Section Sorted.
  Variables maxlen red : Z.
  Hypothesis red_pos : 0 < red.
  Hypothesis red_le : red <= maxlen.

  Lemma cut_key_bound x L : forall o,
    (forall z, In z L -> key_le x z = true) ->
    (forall on, o = Some on -> m_time x <= m_time on) ->
    forall z', In z' (cut_key maxlen red o L) -> key_le x z' = true.
  Proof.
    induction L as [|a L IH]; intros o HL Ho z' Iz; [destruct Iz|].
    cbn [cut_key In] in Iz. destruct Iz as [<-|Iz].
    - unfold cut1. destruct (is_off a); [|apply HL; now left].
      destruct o as [on|]; [|apply HL; now left].
      destruct (maxlen <? m_time a - m_time on); [|apply HL; now left].
      apply key_le_time_lt. cbn [m_time set_time]. specialize (Ho on eq_refl). lia.
    - apply (IH (next1 o a)); [intros z Hz; apply HL; now right| |exact Iz].
      intros on. unfold next1. destruct (is_on a).
      + intros H. injection H as <-. apply key_le_time_le, HL. now left.
      + discriminate.
  Qed.

  Lemma cut_key_sorted L : forall o, ssorted L -> ssorted (cut_key maxlen red o L).
  Proof.
    induction L as [|a L IH]; intros o; [auto|]. cbn [ssorted cut_key]. intros [Ha HL].
    split; [|now apply IH].
    assert (Ta : m_time (cut1 maxlen red o a) <= m_time a).
    { unfold cut1. destruct (is_off a); [|lia]. destruct o as [on|]; [|lia].
      destruct (maxlen <? m_time a - m_time on) eqn:E; [|lia]. apply Z.ltb_lt in E. cbn [m_time set_time]. lia. }
    apply (cut_key_bound (cut1 maxlen red o a) L (next1 o a)).
    - intros z Iz. specialize (Ha z Iz).
      unfold cut1 in *. destruct (is_off a); [|exact Ha]. destruct o as [on|]; [|exact Ha].
      destruct (maxlen <? m_time a - m_time on) eqn:E; [|exact Ha]. apply Z.ltb_lt in E.
      apply key_le_time_lt. apply key_le_time_le in Ha. cbn [m_time set_time]. lia.
    - intros on. unfold next1. destruct (is_on a) eqn:On.
      + intros H. injection H as <-. unfold cut1. unfold is_on, is_off in *.
        destruct (m_type a); cbn in *; try discriminate; lia.
      + discriminate.
  Qed.
End Sorted.

(* ================================================================ notes of one key, by the library's matching rule *)
(* (onset, duration, velocity) of every closed note: a NOTE_OFF closes the latest NOTE_ON still open *)
Fixpoint notes1 (o : option msg) (L : list msg) : list (Z * Z * Z) :=
  match L with
  | [] => []
  | m :: L' =>
      if is_on m then notes1 (Some m) L'
      else if is_off m then
        match o with
        | Some on => (m_time on, m_time m - m_time on, m_vel on) :: notes1 None L'
        | None => notes1 None L'
        end
      else notes1 None L'
  end.
Definition shorten (maxlen red : Z) (n : Z * Z * Z) : Z * Z * Z :=
  let '(t, d, v) := n in (t, if maxlen <? d then red else d, v).

Lemma notes1_cut_key maxlen red L : forall o,
  notes1 o (cut_key maxlen red o L) = map (shorten maxlen red) (notes1 o L).
Proof.
  induction L as [|m L IH]; intros o; [reflexivity|]. cbn [cut_key notes1].
  assert (E : is_on (cut1 maxlen red o m) = is_on m /\ is_off (cut1 maxlen red o m) = is_off m).
  { unfold cut1. destruct (is_off m) eqn:Off; [|split; [reflexivity|exact Off]].
    destruct o; [|split; [reflexivity|exact Off]].
    destruct (_ <? _); (split; [reflexivity|exact Off]). }
  destruct E as [-> ->]. unfold next1. destruct (is_on m) eqn:On.
  - unfold cut1. rewrite (on_not_off m On). apply IH.
  - destruct (is_off m) eqn:Off; [|apply IH].
    destruct o as [on|]; [|apply IH]. cbn [map shorten]. rewrite IH. f_equal.
    unfold cut1. rewrite Off. destruct (maxlen <? m_time m - m_time on); [|reflexivity].
    cbn [m_time set_time]. f_equal. f_equal. lia.
Qed.

(* ================================================================ the theorems *)
Lemma sort_abs_perm l : Permutation (sort_abs l) l.
Proof.
  induction l as [|x l IH]; [constructor|]. cbn [sort_abs].
  assert (P : forall y s, Permutation (ins_sorted y s) (y :: s)).
  { intros y s. induction s as [|z s IHs]; cbn [ins_sorted]; [apply Permutation_refl|].
    destruct (key_le y z); [apply Permutation_refl|].
    eapply Permutation_trans; [apply perm_skip, IHs|apply perm_swap]. }
  eapply Permutation_trans; [apply P|]. now apply perm_skip.
Qed.

Lemma length_cut_spec maxlen red s : forall o, length (cut_spec maxlen red o s) = length s.
Proof. induction s as [|m s IH]; intros o; [reflexivity|]. cbn [cut_spec length]. now rewrite IH. Qed.

Lemma C18_cutoff_length l maxlen red : length (cutoff l maxlen red) = length l.
Proof.
  rewrite cutoff_spec. rewrite (Permutation_length (sort_abs_perm _)), length_cut_spec.
  apply Permutation_length, sort_abs_perm.
Qed.

Lemma not_off_cut_msg maxlen red o m : is_off m = false -> cut_msg maxlen red o m = m.
Proof. intros H. unfold cut_msg. now rewrite H. Qed.

(* everything that is not a NOTE_OFF is untouched, and keeps its order (no hypothesis on maxlen / red) *)
Lemma C18_cutoff_others l maxlen red :
  filter (fun m => negb (is_off m)) (cutoff l maxlen red) = filter (fun m => negb (is_off m)) (sort_abs l).
Proof.
  rewrite cutoff_spec, filter_sort.
  rewrite filter_cut_spec_other.
  - apply sort_sorted_id, ssorted_filter, ssorted_sort.
  - intros m H. now apply negb_true_iff in H.
  - intros o m. now rewrite (proj1 (proj2 (cut_msg_fields maxlen red o m))).
Qed.

Lemma C18_cutoff_key l maxlen red k : 0 < red -> red <= maxlen ->
  N k (cutoff l maxlen red) = cut_key maxlen red None (N k (sort_abs l)).
Proof.
  intros R1 R2. rewrite cutoff_spec. unfold N at 1. rewrite filter_sort.
  fold (N k (cut_spec maxlen red onone (sort_abs l))). rewrite N_cut_spec.
  apply sort_sorted_id, cut_key_sorted; try assumption.
  apply ssorted_filter, ssorted_sort.
Qed.

Lemma C18_cutoff_notes l maxlen red k : 0 < red -> red <= maxlen ->
  notes1 None (N k (cutoff l maxlen red)) = map (shorten maxlen red) (notes1 None (N k (sort_abs l))).
Proof. intros R1 R2. rewrite C18_cutoff_key by assumption. apply notes1_cut_key. Qed.

(* all note-ons (hence all onsets) are untouched and keep their order; same for all non-note messages *)
Lemma C18_cutoff_ons l maxlen red : filter is_on (cutoff l maxlen red) = filter is_on (sort_abs l).
Proof.
  rewrite cutoff_spec, filter_sort. rewrite filter_cut_spec_other.
  - apply sort_sorted_id, ssorted_filter, ssorted_sort.
  - exact on_not_off.
  - intros o m. exact (proj1 (cut_msg_fields maxlen red o m)).
Qed.

Lemma C18_cutoff_nonnotes l maxlen red :
  filter (fun m => negb (is_note m)) (cutoff l maxlen red) = filter (fun m => negb (is_note m)) (sort_abs l).
Proof.
  rewrite cutoff_spec, filter_sort. rewrite filter_cut_spec_other.
  - apply sort_sorted_id, ssorted_filter, ssorted_sort.
  - intros m H. apply negb_true_iff in H. unfold is_note in H. now apply orb_false_iff in H.
  - intros o m. destruct (cut_msg_fields maxlen red o m) as (E1 & E2 & _). unfold is_note. now rewrite E1, E2.
Qed.

(* ================================================================ well-formed input *)
(* strict alternation NOTE_ON / NOTE_OFF within one key, every NOTE_OFF strictly later than its NOTE_ON *)
Fixpoint altk (o : option msg) (L : list msg) : bool :=
  match L with
  | [] => true
  | m :: L' =>
      if is_on m then match o with None => altk (Some m) L' | Some _ => false end
      else if is_off m then match o with Some on => (m_time on <? m_time m) && altk None L' | None => false end
      else false
  end.
Definition wf_abs (l : list msg) : bool :=
  forallb (fun m => altk None (N (kof m) (sort_abs l))) (filter is_note l).

(* on such a list the library's matching rule pairs each NOTE_ON with the message right after it *)
Fixpoint pairs (L : list msg) : list (Z * Z * Z) :=
  match L with
  | on :: off :: L' => (m_time on, m_time off - m_time on, m_vel on) :: pairs L'
  | _ => []
  end.

Lemma notes1_pairs L :
  (altk None L = true -> notes1 None L = pairs L) /\
  (forall on, altk (Some on) L = true -> notes1 (Some on) L = pairs (on :: L)).
Proof.
  induction L as [|m L [IH1 IH2]]; [split; reflexivity|]. split.
  - cbn [altk notes1]. destruct (is_on m); [|destruct (is_off m); discriminate].
    intros H. now apply IH2.
  - intros on. cbn [altk notes1]. destruct (is_on m); [discriminate|]. destruct (is_off m); [|discriminate].
    intros H. apply andb_prop in H. destruct H as [_ H]. cbn [pairs]. f_equal. now apply IH1.
Qed.

Lemma wf_abs_all_keys l k : wf_abs l = true -> altk None (N k (sort_abs l)) = true.
Proof.
  intros W. destruct (N k (sort_abs l)) as [|m0 L0] eqn:E; [reflexivity|]. rewrite <- E.
  assert (I : In m0 (N k (sort_abs l))) by (rewrite E; now left).
  apply filter_In in I. destruct I as [I S]. unfold sel in S. apply andb_prop in S. destruct S as [Nt Ek].
  apply k2_eqb_true in Ek. subst k. unfold wf_abs in W. rewrite forallb_forall in W. apply W.
  apply filter_In. split; [|exact Nt]. exact (Permutation_in _ (sort_abs_perm l) I).
Qed.

(* cutting keeps a well-formed list well-formed *)
Lemma altk_cut_key maxlen red L : 0 < red -> forall o, altk o L = true -> altk o (cut_key maxlen red o L) = true.
Proof.
  intros R. induction L as [|m L IH]; intros o; [reflexivity|]. cbn [altk cut_key].
  assert (E : is_on (cut1 maxlen red o m) = is_on m /\ is_off (cut1 maxlen red o m) = is_off m).
  { unfold cut1. destruct (is_off m) eqn:Off; [|split; [reflexivity|exact Off]].
    destruct o; [|split; [reflexivity|exact Off]].
    destruct (_ <? _); (split; [reflexivity|exact Off]). }
  destruct E as [-> ->]. unfold next1. destruct (is_on m) eqn:On.
  - destruct o; [discriminate|]. unfold cut1. rewrite (on_not_off m On). apply IH.
  - destruct (is_off m) eqn:Off; [|discriminate]. destruct o as [on|]; [|discriminate].
    intros H. apply andb_prop in H. destruct H as [H1 H2]. rewrite (IH None H2), andb_true_r.
    unfold cut1. rewrite Off. destruct (maxlen <? m_time m - m_time on); [|exact H1]. cbn [m_time set_time]. apply Z.ltb_lt. lia.
Qed.

Lemma cutoff_sorted l maxlen red : sort_abs (cutoff l maxlen red) = cutoff l maxlen red.
Proof. rewrite cutoff_spec. apply sort_sorted_id, ssorted_sort. Qed.

Lemma C18_cutoff_wf l maxlen red : wf_abs l = true -> 0 < red -> red <= maxlen -> wf_abs (cutoff l maxlen red) = true.
Proof.
  intros W R1 R2. unfold wf_abs. apply forallb_forall. intros m _.
  rewrite cutoff_sorted, C18_cutoff_key by assumption.
  apply altk_cut_key; [exact R1|]. now apply wf_abs_all_keys.
Qed.

(* on well-formed input the notes of a key are the adjacent (NOTE_ON, NOTE_OFF) pairs of its list, before and after *)
Lemma C18_cutoff_pairs l maxlen red k : wf_abs l = true -> 0 < red -> red <= maxlen ->
  pairs (N k (cutoff l maxlen red)) = map (shorten maxlen red) (pairs (N k (sort_abs l))).
Proof.
  intros W R1 R2.
  rewrite <- (proj1 (notes1_pairs (N k (sort_abs l))) (wf_abs_all_keys l k W)).
  rewrite <- (proj1 (notes1_pairs (N k (cutoff l maxlen red)))).
  - now apply C18_cutoff_notes.
  - rewrite <- cutoff_sorted. apply wf_abs_all_keys. now apply C18_cutoff_wf.
Qed.

(* ================================================================ examples, and why 0 < red <= maxlen is needed *)
Definition ex_cut : list msg :=
  [mk_on 0 60 100 0 false; mk_off 0 60 100 false; mk_on 0 62 90 10 false; mk_off 0 62 20 false;
   mk_on 1 60 80 0 false; mk_off 1 60 30 false; mk_cc 0 7 100 5 false; mk_on 0 60 70 100 false; mk_off 0 60 130 false].
Example C18_cutoff_ex :
  wf_abs ex_cut = true /\
  pairs (N (0, 60) (sort_abs ex_cut)) = [(0, 100, 100); (100, 30, 70)] /\
  pairs (N (0, 60) (cutoff ex_cut 30 24)) = [(0, 24, 100); (100, 30, 70)] /\
  pairs (N (0, 62) (cutoff ex_cut 30 24)) = [(10, 10, 90)] /\
  pairs (N (1, 60) (cutoff ex_cut 29 24)) = [(0, 24, 80)].
Proof. vm_compute. repeat split; reflexivity. Qed.

(* red = 0: the shortened NOTE_OFF lands on the tick of its NOTE_ON and sorts before it *)
Lemma C18_cutoff_needs_red_pos : exists l maxlen k,
  wf_abs l = true /\ N k (cutoff l maxlen 0) <> cut_key maxlen 0 None (N k (sort_abs l)) /\ wf_abs (cutoff l maxlen 0) = false.
Proof.
  exists [mk_on 0 60 100 0 false; mk_off 0 60 100 false], 10, (0, 60). vm_compute. repeat split; discriminate.
Qed.

(* red > maxlen: the replacement can push a NOTE_OFF behind the next NOTE_ON of the same pitch *)
Lemma C18_cutoff_needs_red_le : exists l maxlen red k,
  wf_abs l = true /\ 0 < red /\ N k (cutoff l maxlen red) <> cut_key maxlen red None (N k (sort_abs l)) /\
  wf_abs (cutoff l maxlen red) = false.
Proof.
  exists [mk_on 0 60 100 0 false; mk_off 0 60 100 false; mk_on 0 60 100 100 false; mk_off 0 60 150 false], 10, 120, (0, 60).
  vm_compute. repeat split; discriminate.
Qed.

(* ================================================================ the clause, assembled *)
Lemma C18_cutoff l maxlen red : 0 < red -> red <= maxlen ->
  length (cutoff l maxlen red) = length l /\
  filter (fun m => negb (is_note m)) (cutoff l maxlen red) = filter (fun m => negb (is_note m)) (sort_abs l) /\
  filter is_on (cutoff l maxlen red) = filter is_on (sort_abs l) /\
  forall k, N k (cutoff l maxlen red) = cut_key maxlen red None (N k (sort_abs l)) /\
            notes1 None (N k (cutoff l maxlen red)) = map (shorten maxlen red) (notes1 None (N k (sort_abs l))).
Proof.
  intros R1 R2. split; [apply C18_cutoff_length|]. split; [apply C18_cutoff_nonnotes|].
  split; [apply C18_cutoff_ons|]. intros k. split; [now apply C18_cutoff_key|now apply C18_cutoff_notes].
Qed.
