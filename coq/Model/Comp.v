(* Comp.v -- Bar / Track / Composition objects (scoda/elements/{bar,track,composition}.py): value-level model on top of
   the Sequence wrapper of Store.v.  A bar owns a Sequence; a track is a list of bars with an optional program; a
   composition is a list of tracks. *)
From Model Require Export Store.

Record cbar : Set := mkcbar { cb_seq : seq; cb_num : Z; cb_den : Z; cb_key : option Key }.
Record ctrack : Set := mkctrack { ct_bars : list cbar; ct_program : option Z }.
Definition comp : Set := list ctrack.

(* Bar(sequence, num, den, key): normalises, pads, checks, re-inserts the signature; the sequence ends with its
   relative view fresh and its absolute view stale *)
Definition cbar_new (s : seq) (num den : Z) (key : option Key) : result cbar :=
  do '(s1, r) <- get_rel s;
  do r' <- bar_init r num den;
  Ok (mkcbar (mkseq (s_abs s1) r' true false) num den key).

Definition cbar_copy (b : cbar) : result cbar := cbar_new (seq_copy (cb_seq b)) (cb_num b) (cb_den b) (cb_key b).

(* Bar.transpose: the key attribute first, then Sequence.transpose *)
Definition cbar_transpose (b : cbar) (k : Z) : result (cbar * bool) :=
  let key := match cb_key b with Some ky => transpose_key ky k | None => None end in
  do '(s', f) <- seq_transpose (cb_seq b) k;
  Ok (mkcbar s' (cb_num b) (cb_den b) key, f).

(* Bar.to_sequence(bars): Sequence().concatenate([bar.sequence ...]) -- reads every bar's relative view *)
Fixpoint bars_rels (bs : list cbar) : result (list cbar * list (list msg)) :=
  match bs with
  | [] => Ok ([], [])
  | b :: bs' => do '(s1, r) <- get_rel (cb_seq b); do '(bs1, rs) <- bars_rels bs';
                Ok (mkcbar s1 (cb_num b) (cb_den b) (cb_key b) :: bs1, r :: rs)
  end.
Definition bars_to_sequence (bs : list cbar) : result (list cbar * seq) :=
  do '(bs1, rs) <- bars_rels bs; Ok (bs1, mkseq [] (concat rs) true false).

(* Track(bars): the program is the common program of all PROGRAM_CHANGE messages, TrackException when they differ *)
Definition track_new (bs : list cbar) : result ctrack :=
  do '(bs1, s) <- bars_to_sequence bs;
  let pcs := filter (fun m => mtype_eqb (m_type m) PROGRAM_CHANGE) (s_rel s) in
  match pcs with
  | [] => Ok (mkctrack bs1 None)
  | p :: _ => if forallb (fun m => Z.eqb (m_prog m) (m_prog p)) pcs then Ok (mkctrack bs1 (Some (m_prog p))) else Err TrackErr
  end.

(* Composition.from_sequences(sequences, meta_track_index): bars with note-length re-quantisation, one Track each *)
Definition comp_from_sequences (rels : list (list msg)) (meta : nat) : result comp :=
  do bars <- split_bars rels (to_abs (nth meta rels [])) true;
  mapM (fun tb : list bar => track_new (map (fun b => mkcbar (mkseq [] (b_rel b) true false) (b_num b) (b_den b) (b_key b)) tb)) bars.

Definition ctrack_copy (t : ctrack) : result ctrack := do bs <- mapM cbar_copy (ct_bars t); track_new bs.
Definition comp_copy (c : comp) : result comp := mapM ctrack_copy c.
Definition comp_to_sequences (c : comp) : result (list seq) :=
  mapM (fun t => do '(_, s) <- bars_to_sequence (ct_bars t); Ok s) c.

(* apply f to bar bi of track ti *)
Definition comp_on_bar (c : comp) (ti bi : nat) (f : cbar -> result cbar) : result comp :=
  match nth_error c ti with
  | None => Err IndexErr
  | Some t => match nth_error (ct_bars t) bi with
              | None => Err IndexErr
              | Some b => do b' <- f b; Ok (set_nth ti (fun _ => mkctrack (set_nth bi (fun _ => b') (ct_bars t)) (ct_program t)) c)
              end
  end.
